(* Properties/C08.v — protocol handlers and payload-level decoders terminate without panic.
   Only statements, each closed by [exact] of a lemma proved in Proofs/.
   [safe r] is [r <> Panic /\ r <> Fuel] (Base/Prelude.v). *)
From PV Require Import Base.Prelude Base.Slice.
From PV Require Import Model.NDPOptions Model.MiscHopByHop Model.HandlersLoop Model.HandlersDnsMsg.
From PV Require Import Model.MiscDecoders Model.HandlersProc.
From PV Require Import Proofs.NDPOptions Proofs.MiscHopByHop Proofs.HandlersDnsMsg Proofs.MiscDecoders Proofs.HandlersProc.
Open Scope N_scope.

(* ---------------------------------------------------------------- *)
(* NDP options: newParseOptions + every option unmarshal (layer_icmp6_options.go).
   [lbl_ok] is the third-party label validation inside DNSSearchList.unmarshal (puny):
   universally quantified. Slices carry length and capacity. *)

(* full-strength statement is false on the code as it is (DESIGN section 11 #12): *)
Theorem C08_ndp_options_loop_refuted : forall lbl_ok t rest,
  panics_type t = false ->
  forall fuel, new_parse_options lbl_ok fuel (of_bytes (t :: 0 :: rest)) = Fuel.
Proof. exact new_parse_options_loop_refuted. Qed.
Print Assumptions C08_ndp_options_loop_refuted.

Theorem C08_ndp_options_panic_refuted : forall lbl_ok t rest,
  panics_type t = true ->
  forall fuel, (0 < fuel)%nat -> new_parse_options lbl_ok fuel (of_bytes (t :: 0 :: rest)) = Panic.
Proof. exact new_parse_options_panic_refuted. Qed.
Print Assumptions C08_ndp_options_panic_refuted.

(* outside the class "the option walk reaches an option with length byte 0": total,
   fuel bound linear in the input length *)
Theorem C08_ndp_options_partial : forall lbl_ok b, wf b ->
  known_C08_ndp_zero b = ZNone ->
  forall fuel, (len b < fuel)%nat ->
  new_parse_options lbl_ok fuel b <> Panic /\ new_parse_options lbl_ok fuel b <> Fuel.
Proof. exact new_parse_options_partial. Qed.
Print Assumptions C08_ndp_options_partial.

(* the two keys are exact: a panic only in the panic class, non-termination only in the loop class *)
Theorem C08_ndp_options_keys_exact : forall lbl_ok b, wf b ->
  forall fuel, (len b < fuel)%nat ->
  (new_parse_options lbl_ok fuel b = Panic -> known_C08_ndp_zero_panic b = true) /\
  (new_parse_options lbl_ok fuel b = Fuel -> known_C08_ndp_zero_loop b = true).
Proof. exact new_parse_options_panic_only_known. Qed.
Print Assumptions C08_ndp_options_keys_exact.

(* the exported entry points ICMP6RouterAdvertisement.Options / ICMP6RouterSolicitation.Options *)
Theorem C08_ra_options_partial : forall lbl_ok p, wf p ->
  known_C08_ndp_zero (mkSlice (skipn 16 (arr p)) (len p - 16)) = ZNone ->
  forall fuel, (len p < fuel)%nat ->
  ra_options lbl_ok fuel p <> Panic /\ ra_options lbl_ok fuel p <> Fuel.
Proof. exact ra_options_partial. Qed.
Print Assumptions C08_ra_options_partial.

Theorem C08_rs_options_partial : forall lbl_ok p, wf p ->
  known_C08_ndp_zero (mkSlice (skipn 24 (arr p)) (len p - 24)) = ZNone ->
  forall fuel, (len p < fuel)%nat ->
  rs_options lbl_ok fuel p <> Panic /\ rs_options lbl_ok fuel p <> Fuel.
Proof. exact rs_options_partial. Qed.
Print Assumptions C08_rs_options_partial.

Example C08_ndp_options_nonvacuous :
  bytes_ok sample_opts /\ known_C08_ndp_zero (of_bytes sample_opts) = ZNone /\
  new_parse_options (fun _ => true) 200 (of_bytes sample_opts) = Ok tt.
Proof. exact sample_opts_nonvacuous. Qed.
Print Assumptions C08_ndp_options_nonvacuous.

(* ---------------------------------------------------------------- *)
(* ParseHopByHopExtensions (layer_ip6.go:113) *)

Theorem C08_hopbyhop_refuted :
  exists p, wf p /\ bytes_ok (arr p) /\ forall fuel, hbh_parse fuel p = Panic.
Proof. exact hbh_parse_refuted. Qed.
Print Assumptions C08_hopbyhop_refuted.

Theorem C08_hopbyhop_partial : forall p, wf p -> known_C08_hbh_short p = false ->
  forall fuel, (cap p <= fuel)%nat -> hbh_parse fuel p <> Panic /\ hbh_parse fuel p <> Fuel.
Proof. exact hbh_parse_partial. Qed.
Print Assumptions C08_hopbyhop_partial.

Theorem C08_hopbyhop_known_exact : forall p, wf p -> known_C08_hbh_short p = true ->
  forall fuel, hbh_parse fuel p = Panic.
Proof. exact hbh_parse_short_panics. Qed.
Print Assumptions C08_hopbyhop_known_exact.

(* after the library's own IsValid the decoder is total *)
Theorem C08_hopbyhop_valid_total : forall p, wf p -> hbh_is_valid p = true ->
  forall fuel, (len p <= fuel)%nat -> hbh_parse fuel p <> Panic /\ hbh_parse fuel p <> Fuel.
Proof. exact hbh_parse_valid. Qed.
Print Assumptions C08_hopbyhop_valid_total.

Example C08_hopbyhop_nonvacuous :
  let p := of_bytes [58; 0; 5; 2; 0; 0; 1; 0; 1; 2] in
  wf p /\ hbh_is_valid p = true /\ known_C08_hbh_short p = false /\ hbh_parse 10 p = Ok tt.
Proof. exact hbh_nonvacuous. Qed.
Print Assumptions C08_hopbyhop_nonvacuous.

(* ---------------------------------------------------------------- *)
(* ProcessMDNS (handlers/dns_naming/mdns.go:314) over the abstract dnsmessage.Parser state
   machine: quantified over ALL structured messages (any counts, any record stream). *)

(* full statement refuted (DESIGN section 11 #20): a record the loop hands to p.SkipAnswer()
   while the parser is in the authority/additional section is never consumed *)
Theorem C08_mdns_outside_answers_refuted :
  known_C08_mdns mdns_w_authority = MOutsideAnswers /\
  forall fuel, process_mdns fuel mdns_w_authority = Fuel.
Proof. exact mdns_refuted_authority. Qed.
Print Assumptions C08_mdns_outside_answers_refuted.

(* second class, inside the answer section: the error of SkipAnswer (RDLENGTH beyond the
   message) is ignored and the same record is parsed again *)
Theorem C08_mdns_skip_error_refuted :
  known_C08_mdns mdns_w_answer_nofit = MSkipFailed /\
  forall fuel, process_mdns fuel mdns_w_answer_nofit = Fuel.
Proof. exact mdns_refuted_answer_nofit. Qed.
Print Assumptions C08_mdns_skip_error_refuted.

Theorem C08_mdns_partial : forall m, known_C08_mdns m = MNone ->
  forall fuel, (2 * length (m_recs m) + 8 <= fuel)%nat ->
  process_mdns fuel m <> Panic /\ process_mdns fuel m <> Fuel.
Proof. exact process_mdns_partial. Qed.
Print Assumptions C08_mdns_partial.

(* the class is exact: every message in it spins for ever (and never panics) *)
Theorem C08_mdns_known_exact : forall m, known_C08_mdns m <> MNone ->
  forall fuel, process_mdns fuel m = Fuel.
Proof. exact process_mdns_known_spins. Qed.
Print Assumptions C08_mdns_known_exact.

Example C08_mdns_nonvacuous :
  known_C08_mdns mdns_w_good = MNone /\ process_mdns 16 mdns_w_good = Ok tt.
Proof. exact mdns_nonvacuous. Qed.
Print Assumptions C08_mdns_nonvacuous.

(* ---------------------------------------------------------------- *)
(* ProcessNBNS (nbns.go:223) + parseNodeNameArray (nbns.go:172, byte level) *)

Theorem C08_nbns_name_answer_refuted : forall fuel, process_nbns fuel true nbns_w_name_answer = Fuel.
Proof. exact nbns_refuted_name_answer. Qed.
Print Assumptions C08_nbns_name_answer_refuted.

Theorem C08_nbns_unknown_answer_refuted : forall fuel, process_nbns fuel true nbns_w_unknown_answer = Fuel.
Proof. exact nbns_refuted_unknown_answer. Qed.
Print Assumptions C08_nbns_unknown_answer_refuted.

(* the node status decoder (as repaired by d1f1b32), byte level with capacity: total *)
Theorem C08_nbns_array_total : forall b, wf b ->
  node_status_response b <> Panic /\ node_status_response b <> Fuel.
Proof. exact node_status_total. Qed.
Print Assumptions C08_nbns_array_total.

Theorem C08_nbns_partial : forall m valid, known_C08_nbns valid m = NNone ->
  forall fuel, (2 * length (m_recs m) + 4 <= fuel)%nat ->
  process_nbns fuel valid m <> Panic /\ process_nbns fuel valid m <> Fuel.
Proof. exact process_nbns_partial. Qed.
Print Assumptions C08_nbns_partial.

Example C08_nbns_nonvacuous :
  known_C08_nbns true nbns_w_good = NNone /\ process_nbns 10 true nbns_w_good = Ok tt.
Proof. exact nbns_nonvacuous. Qed.
Print Assumptions C08_nbns_nonvacuous.

(* ---------------------------------------------------------------- *)
(* DHCP4.IsValid / validateOptions / ParseOptions (layer_dhcp4.go): total for every slice *)
Theorem C08_dhcp_parse_options_total : forall p, wf p ->
  forall fuel, (len p < fuel)%nat ->
  dhcp_parse_options fuel p <> Panic /\ dhcp_parse_options fuel p <> Fuel.
Proof. exact dhcp_parse_options_total. Qed.
Print Assumptions C08_dhcp_parse_options_total.

Theorem C08_dhcp_is_valid_total : forall p, wf p ->
  forall fuel, (len p < fuel)%nat -> dhcp_is_valid fuel p <> Panic /\ dhcp_is_valid fuel p <> Fuel.
Proof. exact dhcp_is_valid_total. Qed.
Print Assumptions C08_dhcp_is_valid_total.

Example C08_dhcp_nonvacuous :
  bytes_ok dhcp_sample /\ dhcp_is_valid 300 (of_bytes dhcp_sample) = Ok tt /\
  dhcp_parse_options 300 (of_bytes dhcp_sample) = Ok tt.
Proof. exact dhcp_nonvacuous. Qed.
Print Assumptions C08_dhcp_nonvacuous.

(* Process8023Frame gates (layer_802_3.go:107): total *)
Theorem C08_process_8023_total : forall payload, wf payload ->
  process_8023 payload <> Panic /\ process_8023 payload <> Fuel.
Proof. exact process_8023_total. Qed.
Print Assumptions C08_process_8023_total.

(* LLDP.GetPDU (layer_ethernet.go:277): DESIGN section 11 #7 *)
Theorem C08_lldp_refuted :
  bytes_ok lldp_w /\ known_C08_lldp_short_tlv (of_bytes lldp_w) 3 = true /\
  forall fuel, (8 < fuel)%nat -> lldp_get_pdu fuel (of_bytes lldp_w) 3 0 = Panic.
Proof. exact lldp_refuted. Qed.
Print Assumptions C08_lldp_refuted.

Theorem C08_lldp_partial : forall p pdu, wf p -> known_C08_lldp_short_tlv p pdu = false ->
  forall fuel, (len p < fuel)%nat ->
  lldp_get_pdu fuel p pdu 0 <> Panic /\ lldp_get_pdu fuel p pdu 0 <> Fuel.
Proof. exact lldp_get_pdu_partial. Qed.
Print Assumptions C08_lldp_partial.

Theorem C08_lldp_known_exact : forall p pdu, wf p -> known_C08_lldp_short_tlv p pdu = true ->
  forall fuel, (len p < fuel)%nat -> lldp_get_pdu fuel p pdu 0 = Panic.
Proof. exact lldp_get_pdu_known_panics. Qed.
Print Assumptions C08_lldp_known_exact.

Example C08_lldp_nonvacuous :
  known_C08_lldp_short_tlv (of_bytes lldp_good) 3 = false /\ lldp_get_pdu 30 (of_bytes lldp_good) 3 0 = Ok tt.
Proof. exact lldp_nonvacuous. Qed.
Print Assumptions C08_lldp_nonvacuous.

(* SSDP: CACHE-CONTROL parsing (ssdp.go:66, byte level) and processSSDP* over the structured
   view of the net/http result: DESIGN section 11 #21 *)
Theorem C08_ssdp_cache_control_refuted :
  bytes_ok ssdp_cc_w /\ known_C08_ssdp_cc ssdp_cc_w = true /\ cache_control ssdp_cc_w = Panic.
Proof. exact ssdp_cc_refuted. Qed.
Print Assumptions C08_ssdp_cache_control_refuted.

Theorem C08_ssdp_cache_control_classified : forall v,
  if known_C08_ssdp_cc v then cache_control v = Panic
  else cache_control v <> Panic /\ cache_control v <> Fuel.
Proof. exact cache_control_classified. Qed.
Print Assumptions C08_ssdp_cache_control_classified.

Theorem C08_ssdp_classified : forall v,
  if known_C08_ssdp v then process_ssdp v = Panic
  else process_ssdp v <> Panic /\ process_ssdp v <> Fuel.
Proof. exact process_ssdp_classified. Qed.
Print Assumptions C08_ssdp_classified.

Example C08_ssdp_nonvacuous : known_C08_ssdp_cc ssdp_cc_good = false /\ cache_control ssdp_cc_good = Ok tt.
Proof. exact ssdp_cc_nonvacuous. Qed.
Print Assumptions C08_ssdp_nonvacuous.

(* ---------------------------------------------------------------- *)
(* processors: byte-access skeletons (Model/HandlersProc.v) *)
Theorem C08_arp_total : forall p, wf p -> arp_process p <> Panic /\ arp_process p <> Fuel.
Proof. exact arp_process_total. Qed.
Print Assumptions C08_arp_total.

Theorem C08_dhcp4_total : forall p, wf p -> forall fuel, (len p < fuel)%nat ->
  dhcp4_process fuel p <> Panic /\ dhcp4_process fuel p <> Fuel.
Proof. exact dhcp4_process_total. Qed.
Print Assumptions C08_dhcp4_total.

Theorem C08_icmp4_refuted :
  bytes_ok icmp4_w /\ known_C08_icmp4_inner (of_bytes icmp4_w) = true /\ icmp4_process (of_bytes icmp4_w) = Panic.
Proof. exact icmp4_refuted. Qed.
Print Assumptions C08_icmp4_refuted.

Theorem C08_icmp4_classified : forall p, wf p ->
  if known_C08_icmp4_inner p then icmp4_process p = Panic
  else icmp4_process p <> Panic /\ icmp4_process p <> Fuel.
Proof. exact icmp4_process_classified. Qed.
Print Assumptions C08_icmp4_classified.

Example C08_icmp4_nonvacuous :
  known_C08_icmp4_inner (of_bytes icmp4_good) = false /\ icmp4_process (of_bytes icmp4_good) = Ok tt.
Proof. exact icmp4_nonvacuous. Qed.
Print Assumptions C08_icmp4_nonvacuous.

Theorem C08_icmp6_partial : forall lbl_ok p ra_processed, wf p ->
  (nth 0 (arr p) 0 = 134 -> ra_processed = true ->
   known_C08_ndp_zero (mkSlice (skipn 16 (arr p)) (len p - 16)) = ZNone) ->
  forall fuel, (len p < fuel)%nat ->
  icmp6_process lbl_ok fuel ra_processed p <> Panic /\ icmp6_process lbl_ok fuel ra_processed p <> Fuel.
Proof. exact icmp6_process_partial. Qed.
Print Assumptions C08_icmp6_partial.
