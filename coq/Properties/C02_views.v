(* Properties/C02_views.v -- C02, view types: every getter of a valid view returns the value at its
   RFC-defined position.  [getters_spec fs t st v] = the getter table t and the spec table st
   (Spec/Views.v: bit-offset/width fields and sub-ranges per RFC, written independently of the code)
   have the same names in the same order and, unless (name, v) is in a recorded defect class of fs,
   g v = Ok (spec (view v)) where view v are the bytes within the length.
   Only statements, each closed by [exact]; proofs in Proofs/Views*.v. *)
From PV Require Import Model.ViewsDispatch Model.ViewsShow Spec.Views Proofs.ViewsBase Proofs.Views5 Proofs.Views Proofs.Views2 Proofs.Views3 Proofs.Views4 Proofs.Views6 Proofs.ViewsLen.
Open Scope N_scope.

Theorem C02_ARP_getters_spec : forall v, wf v -> bytes_ok (arr v) ->
  ARP_IsValid v = Ok true -> getters_spec [] ARP_getters ARP_specs v.
Proof. exact ARP_spec. Qed.
Print Assumptions C02_ARP_getters_spec.

Theorem C02_DHCP4_getters_spec : forall v, wf v -> bytes_ok (arr v) ->
  DHCP4_IsValid v = Ok true -> getters_spec [] DHCP4_getters DHCP4_specs v.
Proof. exact DHCP4_spec. Qed.
Print Assumptions C02_DHCP4_getters_spec.

Theorem C02_DNS_getters_spec : forall v, wf v -> bytes_ok (arr v) ->
  DNS_IsValid v = Ok true -> getters_spec [] DNS_getters DNS_specs v.
Proof. exact DNS_spec. Qed.
Print Assumptions C02_DNS_getters_spec.

Theorem C02_Ether_getters_spec_partial : forall v, wf v -> bytes_ok (arr v) ->
  Ether_IsValid v = Ok true -> getters_spec Ether_findings Ether_getters Ether_specs v.
Proof. exact Ether_spec. Qed.
Print Assumptions C02_Ether_getters_spec_partial.

Theorem C02_Pause_getters_spec : forall v, wf v -> bytes_ok (arr v) ->
  Pause_IsValid v = Ok true -> getters_spec [] Pause_getters Pause_specs v.
Proof. exact Pause_spec. Qed.
Print Assumptions C02_Pause_getters_spec.

(* ParseHopByHopExtensions = the RFC 8200 4.2 tiling of the options area by acceptable options (Pad1, PadN, router
   alert of length 2, jumbo payload of length 4, unrecognised options only with action bits 00), for every valid
   header (full since the repairs ddd494c / 3430bd4 of the two classes recorded in round 2) *)
Theorem C02_HBH_getters_spec : forall v, wf v -> bytes_ok (arr v) ->
  HBH_IsValid v = Ok true -> getters_spec [] HBH_getters HBH_specs v.
Proof. exact HBH_spec. Qed.
Print Assumptions C02_HBH_getters_spec.

Theorem C02_ICMP_getters_spec : forall v, wf v -> bytes_ok (arr v) ->
  ICMP_IsValid v = Ok true -> getters_spec [] ICMP_getters ICMP_specs v.
Proof. exact ICMP_spec. Qed.
Print Assumptions C02_ICMP_getters_spec.

Theorem C02_NA_getters_spec : forall v, wf v -> bytes_ok (arr v) ->
  NA_IsValid v = Ok true -> getters_spec [] NA_getters NA_specs v.
Proof. exact NA_spec. Qed.
Print Assumptions C02_NA_getters_spec.

Theorem C02_NS_getters_spec : forall v, wf v -> bytes_ok (arr v) ->
  NS_IsValid v = Ok true -> getters_spec [] NS_getters NS_specs v.
Proof. exact NS_spec. Qed.
Print Assumptions C02_NS_getters_spec.

Theorem C02_Redirect6_getters_spec : forall v, wf v -> bytes_ok (arr v) ->
  Redirect6_IsValid v = Ok true -> getters_spec [] Redirect6_getters Redirect6_specs v.
Proof. exact Redirect6_spec. Qed.
Print Assumptions C02_Redirect6_getters_spec.

Theorem C02_RA_getters_spec : forall v, wf v -> bytes_ok (arr v) ->
  RA_IsValid v = Ok true -> getters_spec [] RA_getters RA_specs v.
Proof. exact RA_spec. Qed.
Print Assumptions C02_RA_getters_spec.

Theorem C02_ICMPEcho_getters_spec : forall v, wf v -> bytes_ok (arr v) ->
  ICMPEcho_IsValid v = Ok true -> getters_spec [] ICMPEcho_getters ICMPEcho_specs v.
Proof. exact ICMPEcho_spec. Qed.
Print Assumptions C02_ICMPEcho_getters_spec.

Theorem C02_IEEE1905_getters_spec : forall v, wf v -> bytes_ok (arr v) ->
  IEEE1905_IsValid v = Ok true -> getters_spec [] IEEE1905_getters IEEE1905_specs v.
Proof. exact IEEE1905_spec. Qed.
Print Assumptions C02_IEEE1905_getters_spec.

Theorem C02_IP4_getters_spec : forall v, wf v -> bytes_ok (arr v) ->
  IP4_IsValid v = Ok true -> getters_spec [] IP4_getters IP4_specs v.
Proof. exact IP4_spec. Qed.
Print Assumptions C02_IP4_getters_spec.

Theorem C02_IP6_getters_spec : forall v, wf v -> bytes_ok (arr v) ->
  IP6_IsValid v = Ok true -> getters_spec [] IP6_getters IP6_specs v.
Proof. exact IP6_spec. Qed.
Print Assumptions C02_IP6_getters_spec.

Theorem C02_RRCP_getters_spec : forall v, wf v -> bytes_ok (arr v) ->
  RRCP_IsValid v = Ok true -> getters_spec [] RRCP_getters RRCP_specs v.
Proof. exact RRCP_spec. Qed.
Print Assumptions C02_RRCP_getters_spec.

Theorem C02_SNAP_getters_spec : forall v, wf v -> bytes_ok (arr v) ->
  SNAP_IsValid v = Ok true -> getters_spec [] SNAP_getters SNAP_specs v.
Proof. exact SNAP_spec. Qed.
Print Assumptions C02_SNAP_getters_spec.

Theorem C02_TCP_getters_spec : forall v, wf v -> bytes_ok (arr v) ->
  TCP_IsValid v = Ok true -> getters_spec [] TCP_getters TCP_specs v.
Proof. exact TCP_spec. Qed.
Print Assumptions C02_TCP_getters_spec.

Theorem C02_UDP_getters_spec : forall v, wf v -> bytes_ok (arr v) ->
  UDP_IsValid v = Ok true -> getters_spec [] UDP_getters UDP_specs v.
Proof. exact UDP_spec. Qed.
Print Assumptions C02_UDP_getters_spec.

Theorem C02_U880a_getters_spec : forall v, wf v -> bytes_ok (arr v) ->
  U880a_IsValid v = Ok true -> getters_spec [] U880a_getters U880a_specs v.
Proof. exact U880a_spec. Qed.
Print Assumptions C02_U880a_getters_spec.

Theorem C02_RS_getters_spec : forall v, wf v -> bytes_ok (arr v) ->
  RS_IsValid v = Ok true -> getters_spec [] RS_getters RS_specs v.
Proof. exact RS_spec. Qed.
Print Assumptions C02_RS_getters_spec.

Theorem C02_R4_getters_spec : forall v, wf v -> bytes_ok (arr v) ->
  R4_IsValid v = Ok true -> getters_spec [] R4_getters R4_specs v.
Proof. exact R4_spec. Qed.
Print Assumptions C02_R4_getters_spec.

Theorem C02_LLC_getters_spec : forall v, wf v -> bytes_ok (arr v) ->
  LLC_IsValid v = Ok true -> getters_spec [] LLC_getters LLC_specs v.
Proof. exact LLC_spec. Qed.
Print Assumptions C02_LLC_getters_spec.

Theorem C02_LLDP_getters_spec : forall v, wf v -> bytes_ok (arr v) ->
  LLDP_IsValid v = Ok true -> getters_spec [] LLDP_getters LLDP_specs v.
Proof. exact LLDP_spec. Qed.
Print Assumptions C02_LLDP_getters_spec.

(* ---- the remaining refutation (recorded finding view-ether-payload-spare-capacity) ---- *)
Theorem C02_Ether_payload_refuted :
  exists v, wf v /\ bytes_ok (arr v) /\ Ether_IsValid v = Ok true /\ ~ getter_ok v Ether_Payload.
Proof. exact Ether_payload_refuted. Qed.
Print Assumptions C02_Ether_payload_refuted.

(* ---- non-vacuity ---- *)
Example C02_IP4_nonvacuous : wf ex_ip4 /\ bytes_ok (arr ex_ip4) /\ IP4_IsValid ex_ip4 = Ok true /\
  IP4_Fragment ex_ip4 = Ok (VN 8191) /\ IP4_Payload ex_ip4 = Ok (VR 24 4).
Proof. exact IP4_valid_ex. Qed.
Print Assumptions C02_IP4_nonvacuous.
Example C02_TCP_nonvacuous : wf ex_tcp /\ bytes_ok (arr ex_tcp) /\ TCP_IsValid ex_tcp = Ok true /\
  TCP_HeaderLen ex_tcp = Ok (VN 24) /\ TCP_Payload ex_tcp = Ok (VR 24 2).
Proof. exact TCP_valid_ex. Qed.
Print Assumptions C02_TCP_nonvacuous.
Example C02_Ether_nonvacuous : wf ex_ether /\ bytes_ok (arr ex_ether) /\ Ether_IsValid ex_ether = Ok true /\
  forallb (fun ng => negb (known_of Ether_findings (fst ng) ex_ether)) Ether_getters = true /\
  Ether_SrcIP ex_ether = Ok (VX [10;0;0;1]).
Proof. exact Ether_valid_ex. Qed.
Print Assumptions C02_Ether_nonvacuous.
Example C02_LLDP_nonvacuous : wf ex_lldp /\ bytes_ok (arr ex_lldp) /\ LLDP_IsValid ex_lldp = Ok true /\
  LLDP_ChassisID ex_lldp = Ok (VR 2 7) /\ LLDP_PortID ex_lldp = Ok (VR 11 3).
Proof. exact LLDP_valid_ex. Qed.
Print Assumptions C02_LLDP_nonvacuous.
Example C02_R4_nonvacuous : wf ex_r4 /\ bytes_ok (arr ex_r4) /\ R4_IsValid ex_r4 = Ok true /\
  R4_Addrs ex_r4 = Ok (VL [VR 8 4; VR 24 4]).
Proof. exact R4_valid_ex. Qed.
Print Assumptions C02_R4_nonvacuous.

(* ---- round 2: the recorded Ether class is the whole defect for C02 as well: inside the class the getter is
   Payload and its value differs from the spec (outside it C02_Ether_getters_spec_partial gives equality) ---- *)
Theorem C02_Ether_known_exact : forall v, wf v -> bytes_ok (arr v) -> Ether_IsValid v = Ok true ->
  forall name, known_of Ether_findings name v = true ->
  name = "Payload"%string /\ ~ getter_ok v Ether_Payload /\ Ether_Payload v <> Ok (Ether_Payload_spec (view v)).
Proof. exact Ether_known_exact_C02. Qed.
Print Assumptions C02_Ether_known_exact.
Theorem C02_Ether_Payload_spec_is : lookup "Payload" Ether_specs = Some (Some Ether_Payload_spec).
Proof. exact Ether_Payload_spec_is. Qed.
Print Assumptions C02_Ether_Payload_spec_is.

(* ---- round 2: RS/RA Options() ---- the decoded option block equals the positional option spec
   (Spec/ViewsNDP.v: each field at its RFC 4861 / 4191 / 8106 bit position inside its option, options folded in
   order) for every byte string; C02_RS_getters_spec / C02_RA_getters_spec above include Options() through it *)
Theorem C02_ndp_options_value_spec : forall b, bytes_ok b -> ndp_value b = ndp_spec b.
Proof. exact ndp_value_spec. Qed.
Print Assumptions C02_ndp_options_value_spec.
Theorem C02_ndp_options_getter_spec : forall k v, wf v -> bytes_ok (arr v) ->
  ndp_options_at k v = Ok (ndp_options_spec k (view v)).
Proof. exact ndp_options_at_spec. Qed.
Print Assumptions C02_ndp_options_getter_spec.

(* ---- round 7: Ether at full strength on frames with a payload / without spare capacity ---- *)
Theorem C02_Ether_full_on_payload_frames : forall v, wf v -> bytes_ok (arr v) -> Ether_IsValid v = Ok true ->
  (len v <> eth_hlen v \/ cap v = len v) -> getters_spec [] Ether_getters Ether_specs v.
Proof. intros v W B H D. exact (proj2 (Ether_full_on_payload_frames v W B H D)). Qed.
Print Assumptions C02_Ether_full_on_payload_frames.

(* ---- round 7b ---- *)
(* DECODERS ARE READ-ONLY AND IDEMPOTENT.  A call of a model getter / validator is the step
   [getter_step g store = (g store, store)]: the model has no write primitive (getters are compositions of idx, sl,
   slfrom, be16_at, be32_at on the store), so the store after the call is the store before it and a second call
   gives the same result.  True by construction; stated because it is what the harness ties on the implementation:
   every g / ga / gb call runs on a poisoned backing array (view + spare capacity) that is compared byte by byte
   before and after, and is made twice (observations obs!write@off / obs!again=... can only come from the
   implementation).  Returned slices: the model's [VR off n] has a length only; in the implementation NO getter clips
   the capacity (kind "caps": every aliasing getter is n/0 two-index / three-index), so append() on any returned
   slice would write into the frame -- listed in Model/ViewsDispatch.slice_census and docs/C02_views.md. *)
Theorem C02_getters_read_only : forall (g : getter) (s : slice),
  snd (getter_step g s) = s /\ getter_step g (snd (getter_step g s)) = getter_step g s.
Proof. exact getters_read_only. Qed.
Print Assumptions C02_getters_read_only.
Theorem C02_validators_read_only : forall (iv : slice -> res bool) (s : slice),
  snd (valid_step iv s) = s /\ valid_step iv (snd (valid_step iv s)) = valid_step iv s.
Proof. exact valid_read_only. Qed.
Print Assumptions C02_validators_read_only.

(* LLDP.Type(t): the 802.1AB table of TLV types (Spec/Views2.lldp_type_table), other types as their number *)
Theorem C02_LLDP_Type_spec : forall t,
  LLDP_Type_name t = match lookupN t lldp_type_table with Some s => s | None => dec_of_N t end.
Proof. exact LLDP_Type_spec. Qed.
Print Assumptions C02_LLDP_Type_spec.

(* LLDP.Capability(v) = 802.1AB table 8-4 (bit 0 = least significant = Other ... bit 4 Router ... bit 7 Station) for
   every byte string (full since the repair bf5afdb; before it the masks were mirrored: the refutation and the
   mirror characterisation of round 7b are replaced by this positive theorem and the old witness as an example) *)
Theorem C02_LLDP_Capability_spec : forall v, bytes_ok v -> LLDP_Capability_s v = lldp_capability_spec v.
Proof. exact LLDP_Capability_spec. Qed.
Print Assumptions C02_LLDP_Capability_spec.
Example C02_LLDP_Capability_nonvacuous :
  LLDP_Capability_s [0; 16] = "router"%string /\ LLDP_Capability_s [0; 20] = "bridge,router"%string /\ LLDP_Capability_s [7] = ""%string.
Proof. exact LLDP_Capability_ex. Qed.
Print Assumptions C02_LLDP_Capability_nonvacuous.
