(* Properties/C14.v — ICMPv6 spoofing is confined to hunted hosts; routers are
   learned exactly.  Only statements, each closed by [exact] of a lemma proved in Proofs/. *)
From PV Require Import Base.Prelude Model.Icmp6SpoofRA Model.Icmp6Spoof Spec.RFC4861 Proofs.Icmp6Spoof.
Open Scope N_scope.

(* Every forged neighbour advertisement emitted anywhere in any history (any
   interleaving of StartHunt/StopHunt/Close/loop wake-ups/received RAs, any
   value of the process-wide RA counter) goes to a MAC that is in the hunt
   list at emission, while the handler is not closed, after a router has been
   learned; its target is a learned router's address, bound to our MAC
   (target link-layer address option and Ethernet source), override set,
   solicited clear, hop limit 255. *)
Theorem C14_confined : forall c rep evs st e l,
  In (st, e, ONAs l) (fst (run c (init rep) evs)) -> forall n, In n l -> forged_ok c st n.
Proof. exact confined_run. Qed.
Print Assumptions C14_confined.

Example C14_confined_nonvacuous :
  exists st e n, In (st, e, ONAs [n]) (fst (run ex_cfg (init (-1)) ex_hist)) /\ na_eth_dst n = ex_mac.
Proof. exact confined_nonvacuous. Qed.
Print Assumptions C14_confined_nonvacuous.
