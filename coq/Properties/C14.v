(* Properties/C14.v — ICMPv6 spoofing is confined to hunted hosts; routers are
   learned exactly.  Only statements, each closed by [exact] of a lemma proved in Proofs/.
   Model: Model/Icmp6Spoof.v (event system), Model/Icmp6SpoofRA.v (RA decoding, byte exact),
   Model/Icmp6SpoofKnown.v (what "exactly" means field by field; recorded classes).
   Spec: Spec/RFC4861.v (independent RA decoder). *)
From PV Require Import Base.Prelude Base.Text Model.Icmp6SpoofRA Model.Icmp6Spoof Spec.RFC4861 Model.Icmp6SpoofKnown
  Proofs.Icmp6SpoofRA Proofs.Icmp6SpoofDnssl Proofs.Icmp6Spoof.
Open Scope N_scope.

(* ------------------------------------------------------------------ *)
(* C14_confined.  Every forged neighbour advertisement emitted anywhere in any history (any
   interleaving of StartHunt/StopHunt/Close/loop wake-ups/received RAs, any value of the
   process-wide RA counter) goes to a MAC that is in the hunt list at emission, while the
   handler is not closed, after a router has been learned; its target is a learned router's
   address, bound to our MAC (target link-layer address option and Ethernet source), override
   set, solicited clear, hop limit 255. *)
Theorem C14_confined : forall c rep evs st e l,
  In (st, e, ONAs l) (fst (run c (init rep) evs)) -> forall n, In n l -> forged_ok c st n.
Proof. exact confined_run. Qed.
Print Assumptions C14_confined.

Example C14_confined_nonvacuous :
  exists st e n, In (st, e, ONAs [n]) (fst (run ex_cfg (init (-1)) ex_hist)) /\ na_eth_dst n = ex_mac.
Proof. exact confined_nonvacuous. Qed.
Print Assumptions C14_confined_nonvacuous.

(* ------------------------------------------------------------------ *)
(* C14_start_filters *)
Theorem C14_start_rejects_ip4 : forall c st a, is4 (a_ip a) = true ->
  step c st (StartHunt a) = (st, OStage NoChange (Some EInvalidIP)).
Proof. exact start_rejects_ip4. Qed.
Print Assumptions C14_start_rejects_ip4.

Theorem C14_start_ignores_non_lla : forall c st a, is6 (a_ip a) = true -> is_llu (a_ip a) = false ->
  step c st (StartHunt a) = (st, OStage NoChange None).
Proof. exact start_ignores_non_lla. Qed.
Print Assumptions C14_start_ignores_non_lla.

(* idempotent per MAC: a hunted MAC is not added again and no second loop is started ... *)
Theorem C14_start_idempotent : forall c st a, al_has (hunt st) (a_mac a) = true ->
  is4 (a_ip a) = false -> (is6 (a_ip a) && negb (is_llu (a_ip a))) = false ->
  step c st (StartHunt a) = (st, OStage Hunt None).
Proof. exact start_idempotent. Qed.
Print Assumptions C14_start_idempotent.

(* ... and every accepted StartHunt leaves its MAC hunted *)
Theorem C14_start_then_hunted : forall c st a, snd (step c st (StartHunt a)) = OStage Hunt None ->
  al_has (hunt (fst (step c st (StartHunt a)))) (a_mac a) = true.
Proof. exact start_then_hunted. Qed.
Print Assumptions C14_start_then_hunted.

Theorem C14_start_new : forall c st a, al_has (hunt st) (a_mac a) = false ->
  is4 (a_ip a) = false -> (is6 (a_ip a) && negb (is_llu (a_ip a))) = false ->
  let st' := fst (step c st (StartHunt a)) in
  hunt st' = hunt st ++ [a] /\ List.length (loops st') = S (List.length (loops st)).
Proof. exact start_new. Qed.
Print Assumptions C14_start_new.

Example C14_start_filters_nonvacuous :
  is4 [192;168;0;10] = true /\
  (is6 (hexb "20010db8000000000000000000000001"%string) = true /\ is_llu (hexb "20010db8000000000000000000000001"%string) = false) /\
  (is4 (hexb "fe800000000000000000000000000001"%string) = false /\
   (is6 (hexb "fe800000000000000000000000000001"%string) && negb (is_llu (hexb "fe800000000000000000000000000001"%string))) = false).
Proof. exact start_filters_nonvacuous. Qed.
Print Assumptions C14_start_filters_nonvacuous.

(* ------------------------------------------------------------------ *)
(* C14_stop.  After StopHunt a (address-less or link-local a.ip: a StopHunt with any other
   address is ignored by design, symmetric with StartHunt), at any point of any history, no
   forged advertisement goes to a's MAC in any continuation that does not hunt that MAC again.
   Real-time residue: a loop pass already past its membership check when StopHunt returns. *)
Theorem C14_stop : forall c rep evs1 a evs2,
  stop_effective a -> no_start (a_mac a) evs2 ->
  let st := snd (run c (init rep) evs1) in
  let st1 := fst (step c st (StopHunt a)) in
  forall s e l, In (s, e, ONAs l) (fst (run c st1 evs2)) -> forall n, In n l -> bytes_eqb (na_eth_dst n) (a_mac a) = false.
Proof. exact stop_no_more. Qed.
Print Assumptions C14_stop.

Example C14_stop_nonvacuous :
  stop_effective (mkAddr ex_mac []) /\ no_start ex_mac ex_hist_stop2 /\
  (exists s e n, In (s, e, ONAs [n]) (fst (run ex_cfg (init 3) ex_hist_stop1)) /\ na_eth_dst n = ex_mac) /\
  (exists s e, In (s, e, ONAs []) (fst (run ex_cfg (fst (step ex_cfg (snd (run ex_cfg (init 3) ex_hist_stop1)) (StopHunt (mkAddr ex_mac [])))) ex_hist_stop2))).
Proof. exact stop_nonvacuous. Qed.
Print Assumptions C14_stop_nonvacuous.

(* After Close nothing is emitted by any loop pass, whatever happens afterwards. *)
Theorem C14_close : forall c rep evs1 evs2,
  let st := snd (run c (init rep) evs1) in
  let st1 := fst (step c st Close) in
  forall s e l, In (s, e, ONAs l) (fst (run c st1 evs2)) -> l = [].
Proof. exact close_no_more. Qed.
Print Assumptions C14_close.

(* ------------------------------------------------------------------ *)
(* C14_router_exact.  For EVERY byte string p that the independent decoder accepts as a router
   advertisement (ra_decode p = Some d: any number and order of prefix, MTU, RDNSS, DNSSL, route
   information, source/target LLA and unknown options, no option of length zero), processed by the
   handler in any state (counter at a multiple of 4 after the increment, host known), the table
   entry of the source records: flags, preference, hop limit, lifetime, reachable and retransmit
   timers; source link-layer address (and the router's MAC at creation); MTU (in Router.MTU and
   in Options.MTU); every prefix information option with its masked prefix; EVERY route information,
   RDNSS and DNSSL option with its own lifetime, in packet order (Options.Routes, RDNSSList,
   DNSSearchLists) — exactly as decoded; the older single fields keep their documented meaning
   (legacy_exact: last route, last DNSSL list, last RDNSS lifetime over all servers). *)
Theorem C14_router_exact : forall st src eth p d,
  bytes_ok p -> ra_decode p = Some d -> processed_ra st -> ra_result st src eth p d.
Proof. exact router_exact. Qed.
Print Assumptions C14_router_exact.

Example C14_router_exact_nonvacuous : exists d,
  bytes_ok wit_all /\ ra_decode wit_all = Some d /\ processed_ra (init 3) /\
  List.length (ra_opts d) = 7%nat.
Proof. exact router_exact_nonvacuous. Qed.
Print Assumptions C14_router_exact_nonvacuous.

(* the byte-level core: the library's option loop computes the fold of the reference decoder's list *)
Theorem C14_options_exact : forall p d, bytes_ok p -> ra_decode p = Some d ->
  ra_options p = Ok (fold_left apply1 (ra_opts d) opts_zero).
Proof. exact ra_options_exact. Qed.
Print Assumptions C14_options_exact.

(* not processed (3 of 4 advertisements in the process, or unknown host): table untouched *)
Theorem C14_router_skipped : forall st src eth p hk,
  Z.rem (repeat_ st + 1) 4 <> 0%Z \/ hk = false ->
  routers (fst (rx_ra st src eth p hk)) = routers st /\ defrouter (fst (rx_ra st src eth p hk)) = defrouter st.
Proof. exact router_skipped. Qed.
Print Assumptions C14_router_skipped.

(* advertisements with two route / RDNSS / DNSSL options (the witnesses of the former findings
   ri-multiple, rdnss-multiple, dnssl-multiple) are in the domain of C14_router_exact and both options
   of each kind are recorded *)
Example C14_router_exact_multi_nonvacuous :
  (exists r, learn1 wit_ri = Some r /\ List.length (o_routes (r_opts r)) = 2%nat) /\
  (exists r, learn1 wit_rdnss = Some r /\ List.length (o_rdnss_all (r_opts r)) = 2%nat) /\
  (exists r, learn1 wit_dnssl = Some r /\ List.length (o_dnssl_all (r_opts r)) = 2%nat).
Proof. exact multi_recorded. Qed.
Print Assumptions C14_router_exact_multi_nonvacuous.

(* ------------------------------------------------------------------ *)
(* C14_router_persistent.  "Records exactly" holds for as long as the entry lives: after ANY
   history, a processed RA p from src, then ANY later history without another RA from src
   (StartHunt/StopHunt/Close, loop passes, RAs of other routers, any other ICMPv6 message through
   the same receive buffer) the entry of src still records exactly the decoding of p.  In the model
   every router field is an owned value; that the implementation retains copies and no reference
   into the receive buffer is what the correspondence run checks (one shared buffer per handler,
   overwritten after every packet, whole table re-read after every packet). *)
Theorem C14_router_persistent : forall c rep evs1 src eth p d evs2,
  bytes_ok p -> ra_decode p = Some d ->
  let st := snd (run c (init rep) evs1) in
  processed_ra st -> Forall (not_ra_from src) evs2 ->
  let fin := snd (run c (fst (step c st (RxRA src eth p true))) evs2) in
  exists r, rt_find (routers fin) src = Some r /\ entry_exact r d.
Proof. exact router_persistent. Qed.
Print Assumptions C14_router_persistent.

Theorem C14_router_untouched : forall c st e k, not_ra_from k e ->
  rt_find (routers (fst (step c st e))) k = rt_find (routers st) k.
Proof. exact step_keeps_router. Qed.
Print Assumptions C14_router_untouched.

(* ------------------------------------------------------------------ *)
(* Malformed input, for every byte string of at least 16 bytes.
   (a) the option area cannot be split into options (truncated or overrunning option, option of
       length zero, trailing byte): the advertisement is rejected; *)
Theorem C14_options_unsplittable : forall p, (16 <= List.length p)%nat ->
  split_tlv (List.length (skipn 16 p)) (skipn 16 p) = None -> ra_options p = Err EOther.
Proof. exact ra_options_unsplittable. Qed.
Print Assumptions C14_options_unsplittable.

(* (b) it can be split: the library computes exactly the LENIENT reference decoder
       (Spec/RFC4861.v): a link-layer address option of length <> 1 or a prefix option of length <> 4
       or prefix length > 128 rejects the advertisement; every other malformed known option (MTU,
       route information incl. the reserved preference, RDNSS, DNSSL with a malformed or empty name
       list) is skipped without a trace. *)
Theorem C14_options_lenient : forall p tl,
  bytes_ok p -> (16 <= List.length p)%nat ->
  split_tlv (List.length (skipn 16 p)) (skipn 16 p) = Some tl ->
  ra_options p = match ra_decode_lenient p with
                 | Some d => Ok (fold_left apply1 (ra_opts d) opts_zero)
                 | None => Err EOther
                 end.
Proof. exact ra_options_lenient_full. Qed.
Print Assumptions C14_options_lenient.

(* (a) + (b): for EVERY byte string of at least 16 bytes, Options() is the lenient reference decoder *)
Theorem C14_options_total : forall p, bytes_ok p -> (16 <= List.length p)%nat ->
  ra_options p = match ra_decode_lenient p with
                 | Some d => Ok (fold_left apply1 (ra_opts d) opts_zero)
                 | None => Err EOther
                 end.
Proof. exact ra_options_total. Qed.
Print Assumptions C14_options_total.

Theorem C14_lenient_extends_strict : forall p d, ra_decode p = Some d -> ra_decode_lenient p = Some d.
Proof. exact ra_decode_lenient_extends. Qed.
Print Assumptions C14_lenient_extends_strict.

Example C14_lenient_nonvacuous :
  (exists tl d, split_tlv (List.length (skipn 16 wit_mal)) (skipn 16 wit_mal) = Some tl /\ dnssl_wf tl /\
     ra_decode wit_mal = None /\ ra_decode_lenient wit_mal = Some d /\ List.length (ra_opts d) = 2%nat /\
     ra_options wit_mal = Ok (fold_left apply1 (ra_opts d) opts_zero)) /\
  (exists tl, split_tlv (List.length (skipn 16 wit_rej)) (skipn 16 wit_rej) = Some tl /\ dnssl_wf tl /\
     ra_decode_lenient wit_rej = None /\ ra_options wit_rej = Err EOther).
Proof. exact lenient_nonvacuous. Qed.
Print Assumptions C14_lenient_nonvacuous.
