(* Properties/C14.v — ICMPv6 spoofing is confined to hunted hosts; routers are
   learned exactly.  Only statements, each closed by [exact] of a lemma proved in Proofs/.
   Model: Model/Icmp6Spoof.v (event system), Model/Icmp6SpoofRA.v (RA decoding, byte exact),
   Model/Icmp6SpoofKnown.v (what "exactly" means field by field; recorded classes).
   Spec: Spec/RFC4861.v (independent RA decoder). *)
From PV Require Import Base.Prelude Base.Text Model.Icmp6SpoofRA Model.Icmp6Spoof Spec.RFC4861 Model.Icmp6SpoofKnown
  Proofs.Icmp6SpoofRA Proofs.Icmp6SpoofDnssl Proofs.Icmp6Spoof Proofs.Icmp6SpoofStop Proofs.Icmp6SpoofDecided Proofs.Icmp6SpoofRefine Proofs.Icmp6SpoofAudit.
From Coq Require Import Permutation.
Open Scope N_scope.

(* ------------------------------------------------------------------ *)
(* C14_confined.  A spoofLoop pass is two kinds of steps: Lookup (under the handler's lock: is the
   MAC hunted, is the handler open, is a router known; the list of router addresses in the map's
   iteration order) and one Send per listed address (outside the lock).  For every history (any
   interleaving of StartHunt/StopHunt/Close/Lookup/Send/received packets, any counter value):
   (a) a forged advertisement leaves only in a Send step, it is the head of that loop's list, its
       Ethernet destination is the loop's MAC, its target a learned router's address bound to our MAC
       (TLLA option and Ethernet source), override set, solicited and router clear, hop limit 255,
       and a router has been learned (all AT EMISSION); *)
Theorem C14_confined : forall c rep evs st e l,
  In (st, e, ONAs l) (fst (run c (init rep) evs)) ->
  exists i lp ip rest, e = Send i /\ nth_error (loops st) i = Some lp /\ l_pending lp = ip :: rest /\
    l = [forge c (l_dst lp) ip] /\ forged_shape c st (forge c (l_dst lp) ip).
Proof. exact confined_run. Qed.
Print Assumptions C14_confined.

(* (b) every advertisement that leaves was put on its loop's list by an earlier Lookup of that loop
       at which the destination MAC was in the hunt list, the handler was not closed and a router was
       known (AT DECISION; what can happen between decision and emission is bounded by C14_stop and
       C14_close below). *)
Theorem C14_confined_decided : forall c rep evs1 i n,
  let st := snd (run c (init rep) evs1) in
  snd (step c st (Send i)) = ONAs [n] ->
  exists s0 order k, In (s0, Lookup i order, OLook true k) (fst (run c (init rep) evs1)) /\
    decided_ok s0 (na_eth_dst n).
Proof. exact sent_was_decided. Qed.
Print Assumptions C14_confined_decided.

Example C14_confined_nonvacuous :
  exists st e n, In (st, e, ONAs [n]) (fst (run ex_cfg (init (-1)) ex_hist)) /\ na_eth_dst n = ex_mac.
Proof. exact confined_nonvacuous. Qed.
Print Assumptions C14_confined_nonvacuous.

(* LANRouters is a Go map: the order in which a pass walks it is a parameter of Lookup, and every
   theorem here holds for all orders.  For an order that visits every position once, the pass sends
   to every learned router exactly once. *)
Theorem C14_pass_covers_all_routers : forall st i order lp,
  nth_error (loops st) i = Some lp -> l_alive lp = true -> l_pending lp = [] ->
  al_has (hunt st) (a_mac (l_dst lp)) = true -> closed st = false -> defrouter st <> None ->
  Permutation order (seq 0 (List.length (routers st))) ->
  exists lp', nth_error (loops (fst (lookup st i order))) i = Some lp' /\ l_dst lp' = l_dst lp /\
    Permutation (l_pending lp') (map (fun kr => r_ip (snd kr)) (routers st)).
Proof. exact lookup_covers. Qed.
Print Assumptions C14_pass_covers_all_routers.

(* ------------------------------------------------------------------ *)
(* C14_start_filters *)
Theorem C14_start_rejects_ip4 : forall c st a, is4 (a_ip a) = true ->
  step c st (StartHunt a) = (st, OStage NoChange (Some EInvalidIP)).
Proof. exact start_rejects_ip4. Qed.
Print Assumptions C14_start_rejects_ip4.

Theorem C14_start_ignores_non_lla : forall c st a, is6 (a_ip a) = true -> is_llu (a_ip a) = false ->
  step c st (StartHunt a) = (st, OStage NoChange None).
Proof. exact start_ignores_non_lla. Qed.
Print Assumptions C14_start_ignores_non_lla.

(* idempotent per MAC: a hunted MAC is not added again and no second loop is started ... *)
Theorem C14_start_idempotent : forall c st a, al_has (hunt st) (a_mac a) = true ->
  is4 (a_ip a) = false -> (is6 (a_ip a) && negb (is_llu (a_ip a))) = false ->
  step c st (StartHunt a) = (st, OStage Hunt None).
Proof. exact start_idempotent. Qed.
Print Assumptions C14_start_idempotent.

(* ... and every accepted StartHunt leaves its MAC hunted *)
Theorem C14_start_then_hunted : forall c st a, snd (step c st (StartHunt a)) = OStage Hunt None ->
  al_has (hunt (fst (step c st (StartHunt a)))) (a_mac a) = true.
Proof. exact start_then_hunted. Qed.
Print Assumptions C14_start_then_hunted.

Theorem C14_start_new : forall c st a, al_has (hunt st) (a_mac a) = false ->
  is4 (a_ip a) = false -> (is6 (a_ip a) && negb (is_llu (a_ip a))) = false ->
  let st' := fst (step c st (StartHunt a)) in
  hunt st' = hunt st ++ [a] /\ List.length (loops st') = S (List.length (loops st)).
Proof. exact start_new. Qed.
Print Assumptions C14_start_new.

Example C14_start_filters_nonvacuous :
  is4 [192;168;0;10] = true /\
  (is6 (hexb "20010db8000000000000000000000001"%string) = true /\ is_llu (hexb "20010db8000000000000000000000001"%string) = false) /\
  (is4 (hexb "fe800000000000000000000000000001"%string) = false /\
   (is6 (hexb "fe800000000000000000000000000001"%string) && negb (is_llu (hexb "fe800000000000000000000000000001"%string))) = false).
Proof. exact start_filters_nonvacuous. Qed.
Print Assumptions C14_start_filters_nonvacuous.

(* ------------------------------------------------------------------ *)
(* C14_stop.  After StopHunt a (address-less or link-local a.ip: a StopHunt with any other address
   is ignored by design, symmetric with StartHunt), at any point of any history, in any continuation
   that does not hunt that MAC again, the forged advertisements that still go to a's MAC are at most
   the frames already decided when StopHunt returned (those on the lists of the loops aimed at that
   MAC): the exact real-time residue of the lock discipline. *)
Theorem C14_stop : forall c rep evs1 a evs2,
  stop_effective a -> no_start (a_mac a) evs2 ->
  let st := snd (run c (init rep) evs1) in
  let st1 := fst (step c st (StopHunt a)) in
  (count_to (a_mac a) (fst (run c st1 evs2)) <= pend_to (a_mac a) (loops st))%nat.
Proof. exact stop_bound. Qed.
Print Assumptions C14_stop.

(* nothing decided at that moment: nothing ever reaches the host *)
Theorem C14_stop_quiescent : forall c rep evs1 a evs2,
  stop_effective a -> no_start (a_mac a) evs2 ->
  let st := snd (run c (init rep) evs1) in
  let st1 := fst (step c st (StopHunt a)) in
  pend_to (a_mac a) (loops st) = 0%nat ->
  forall s e l, In (s, e, ONAs l) (fst (run c st1 evs2)) -> forall n, In n l -> bytes_eqb (na_eth_dst n) (a_mac a) = false.
Proof. exact stop_quiescent. Qed.
Print Assumptions C14_stop_quiescent.

(* the stronger reading "no forged advertisement after StopHunt returns" fails, and the bound is
   attained: Lookup ; StopHunt ; Send *)
Theorem C14_stop_strong_refuted : exists c rep evs1 a evs2,
  stop_effective a /\ no_start (a_mac a) evs2 /\
  let st := snd (run c (init rep) evs1) in
  (exists s e n, In (s, e, ONAs [n]) (fst (run c (fst (step c st (StopHunt a))) evs2)) /\ na_eth_dst n = a_mac a) /\
  count_to (a_mac a) (fst (run c (fst (step c st (StopHunt a))) evs2)) = pend_to (a_mac a) (loops st).
Proof. exact stop_strong_refuted. Qed.
Print Assumptions C14_stop_strong_refuted.

(* After Close at most the frames already decided leave, whatever happens afterwards. *)
Theorem C14_close : forall c rep evs1 evs2,
  let st := snd (run c (init rep) evs1) in
  let st1 := fst (step c st Close) in
  (count_all (fst (run c st1 evs2)) <= pend_all (loops st))%nat.
Proof. exact close_bound. Qed.
Print Assumptions C14_close.

Theorem C14_close_strong_refuted : exists c rep evs1 evs2,
  let st := snd (run c (init rep) evs1) in
  (exists s e n, In (s, e, ONAs [n]) (fst (run c (fst (step c st Close)) evs2))) /\
  count_all (fst (run c (fst (step c st Close)) evs2)) = pend_all (loops st).
Proof. exact close_strong_refuted. Qed.
Print Assumptions C14_close_strong_refuted.

(* ------------------------------------------------------------------ *)
(* C14_router_exact.  For EVERY byte string p that the independent decoder accepts as a router
   advertisement (ra_decode p = Some d: any number and order of prefix, MTU, RDNSS, DNSSL, route
   information, source/target LLA and unknown options, no option of length zero), processed by the
   handler in any state (counter at a multiple of 4 after the increment, host known), the table
   entry of the source records: flags, preference, hop limit, lifetime, reachable and retransmit
   timers; source link-layer address (and the router's MAC at creation); MTU (in Router.MTU and
   in Options.MTU); every prefix information option with its masked prefix; EVERY route information,
   RDNSS and DNSSL option with its own lifetime, in packet order (Options.Routes, RDNSSList,
   DNSSearchLists) — exactly as decoded; the older single fields keep their documented meaning
   (legacy_exact: last route, last DNSSL list, last RDNSS lifetime over all servers). *)
Theorem C14_router_exact : forall st src eth p d,
  bytes_ok p -> ra_decode p = Some d -> processed_ra st -> ra_result st src eth p d.
Proof. exact router_exact. Qed.
Print Assumptions C14_router_exact.

Example C14_router_exact_nonvacuous : exists d,
  bytes_ok wit_all /\ ra_decode wit_all = Some d /\ processed_ra (init 3) /\
  List.length (ra_opts d) = 7%nat.
Proof. exact router_exact_nonvacuous. Qed.
Print Assumptions C14_router_exact_nonvacuous.

(* the byte-level core: the library's option loop computes the fold of the reference decoder's list *)
Theorem C14_options_exact : forall p d, bytes_ok p -> ra_decode p = Some d ->
  ra_options p = Ok (fold_left apply1 (ra_opts d) opts_zero).
Proof. exact ra_options_exact. Qed.
Print Assumptions C14_options_exact.

(* not processed (3 of 4 advertisements in the process, or unknown host): table untouched *)
Theorem C14_router_skipped : forall st src eth p hk,
  Z.rem (repeat_ st + 1) 4 <> 0%Z \/ hk = false ->
  routers (fst (rx_ra st src eth p hk)) = routers st /\ defrouter (fst (rx_ra st src eth p hk)) = defrouter st.
Proof. exact router_skipped. Qed.
Print Assumptions C14_router_skipped.

(* advertisements with two route / RDNSS / DNSSL options (the witnesses of the former findings
   ri-multiple, rdnss-multiple, dnssl-multiple) are in the domain of C14_router_exact and both options
   of each kind are recorded *)
Example C14_router_exact_multi_nonvacuous :
  (exists r, learn1 wit_ri = Some r /\ List.length (o_routes (r_opts r)) = 2%nat) /\
  (exists r, learn1 wit_rdnss = Some r /\ List.length (o_rdnss_all (r_opts r)) = 2%nat) /\
  (exists r, learn1 wit_dnssl = Some r /\ List.length (o_dnssl_all (r_opts r)) = 2%nat).
Proof. exact multi_recorded. Qed.
Print Assumptions C14_router_exact_multi_nonvacuous.

(* ------------------------------------------------------------------ *)
(* C14_router_persistent.  "Records exactly" holds for as long as the entry lives: after ANY
   history, a processed RA p from src, then ANY later history without another RA from src
   (StartHunt/StopHunt/Close, loop passes, RAs of other routers, any other ICMPv6 message through
   the same receive buffer) the entry of src still records exactly the decoding of p.  In the model
   every router field is an owned value; that the implementation retains copies and no reference
   into the receive buffer is what the correspondence run checks (one shared buffer per handler,
   overwritten after every packet, whole table re-read after every packet). *)
Theorem C14_router_persistent : forall c rep evs1 src eth p d evs2,
  bytes_ok p -> ra_decode p = Some d ->
  let st := snd (run c (init rep) evs1) in
  processed_ra st -> Forall (not_ra_from src) evs2 ->
  let fin := snd (run c (fst (step c st (RxRA src eth p true))) evs2) in
  exists r, rt_find (routers fin) src = Some r /\ entry_exact r d.
Proof. exact router_persistent. Qed.
Print Assumptions C14_router_persistent.

Theorem C14_router_untouched : forall c st e k, not_ra_from k e ->
  rt_find (routers (fst (step c st e))) k = rt_find (routers st) k.
Proof. exact step_keeps_router. Qed.
Print Assumptions C14_router_untouched.

(* ------------------------------------------------------------------ *)
(* Malformed input, for every byte string of at least 16 bytes.
   (a) the option area cannot be split into options (truncated or overrunning option, option of
       length zero, trailing byte): the advertisement is rejected; *)
Theorem C14_options_unsplittable : forall p, (16 <= List.length p)%nat ->
  split_tlv (List.length (skipn 16 p)) (skipn 16 p) = None -> ra_options p = Err EOther.
Proof. exact ra_options_unsplittable. Qed.
Print Assumptions C14_options_unsplittable.

(* (b) it can be split: the library computes exactly the LENIENT reference decoder
       (Spec/RFC4861.v): a link-layer address option of length <> 1 or a prefix option of length <> 4
       or prefix length > 128 rejects the advertisement; every other malformed known option (MTU,
       route information incl. the reserved preference, RDNSS, DNSSL with a malformed or empty name
       list) is skipped without a trace. *)
Theorem C14_options_lenient : forall p tl,
  bytes_ok p -> (16 <= List.length p)%nat ->
  split_tlv (List.length (skipn 16 p)) (skipn 16 p) = Some tl ->
  ra_options p = match ra_decode_lenient p with
                 | Some d => Ok (fold_left apply1 (ra_opts d) opts_zero)
                 | None => Err EOther
                 end.
Proof. exact ra_options_lenient_full. Qed.
Print Assumptions C14_options_lenient.

(* (a) + (b): for EVERY byte string of at least 16 bytes, Options() is the lenient reference decoder *)
Theorem C14_options_total : forall p, bytes_ok p -> (16 <= List.length p)%nat ->
  ra_options p = match ra_decode_lenient p with
                 | Some d => Ok (fold_left apply1 (ra_opts d) opts_zero)
                 | None => Err EOther
                 end.
Proof. exact ra_options_total. Qed.
Print Assumptions C14_options_total.

Theorem C14_lenient_extends_strict : forall p d, ra_decode p = Some d -> ra_decode_lenient p = Some d.
Proof. exact ra_decode_lenient_extends. Qed.
Print Assumptions C14_lenient_extends_strict.

Example C14_lenient_nonvacuous :
  (exists tl d, split_tlv (List.length (skipn 16 wit_mal)) (skipn 16 wit_mal) = Some tl /\ dnssl_wf tl /\
     ra_decode wit_mal = None /\ ra_decode_lenient wit_mal = Some d /\ List.length (ra_opts d) = 2%nat /\
     ra_options wit_mal = Ok (fold_left apply1 (ra_opts d) opts_zero)) /\
  (exists tl, split_tlv (List.length (skipn 16 wit_rej)) (skipn 16 wit_rej) = Some tl /\ dnssl_wf tl /\
     ra_decode_lenient wit_rej = None /\ ra_options wit_rej = Err EOther).
Proof. exact lenient_nonvacuous. Qed.
Print Assumptions C14_lenient_nonvacuous.

(* ------------------------------------------------------------------ *)
(* Clause audit (round 7).
   Confinement: a MAC that no StartHunt of the history names never receives a forged advertisement
   (any history: several hosts, several addresses per host, Lookup = timer tick or RA wake-up, RA and
   other ICMPv6 arrivals, Close) — in particular not us and not a router unless the caller hunts them. *)
Theorem C14_never_unhunted : forall c rep evs m, no_start m evs ->
  forall s e l, In (s, e, ONAs l) (fst (run c (init rep) evs)) -> forall n, In n l -> bytes_eqb (na_eth_dst n) m = false.
Proof. exact never_unhunted. Qed.
Print Assumptions C14_never_unhunted.

(* StartHunt does not refuse our own MAC or a learned router's MAC: "never us / never the router to
   itself" is false of the code as an unconditional statement (it is the caller's obligation; the
   property text asks only for "MACs in its hunt list") *)
Theorem C14_never_self_refuted : exists c rep evs s e n,
  In (s, e, ONAs [n]) (fst (run c (init rep) evs)) /\ na_eth_dst n = host_mac c.
Proof. exact never_self_refuted. Qed.
Print Assumptions C14_never_self_refuted.

Theorem C14_never_router_refuted : exists c rep evs s e n r,
  In (s, e, ONAs [n]) (fst (run c (init rep) evs)) /\ rt_find (routers s) (na_target n) = Some r /\ na_eth_dst n = r_mac r.
Proof. exact never_router_refuted. Qed.
Print Assumptions C14_never_router_refuted.

(* "Routers are learned exactly" as a refinement: the router table abstracted to the map
   source address -> {MAC, flags, preference, hop limit, lifetimes, source LLA, MTU, prefixes, routes,
   RDNSS, DNSSL}, together with the process-wide RA counter and the default router, evolves under EVERY event as the abstract table that applies the independent RFC 4861
   decoder to the processed advertisements: an update replaces (nothing accumulates), a zero router
   lifetime is recorded and the entry kept, a rejected or unprocessed advertisement changes nothing,
   no other event touches the table. *)
Theorem C14_router_refinement : forall c st e, ev_ok e -> abs (fst (step c st e)) = spec_step (abs st) e.
Proof. exact refinement. Qed.
Print Assumptions C14_router_refinement.

Theorem C14_router_refinement_run : forall c evs st, Forall ev_ok evs ->
  abs (snd (run c st evs)) = spec_run (abs st) evs.
Proof. exact refinement_run. Qed.
Print Assumptions C14_router_refinement_run.

Example C14_router_refinement_nonvacuous :
  Forall ev_ok ex_refine_hist /\
  exists a, tb_find (sp_table (spec_run (abs (init 3)) ex_refine_hist)) ex_src = Some a /\
    ab_life a = 0 /\ ab_mtu a = 0 /\ List.length (ab_prefixes a) = 1%nat /\ ab_rdnss a = [] /\
    ab_mac a = [170;187;204;221;238;255].
Proof. exact refinement_nonvacuous. Qed.
Print Assumptions C14_router_refinement_nonvacuous.

(* ------------------------------------------------------------------ *)
(* Round 7b.  The default router h.Router is part of the abstraction (C14_router_refinement): it is the most
   recently CREATED entry; it does not follow a router lifetime of 0 nor a higher preference (Example), and
   it only gates the attack: what a pass decides to send does not depend on which router is the default. *)
Theorem C14_default_only_gates : forall st i order k k',
  defrouter st = Some k ->
  lookup (mkSt (hunt st) (loops st) (routers st) (Some k') (repeat_ st) (closed st)) i order =
  (let '(s, o) := lookup st i order in
   (mkSt (hunt s) (loops s) (routers s) (Some k') (repeat_ s) (closed s), o)).
Proof. exact default_only_gates. Qed.
Print Assumptions C14_default_only_gates.

Example C14_default_is_last_created :
  let evs := [RxRA ex_src ex_eth (ra_hdr 0 1800) true; Tick; Tick; Tick;
              RxRA ex_src2 ex_eth (ra_hdr 0 1800) true; Tick; Tick; Tick;
              RxRA ex_src2 ex_eth (ra_hdr 0 0) true; Tick; Tick; Tick;
              RxRA ex_src ex_eth (ra_hdr 8 9000) true] in
  sp_default (spec_run (abs (init 3)) evs) = Some ex_src2 /\
  exists a, tb_find (sp_table (spec_run (abs (init 3)) evs)) ex_src2 = Some a /\ ab_life a = 0.
Proof. exact default_is_last_created. Qed.
Print Assumptions C14_default_is_last_created.

(* The RA rate limiter `repeat` is a package-level variable: event Tick = another Handler6 of the process
   receives an RA.  "Records ... exactly" quantifies over the advertisements PROCESSED (refinement above,
   Tick included); that a handler's learning is independent of the other handlers of the process is false. *)
Theorem C14_limiter_private_refuted : exists c p1 p2,
  let own := [RxRA ex_src ex_eth p1 true; RxRA ex_src ex_eth p2 true] in
  let shared := [RxRA ex_src ex_eth p1 true; Tick; Tick; Tick; RxRA ex_src ex_eth p2 true] in
  sp_table (abs (snd (run c (init 3) own))) <> sp_table (abs (snd (run c (init 3) shared))).
Proof. exact limiter_private_refuted. Qed.
Print Assumptions C14_limiter_private_refuted.
