(* Properties/C12.v — DHCP replies segregate captured clients and conform to the
   transaction.  Only statements, each closed by [exact] of a lemma proved in
   Proofs/DHCP*.v. *)
From PV Require Import Base.Prelude Model.DHCP Spec.DHCP Spec.DHCPCheck Proofs.DHCP Proofs.DHCPRefuted.
Open Scope N_scope.

(* UNCHANGED CODE: the C12 statements are false of the faithful model (witness
   histories of corpus/C12/witnesses.txt, replayed on the real code). *)
Theorem C12_reply_subnet_refuted : exists c h t m r,
  In t (trace c (init c) h) /\ op_msg (t_op t) = Some m /\ t_reply t = Some r /\
  r_type r = RAck /\ c12_subnet c (t_pre t) m r = false.
Proof. exact reply_subnet_refuted. Qed.
Print Assumptions C12_reply_subnet_refuted.

Theorem C12_ack_matches_refuted : exists c h t m r,
  In t (trace c (init c) h) /\ op_msg (t_op t) = Some m /\ t_reply t = Some r /\
  r_type r = RAck /\ c12_ack_matches (t_pre t) m r = false /\
  cannot_honour c (t_pre t) m = true.
Proof. exact ack_matches_refuted. Qed.
Print Assumptions C12_ack_matches_refuted.

Theorem C12_mask_first_refuted : exists c h t r,
  In t (trace c (init c) h) /\ t_reply t = Some r /\ r_type r = ROffer /\ c12_mask_first r = false.
Proof. exact mask_first_refuted. Qed.
Print Assumptions C12_mask_first_refuted.
