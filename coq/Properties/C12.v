(* Properties/C12.v — DHCP replies segregate captured clients and conform to the
   transaction.  Only statements, each closed by [exact] of a lemma proved in
   Proofs/DHCP*.v.

   Quantification as in C11.v: every configuration c (operating mode, home and
   netfilter prefixes, addresses) subject to [cfg_ok c] where stated (the netfilter
   gateway is the host's own address, as the property words it), every history h,
   every step t of its trace, on the model of the REPAIRED code (FIXLOG.md:
   7baf630 c9f204c d6f86b5 e01fd08 ec7166b 8b460ec c6ea1f8 handlers/dhcp4_spoofer, 94e2701 AppendOptions). *)
From PV Require Import Base.Prelude Base.Text Model.DHCP Model.DHCPShow Spec.DHCP Spec.DHCPCheck
  Proofs.DHCP Proofs.DHCPInv Proofs.DHCPReply Proofs.DHCPTie Proofs.DHCPClauses Proofs.DHCPRestart Proofs.DHCPRestored Proofs.DHCPRefuted.
Open Scope list_scope.
Open Scope N_scope.

(* Every OFFER and ACK carries an address inside the subnet selected by the client's
   capture state at that moment, with that subnet's router (our address when captured,
   the real router otherwise), DNS (family DNS / configured DNS), mask, our server id,
   the lease time, and echoes xid and chaddr. *)
Theorem C12_reply_subnet : forall c h t m r,
  cfg_ok c -> In t (trace c (init c) h) -> op_msg (t_op t) = Some m -> t_reply t = Some r ->
  c12_subnet c (t_pre t) m r = true.
Proof. exact subnet_all. Qed.
Print Assumptions C12_reply_subnet.

(* The subnet mask precedes the router option in every OFFER and ACK, whatever the
   client's parameter request list says (AppendOptions as repaired by 94e2701). *)
Theorem C12_mask_first : forall c h t m r,
  In t (trace c (init c) h) -> op_msg (t_op t) = Some m -> t_reply t = Some r ->
  c12_mask_first r = true.
Proof. exact mask_first_all. Qed.
Print Assumptions C12_mask_first.

(* An ACK confirms the address offered in this transaction (same client id, same
   xid) or the client's current lease. *)
Theorem C12_ack_matches : forall c h t m r,
  In t (trace c (init c) h) -> op_msg (t_op t) = Some m -> t_reply t = Some r ->
  c12_ack_matches (t_pre t) m r = true.
Proof. exact ack_matches_all. Qed.
Print Assumptions C12_ack_matches.

(* Requests that cannot be honoured — another server selected; unknown or freed lease;
   EXPIRED lease (DHCPExpiry before the clock value the handler reads at that step, whether
   or not MinuteTicker has freed it); mismatching lease; address outside the client's
   subnet — are never ACKed. *)
Theorem C12_no_ack_when : forall c h t m,
  sub_ok c -> In t (trace c (init c) h) -> op_msg (t_op t) = Some m ->
  c12_no_ack_when c (t_pre t) m (op_now (t_op t)) (t_reply t) = true.
Proof. exact no_ack_when_all. Qed.
Print Assumptions C12_no_ack_when.

(* The spec column of D12 (failed C12 demands per step on the model's trace) is empty
   along every history: every alarm of the run is a model/implementation disagreement. *)
Theorem C12_spec_column_never_fails : forall c h t,
  cfg_ok c -> In t (trace c (init c) h) -> c12_fails c t = [].
Proof. exact c12_fails_nil. Qed.
Print Assumptions C12_spec_column_never_fails.

(* Restart.  A handler of configuration cB constructed on ANY lease file (subnets [file], whatever
   configuration wrote it) holds the subnets of cB — LAN prefix, gateway, DNS server and server id of
   both subnets, parameter by parameter: a file value is kept only where configChanged found it equal
   to the configuration's, otherwise both subnets (and their option maps) are rebuilt from cB and the
   lease table is emptied.  Hence [cfg_ok (loaded_cfg file cB)], and every theorem above applies to the
   restarted handler with c := loaded_cfg file cB: its OFFERs/ACKs carry cB's values. *)
Theorem C12_stale_file_config : forall file cB, sub_ok (loaded_cfg file cB).
Proof. exact loaded_sub_ok. Qed.
Print Assumptions C12_stale_file_config.

Theorem C12_restart_cfg_ok : forall file cB, c_nfip cB = c_hostip cB -> cfg_ok (loaded_cfg file cB).
Proof. exact loaded_cfg_ok. Qed.
Print Assumptions C12_restart_cfg_ok.

Theorem C12_restart_reset : forall file cB,
  sub_changed (wanted cB) file = true ->
  loaded_cfg file cB = set_sub cB (wanted cB) /\ forall saved, restart_state file cB [] saved = init (loaded_cfg file cB).
Proof. exact restart_reset. Qed.
Print Assumptions C12_restart_reset.

(* From ANY state — in particular from the lease table a restarted handler restores from its file
   (whose addresses the new session does not track yet) — every OFFER/ACK along every history
   carries the configuration's router / DNS / mask / server id / lease time for the client's capture
   state, echoes xid and chaddr, and puts the mask before the router. *)
Theorem C12_reply_config_any_state : forall c s h t m r,
  cfg_ok c -> In t (trace c s h) -> op_msg (t_op t) = Some m -> t_reply t = Some r ->
  c12_config c (t_pre t) m r = true /\ c12_mask_first r = true.
Proof. exact reply_config_any_state. Qed.
Print Assumptions C12_reply_config_any_state.

(* ... hence after a restart on any lease file, with any restored leases, the replies carry cB's values
   (the want_* accessors read the configuration fields of cB, which loaded_cfg leaves untouched). *)
Theorem C12_restart_reply_config : forall file cB pre saved h t m r,
  c_nfip cB = c_hostip cB ->
  let cL := loaded_cfg file cB in
  In t (trace cL (restart_state file cB pre saved) h) -> op_msg (t_op t) = Some m -> t_reply t = Some r ->
  c12_config cL (t_pre t) m r = true /\ c12_mask_first r = true.
Proof. exact restart_reply_config. Qed.
Print Assumptions C12_restart_reply_config.

(* Non-vacuity. *)
Example C12_cfg_ok_example : cfg_ok wcfg.
Proof. exact wcfg_ok. Qed.
Print Assumptions C12_cfg_ok_example.

Example C12_live_example :
  map (fun t => match t_reply t with Some r => (r_type r, r_yi r) | None => (RNak, 0) end)
      (trace wcfg (init wcfg) (with_ch0 wlive))
  = [(ROffer, 3232235522); (RAck, 3232235522); (RNak, 0); (ROffer, 3232235532); (RAck, 3232235532); (RAck, 3232235522)].
Proof. exact live_example. Qed.
Print Assumptions C12_live_example.

Example C12_nak_example :
  let t := hd (mkT (init wcfg) ch0 (OTick 0) None (init wcfg)) (trace wcfg (init wcfg) (with_ch0 w12_unknown)) in
  cannot_honour wcfg (t_pre t) (dmsg0 c3 0 (Some ipA) us) 0 = true /\
  option_map r_type (t_reply t) = Some RNak.
Proof. exact nak_example. Qed.
Print Assumptions C12_nak_example.

(* an expired lease exists along a history (expiry rewritten 30 s into the past) and its
   INIT-REBOOT request is NAKed *)
Example C12_expired_example :
  map (fun t => (lease_expired (t_pre t) (dmsg0 c1 1 (Some ipB) None) (op_now (t_op t)), option_map r_type (t_reply t)))
      (trace wcfg (init wcfg) (with_ch0 wexp))
  = [(false, Some ROffer); (false, Some RAck); (false, None); (true, Some RNak)].
Proof. exact expired_example. Qed.
Print Assumptions C12_expired_example.

(* ---------------------------------------------------------------- *)
(* "Conform to the transaction", clause by clause: every OFFER/ACK r to message m along every history. *)
Theorem C12_clause_xid_echo : forall c h t m r, cfg_ok c ->
  In t (trace c (init c) h) -> op_msg (t_op t) = Some m -> t_reply t = Some r -> is_lease_reply r = true ->
  r_xid r = m_xid m.
Proof. exact clause_xid. Qed.
Print Assumptions C12_clause_xid_echo.
Theorem C12_clause_chaddr_echo : forall c h t m r, cfg_ok c ->
  In t (trace c (init c) h) -> op_msg (t_op t) = Some m -> t_reply t = Some r -> is_lease_reply r = true ->
  r_chaddr r = m_chaddr m.
Proof. exact clause_chaddr. Qed.
Print Assumptions C12_clause_chaddr_echo.
Theorem C12_clause_server_id : forall c h t m r, cfg_ok c ->
  In t (trace c (init c) h) -> op_msg (t_op t) = Some m -> t_reply t = Some r -> is_lease_reply r = true ->
  obeqb (opt 54 r) (ipb (c_hostip c)) = true.
Proof. exact clause_server_id. Qed.
Print Assumptions C12_clause_server_id.
Theorem C12_clause_lease_time : forall c h t m r, cfg_ok c ->
  In t (trace c (init c) h) -> op_msg (t_op t) = Some m -> t_reply t = Some r -> is_lease_reply r = true ->
  obeqb (opt 51 r) (ipb 14400) = true.
Proof. exact clause_lease_time. Qed.
Print Assumptions C12_clause_lease_time.
(* the option set by capture state: router, DNS, mask of the captured / non-captured subnet *)
Theorem C12_clause_router_by_capture : forall c h t m r, cfg_ok c ->
  In t (trace c (init c) h) -> op_msg (t_op t) = Some m -> t_reply t = Some r -> is_lease_reply r = true ->
  obeqb (opt 3 r) (ipb (want_router c (client_net c (t_pre t) m))) = true.
Proof. exact clause_router. Qed.
Print Assumptions C12_clause_router_by_capture.
Theorem C12_clause_dns_by_capture : forall c h t m r, cfg_ok c ->
  In t (trace c (init c) h) -> op_msg (t_op t) = Some m -> t_reply t = Some r -> is_lease_reply r = true ->
  obeqb (opt 6 r) (ipb (want_dns c (client_net c (t_pre t) m))) = true.
Proof. exact clause_dns. Qed.
Print Assumptions C12_clause_dns_by_capture.
Theorem C12_clause_mask_by_capture : forall c h t m r, cfg_ok c ->
  In t (trace c (init c) h) -> op_msg (t_op t) = Some m -> t_reply t = Some r -> is_lease_reply r = true ->
  obeqb (opt 1 r) (ipb (pmask (want_bits c (client_net c (t_pre t) m)))) = true.
Proof. exact clause_mask. Qed.
Print Assumptions C12_clause_mask_by_capture.
Theorem C12_captured_options_differ : forall c, c_hostip c <> c_routerip c ->
  want_router c true <> want_router c false /\ (c_dns c <> cloudflare_family1 -> want_dns c true <> want_dns c false).
Proof. exact captured_differs. Qed.
Print Assumptions C12_captured_options_differ.
(* message type per kind of message (from any state): DISCOVER -> OFFER or silence; REQUEST -> ACK, NAK or
   silence; DECLINE, RELEASE -> silence; option 53 of the reply builder carries that type *)
Theorem C12_clause_message_type : forall c s h t r,
  In t (trace c s h) -> t_reply t = Some r ->
  match t_op t with
  | ODiscover _ _ => r_type r = ROffer
  | ORequest _ _ => r_type r = RAck \/ r_type r = RNak
  | _ => False
  end.
Proof. exact type_per_message. Qed.
Print Assumptions C12_clause_message_type.
Theorem C12_clause_type_option : forall c t m x b,
  opt 53 (mk_reply c t m x b) = Some [match t with ROffer => 2 | RAck => 5 | RNak => 6 end].
Proof. exact type_option. Qed.
Print Assumptions C12_clause_type_option.
(* broadcast flag / destination (from any state) *)
Theorem C12_clause_destination : forall c s h t m r,
  In t (trace c s h) -> op_msg (t_op t) = Some m -> t_reply t = Some r ->
  (r_dstmac r, r_dstip r) = if (m_src m =? 0) || m_bflag m then (mac_bcast, ip_bcast) else (m_chaddr m, m_src m).
Proof. exact reply_destination. Qed.
Print Assumptions C12_clause_destination.

(* the fixed BOOTP header of every reply (compared field by field with the reply bytes on every run) *)
Theorem C12_header_constants : forall t m,
  let h := reply_header t m in h_op h = 2 /\ h_htype h = 1 /\ h_hlen h = 6 /\ h_hops h = 0 /\ h_cookie h = 1669485411.
Proof. exact header_constants. Qed.
Print Assumptions C12_header_constants.
Theorem C12_header_cleared : forall t m,
  let h := reply_header t m in h_secs h = 0 /\ h_flags h = 0 /\ h_siaddr h = 0 /\ h_giaddr h = 0 /\ h_zeroed h = true.
Proof. exact header_cleared. Qed.
Print Assumptions C12_header_cleared.
Theorem C12_header_ciaddr : forall t m,
  h_ciaddr (reply_header t m) = match t with RNak => 0 | _ => m_ciaddr m end.
Proof. exact header_ciaddr. Qed.
Print Assumptions C12_header_ciaddr.

(* The configuration value domain: what New makes of the raw configuration.  The DNS server handed to
   non-captured clients is the configured IPv4 server (plain or IPv4-mapped form) and the ROUTER when none is
   configured (zero value, IPv6); the mode is normalised; the subnets in force are the configuration's.
   With C12_clause_dns_by_capture: option 6 of every OFFER/ACK to a non-captured client = spec_dns raw. *)
Theorem C12_dns_defaults_to_router : forall r c, new_cfg r = Some c ->
  c_dns c = spec_dns r /\ want_dns c false = spec_dns r /\ c_routerip c = r_routerip r /\
  c_mode c = norm_mode (r_mode r) /\ sub_ok c.
Proof. exact dns_defaults_to_router. Qed.
Print Assumptions C12_dns_defaults_to_router.
