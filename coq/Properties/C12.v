(* Properties/C12.v — DHCP replies segregate captured clients and conform to the
   transaction.  Only statements, each closed by [exact] of a lemma proved in
   Proofs/DHCP*.v. *)
From PV Require Import Base.Prelude Model.DHCP Spec.DHCP Spec.DHCPCheck Proofs.DHCP Proofs.DHCPRefuted.
Open Scope N_scope.

(* Still false of the faithful model (finding c12-prl-router-before-mask, DESIGN #18,
   layer_dhcp4.go AppendOptions): the router option precedes the subnet mask when the
   client's parameter request list says so. *)
Theorem C12_mask_first_refuted : exists c h t r,
  In t (trace c (init c) h) /\ t_reply t = Some r /\ r_type r = ROffer /\ c12_mask_first r = false.
Proof. exact mask_first_refuted. Qed.
Print Assumptions C12_mask_first_refuted.
