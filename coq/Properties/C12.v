(* Properties/C12.v — DHCP replies segregate captured clients and conform to the
   transaction.  Only statements, each closed by [exact] of a lemma proved in
   Proofs/DHCP*.v.

   Quantification as in C11.v: every configuration c (operating mode, home and
   netfilter prefixes, addresses) subject to [cfg_ok c] where stated (the netfilter
   gateway is the host's own address, as the property words it), every history h,
   every step t of its trace, on the model of the REPAIRED code (FIXLOG.md:
   7baf630 c9f204c d6f86b5 handlers/dhcp4_spoofer, 94e2701 AppendOptions). *)
From PV Require Import Base.Prelude Base.Text Model.DHCP Model.DHCPShow Spec.DHCP Spec.DHCPCheck
  Proofs.DHCP Proofs.DHCPInv Proofs.DHCPReply Proofs.DHCPTie Proofs.DHCPRefuted.
Open Scope list_scope.
Open Scope N_scope.

(* Every OFFER and ACK carries an address inside the subnet selected by the client's
   capture state at that moment, with that subnet's router (our address when captured,
   the real router otherwise), DNS (family DNS / configured DNS), mask, our server id,
   the lease time, and echoes xid and chaddr. *)
Theorem C12_reply_subnet : forall c h t m r,
  cfg_ok c -> In t (trace c (init c) h) -> op_msg (t_op t) = Some m -> t_reply t = Some r ->
  c12_subnet c (t_pre t) m r = true.
Proof. exact subnet_all. Qed.
Print Assumptions C12_reply_subnet.

(* The subnet mask precedes the router option in every OFFER and ACK, whatever the
   client's parameter request list says (AppendOptions as repaired by 94e2701). *)
Theorem C12_mask_first : forall c h t m r,
  In t (trace c (init c) h) -> op_msg (t_op t) = Some m -> t_reply t = Some r ->
  c12_mask_first r = true.
Proof. exact mask_first_all. Qed.
Print Assumptions C12_mask_first.

(* An ACK confirms the address offered in this transaction (same client id, same
   xid) or the client's current lease. *)
Theorem C12_ack_matches : forall c h t m r,
  In t (trace c (init c) h) -> op_msg (t_op t) = Some m -> t_reply t = Some r ->
  c12_ack_matches (t_pre t) m r = true.
Proof. exact ack_matches_all. Qed.
Print Assumptions C12_ack_matches.

(* Requests that cannot be honoured (another server selected; unknown, freed, EXPIRED or
   mismatching lease; address outside the client's subnet) are never ACKed — FALSE of the
   faithful model: finding c12-expired-lease-acked (only the renewing path compares the
   lease's expiry with the clock; selecting / rebooting / rebinding ACK a lease whose
   DHCPExpiry has passed and which MinuteTicker has not freed yet). *)
Theorem C12_no_ack_when_refuted : exists c h t m r,
  In t (trace c (init c) h) /\ op_msg (t_op t) = Some m /\ t_reply t = Some r /\
  r_type r = RAck /\ cannot_honour c (t_pre t) m (op_now (t_op t)) = true.
Proof. exact no_ack_when_refuted. Qed.
Print Assumptions C12_no_ack_when_refuted.

(* True on the complement of exactly that class. *)
Theorem C12_no_ack_when_partial : forall c h t m,
  In t (trace c (init c) h) -> op_msg (t_op t) = Some m ->
  known_c12_expired t = false ->
  c12_no_ack_when c (t_pre t) m (op_now (t_op t)) (t_reply t) = true.
Proof. exact no_ack_when_partial. Qed.
Print Assumptions C12_no_ack_when_partial.

(* The spec column of D12 is empty along every history outside the recorded class. *)
Theorem C12_spec_column_partial : forall c h t,
  cfg_ok c -> In t (trace c (init c) h) -> known_c12_expired t = false -> c12_fails c t = [].
Proof. exact c12_fails_partial. Qed.
Print Assumptions C12_spec_column_partial.

(* A lease file left behind by a run with other prefix lengths does not change the
   configuration in force (configChanged as repaired by e01fd08): the handler then
   behaves as [run c (init c)], to which the theorems above apply. *)
Theorem C12_stale_file_config : forall c hb nb, loaded_cfg c hb nb = c.
Proof. exact loaded_cfg_id. Qed.
Print Assumptions C12_stale_file_config.

(* Non-vacuity. *)
Example C12_cfg_ok_example : cfg_ok wcfg.
Proof. reflexivity. Qed.
Print Assumptions C12_cfg_ok_example.

Example C12_live_example :
  map (fun t => match t_reply t with Some r => (r_type r, r_yi r) | None => (RNak, 0) end)
      (trace wcfg (init wcfg) (with_ch0 wlive))
  = [(ROffer, 3232235522); (RAck, 3232235522); (RNak, 0); (ROffer, 3232235532); (RAck, 3232235532); (RAck, 3232235522)].
Proof. exact live_example. Qed.
Print Assumptions C12_live_example.

Example C12_nak_example :
  let t := hd (mkT (init wcfg) ch0 (OTick 0) None (init wcfg)) (trace wcfg (init wcfg) (with_ch0 w12_unknown)) in
  cannot_honour wcfg (t_pre t) (dmsg0 c3 0 (Some ipA) us) 0 = true /\
  option_map r_type (t_reply t) = Some RNak.
Proof. exact nak_example. Qed.
Print Assumptions C12_nak_example.
