(* Properties/C06_glue.v — C06 over raw frame bytes (see Properties/C04_glue.v for the glue). *)
From PV Require Import Base.Prelude Base.Slice Model.Tables Model.TablesGlue Spec.HostTrackingNotif
  Proofs.TablesNotifHist Proofs.TablesGlue.

(* every disciplined history whose frames are raw byte strings: per-address exactly-once and the order clause *)
Theorem C06_exactly_once_bytes : forall c now s0 bs,
  own_mac c <> rt_mac c -> new_session c now = Ok s0 -> bunits_ok c s0 bs ->
  all_once c s0 (rinit c now) (map (dunit_of c) bs).
Proof. exact exactly_once_bytes. Qed.
Print Assumptions C06_exactly_once_bytes.
