(* Properties/C08_dns.v — the DNS decoders terminate without panic on arbitrary input
   (part of C08; the models follow /repo after the repairs 3f1ca67, c06263f, d1f1b32).
   Every statement quantifies over ALL byte contents, lengths and capacities of the Go slice
   ([wf]: len <= cap, which holds for every Go slice) and all integer arguments. *)
From PV Require Import Base.Prelude Base.Slice Model.DNS Model.DNSMerge Model.DNSRecords Model.DNSNbns
     Proofs.DNS Proofs.DNSRecords Proofs.DNSNbns.
Open Scope N_scope.

(* decodeName(data, offset, buffer, 1): the recursion is bounded by maxRecursionLevel, the label
   loop by the 255-byte window; 256 units of recursion fuel are always enough *)
Theorem C08_decodeName_total : forall data lf offset buf,
  wf data -> (256 <= lf)%nat -> safe (decodeName lf data offset buf 1).
Proof. intros. apply decodeName_safe; auto; lia. Qed.
Print Assumptions C08_decodeName_total.

(* DecodeQuestion(p, index, buffer) for every p that passed DNS.IsValid (len(p) >= 12; the header
   getters are only defined on such p), every int index (also negative), every buffer *)
Theorem C08_DecodeQuestion_total : forall p index buffer,
  wf p -> (12 <= len p)%nat -> safe (decodeQuestion p index buffer).
Proof. exact decodeQuestion_total. Qed.
Print Assumptions C08_DecodeQuestion_total.

(* ... and it never reads behind len(p) (the #17 defect, repaired) *)
Theorem C08_DecodeQuestion_in_bounds : forall p index buffer q off,
  wf p -> (12 <= len p)%nat -> decodeQuestion p index buffer = Ok (q, off) -> (off <= len p)%nat.
Proof. exact decodeQuestion_in_bounds. Qed.
Print Assumptions C08_DecodeQuestion_in_bounds.

(* decodeRRs(count, p, offset, buffer): every count, offset, buffer and p *)
Theorem C08_decodeRRs_total : forall count p offset buffer e,
  wf p -> safe (fst (decodeRRs count p offset buffer e)).
Proof. exact decodeRRs_total. Qed.
Print Assumptions C08_decodeRRs_total.

Theorem C08_DecodeAnswers_total : forall p offset buffer e,
  wf p -> (12 <= len p)%nat -> safe (fst (decodeAnswers p offset buffer e)).
Proof. exact decodeAnswers_total. Qed.
Print Assumptions C08_DecodeAnswers_total.

(* ProcessDNS on any payload of any length and capacity, from any table *)
Theorem C08_ProcessDNS_total : forall t p, wf p -> safe (fst (processDNS t p)).
Proof. exact processDNS_total. Qed.
Print Assumptions C08_ProcessDNS_total.

(* parseNodeNameArray / the NODE STATUS branch of ProcessNBNS on any RDATA (the #19 array bound, repaired) *)
Theorem C08_parseNodeNameArray_total : forall b, wf b -> safe (parseNodeNameArray b).
Proof. exact parseNodeNameArray_total. Qed.
Print Assumptions C08_parseNodeNameArray_total.

Theorem C08_nbns_answer_name_total : forall b, wf b -> safe (nbns_answer_name b).
Proof. exact nbns_answer_name_total. Qed.
Print Assumptions C08_nbns_answer_name_total.

(* decodeNBNSName on any buffer of any length and capacity *)
Theorem C08_decodeNBNSName_total : forall buf, wf buf -> safe (decodeNBNSName buf).
Proof. exact decodeNBNSName_total. Qed.
Print Assumptions C08_decodeNBNSName_total.

(* non-vacuity: a 29-byte query for www.example.com decodes; the input that used to panic
   (question name ending at the end of the buffer, no spare capacity) is now an error *)
Example C08_dns_nonvacuous :
  let p := of_bytes ([0;1;1;0;0;1;0;0;0;0;0;0] ++ [3;119;119;119;7;101;120;97;109;112;108;101;3;99;111;109;0] ++ [0;1;0;1]) in
  let cut := mkSlice (firstn 29 (arr p)) 29 in
  wf p /\ (12 <= len p)%nat /\ is_ok (decodeQuestion p 12 (mkSlice (repeat 0 64) 0)) = true /\
  wf cut /\ (12 <= len cut)%nat /\ decodeQuestion cut 12 (mkSlice (repeat 0 64) 0) = Err EParseFrame.
Proof. cbv zeta. repeat split; try (vm_compute; reflexivity); try (unfold wf, cap; vm_compute; lia); vm_compute; lia. Qed.
Print Assumptions C08_dns_nonvacuous.
