(* Properties/C17_history.v — C17, round 7: whole histories of responses, a repeated response,
   one theorem per record type / body kind, NetBIOS round trip for all names.
   (listed in props/C17.json extra_theorem_files) *)
From PV Require Import Base.Prelude Base.Slice Model.DNS Model.DNSMerge Model.DNSRecords Model.DNSNbns Model.DNSMdns
     Spec.RFC1035 Proofs.DNSSpec Proofs.DNSReject Proofs.DNSHistory Proofs.DNSDecide Proofs.DNSTxt.
Open Scope N_scope.

(* The DNSTable has no ageing in the code (nothing ever deletes from DNSHandler.DNSTable); ageing exists
   for the mDNS (MAC,id) cache and is in C17_mdns_cache_expiry.  Hence: for ANY payload (well-formed or
   not) every entry stays and keeps all its records, and so through any history. *)
Theorem C17_table_only_grows : forall t p, table_grows t (snd (processDNS t p)).
Proof. exact processDNS_grows. Qed.
Print Assumptions C17_table_only_grows.

Theorem C17_history_only_grows : forall msgs t, table_grows t (run_dns t msgs).
Proof. exact history_grows. Qed.
Print Assumptions C17_history_only_grows.

Theorem C17_history_keeps_records : forall msgs t name e, tbl_find name t = Some e ->
  exists e', tbl_find name (run_dns t msgs) = Some e' /\
    (forall r, In r (de_ip4 e) -> In r (de_ip4 e')) /\ (forall r, In r (de_ip6 e) -> In r (de_ip6 e')) /\
    (forall r, In r (de_cname e) -> In r (de_cname e')) /\ (forall r, In r (de_ptr e) -> In r (de_ptr e')).
Proof. exact history_keeps_records. Qed.
Print Assumptions C17_history_keeps_records.

(* idempotent on a repeated response: reference and implementation model *)
Theorem C17_reference_idempotent : forall t m,
  ref_process (snd (ref_process t m)) m = (None, snd (ref_process t m)).
Proof. exact ref_process_idempotent. Qed.
Print Assumptions C17_reference_idempotent.

Theorem C17_processdns_idempotent : forall t p lim rm,
  wf p -> bytes_ok (arr p) -> (lim <= 255)%nat ->
  ref_message lim (view p) = Some rm -> msg_within lim (view p) ->
  let t1 := snd (processDNS t p) in
  fst (processDNS t1 p) = Ok None /\ ctable_of (snd (processDNS t1 p)) = ctable_of t1.
Proof. exact processDNS_idempotent. Qed.
Print Assumptions C17_processdns_idempotent.

Example C17_history_example :
  let p := of_bytes example_response in
  let t1 := snd (processDNS [] p) in
  List.length t1 = 1%nat /\ fst (processDNS t1 p) = Ok None /\
  ctable_of (snd (processDNS t1 p)) = ctable_of t1 /\
  ctable_of (run_dns [] [p; p; p]) = ctable_of t1.
Proof. exact history_example. Qed.
Print Assumptions C17_history_example.

(* one theorem per record type decodeRRs decodes (hypotheses: the reference reads a record r at off,
   owner within 254 pointers; non-vacuity: C17_records_nonvacuous has a CNAME, an A and a PTR record) *)
Theorem C17_rr_A : forall p buffer off e r nx lim, wf p -> bytes_ok (arr p) -> (lim <= 255)%nat ->
  ref_rr_at lim (view p) off = Some (r, nx) -> (depth_at (view p) off <= 254)%nat ->
  rr_type r = 1 -> rr_rdlen r = 4%nat ->
  exists u e', rr_step p buffer off e = (Ok (nx, u, e'), e') /\
    (cache_of_entry e', u) = learn_into (cache_of_entry e) (LA (dotted (rr_owner r)) (sub (view p) (rr_rdoff r) 4) (rr_ttl r)).
Proof. exact rr_type_A. Qed.
Print Assumptions C17_rr_A.

Theorem C17_rr_AAAA : forall p buffer off e r nx lim, wf p -> bytes_ok (arr p) -> (lim <= 255)%nat ->
  ref_rr_at lim (view p) off = Some (r, nx) -> (depth_at (view p) off <= 254)%nat ->
  rr_type r = 28 -> rr_rdlen r = 16%nat ->
  exists u e', rr_step p buffer off e = (Ok (nx, u, e'), e') /\
    (cache_of_entry e', u) = learn_into (cache_of_entry e) (LAAAA (dotted (rr_owner r)) (sub (view p) (rr_rdoff r) 16) (rr_ttl r)).
Proof. exact rr_type_AAAA. Qed.
Print Assumptions C17_rr_AAAA.

Theorem C17_rr_CNAME : forall p buffer off e r nx lim, wf p -> bytes_ok (arr p) -> (lim <= 255)%nat ->
  ref_rr_at lim (view p) off = Some (r, nx) -> (depth_at (view p) off <= 254)%nat ->
  forall cls cn, rr_type r = 5 ->
  ref_decode (view p) (rr_rdoff r) = Some (cls, cn) -> name_ok lim cls = true ->
  (depth_at (view p) (rr_rdoff r) <= 254)%nat ->
  exists u e', rr_step p buffer off e = (Ok (nx, u, e'), e') /\
    (cache_of_entry e', u) = learn_into (cache_of_entry e) (LCNAME (dotted (rr_owner r)) (dotted cls) (rr_ttl r)).
Proof. exact rr_type_CNAME. Qed.
Print Assumptions C17_rr_CNAME.

Theorem C17_rr_PTR : forall p buffer off e r nx lim, wf p -> bytes_ok (arr p) -> (lim <= 255)%nat ->
  ref_rr_at lim (view p) off = Some (r, nx) -> (depth_at (view p) off <= 254)%nat ->
  forall ip pls pn, rr_type r = 12 -> reverse_v4 (rr_owner r) = Some ip ->
  ref_decode (view p) (rr_rdoff r) = Some (pls, pn) -> name_ok lim pls = true ->
  (depth_at (view p) (rr_rdoff r) <= 254)%nat ->
  exists u e', rr_step p buffer off e = (Ok (nx, u, e'), e') /\
    (cache_of_entry e', u) = learn_into (cache_of_entry e) (LPTR (dotted pls) ip (rr_ttl r)).
Proof. exact rr_type_PTR. Qed.
Print Assumptions C17_rr_PTR.

(* MX, NS, SOA, TXT, SRV, NSEC, OPT, unknown types, and PTR owners that are no IPv4 reverse name *)
Theorem C17_rr_ignored : forall p buffer off e r nx lim, wf p -> bytes_ok (arr p) -> (lim <= 255)%nat ->
  ref_rr_at lim (view p) off = Some (r, nx) -> (depth_at (view p) off <= 254)%nat ->
  (rr_type r <> 1 /\ rr_type r <> 28 /\ rr_type r <> 5 /\ rr_type r <> 12) \/
  (rr_type r = 12 /\ reverse_v4 (rr_owner r) = None /\ (depth_at (view p) (rr_rdoff r) <= 254)%nat) ->
  exists e', rr_step p buffer off e = (Ok (nx, false, e'), e') /\ cache_of_entry e' = cache_of_entry e /\ de_name e' = de_name e.
Proof. exact rr_type_ignored. Qed.
Print Assumptions C17_rr_ignored.

(* ProcessMDNS per body kind (the typed bodies dnsmessage hands over: A, AAAA, TXT; PTR / SRV / OPT /
   NSEC / unknown = MB_other) *)
Theorem C17_mdns_body_A : forall r ip rest v4 v6 model, mr_body r = MB_A ip ->
  resp_loop (r :: rest) v4 v6 model = resp_loop rest (v4 ++ [mkIPN ip (local_host_name (mr_name r)) [] []]) v6 model.
Proof. exact mdns_body_A. Qed.
Print Assumptions C17_mdns_body_A.
Theorem C17_mdns_body_AAAA : forall r ip rest v4 v6 model, mr_body r = MB_AAAA ip ->
  resp_loop (r :: rest) v4 v6 model = resp_loop rest v4 (v6 ++ [mkIPN ip (local_host_name (mr_name r)) [] []]) model.
Proof. exact mdns_body_AAAA. Qed.
Print Assumptions C17_mdns_body_AAAA.
Theorem C17_mdns_body_TXT : forall r txt rest v4 v6 model, mr_body r = MB_TXT txt ->
  resp_loop (r :: rest) v4 v6 model = resp_loop rest v4 v6 (if nonempty (parseTXT txt) then parseTXT txt else model).
Proof. exact mdns_body_TXT. Qed.
Print Assumptions C17_mdns_body_TXT.
Theorem C17_mdns_body_other : forall r rest v4 v6 model, mr_body r = MB_other ->
  resp_loop (r :: rest) v4 v6 model = resp_loop rest v4 v6 model.
Proof. exact mdns_body_other. Qed.
Print Assumptions C17_mdns_body_other.

(* NetBIOS first-level encoding: decode (encode n) = n, space-padded, for ALL names of at most 16 octets *)
Theorem C17_nbns_roundtrip_all : forall n spare, (length n <= 16)%nat -> bytes_ok n ->
  decodeNBNSName (of_bytes_cap (encodeNBNSName n) spare) = Ok (33%nat, present_spaces (nb_pad16 n)).
Proof. exact nbns_roundtrip_all. Qed.
Print Assumptions C17_nbns_roundtrip_all.

(* decodeName is EXACTLY the reference decoder restricted by the decidable predicate [accepts] (name
   found; at most 255 octets across pointers; no '.' inside a label; at most 254 pointers), for ALL
   byte strings, offsets, buffers and capacities: the dotted name and its end offset, else an error *)
Theorem C17_name_decides : forall data off buf, wf data -> bytes_ok (arr data) ->
  match accepts (view data) off with
  | Some (ls, n) => exists b, decodeName name_fuel data off buf 1 = Ok (dotted ls, n, b)
  | None => exists e, decodeName name_fuel data off buf 1 = Err e
  end.
Proof. exact name_decides. Qed.
Print Assumptions C17_name_decides.

(* parseTXT (the device model from a DNS-SD TXT record) = the RFC 6763 6.3-6.4 reference: split at the
   first '=', case-insensitive keys, first of model / ty / dvty / md wins; for every list of strings *)
Theorem C17_parseTXT_reference : forall txt, parseTXT txt = ref_txt_model txt.
Proof. exact parseTXT_ref. Qed.
Print Assumptions C17_parseTXT_reference.
Example C17_parseTXT_example :
  parseTXT [[116;120;116;118;101;114;115;61;49]; [77;111;100;101;108;61;97;61;98]; [109;100;61;120]] = [97;61;98].
Proof. exact parseTXT_example. Qed.
Print Assumptions C17_parseTXT_example.

(* Name spelling across a history.  The table key is the exact octet string of the question name
   (Spec: table_key; RFC 4343 case-insensitivity is a comparison rule of the DNS, dnsmessage compares
   names byte-wise): another spelling is another entry, and a response about one spelling never
   touches the entry of another spelling or of any other name.  Together with
   C17_history_keeps_records (which holds for every name, whatever its octets): records learned under
   a spelling stay under that spelling through any history. *)
Theorem C17_table_key_exact : forall k k' c t, table_key k <> table_key k' -> tfind k (tput k' c t) = tfind k t.
Proof. exact tfind_tput_other. Qed.
Print Assumptions C17_table_key_exact.

Theorem C17_other_spelling_untouched : forall t p name q index,
  decodeQuestion p 12 {| arr := repeat 0 64; len := 0 |} = Ok (q, index) -> q_name q <> name ->
  tbl_find name (snd (processDNS t p)) = tbl_find name t.
Proof. exact other_spelling_untouched. Qed.
Print Assumptions C17_other_spelling_untouched.

Example C17_spelling_history_example :
  let msg (n : N) (ip : N) := of_bytes ([0;1;129;128; 0;1; 0;1; 0;0; 0;0] ++ [1; n; 0; 0;1; 0;1] ++
                                        [192;12; 0;1; 0;1; 0;0;0;60; 0;4; 10;0;0;ip]) in
  let t := run_dns [] [msg 88 1; msg 120 2; msg 88 3] in
  map (fun e => (de_name e, List.length (de_ip4 e))) t = [([88], 2%nat); ([120], 1%nat)].
Proof. exact spelling_history_example. Qed.
Print Assumptions C17_spelling_history_example.
