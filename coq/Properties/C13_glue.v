(* Properties/C13_glue.v — the records of C13's event system are the bytes on the wire and the bytes received.
   Only statements closed by [exact].  Glue between C13 (Model/ArpSpoof.v) and
     SEND  (C07: Model/SendNdp.v send_arp / arp_request_raw / arp_reply / arp_request_to / arp_probe /
            arp_announce_to, proved byte-exact against the independent reference decoder Spec/SendRef.v) and
     VIEWS (C01/C02: Model/Views.v ARP_IsValid and the ARP getters of layer_arp.go).
   MACs and IPv4 addresses are numbers in C13 and byte strings in SEND: mac_b / ip_b are the 6 / 4 big-endian
   bytes; "in range" (macr < 2^48, ipr < 2^32, cfg_rng, event_rng) is what makes the two views coincide, and it
   is an invariant of every run whose inputs are (run_rng). *)
From PV Require Import Base.Prelude Base.Slice Model.ArpSpoof Spec.ArpSpoof
  Proofs.ArpSpoof Proofs.ArpSpoofLoops Proofs.ArpSpoofRx Proofs.ArpSpoofGlue Proofs.ArpSpoofOffer.
From PV Require Model.SendBase Model.SendNdp Spec.SendRef Model.ViewsBase Model.Views Model.Tables Proofs.TablesRefine.
Open Scope N_scope.

(* a frame record pushed through SEND's RequestRaw / reply on ANY pooled buffer content, read back by SEND's
   reference decoder: Ethernet source = our MAC, and exactly that record *)
Theorem C13_wire_unwire : forall c lla mtu f junk,
  macr (host_mac c) -> frame_rng f -> (42 <= List.length junk)%nat ->
  exists fr, wire (send_cfg c lla mtu) f junk = Ok [fr] /\ unwire fr = Some (host_mac c, f).
Proof. exact wire_unwire. Qed.
Print Assumptions C13_wire_unwire.

(* every send path of arp.go (SEND's function for it) is [wire] of the record the C13 model builds for that path *)
Theorem C13_paths_are_wire : forall c lla mtu junk,
  let sc := send_cfg c lla mtu in
  (forall dst ip, Model.SendNdp.arp_announce_to sc (mac_b dst) (ip_b ip) junk = wire sc (announce_ip c dst ip) junk) /\
  (forall dst, Model.SendNdp.arp_announce_to sc (mac_b dst) (ip_b (router_ip c)) junk = wire sc (announce c dst) junk) /\
  (forall dst sn tg, Model.SendNdp.arp_request_raw sc (mac_b dst) (mac_b (amac sn), ip_b (aip sn)) (mac_b (amac tg), ip_b (aip tg)) junk
                     = wire sc (request_raw dst sn tg) junk) /\
  (forall dst, Model.SendNdp.arp_request_raw sc (mac_b dst) (Model.SendBase.router_mac sc, Model.SendBase.router_ip4 sc)
                 (Model.SendBase.router_mac sc, Model.SendBase.router_ip4 sc) junk = wire sc (restore c dst) junk) /\
  (forall dst sn tg, Model.SendNdp.arp_reply sc (mac_b dst) (mac_b (amac sn), ip_b (aip sn)) (mac_b (amac tg), ip_b (aip tg)) junk
                     = wire sc (reply_raw dst sn tg) junk) /\
  (forall p, Model.SendNdp.arp_reply sc (mac_b (psmac p)) (Model.SendBase.host_mac sc, ip_b (ptip p)) (mac_b (psmac p), ip_b (psip p)) junk
             = wire sc (spoof_reply c p) junk) /\
  (forall p, Model.SendNdp.arp_reply sc (mac_b (psmac p)) (Model.SendBase.host_mac sc, ip_b (ptip p)) (mac_b (psmac p), ip_b IP4_BCAST) junk
             = wire sc (probe_reject c p) junk) /\
  (forall dst ip, Model.SendNdp.arp_request_to sc (mac_b dst) (ip_b ip) junk = wire sc (request_to c dst ip) junk) /\
  (forall ip, Model.SendNdp.arp_request sc (ip_b ip) junk = wire sc (request_to c MAC_BCAST ip) junk) /\
  (forall ip, Model.SendNdp.arp_probe sc (ip_b ip) junk = wire sc (probe_frame c ip) junk).
Proof. exact paths_are_wire. Qed.
Print Assumptions C13_paths_are_wire.

(* in every run whose configuration and events are in range, everything emitted is in range ... *)
Theorem C13_run_in_range : forall c evs s e out f,
  cfg_rng c -> Forall event_rng evs ->
  In (s, e, out) (trace c init_state evs) -> In f out -> frame_rng f.
Proof. exact run_rng. Qed.
Print Assumptions C13_run_in_range.

(* ... hence every emitted record IS a byte string on the wire that reads back as that record *)
Theorem C13_on_the_wire : forall c evs s e out f lla mtu junk,
  cfg_rng c -> Forall event_rng evs ->
  In (s, e, out) (trace c init_state evs) -> In f out -> (42 <= List.length junk)%nat ->
  exists fr, wire (send_cfg c lla mtu) f junk = Ok [fr] /\ unwire fr = Some (host_mac c, f).
Proof. exact on_the_wire. Qed.
Print Assumptions C13_on_the_wire.

(* C13_confined as a statement about the bytes: whatever the reference decoder reads as a forged ARP frame off a
   frame this handler wrote was asked for by the caller, or its Ethernet destination bytes are a MAC in the hunt
   list, or it was decided under the lock while that MAC was (a loop's armed write / a reply in flight) *)
Theorem C13_confined_on_the_wire : forall c evs s e out f lla mtu junk fr src g,
  cfg_ok c -> cfg_rng c -> Forall event_rng evs ->
  In (s, e, out) (trace c init_state evs) -> In f out -> (42 <= List.length junk)%nat ->
  wire (send_cfg c lla mtu) f junk = Ok [fr] -> unwire fr = Some (src, g) ->
  src = host_mac c /\ g = f /\
  (forged c g = true ->
     caller_forged c e = true \/ hunted s (fedst g) = true \/
     (exists i lp, e = Send i /\ nth_error (loops s) i = Some lp /\ armed_pc c (fedst g) (lpc lp) = true) \/
     (exists k, e = RxReply k /\ nth_error (rxq s) k = Some g)).
Proof. exact confined_on_the_wire. Qed.
Print Assumptions C13_confined_on_the_wire.

(* the frames of C13_stop_undone / C13_periodic_announce as bytes: the restoring write is RequestRaw(m, RouterAddr4,
   RouterAddr4) and reads back as Ethernet dst m, src our MAC, ARP request with sender = target = (router MAC,
   router IP); the periodic write is AnnounceTo(m, router IP) and reads back with sender = (our MAC, router IP) *)
Theorem C13_restore_on_the_wire : forall c m lla mtu junk,
  cfg_rng c -> macr m -> (42 <= List.length junk)%nat ->
  let sc := send_cfg c lla mtu in
  exists fr,
    Model.SendNdp.arp_request_raw sc (mac_b m) (Model.SendBase.router_mac sc, Model.SendBase.router_ip4 sc)
      (Model.SendBase.router_mac sc, Model.SendBase.router_ip4 sc) junk = Ok [fr] /\
    unwire fr = Some (host_mac c, restore c m).
Proof. exact restore_on_the_wire. Qed.
Print Assumptions C13_restore_on_the_wire.

Theorem C13_announce_on_the_wire : forall c m lla mtu junk,
  cfg_rng c -> macr m -> (42 <= List.length junk)%nat ->
  let sc := send_cfg c lla mtu in
  exists fr,
    Model.SendNdp.arp_announce_to sc (mac_b m) (ip_b (router_ip c)) junk = Ok [fr] /\
    unwire fr = Some (host_mac c, announce c m).
Proof. exact announce_on_the_wire. Qed.
Print Assumptions C13_announce_on_the_wire.

(* received frames: RxRaw's validity test is VIEWS' ARP.IsValid (same outcome, panics included, for every slice
   and capacity), and on a valid view its packet is built from exactly the values of VIEWS' five getters *)
Theorem C13_rx_valid_is_views : forall p : slice,
  Model.Views.ARP_IsValid p =
  match arp_is_valid p with Ok _ => Ok true | Err _ => Ok false | Panic => Panic | Fuel => Fuel end.
Proof. exact rx_valid_is_views. Qed.
Print Assumptions C13_rx_valid_is_views.

Theorem C13_rx_decode_is_views : forall (p : slice) m,
  wf p -> Model.Views.ARP_IsValid p = Ok true ->
  exists op si ti,
    Model.Views.ARP_Operation p = Ok (Model.ViewsBase.VN op) /\
    Model.Views.ARP_SrcMAC p = Ok (Model.ViewsBase.VR 8 6) /\
    Model.Views.ARP_SrcIP p = Ok (Model.ViewsBase.VX si) /\
    Model.Views.ARP_DstMAC p = Ok (Model.ViewsBase.VR 18 6) /\
    Model.Views.ARP_DstIP p = Ok (Model.ViewsBase.VX ti) /\
    arp_decode m p = Ok (mkPkt op m (N_of_bytes (sub (arr p) 8 6)) (N_of_bytes si)
                                    (N_of_bytes (sub (arr p) 18 6)) (N_of_bytes ti)).
Proof. exact rx_decode_is_views. Qed.
Print Assumptions C13_rx_decode_is_views.

(* "holds a different outstanding DHCP offer" is a fact of the SESSION's MAC table (TABLES, Model/Tables.v): the
   C13 offer list is the view of a TABLES state with unique MAC keys (an invariant of every reachable TABLES state,
   Proofs/Tables.v), and the probe-reject decision reads MACEntry.IP4Offer of the probing MAC *)
Theorem C13_offers_view_lookup : forall t m,
  NoDup (map Model.Tables.m_mac (Model.Tables.macs t)) -> offer_of m (offers_view t) = tables_offer t m.
Proof. exact offers_view_lookup. Qed.
Print Assumptions C13_offers_view_lookup.

Theorem C13_probe_reject_reads_tables : forall c s t p,
  NoDup (map Model.Tables.m_mac (Model.Tables.macs t)) -> offers s = offers_view t ->
  rx_answer c s p =
  if closed s then RxNone
  else if sp_is_probe p
  then (if sp_reject_cond c (tables_offer t (psmac p)) p then RxQueue (probe_reject c p) else RxNone)
  else (if sp_asks_router c p && hunted s (psmac p) then RxQueue (spoof_reply c p) else RxNone).
Proof. exact probe_reject_reads_tables. Qed.
Print Assumptions C13_probe_reject_reads_tables.

(* the last DHCP event decides: after the confirmation DHCPv4Update(m, y) the offer the handler reads for m is y,
   in every state of TABLES' step model of the session (its invariant InvR holds in every state reachable from
   NewSession, second statement): an earlier offer of another address is not outstanding any more, whether the
   client was unknown, offline or online *)
Theorem C13_update_clears_offer : forall c s m y name now,
  Proofs.TablesRefine.InvR s -> y <> 0 ->
  tables_offer (fst (Model.Tables.step c s (Model.Tables.DHCPv4Update m (Model.Tables.IP4 y) name now))) m = Some y.
Proof. exact update_clears_offer. Qed.
Print Assumptions C13_update_clears_offer.

Theorem C13_update_clears_offer_reachable : forall c now0 s0 ops m y name now,
  Model.Tables.own_mac c <> Model.Tables.rt_mac c -> Model.Tables.new_session c now0 = Ok s0 -> y <> 0 ->
  tables_offer (Model.Tables.run c s0 (ops ++ [Model.Tables.DHCPv4Update m (Model.Tables.IP4 y) name now])) m = Some y.
Proof. exact update_clears_offer_reachable. Qed.
Print Assumptions C13_update_clears_offer_reachable.
