(* Properties/C19.v — Ping completes exactly on a matching echo reply.
   Only statements, each closed by [exact] of a lemma proved in Proofs/Ping*.v.

   The event system is Model/Ping.v: histories are lists of Begin (the waiter is registered under
   the table lock) / Sent ok (the send returned) / BulkFail n / Notify / Skip / Timeout / End
   events, in the order the code performs them; any event of another goroutine may come between
   the Begin and the Sent of a call (a reply parsed while the call is still inside its send); [run fx (init n) tr = Ok s] says that tr is a well-formed history (every event enabled
   when it happens) from an empty table with next-id n, ending in s.  [run true] (= [run FIX24])
   is the code as it is in /repo since the repair of DESIGN section 11 #24 (commit 659869d),
   [run false] the code before it; every
   theorem that does not mention the difference holds for both ([fx] universally quantified).
   Real time enters only as the Timeout event.  What a frame does (Notify i or Skip) is
   Model/PingFrame.v; its agreement with the RFC reading is in the frame theorems below. *)
From PV Require Import Base.Prelude Model.Ping Model.PingTrace Model.PingFrame Model.PingScript Model.PingKnown.
From PV Require Import Model.PingAbs Spec.PingSpec Proofs.PingRefine.
From PV Require Import Spec.PingRFC Proofs.Ping Proofs.PingIff Proofs.PingMore Proofs.PingFrame Proofs.PingBulk Proofs.PingWrap.
Open Scope N_scope.

(* ---------------------------------------------------------------------------------------- *)
(* C19_iff (partial: under [young], see C19_distinct_refuted).  For every history, every call p
   and every way of cutting the history at p's Begin (registration) and p's End: p returns nil iff
   a notification carrying p's own identifier happened between the two — INCLUDING while p was
   still inside its send — and ErrTimeout iff none did, provided no call is outstanding across
   65536 handed-out identifiers ([young] in every state; see C19_distinct for why: the code never
   checks whether an identifier is still in use).  (That End p is p's first return and that its send
   succeeded follow from the history being well formed: first_return.)  The deadline that counts is
   the moment the call leaves its select and takes the table lock (End p), which is at or after the
   timer (Timeout p): a reply that arrives between the two still completes the call. *)
Theorem C19_iff_partial : forall fx n pre p mid post s,
  n < 65536 ->
  run fx (init n) (pre ++ Begin p :: mid ++ End p :: post) = Ok s ->
  always fx young (init n) (pre ++ Begin p :: mid ++ End p :: post) ->
  exists i, id_of s p = Some i /\
    (result_of s p = Some RNil <-> In (Notify i) mid) /\
    (result_of s p = Some RTimeout <-> ~ In (Notify i) mid).
Proof. exact ping_iff. Qed.
Print Assumptions C19_iff_partial.

(* A call whose send fails returns that error whatever was parsed meanwhile. *)
Theorem C19_send_error : forall fx n pre p mid post s,
  run fx (init n) (pre ++ Begin p :: mid ++ Sent p false :: post) = Ok s ->
  result_of s p = Some RSendErr.
Proof. exact ping_send_error. Qed.
Print Assumptions C19_send_error.

(* Registration precedes the send: a reply parsed while the call is inside its send completes it. *)
Example C19_reply_during_send :
  exists s, run FIX24 init_go ex_during_send = Ok s /\ result_of s 0%nat = Some RNil /\ tbl s = [].
Proof. exact reply_during_send. Qed.
Print Assumptions C19_reply_during_send.

(* The hypothesis is satisfiable and both outcomes occur: call 1 (id 2) sees only notifications
   for other identifiers and times out, call 0 (id 1) is completed by its own. *)
Example C19_iff_nonvacuous :
  exists s, run false init_go ex_history = Ok s /\ always false young init_go ex_history /\
            id_of s 1%nat = Some 2 /\ result_of s 1%nat = Some RTimeout /\
            id_of s 0%nat = Some 1 /\ result_of s 0%nat = Some RNil /\
            id_of s 2%nat = Some 3 /\ result_of s 2%nat = None.
Proof. exact ping_iff_nonvacuous. Qed.
Print Assumptions C19_iff_nonvacuous.

(* Every history that hands out fewer than 65536 identifiers in total satisfies the hypothesis. *)
Theorem C19_young_if_few_calls : forall fx n tr,
  count_begins tr < 65536 -> always fx young (init n) tr.
Proof. exact few_begins_young. Qed.
Print Assumptions C19_young_if_few_calls.

(* ---------------------------------------------------------------------------------------- *)
(* Frames.  [parse_notify f] (Model/PingFrame.v) is what Session.Parse does with the frame f as
   far as the waiter table is concerned: Ok (Some i) = echoNotify(i) is called, Ok None = it is
   not.  [rfc_reply_id f] (Spec/PingRFC.v) is the RFC reading: f is an echo reply carrying
   identifier i.  Since the repairs in /repo (IP4.IsValid 38ef1da, IP6.IsValid 28b2fc9, and the
   three guards on echoNotify in Session.Parse made by this cluster) they agree on EVERY frame:
   any bytes, any length, no recorded class left; in particular Parse never panics on this path. *)
Theorem C19_frame_agree : forall f, parse_notify f = Ok (rfc_reply_id f).
Proof. exact frame_agree. Qed.
Print Assumptions C19_frame_agree.

(* Echo requests never reach echoNotify. *)
Theorem C19_request_silent : forall f j, rfc_request_id f = Some j -> parse_notify f = Ok None.
Proof. exact frame_request_silent. Qed.
Print Assumptions C19_request_silent.

(* one frame of each class that used to complete a ping (former findings echo_reply_bad_ip_header,
   echo_reply_wrong_icmp_family, echo_reply_beyond_ip4_totallen, echo_reply_beyond_ip6_payloadlen)
   is now silent; well-formed frames behave *)
Example C19_closed_classes :
  was_C19_iphdr w_iphdr = true /\ parse_notify w_iphdr = Ok None /\
  was_C19_family w_family = true /\ parse_notify w_family = Ok None /\
  was_C19_totallen w_totallen = true /\ parse_notify w_totallen = Ok None /\
  was_C19_paylen w_paylen = true /\ parse_notify w_paylen = Ok None.
Proof. exact closed_classes. Qed.
Print Assumptions C19_closed_classes.

Example C19_frame_nonvacuous :
  parse_notify w_reply6 = Ok (Some 7) /\ rfc_reply_id w_reply6 = Some 7 /\
  rfc_request_id w_request4 = Some 7 /\ parse_notify w_request4 = Ok None.
Proof. exact frame_agree_nonvacuous. Qed.
Print Assumptions C19_frame_nonvacuous.

(* C19_foreign (partial: under [young]).  A call in whose window every event is either a parsed
   frame that is NOT an echo reply for the call's own identifier (reply with another id, echo
   request, malformed or non-ICMP frame), or no notification at all (timers, events of other
   calls), returns ErrTimeout. *)
Theorem C19_foreign_partial : forall fx n pre p mid post s,
  n < 65536 ->
  run fx (init n) (pre ++ Begin p :: mid ++ End p :: post) = Ok s ->
  always fx young (init n) (pre ++ Begin p :: mid ++ End p :: post) ->
  (forall e, In e mid ->
     (exists f, e = frame_event f /\ rfc_reply_id f <> id_of s p)
     \/ (forall j, e <> Notify j)) ->
  result_of s p = Some RTimeout.
Proof. exact ping_foreign. Qed.
Print Assumptions C19_foreign_partial.

(* ---------------------------------------------------------------------------------------- *)
(* C19_distinct.  Identifiers are next0 + (number of earlier Begin events) mod 2^16; the table is
   not consulted.  Exact condition for two calls to share an identifier, and distinctness of the
   calls that wait at the same time when the state is young. *)
Theorem C19_id_rule : forall fx n tr s q pg, n < 65536 -> run fx (init n) tr = Ok s ->
  pget (pings s) q = Some pg -> p_id pg = (n + p_seq pg) mod 65536 /\ p_seq pg < cnt s.
Proof. exact id_rule. Qed.
Print Assumptions C19_id_rule.

Theorem C19_ids_equal_exact : forall fx n tr s q1 q2 pg1 pg2, n < 65536 -> run fx (init n) tr = Ok s ->
  pget (pings s) q1 = Some pg1 -> pget (pings s) q2 = Some pg2 ->
  (p_id pg1 = p_id pg2 <-> p_seq pg1 mod 65536 = p_seq pg2 mod 65536).
Proof. exact ids_equal_exact. Qed.
Print Assumptions C19_ids_equal_exact.

Theorem C19_distinct_partial : forall fx n tr s q1 q2 pg1 pg2,
  n < 65536 -> run fx (init n) tr = Ok s -> young s ->
  q1 <> q2 -> pget (pings s) q1 = Some pg1 -> pget (pings s) q2 = Some pg2 ->
  outstanding pg1 = true -> outstanding pg2 = true -> p_id pg1 <> p_id pg2.
Proof. exact distinct_run. Qed.
Print Assumptions C19_distinct_partial.

(* Without [young] the statements fail, and "fewer than 65536 calls outstanding" is NOT enough:
   Begin 0 | Sent 0 | 65535 calls whose send fails (BulkFail 65535) | Begin 1 | Sent 1 | Notify 1 |
   Timeout 0 | End 0 is a well-formed history; only calls 0 and 1 are ever outstanding, both are
   handed identifier 1; the reply for identifier 1 is parsed while call 0 waits, completes call 1,
   and call 0 returns ErrTimeout.  (Key ping_id_wrap_collision; the harness runs exactly this
   history on the real code and the observation is compared with the model.) *)
Theorem C19_distinct_refuted :
  exists s, run true init_go wrap_history = Ok s /\
    id_of s 0%nat = Some 1 /\ id_of s 1%nat = Some 1 /\
    In (Notify 1) wrap_mid /\ result_of s 0%nat = Some RTimeout /\
    (exists pg, pget (pings s) 1%nat = Some pg /\ p_recv pg = true /\ p_phase pg = Waiting).
Proof. exact wrap_collision. Qed.
Print Assumptions C19_distinct_refuted.

Theorem C19_wrap_not_young :
  exists s, run true init_go [Begin 0%nat; Sent 0%nat true; BulkFail 65535; Begin 1%nat] = Ok s /\
            known_C19_wrap s = true.
Proof. exact wrap_not_young. Qed.
Print Assumptions C19_wrap_not_young.

(* The compressed event is sound: BulkFail k leaves the same table, next identifier, counter and
   other calls as k pairs (Begin j; Sent j false) with fresh call numbers. *)
Theorem C19_bulk_sound : forall k j0 s sb,
  next s < 65536 -> N.of_nat k <= 65536 -> (forall x, In x (keys (tbl s)) -> x < 65536) ->
  (forall p, (j0 <= p)%nat -> pget (pings s) p = None) ->
  step true s (BulkFail (N.of_nat k)) = Ok sb ->
  exists s', run true s (fails j0 k) = Ok s' /\
    tbl s' = tbl sb /\ next s' = next sb /\ cnt s' = cnt sb /\
    (forall p, (p < j0)%nat -> pget (pings s') p = pget (pings sb) p).
Proof. exact bulk_sound. Qed.
Print Assumptions C19_bulk_sound.

(* the class is decidable: a state is young unless [known_C19_wrap] says otherwise *)
Theorem C19_young_unless_known : forall s, known_C19_wrap s = false -> young s.
Proof. exact not_known_wrap_young. Qed.
Print Assumptions C19_young_unless_known.

(* ---------------------------------------------------------------------------------------- *)
(* C19_each_own.  A notification changes only the call that owns the table entry of that
   identifier, and that call carries this identifier; notifications commute. *)
Theorem C19_each_own : forall fx s i s' q, Inv s -> step fx s (Notify i) = Ok s' ->
  pget (pings s') q <> pget (pings s) q ->
  exists pg, pget (pings s) q = Some pg /\ p_id pg = i /\ tget (tbl s) i = Some q.
Proof. exact notify_only_owner. Qed.
Print Assumptions C19_each_own.

Theorem C19_reachable_Inv : forall fx n tr s, n < 65536 -> run fx (init n) tr = Ok s -> Inv s.
Proof. exact Inv_run. Qed.
Print Assumptions C19_reachable_Inv.

Theorem C19_notify_comm : forall fx s a b, Inv s ->
  run fx s [Notify a; Notify b] = run fx s [Notify b; Notify a].
Proof. exact notify_comm. Qed.
Print Assumptions C19_notify_comm.

Theorem C19_sent_notify_comm : forall fx s p i pg, Inv s ->
  pget (pings s) p = Some pg -> p_phase pg = Sending ->
  run fx s [Sent p true; Notify i] = run fx s [Notify i; Sent p true].
Proof. exact sent_notify_comm. Qed.
Print Assumptions C19_sent_notify_comm.

(* The waiter's channel is closed at most once: no history makes echoNotify panic. *)
Theorem C19_no_panic : forall fx n tr, n < 65536 -> run fx (init n) tr <> Panic.
Proof. exact run_no_panic. Qed.
Print Assumptions C19_no_panic.

(* ---------------------------------------------------------------------------------------- *)
(* C19_no_leak.  Every entry of the table belongs to a call that is still blocked in its select:
   for every history of the code as it is now (FIX24 = true, /repo commit 659869d). *)
Theorem C19_no_leak : forall n tr s, n < 65536 ->
  run FIX24 (init n) tr = Ok s -> owned_by_waiting s.
Proof. exact no_leak_fixed. Qed.
Print Assumptions C19_no_leak.

(* The code before that commit ([run false]): refuted by a failed send ... *)
Theorem C19_no_leak_before_fix_refuted :
  exists tr s, known_C19_sendfail tr = true /\ run false init_go tr = Ok s /\ ~ owned_by_waiting s.
Proof. exact no_leak_refuted. Qed.
Print Assumptions C19_no_leak_before_fix_refuted.

(* ... proved for every history outside that class, *)
Theorem C19_no_leak_before_fix_partial : forall n tr s, n < 65536 -> known_C19_sendfail tr = false ->
  run false (init n) tr = Ok s -> owned_by_waiting s.
Proof. exact no_leak_partial. Qed.
Print Assumptions C19_no_leak_before_fix_partial.

Theorem C19_empty_when_idle : forall s,
  owned_by_waiting s -> (forall q, waiting s q = false) -> tbl s = [].
Proof. exact empty_when_idle. Qed.
Print Assumptions C19_empty_when_idle.

(* The table is exactly the set of calls that wait and have not been woken. *)
Theorem C19_table_exact_partial : forall fx n tr s, n < 65536 -> run fx (init n) tr = Ok s ->
  always fx young (init n) tr -> (fx = true \/ known_C19_sendfail tr = false) ->
  forall i q, tget (tbl s) i = Some q <->
    exists pg, pget (pings s) q = Some pg /\ outstanding pg = true /\ p_recv pg = false /\ p_id pg = i.
Proof. exact table_exact. Qed.
Print Assumptions C19_table_exact_partial.

Example C19_no_leak_nonvacuous :
  exists s, known_C19_sendfail ex_trace = false /\ run false init_go ex_trace = Ok s /\
            result_of s 0%nat = Some RTimeout /\ result_of s 1%nat = Some RNil /\ tbl s = [].
Proof. exact no_leak_nonvacuous. Qed.
Print Assumptions C19_no_leak_nonvacuous.

(* ---------------------------------------------------------------------------------------- *)
(* Refinement.  Spec/PingSpec.v is the property as a table-free reference machine (calls, marks,
   outcomes; no table, no counter, no channels).  Every well-formed young history of the model is,
   event by event ([abs_trace]: Begin p -> SBegin p id, Sent p false -> SFail p, Notify i ->
   SReply i, End p -> SEnd p, everything else invisible), a run of the reference machine ending in
   the abstraction of the model's state: same calls, same identifiers, same marks, same results.
   With C19_frame_agree (Notify i <-> the frame is an echo reply for i) this makes the spec column
   of the correspondence run (Extract/D19.v spec_obs) a theorem, not only a per-case comparison. *)
Theorem C19_refines_partial : forall fx n tr s, n < 65536 ->
  run fx (init n) tr = Ok s -> always fx young (init n) tr ->
  (fx = true \/ known_C19_sendfail tr = false) ->
  srun [] (abs_trace fx (init n) tr) = Some (absst s).
Proof. exact refine_run. Qed.
Print Assumptions C19_refines_partial.

Theorem C19_result_abs : forall s p,
  option_map c_out (sget (absst s) p) = option_map (fun pg => abs_out (p_phase pg)) (pget (pings s) p).
Proof. exact result_abs. Qed.
Print Assumptions C19_result_abs.

(* the table has exactly as many entries as the reference says are needed *)
Theorem C19_sizes_agree_partial : forall fx n tr s, n < 65536 ->
  run fx (init n) tr = Ok s -> always fx young (init n) tr ->
  (fx = true \/ known_C19_sendfail tr = false) ->
  entries (absst s) = size s.
Proof. exact sizes_agree. Qed.
Print Assumptions C19_sizes_agree_partial.

Example C19_refine_nonvacuous :
  exists s, run false init_go ex_history = Ok s /\
            srun [] (abs_trace false init_go ex_history) = Some (absst s) /\ entries (absst s) = size s.
Proof. exact refine_nonvacuous. Qed.
Print Assumptions C19_refine_nonvacuous.
