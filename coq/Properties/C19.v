(* Properties/C19.v — Ping completes exactly on a matching echo reply.
   Only statements, each closed by [exact] of a lemma proved in Proofs/Ping*.v.

   The event system is Model/Ping.v: histories are lists of Begin (the waiter is registered under
   the table lock) / Sent ok (the send returned) / BulkFail n / Notify / Skip / CloseSession / Tick / Timeout / End
   events, in the order the code performs them; any event of another goroutine may come between
   the Begin and the Sent of a call (a reply parsed while the call is still inside its send).
   Begin carries the call's timeout argument; time is the clock of the state, moved by Tick; [run fx (init n) tr = Ok s] says that tr is a well-formed history (every event enabled
   when it happens) from an empty table with next-id n, ending in s.  [run true] (= [run FIX24])
   is the code as it is in /repo since the repair of DESIGN section 11 #24 (commit 659869d),
   [run false] the code before it; every
   theorem that does not mention the difference holds for both ([fx] universally quantified).
   Real time enters only as the Timeout event.  What a frame does (Notify i or Skip) is
   Model/PingFrame.v; its agreement with the RFC reading is in the frame theorems below. *)
From PV Require Import Base.Prelude Model.Ping Model.PingTrace Model.PingFrame Model.PingScript Model.PingKnown.
From PV Require Import Model.PingAbs Spec.PingSpec Proofs.PingRefine Model.PingVDR.
From PV Require Import Spec.PingRFC Proofs.Ping Proofs.PingIff Proofs.PingMore Proofs.PingFrame Proofs.PingBulk Proofs.PingTime.
Open Scope N_scope.

(* ---------------------------------------------------------------------------------------- *)
(* C19_iff.  For every history, every call p and every way of cutting the history at p's Begin
   (registration) and p's End: p returns nil iff a notification carrying p's own identifier happened
   between the two — INCLUDING while p was still inside its send — and ErrTimeout iff none did.  No
   side condition: since the wrap repair (/repo: icmpRegister skips identifiers that are still in
   the table, and a call deletes only its own entry) an identifier is never handed to a second call
   while the first is still waiting on it.  (That End p is p's first return, that its send succeeded
   and that it was not refused follow from the history being well formed.)  The statement holds for
   EVERY timeout argument tmo (0, negative, 1 ns, 10 s, above 10 s): the window is Begin p .. End p,
   and End p is reachable without a reply only through the timer, which is armed with the EFFECTIVE
   timeout (C19_timeout_effective below).  The deadline that counts is the moment the call leaves
   its select and takes the table lock (End p), which is at or after the timer (Timeout p): a reply
   that arrives between the two still completes the call. *)
Theorem C19_iff : forall fx n pre p tmo mid post s,
  n < 65536 ->
  run fx (init n) (pre ++ Begin p tmo :: mid ++ End p :: post) = Ok s ->
  exists i, id_of s p = Some i /\
    (result_of s p = Some RNil <-> In (Notify i) mid) /\
    (result_of s p = Some RTimeout <-> ~ In (Notify i) mid).
Proof. exact ping_iff. Qed.
Print Assumptions C19_iff.

(* The timeout argument.  Ping/Ping6 normalise it first (<= 0 or above 10 s means the 2 s default:
   [eff_timeout]), then build the waiter and, after the send, arm the timer with the normalised
   value; msg.expire is written and never read.  A call started with argument tmo that returns
   ErrTimeout entered its select at some instant [t_armed] and the clock has reached
   t_armed + eff_timeout tmo: never earlier, whatever tmo is.  Together with C19_iff: nil iff its own
   reply is parsed before the call ends, and without a reply the call cannot end before the
   effective timeout. *)
Theorem C19_eff_timeout : forall t,
  eff_timeout t = (if ((0 <? t) && (t <=? 10 * SECOND))%Z then t else (2 * SECOND)%Z) /\
  (0 < eff_timeout t <= 10 * SECOND)%Z.
Proof. intros t. split; [apply eff_timeout_spec|apply eff_timeout_range]. Qed.
Print Assumptions C19_eff_timeout.

Theorem C19_timeout_effective : forall fx n pre p tmo rest s, n < 65536 ->
  run fx (init n) (pre ++ Begin p tmo :: rest) = Ok s ->
  result_of s p = Some RTimeout ->
  exists pg, pget (pings s) p = Some pg /\ t_raw (p_time pg) = tmo /\
             t_eff (p_time pg) = eff_timeout tmo /\
             (t_armed (p_time pg) + eff_timeout tmo <= clock s)%Z.
Proof. exact timeout_effective. Qed.
Print Assumptions C19_timeout_effective.

(* a notification completes a registered waiter whatever its expire field and the clock say *)
Theorem C19_notify_ignores_time : forall fx s i q pg, Inv s ->
  tget (tbl s) i = Some q -> pget (pings s) q = Some pg ->
  exists s', step fx s (Notify i) = Ok s' /\ tget (tbl s') i = None /\
             exists pg', pget (pings s') q = Some pg' /\ p_recv pg' = true /\ p_closed pg' = true.
Proof. exact notify_ignores_time. Qed.
Print Assumptions C19_notify_ignores_time.

(* timeouts 0, -7 ns, 1 ns and 11 s answered inside the send: nil; 1 ns unanswered: ErrTimeout once
   1 ns has passed; 0 unanswered: ErrTimeout only after the 2 s default (not one nanosecond earlier) *)
Example C19_timeouts_example :
  exists s, run FIX24 init_go ex_timeouts = Ok s /\
    map (result_of s) [0; 1; 2; 3; 4; 5]%nat =
      [Some RNil; Some RNil; Some RNil; Some RNil; Some RTimeout; Some RTimeout] /\ tbl s = [].
Proof. exact timeouts_example. Qed.
Print Assumptions C19_timeouts_example.

Example C19_timeout_zero_not_early :
  run FIX24 init_go [Begin 0%nat 0%Z; Sent 0%nat true; Tick (2 * SECOND - 1)%Z; Timeout 0%nat] = Err EOther.
Proof. exact timeout_zero_not_early. Qed.
Print Assumptions C19_timeout_zero_not_early.

(* A call whose send fails returns that error whatever was parsed meanwhile. *)
Theorem C19_send_error : forall fx n pre p tmo mid post s,
  run fx (init n) (pre ++ Begin p tmo :: mid ++ Sent p false :: post) = Ok s ->
  result_of s p = Some RSendErr.
Proof. exact ping_send_error. Qed.
Print Assumptions C19_send_error.

(* Registration precedes the send: a reply parsed while the call is inside its send completes it. *)
Example C19_reply_during_send :
  exists s, run FIX24 init_go ex_during_send = Ok s /\ result_of s 0%nat = Some RNil /\ tbl s = [].
Proof. exact reply_during_send. Qed.
Print Assumptions C19_reply_during_send.

(* Both outcomes occur: call 1 (id 2) sees only notifications for other identifiers and times
   out, call 0 (id 1) is completed by its own. *)
Example C19_iff_nonvacuous :
  exists s, run false init_go ex_history = Ok s /\
            id_of s 1%nat = Some 2 /\ result_of s 1%nat = Some RTimeout /\
            id_of s 0%nat = Some 1 /\ result_of s 0%nat = Some RNil /\
            id_of s 2%nat = Some 3 /\ result_of s 2%nat = None.
Proof. exact ping_iff_nonvacuous. Qed.
Print Assumptions C19_iff_nonvacuous.

(* ---------------------------------------------------------------------------------------- *)
(* Frames.  [parse_notify f] (Model/PingFrame.v) is what Session.Parse does with the frame f as
   far as the waiter table is concerned: Ok (Some i) = echoNotify(i) is called, Ok None = it is
   not.  [rfc_reply_id f] (Spec/PingRFC.v) is the RFC reading: f is an echo reply carrying
   identifier i.  Since the repairs in /repo (IP4.IsValid 38ef1da, IP6.IsValid 28b2fc9, and the
   three guards on echoNotify in Session.Parse made by this cluster) they agree on EVERY frame:
   any bytes, any length, no recorded class left; in particular Parse never panics on this path. *)
Theorem C19_frame_agree : forall f, parse_notify f = Ok (rfc_reply_id f).
Proof. exact frame_agree. Qed.
Print Assumptions C19_frame_agree.

(* Echo requests never reach echoNotify. *)
Theorem C19_request_silent : forall f j, rfc_request_id f = Some j -> parse_notify f = Ok None.
Proof. exact frame_request_silent. Qed.
Print Assumptions C19_request_silent.

(* one frame of each class that used to complete a ping (former findings echo_reply_bad_ip_header,
   echo_reply_wrong_icmp_family, echo_reply_beyond_ip4_totallen, echo_reply_beyond_ip6_payloadlen)
   is now silent; well-formed frames behave *)
Example C19_closed_classes :
  was_C19_iphdr w_iphdr = true /\ parse_notify w_iphdr = Ok None /\
  was_C19_family w_family = true /\ parse_notify w_family = Ok None /\
  was_C19_totallen w_totallen = true /\ parse_notify w_totallen = Ok None /\
  was_C19_paylen w_paylen = true /\ parse_notify w_paylen = Ok None.
Proof. exact closed_classes. Qed.
Print Assumptions C19_closed_classes.

Example C19_frame_nonvacuous :
  parse_notify w_reply6 = Ok (Some 7) /\ rfc_reply_id w_reply6 = Some 7 /\
  rfc_request_id w_request4 = Some 7 /\ parse_notify w_request4 = Ok None.
Proof. exact frame_agree_nonvacuous. Qed.
Print Assumptions C19_frame_nonvacuous.

(* C19_foreign.  A call in whose window every event is either a parsed frame that is NOT an echo
   reply for the call's own identifier (reply with another id, echo request, malformed or non-ICMP
   frame), or no notification at all (timers, events of other calls), returns ErrTimeout. *)
Theorem C19_foreign : forall fx n pre p tmo mid post s,
  n < 65536 ->
  run fx (init n) (pre ++ Begin p tmo :: mid ++ End p :: post) = Ok s ->
  (forall e, In e mid ->
     (exists f, e = frame_event f /\ rfc_reply_id f <> id_of s p)
     \/ (forall j, e <> Notify j)) ->
  result_of s p = Some RTimeout.
Proof. exact ping_foreign. Qed.
Print Assumptions C19_foreign.

(* ---------------------------------------------------------------------------------------- *)
(* C19_distinct.  icmpRegister hands out the first identifier from table.id on (mod 2^16) that is
   not in the table; with all 65536 identifiers in the table it returns an error instead (decided:
   fail, do not block under the lock).  The loop terminates exactly because the table has fewer
   than 65536 entries (C19_alloc_terminates: never out of fuel in a reachable state).  Hence, in
   every reachable state, calls that are outstanding and not yet woken have pairwise distinct
   identifiers.  (A call that has been woken but has not yet returned may share its identifier
   with a newer call; that is harmless since a call deletes only its own entry: C19_iff.) *)
Theorem C19_alloc_fresh : forall fx s p tmo s', Inv s -> step fx s (Begin p tmo) = Ok s' ->
  table_full (tbl s) = false ->
  exists i, id_of s' p = Some i /\ tget (tbl s) i = None /\ tget (tbl s') i = Some p /\ waiting s' p = true.
Proof. exact begin_fresh. Qed.
Print Assumptions C19_alloc_fresh.

Theorem C19_alloc_full : forall fx s p tmo s', step fx s (Begin p tmo) = Ok s' -> table_full (tbl s) = true ->
  result_of s' p = Some RBusy /\ tbl s' = tbl s /\ next s' = next s.
Proof. exact begin_full. Qed.
Print Assumptions C19_alloc_full.

Theorem C19_alloc_terminates : forall fx n tr, n < 65536 -> run fx (init n) tr <> Fuel.
Proof. exact run_no_fuel. Qed.
Print Assumptions C19_alloc_terminates.

Theorem C19_distinct : forall fx n tr s q1 q2 pg1 pg2,
  n < 65536 -> run fx (init n) tr = Ok s ->
  q1 <> q2 -> pget (pings s) q1 = Some pg1 -> pget (pings s) q2 = Some pg2 ->
  outstanding pg1 = true -> outstanding pg2 = true -> p_recv pg1 = false -> p_recv pg2 = false ->
  p_id pg1 <> p_id pg2.
Proof. exact distinct_run. Qed.
Print Assumptions C19_distinct.

(* The history that used to collide (recorded finding ping_id_wrap_collision, repaired): call 0
   waits, the identifier counter goes once around (65535 failed calls), call 1 starts: it is handed
   identifier 2, not 1, and the reply for identifier 1 completes call 0. *)
Example C19_wrap_repaired :
  exists s, run true init_go wrap_history = Ok s /\
    id_of s 0%nat = Some 1 /\ id_of s 1%nat = Some 2 /\
    result_of s 0%nat = Some RNil /\ result_of s 1%nat = Some RTimeout /\ tbl s = [].
Proof. exact wrap_repaired. Qed.
Print Assumptions C19_wrap_repaired.

(* The compressed event is sound: BulkFail k leaves the same table, next identifier and other
   calls as k pairs (Begin j; Sent j false) with fresh call numbers. *)
Theorem C19_bulk_sound : forall k j0 s sb,
  Inv s -> table_full (tbl s) = false -> N.of_nat k <= 65536 ->
  (forall p, (j0 <= p)%nat -> pget (pings s) p = None) ->
  step true s (BulkFail (N.of_nat k)) = Ok sb ->
  exists s', run true s (fails j0 k) = Ok s' /\
    tbl s' = tbl sb /\ next s' = next sb /\
    (forall p, (p < j0)%nat -> pget (pings s') p = pget (pings sb) p).
Proof. exact bulk_sound. Qed.
Print Assumptions C19_bulk_sound.

(* ---------------------------------------------------------------------------------------- *)
(* C19_each_own.  A notification changes only the call that owns the table entry of that
   identifier, and that call carries this identifier; notifications commute. *)
Theorem C19_each_own : forall fx s i s' q, Inv s -> step fx s (Notify i) = Ok s' ->
  pget (pings s') q <> pget (pings s) q ->
  exists pg, pget (pings s) q = Some pg /\ p_id pg = i /\ tget (tbl s) i = Some q.
Proof. exact notify_only_owner. Qed.
Print Assumptions C19_each_own.

(* A reply completes AT MOST one waiter (two calls whose records change under one notification are the
   same call), and exactly the owner of the entry when there is one. *)
Theorem C19_reply_completes_at_most_one : forall fx s i s' q1 q2, Inv s -> step fx s (Notify i) = Ok s' ->
  pget (pings s') q1 <> pget (pings s) q1 -> pget (pings s') q2 <> pget (pings s) q2 -> q1 = q2.
Proof. exact notify_at_most_one. Qed.
Print Assumptions C19_reply_completes_at_most_one.

Theorem C19_reply_completes_owner : forall fx s i q pg, Inv s ->
  tget (tbl s) i = Some q -> pget (pings s) q = Some pg ->
  exists s', step fx s (Notify i) = Ok s' /\ tget (tbl s') i = None /\
    (exists pg', pget (pings s') q = Some pg' /\ p_recv pg' = true) /\
    (forall q', q' <> q -> pget (pings s') q' = pget (pings s) q').
Proof. exact notify_exactly_owner. Qed.
Print Assumptions C19_reply_completes_owner.

(* non-vacuity of the hypotheses [Inv s], "an entry exists", "table not full", "two outstanding unwoken
   calls": a reachable state with two such calls *)
Example C19_two_outstanding :
  exists s, run FIX24 init_go ex_two = Ok s /\ Inv s /\
    tget (tbl s) 1 = Some 0%nat /\ tget (tbl s) 2 = Some 1%nat /\ table_full (tbl s) = false /\
    waiting s 0%nat = true /\ waiting s 1%nat = true /\ id_of s 0%nat = Some 1 /\ id_of s 1%nat = Some 2.
Proof. exact two_outstanding. Qed.
Print Assumptions C19_two_outstanding.

Example C19_send_error_example :
  exists s, run FIX24 init_go ([] ++ Begin 0%nat 0%Z :: [Notify 1] ++ Sent 0%nat false :: [Notify 1]) = Ok s /\
            result_of s 0%nat = Some RSendErr /\ tbl s = [].
Proof. exact send_error_example. Qed.
Print Assumptions C19_send_error_example.

Example C19_foreign_nonvacuous :
  exists s, run FIX24 (init 1) ([] ++ Begin 0%nat SECOND :: ex_foreign_mid ++ End 0%nat :: []) = Ok s /\
    (forall e, In e ex_foreign_mid ->
       (exists f, e = frame_event f /\ rfc_reply_id f <> id_of s 0%nat) \/ (forall j, e <> Notify j)) /\
    result_of s 0%nat = Some RTimeout.
Proof. exact foreign_nonvacuous. Qed.
Print Assumptions C19_foreign_nonvacuous.

Theorem C19_reachable_Inv : forall fx n tr s, n < 65536 -> run fx (init n) tr = Ok s -> Inv s.
Proof. exact Inv_run. Qed.
Print Assumptions C19_reachable_Inv.

Theorem C19_notify_comm : forall fx s a b, Inv s ->
  run fx s [Notify a; Notify b] = run fx s [Notify b; Notify a].
Proof. exact notify_comm. Qed.
Print Assumptions C19_notify_comm.

Theorem C19_sent_notify_comm : forall fx s p i pg, Inv s ->
  pget (pings s) p = Some pg -> p_phase pg = Sending ->
  run fx s [Sent p true; Notify i] = run fx s [Notify i; Sent p true].
Proof. exact sent_notify_comm. Qed.
Print Assumptions C19_sent_notify_comm.

(* Sessions.  The waiter table is process-wide: Begin, Notify and End are the same whichever session
   of the process makes the call or parses the frame (so a reply parsed by ANOTHER session completes
   the call: the property says "is parsed", not by whom), and Session.Close does not touch the table:
   pings pending on the closed session or on any other session stay registered and end by their reply
   or their timer. *)
Theorem C19_close_session_noop : forall fx s k, step fx s (CloseSession k) = Ok s.
Proof. exact close_session_noop. Qed.
Print Assumptions C19_close_session_noop.

Example C19_sessions_example :
  exists s, run FIX24 init_go ex_sessions = Ok s /\
    result_of s 0%nat = Some RTimeout /\ result_of s 1%nat = Some RNil /\ tbl s = [].
Proof. exact sessions_example. Qed.
Print Assumptions C19_sessions_example.

(* The waiter's channel is closed at most once: no history makes echoNotify panic. *)
Theorem C19_no_panic : forall fx n tr, n < 65536 -> run fx (init n) tr <> Panic.
Proof. exact run_no_panic. Qed.
Print Assumptions C19_no_panic.

(* ---------------------------------------------------------------------------------------- *)
(* C19_no_leak.  Every entry of the table belongs to a call that is still blocked in its select:
   for every history of the code as it is now (FIX24 = true, /repo commit 659869d). *)
Theorem C19_no_leak : forall n tr s, n < 65536 ->
  run FIX24 (init n) tr = Ok s -> owned_by_waiting s.
Proof. exact no_leak_fixed. Qed.
Print Assumptions C19_no_leak.

(* The code before that commit ([run false]): refuted by a failed send ... *)
Theorem C19_no_leak_before_fix_refuted :
  exists tr s, known_C19_sendfail tr = true /\ run false init_go tr = Ok s /\ ~ owned_by_waiting s.
Proof. exact no_leak_refuted. Qed.
Print Assumptions C19_no_leak_before_fix_refuted.

(* ... proved for every history outside that class, *)
Theorem C19_no_leak_before_fix_partial : forall n tr s, n < 65536 -> known_C19_sendfail tr = false ->
  run false (init n) tr = Ok s -> owned_by_waiting s.
Proof. exact no_leak_partial. Qed.
Print Assumptions C19_no_leak_before_fix_partial.

Theorem C19_empty_when_idle : forall s,
  owned_by_waiting s -> (forall q, waiting s q = false) -> tbl s = [].
Proof. exact empty_when_idle. Qed.
Print Assumptions C19_empty_when_idle.

(* The table is exactly the set of calls that wait and have not been woken. *)
Theorem C19_table_exact : forall fx n tr s, n < 65536 -> run fx (init n) tr = Ok s ->
  (fx = true \/ known_C19_sendfail tr = false) ->
  forall i q, tget (tbl s) i = Some q <->
    exists pg, pget (pings s) q = Some pg /\ outstanding pg = true /\ p_recv pg = false /\ p_id pg = i.
Proof. exact table_exact. Qed.
Print Assumptions C19_table_exact.

Example C19_no_leak_nonvacuous :
  exists s, known_C19_sendfail ex_trace = false /\ run false init_go ex_trace = Ok s /\
            result_of s 0%nat = Some RTimeout /\ result_of s 1%nat = Some RNil /\ tbl s = [].
Proof. exact no_leak_nonvacuous. Qed.
Print Assumptions C19_no_leak_nonvacuous.

(* ---------------------------------------------------------------------------------------- *)
(* Refinement.  Spec/PingSpec.v is the property as a table-free reference machine (calls, marks,
   outcomes; no table, no counter, no channels).  Every well-formed history of the model is,
   event by event ([abs_trace]: Begin p -> SBegin p id, Sent p false -> SFail p, Notify i ->
   SReply i, End p -> SEnd p, everything else invisible), a run of the reference machine ending in
   the abstraction of the model's state: same calls, same identifiers, same marks, same results.
   With C19_frame_agree (Notify i <-> the frame is an echo reply for i) this makes the spec column
   of the correspondence run (Extract/D19.v spec_obs) a theorem, not only a per-case comparison. *)
Theorem C19_refines : forall fx n tr s, n < 65536 ->
  run fx (init n) tr = Ok s ->
  (fx = true \/ known_C19_sendfail tr = false) ->
  srun [] (abs_trace fx (init n) tr) = Some (absst s).
Proof. exact refine_run. Qed.
Print Assumptions C19_refines.

Theorem C19_result_abs : forall s p,
  option_map c_out (sget (absst s) p) = option_map (fun pg => abs_out (p_phase pg)) (pget (pings s) p).
Proof. exact result_abs. Qed.
Print Assumptions C19_result_abs.

(* the table has exactly as many entries as the reference says are needed *)
Theorem C19_sizes_agree : forall fx n tr s, n < 65536 ->
  run fx (init n) tr = Ok s ->
  (fx = true \/ known_C19_sendfail tr = false) ->
  entries (absst s) = size s.
Proof. exact sizes_agree. Qed.
Print Assumptions C19_sizes_agree.

Example C19_refine_nonvacuous :
  exists s, run false init_go ex_history = Ok s /\
            srun [] (abs_trace false init_go ex_history) = Some (absst s) /\ entries (absst s) = size s.
Proof. exact refine_nonvacuous. Qed.
Print Assumptions C19_refine_nonvacuous.

(* ---------------------------------------------------------------------------------------- *)
(* ValidateDefaultRouter (the library's own user of Ping and of the ping with the router's IP as
   source): nil iff the client answered the plain ping and one of the at most two router-source pings;
   it makes 1 ping when the first fails, 2 when the first two succeed, 3 otherwise. *)
Theorem C19_vdr_nil_iff : forall r0 r1 r2,
  fst (vdr r0 r1 r2) = VNil <-> r0 = RNil /\ (r1 = RNil \/ r2 = RNil).
Proof. exact vdr_nil_iff. Qed.
Print Assumptions C19_vdr_nil_iff.

Theorem C19_vdr_pings : forall r0 r1 r2, (1 <= snd (vdr r0 r1 r2) <= 3)%nat /\
  (snd (vdr r0 r1 r2) = 1%nat <-> r0 <> RNil) /\ (snd (vdr r0 r1 r2) = 2%nat <-> r0 = RNil /\ r1 = RNil).
Proof. exact vdr_pings. Qed.
Print Assumptions C19_vdr_pings.
