(* Properties/C19.v — Ping completes exactly on a matching echo reply.
   Only statements, each closed by [exact] of a lemma proved in Proofs/Ping*.v.
   The event system is Model/Ping.v; [run false] is the code as it is in /repo
   (before the repair of DESIGN section 11 #24), [run true] the repaired code. *)
From PV Require Import Base.Prelude Model.Ping Proofs.Ping.
Open Scope N_scope.

(* The waiter's channel is closed at most once: no history makes echoNotify panic. *)
Theorem C19_no_panic : forall fx n tr, n < 65536 -> run fx (init n) tr <> Panic.
Proof. exact run_no_panic. Qed.
Print Assumptions C19_no_panic.

(* No waiter entry is left behind: every entry of the table belongs to a call that is still
   blocked in its select.  Code as it is: refuted by a failed send ... *)
Theorem C19_no_leak_refuted :
  exists tr s, known_C19_sendfail tr = true /\ run false init_go tr = Ok s /\ ~ owned_by_waiting s.
Proof. exact no_leak_refuted. Qed.
Print Assumptions C19_no_leak_refuted.

(* ... and proved for every history outside that class, *)
Theorem C19_no_leak_partial : forall n tr s, n < 65536 -> known_C19_sendfail tr = false ->
  run false (init n) tr = Ok s -> owned_by_waiting s.
Proof. exact no_leak_partial. Qed.
Print Assumptions C19_no_leak_partial.

(* and for every history of the repaired code. *)
Theorem C19_no_leak_fixed : forall n tr s, n < 65536 ->
  run true (init n) tr = Ok s -> owned_by_waiting s.
Proof. exact no_leak_fixed. Qed.
Print Assumptions C19_no_leak_fixed.

Theorem C19_empty_when_idle : forall s,
  owned_by_waiting s -> (forall q, waiting s q = false) -> tbl s = [].
Proof. exact empty_when_idle. Qed.
Print Assumptions C19_empty_when_idle.

Example C19_no_leak_nonvacuous :
  exists s, known_C19_sendfail ex_trace = false /\ run false init_go ex_trace = Ok s /\
            result_of s 0%nat = Some RTimeout /\ result_of s 1%nat = Some RNil /\ tbl s = [].
Proof. exact no_leak_nonvacuous. Qed.
Print Assumptions C19_no_leak_nonvacuous.
