(* Properties/C17.v — DNS records and names decode as a reference decoder;
   merges are monotone.  Only statements, each closed by [exact] of a lemma
   proved in Proofs/DNS*.v. *)
From PV Require Import Base.Prelude Model.DNSMerge Proofs.DNSMerge.
Open Scope N_scope.

(* ------------------------------------------------------------------ *)
(* NameEntry.Merge: the learned attributes are Name, Model, OS, Manufacturer
   and Expire (Type is the source tag, overwritten unconditionally). *)

(* never erases a previously known non-empty attribute *)
Theorem C17_merge_no_erase : forall e n,
  let r := fst (merge e n) in
  (ne_name e <> [] -> ne_name r <> []) /\
  (ne_model e <> [] -> ne_model r <> []) /\
  (ne_os e <> [] -> ne_os r <> []) /\
  (ne_manufacturer e <> [] -> ne_manufacturer r <> []) /\
  (ne_expire e <> 0 -> ne_expire r <> 0).
Proof. exact merge_no_erase. Qed.
Print Assumptions C17_merge_no_erase.

(* stronger: each attribute is kept, or replaced by the learned non-empty value *)
Theorem C17_merge_keeps_or_learns : forall e n,
  let r := fst (merge e n) in
  (ne_name r = ne_name e \/ (ne_name r = ne_name n /\ ne_name n <> [])) /\
  (ne_model r = ne_model e \/ (ne_model r = ne_model n /\ ne_model n <> [])) /\
  (ne_os r = ne_os e \/ (ne_os r = ne_os n /\ ne_os n <> [])) /\
  (ne_manufacturer r = ne_manufacturer e \/ (ne_manufacturer r = ne_manufacturer n /\ ne_manufacturer n <> [])) /\
  (ne_expire r = ne_expire e \/ (ne_expire r = ne_expire n /\ ne_expire n <> 0)).
Proof. exact merge_keeps_or_learns. Qed.
Print Assumptions C17_merge_keeps_or_learns.

(* reports a change exactly when some attribute changed *)
Theorem C17_merge_reports_iff_changed : forall e n,
  snd (merge e n) = true <-> attrs (fst (merge e n)) <> attrs e.
Proof. exact merge_reports_iff_changed. Qed.
Print Assumptions C17_merge_reports_iff_changed.

Theorem C17_merge_idempotent : forall e n,
  merge (fst (merge e n)) n = (fst (merge e n), false).
Proof. exact merge_idempotent. Qed.
Print Assumptions C17_merge_idempotent.

(* ------------------------------------------------------------------ *)
(* Host.Update{DHCP4,LLMNR,MDNS,SSDP,NBNS}Name: host entry, dirty, MAC-entry copy *)

Theorem C17_update_no_erase : forall s st n s',
  keeps (nget s' (h_names st)) (nget s' (h_names (update s st n))) /\
  keeps (nget s' (m_names st)) (nget s' (m_names (update s st n))).
Proof. exact update_no_erase. Qed.
Print Assumptions C17_update_no_erase.

Theorem C17_update_reports_iff_changed : forall s st n,
  (changed s st n = true <->
     attrs (nget s (h_names (update s st n))) <> attrs (nget s (h_names st))) /\
  h_dirty (update s st n) = h_dirty st || changed s st n.
Proof. intros; split; [exact (update_reports_iff_changed s st n) | exact (update_dirty s st n)]. Qed.
Print Assumptions C17_update_reports_iff_changed.

Theorem C17_update_mac_copy : forall s st n, changed s st n = true ->
  let h := nget s (h_names (update s st n)) in
  let m := nget s (m_names (update s st n)) in
  (ne_name h <> [] -> ne_name m = ne_name h) /\
  (ne_model h <> [] -> ne_model m = ne_model h) /\
  (ne_os h <> [] -> ne_os m = ne_os h) /\
  (ne_manufacturer h <> [] -> ne_manufacturer m = ne_manufacturer h).
Proof. exact update_mac_copy. Qed.
Print Assumptions C17_update_mac_copy.

Theorem C17_update_idempotent : forall s st n,
  update s (update s st n) n = update s st n.
Proof. exact update_idempotent. Qed.
Print Assumptions C17_update_idempotent.
