(* Properties/C17.v — DNS records and names decode as a reference decoder;
   merges are monotone.  Only statements, each closed by [exact] of a lemma
   proved in Proofs/DNS*.v. *)
From PV Require Import Base.Prelude Base.Slice Model.DNS Model.DNSMerge Model.DNSRecords Model.DNSNbns Model.DNSMdns
     Spec.RFC1035 Proofs.RFC1035 Proofs.DNS Proofs.DNSMerge Proofs.DNSRecords Proofs.DNSSpec Proofs.DNSNbns Proofs.DNSMdns Proofs.DNSReject.
Open Scope N_scope.

(* ------------------------------------------------------------------ *)
(* Names: decodeName against the RFC 1035 relation [name_at] (Spec/RFC1035.v).
   [decodeName name_fuel data off buf 1] is the call every decoder makes;
   [view data] are the bytes within len(data). *)

(* whatever decodeName returns is the decompression of a name that really is at that offset,
   joined with dots, and the returned offset is the end of the name field *)
Theorem C17_name_sound : forall data off buf name next buf',
  wf data -> bytes_ok (arr data) ->
  decodeName name_fuel data off buf 1 = Ok (name, next, buf') ->
  exists labels, name_at (view data) off labels next /\ name = dotted labels.
Proof. exact name_sound. Qed.
Print Assumptions C17_name_sound.

(* every name of at most 255 octets on the wire (RFC 1035 2.3.4) without a '.' inside a label
   (rendering rule, Spec: presentable) reached through at most 254 compression pointers is decoded,
   whatever mixture of labels and pointer chains encodes it; exact: see C17_name_decides *)
Theorem C17_name_complete : forall data d off labels next buf,
  wf data -> bytes_ok (arr data) ->
  name_at_d (view data) d off labels next -> (d <= 254)%nat -> (wire_len labels <= 255)%nat ->
  Forall dotfree labels ->
  exists buf', decodeName name_fuel data off buf 1 = Ok (dotted labels, next, buf').
Proof. exact name_complete. Qed.
Print Assumptions C17_name_complete.

Theorem C17_name_complete_rfc : forall data d off labels next buf,
  wf data -> bytes_ok (arr data) ->
  name_at_d (view data) d off labels next -> (wire_len labels <= 255)%nat -> (d <= 254)%nat ->
  Forall dotfree labels ->
  exists buf', decodeName name_fuel data off buf 1 = Ok (dotted labels, next, buf').
Proof. exact name_complete_rfc. Qed.
Print Assumptions C17_name_complete_rfc.

(* both bounds are sharp (documented leniency / limit, not findings): 255 pointers are rejected,
   256 octets are accepted, 257 rejected *)
Example C17_name_depth_254_accepted :
  let data := of_bytes (ptr_chain 254 0) in
  wf data /\ bytes_okb (arr data) = true /\
  exists b', decodeName name_fuel data 0 (mkBuf [] [] true) 1 = Ok ([119; 119; 119], 2%nat, b').
Proof. exact name_depth_254_accepted. Qed.
Print Assumptions C17_name_depth_254_accepted.
Example C17_name_depth_255_rejected :
  let data := of_bytes (ptr_chain 255 0) in
  ref_decode (view data) 0 = Some ([[119; 119; 119]], 2%nat) /\
  decodeName name_fuel data 0 (mkBuf [] [] true) 1 = Err EParseFrame.
Proof. exact name_depth_255_rejected. Qed.
Print Assumptions C17_name_depth_255_rejected.
Example C17_name_wire_255_accepted :
  let data := of_bytes (long_name 61) in
  match ref_decode (view data) 0 with Some (ls, _) => wire_len ls | None => 0%nat end = 255%nat /\
  is_ok (decodeName name_fuel data 0 (mkBuf [] [] true) 1) = true.
Proof. exact name_wire_255_accepted. Qed.
Print Assumptions C17_name_wire_255_accepted.
Example C17_name_wire_256_rejected :
  let data := of_bytes (long_name 62) in
  match ref_decode (view data) 0 with Some (ls, _) => wire_len ls | None => 0%nat end = 256%nat /\
  decodeName name_fuel data 0 (mkBuf [] [] true) 1 = Err EParseFrame.
Proof. exact name_wire_256_rejected. Qed.
Print Assumptions C17_name_wire_256_rejected.
(* 257 octets through compression, every segment short: rejected since the total-length check *)
Example C17_name_wire_compressed_rejected :
  let data := of_bytes ((63 :: repeat 97 63) ++ (63 :: repeat 98 63) ++ (63 :: repeat 99 63) ++ (59 :: repeat 100 59) ++ [0]
                        ++ [3; 97; 98; 99; 192; 0]) in
  match ref_decode (view data) 253 with Some (ls, _) => wire_len ls | None => 0%nat end = 257%nat /\
  is_ok (decodeName name_fuel data 0 (mkBuf [] [] true) 1) = true /\
  decodeName name_fuel data 253 (mkBuf [] [] true) 1 = Err EParseFrame.
Proof. exact name_wire_compressed_rejected. Qed.
Print Assumptions C17_name_wire_compressed_rejected.
Example C17_name_dot_in_label_rejected :
  decodeName name_fuel (of_bytes [3; 52; 46; 51; 1; 50; 0]) 0 (mkBuf [] [] true) 1 = Err EParseFrame.
Proof. exact name_dot_in_label_rejected. Qed.
Print Assumptions C17_name_dot_in_label_rejected.
Example C17_name_compressed_example :
  let data := of_bytes (repeat 0 12 ++ [7;101;120;97;109;112;108;101;3;99;111;109;0] ++ [3;119;119;119;192;12]) in
  exists b', decodeName name_fuel data 25 (mkBuf [] [] true) 1 =
             Ok ([119;119;119;46;101;120;97;109;112;108;101;46;99;111;109], 31%nat, b').
Proof. exact name_compressed_example. Qed.
Print Assumptions C17_name_compressed_example.

(* whatever is not a name is rejected with an error: never a panic, never a hang, never a name *)
Theorem C17_name_rejects : forall data off buf,
  wf data -> bytes_ok (arr data) ->
  (forall labels next, ~ name_at (view data) off labels next) ->
  exists e, decodeName name_fuel data off buf 1 = Err e.
Proof. exact name_rejects. Qed.
Print Assumptions C17_name_rejects.

(* ... and these are not names: a compression loop (the walk over labels and pointers returns to an
   offset already visited), anything that leads into a non-name, a pointer or label beyond the
   message, a length octet with top bits 01 / 10 (over-long label), a truncated label or pointer *)
Theorem C17_loop_is_no_name : forall msg off k, (1 <= k)%nat -> steps msg k off off ->
  forall ls next, ~ name_at msg off ls next.
Proof. exact no_name_loop. Qed.
Print Assumptions C17_loop_is_no_name.
Theorem C17_leads_into_no_name : forall msg off off' k, steps msg k off off' ->
  (forall ls next, ~ name_at msg off' ls next) -> forall ls next, ~ name_at msg off ls next.
Proof. exact no_name_into. Qed.
Print Assumptions C17_leads_into_no_name.
Theorem C17_beyond_is_no_name : forall (msg : bytes) off, (length msg <= off)%nat ->
  forall ls next, ~ name_at msg off ls next.
Proof. exact no_name_beyond. Qed.
Print Assumptions C17_beyond_is_no_name.
Theorem C17_reserved_is_no_name : forall (msg : bytes) off (c : byte),
  nth_error msg off = Some c -> 64 <= c -> c < 192 -> forall ls next, ~ name_at msg off ls next.
Proof. exact no_name_reserved. Qed.
Print Assumptions C17_reserved_is_no_name.
Theorem C17_truncated_label_is_no_name : forall (msg : bytes) off (c : byte),
  nth_error msg off = Some c -> 1 <= c -> c <= 63 -> (length msg < off + 1 + N.to_nat c)%nat ->
  forall ls next, ~ name_at msg off ls next.
Proof. exact no_name_label_truncated. Qed.
Print Assumptions C17_truncated_label_is_no_name.
Theorem C17_truncated_pointer_is_no_name : forall (msg : bytes) off (c : byte),
  nth_error msg off = Some c -> 192 <= c -> nth_error msg (S off) = None ->
  forall ls next, ~ name_at msg off ls next.
Proof. exact no_name_ptr_truncated. Qed.
Print Assumptions C17_truncated_pointer_is_no_name.
Example C17_rejected_examples :
  decodeName name_fuel (of_bytes [192; 0]) 0 (mkBuf [] [] true) 1 = Err EParseFrame /\
  decodeName name_fuel (of_bytes [1; 97; 192; 4; 1; 98; 192; 0]) 0 (mkBuf [] [] true) 1 = Err EParseFrame /\
  decodeName name_fuel (of_bytes [1; 97; 64; 0]) 0 (mkBuf [] [] true) 1 = Err EOther /\
  decodeName name_fuel (of_bytes [5; 97; 98]) 0 (mkBuf [] [] true) 1 = Err EParseFrame.
Proof.
  split; [exact name_self_loop_rejected|]. split; [exact name_two_loop_rejected|].
  split; [exact (proj1 name_reserved_rejected)|exact (proj1 name_truncated_rejected)].
Qed.
Print Assumptions C17_rejected_examples.

(* the reference decoder used as the spec column of the correspondence decides [name_at] *)
Theorem C17_reference_decoder_correct : forall msg off ls next, bytes_ok msg ->
  ref_decode msg off = Some (ls, next) <-> name_at msg off ls next.
Proof. exact ref_decode_iff. Qed.
Print Assumptions C17_reference_decoder_correct.

(* ------------------------------------------------------------------ *)
(* Question and records against the RFC 1035 reference (Spec/RFC1035.v: [u16_at], [ref_rr_at],
   [ref_rrs], [learn], [learn_all] = insert-if-absent, the library's documented convention). *)

(* DecodeQuestion returns the name, type and class that are in the message (within len(p)) *)
Theorem C17_question_sound : forall p index buffer q off,
  wf p -> bytes_ok (arr p) -> (12 <= len p)%nat ->
  decodeQuestion p index buffer = Ok (q, off) ->
  (0 <= index)%Z /\
  exists ls n, name_at (view p) (Z.to_nat index) ls n /\ q_name q = dotted ls /\
               u16_at (view p) n = Some (q_type q) /\ u16_at (view p) (n + 2) = Some (q_class q) /\
               off = (n + 4)%nat.
Proof. exact question_sound. Qed.
Print Assumptions C17_question_sound.

(* every question (name of 0..127 labels: the root name included; at most 256 octets, at most 254
   pointers) in a message with QDCOUNT = 1 is decoded, with the reference's name, type, class, end offset *)
Theorem C17_question_complete : forall p index buffer d ls n t c,
  wf p -> bytes_ok (arr p) -> (12 <= len p)%nat ->
  u16_at (view p) 4 = Some 1 ->
  name_at_d (view p) d index ls n -> (d <= 254)%nat -> (wire_len ls <= 255)%nat -> Forall dotfree ls ->
  u16_at (view p) n = Some t -> u16_at (view p) (n + 2) = Some c ->
  decodeQuestion p (Z.of_nat index) buffer = Ok (mkQ (dotted ls) t c, (n + 4)%nat).
Proof. exact question_complete. Qed.
Print Assumptions C17_question_complete.

(* C17_records: DecodeAnswers (the record part of ProcessDNS) stores exactly what the reference learns
   from the answer section (A, AAAA, CNAME, PTR; other types ignored), merged first-wins into the
   previous entry, reports whether anything was added and returns the end of the section.
   [rrs_within]: every owner / RDATA name is reached through at most 254 pointers and no label of a
   PTR owner contains a '.' octet (the library reads the dotted text of the owner; dnsmessage rejects
   such names altogether: accepted leniency).  [lim] is the name-length limit of the reference, any
   value up to 256 (RFC 1035: 255). *)
Theorem C17_records : forall p off buffer e lim an rrs endoff,
  wf p -> bytes_ok (arr p) -> (12 <= len p)%nat -> (lim <= 255)%nat ->
  u16_at (view p) 6 = Some an ->
  ref_rrs lim (N.to_nat an) (view p) off = Some (rrs, endoff) ->
  rrs_within lim (N.to_nat an) (view p) off ->
  Forall (fun r => learn lim (view p) r <> LBad) rrs ->
  exists u e', decodeAnswers p (Z.of_nat off) buffer e = (Ok (Z.of_nat endoff, u), e') /\
               learn_all (cache_of_entry e) false (map (learn lim (view p)) rrs) = (cache_of_entry e', u) /\
               de_name e' = de_name e.
Proof. exact answers_spec. Qed.
Print Assumptions C17_records.

(* the library's reading of a PTR owner (TrimSuffix ".in-addr.arpa" + netip.ParseAddr + Is4 on the
   dotted text) is the reference's reading of the labels d.c.b.a.in-addr.arpa (in text order) *)
Theorem C17_ptr_owner : forall ls, Forall dotfree ls ->
  parse_ptr_owner (dotted ls) = option_map (@rev N) (reverse_v4 ls).
Proof. exact ptr_owner_spec. Qed.
Print Assumptions C17_ptr_owner.

(* C17_processdns_table: for every previous table and every message the reference reads as a
   well-formed response, ProcessDNS succeeds, hands back what the reference hands back (the merged
   entry when something was added, nothing otherwise) and leaves the reference table: the reference
   learning merged insert-if-absent into the previous table. *)
Theorem C17_processdns_table : forall t p lim rm,
  wf p -> bytes_ok (arr p) -> (lim <= 255)%nat ->
  ref_message lim (view p) = Some rm -> msg_within lim (view p) ->
  exists re, fst (processDNS t p) = Ok re /\
             option_map named_of re = fst (ref_process (ctable_of t) rm) /\
             ctable_of (snd (processDNS t p)) = snd (ref_process (ctable_of t) rm).
Proof. exact processdns_table. Qed.
Print Assumptions C17_processdns_table.

(* C17_processdns_rejects (the reverse direction).  Whatever ProcessDNS accepts, the reference reads
   as a well-formed response once its name-length limit is lifted (lim >= 64 * len p bounds every
   name a message of that size can hold); hence a message the reference rejects for any structural
   reason (short header, QDCOUNT <> 1, name that is no name, truncated question or record, RDLENGTH
   beyond the message, A / AAAA of the wrong size, bad CNAME / PTR target) gives an error. *)
Theorem C17_processdns_accepts_wellformed : forall p, wf p -> bytes_ok (arr p) ->
  forall lim, (255 <= lim)%nat -> forall t re,
  fst (processDNS t p) = Ok re -> exists rm, ref_message lim (view p) = Some rm.
Proof. exact processDNS_accepts_wellformed. Qed.
Print Assumptions C17_processdns_accepts_wellformed.

Theorem C17_processdns_rejects : forall p, wf p -> bytes_ok (arr p) ->
  forall lim, (255 <= lim)%nat -> forall t,
  ref_message lim (view p) = None -> exists e, fst (processDNS t p) = Err e.
Proof. exact processDNS_rejects. Qed.
Print Assumptions C17_processdns_rejects.

(* ... and what the error leaves behind: the table is untouched, or the ONE entry of the question
   name, which was in the table before, has grown by the records decoded before the malformed one
   (the entry's maps are shared with the table and updated in place); nothing is removed, no other
   entry changes, a name not yet in the table leaves no trace.  Reading of the property: "rejected
   with an error" constrains the result of the call, which is an error and an empty entry; the
   records kept are records every decoder reads from the well-formed prefix of the message, so this
   is recorded as accepted behaviour (docs/C17.md), not as a finding.  The Example shows it is real. *)
Theorem C17_processdns_error_leaves : forall t p x, fst (processDNS t p) = Err x ->
  snd (processDNS t p) = t \/
  exists e0 e1, tbl_find (de_name e0) t = Some e0 /\ entry_grows e0 e1 /\ snd (processDNS t p) = tbl_put e1 t.
Proof. exact processDNS_error_leaves. Qed.
Print Assumptions C17_processdns_error_leaves.

Example C17_processdns_error_persists :
  let q := [1; 97; 0; 0; 1; 0; 1] in
  let a ip := [192; 12; 0; 1; 0; 1; 0; 0; 0; 60; 0; 4; 10; 0; 0; ip] in
  let m1 := of_bytes ([0;1;129;128; 0;1; 0;1; 0;0; 0;0] ++ q ++ a 1) in
  let m2 := of_bytes ([0;2;129;128; 0;1; 0;2; 0;0; 0;0] ++ q ++ a 2 ++ [192; 12; 0; 1]) in
  let t1 := snd (processDNS [] m1) in
  fst (processDNS t1 m2) = Err EOther /\
  map (fun e => List.length (de_ip4 e)) t1 = [1%nat] /\
  map (fun e => List.length (de_ip4 e)) (snd (processDNS t1 m2)) = [2%nat].
Proof. exact processDNS_error_persists. Qed.
Print Assumptions C17_processdns_error_persists.

Example C17_processdns_table_nonvacuous :
  let p := of_bytes example_response in
  wf p /\ bytes_okb (arr p) = true /\
  (exists rm, ref_message NAME_LIMIT (view p) = Some rm /\ List.length (rm_learned rm) = 3%nat) /\
  msg_within NAME_LIMIT (view p).
Proof. exact processdns_table_nonvacuous. Qed.
Print Assumptions C17_processdns_table_nonvacuous.

Example C17_records_nonvacuous :
  let p := of_bytes example_response in
  wf p /\ bytes_okb (arr p) = true /\ (12 <= len p)%nat /\ u16_at (view p) 6 = Some 3 /\
  exists rrs, ref_rrs NAME_LIMIT 3 (view p) 33 = Some (rrs, 101%nat) /\
    rrs_within NAME_LIMIT 3 (view p) 33 /\
    Forall (fun r => learn NAME_LIMIT (view p) r <> LBad) rrs /\
    map (learn NAME_LIMIT (view p)) rrs =
      [LCNAME [119;119;119;46;101;120;97;109;112;108;101;46;99;111;109]
              [99;100;110;46;101;120;97;109;112;108;101;46;99;111;109] 60;
       LA [99;100;110;46;101;120;97;109;112;108;101;46;99;111;109] [10;0;0;1] 60;
       LPTR [119;119;119;46;101;120;97;109;112;108;101;46;99;111;109] [1;2;3;4] 9] /\
    fst (decodeAnswers p 33 (mkSlice (repeat 0 64) 0) (new_entry [])) = Ok (101%Z, true).
Proof. exact answers_spec_nonvacuous. Qed.
Print Assumptions C17_records_nonvacuous.

(* ------------------------------------------------------------------ *)
(* NBNS: the host name ProcessNBNS extracts from a NODE STATUS answer (RDATA = full, as
   dnsmessage hands it over: len = cap) is the first UNIQUE name of the RFC 1002 node-name
   array, presentation-trimmed; None (nothing extracted) when the array is cut short *)
Theorem C17_nbns_name : forall full, bytes_ok full ->
  nbns_answer_name (of_bytes full) = Ok (node_status_name full).
Proof. exact nbns_name_spec. Qed.
Print Assumptions C17_nbns_name.

Example C17_nbns_name_example :
  (* 2 names: "WORKGROUP" (group), "NAS" (unique) *)
  let e1 := [87;79;82;75;71;82;79;85;80;32;32;32;32;32;32;0; 132;0] in
  let e2 := [78;65;83;32;32;32;32;32;32;32;32;32;32;32;32;0; 4;0] in
  nbns_answer_name (of_bytes ([2] ++ e1 ++ e2)) = Ok (Some [78;65;83]).
Proof. vm_compute. reflexivity. Qed.
Print Assumptions C17_nbns_name_example.

(* the whole list parseNodeNameArray returns = the reference list of unique names (RFC 1002 4.2.18) *)
Theorem C17_nbns_name_list : forall full, bytes_ok full ->
  parseNodeNameArray (of_bytes full) =
  match node_status_names full with Some l => Ok l | None => Err EFrameLen end.
Proof. exact parseNodeNameArray_spec. Qed.
Print Assumptions C17_nbns_name_list.

(* RFC 1001 first-level encoding.  encodeNBNSName is the reference encoding of the space-padded name *)
Theorem C17_nbns_encode : forall n, (length n <= 16)%nat -> encodeNBNSName n = nb_encode (nb_pad16 n).
Proof. exact encodeNBNSName_ref. Qed.
Print Assumptions C17_nbns_encode.

(* decodeNBNSName reads every scope-less first-level name as the reference does (any spare capacity) *)
Theorem C17_nbns_decode : forall enc spare raw, nb_decode enc = Some raw ->
  decodeNBNSName (of_bytes_cap enc spare) = Ok (33%nat, present_spaces raw).
Proof. exact decodeNBNSName_ref. Qed.
Print Assumptions C17_nbns_decode.

(* the reference decoding inverts the reference encoding, and so do the library's functions:
   decode (encode n) = n (trailing spaces removed) for ALL 16-octet names *)
Theorem C17_nbns_reference_inverse : forall n16, length n16 = 16%nat -> bytes_ok n16 ->
  nb_decode (nb_encode n16) = Some n16.
Proof. exact nb_decode_encode. Qed.
Print Assumptions C17_nbns_reference_inverse.

Theorem C17_nbns_decode_encode : forall n spare, length n = 16%nat -> bytes_ok n ->
  decodeNBNSName (of_bytes_cap (encodeNBNSName n) spare) = Ok (33%nat, present_spaces n).
Proof. exact decode_encode_NBNSName. Qed.
Print Assumptions C17_nbns_decode_encode.

Example C17_nbns_codec_example :
  (* "NAS" + 0xE9 0x80 (octets >= 0x80) padded: round trip *)
  let n := [78;65;83;233;128] ++ repeat 32 11 in
  length n = 16%nat /\ bytes_okb n = true /\
  decodeNBNSName (of_bytes (encodeNBNSName n)) = Ok (33%nat, [78;65;83;233;128]).
Proof. vm_compute. repeat split; reflexivity. Qed.
Print Assumptions C17_nbns_codec_example.

(* ------------------------------------------------------------------ *)
(* mDNS / LLMNR: ProcessMDNS over the message as dnsmessage hands it over (id, QR, question names,
   resources of the three sections in order, owner in presentation form, typed body). *)

(* a response not answered before: exactly the A / AAAA records yield entries, in message order,
   each binding the record's address to the owner name without ".local."; (MAC, id) is remembered *)
Theorem C17_mdns_response_names : forall c mac m,
  mm_response m = true -> in_cache c mac (mm_id m) = false ->
  map key (fst (fst (processMDNS c mac m))) = ref_mdns_v4 (mm_resources m) /\
  map key (snd (fst (processMDNS c mac m))) = ref_mdns_v6 (mm_resources m) /\
  in_cache (snd (processMDNS c mac m)) mac (mm_id m) = true.
Proof. exact mdns_response_names. Qed.
Print Assumptions C17_mdns_response_names.

Theorem C17_mdns_response_cached : forall c mac m,
  mm_response m = true -> in_cache c mac (mm_id m) = true -> processMDNS c mac m = (([], []), c).
Proof. exact mdns_response_cached. Qed.
Print Assumptions C17_mdns_response_cached.

(* a query names the querier: the last question under .local. that is not a _tcp/_udp service name *)
Theorem C17_mdns_query_name : forall c mac m, mm_response m = false ->
  snd (processMDNS c mac m) = c /\ snd (fst (processMDNS c mac m)) = [] /\
  match fst (fst (processMDNS c mac m)) with
  | [] => ref_query_name (mm_questions m) = []
  | [e] => in_ip e = [] /\ in_name e = ref_query_name (mm_questions m)
  | _ => False
  end.
Proof. exact mdns_query_name. Qed.
Print Assumptions C17_mdns_query_name.

(* with the cache clock ([now] in seconds; getMDNSCache / putMDNSCache read time.Now()) *)
Theorem C17_mdns_at_response_names : forall c mac now m,
  mm_response m = true -> cache_fresh c mac (mm_id m) now = false ->
  map key (fst (fst (processMDNS_at c mac now m))) = ref_mdns_v4 (mm_resources m) /\
  map key (snd (fst (processMDNS_at c mac now m))) = ref_mdns_v6 (mm_resources m) /\
  cache_find (snd (processMDNS_at c mac now m)) mac (mm_id m) = Some (now + MDNS_CACHE_SECONDS)%Z.
Proof. exact mdns_at_response_names. Qed.
Print Assumptions C17_mdns_at_response_names.

Theorem C17_mdns_at_response_cached : forall c mac now m,
  mm_response m = true -> cache_fresh c mac (mm_id m) now = true -> processMDNS_at c mac now m = (([], []), c).
Proof. exact mdns_at_response_cached. Qed.
Print Assumptions C17_mdns_at_response_cached.

(* the 5 minutes are exact: suppressed at every now' < now + 300, processed again from now + 300 on *)
Theorem C17_mdns_cache_expiry : forall c mac now m now',
  mm_response m = true -> cache_fresh c mac (mm_id m) now = false ->
  let c' := snd (processMDNS_at c mac now m) in
  cache_fresh c' mac (mm_id m) now' = (now' <? now + MDNS_CACHE_SECONDS)%Z.
Proof. exact mdns_at_expiry. Qed.
Print Assumptions C17_mdns_cache_expiry.

Theorem C17_mdns_at_query : forall c mac now m, mm_response m = false ->
  processMDNS_at c mac now m = (fst (processMDNS [] mac m), c).
Proof. exact mdns_at_query. Qed.
Print Assumptions C17_mdns_at_query.

Example C17_mdns_at_example :
  let m := mkMsg 7 true [] [mkRes [97;46;108;111;99;97;108;46] (MB_A [10;0;0;1])] in
  let mac := [2;0;0;0;0;1] in
  let c1 := snd (processMDNS_at [] mac 1000 m) in
  fst (processMDNS_at c1 mac 1299 m) = ([], []) /\
  map key (fst (fst (processMDNS_at c1 mac 1300 m))) = [([10;0;0;1], [97])].
Proof. exact mdns_at_example. Qed.
Print Assumptions C17_mdns_at_example.

Example C17_mdns_example :
  let m := mkMsg 7 true [] [mkRes [109;121;104;111;115;116;46;108;111;99;97;108;46] (MB_A [192;168;0;7]);
                             mkRes [110;97;115;46;108;97;110;46] (MB_AAAA (repeat 1 16))] in
  map key (fst (fst (processMDNS [] [2;0;0;0;0;1] m))) = [([192;168;0;7], [109;121;104;111;115;116])] /\
  map key (snd (fst (processMDNS [] [2;0;0;0;0;1] m))) = [(repeat 1 16, [110;97;115;46;108;97;110;46])].
Proof. exact mdns_example. Qed.
Print Assumptions C17_mdns_example.

(* ------------------------------------------------------------------ *)
(* NameEntry.Merge: the learned attributes are Name, Model, OS, Manufacturer
   and Expire (Type is the source tag, overwritten unconditionally). *)

(* never erases a previously known non-empty attribute *)
Theorem C17_merge_no_erase : forall e n,
  let r := fst (merge e n) in
  (ne_name e <> [] -> ne_name r <> []) /\
  (ne_model e <> [] -> ne_model r <> []) /\
  (ne_os e <> [] -> ne_os r <> []) /\
  (ne_manufacturer e <> [] -> ne_manufacturer r <> []) /\
  (ne_expire e <> 0 -> ne_expire r <> 0).
Proof. exact merge_no_erase. Qed.
Print Assumptions C17_merge_no_erase.

(* stronger: each attribute is kept, or replaced by the learned non-empty value *)
Theorem C17_merge_keeps_or_learns : forall e n,
  let r := fst (merge e n) in
  (ne_name r = ne_name e \/ (ne_name r = ne_name n /\ ne_name n <> [])) /\
  (ne_model r = ne_model e \/ (ne_model r = ne_model n /\ ne_model n <> [])) /\
  (ne_os r = ne_os e \/ (ne_os r = ne_os n /\ ne_os n <> [])) /\
  (ne_manufacturer r = ne_manufacturer e \/ (ne_manufacturer r = ne_manufacturer n /\ ne_manufacturer n <> [])) /\
  (ne_expire r = ne_expire e \/ (ne_expire r = ne_expire n /\ ne_expire n <> 0)).
Proof. exact merge_keeps_or_learns. Qed.
Print Assumptions C17_merge_keeps_or_learns.

(* reports a change exactly when some attribute changed *)
Theorem C17_merge_reports_iff_changed : forall e n,
  snd (merge e n) = true <-> attrs (fst (merge e n)) <> attrs e.
Proof. exact merge_reports_iff_changed. Qed.
Print Assumptions C17_merge_reports_iff_changed.

Theorem C17_merge_idempotent : forall e n,
  merge (fst (merge e n)) n = (fst (merge e n), false).
Proof. exact merge_idempotent. Qed.
Print Assumptions C17_merge_idempotent.

(* ------------------------------------------------------------------ *)
(* Host.Update{DHCP4,LLMNR,MDNS,SSDP,NBNS}Name: host entry, dirty, MAC-entry copy *)

Theorem C17_update_no_erase : forall s st n s',
  keeps (nget s' (h_names st)) (nget s' (h_names (update s st n))) /\
  keeps (nget s' (m_names st)) (nget s' (m_names (update s st n))).
Proof. exact update_no_erase. Qed.
Print Assumptions C17_update_no_erase.

Theorem C17_update_reports_iff_changed : forall s st n,
  (changed s st n = true <->
     attrs (nget s (h_names (update s st n))) <> attrs (nget s (h_names st))) /\
  h_dirty (update s st n) = h_dirty st || changed s st n.
Proof. intros; split; [exact (update_reports_iff_changed s st n) | exact (update_dirty s st n)]. Qed.
Print Assumptions C17_update_reports_iff_changed.

Theorem C17_update_mac_copy : forall s st n, changed s st n = true ->
  let h := nget s (h_names (update s st n)) in
  let m := nget s (m_names (update s st n)) in
  (ne_name h <> [] -> ne_name m = ne_name h) /\
  (ne_model h <> [] -> ne_model m = ne_model h) /\
  (ne_os h <> [] -> ne_os m = ne_os h) /\
  (ne_manufacturer h <> [] -> ne_manufacturer m = ne_manufacturer h).
Proof. exact update_mac_copy. Qed.
Print Assumptions C17_update_mac_copy.

Theorem C17_update_idempotent : forall s st n,
  update s (update s st n) n = update s st n.
Proof. exact update_idempotent. Qed.
Print Assumptions C17_update_idempotent.
