(* Properties/C04.v — Host tracking follows the discovery, IP-change, re-binding, ageing and
   purge rules.  Only statements closed by [exact].

   [step]/[run]/[new_session] : Model/Tables.v (transcribed from the Go code);
   [ref_step]/[ref_run]/[ref_init]/[ref_event] : Spec/HostTracking.v (written from the property text);
   [abs s k] : the (MAC, online, last seen) the model tracks for address k;
   [Inv] : the C05 invariant; [Inv4] : an online IPv4 host is its MAC entry's current IP4 (auxiliary,
   established by NewSession and preserved by every step);
   [hist_wf] : frame summaries are well formed (IPv4/ARP carry an IPv4 address, IPv6 a 128-bit one) and
   every purge walks the whole table in some order. *)
From PV Require Import Base.Prelude Model.Tables Spec.HostTrackingInv Spec.HostTracking
  Proofs.Tables Proofs.TablesRefine Proofs.TablesPred Proofs.TablesC04.

(* the three creation predicates of layer_frame.go (with net/netip's IsLinkLocalUnicast, IsGlobalUnicast,
   Prefix.Contains restated from the stdlib) are the creation rule of the property text *)
Theorem C04_creation_rule : forall c f, fsum_wf f -> host_event c f = ref_event c f.
Proof. exact event_agree. Qed.
Print Assumptions C04_creation_rule.

(* one step of the implementation model is one step of the reference, for every op and every walk order *)
Theorem C04_refines : forall c s o, Inv s -> Inv4 s -> order_complete s o -> op_wf o ->
  forall k, abs (fst (step c s o)) k = ref_step c (abs s) o k.
Proof. exact C04_step_proof. Qed.
Print Assumptions C04_refines.

Theorem C04_aux_invariant_step : forall c s o, Inv s -> Inv4 s -> Inv4 (fst (step c s o)).
Proof. exact C04_step_inv_proof. Qed.
Print Assumptions C04_aux_invariant_step.

Theorem C04_init : forall c now s, new_session c now = Ok s -> forall k, abs s k = ref_init c now k.
Proof. exact new_session_abs. Qed.
Print Assumptions C04_init.

(* hence for every history (our own MAC differs from the router's) *)
Theorem C04_history : forall c now s0 ops,
  own_mac c <> rt_mac c -> new_session c now = Ok s0 -> hist_wf c s0 ops ->
  forall k, abs (run c s0 ops) k = ref_run c (ref_init c now) ops k.
Proof. exact C04_history_proof. Qed.
Print Assumptions C04_history.

(* consequence of the IP-change rule: at most one online IPv4 address per MAC, after every history *)
Theorem C04_reachable_inv4 : forall c now s0 ops,
  own_mac c <> rt_mac c -> new_session c now = Ok s0 -> Inv4 (run c s0 ops).
Proof. exact C04_reachable_inv4_proof. Qed.
Print Assumptions C04_reachable_inv4.

Theorem C04_one_online_ip4 : forall s k1 k2 h1 h2, Inv4 s ->
  hlookup k1 (hosts s) = Some h1 -> hlookup k2 (hosts s) = Some h2 ->
  is4 k1 = true -> is4 k2 = true -> h_online h1 = true -> h_online h2 = true ->
  h_mac h1 = h_mac h2 -> k1 = k2.
Proof. exact C04_one_online_ip4_proof. Qed.
Print Assumptions C04_one_online_ip4.

(* Go's map iteration order in purge does not influence the tracked triples *)
Theorem C04_purge_order_irrelevant : forall c now o1 o2 s, Inv s ->
  (forall k, In k (map fst (hosts s)) -> In k o1) -> (forall k, In k (map fst (hosts s)) -> In k o2) ->
  forall k, abs (purge c now o1 s) k = abs (purge c now o2 s) k.
Proof. exact C04_purge_order_proof. Qed.
Print Assumptions C04_purge_order_irrelevant.

(* the read-only API shows exactly the abstraction *)
Theorem C04_view_FindIP : forall s k, Inv s ->
  option_map triple (find_ip k s) = option_map (atriple k) (abs s k).
Proof. exact view_find_ip. Qed.
Print Assumptions C04_view_FindIP.

Theorem C04_view_GetHosts : forall s t, Inv s ->
  In t (map triple (get_hosts s)) <-> exists k e, abs s k = Some e /\ t = atriple k e.
Proof. exact view_get_hosts. Qed.
Print Assumptions C04_view_GetHosts.

Theorem C04_view_GetHosts_nodup : forall s, Inv s -> NoDup (map h_ip (get_hosts s)).
Proof. exact view_get_hosts_nodup. Qed.
Print Assumptions C04_view_GetHosts_nodup.

Theorem C04_view_FindByMAC : forall s m k, Inv s ->
  In (m, k) (find_by_mac m s) <-> exists e, abs s k = Some e /\ a_mac e = m.
Proof. exact view_find_by_mac. Qed.
Print Assumptions C04_view_FindByMAC.

Theorem C04_view_IPAddrs : forall s m, Inv s ->
  match ip_addrs m s with
  | Some l => NoDup l /\ forall k, In (m, k) l <-> exists e, abs s k = Some e /\ a_mac e = m
  | None => forall k e, abs s k = Some e -> a_mac e <> m
  end.
Proof. exact view_ip_addrs. Qed.
Print Assumptions C04_view_IPAddrs.

Theorem C04_view_FindMACEntry : forall s m, Inv s ->
  (exists k e, abs s k = Some e /\ a_mac e = m) <->
  (exists e, find_mac_entry m s = Some e /\ m_hosts e <> []).
Proof. exact view_find_mac_entry. Qed.
Print Assumptions C04_view_FindMACEntry.

(* "removed together with its then-empty MAC entry" *)
Theorem C04_mac_removed_with_last_host : forall s k h, Inv s ->
  hlookup k (hosts s) = Some h ->
  (forall k' h', hlookup k' (hosts s) = Some h' -> h_mac h' = h_mac h -> k' = k) ->
  find_mac (h_mac h) (macs (delete_host k s)) = None /\ hlookup k (hosts (delete_host k s)) = None.
Proof. exact mac_removed_with_last_host. Qed.
Print Assumptions C04_mac_removed_with_last_host.

(* non-vacuity: an admissible 8-op history with discovery, IP change, re-binding, ageing and purge *)
Example C04_history_admissible : hist_wf std_cfg ex_s0 ex_history.
Proof. exact ex_history_wf. Qed.
Print Assumptions C04_history_admissible.

Example C04_history_nonvacuous :
  let s6 := run std_cfg ex_s0 (firstn 6 ex_history) in
  let s7 := run std_cfg ex_s0 (firstn 7 ex_history) in
  let s8 := run std_cfg ex_s0 ex_history in
  abs s6 (IP4 3232235521) = Some {| a_mac := ex_mac2; a_online := true; a_last := 40 |} /\
  abs s6 (IP4 3232235522) = Some {| a_mac := ex_mac1; a_online := true; a_last := 20 |} /\
  abs s6 (IP4 3232235523) = Some {| a_mac := ex_mac2; a_online := false; a_last := 30 |} /\
  abs s7 (IP4 3232235522) = Some {| a_mac := ex_mac1; a_online := false; a_last := 20 |} /\
  abs s8 (IP4 3232235522) = None /\
  find_mac ex_mac1 (macs s8) = None.
Proof. exact ex_history_abs. Qed.
Print Assumptions C04_history_nonvacuous.

(* ---- the three deadlines ----
   All statements above hold for every configuration: no ordering between OfflineDeadline, PurgeDeadline and
   ProbeDeadline is assumed (NewSession enforces only Probe <= Offline; PurgeDeadline is free).  The reference is the
   property text -- offline after OfflineDeadline of silence, removed when offline and silent longer than PurgeDeadline.
   ProbeDeadline is part of the configuration and read by no step of the model and of the reference: *)
Theorem C04_probe_deadline_irrelevant : forall p c s o, step (set_probe p c) s o = step c s o.
Proof. exact probe_independent_proof. Qed.
Print Assumptions C04_probe_deadline_irrelevant.

Theorem C04_probe_deadline_irrelevant_ref : forall p c a o k, ref_step (set_probe p c) a o k = ref_step c a o k.
Proof. exact probe_independent_ref_proof. Qed.
Print Assumptions C04_probe_deadline_irrelevant_ref.

(* PurgeDeadline (60) < ProbeDeadline (120) <= OfflineDeadline (300): an address that is offline by IPv4 supersession
   (last seen 10) is removed by the purge at 75 -- past its purge deadline, not past the probe deadline -- and is still
   tracked at 70 *)
Example C04_purge_below_probe_deadline :
  new_session dl_cfg 0 = Ok dl_s0 /\
  hist_wfb dl_cfg dl_s0 (dl_history 75) = true /\
  option_map (fun e => (a_online e, a_last e)) (abs (run dl_cfg dl_s0 (firstn 2 (dl_history 75))) (IP4 3232235521)) = Some (false, 10%Z) /\
  abs (run dl_cfg dl_s0 (dl_history 70)) (IP4 3232235521) <> None /\
  abs (run dl_cfg dl_s0 (dl_history 75)) (IP4 3232235521) = None /\
  ref_run dl_cfg (ref_init dl_cfg 0) (dl_history 75) (IP4 3232235521) = None /\
  option_map a_online (abs (run dl_cfg dl_s0 (dl_history 75)) (IP4 3232235522)) = Some true.
Proof. exact purge_below_probe_example. Qed.
Print Assumptions C04_purge_below_probe_deadline.

(* ---- every API call of the statement is a step of the model, each with its own refinement theorem
   (hypotheses: the C05 invariant and Inv4, which every reachable state has: C04_history_inv) ---- *)
Theorem C04_api_Parse : forall c s f now, Inv s -> Inv4 s -> fsum_wf f ->
  forall k, abs (fst (step c s (Rx f now))) k =
            match ref_event c f with Some (m, k0) => sight m k0 now (abs s) k | None => abs s k end.
Proof. exact api_parse_proof. Qed.
Print Assumptions C04_api_Parse.

Theorem C04_api_Notify : forall c s, Inv s -> Inv4 s -> forall k, abs (fst (step c s Notify)) k = abs s k.
Proof. exact api_notify_proof. Qed.
Print Assumptions C04_api_Notify.

Theorem C04_api_DHCPv4Update : forall c s m k0 name now, Inv s -> Inv4 s ->
  forall k, abs (fst (step c s (DHCPv4Update m k0 name now))) k =
            if is_valid k0 && negb (is_unspecified k0) then sight m k0 now (abs s) k else abs s k.
Proof. exact api_dhcp_update_proof. Qed.
Print Assumptions C04_api_DHCPv4Update.

Theorem C04_api_SetDHCPv4IPOffer : forall c s m k0 name, Inv s -> Inv4 s ->
  forall k, abs (fst (step c s (SetOffer m k0 name))) k = abs s k.
Proof. exact api_set_offer_proof. Qed.
Print Assumptions C04_api_SetDHCPv4IPOffer.

Theorem C04_api_Capture : forall c s m, Inv s -> Inv4 s -> forall k, abs (fst (step c s (Capture m))) k = abs s k.
Proof. exact api_capture_proof. Qed.
Print Assumptions C04_api_Capture.

Theorem C04_api_Release : forall c s m, Inv s -> Inv4 s -> forall k, abs (fst (step c s (Release m))) k = abs s k.
Proof. exact api_release_proof. Qed.
Print Assumptions C04_api_Release.

Theorem C04_api_purge : forall c s now order, Inv s -> Inv4 s -> order_complete s (Purge now order) ->
  forall k, abs (fst (step c s (Purge now order))) k = age c now (abs s) k.
Proof. exact api_purge_proof. Qed.
Print Assumptions C04_api_purge.

Theorem C04_api_UpdateName : forall c s kd k0 name, Inv s -> Inv4 s ->
  forall k, abs (fst (step c s (NameUpdate kd k0 name))) k = abs s k.
Proof. exact api_name_update_proof. Qed.
Print Assumptions C04_api_UpdateName.

(* NewSession's acceptance of the three deadlines is part of the model (kind dl compares it with Config.NewSession on a
   grid): it bounds each deadline and enforces Probe <= Offline only *)
Theorem C04_deadlines_accepted : forall p o u, deadlines_okb p o u = true -> (p <> 0 -> o <> 0 -> u <> 0 ->
  0 < p <= max_probe /\ p <= o <= max_offline /\ 0 < u <= max_purge)%Z.
Proof. exact deadlines_ok_order. Qed.
Print Assumptions C04_deadlines_accepted.

Example C04_deadlines_purge_unconstrained :
  deadlines_okb 120 300 60 = true /\ deadlines_okb 60 300 120 = true /\ deadlines_okb 120 300 3660 = true /\
  deadlines_okb 300 120 3660 = false /\ deadlines_okb default_probe default_offline default_purge = true.
Proof. exact deadlines_purge_free. Qed.
Print Assumptions C04_deadlines_purge_unconstrained.

(* ---- time ----
   The ageing rules are stated over the [now] of each step (C04_api_Parse / C04_api_DHCPv4Update: the stamp; C04_api_purge:
   the cut-offs), for every value of it.  In the library the stamp is time.Now() read inside findOrCreateHostWithLock; the
   tie is the real-time kind rt, justified by the monotonicity of every time comparison: *)
Theorem C04_time_bracket : forall (dl last_lo last last_hi now_lo now now_hi : Z),
  (last_lo <= last <= last_hi)%Z -> (now_lo <= now <= now_hi)%Z ->
  (last_lo + dl <? now_hi)%Z = (last_hi + dl <? now_lo)%Z ->
  (last + dl <? now)%Z = (last_hi + dl <? now_lo)%Z.
Proof. exact time_bracket_proof. Qed.
Print Assumptions C04_time_bracket.

(* ---- the creation rule as a table of address classes (Spec/HostTracking.v: class6_table, class4m_table) ----
   For ALL IPv6 sources: the reference's rule is the verdict of the address's row -- Never (unspecified, loopback, multicast
   of every scope, IPv4-mapped 0.0.0.0 / 127/8 / 224/4 / 255.255.255.255), Always (link-local fe80::/10, IPv4-mapped
   169.254/16), NotFromRouter (everything else: IPv4-compatible, NAT64, 2000::/3 with Teredo / documentation / 6to4,
   unique local fc00::/8 and fd00::/8, site-local, other IPv4-mapped).  A class silently dropped from the rule is a
   concrete failing frame of the address-class histories.  IPv4 sources and ARP senders: the home LAN prefix alone. *)
Theorem C04_creation_rule_by_class : forall c f a, f_class f = FIP6 -> f_ip f = IP6 a -> a < 2 ^ 128 ->
  ref_event c f =
  if unicast_mac (f_src f) && negb (f_src f =? own_mac c) then
    match verdict6 a with
    | Some v => if verdict_holds v (f_src f =? rt_mac c) then Some (f_src f, IP6 a) else None
    | None => None
    end
  else None.
Proof. exact creation_rule_by_class_proof. Qed.
Print Assumptions C04_creation_rule_by_class.

(* the representatives the harness sends, one or more per row, on the MODEL's predicate, from a client and from the router *)
Example C04_address_class_examples : forallb (class_example_ok std_cfg) class_examples = true.
Proof. exact class_examples_ok. Qed.
Print Assumptions C04_address_class_examples.
