(* Properties/C20_asfound.v — history: the code AS FOUND (/repo 040c128) violated C20 in six ways; each was
   reproduced on the real code, recorded, and repaired by a fix: commit (known_findings.txt "fixed:" lines,
   FIXLOG.md).  The refutations stay machine-checked on the as-found functions (Model/FastlogAsFound.v); the
   positive theorems about the repaired code are in Properties/C20.v (C20_repaired_* and the general ones). *)
From PV Require Import Base.Prelude Model.Fastlog Model.FastlogOps Model.FastlogAsFound Spec.TextSpec Proofs.FastlogAsFound.
Open Scope N_scope.

Theorem C20_asfound_ip6_run2_refuted :
  exists l name ip, line_ok l /\ bytes_ok ip /\ List.length ip = 16%nat /\
    fits l (fld name (netip_text ip)) /\
    is_ok (f_ipslice_af l name (Some ip)) = true /\
    text_or_nil (f_ipslice_af l name (Some ip)) <> text_of l ++ fld name (netip_text ip).
Proof. exact asfound_ip6_run2_refuted. Qed.
Print Assumptions C20_asfound_ip6_run2_refuted.

Theorem C20_asfound_ip6_exact_fit_refuted :
  exists l name ip, line_ok l /\ bytes_ok ip /\ List.length ip = 16%nat /\
    fits l (fld name (netip_text ip)) /\ f_ipslice_af l name (Some ip) = Panic.
Proof. exact asfound_ip6_exact_fit_refuted. Qed.
Print Assumptions C20_asfound_ip6_exact_fit_refuted.

Theorem C20_asfound_iparray_ip4_return_refuted :
  exists l name vs, line_ok l /\ op_fits (index l) (OIPArr name vs) = true /\
    text_or_nil (f_ip_array_af l name vs) = text_of l ++ [32; 97; 61; 91; 49; 46; 50; 46; 51; 46; 52] /\
    text_or_nil (f_ip_array_af l name vs) <> text_of l ++ spec_text (OIPArr name vs).
Proof. exact asfound_iparray_ip4_return_refuted. Qed.
Print Assumptions C20_asfound_iparray_ip4_return_refuted.

Theorem C20_asfound_iparray_room_refuted :
  exists l name vs, line_ok l /\ f_ip_array_af l name vs = Panic.
Proof. exact asfound_iparray_room_refuted. Qed.
Print Assumptions C20_asfound_iparray_room_refuted.

Theorem C20_asfound_bytearray_negative_bound_refuted :
  exists l name v, line_ok l /\ f_byte_array_af l name v = Panic.
Proof. exact asfound_bytearray_negative_bound_refuted. Qed.
Print Assumptions C20_asfound_bytearray_negative_bound_refuted.

Theorem C20_asfound_index_past_refuted :
  exists l name t l', line_ok l /\ f_ip_af l name (Some t) = Ok l' /\ (BUFSZ < index l')%nat /\ to_string l' = Panic.
Proof. exact asfound_index_past_refuted. Qed.
Print Assumptions C20_asfound_index_past_refuted.
