(* Properties/C18_bytes.v — C18 on the BYTES of the lease file and on the file system (round 7).
   Only statements, each closed by [exact] of a lemma of Proofs/LeaseBytes.v.
   The integrity line is parsed on bytes inside the model (Model/LeaseBytes.v).  Three library functions are
   parameters, as total FUNCTIONS: sha256hex (crypto/sha256 + fmt %x), marshal / unmarshal (gopkg.in/yaml.v2 on the
   table struct).  Exactly what is assumed of them, and where:
     totality (they return on every input)            — all theorems; harness: random / mutated / YAML-shaped bytes
     hex_no_nl            no newline among the hex digits        — C18_verdict_saved, C18_truncated_*; harness: every saved file
     sha256_prefix_free   a proper prefix of the body has another hash — C18_truncated_*; harness: every byte prefix of saved files
     yaml_short           Unmarshal of the 10 proper prefixes of "checksum: " gives an error or no leases
                                                                  — C18_truncated_intact_or_empty; harness: those 10 files on every run
     unmarshal (write_bytes d) = Some d                           — C18_read_saved; harness: every generated / saved document *)
From PV Require Import Base.Prelude Model.LeaseBase Model.Lease Model.LeaseBytes Proofs.LeaseBytes.
Open Scope N_scope.

(* Damaged-file clause, full strength: for ARBITRARY file contents (any byte string, or no file) the constructor
   neither panics nor loops ... *)
Theorem C18_new_bytes_total : forall sha256hex unmarshal c cap f,
  new_bytes sha256hex unmarshal c cap f <> Panic /\ new_bytes sha256hex unmarshal c cap f <> Fuel.
Proof. exact new_bytes_total. Qed.
Print Assumptions C18_new_bytes_total.

(* ... and whatever the bytes, every restored lease is Allocated, has a client id, lies in the home subnet and is a
   lease of the document yaml.Unmarshal made of those bytes, which did not fail the integrity check. *)
Theorem C18_new_bytes_table : forall sha256hex unmarshal c cap b s,
  new_bytes sha256hex unmarshal c cap (Some b) = Ok s ->
  forall l, In l (d_table s) ->
    allocated l = true /\ r_cid (l_rec l) <> [] /\ contains (c_home c) (r_ip (l_rec l)) = true
    /\ sum_verdict sha256hex b <> SumBad
    /\ exists d, unmarshal b = Some d /\ In (l_rec l) (d_leases d).
Proof. exact new_bytes_table. Qed.
Print Assumptions C18_new_bytes_table.

(* The directory is part of the initial state.  For EVERY file system before the save — temporary file absent, shorter,
   of equal length, LONGER than the new content, arbitrary bytes, a complete older save; lease file present or absent
   — after a completed saveConfig the lease file's bytes are exactly the new serialisation and the temporary file is
   gone.  The model's open step carries the flag O_TRUNC explicitly ([save_fs] = [save_fs_flags true], what
   ioutil.WriteFile does; tied to the source by kind consts and to the behaviour by kind savedir). *)
Theorem C18_save_ignores_stale_tmp : forall content fs,
  f_lease (save_fs content fs) = Some content /\ f_tmp (save_fs content fs) = None.
Proof. exact save_ignores_stale_tmp. Qed.
Print Assumptions C18_save_ignores_stale_tmp.

(* hence the restart after a save, and the one after that (no save in between changes the file), construct from the
   new serialisation whatever was lying in the directory *)
Theorem C18_restart_after_save_any_directory : forall sha256hex unmarshal c cap content fs,
  new_bytes sha256hex unmarshal c cap (f_lease (save_fs content fs)) = new_bytes sha256hex unmarshal c cap (Some content).
Proof. exact restart_after_save_any_directory. Qed.
Print Assumptions C18_restart_after_save_any_directory.

(* O_TRUNC is necessary: opening the temporary file without it leaves the tail of a longer stale file in place, and
   that is renamed over the lease file (the file then fails its checksum at the next restart) *)
Theorem C18_save_without_trunc : forall content fs,
  f_lease (save_fs_flags false content fs) = Some (content ++ skipn (List.length content) (tmp_content fs)).
Proof. exact save_without_trunc. Qed.
Print Assumptions C18_save_without_trunc.

Theorem C18_save_without_trunc_refuted :
  exists content fs, f_lease (save_fs_flags false content fs) <> Some content.
Proof. exact save_without_trunc_refuted. Qed.
Print Assumptions C18_save_without_trunc_refuted.

(* at every crash point the temporary file is absent, untouched, or a prefix of the NEW content *)
Theorem C18_crash_tmp_prefix : forall content fs fs',
  In fs' (crash_states content fs) ->
  fs' = fs \/ f_tmp fs' = None \/ exists n, f_tmp fs' = Some (firstn n content).
Proof. exact crash_tmp_prefix. Qed.
Print Assumptions C18_crash_tmp_prefix.

(* Crash-point clause, file-system level: saveConfig = create/truncate <file>.tmp, write (a crash leaves any prefix),
   rename over <file>.  At EVERY crash point the lease file holds the old content or the complete new content ... *)
Theorem C18_crash_lease_old_or_new : forall content fs fs',
  In fs' (crash_states content fs) -> f_lease fs' = f_lease fs \/ f_lease fs' = Some content.
Proof. exact crash_lease_old_or_new. Qed.
Print Assumptions C18_crash_lease_old_or_new.

(* ... so a restart after the crash constructs exactly what the old file gives or exactly what the new file gives:
   never a mixed table, never a panic (C18_new_bytes_total).  os.Rename's atomicity is the assumption built into
   [fs_rename]; the temporary file is never read. *)
Theorem C18_crash_restart_old_or_new : forall sha256hex unmarshal c cap content fs fs',
  In fs' (crash_states content fs) ->
  new_bytes sha256hex unmarshal c cap (f_lease fs') = new_bytes sha256hex unmarshal c cap (f_lease fs)
  \/ new_bytes sha256hex unmarshal c cap (f_lease fs') = new_bytes sha256hex unmarshal c cap (Some content).
Proof. exact crash_restart_old_or_new. Qed.
Print Assumptions C18_crash_restart_old_or_new.

Example C18_crash_states_nonvacuous :
  List.length (crash_states [1; 2; 3] {| f_lease := Some [9]; f_tmp := None |}) = 7%nat
  /\ In {| f_lease := Some [9]; f_tmp := Some [1; 2] |} (crash_states [1; 2; 3] {| f_lease := Some [9]; f_tmp := None |})
  /\ In {| f_lease := Some [1; 2; 3]; f_tmp := None |} (crash_states [1; 2; 3] {| f_lease := Some [9]; f_tmp := None |}).
Proof. vm_compute. intuition. Qed.
Print Assumptions C18_crash_states_nonvacuous.

(* A saved file passes its own integrity check, and reads back as the saved document. *)
Theorem C18_verdict_saved : forall sha256hex marshal d,
  hex_no_nl sha256hex -> sum_verdict sha256hex (write_bytes sha256hex marshal d) = SumOk.
Proof. exact verdict_saved. Qed.
Print Assumptions C18_verdict_saved.

Theorem C18_read_saved : forall sha256hex marshal unmarshal d,
  hex_no_nl sha256hex -> unmarshal (write_bytes sha256hex marshal d) = Some d ->
  read_bytes sha256hex unmarshal (write_bytes sha256hex marshal d) = Doc SumOk d.
Proof. exact read_saved. Qed.
Print Assumptions C18_read_saved.

(* Truncation at EVERY byte offset of a saved file (the damage a non-atomic rewrite or a short copy leaves): once the
   key is there and something is missing the integrity check fails ... *)
Theorem C18_verdict_truncated : forall sha256hex marshal (unmarshal : bytes -> option doc) d n,
  hex_no_nl sha256hex -> sha256_prefix_free sha256hex ->
  (10 <= n < List.length (write_bytes sha256hex marshal d))%nat ->
  sum_verdict sha256hex (firstn n (write_bytes sha256hex marshal d)) = SumBad.
Proof. exact verdict_truncated. Qed.
Print Assumptions C18_verdict_truncated.

(* ... and for EVERY n the constructor builds either what the whole file builds (nothing was cut) or an empty table. *)
Theorem C18_truncated_intact_or_empty : forall sha256hex marshal unmarshal c cap d n s,
  hex_no_nl sha256hex -> sha256_prefix_free sha256hex -> yaml_short unmarshal ->
  new_bytes sha256hex unmarshal c cap (Some (firstn n (write_bytes sha256hex marshal d))) = Ok s ->
  firstn n (write_bytes sha256hex marshal d) = write_bytes sha256hex marshal d \/ d_table s = [].
Proof. exact truncated_intact_or_empty. Qed.
Print Assumptions C18_truncated_intact_or_empty.

(* the three hypotheses are satisfiable together (a toy instance; for the real libraries they are checked by the
   harness on every run) *)
Example C18_bytes_hypotheses_satisfiable :
  let sha := fun b : bytes => [48 + N.of_nat (List.length b)] in
  hex_no_nl sha /\ sha256_prefix_free sha /\ yaml_short (fun _ => None).
Proof.
  split; [|split].
  - intros b [H|[]]. lia.
  - intros body n Hn. rewrite firstn_length. intros H. inversion H. lia.
  - intros n _. left. reflexivity.
Qed.
Print Assumptions C18_bytes_hypotheses_satisfiable.
