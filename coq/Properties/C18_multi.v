(* Properties/C18_multi.v — several handler instances over one lease file (round 10).
   Only statements, each closed by [exact] of a lemma of Proofs/LeaseMulti.v.
   What the library promises about two handlers on one file: nothing forbids it (a handler is typically replaced by
   New on the same file before the old one is closed).  C18 needs only this: no operation other than construction, an
   acknowledgement or the dropping of a binding (decline, abandoned selection, replaced lease, expiry) rewrites the
   file.  [writes_file] is that set; kind writers ties it to the source, the inode check after every API call to the
   behaviour. *)
From PV Require Import Base.Prelude Model.LeaseMulti Proofs.LeaseMulti.
Open Scope N_scope.

(* After ANY interleaving of the operations of any number of handlers over one file, the file holds the table of the
   handler that performed the LAST WRITING operation, as it was right after that operation (and the initial content
   if nobody wrote). *)
Theorem C18_file_reflects_last_writer : forall ops s,
  match last_written s ops None with
  | Some t => m_file (mrun s ops) = t
  | None => m_file (mrun s ops) = m_file s /\ (None : option mtable) = None
  end.
Proof. exact file_reflects_last_writer0. Qed.
Print Assumptions C18_file_reflects_last_writer.

(* Close is not a writing operation: whatever the closing handler's table, the file stays as it is ... *)
Theorem C18_close_does_not_write : forall s h eff,
  m_file (mstep s {| o_h := h; o_kind := KClose; o_eff := eff |}) = m_file s.
Proof. exact close_does_not_write. Qed.
Print Assumptions C18_close_does_not_write.

(* ... as does every operation outside [writes_file] (DISCOVER/OFFER, NAK, RELEASE, StartHunt, StopHunt, PrintTable,
   Mode, SetMode) *)
Theorem C18_nonwriter_keeps_file : forall s o, writes_file (o_kind o) = false -> m_file (mstep s o) = m_file s.
Proof. exact nonwriter_keeps_file. Qed.
Print Assumptions C18_nonwriter_keeps_file.

(* restart-survival for the successor: h1 ACKs A; h2 = New(same file) ACKs B; h1 is closed late; restart: A and B *)
Example C18_late_close_keeps_successor :
  let s := mrun {| m_file := []; m_tables := [] |} ex_replace in
  m_file s = [65; 66] /\ tbl_get 3 (m_tables s) = [65; 66] /\ tbl_get 1 (m_tables s) = [65].
Proof. exact late_close_keeps_successor. Qed.
Print Assumptions C18_late_close_keeps_successor.
