(* Properties/C04_glue.v — C04 over RAW FRAME BYTES: the byte-level model of Session.Parse (Model/Parse.v, PARSE
   cluster) glued to the table machine (Model/TablesGlue.v).  Only statements closed by [exact].
   [summary_of pc s]: the frame summary the table model's Rx op takes, computed from the bytes with Parse's own
   primitives up to layer 3; [pcfg_of c]: the Parse configuration of a table configuration;
   [BRx s now]: Session.Parse on the slice s (any bytes, any capacity) at time now. *)
From PV Require Import Base.Prelude Base.Slice Model.Parse Model.ParseFixes Model.Tables Model.TablesGlue
  Spec.HostTrackingInv Spec.HostTracking Spec.RFC
  Proofs.ParseRef Proofs.Tables Proofs.TablesRefine Proofs.TablesPred Proofs.TablesC04 Proofs.TablesGlue.

(* (a) the summary of any byte string is well formed: the hypothesis [op_wf] of C04_refines / C04_history is
   discharged for every received frame *)
Theorem C04_glue_summary_wf : forall pc s, fsum_wf (summary_of pc s).
Proof. exact summary_wf. Qed.
Print Assumptions C04_glue_summary_wf.

(* whenever Parse returns a frame, the host key and source it reports are the ones the glue reads at layer 3 *)
Theorem C04_glue_parse_agrees : forall pc s f, wf s -> parse pc s = Ok f -> l3_agrees (l3_of pc s) f.
Proof. exact parse_l3_agree. Qed.
Print Assumptions C04_glue_parse_agrees.

(* Parse's configuration gate on the bytes = the creation predicate of the table model on the summary *)
Theorem C04_glue_gate : forall c s i,
  cfg_ok c -> bytes_ok (arr s) -> l3_of (pcfg_of c) s = Ok i ->
  host_event c (summary_of (pcfg_of c) s) = option_map key_num (l_key i).
Proof. exact key_event. Qed.
Print Assumptions C04_glue_gate.

(* (c) the creation rule in terms of the bytes: for every frame Parse accepts, the reference decoder of Spec/RFC.v
   decodes the same frame, and the (MAC, IP) key handed to the host table is what the property text's creation
   rule yields on the source MAC / source address the reference decoder reads *)
Theorem C04_creation_rule_bytes : forall c s f,
  cfg_ok c -> wf s -> bytes_ok (arr s) -> N.of_nat (len s) < 65536 ->
  parse (pcfg_of c) s = Ok f ->
  ref_decode (view s) = ROk (proj f) /\
  option_map key_num (f_host f) = ref_event c (summary_of (pcfg_of c) s) /\
  Tables.f_src (summary_of (pcfg_of c) s) = nob (r_smac (proj f)) /\
  (f_class (summary_of (pcfg_of c) s) = FIP4 \/ f_class (summary_of (pcfg_of c) s) = FIP6 ->
   f_ip (summary_of (pcfg_of c) s) = ip_of (r_sip (proj f))).
Proof. exact creation_rule_bytes. Qed.
Print Assumptions C04_creation_rule_bytes.

(* (b) every history whose receive ops are raw byte strings *)
Theorem C04_history_bytes : forall c now s0 bs,
  own_mac c <> rt_mac c -> new_session c now = Ok s0 -> bhist_wf c s0 bs ->
  forall k, abs (brun c s0 bs) k = ref_run c (ref_init c now) (map (op_of_bop c) bs) k.
Proof. exact history_bytes. Qed.
Print Assumptions C04_history_bytes.

(* reading made visible: Parse touches the host table before it validates layer 4 *)
Example C04_rejected_frame_creates_host :
  parse (pcfg_of std_cfg) (of_bytes ex_l4_short) = Err EFrameLen /\
  (exists e, ref_decode ex_l4_short = RErr e) /\
  host_event std_cfg (summary_of (pcfg_of std_cfg) (of_bytes ex_l4_short)) = Some (2199023255555, IP4 3232235527).
Proof. exact ex_l4_rejected_but_created. Qed.
Print Assumptions C04_rejected_frame_creates_host.
