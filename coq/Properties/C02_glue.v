(* Properties/C02_glue.v — the two references of C02 agree: Spec/RFC.v (frame-level reference decoder, PARSE) and the
   RFC position specs of the views (Spec/Views*.v, VIEWS) give the same value for every field both define.
   Only statements, closed by [exact] of lemmas of Proofs/ParseGlue.v. *)
From PV Require Import Base.Prelude Spec.RFC Spec.Views Spec.Views2 Proofs.ParseGlue.
From Coq Require Import String.
Open Scope N_scope.
Open Scope string_scope.

(* For every byte string the reference decoder accepts: the MAC ranges, the EtherType, and - at the offsets the
   reference decoder reports - the IPv4 / IPv6 addresses, protocol and length fields, the UDP / TCP ports and the TCP
   header length are exactly what the view spec tables (the specs the getters are proved against in C02_views) say. *)
Theorem C02_glue_ref_decode_views : forall b r,
  bytes_ok b -> ref_decode b = ROk r ->
  spec_of Ether_specs "Src" b = VR 6 6 /\ r_smac r = sub b 6 6 /\
  spec_of Ether_specs "Dst" b = VR 0 6 /\ r_dmac r = sub b 0 6 /\
  spec_of Ether_specs "EtherType" b = VN (word_at b 12) /\
  (forall o, r_ip4 r = Some o ->
     let p := skipn o b in
     spec_of IP4_specs "Src" p = VX (r_sip r) /\ spec_of IP4_specs "Dst" p = VX (r_dip r) /\
     spec_of IP4_specs "Protocol" p = VN (byte_at p 9) /\
     spec_of IP4_specs "IHL" p = VN (4 * (byte_at p 0 mod 16)) /\ spec_of IP4_specs "TotalLen" p = VN (word_at p 2)) /\
  (forall o, r_ip6 r = Some o ->
     let p := skipn o b in
     spec_of IP6_specs "Src" p = VX (r_sip r) /\ spec_of IP6_specs "Dst" p = VX (r_dip r) /\
     spec_of IP6_specs "NextHeader" p = VN (byte_at p 6) /\ spec_of IP6_specs "PayloadLen" p = VN (word_at p 4)) /\
  (forall o, r_udp r = Some o ->
     spec_of UDP_specs "SrcPort" (skipn o b) = VN (r_sport r) /\ spec_of UDP_specs "DstPort" (skipn o b) = VN (r_dport r)) /\
  (forall o, r_tcp r = Some o ->
     spec_of TCP_specs "SrcPort" (skipn o b) = VN (r_sport r) /\ spec_of TCP_specs "DstPort" (skipn o b) = VN (r_dport r) /\
     spec_of TCP_specs "HeaderLen" (skipn o b) = VN (4 * (byte_at (skipn o b) 12 / 16))).
Proof. exact ref_decode_views_glue. Qed.
Print Assumptions C02_glue_ref_decode_views.

(* the Ethernet header length (14 / 18 / 22): tag table of the reference decoder = ether_hlen of the views *)
Theorem C02_glue_ether_hlen : forall b, bytes_ok b -> (14 <= List.length b)%nat ->
  Views.ether_hlen b = (14 + match RFC.lookup (word_at b 12) tag_table with Some n => n | None => 0 end)%nat.
Proof. exact ether_hlen_glue. Qed.
Print Assumptions C02_glue_ether_hlen.

(* what a successful ref_decode says about its own fields (used above; RFC.v vocabulary only) *)
Theorem C02_glue_ref_decode_fields : forall b r, ref_decode b = ROk r -> fields b r.
Proof. exact ref_decode_fields. Qed.
Print Assumptions C02_glue_ref_decode_fields.

Example C02_glue_nonvacuous :
  let b := ([0;102;102;102;102;102; 2;17;17;17;17;17; 8;0] ++
            [69;0;0;32; 0;0;0;0; 64;17;0;0; 192;168;0;7; 8;8;8;8] ++ [200;0; 0;53; 0;12; 0;0] ++ [1;2;3;4])%list in
  bytes_ok b /\ exists r, ref_decode b = ROk r /\ r_ip4 r = Some 14%nat /\ r_udp r = Some 34%nat /\
  spec_of UDP_specs "DstPort" (skipn 34 b) = VN 53 /\ spec_of IP4_specs "Src" (skipn 14 b) = VX [192;168;0;7].
Proof. exact glue_nonvacuous. Qed.
Print Assumptions C02_glue_nonvacuous.
