(* Properties/C16.v — Parsing is zero-copy and allocation-free in steady state.
   Only statements, each closed by [exact] of a lemma proved in Proofs/ParseAlias.v. *)
From PV Require Import Base.Prelude Base.Slice Model.Parse Spec.RFC Model.ParseKnown Model.ParseAlias Model.ParseAlloc
  Model.ParseFixes Model.ParseCalls Proofs.Parse Proofs.ParseAcc Proofs.ParseAlias Proofs.ParseRef Proofs.ParseRefEq Proofs.ParseAliasFull Proofs.ParseCalls.
Open Scope N_scope.

(* ---- views alias the caller's buffer, none extends beyond the frame ------------------------------ *)

(* Every view handed out after a nil error (Ether, IP4, IP6, UDP, TCP, Payload, the two MAC slices) is nil or
   IS the storage of the input from the offset stored in the Frame ([view_at (arr s) off n] = the buffer
   from [off] on), and ends within the length of the frame. *)
Theorem C16_views_are_subslices : forall c s f w,
  wf s -> parse c s = Ok f ->
  sub_view s (view_off f w) (view_get s f w).
Proof. exact views_are_subslices. Qed.
Print Assumptions C16_views_are_subslices.

(* The offsets are the decoded ones: wherever Parse and the reference decoder are proved equal (outside the
   classes recorded for C02) the views sit at the offsets the reference decoder computes. *)
Theorem C16_views_at_decoded_offsets : forall c s f,
  wf s -> bytes_ok (view s) -> N.of_nat (len s) < 65536 -> known_C02 (c_fx c) (view s) = None -> parse c s = Ok f ->
  exists r, ref_decode (view s) = ROk r /\
    r_ip4 r = opt_off (view_off f V4) /\ r_ip6 r = opt_off (view_off f V6) /\
    r_udp r = opt_off (view_off f VU) /\ r_tcp r = opt_off (view_off f VT) /\ r_pay r = view_off f VP.
Proof. exact views_at_ref_offsets. Qed.
Print Assumptions C16_views_at_decoded_offsets.

(* Write-through, both directions, for any view position [off], length [n] and index [i] inside it:
   (1) view[i] := v changes the buffer at off+i and nowhere else; *)
Theorem C16_write_through_view_to_buffer : forall mem off n i v j,
  (i < n)%nat -> (off + n <= length mem)%nat ->
  nth j (write_view mem off i v) 0 = if Nat.eqb j (off + i) then v else nth j mem 0.
Proof. exact write_view_seen_in_buf. Qed.
Print Assumptions C16_write_through_view_to_buffer.

(* (2) buf[off+i] := v is seen by the view (same position) at i, the rest of the view is unchanged; *)
Theorem C16_write_through_buffer_to_view : forall mem off n i v,
  view_at (write_buf mem (off + i) v) off n = mkSlice (set_nth i v (arr (view_at mem off n))) n.
Proof. exact write_buf_seen_by_view. Qed.
Print Assumptions C16_write_through_buffer_to_view.

(* (3) and reads back through the view. *)
Theorem C16_read_back_through_view : forall mem off n i v,
  (i < n)%nat -> (off + n <= length mem)%nat ->
  idx (view_at (write_buf mem (off + i) v) off n) i = Ok v.
Proof. exact read_back_through_view. Qed.
Print Assumptions C16_read_back_through_view.

(* ---- allocation counter (Model/ParseAlloc.v) ------------------------------------------------------- *)

(* A frame that parses without error from a source that is already tracked and online, or that the
   configuration keeps out of the host table, costs zero allocations in the counter model. *)
Theorem C16_steady_state_zero : forall c st s f,
  parse c s = Ok f -> (forall k, f_host f = Some k -> st k = TrackedOnline) ->
  parse_allocs c st s = Ok 0%nat.
Proof. exact steady_state_zero. Qed.
Print Assumptions C16_steady_state_zero.

(* The same, spelled out over the classes the measurement sweeps (harness/cmd/c16: every PayloadID class 1..29, carried
   over IPv4 and over IPv6, x source class x host state): for an error-free frame of ANY PayloadID class the counter
   is zero when (1) the source is tracked and online; (2) it carries our own MAC; (3) its source MAC is a group
   address; (4) it is IPv4 with a source outside the home LAN; (5) it is IPv6 with a source that is not link-local
   and either not global unicast (multicast, ::, ::1) or global unicast behind the router MAC; (6) it is neither IP
   nor ARP.  Excluded because they DO allocate (C16_not_steady_allocates): a source tracked by rule (LAN IPv4 / ARP
   sender, IPv6 link-local from any MAC, IPv6 global from a non-router MAC) that is newly seen or offline; and frames
   Parse rejects (fmt.Errorf inside the failing IsValid).  ARP senders outside the LAN: C16_tracked_only_by_rule. *)
Theorem C16_zero_alloc_classes : forall c st s f,
  parse c s = Ok f ->
  (forall k, f_host f = Some k -> st k = TrackedOnline)
  \/ a_mac (f_src f) = c_hostmac c
  \/ is_unicast_mac (a_mac (f_src f)) = false
  \/ ((0 < f_off4 f)%nat /\ lan_contains c (a_ip (f_src f)) = false)
  \/ ((0 < f_off6 f)%nat /\ ip6_is_llu (a_ip (f_src f)) = false /\
      (ip6_is_gu (a_ip (f_src f)) = false \/ bytes_eqb (a_mac (f_src f)) (c_routermac c) = true))
  \/ (f_off4 f = 0%nat /\ f_off6 f = 0%nat /\ f_id f <> PayloadARP) ->
  parse_allocs c st s = Ok 0%nat.
Proof. exact zero_alloc_classes. Qed.
Print Assumptions C16_zero_alloc_classes.

(* "untracked by rule": frames sent with our own MAC, frames with a group source MAC, IPv4/ARP senders outside the
   home LAN and global IPv6 sources behind the router MAC are never handed to the host table. *)
Theorem C16_own_mac_untracked : forall c s f,
  parse c s = Ok f -> a_mac (f_src f) = c_hostmac c -> f_host f = None.
Proof. exact own_mac_untracked. Qed.
Print Assumptions C16_own_mac_untracked.

Theorem C16_group_source_untracked : forall c s f,
  parse c s = Ok f -> is_unicast_mac (a_mac (f_src f)) = false -> f_host f = None.
Proof. exact group_source_untracked. Qed.
Print Assumptions C16_group_source_untracked.

Theorem C16_tracked_only_by_rule : forall c s f m ip,
  parse c s = Ok f -> f_host f = Some (m, ip) ->
  lan_contains c ip = true \/ ip6_is_llu ip = true \/
  (ip6_is_gu ip = true /\ bytes_eqb (a_mac (f_src f)) (c_routermac c) = false).
Proof. exact off_lan_untracked. Qed.
Print Assumptions C16_tracked_only_by_rule.

(* the counter is not vacuously zero: a newly seen or offline source allocates *)
Theorem C16_not_steady_allocates : forall c st s f k,
  parse c s = Ok f -> f_host f = Some k -> st k <> TrackedOnline ->
  exists n, parse_allocs c st s = Ok (S n).
Proof. exact not_steady_allocates. Qed.
Print Assumptions C16_not_steady_allocates.

Example C16_steady_state_nonvacuous :
  exists f, parse cfg0 (of_bytes ex_arp28) = Ok f /\ f_host f = Some ([2;17;17;17;17;17], [192;168;0;7]) /\
  parse_allocs cfg0 (fun _ => TrackedOnline) (of_bytes ex_arp28) = Ok 0%nat /\
  parse_allocs cfg0 (fun _ => Untracked) (of_bytes ex_arp28) = Ok 3%nat.
Proof. exact steady_state_nonvacuous. Qed.
Print Assumptions C16_steady_state_nonvacuous.

(* ==== Aliasing clause at full strength, for the code in force ==========================================================
   For every frame Parse accepts (every PayloadID class: also VLAN-tagged frames, IPv6 with any next header incl.
   extension headers; every session configuration - tracked / untracked / new sources do not enter) and every
   capacity: each view returned by the Frame accessors is exactly the input's storage from the offset the reference
   decoder computes to the end of the frame (nil where the reference has no such layer); the two MAC views are
   p[6:12] and p[0:6]; every offset lies inside the frame. *)
Theorem C16_views_alias_full : forall c s f,
  c_fx c = current_fixes -> wf s -> bytes_ok (view s) -> parse c s = Ok f ->
  exists r, ref_decode (view s) = ROk r /\
    view_get s f VE = ref_view s (Some 0%nat) /\
    view_get s f V4 = ref_view s (r_ip4 r) /\
    view_get s f V6 = ref_view s (r_ip6 r) /\
    view_get s f VU = ref_view s (r_udp r) /\
    view_get s f VT = ref_view s (r_tcp r) /\
    view_get s f VP = ref_view s (Some (r_pay r)) /\
    view_get s f VS = Ok (Some (view_at (arr s) 6 6)) /\
    view_get s f VD = Ok (Some (view_at (arr s) 0 6)) /\
    (14 <= r_pay r <= len s)%nat /\
    (forall o, r_ip4 r = Some o \/ r_ip6 r = Some o \/ r_udp r = Some o \/ r_tcp r = Some o -> (0 < o <= len s)%nat).
Proof. exact views_alias_full. Qed.
Print Assumptions C16_views_alias_full.

Example C16_alias_examples :
  (exists f, parse cfg_cur (of_bytes ex_vlan) = Ok f /\ f_id f = PayloadEther /\
     view_get (of_bytes ex_vlan) f V4 = Ok None /\ view_get (of_bytes ex_vlan) f VU = Ok None /\
     view_get (of_bytes ex_vlan) f VP = Ok (Some (view_at ex_vlan 18 30))) /\
  (exists f, parse cfg_cur (of_bytes ex_hbh) = Ok f /\ f_id f = PayloadIP6 /\
     view_get (of_bytes ex_hbh) f V6 = Ok (Some (view_at ex_hbh 14 56)) /\
     view_get (of_bytes ex_hbh) f VP = Ok (Some (view_at ex_hbh 54 16)) /\
     f_host f = Some ([2;17;17;17;17;17], [254;128;0;0;0;0;0;0;0;0;0;0;0;0;0;1])).
Proof. exact alias_examples. Qed.
Print Assumptions C16_alias_examples.

(* ==== Allocation clause: the call table ================================================================================
   Model/ParseCalls.v lists, per branch of Parse, the functions it calls; the harness re-derives the table from
   layer_frame.go with go/ast on every run (kind "calls").  From the table: the only callees that can allocate are
   IsValid (fmt.Errorf when it fails), findOrCreateHostWithLock (new host) and hostOnline (log line on a transition);
   the last two occur in the IPv4, IPv6 and ARP cases only.  PARTIAL BY NATURE: that the remaining callees (re-slicing,
   conversions, netip value operations, atomics, the mutex-guarded lookup of echoNotify) do not allocate is decided by
   the Go compiler and runtime; it is measured (testing.AllocsPerRun sweep), not proved. *)
Theorem C16_every_callee_classified :
  forallb (fun b => forallb (fun n => match callee_kind n with
                                      | NoAlloc => true
                                      | OnError => String.eqb n ".IsValid"
                                      | HostPath => String.eqb n ".findOrCreateHostWithLock"
                                      | LogPath => String.eqb n ".hostOnline"
                                      end) (snd b)) parse_calls = true.
Proof. exact every_callee_classified. Qed.
Print Assumptions C16_every_callee_classified.

(* the helpers on the steady-state path, as leaf call sets (package-local callees expanded): echoNotify reaches nothing
   that can allocate (so a pending ping, whoever answers it, costs nothing - measured per call by kind ppa); hostOnline
   reaches only the calls that build the online-transition log lines *)
Theorem C16_steady_helpers_alloc_free :
  helper_alloc_free "fn:echoNotify" = true /\
  option_map (filter helper_may_alloc) (calls_of "fn:hostOnline" parse_calls) = Some [".IP"; ".Msg"; ".Struct"; ".Write"]%string /\
  helper_alloc_free "fn:findOrCreateHostWithLock" = false.
Proof. exact steady_helpers_alloc_free. Qed.
Print Assumptions C16_steady_helpers_alloc_free.

Theorem C16_host_calls_only_ip_arp :
  branches_with HostPath = ["et:2048"; "et:2054"; "et:34525"]%string /\
  branches_with LogPath = ["et:2048"; "et:2054"; "et:34525"]%string.
Proof. exact host_calls_only_ip_arp. Qed.
Print Assumptions C16_host_calls_only_ip_arp.

Theorem C16_error_calls :
  branches_with OnError = ["et:2048"; "et:34525"; "proto:1"; "proto:17"; "proto:58"; "proto:6"; "top"]%string.
Proof. exact error_calls. Qed.
Print Assumptions C16_error_calls.

(* the counter is non-zero for an accepted frame only through the host path, and only for IPv4 / IPv6 / ARP frames *)
Theorem C16_counter_matches_calls : forall c st s f n,
  parse c s = Ok f -> parse_allocs c st s = Ok (S n) ->
  exists k, f_host f = Some k /\ st k <> TrackedOnline /\
            ((0 < f_off4 f)%nat \/ (0 < f_off6 f)%nat \/ f_id f = PayloadARP).
Proof. exact counter_matches_calls. Qed.
Print Assumptions C16_counter_matches_calls.

(* ==== Per call, in every state, at every log level ======================================================================
   The measurement side: kind ppa brackets EVERY single Parse call with a malloc count while a ping is pending (matching
   identifier from the pinged host / from another tracked host / other identifier); kind alloc runs the sweep at the
   levels error, info and debug; kind logs ties the list of log statements on Parse's path and their guards
   (Model/ParseCalls.v parse_logs) to the source. *)
Theorem C16_zero_alloc_every_level : forall lvl c st s f,
  parse c s = Ok f ->
  (forall k, f_host f = Some k -> st k = TrackedOnline \/ (lvl = LError /\ st k = TrackedOffline)) ->
  parse_allocs_lvl lvl c st s = Ok 0%nat.
Proof. exact zero_alloc_every_level. Qed.
Print Assumptions C16_zero_alloc_every_level.
