(* Properties/C03.v — Encoders and decoders are mutually inverse at every layer.
   Only statements, each closed by [exact] of a lemma proved in Proofs/. *)
From PV Require Import Base.Prelude Base.Slice Model.EncodeBase Model.Encode Model.EncodeCompose Model.EncodeDHCP
     Spec.EncodeRef Spec.EncodeRefDHCP
     Proofs.Encode Proofs.EncodeIP4 Proofs.EncodeEther Proofs.EncodeMisc Proofs.EncodeCompose Proofs.EncodeDHCP
     Proofs.EncodeDNS Proofs.EncodeIP6Frame Proofs.EncodeRound3 Proofs.EncodeReuse Proofs.EncodeReuse2 Proofs.EncodePure.
Open Scope N_scope.

(* EncodeEther: for every buffer of capacity >= 14 (any length, any contents), every
   6-byte MAC pair and every EtherType, the 14 bytes written decode - through the
   library's getters and through the reference decoder - to the supplied values;
   nothing beyond byte 14 is touched. *)
Theorem C03_ether_rt : forall b ht src dst,
  (14 <= cap b)%nat -> length src = 6%nat -> length dst = 6%nat ->
  bytes_ok src -> bytes_ok dst -> ht < 65536 ->
  exists e, encode_ether b ht src dst = Ok e /\
    len e = 14%nat /\ cap e = cap b /\ skipn 14 (arr e) = skipn 14 (arr b) /\
    view e = dst ++ src ++ [hi8 ht; lo8 ht] /\ bytes_ok (view e) /\
    ether_is_valid e = true /\ ether_dst e = Ok dst /\ ether_src e = Ok src /\ ether_type e = Ok ht /\
    ref_ether (view e) = Some {| re_dst := dst; re_src := src; re_type := ht; re_payload := [] |}.
Proof. exact ether_rt. Qed.
Print Assumptions C03_ether_rt.

Example C03_ether_rt_ex :
  exists e, encode_ether (mkSlice (repeat 7 20) 3) 2048 [0;17;34;51;68;85] [102;85;68;51;34;17] = Ok e /\
            view e = [102;85;68;51;34;17;0;17;34;51;68;85;8;0].
Proof. exact ether_rt_ex. Qed.
Print Assumptions C03_ether_rt_ex.

(* AppendPayload returns ErrPayloadTooBig exactly when header + payload exceed the capacity of the view
   (since repo commits 846ede1 / 02073d4 / 952afb8 measured from the header, whatever the view's length).  In the model an error result is produced before any write (an [Err] carries
   no buffer); that the real buffer is untouched is observed by the correspondence (the
   changed window of the whole capacity is part of every observation). *)
Theorem C03_ip4_append_too_big : forall p b proto,
  (cap p < 20 + length b)%nat <-> ip4_append p b proto = Err EPayloadTooBig.
Proof. exact ip4_append_too_big. Qed.
Print Assumptions C03_ip4_append_too_big.

Theorem C03_udp_append_too_big : forall p b,
  (cap p < 8 + length b)%nat <-> udp_append p b = Err EPayloadTooBig.
Proof. exact udp_append_too_big. Qed.
Print Assumptions C03_udp_append_too_big.

Theorem C03_ip6_append_too_big : forall p b nh,
  (cap p < 40 + length b)%nat <-> ip6_append p b false nh = Err EPayloadTooBig.
Proof. exact ip6_append_too_big. Qed.
Print Assumptions C03_ip6_append_too_big.

Theorem C03_ether_append_too_big : forall p payload pcap,
  (cap p < length payload + 14)%nat <-> ether_append p payload pcap = Err EPayloadTooBig.
Proof. exact ether_append_too_big. Qed.
Print Assumptions C03_ether_append_too_big.

Example C03_append_too_big_ex :
  ip4_append (mkSlice (repeat 0 24) 20) [1;2;3;4;5] 17 = Err EPayloadTooBig /\
  exists r, ip4_append (mkSlice (69 :: repeat 0 23) 20) [1;2;3;4] 17 = Ok r /\ len r = 24%nat.
Proof. exact ip4_append_too_big_ex. Qed.
Print Assumptions C03_append_too_big_ex.

(* ---------------------------------------------------------------- *)
(* IPv4.  EncodeIP4 then AppendPayload: for every buffer (length >= 10 for the index writes
   of EncodeIP4, capacity >= 20 + payload), ttl, protocol, IPv4 addresses and payload below the
   uint16 range, the packet decodes through IsValid + getters AND through the RFC 791 reference
   decoder (which also checks the header checksum) to the supplied values; length fields are
   consistent (TotalLen = 20 + |payload| = len) and nothing beyond the packet is touched. *)
Theorem C03_ip4_rt : forall p ttl src dst b proto,
  (10 <= len p)%nat -> (20 + length b <= cap p)%nat ->
  is4 src = true -> is4 dst = true -> bytes_ok src -> bytes_ok dst -> bytes_ok b ->
  ttl < 256 -> proto < 256 -> 20 + N.of_nat (length b) < 65536 ->
  exists ip r,
    encode_ip4 p ttl src dst = Ok ip /\ len ip = 20%nat /\
    ip4_append ip b proto = Ok r /\
    len r = (20 + length b)%nat /\ cap r = cap p /\
    skipn (20 + length b) (arr r) = skipn (20 + length b) (arr p) /\
    bytes_ok (view r) /\
    ip4_decode_lib r = Ok (ip4_expected_view ttl proto src dst b) /\
    ref_ip4 (view r) = Some (ip4_expected_ref ttl proto src dst b).
Proof. exact ip4_append_rt. Qed.
Print Assumptions C03_ip4_rt.

(* EncodeIP4 then SetPayload (which uses only len(b)): the payload is the bytes already in
   place after the header, as in the library's own composition. *)
Theorem C03_ip4_set_payload_rt : forall p ttl src dst b proto,
  (10 <= len p)%nat -> (20 + length b <= cap p)%nat ->
  is4 src = true -> is4 dst = true -> bytes_ok src -> bytes_ok dst -> bytes_ok b ->
  ttl < 256 -> proto < 256 -> 20 + N.of_nat (length b) < 65536 ->
  firstn (length b) (skipn 20 (arr p)) = b ->
  exists ip r,
    encode_ip4 p ttl src dst = Ok ip /\ len ip = 20%nat /\
    ip4_set_payload ip (length b) proto = Ok r /\
    len r = (20 + length b)%nat /\ cap r = cap p /\
    skipn 20 (arr r) = skipn 20 (arr p) /\
    bytes_ok (view r) /\
    ip4_decode_lib r = Ok (ip4_expected_view ttl proto src dst b) /\
    ref_ip4 (view r) = Some (ip4_expected_ref ttl proto src dst b).
Proof. exact ip4_set_payload_rt. Qed.
Print Assumptions C03_ip4_set_payload_rt.

(* The bound 20 + |b| < 65536 is needed: totalLen is a uint16 (outside the property's domain
   of EthMaxSize buffers; documented, not a finding). *)
Theorem C03_ip4_set_payload_wrap_refuted :
  exists (p : slice) (b : bytes), (20 + length b <= cap p)%nat /\ (10 <= len p)%nat /\
    (ip <- encode_ip4 p 64 [10;0;0;1] [10;0;0;2] ;;
     r <- ip4_set_payload ip (length b) 17 ;; Ok (len r))%res = Ok 0%nat.
Proof. exact ip4_set_payload_wrap_refuted. Qed.
Print Assumptions C03_ip4_set_payload_wrap_refuted.

(* ---------------------------------------------------------------- *)
(* UDP *)
Theorem C03_udp_rt : forall p sp dp b,
  (8 + length b <= cap p)%nat -> sp < 65536 -> dp < 65536 -> bytes_ok b -> 8 + N.of_nat (length b) < 65536 ->
  exists u r,
    encode_udp p sp dp = Ok u /\ len u = 8%nat /\
    udp_append u b = Ok r /\
    len r = (8 + length b)%nat /\ cap r = cap p /\
    skipn (8 + length b) (arr r) = skipn (8 + length b) (arr p) /\
    bytes_ok (view r) /\
    udp_decode_lib r = Ok (udp_expected_view sp dp b) /\
    ref_udp (view r) = Some (udp_expected_ref sp dp b).
Proof. exact udp_append_rt. Qed.
Print Assumptions C03_udp_rt.

Theorem C03_udp_set_payload_rt : forall p sp dp b,
  (8 + length b <= cap p)%nat -> sp < 65536 -> dp < 65536 -> bytes_ok b -> 8 + N.of_nat (length b) < 65536 ->
  firstn (length b) (skipn 8 (arr p)) = b ->
  exists u r,
    encode_udp p sp dp = Ok u /\ len u = 8%nat /\
    udp_set_payload u (length b) = Ok r /\
    len r = (8 + length b)%nat /\ cap r = cap p /\
    skipn 8 (arr r) = skipn 8 (arr p) /\
    bytes_ok (view r) /\
    udp_decode_lib r = Ok (udp_expected_view sp dp b) /\
    ref_udp (view r) = Some (udp_expected_ref sp dp b).
Proof. exact udp_set_payload_rt. Qed.
Print Assumptions C03_udp_set_payload_rt.

(* ---------------------------------------------------------------- *)
(* Ethernet payload.  Domain: EtherType is not a VLAN tag type (HeaderLen = 14: EncodeEther
   builds an untagged Ethernet II header).  SetPayload uses only len(payload): the payload is
   the bytes in place after the header.  Documented convention of Ether.Payload(): for an
   empty payload it returns the spare capacity, hence the premise pl <> [] on that getter. *)
Theorem C03_ether_set_payload_rt : forall b ht src dst pl,
  (14 + length pl <= cap b)%nat -> length src = 6%nat -> length dst = 6%nat ->
  ht < 65536 -> hlen_of_type ht = 14%nat ->
  firstn (length pl) (skipn 14 (arr b)) = pl ->
  exists e r,
    encode_ether b ht src dst = Ok e /\ ether_set_payload e (length pl) = Ok r /\
    len r = (14 + length pl)%nat /\ cap r = cap b /\ arr r = arr e /\
    ether_is_valid r = true /\ ether_dst r = Ok dst /\ ether_src r = Ok src /\ ether_type r = Ok ht /\
    ether_hlen r = Ok 14%nat /\
    (pl <> [] -> (w <- ether_payload r ;; Ok (view w))%res = Ok pl) /\
    ref_ether (view r) = Some {| re_dst := dst; re_src := src; re_type := ht; re_payload := pl |}.
Proof. exact ether_set_payload_rt. Qed.
Print Assumptions C03_ether_set_payload_rt.

(* AppendPayload pads to the 60-byte minimum frame with zeros (pad46).  The former panic class
   (payload slice with spare capacity, finding ether-append-payload-cap) was repaired by repo
   commit 564095a: the statement now holds for every capacity of the caller's payload slice. *)
Theorem C03_ether_append_rt : forall b ht src dst pl pcap,
  (14 + length pl <= cap b)%nat -> (60 <= cap b)%nat -> length src = 6%nat -> length dst = 6%nat ->
  ht < 65536 -> hlen_of_type ht = 14%nat ->
  exists e r,
    encode_ether b ht src dst = Ok e /\ ether_append e pl pcap = Ok r /\
    len r = Nat.max 60 (14 + length pl) /\ cap r = cap b /\
    ether_is_valid r = true /\ ether_dst r = Ok dst /\ ether_src r = Ok src /\ ether_type r = Ok ht /\
    ether_hlen r = Ok 14%nat /\
    (w <- ether_payload r ;; Ok (view w))%res = Ok (pad46 pl) /\
    ref_ether (view r) = Some {| re_dst := dst; re_src := src; re_type := ht; re_payload := pad46 pl |}.
Proof. exact ether_append_rt. Qed.
Print Assumptions C03_ether_append_rt.

Example C03_ether_append_spare_cap_ex :
  exists r, (e <- encode_ether (mkSlice (repeat 7 64) 64) 2048 [2;0;0;0;0;1] [2;0;0;0;0;2] ;;
             ether_append e [1;2;3] 4096)%res = Ok r /\ len r = 60%nat.
Proof. exact ether_append_spare_cap_ex. Qed.
Print Assumptions C03_ether_append_spare_cap_ex.

(* ---------------------------------------------------------------- *)
(* ARP *)
Theorem C03_arp_rt : forall b op smac sip dmac dip,
  (28 <= cap b)%nat -> length smac = 6%nat -> length dmac = 6%nat -> is4 sip = true -> is4 dip = true ->
  bytes_ok smac -> bytes_ok sip -> bytes_ok dmac -> bytes_ok dip -> op < 65536 ->
  exists r,
    encode_arp b op smac sip dmac dip = Ok r /\
    len r = 28%nat /\ cap r = cap b /\ skipn 28 (arr r) = skipn 28 (arr b) /\
    view r = arp_bytes op smac sip dmac dip /\ bytes_ok (view r) /\
    arp_decode_lib r = Ok {| av_htype := 1; av_proto := 2048; av_hlen := 6; av_plen := 4; av_op := op;
                             av_smac := smac; av_sip := sip; av_dmac := dmac; av_dip := dip |} /\
    ref_arp (view r) = Some {| ra_op := op; ra_sha := smac; ra_spa := sip; ra_tha := dmac; ra_tpa := dip |}.
Proof. exact arp_rt. Qed.
Print Assumptions C03_arp_rt.

(* ICMP echo (checksum field left zero by the encoder; the send path fills it: C15) *)
Theorem C03_icmpecho_rt : forall b t code id sq data,
  (8 + length data <= cap b)%nat -> t < 256 -> code < 256 -> id < 65536 -> sq < 65536 -> bytes_ok data ->
  exists r,
    encode_icmp_echo b t code id sq data = Ok r /\
    len r = (8 + length data)%nat /\ cap r = cap b /\
    skipn (8 + length data) (arr r) = skipn (8 + length data) (arr b) /\
    view r = echo_bytes t code id sq data /\ bytes_ok (view r) /\
    echo_decode_lib r = Ok {| ev_type := t; ev_code := code; ev_cksum := 0; ev_id := id; ev_seq := sq;
                              ev_data := data |} /\
    ref_echo (view r) = Some {| rc_type := t; rc_code := code; rc_cksum := 0; rc_id := id; rc_seq := sq;
                                rc_data := data |}.
Proof. exact echo_rt. Qed.
Print Assumptions C03_icmpecho_rt.

(* IPv6: addresses are decoded in their 16-byte form (As16: IPv4 addresses appear v4-mapped) *)
Theorem C03_ip6_rt : forall p hop src dst b nh,
  (40 + length b <= cap p)%nat -> bytes_ok src -> bytes_ok dst -> bytes_ok b ->
  nh < 256 -> hop < 256 -> 40 + N.of_nat (length b) < 65536 ->
  exists ip r,
    encode_ip6 p hop src dst = Ok (ip, false) /\ len ip = 40%nat /\
    ip6_append ip b false nh = Ok r /\
    len r = (40 + length b)%nat /\ cap r = cap p /\
    skipn (40 + length b) (arr r) = skipn (40 + length b) (arr p) /\
    bytes_ok (view r) /\
    ip6_decode_lib r = Ok (ip6_expected_view nh hop (as16 src) (as16 dst) b) /\
    ref_ip6 (view r) = Some (ip6_expected_ref nh hop (as16 src) (as16 dst) b).
Proof. exact ip6_append_rt. Qed.
Print Assumptions C03_ip6_rt.

(* NDP neighbour advertisement *)
Theorem C03_na_rt : forall ro so ov tip tmac,
  length tip = 16%nat -> length tmac = 6%nat -> bytes_ok tip -> bytes_ok tmac ->
  exists r,
    na_marshal ro so ov tip tmac = Ok r /\ len r = 32%nat /\ cap r = 32%nat /\
    view r = [136; 0; 0; 0; nd_flags ro so ov; 0; 0; 0] ++ tip ++ [2; 1] ++ tmac /\ bytes_ok (view r) /\
    na_decode_lib r = Ok {| nv_type := 136; nv_code := 0; nv_router := ro; nv_solicited := so; nv_override := ov;
                            nv_target := tip; nv_lla := Some tmac |} /\
    ref_nd (view r) = Some {| rn_type := 136; rn_code := 0; rn_flags := nd_flags ro so ov; rn_target := tip;
                              rn_options := [(2, tmac)] |} /\
    (forall m, ref_nd (view r) = Some m -> ref_na_tlla m = Some tmac).
Proof. exact na_rt. Qed.
Print Assumptions C03_na_rt.

(* NDP neighbour solicitation.  The marshal function wrote option type 2 (finding
   ns-marshal-option-type, DESIGN #11); repaired by repo commit 6b9f9d7, the model follows and the
   full round trip holds: the source link-layer address is read back by SourceLLA() and found as
   option 1 by the RFC 4861 reference decoder. *)
Theorem C03_ns_rt : forall tip slla,
  length tip = 16%nat -> length slla = 6%nat -> bytes_ok tip -> bytes_ok slla ->
  exists r,
    ns_marshal tip slla = Ok r /\ len r = 32%nat /\ cap r = 32%nat /\
    view r = ns_bytes 1 tip slla /\ bytes_ok (view r) /\
    ns_decode_lib r = Ok {| sv_type := 135; sv_code := 0; sv_target := tip; sv_lla := Some slla |} /\
    ref_nd (view r) = Some {| rn_type := 135; rn_code := 0; rn_flags := 0; rn_target := tip;
                              rn_options := [(1, slla)] |} /\
    (forall m, ref_nd (view r) = Some m -> ref_ns_slla m = Some slla).
Proof. exact ns_rt. Qed.
Print Assumptions C03_ns_rt.

(* the defect that was repaired, kept as a statement about the parametrised marshal function *)
Theorem C03_ns_type2_loses_lla :
  exists tip slla r, ns_marshal_ty 2 tip slla = Ok r /\
      (v <- ns_decode_lib r ;; Ok (sv_lla v))%res = Ok None /\
      (match ref_nd (view r) with Some m => ref_ns_slla m | None => None end) = None.
Proof. exact ns_type2_loses_lla. Qed.
Print Assumptions C03_ns_type2_loses_lla.

(* ---------------------------------------------------------------- *)
(* The frame composed the way the library's senders do it (EncodeEther, EncodeIP4 in
   ether.Payload(), EncodeUDP in ip4.Payload(), udp.AppendPayload, ip4.SetPayload,
   ether.SetPayload): bytes, Session.Parse classification by ports, and decoding layer by
   layer through the reference decoders and through the library views; the three length fields
   are consistent (frame = 14 + TotalLen, TotalLen = 20 + UDP length, UDP length = 8 + |data|). *)
Theorem C03_compose_classified : forall b smac dmac ttl sip dip sp dp data,
  (42 + length data <= cap b)%nat -> length smac = 6%nat -> length dmac = 6%nat ->
  is4 sip = true -> is4 dip = true -> 42 + N.of_nat (length data) < 65536 ->
  bytes_ok smac -> bytes_ok dmac -> bytes_ok sip -> bytes_ok dip -> bytes_ok data ->
  ttl < 256 -> sp < 65536 -> dp < 65536 -> N.land (nth 0 smac 0) 1 = 0 ->
  let udpb := udp_hdr sp dp (8 + N.of_nat (length data)) ++ data in
  exists f,
    compose_udp4 b smac dmac ttl sip dip sp dp data = Ok f /\
    len f = (42 + length data)%nat /\ cap f = cap b /\
    skipn (42 + length data) (arr f) = skipn (42 + length data) (arr b) /\
    view f = frame4_bytes smac dmac ttl sip dip sp dp data /\
    parse_class f = Ok (class_of_ports sp dp, false) /\
    (exists ipb,
       ref_ether (view f) = Some {| re_dst := dmac; re_src := smac; re_type := ETH_P_IP; re_payload := ipb |} /\
       length ipb = (20 + length udpb)%nat /\
       ref_ip4 ipb = Some (ip4_expected_ref ttl 17 sip dip udpb) /\
       ref_udp udpb = Some (udp_expected_ref sp dp data)) /\
    (ipv <- ether_payload f ;; ip4_decode_lib ipv)%res = Ok (ip4_expected_view ttl 17 sip dip udpb) /\
    (ipv <- ether_payload f ;; u <- ip4_payload ipv ;; udp_decode_lib u)%res = Ok (udp_expected_view sp dp data).
Proof. exact compose_udp4_rt. Qed.
Print Assumptions C03_compose_classified.

(* class_of_ports is the library's cascade; it names the protocol that was encoded: *)
Theorem C03_class_by_dst_port : forall id ports dstonly sp dp,
  In (id, ports, dstonly) port_table -> In dp ports -> ephemeral sp -> class_of_ports sp dp = id.
Proof. exact class_of_ports_dst. Qed.
Print Assumptions C03_class_by_dst_port.

Theorem C03_class_by_src_port : forall id ports sp dp,
  In (id, ports, false) port_table -> In sp ports -> ephemeral dp -> class_of_ports sp dp = id.
Proof. exact class_of_ports_src. Qed.
Print Assumptions C03_class_by_src_port.

Theorem C03_class_other : forall sp dp, ephemeral sp -> ephemeral dp -> class_of_ports sp dp = PayloadUDP.
Proof. exact class_of_ports_other. Qed.
Print Assumptions C03_class_other.

Example C03_class_ex : class_of_ports 68 67 = PayloadDHCP4 /\ class_of_ports 50000 53 = PayloadDNS /\ ephemeral 50000.
Proof. exact class_of_ports_ex. Qed.
Print Assumptions C03_class_ex.

(* ---------------------------------------------------------------- *)
(* DHCPv4.  For every buffer of capacity >= 300 that holds the options, every opcode / message
   type / chaddr / ciaddr / yiaddr / xid / broadcast flag, every option map with distinct keys
   (codes other than Pad and End, values of at most 255 bytes, encoding plus End within the
   capacity; the 1024-byte scratch limit was removed by repo commit 7c42d76), every requested-parameter order and every iteration order
   [perm] of the options the order does not name:
   the message is header ++ options ++ End ++ zero padding with at least 300 bytes; the options
   are the supplied map plus option 53 = message type, each exactly once; ParseOptions returns
   that map; the RFC 2132 reference decoder finds exactly these options, the End option and
   zero padding; the subnet mask precedes the router option (RFC 2132 3.3; DESIGN #18 repaired
   by repo commit 94e2701).  [dhcp_hdr] is the fixed part as a function of the arguments (and of
   the bytes EncodeDHCP4 documents to keep when chaddr / xid / ciaddr / yiaddr are nil). *)
Theorem C03_dhcp4_rt : forall b opcode mt chaddr ci yi xid bc options order perm,
  (300 <= cap b)%nat ->
  match chaddr with Some m => length m = 6%nat | None => True end ->
  match xid with Some x => length x = 4%nat | None => True end ->
  let o' := set_opt 53 [mt] options in
  nodup options -> opts_ok o' -> (241 + osize o' <= cap b)%nat ->
  let em := emission o' order perm in
  let L := Nat.max (241 + osize o') 300 in
  let pad := repeat 0 (300 - (241 + osize em)) in
  exists p,
    encode_dhcp4 b opcode mt chaddr ci yi xid bc options order perm = Ok p /\
    (300 <= len p)%nat /\ len p = L /\ cap p = cap b /\ skipn L (arr p) = skipn L (arr b) /\
    view p = dhcp_hdr (arr b) opcode chaddr ci yi xid bc ++ enc em ++ 255 :: pad /\
    dhcp_options p = enc em ++ 255 :: pad /\
    nodup em /\ (forall k, lookup_opt k em = lookup_opt k o') /\
    (forall k, lookup_opt k (dhcp_parse_options p) = lookup_opt k o') /\
    ref_dhcp_opts (S (length (dhcp_options p))) (dhcp_options p) = Some em /\
    after_end (S (length (dhcp_options p))) (dhcp_options p) = Some pad /\
    mask_before_router em = true.
Proof. exact dhcp4_rt. Qed.
Print Assumptions C03_dhcp4_rt.

Example C03_dhcp4_rt_ex :
  let b := mkSlice (repeat 7 400) 0 in
  let options := [(1, [255;255;255;0]); (3, [192;168;0;1]); (6, [8;8;8;8]); (12, [104;105])] in
  exists p, encode_dhcp4 b 2 5 None [] [192;168;0;9] None false options [6; 3; 1] [12; 53] = Ok p /\
            len p = 300%nat /\
            map fst (emission (set_opt 53 [5] options) [6; 3; 1] [12; 53]) = [6; 1; 3; 12; 53].
Proof. exact dhcp4_rt_ex. Qed.
Print Assumptions C03_dhcp4_rt_ex.

(* the option area alone, for any bytes [z] after the End option *)
Theorem C03_dhcp4_options_rt : forall o order perm z,
  nodup o -> opts_ok o ->
  let em := emission o order perm in
  let area := enc em ++ 255 :: z in
  append_options_bytes o order perm = Ok (enc em) /\
  nodup em /\ osize em = osize o /\ (forall k, lookup_opt k em = lookup_opt k o) /\
  (forall k, lookup_opt k (parse_options (S (length area)) area []) = lookup_opt k o) /\
  ref_dhcp_opts (S (length area)) area = Some em /\ after_end (S (length area)) area = Some z.
Proof. exact dhcp_options_rt. Qed.
Print Assumptions C03_dhcp4_options_rt.

(* ---------------------------------------------------------------- *)
(* DNS query.  For every transaction id, flags, question type and every name given as a list of
   labels of 1..63 bytes (wire form at most 255 bytes; the empty list is the root name): header
   getters and DecodeQuestion return the supplied values, and the RFC 1035 reference decoder
   finds exactly this question with nothing trailing.  (The root name was rejected by
   DecodeQuestion - finding dnsq-root-name - until repo commit 8b21b8e of the DNS cluster.) *)
Theorem C03_dnsquery_rt : forall id fl ls qt,
  id < 65536 -> fl < 65536 -> qt < 65536 -> labels_ok ls -> Forall bytes_ok ls ->
  (length (wire_of_labels ls) <= 255)%nat ->
  let name := wire_of_labels ls in
  exists p,
    encode_dns_query id fl name qt = Ok p /\
    len p = (16 + length name)%nat /\ cap p = 512%nat /\
    view p = dns_query_bytes id fl name qt /\ bytes_ok (view p) /\
    (* the library's own decoder: for names without a '.' inside a label (since repo commit c8663df by DNS
       decodeName rejects such a label; the RFC reference decoder below reads every name back) *)
    (no_dots ls ->
     dns_decode_lib p = Ok {| dv_id := id; dv_flags := fl; dv_qd := 1; dv_an := 0; dv_ns := 0; dv_ar := 0;
                              dv_question := {| q_labels := ls; q_type := qt; q_class := 1;
                                                q_end := (16 + length name)%nat |} |}) /\
    ref_dns_query (view p) =
      Some {| rq_id := id; rq_flags := fl; rq_qd := 1; rq_an := 0; rq_ns := 0; rq_ar := 0;
              rq_labels := ls; rq_type := qt; rq_class := 1; rq_trailing := [] |}.
Proof. exact dnsquery_rt. Qed.
Print Assumptions C03_dnsquery_rt.

(* documented boundary: a label with a '.' is encoded, read back by the reference decoder, refused by the library *)
Example C03_dnsquery_dot_label :
  let ls := [[97;46;98]; [99]] in
  exists p, encode_dns_query 1 0 (wire_of_labels ls) 1 = Ok p /\
            option_map rq_labels (ref_dns_query (view p)) = Some ls /\ dns_decode_lib p = Err EParseFrame.
Proof. exact dnsquery_dot_label. Qed.
Print Assumptions C03_dnsquery_dot_label.

Example C03_dnsquery_rt_ex :
  let ls := [[119;119;119]; [101;120;97;109;112;108;101]; [99;111;109]] in
  labels_ok ls /\ (length (wire_of_labels ls) <= 255)%nat /\
  exists p, encode_dns_query 4660 256 (wire_of_labels ls) 1 = Ok p /\ len p = 33%nat.
Proof. exact dnsquery_rt_ex. Qed.
Print Assumptions C03_dnsquery_rt_ex.

Example C03_dnsquery_root_ex :
  exists p, encode_dns_query 1 256 (wire_of_labels []) 1 = Ok p /\ len p = 17%nat /\
            (q <- dns_decode_question p ;; Ok (q_labels q, q_type q, q_class q, q_end q))%res = Ok ([], 1, 1, 17%nat).
Proof. exact dnsquery_root_ex. Qed.
Print Assumptions C03_dnsquery_root_ex.

(* Bytes beyond the inner length fields.  A small IPv4/UDP packet is built in its own buffer and
   finished with Ether.AppendPayload, which pads the frame to the 60-byte minimum: the Ethernet
   payload is the packet followed by zeros.  Every inner layer is reached through the outer
   view's Payload() getter (Ether.Payload -> IP4.Payload = p[IHL:TotalLen] -> UDP.Payload) and
   yields exactly the supplied values; len of the UDP view = UDP length = 8 + |data|; the
   reference decoders stop at TotalLen as well; Session.Parse classifies the padded frame. *)
Theorem C03_padded_frame_rt : forall b smac dmac ttl sip dip sp dp data,

  (60 <= cap b)%nat -> (42 + length data <= cap b)%nat -> length smac = 6%nat -> length dmac = 6%nat ->
  is4 sip = true -> is4 dip = true -> 42 + N.of_nat (length data) < 65536 ->
  bytes_ok smac -> bytes_ok dmac -> bytes_ok sip -> bytes_ok dip -> bytes_ok data ->
  ttl < 256 -> sp < 65536 -> dp < 65536 -> N.land (nth 0 smac 0) 1 = 0 ->
  let udpb := udp_hdr sp dp (8 + N.of_nat (length data)) ++ data in
  let P := packet4_bytes ttl 17 sip dip udpb in
  exists f,
    ether_wrap4 b smac dmac (packet_udp4 ttl sip dip sp dp data) = Ok f /\
    len f = Nat.max 60 (42 + length data) /\ cap f = cap b /\
    view f = ether_hdr dmac smac ETH_P_IP ++ pad46 P /\
    parse_class f = Ok (class_of_ports sp dp, false) /\
    (* reference decoders: the Ethernet payload is the packet plus zero padding; the IPv4
       decoder stops at TotalLen; UDP length = 8 + |data| *)
    ref_ether (view f) = Some {| re_dst := dmac; re_src := smac; re_type := ETH_P_IP; re_payload := pad46 P |} /\
    ref_ip4 (pad46 P) = Some (ip4_expected_ref ttl 17 sip dip udpb) /\
    ref_udp udpb = Some (udp_expected_ref sp dp data) /\
    (* library views, each obtained from the outer one by its Payload() getter *)
    (ipv <- ether_payload f ;; Ok (len ipv))%res = Ok (Nat.max 46 (28 + length data)) /\
    (ipv <- ether_payload f ;; ip4_decode_lib ipv)%res = Ok (ip4_expected_view ttl 17 sip dip udpb) /\
    (ipv <- ether_payload f ;; u <- ip4_payload ipv ;; Ok (len u))%res = Ok (8 + length data)%nat /\
    (ipv <- ether_payload f ;; u <- ip4_payload ipv ;; udp_decode_lib u)%res = Ok (udp_expected_view sp dp data).
Proof. exact pad4u_rt. Qed.
Print Assumptions C03_padded_frame_rt.

(* IPv6 SetPayload (payload in place after the header) *)
Theorem C03_ip6_set_payload_rt : forall p hop src dst b nh,

  (40 + length b <= cap p)%nat -> bytes_ok src -> bytes_ok dst -> bytes_ok b ->
  nh < 256 -> hop < 256 -> 40 + N.of_nat (length b) < 65536 ->
  firstn (length b) (skipn 40 (arr p)) = b ->
  exists ip r,
    encode_ip6 p hop src dst = Ok (ip, false) /\ len ip = 40%nat /\
    ip6_set_payload ip (length b) nh = Ok r /\
    len r = (40 + length b)%nat /\ cap r = cap p /\ skipn 40 (arr r) = skipn 40 (arr p) /\
    bytes_ok (view r) /\
    ip6_decode_lib r = Ok (ip6_expected_view nh hop (as16 src) (as16 dst) b) /\
    ref_ip6 (view r) = Some (ip6_expected_ref nh hop (as16 src) (as16 dst) b).
Proof. exact ip6_set_payload_rt. Qed.
Print Assumptions C03_ip6_set_payload_rt.

(* the composed Ether/IPv6/UDP frame (handlers/dns_naming/mdns.go): as C03_compose_classified *)
Theorem C03_compose6_classified : forall b smac dmac hop sip dip sp dp data,

  (62 + length data <= cap b)%nat -> length smac = 6%nat -> length dmac = 6%nat ->
  62 + N.of_nat (length data) < 65536 ->
  bytes_ok smac -> bytes_ok dmac -> bytes_ok sip -> bytes_ok dip -> bytes_ok data ->
  hop < 256 -> sp < 65536 -> dp < 65536 -> N.land (nth 0 smac 0) 1 = 0 ->
  let udpb := udp_hdr sp dp (8 + N.of_nat (length data)) ++ data in
  exists f,
    compose_udp6 b smac dmac hop sip dip sp dp data = Ok f /\
    len f = (62 + length data)%nat /\ cap f = cap b /\
    skipn (62 + length data) (arr f) = skipn (62 + length data) (arr b) /\
    view f = frame6_bytes smac dmac hop (as16 sip) (as16 dip) sp dp data /\
    parse_class f = Ok (class_of_ports sp dp, false) /\
    (exists ipb,
       ref_ether (view f) = Some {| re_dst := dmac; re_src := smac; re_type := ETH_P_IPV6; re_payload := ipb |} /\
       length ipb = (40 + length udpb)%nat /\
       ref_ip6 ipb = Some (ip6_expected_ref 17 hop (as16 sip) (as16 dip) udpb) /\
       ref_udp udpb = Some (udp_expected_ref sp dp data)) /\
    (ipv <- ether_payload f ;; ip6_decode_lib ipv)%res = Ok (ip6_expected_view 17 hop (as16 sip) (as16 dip) udpb) /\
    (ipv <- ether_payload f ;; u <- ip6_payload ipv ;; udp_decode_lib u)%res = Ok (udp_expected_view sp dp data).
Proof. exact compose_udp6_rt. Qed.
Print Assumptions C03_compose6_classified.

(* DHCPv4 fixed fields: the RFC 2131 reference decoder's record of the encoded message and the
   library getters, for the same domain as C03_dhcp4_rt.  xid / chaddr = nil and a non-IPv4
   ciaddr / yiaddr keep the bytes the buffer held (dhcp_x4 / dhcp_ch6 / dhcp_c4). *)
Theorem C03_dhcp4_fixed_rt : forall b opcode mt chaddr ci yi xid bc options order perm,

  (300 <= cap b)%nat ->
  match chaddr with Some m => length m = 6%nat | None => True end ->
  match xid with Some x => length x = 4%nat | None => True end ->
  let o' := set_opt 53 [mt] options in
  nodup options -> opts_ok o' -> (241 + osize o' <= cap b)%nat ->
  let em := emission o' order perm in
  let old := arr b in
  exists p,
    encode_dhcp4 b opcode mt chaddr ci yi xid bc options order perm = Ok p /\
    ref_dhcp (view p) =
      Some {| rd_op := opcode; rd_htype := 1; rd_hlen := 6; rd_hops := 0; rd_xid := dhcp_x4 old xid; rd_secs := 0;
              rd_flags := if bc then 32768 else 0;
              rd_ciaddr := dhcp_c4 old ci 12; rd_yiaddr := dhcp_c4 old yi 16;
              rd_siaddr := [0;0;0;0]; rd_giaddr := [0;0;0;0];
              rd_chaddr := dhcp_ch6 old chaddr ++ repeat 0 10; rd_sname := repeat 0 64; rd_file := repeat 0 128;
              rd_options := em; rd_pad := repeat 0 (300 - (241 + osize em)) |} /\
    dhcp_opcode p = Ok opcode /\ dhcp_htype p = Ok 1 /\ dhcp_hlen p = Ok 6 /\ dhcp_hops p = Ok 0 /\
    dhcp_xid p = Ok (dhcp_x4 old xid) /\ dhcp_secs p = Ok 0 /\ dhcp_flags p = Ok (if bc then 32768 else 0) /\
    dhcp_ciaddr p = Ok (dhcp_c4 old ci 12) /\ dhcp_yiaddr p = Ok (dhcp_c4 old yi 16) /\
    dhcp_siaddr p = Ok [0;0;0;0] /\ dhcp_giaddr p = Ok [0;0;0;0] /\
    dhcp_chaddr p = Ok (dhcp_ch6 old chaddr) /\ dhcp_cookie p = Ok COOKIE.
Proof. exact dhcp4_fixed_rt. Qed.
Print Assumptions C03_dhcp4_fixed_rt.

(* the IPv4/ICMP-echo packet padded by Ether.AppendPayload: as C03_padded_frame_rt, with EchoData() *)
Theorem C03_padded_echo_frame_rt : forall b smac dmac ttl sip dip t code id sq data,

  (60 <= cap b)%nat -> (42 + length data <= cap b)%nat -> length smac = 6%nat -> length dmac = 6%nat ->
  is4 sip = true -> is4 dip = true -> 42 + N.of_nat (length data) < 65536 ->
  bytes_ok smac -> bytes_ok dmac -> bytes_ok sip -> bytes_ok dip -> bytes_ok data ->
  ttl < 256 -> t < 256 -> code < 256 -> id < 65536 -> sq < 65536 -> N.land (nth 0 smac 0) 1 = 0 ->
  let eb := echo_bytes t code id sq data in
  let P := packet4_bytes ttl 1 sip dip eb in
  exists f,
    ether_wrap4 b smac dmac (packet_echo4 ttl sip dip t code id sq data) = Ok f /\
    len f = Nat.max 60 (42 + length data) /\ cap f = cap b /\
    view f = ether_hdr dmac smac ETH_P_IP ++ pad46 P /\
    parse_class f = Ok (PayloadICMP4, false) /\
    ref_ether (view f) = Some {| re_dst := dmac; re_src := smac; re_type := ETH_P_IP; re_payload := pad46 P |} /\
    ref_ip4 (pad46 P) = Some (ip4_expected_ref ttl 1 sip dip eb) /\
    ref_echo eb = Some (echo_expected_ref t code id sq data) /\
    (ipv <- ether_payload f ;; Ok (len ipv))%res = Ok (Nat.max 46 (28 + length data)) /\
    (ipv <- ether_payload f ;; ip4_decode_lib ipv)%res = Ok (ip4_expected_view ttl 1 sip dip eb) /\
    (ipv <- ether_payload f ;; u <- ip4_payload ipv ;; Ok (len u))%res = Ok (8 + length data)%nat /\
    (ipv <- ether_payload f ;; u <- ip4_payload ipv ;; echo_decode_lib u)%res = Ok (echo_expected_view t code id sq data).
Proof. exact pad4e_rt. Qed.
Print Assumptions C03_padded_echo_frame_rt.

(* DHCP4.IsValid() of every message EncodeDHCP4 produces (same domain as C03_dhcp4_rt): nil error iff the opcode is BootRequest or BootReply *)
Theorem C03_dhcp4_is_valid : forall b opcode mt chaddr ci yi xid bc options order perm,

  (300 <= cap b)%nat ->
  match chaddr with Some m => length m = 6%nat | None => True end ->
  match xid with Some x => length x = 4%nat | None => True end ->
  let o' := set_opt 53 [mt] options in
  nodup options -> opts_ok o' -> (241 + osize o' <= cap b)%nat ->
  exists p,
    encode_dhcp4 b opcode mt chaddr ci yi xid bc options order perm = Ok p /\
    dhcp_is_valid p = Ok ((opcode =? 1) || (opcode =? 2)).
Proof. exact dhcp4_is_valid. Qed.
Print Assumptions C03_dhcp4_is_valid.

(* AppendPayload with the buffer as part of the result: ErrPayloadTooBig exactly when the payload exceeds the remaining capacity, and then the storage is returned unchanged *)
Theorem C03_ip4_append_unchanged : forall p b proto,

  fst (ip4_append_st p b proto) = ip4_append p b proto /\
  ((cap p < 20 + length b)%nat <-> ip4_append_st p b proto = (Err EPayloadTooBig, arr p)) /\
  (fst (ip4_append_st p b proto) = Err EPayloadTooBig -> snd (ip4_append_st p b proto) = arr p).
Proof. exact ip4_append_st_too_big. Qed.
Print Assumptions C03_ip4_append_unchanged.


Theorem C03_udp_append_unchanged : forall p b,

  fst (udp_append_st p b) = udp_append p b /\
  ((cap p < 8 + length b)%nat <-> udp_append_st p b = (Err EPayloadTooBig, arr p)) /\
  (fst (udp_append_st p b) = Err EPayloadTooBig -> snd (udp_append_st p b) = arr p).
Proof. exact udp_append_st_too_big. Qed.
Print Assumptions C03_udp_append_unchanged.

(* IPv6 rejects a nil payload as well *)
Theorem C03_ip6_append_unchanged : forall p b isnil nh,

  fst (ip6_append_st p b isnil nh) = ip6_append p b isnil nh /\
  ((isnil = true \/ (cap p < 40 + length b)%nat) <-> ip6_append_st p b isnil nh = (Err EPayloadTooBig, arr p)) /\
  (fst (ip6_append_st p b isnil nh) = Err EPayloadTooBig -> snd (ip6_append_st p b isnil nh) = arr p).
Proof. exact ip6_append_st_too_big. Qed.
Print Assumptions C03_ip6_append_unchanged.


Theorem C03_ether_append_unchanged : forall p payload pcap,

  fst (ether_append_st p payload pcap) = ether_append p payload pcap /\
  ((cap p < length payload + 14)%nat <-> ether_append_st p payload pcap = (Err EPayloadTooBig, arr p)) /\
  (fst (ether_append_st p payload pcap) = Err EPayloadTooBig -> snd (ether_append_st p payload pcap) = arr p).
Proof. exact ether_append_st_too_big. Qed.
Print Assumptions C03_ether_append_unchanged.

Theorem C03_ip6_append_nil_rejected : forall p nh, ip6_append_st p [] true nh = (Err EPayloadTooBig, arr p).
Proof. exact ip6_append_nil_rejected. Qed.
Print Assumptions C03_ip6_append_nil_rejected.

(* ---------------------------------------------------------------- *)
(* Re-use of views.  SetPayload / AppendPayload are ABSOLUTE: for ANY starting view length (the
   header-only view, the view a previous SetPayload/AppendPayload returned, a longer view) and any
   previous length / protocol / checksum octets in the header, the result is header + payload with a
   consistent length field and decodes to the supplied values; calling SetPayload again on the
   returned view equals calling it once.  (IP4.SetPayload always was absolute; IP4.AppendPayload,
   UDP.* and IP6.* were relative to len(p) - finding reuse-relative-length - until repo commits
   846ede1, 02073d4, 952afb8.) *)
Theorem C03_ip4_set_payload_idempotent_shape : forall x2 x3 x9 x10 x11 ttl src dst rest L b proto,
  length src = 4%nat -> length dst = 4%nat -> bytes_ok src -> bytes_ok dst -> bytes_ok b ->
  ttl < 256 -> proto < 256 -> (12 <= L)%nat -> (length b <= length rest)%nat -> 20 + N.of_nat (length b) < 65536 ->
  firstn (length b) rest = b ->
  exists r,
    ip4_set_payload (mkSlice (ip4_hdr_any x2 x3 x9 x10 x11 ttl src dst ++ rest) L) (length b) proto = Ok r /\
    len r = (20 + length b)%nat /\ skipn 20 (arr r) = rest /\
    ip4_decode_lib r = Ok (ip4_expected_view ttl proto src dst b) /\
    ref_ip4 (view r) = Some (ip4_expected_ref ttl proto src dst b) /\
    (* calling it again on the returned view, with any other size that fits, is the same as calling it once *)
    (forall n2 proto2, (n2 <= length rest)%nat -> 20 + N.of_nat n2 < 65536 ->
       ip4_set_payload r n2 proto2 =
       ip4_set_payload (mkSlice (ip4_hdr_any x2 x3 x9 x10 x11 ttl src dst ++ rest) L) n2 proto2).
Proof. exact ip4_set_payload_idempotent_shape. Qed.
Print Assumptions C03_ip4_set_payload_idempotent_shape.

Theorem C03_ip4_append_absolute : forall x2 x3 x9 x10 x11 ttl src dst rest L b proto,
  length src = 4%nat -> length dst = 4%nat -> bytes_ok src -> bytes_ok dst -> bytes_ok b ->
  ttl < 256 -> proto < 256 -> (length b <= length rest)%nat -> 20 + N.of_nat (length b) < 65536 ->
  exists r,
    ip4_append (mkSlice (ip4_hdr_any x2 x3 x9 x10 x11 ttl src dst ++ rest) L) b proto = Ok r /\
    len r = (20 + length b)%nat /\
    ip4_decode_lib r = Ok (ip4_expected_view ttl proto src dst b) /\
    ref_ip4 (view r) = Some (ip4_expected_ref ttl proto src dst b).
Proof. exact ip4_append_absolute. Qed.
Print Assumptions C03_ip4_append_absolute.

Theorem C03_udp_set_payload_idempotent_shape : forall sp dp x4 x5 x6 x7 rest L b,
  sp < 65536 -> dp < 65536 -> bytes_ok b -> (length b <= length rest)%nat -> 8 + N.of_nat (length b) < 65536 ->
  firstn (length b) rest = b ->
  exists r,
    udp_set_payload (mkSlice (udp_hdr_any sp dp x4 x5 x6 x7 ++ rest) L) (length b) = Ok r /\
    len r = (8 + length b)%nat /\ skipn 8 (arr r) = rest /\
    udp_decode_lib r = Ok (udp_expected_view sp dp b) /\
    ref_udp (view r) = Some (udp_expected_ref sp dp b) /\
    (forall n2, (n2 <= length rest)%nat ->
       udp_set_payload r n2 = udp_set_payload (mkSlice (udp_hdr_any sp dp x4 x5 x6 x7 ++ rest) L) n2).
Proof. exact udp_set_payload_idempotent_shape. Qed.
Print Assumptions C03_udp_set_payload_idempotent_shape.

Theorem C03_udp_append_absolute : forall sp dp x4 x5 x6 x7 rest L b,
  sp < 65536 -> dp < 65536 -> bytes_ok b -> (length b <= length rest)%nat -> 8 + N.of_nat (length b) < 65536 ->
  exists r,
    udp_append (mkSlice (udp_hdr_any sp dp x4 x5 x6 x7 ++ rest) L) b = Ok r /\
    len r = (8 + length b)%nat /\
    udp_decode_lib r = Ok (udp_expected_view sp dp b) /\ ref_udp (view r) = Some (udp_expected_ref sp dp b).
Proof. exact udp_append_absolute. Qed.
Print Assumptions C03_udp_append_absolute.

Theorem C03_ip6_set_payload_idempotent_shape : forall x4 x5 x6 hop s d rest L b nh,
  length s = 16%nat -> length d = 16%nat -> bytes_ok s -> bytes_ok d -> bytes_ok b ->
  nh < 256 -> hop < 256 -> (7 <= L)%nat -> (length b <= length rest)%nat -> 40 + N.of_nat (length b) < 65536 ->
  firstn (length b) rest = b ->
  exists r,
    ip6_set_payload (mkSlice (ip6_hdr_any x4 x5 x6 hop s d ++ rest) L) (length b) nh = Ok r /\
    len r = (40 + length b)%nat /\
    ip6_decode_lib r = Ok (ip6_expected_view nh hop s d b) /\
    ref_ip6 (view r) = Some (ip6_expected_ref nh hop s d b) /\
    (forall n2 nh2, (n2 <= length rest)%nat ->
       ip6_set_payload r n2 nh2 = ip6_set_payload (mkSlice (ip6_hdr_any x4 x5 x6 hop s d ++ rest) L) n2 nh2).
Proof. exact ip6_set_payload_idempotent_shape. Qed.
Print Assumptions C03_ip6_set_payload_idempotent_shape.


(* re-use of views, round 7: IP6.AppendPayload on any starting view (a view a previous call returned,
   longer than the header, any previous header contents) is absolute *)
Theorem C03_ip6_append_absolute : forall x4 x5 x6 hop s d rest L b nh,
  length s = 16%nat -> length d = 16%nat -> bytes_ok s -> bytes_ok d -> bytes_ok b ->
  nh < 256 -> hop < 256 -> (length b <= length rest)%nat -> 40 + N.of_nat (length b) < 65536 ->
  exists r,
    ip6_append (mkSlice (ip6_hdr_any x4 x5 x6 hop s d ++ rest) L) b false nh = Ok r /\
    len r = (40 + length b)%nat /\
    ip6_decode_lib r = Ok (ip6_expected_view nh hop s d b) /\
    ref_ip6 (view r) = Some (ip6_expected_ref nh hop s d b).
Proof. exact ip6_append_absolute. Qed.
Print Assumptions C03_ip6_append_absolute.

(* Ether.SetPayload on a view of ANY length L over an encoded header: nothing is written, the result has
   length 14 + n, getters and reference decoder see the header and the n bytes in place, and a second call
   on the returned view equals the same call on the original one *)
Theorem C03_ether_set_payload_idempotent_shape : forall dst src ht X L pl,
  length src = 6%nat -> length dst = 6%nat -> ht < 65536 -> hlen_of_type ht = 14%nat ->
  (length pl <= length X)%nat -> firstn (length pl) X = pl ->
  exists r,
    ether_set_payload (mkSlice (ether_hdr dst src ht ++ X) L) (length pl) = Ok r /\
    len r = (14 + length pl)%nat /\ arr r = ether_hdr dst src ht ++ X /\
    ether_dst r = Ok dst /\ ether_src r = Ok src /\ ether_type r = Ok ht /\
    (pl <> [] -> (w <- ether_payload r ;; Ok (view w))%res = Ok pl) /\
    ref_ether (view r) = Some {| re_dst := dst; re_src := src; re_type := ht; re_payload := pl |} /\
    (forall n2, (n2 <= length X)%nat ->
       ether_set_payload r n2 = ether_set_payload (mkSlice (ether_hdr dst src ht ++ X) L) n2).
Proof. exact ether_set_payload_idempotent_shape. Qed.
Print Assumptions C03_ether_set_payload_idempotent_shape.

(* Ether.AppendPayload on a view of any length L >= 14: the result depends only on the payload *)
Theorem C03_ether_append_absolute : forall dst src ht rest L pl pcap,
  length src = 6%nat -> length dst = 6%nat -> ht < 65536 -> hlen_of_type ht = 14%nat -> (14 <= L)%nat ->
  (length pl <= length rest)%nat -> (46 <= length rest)%nat ->
  exists r,
    ether_append (mkSlice (ether_hdr dst src ht ++ rest) L) pl pcap = Ok r /\
    len r = Nat.max 60 (14 + length pl) /\
    ether_dst r = Ok dst /\ ether_src r = Ok src /\ ether_type r = Ok ht /\
    (w <- ether_payload r ;; Ok (view w))%res = Ok (pad46 pl) /\
    ref_ether (view r) = Some {| re_dst := dst; re_src := src; re_type := ht; re_payload := pad46 pl |}.
Proof. exact ether_append_absolute. Qed.
Print Assumptions C03_ether_append_absolute.

Example C03_ether_append_absolute_ex :
  exists r, ether_append (mkSlice (ether_hdr [2;0;0;0;0;9] [2;0;0;0;0;1] 2048 ++ repeat 9 100) 80) [1;2;3] 3 = Ok r /\
            len r = 60%nat /\ (w <- ether_payload r ;; Ok (view w))%res = Ok (pad46 [1;2;3]).
Proof. exact ether_append_absolute_ex. Qed.
Print Assumptions C03_ether_append_absolute_ex.

Example C03_ip6_append_absolute_ex :
  let s := as16 [254;128;0;0;0;0;0;0;0;0;0;0;0;0;0;1] in
  exists r, ip6_append (mkSlice (ip6_hdr_any 1 2 3 64 s s ++ repeat 9 100) 77) [1;2;3] false 58 = Ok r /\
            len r = 43%nat /\ ref_ip6 (view r) = Some (ip6_expected_ref 58 64 s s [1;2;3]).
Proof. exact ip6_append_absolute_ex. Qed.
Print Assumptions C03_ip6_append_absolute_ex.

(* ENCODERS ARE PURE IN THEIR ARGUMENTS.  An encoder call of the model is a function of its arguments and of the
   destination buffer only ([call]: any function slice -> result * storage; every encoder of Model/Encode*.v is
   one, see call_of / dhcp4_call / udp4_frame_call / ip4_append_call).  For any world of buffers and ANY schedule
   [cs] interleaving the calls of several callers: the content of buffer i at the end and the results of the
   calls on buffer i are those of these calls executed alone, in their order — same arguments + same destination
   => same bytes, independent of any other call.  Tie: harness kinds conc (goroutines encoding at the same time,
   each into its own buffers, must observe the model's = sequential result) and globals (package-level variables
   under the encoders). *)
Theorem C03_encode_deterministic : forall (cs : list call) (w : world) (i : nat),
  (i < length w)%nat ->
  let '(w', rs) := exec w cs in
  let '(a', rs') := alone (nth i w []) (mine i cs) in
  nth i w' [] = a' /\ results_of i rs = rs'.
Proof. exact encode_deterministic. Qed.
Print Assumptions C03_encode_deterministic.

Example C03_encode_deterministic_ex :
  let d := dhcp4_call 0 0 2 5 None [] [192;168;0;9] None false [(1, [255;255;255;0]); (3, [192;168;0;1])] [3; 1] [53] in
  let f := udp4_frame_call 1 0 [2;0;0;0;0;1] [2;0;0;0;0;9] 64 [10;0;0;1] [10;0;0;2] 68 67 [1;2;3] in
  let w := [repeat 7 320; repeat 9 64] in
  fst (exec w [d; f; d]) = fst (exec w [f; d; d]) /\ nth 0 (fst (exec w [d; f])) [] <> repeat 7 320.
Proof. exact encode_deterministic_ex. Qed.
Print Assumptions C03_encode_deterministic_ex.

(* ENCODERS ARE READ-ONLY IN EVERY ARGUMENT EXCEPT THE DESTINATION.  Calls whose slice arguments live in the
   same world of arrays as the destination (sharing arrays, lying directly behind one another, aliasing each
   other): whatever the call reads, it writes the destination array only — every array that is not the
   destination of some call of the schedule is unchanged.  Tie: harness kind ro (every slice-typed argument a
   view with spare capacity into one sentinel-filled array, the other arguments directly behind it; the array is
   compared before / after; found and repaired: DHCP4.AppendOptions appended behind the caller's order slice,
   repo commit b30e8a5). *)
Theorem C03_encode_args_unchanged : forall (cs : list acall) (w : world) (j : nat),
  Forall (fun c => a_dst c <> j) cs -> nth j (aexec w cs) [] = nth j w [].
Proof. exact encode_args_unchanged. Qed.
Print Assumptions C03_encode_args_unchanged.

Example C03_encode_args_unchanged_ex :
  let w := [repeat 7 320; [1; 3; 6]; [9; 8; 7; 6]] in
  let c := dhcp4_acall 0 0 2 5 [192;168;0;9] 1 2 61 in
  nth 1 (aexec w [c]) [] = [1; 3; 6] /\ nth 2 (aexec w [c]) [] = [9; 8; 7; 6] /\ nth 0 (aexec w [c]) [] <> nth 0 w [].
Proof. exact encode_args_unchanged_ex. Qed.
Print Assumptions C03_encode_args_unchanged_ex.

(* EncodeEther with MAC arguments that alias the destination (as found, pinned by kind ethalias): a source MAC
   lying in b[0:6] is read after the destination MAC has been written there *)
Example C03_ether_alias_src_in_header :
  let b := mkSlice [1;2;3;4;5;6; 11;12;13;14;15;16; 0;0; 21;22;23;24;25;26] 0 in
  exists r, encode_ether_aliased b 2048 0 6 14 6 = Ok r /\
            ether_dst r = Ok [21;22;23;24;25;26] /\ ether_src r = Ok [21;22;23;24;25;26].
Proof. exact ether_alias_src_in_header. Qed.
Print Assumptions C03_ether_alias_src_in_header.
