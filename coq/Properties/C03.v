(* Properties/C03.v — Encoders and decoders are mutually inverse at every layer.
   Only statements, each closed by [exact] of a lemma proved in Proofs/. *)
From PV Require Import Base.Prelude Base.Slice Model.EncodeBase Model.Encode Spec.EncodeRef Proofs.Encode.
Open Scope N_scope.

(* EncodeEther: for every buffer of capacity >= 14 (any length, any contents), every
   6-byte MAC pair and every EtherType, the 14 bytes written decode - through the
   library's getters and through the reference decoder - to the supplied values;
   nothing beyond byte 14 is touched. *)
Theorem C03_ether_rt : forall b ht src dst,
  (14 <= cap b)%nat -> length src = 6%nat -> length dst = 6%nat ->
  bytes_ok src -> bytes_ok dst -> ht < 65536 ->
  exists e, encode_ether b ht src dst = Ok e /\
    len e = 14%nat /\ cap e = cap b /\ skipn 14 (arr e) = skipn 14 (arr b) /\
    view e = dst ++ src ++ [hi8 ht; lo8 ht] /\ bytes_ok (view e) /\
    ether_is_valid e = true /\ ether_dst e = Ok dst /\ ether_src e = Ok src /\ ether_type e = Ok ht /\
    ref_ether (view e) = Some {| re_dst := dst; re_src := src; re_type := ht; re_payload := [] |}.
Proof. exact ether_rt. Qed.
Print Assumptions C03_ether_rt.

Example C03_ether_rt_ex :
  exists e, encode_ether (mkSlice (repeat 7 20) 3) 2048 [0;17;34;51;68;85] [102;85;68;51;34;17] = Ok e /\
            view e = [102;85;68;51;34;17;0;17;34;51;68;85;8;0].
Proof. exact ether_rt_ex. Qed.
Print Assumptions C03_ether_rt_ex.

(* AppendPayload returns ErrPayloadTooBig exactly when the payload exceeds the remaining
   capacity.  In the model an error result is produced before any write (an [Err] carries
   no buffer); that the real buffer is untouched is observed by the correspondence (the
   changed window of the whole capacity is part of every observation). *)
Theorem C03_ip4_append_too_big : forall p b proto,
  (cap p - len p < length b)%nat <-> ip4_append p b proto = Err EPayloadTooBig.
Proof. exact ip4_append_too_big. Qed.
Print Assumptions C03_ip4_append_too_big.

Theorem C03_udp_append_too_big : forall p b,
  (cap p - len p < length b)%nat <-> udp_append p b = Err EPayloadTooBig.
Proof. exact udp_append_too_big. Qed.
Print Assumptions C03_udp_append_too_big.

Theorem C03_ip6_append_too_big : forall p b nh,
  (cap p - len p < length b)%nat <-> ip6_append p b false nh = Err EPayloadTooBig.
Proof. exact ip6_append_too_big. Qed.
Print Assumptions C03_ip6_append_too_big.

Theorem C03_ether_append_too_big : forall p payload pcap,
  (cap p < length payload + 14)%nat <-> ether_append p payload pcap = Err EPayloadTooBig.
Proof. exact ether_append_too_big. Qed.
Print Assumptions C03_ether_append_too_big.

Example C03_append_too_big_ex :
  ip4_append (mkSlice (repeat 0 24) 20) [1;2;3;4;5] 17 = Err EPayloadTooBig /\
  exists r, ip4_append (mkSlice (69 :: repeat 0 23) 20) [1;2;3;4] 17 = Ok r /\ len r = 24%nat.
Proof. exact ip4_append_too_big_ex. Qed.
Print Assumptions C03_append_too_big_ex.
