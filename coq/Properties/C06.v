(* Properties/C06.v — Online/offline notifications report every transition exactly once.
   Only statements closed by [exact].  Discipline of the property: Notify directly after each Parse,
   the channel drained after every step (so the capacity hypotheses below hold trivially: an empty
   channel and fewer than 127 addresses per MAC / in the table).

   What is proved about the model (Model/Tables.v), per step of the discipline:
   - repeat traffic from an online, already announced host: no notification, state flags unchanged;
   - a frame from (m,k) that is not m's current online address: after Parse the frame's host is online with
     a notification pending and the frame is marked; Notify then emits the offline notifications of other
     addresses of the same MAC FIRST and exactly ONE notification for k LAST (online flag = tracked flag),
     no address twice;
   - a purge emits exactly one offline notification per host that ages out, nothing else;
   - the same holds through the DHCP path of Notify.  (Before the repair of session.go notify() the
     statement failed when the notified host itself was offline with a notification pending: the host was
     listed as its own "previous IP" and notified twice; former finding c06-duplicate-dhcp-path-offline-offer.)
   History level ([C06_exactly_once]): for every disciplined history from NewSession (units: Parse;Notify /
   purge / name update through any of the five Update*Name methods / DHCPv4Update / SetDHCPv4IPOffer /
   Capture / Release), at every unit and for EVERY address x, the notifications about x
   that the unit emits are exactly the ones the CHANGES of the C04 reference run owe for x ([due],
   Spec/HostTrackingNotif.v: first seen / re-bound / back from offline / registered-but-never-announced /
   learned name changed since the last notification => one notification with the address's next frame; turned
   offline by this sighting or aged out => one offline; an offline address of the MAC to which a notification is
   still owed => carried along before the online notification of the MAC's new IPv4 address; otherwise none),
   and everything
   announced about other addresses precedes the notification about the frame's own address.
   [C06_contents]: every notification emitted by Notify or purge equals toNotification of the tracked host
   and MAC entry in the state the step leaves behind (address, MAC, online flag, router flag, names).
   DHCP: DHCPv4Update is a sighting without frame: what it changes (address created / re-bound / back online,
   learned DHCP name changed, other IPv4 addresses turned offline) is owed and delivered later; a frame without host
   event classified DHCPv4 delivers, through the offer recorded for its source MAC, what is owed to the offered
   address (DHCP path of Notify). The reference remembers the offer exactly as long as the MAC owns an address
   (the link invariant [J] carries: the offer the code would read = the offer the reference remembers; pending
   notification = owed; host names = reference names). *)
From PV Require Import Base.Prelude Model.Tables Model.TablesKnown Spec.HostTrackingInv Spec.HostTracking
  Spec.HostTrackingNotif Proofs.Tables Proofs.TablesRefine Proofs.TablesPred Proofs.TablesNotif Proofs.TablesNotifHist.

Theorem C06_quiet : forall c s f now m k h,
  host_event c f = Some (m, k) -> hlookup k (hosts s) = Some h ->
  h_mac h = m -> h_online h = true -> h_dirty h = false ->
  chan (frame_unit c s f now) = chan s /\
  (forall k', abs (frame_unit c s f now) k' =
     if ip_eqb k k' then Some {| a_mac := m; a_online := true; a_last := now |} else abs s k').
Proof. exact quiet_proof. Qed.
Print Assumptions C06_quiet.

Theorem C06_parse_marks_transition : forall c s f now m k,
  Inv s -> Inv4 s -> host_event c f = Some (m, k) ->
  (match abs s k with Some e => (a_mac e =? m)%N && a_online e | None => false end) = false ->
  let s1 := fst (step c s (Rx f now)) in
  exists fr h, lastf s1 = Some fr /\ fr_host fr = Some k /\ fr_online fr = true /\
               hlookup k (hosts s1) = Some h /\ h_mac h = m /\ h_online h = true /\ h_dirty h = true.
Proof. exact rx_transition_proof. Qed.
Print Assumptions C06_parse_marks_transition.

(* Notify on a frame whose host has a notification pending: offline notifications of the MAC's OTHER addresses
   first, then exactly one notification for the host, carrying its tracked online flag; no address twice.
   (Full since the repair of session.go notify(); before it the statement failed when the notified host
   itself was offline: former finding c06-duplicate-dhcp-path-offline-offer.) *)
Theorem C06_notify_once_and_order : forall c s fr k h,
  Inv s -> lastf s = Some fr -> fr_host fr = Some k ->
  hlookup k (hosts s) = Some h -> h_dirty h = true ->
  (List.length (chan s) + List.length (mac_hosts (h_mac h) s) < chan_cap)%nat ->
  exists offs n,
    chan (fst (step c s Notify)) = chan s ++ offs ++ [n] /\
    nt_ip n = k /\ nt_online n = h_online h /\ nt_mac n = h_mac h /\
    Forall (fun x => nt_online x = false /\ nt_ip x <> k /\ nt_mac x = h_mac h) offs /\
    NoDup (map nt_ip offs).
Proof. exact notify_once_proof. Qed.
Print Assumptions C06_notify_once_and_order.

(* the same through the DHCP path (frame without host, classified DHCPv4, address from the MAC's IP4Offer) *)
Theorem C06_notify_dhcp_path_once : forall c s fr e h,
  Inv s -> lastf s = Some fr -> fr_host fr = None -> fr_dhcp4 fr = true ->
  find_mac (fr_src fr) (macs s) = Some e -> is_valid (m_offer e) = true ->
  hlookup (m_offer e) (hosts s) = Some h -> h_dirty h = true ->
  (List.length (chan s) + List.length (mac_hosts (h_mac h) s) < chan_cap)%nat ->
  exists offs n,
    chan (fst (step c s Notify)) = chan s ++ offs ++ [n] /\
    nt_ip n = m_offer e /\ nt_online n = h_online h /\ nt_mac n = h_mac h /\
    Forall (fun x => nt_online x = false /\ nt_ip x <> m_offer e /\ nt_mac x = h_mac h) offs /\
    NoDup (map nt_ip offs).
Proof. exact notify_dhcp_path_once_proof. Qed.
Print Assumptions C06_notify_dhcp_path_once.

Theorem C06_purge_one_offline_each : forall c now order s,
  Inv s -> (List.length (chan s) + List.length order < chan_cap)%nat ->
  exists ns, chan (fst (step c s (Purge now order))) = chan s ++ ns /\
             map nt_ip ns = map h_ip (filter (aged c now) (snapshot order s)) /\
             Forall (fun n => nt_online n = false) ns.
Proof. exact purge_shape_proof. Qed.
Print Assumptions C06_purge_one_offline_each.

(* regression example: the witness history of the repaired defect (state inside the former class
   [known_C06_dup]) now yields one offline notification carrying the changed name *)
Example C06_duplicate_fixed :
  let s := run std_cfg ex_s0 dup_history in
  known_C06_dup s = true /\ chan s = [] /\
  exists n, chan (fst (step std_cfg s Notify)) = [n] /\ nt_ip n = IP4 3232235521 /\ nt_online n = false /\
            n_mdns (nt_names n) = named 2.
Proof. exact dup_fixed. Qed.
Print Assumptions C06_duplicate_fixed.

(* ---- history level ---- *)

(* one unit of the discipline, from any state linked to a reference state by [J]:
   per-address exactly-once, order clause, and the link is kept *)
Theorem C06_unit_exactly_once : forall c s r u,
  J s r -> unit_ok c s u ->
  (forall x, about x (map pair_of (snd (exec c s u))) = due c r (to_u6 u) x) /\
  order_ok c u (snd (exec c s u)) /\
  J (fst (exec c s u)) (rnext c r (to_u6 u)).
Proof. exact unit_once. Qed.
Print Assumptions C06_unit_exactly_once.

Theorem C06_new_session_linked : forall c now s0,
  own_mac c <> rt_mac c -> new_session c now = Ok s0 -> J s0 (rinit c now).
Proof. exact new_session_J. Qed.
Print Assumptions C06_new_session_linked.

(* all disciplined histories *)
Theorem C06_exactly_once : forall c now s0 us,
  own_mac c <> rt_mac c -> new_session c now = Ok s0 -> units_ok c s0 us -> all_once c s0 (rinit c now) us.
Proof. exact exactly_once_proof. Qed.
Print Assumptions C06_exactly_once.

(* the executable expectation the dispatch compares (kind t6c, incl. DHCP offers and the DHCP path) is [due],
   enumerated over the addresses the reference has tracked *)
Theorem C06_expect_is_due : forall c r u x,
  NoDup (r_dom r) -> (forall k, r_map r k <> None -> In k (r_dom r)) ->
  about x (fst (expect c r u)) = due c r u x.
Proof. exact expect_due. Qed.
Print Assumptions C06_expect_is_due.

(* ---- contents ---- *)
Theorem C06_contents : forall c s fr k h,
  Inv s -> lastf s = Some fr -> fr_host fr = Some k -> hlookup k (hosts s) = Some h -> h_dirty h = true ->
  (List.length (chan s) + List.length (mac_hosts (h_mac h) s) < chan_cap)%nat ->
  exists em, chan (fst (step c s Notify)) = chan s ++ em /\ Forall (tracked (fst (step c s Notify))) em.
Proof. exact contents_notify_proof. Qed.
Print Assumptions C06_contents.

Theorem C06_contents_purge : forall c now order s,
  Inv s -> NoDup order -> (List.length (chan s) + List.length order < chan_cap)%nat ->
  exists ns, chan (fst (step c s (Purge now order))) = chan s ++ ns /\
             Forall (tracked (fst (step c s (Purge now order)))) ns.
Proof. exact contents_purge_proof. Qed.
Print Assumptions C06_contents_purge.

(* the converse of the contents clause: whenever a unit changes the learned names of an address (name update,
   DHCP name through DHCPv4Update, reset by creation / re-binding), a notification about that address is emitted by
   that unit or owed after it; with [C06_unit_exactly_once] (pending in the code = owed in the reference, host names
   = reference names) this is "tracked names changed since the last notification => a notification is pending" *)
Theorem C06_name_change_owed : forall c r u x,
  r_names (rnext c r u) x <> r_names r x ->
  due c r u x <> [] \/ existsb (ip_eqb x) (r_owed (rnext c r u)) = true.
Proof. exact names_change_owed. Qed.
Print Assumptions C06_name_change_owed.

(* ---- the four attributes of a learned name (Name, Model, OS, Manufacturer) ----
   [tracked] in [C06_contents] is equality of the whole notification with toNotification of the tracked state: all four
   attributes of each of the five names.  The model's NameEntry.Merge and the reference's attribute-wise [learn]
   (announced value where not empty, else the previous one; changed iff the result differs) agree: *)
Theorem C06_merge_is_learn : forall old new, merge old new = (learn old new, learns old new).
Proof. exact merge_learn. Qed.
Print Assumptions C06_merge_is_learn.

(* an identical repeat is quiet: after an announcement through any of the five Update*Name methods, the same entry
   again changes nothing in the reference and owes nothing, whatever attributes it carries *)
Theorem C06_name_repeat_quiet : forall c r kd k e,
  let r1 := rnext c r (UName kd k e) in
  name_changes r1 kd k e = false /\ rnext c r1 (UName kd k e) = r1 /\ forall x, due c r1 (UName kd k e) x = [].
Proof. exact name_repeat_quiet. Qed.
Print Assumptions C06_name_repeat_quiet.

(* the same for DHCPv4Update: the repeated update teaches nothing and owes nothing further *)
Theorem C06_update_repeat_quiet : forall c r m k e now now',
  is_valid k && negb (is_unspecified k) = true ->
  let r1 := rnext c r (UUpdate m k e now) in
  upd_changed r1 m k e = false /\ r_owed (rnext c r1 (UUpdate m k e now')) = r_owed r1 /\
  forall x, r_names (rnext c r1 (UUpdate m k e now')) x = r_names r1 x.
Proof. exact update_repeat_quiet. Qed.
Print Assumptions C06_update_repeat_quiet.

(* ---- non-vacuity ---- *)
Example C06_history_admissible : units_ok std_cfg ex_s0 ex_units.
Proof. exact ex_units_ok. Qed.
Print Assumptions C06_history_admissible.

Example C06_history_emissions :
  emissions std_cfg ex_s0 ex_units =
  [ [(IP4 3232235521, true)];                                   (* first seen *)
    [];                                                         (* repeat traffic *)
    [(IP4 3232235521, false); (IP4 3232235522, true)];          (* IP change: offline before online *)
    [(IP4 3232235522, true)];                                   (* re-binding *)
    [];                                                         (* Capture *)
    [];                                                         (* a learned name (Name, OS, Manufacturer at once): nothing yet *)
    [];                                                         (* the same announcement again *)
    [(IP4 3232235522, true)];                                   (* ... delivered ONCE with the address's next frame *)
    [];                                                         (* identical repeat after delivery *)
    [];                                                         (* ... and the next frame is quiet *)
    [];                                                         (* Model learned (OS repeated, Name/Manufacturer not announced) *)
    [(IP4 3232235522, true)];                                   (* ... delivered *)
    [(IP4 3232235522, false); (IP4 3232235531, false)];         (* ageing (the router was never announced) *)
    [(IP6 338288524927261089654018896841347694593, true)];      (* router's link-local address first seen *)
    [(IP4 3232235523, true)];                                   (* a client first seen on .3 *)
    [];                                                         (* SetDHCPv4IPOffer(.3, new name) *)
    [];                                                         (* DHCPv4Update(.3, new name): a notification is owed *)
    [(IP4 3232235523, true)];                                   (* ... delivered once, through the DHCP path *)
    [] ].                                                       (* repeat traffic afterwards is quiet *)
Proof. exact ex_units_emissions. Qed.
Print Assumptions C06_history_emissions.

(* reading, made visible: toNotification takes LLMNR from the host and the other four names from the MAC entry *)
Example C06_names_reading :
  let s := run std_cfg ex_s0
      [ ex_rx4 ex_mac1 3232235521 10; Notify; Drain;
        NameUpdate KLlmnr (IP4 3232235521) (named 7); NameUpdate KMdns (IP4 3232235521) ex_ent;
        ex_rx4 ex_mac1 3232235522 20; Notify ] in
  map (fun n => (nt_ip n, n_llmnr (nt_names n), n_mdns (nt_names n))) (chan s) =
  [ (IP4 3232235521, named 7, ex_ent); (IP4 3232235522, nent0, ex_ent) ].
Proof. exact ex_llmnr_asymmetry. Qed.
Print Assumptions C06_names_reading.

(* ---- whole histories: sequences, hence multisets ----
   For every disciplined history from NewSession and every address, the SEQUENCE of notifications about that address
   emitted over the whole history is exactly the sequence of transitions the reference run owes it: no duplicate, no
   loss, nothing else. [dues] concatenates [due] along the reference run. *)
Theorem C06_history_sequence : forall c now s0 us,
  own_mac c <> rt_mac c -> new_session c now = Ok s0 -> units_ok c s0 us ->
  forall x, about x (concat (emissions c s0 us)) = dues c (rinit c now) us x.
Proof. exact history_sequence_proof. Qed.
Print Assumptions C06_history_sequence.

Theorem C06_history_count : forall c now s0 us,
  own_mac c <> rt_mac c -> new_session c now = Ok s0 -> units_ok c s0 us ->
  forall x b, List.length (filter (fun p => ip_eqb (fst p) x && Bool.eqb (snd p) b) (concat (emissions c s0 us))) =
              List.length (filter (fun p => Bool.eqb (snd p) b) (dues c (rinit c now) us x)).
Proof. exact history_count_proof. Qed.
Print Assumptions C06_history_count.

(* ---- outside the discipline ----
   Notify called twice with the same Frame: the second call emits nothing and changes nothing, in every state (also
   through the DHCP path, also when the channel was full) -- no duplicate. *)
Theorem C06_notify_twice : forall f s, notify f (notify f s) = notify f s.
Proof. exact notify_twice_proof. Qed.
Print Assumptions C06_notify_twice.

Theorem C06_notify_twice_step : forall c s, snd (step c s Notify) = ONone ->
  fst (step c (fst (step c s Notify)) Notify) = fst (step c s Notify) \/ lastf (fst (step c s Notify)) = None.
Proof. exact notify_twice_step. Qed.
Print Assumptions C06_notify_twice_step.

(* The full channel: sendNotification drops (it never blocks under the lock) and makeOffline has already cleared the
   pending mark, so the offline transition is reported by no later step: with an undrained channel "none is lost" is
   FALSE of the faithful model and of the code (kind t6n replays it).  The clause holds under the property's own
   hypothesis that the caller drains the channel (C06_exactly_once: [J] keeps the channel empty between units and a
   unit emits fewer than 128 notifications); not a finding. *)
Theorem C06_full_channel_drops : forall n s, List.length (chan s) = chan_cap -> send n s = s.
Proof. exact full_channel_drops_proof. Qed.
Print Assumptions C06_full_channel_drops.

Theorem C06_none_lost_without_drain_refuted : forall k s h,
  List.length (chan s) = chan_cap -> hlookup k (hosts s) = Some h ->
  let s' := make_offline k s in
  chan s' = chan s /\ exists h', hlookup k (hosts s') = Some h' /\ h_online h' = false /\ h_dirty h' = false.
Proof. exact full_channel_loses_offline_proof. Qed.
Print Assumptions C06_none_lost_without_drain_refuted.
