(* Properties/C06.v — Online/offline notifications report every transition exactly once.
   Only statements closed by [exact].  Discipline of the property: Notify directly after each Parse,
   the channel drained after every step (so the capacity hypotheses below hold trivially: an empty
   channel and fewer than 127 addresses per MAC / in the table).

   What is proved about the model (Model/Tables.v), per step of the discipline:
   - repeat traffic from an online, already announced host: no notification, state flags unchanged;
   - a frame from (m,k) that is not m's current online address: after Parse the frame's host is online with
     a notification pending and the frame is marked; Notify then emits the offline notifications of other
     addresses of the same MAC FIRST and exactly ONE notification for k LAST (online flag = tracked flag),
     no address twice;
   - a purge emits exactly one offline notification per host that ages out, nothing else;
   - the same holds through the DHCP path of Notify.  (Before the repair of session.go notify() the
     statement failed when the notified host itself was offline with a notification pending: the host was
     listed as its own "previous IP" and notified twice; former finding c06-duplicate-dhcp-path-offline-offer.)
   The history-level "exactly once" statement for the pure frame/purge discipline is the executable
   change-based expectation of Spec/HostTrackingNotif.v, compared with the implementation and the model
   on every generated history (spec column of kind t6c); it is not proved as a theorem (partial). *)
From PV Require Import Base.Prelude Model.Tables Model.TablesKnown Spec.HostTrackingInv Spec.HostTracking
  Proofs.Tables Proofs.TablesRefine Proofs.TablesNotif.

Theorem C06_quiet : forall c s f now m k h,
  host_event c f = Some (m, k) -> hlookup k (hosts s) = Some h ->
  h_mac h = m -> h_online h = true -> h_dirty h = false ->
  chan (frame_unit c s f now) = chan s /\
  (forall k', abs (frame_unit c s f now) k' =
     if ip_eqb k k' then Some {| a_mac := m; a_online := true; a_last := now |} else abs s k').
Proof. exact quiet_proof. Qed.
Print Assumptions C06_quiet.

Theorem C06_parse_marks_transition : forall c s f now m k,
  Inv s -> Inv4 s -> host_event c f = Some (m, k) ->
  (match abs s k with Some e => (a_mac e =? m)%N && a_online e | None => false end) = false ->
  let s1 := fst (step c s (Rx f now)) in
  exists fr h, lastf s1 = Some fr /\ fr_host fr = Some k /\ fr_online fr = true /\
               hlookup k (hosts s1) = Some h /\ h_mac h = m /\ h_online h = true /\ h_dirty h = true.
Proof. exact rx_transition_proof. Qed.
Print Assumptions C06_parse_marks_transition.

(* Notify on a frame whose host has a notification pending: offline notifications of the MAC's OTHER addresses
   first, then exactly one notification for the host, carrying its tracked online flag; no address twice.
   (Full since the repair of session.go notify(); before it the statement failed when the notified host
   itself was offline: former finding c06-duplicate-dhcp-path-offline-offer.) *)
Theorem C06_notify_once_and_order : forall c s fr k h,
  Inv s -> lastf s = Some fr -> fr_host fr = Some k ->
  hlookup k (hosts s) = Some h -> h_dirty h = true ->
  (List.length (chan s) + List.length (mac_hosts (h_mac h) s) < chan_cap)%nat ->
  exists offs n,
    chan (fst (step c s Notify)) = chan s ++ offs ++ [n] /\
    nt_ip n = k /\ nt_online n = h_online h /\ nt_mac n = h_mac h /\
    Forall (fun x => nt_online x = false /\ nt_ip x <> k /\ nt_mac x = h_mac h) offs /\
    NoDup (map nt_ip offs).
Proof. exact notify_once_proof. Qed.
Print Assumptions C06_notify_once_and_order.

(* the same through the DHCP path (frame without host, classified DHCPv4, address from the MAC's IP4Offer) *)
Theorem C06_notify_dhcp_path_once : forall c s fr e h,
  Inv s -> lastf s = Some fr -> fr_host fr = None -> fr_dhcp4 fr = true ->
  find_mac (fr_src fr) (macs s) = Some e -> is_valid (m_offer e) = true ->
  hlookup (m_offer e) (hosts s) = Some h -> h_dirty h = true ->
  (List.length (chan s) + List.length (mac_hosts (h_mac h) s) < chan_cap)%nat ->
  exists offs n,
    chan (fst (step c s Notify)) = chan s ++ offs ++ [n] /\
    nt_ip n = m_offer e /\ nt_online n = h_online h /\ nt_mac n = h_mac h /\
    Forall (fun x => nt_online x = false /\ nt_ip x <> m_offer e /\ nt_mac x = h_mac h) offs /\
    NoDup (map nt_ip offs).
Proof. exact notify_dhcp_path_once_proof. Qed.
Print Assumptions C06_notify_dhcp_path_once.

Theorem C06_purge_one_offline_each : forall c now order s,
  Inv s -> (List.length (chan s) + List.length order < chan_cap)%nat ->
  exists ns, chan (fst (step c s (Purge now order))) = chan s ++ ns /\
             map nt_ip ns = map h_ip (filter (aged c now) (snapshot order s)) /\
             Forall (fun n => nt_online n = false) ns.
Proof. exact purge_shape_proof. Qed.
Print Assumptions C06_purge_one_offline_each.

(* regression example: the witness history of the repaired defect (state inside the former class
   [known_C06_dup]) now yields one offline notification carrying the changed name *)
Example C06_duplicate_fixed :
  let s := run std_cfg ex_s0 dup_history in
  known_C06_dup s = true /\ chan s = [] /\
  exists n, chan (fst (step std_cfg s Notify)) = [n] /\ nt_ip n = IP4 3232235521 /\ nt_online n = false /\
            n_mdns (nt_names n) = 2.
Proof. exact dup_fixed. Qed.
Print Assumptions C06_duplicate_fixed.
