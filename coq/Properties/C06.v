(* Properties/C06.v — Online/offline notifications report every transition exactly once.
   Only statements closed by [exact].  Discipline of the property: Notify directly after each Parse,
   the channel drained after every step (so the capacity hypotheses below hold trivially: an empty
   channel and fewer than 127 addresses per MAC / in the table).

   What is proved about the model (Model/Tables.v), per step of the discipline:
   - repeat traffic from an online, already announced host: no notification, state flags unchanged;
   - a frame from (m,k) that is not m's current online address: after Parse the frame's host is online with
     a notification pending and the frame is marked; Notify then emits the offline notifications of other
     addresses of the same MAC FIRST and exactly ONE online notification for k LAST, no address twice;
   - a purge emits exactly one offline notification per host that ages out, nothing else;
   - refuted in one recorded class (finding c06-duplicate-dhcp-path-offline-offer): Notify through the
     DHCP path for an offered IPv4 address whose host is offline with a notification pending emits the
     same notification twice.
   The history-level "exactly once" statement for the pure frame/purge discipline is the executable
   change-based expectation of Spec/HostTrackingNotif.v, compared with the implementation and the model
   on every generated history (spec column of kind t6c); it is not proved as a theorem (partial). *)
From PV Require Import Base.Prelude Model.Tables Model.TablesKnown Spec.HostTrackingInv Spec.HostTracking
  Proofs.Tables Proofs.TablesRefine Proofs.TablesNotif.

Theorem C06_quiet : forall c s f now m k h,
  host_event c f = Some (m, k) -> hlookup k (hosts s) = Some h ->
  h_mac h = m -> h_online h = true -> h_dirty h = false ->
  chan (frame_unit c s f now) = chan s /\
  (forall k', abs (frame_unit c s f now) k' =
     if ip_eqb k k' then Some {| a_mac := m; a_online := true; a_last := now |} else abs s k').
Proof. exact quiet_proof. Qed.
Print Assumptions C06_quiet.

Theorem C06_parse_marks_transition : forall c s f now m k,
  Inv s -> Inv4 s -> host_event c f = Some (m, k) ->
  (match abs s k with Some e => (a_mac e =? m)%N && a_online e | None => false end) = false ->
  let s1 := fst (step c s (Rx f now)) in
  exists fr h, lastf s1 = Some fr /\ fr_host fr = Some k /\ fr_online fr = true /\
               hlookup k (hosts s1) = Some h /\ h_mac h = m /\ h_online h = true /\ h_dirty h = true.
Proof. exact rx_transition_proof. Qed.
Print Assumptions C06_parse_marks_transition.

(* partial: hypothesis [h_online h = true] excludes exactly the recorded class (there the notified host is offline) *)
Theorem C06_online_once_and_order_partial : forall c s fr k h,
  Inv s -> lastf s = Some fr -> fr_host fr = Some k ->
  hlookup k (hosts s) = Some h -> h_online h = true -> h_dirty h = true ->
  (List.length (chan s) + List.length (mac_hosts (h_mac h) s) < chan_cap)%nat ->
  exists offs n,
    chan (fst (step c s Notify)) = chan s ++ offs ++ [n] /\
    nt_ip n = k /\ nt_online n = true /\ nt_mac n = h_mac h /\
    Forall (fun x => nt_online x = false /\ nt_ip x <> k /\ nt_mac x = h_mac h) offs /\
    NoDup (map nt_ip offs).
Proof. exact notify_online_once_proof. Qed.
Print Assumptions C06_online_once_and_order_partial.

Theorem C06_purge_one_offline_each : forall c now order s,
  Inv s -> (List.length (chan s) + List.length order < chan_cap)%nat ->
  exists ns, chan (fst (step c s (Purge now order))) = chan s ++ ns /\
             map nt_ip ns = map h_ip (filter (aged c now) (snapshot order s)) /\
             Forall (fun n => nt_online n = false) ns.
Proof. exact purge_shape_proof. Qed.
Print Assumptions C06_purge_one_offline_each.

(* the recorded defect, with its witness history (replayed on the real code by the harness) *)
Theorem C06_no_duplicate_refuted :
  let s := run std_cfg ex_s0 dup_history in
  known_C06_dup s = true /\ chan s = [] /\
  exists n, chan (fst (step std_cfg s Notify)) = [n; n] /\ nt_ip n = IP4 3232235521 /\ nt_online n = false.
Proof. exact dup_refuted. Qed.
Print Assumptions C06_no_duplicate_refuted.
