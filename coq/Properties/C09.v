(* Properties/C09.v — Session and handlers are safe under the supported
   concurrency pattern: the LOGIC of the locking discipline.
   Only statements, each closed by [exact] of a lemma proved in Proofs/.
   Runtime residue (not a theorem of any Gallina model): Go scheduler and
   memory model, fairness, completeness of the race detector. *)
From PV Require Import Base.Prelude Model.Locks Model.LocksOps Proofs.Locks Proofs.LocksOps.
Open Scope nat_scope.

(* The nesting graph of the transcribed operations (held class -> acquired
   class) is acyclic, [crank] is a topological numbering of it, and every
   template acquires strictly upwards, never a lock class it already holds. *)
Theorem C09_lock_order :
  acyclicb nesting_edges = true /\
  forallb (fun e => crank (fst e) <? crank (snd e)) nesting_edges = true /\
  forallb (fun o => tmpl_ok op (template o)) all_ops = true.
Proof. exact lock_order_table. Qed.
Print Assumptions C09_lock_order.

(* ... hence every operation, instantiated on ANY rows, is lock-ordered. *)
Theorem C09_ops_ordered : forall o rows, ordered op rank [] (body op template o rows).
Proof. exact ops_ordered. Qed.
Print Assumptions C09_ops_ordered.

(* THE GENERAL LEMMA (any operation table, any order [rk]): if every operation
   is lock-ordered then in every state reachable by ANY interleaving from ANY
   state satisfying the invariant, every non-empty set of threads standing at
   an acquire has a member that none of them blocks — no lock-wait cycle.
   [blocks] includes holders in any mode and Go's writer preference. *)
Theorem C09_no_deadlock : forall (op : Type) (template : op -> tmpl op) (rk : lock -> nat),
  (forall o rows, ordered op rk [] (body op template o rows)) ->
  forall s0 s, inv op rk s0 -> reachable op template s0 s ->
  forall D, D <> [] -> (forall i, In i D -> waiting op s i) ->
  exists i, In i D /\ forall j, In j D -> ~ blocks op s j i.
Proof. exact no_deadlock_set. Qed.
Print Assumptions C09_no_deadlock.

(* Instantiated on the transcribed table: any multiset of the modelled
   operations on any rows, any interleaving. *)
Theorem C09_no_deadlock_table : forall (l : list (op * list nat)) s,
  reachable op template (init op template l) s ->
  forall D, D <> [] -> (forall i, In i D -> waiting op s i) ->
  exists i, In i D /\ forall j, In j D -> ~ blocks op s j i.
Proof. exact no_deadlock_table. Qed.
Print Assumptions C09_no_deadlock_table.

(* Progress form: while work remains and no panic occurred, some thread can step. *)
Theorem C09_progress : forall (l : list (op * list nat)) s,
  reachable op template (init op template l) s -> panicked op s = false ->
  (exists i t, nth_error (threads op s) i = Some t /\ rest op t <> []) ->
  exists i, enabled op template s i.
Proof. exact progress_table. Qed.
Print Assumptions C09_progress.

(* Non-vacuity: blocked threads do occur in reachable states. *)
Example C09_blocked_state_reachable :
  reachable op template demo_init demo_state /\
  stuckb op demo_state 0 = true /\ stuckb op demo_state 1 = false.
Proof. exact demo_blocked. Qed.
Print Assumptions C09_blocked_state_reachable.

(* Every send happens with no lock held (a sender blocked on a full, unread
   notification channel cannot take part in a lock-wait cycle). *)
Theorem C09_sends_hold_no_lock :
  forallb (fun o => sends_unlocked op [] (flat op (template o))) all_ops = true.
Proof. exact sends_hold_no_lock. Qed.
Print Assumptions C09_sends_hold_no_lock.
