(* Properties/C09.v — Session and handlers are safe under the supported
   concurrency pattern: the LOGIC of the locking discipline.
   Only statements, each closed by [exact] of a lemma proved in Proofs/.
   Runtime residue (not a theorem of any Gallina model): Go scheduler and
   memory model, fairness, completeness of the race detector. *)
From PV Require Import Base.Prelude Base.Text Model.Locks Model.LocksOps Model.LocksKnown Proofs.Locks Proofs.LocksOps
  Proofs.LocksSound Proofs.LocksTable Proofs.LocksGuards.
Open Scope string_scope.
Open Scope nat_scope.

(* The nesting graph of the transcribed operations (held class -> acquired
   class) is acyclic, [crank] is a topological numbering of it, and every
   template acquires strictly upwards, never a lock class it already holds. *)
Theorem C09_lock_order :
  acyclicb nesting_edges = true /\
  forallb (fun e => crank (fst e) <? crank (snd e)) nesting_edges = true /\
  forallb (fun o => tmpl_ok op (template o)) all_ops = true.
Proof. exact lock_order_table. Qed.
Print Assumptions C09_lock_order.

(* ... hence every operation, instantiated on ANY rows, is lock-ordered. *)
Theorem C09_ops_ordered : forall o rows, ordered op rank [] (body op template o rows).
Proof. exact ops_ordered. Qed.
Print Assumptions C09_ops_ordered.

(* THE GENERAL LEMMA (any operation table, any order [rk]): if every operation
   is lock-ordered then in every state reachable by ANY interleaving from ANY
   state satisfying the invariant, every non-empty set of threads standing at
   an acquire has a member that none of them blocks — no lock-wait cycle.
   [blocks] includes holders in any mode and Go's writer preference. *)
Theorem C09_no_deadlock : forall (op : Type) (template : op -> tmpl op) (rk : lock -> nat),
  (forall o rows, ordered op rk [] (body op template o rows)) ->
  forall s0 s, inv op rk s0 -> reachable op template s0 s ->
  forall D, D <> [] -> (forall i, In i D -> waiting op s i) ->
  exists i, In i D /\ forall j, In j D -> ~ blocks op s j i.
Proof. exact no_deadlock_set. Qed.
Print Assumptions C09_no_deadlock.

(* Instantiated on the transcribed table: any multiset of the modelled
   operations on any rows, any interleaving. *)
Theorem C09_no_deadlock_table : forall (l : list (op * list nat)) s,
  reachable op template (init op template l) s ->
  forall D, D <> [] -> (forall i, In i D -> waiting op s i) ->
  exists i, In i D /\ forall j, In j D -> ~ blocks op s j i.
Proof. exact no_deadlock_table. Qed.
Print Assumptions C09_no_deadlock_table.

(* Progress form: while work remains and no panic occurred, some thread can step. *)
Theorem C09_progress : forall (l : list (op * list nat)) s,
  reachable op template (init op template l) s -> panicked op s = false ->
  (exists i t, nth_error (threads op s) i = Some t /\ rest op t <> []) ->
  exists i, enabled op template s i.
Proof. exact progress_table. Qed.
Print Assumptions C09_progress.

(* Non-vacuity: blocked threads do occur in reachable states. *)
Example C09_blocked_state_reachable :
  reachable op template demo_init demo_state /\
  stuckb op demo_state 0 = true /\ stuckb op demo_state 1 = false.
Proof. exact demo_blocked. Qed.
Print Assumptions C09_blocked_state_reachable.

(* Every BLOCKING channel operation of the table — a send outside a select-with-default, a receive or a
   select without default — is performed with no lock held (a goroutine blocked on a channel can then not
   take part in a lock-wait cycle, nor keep a lock from Close/Capture/Release).  Non-blocking operations
   (the guarded `select { case C <- n: default: }` of sendNotification, close, the wake-up swap) may hold
   locks; the source-derived tie distinguishes the two ("send:" vs "trysend:"). *)
Theorem C09_sends_hold_no_lock :
  forallb (fun o => sends_unlocked op [] (flat op (template o))) all_ops = true.
Proof. exact sends_hold_no_lock. Qed.
Print Assumptions C09_sends_hold_no_lock.

Example C09_blocking_ops_exist :
  existsb (fun o => existsb (fun a => match a with TRecv _ | TExitIfClosed _ => true | _ => false end)
                            (flat op (template o))) all_ops = true.
Proof. exact blocking_ops_exist. Qed.
Print Assumptions C09_blocking_ops_exist.

(* ---------------------------------------------------------------------- *)
(* Lockset.  History: on the unrepaired library the full-strength statement was REFUTED (109 recorded keys:
   LastSeen under the session read lock, Parse's onlineTransition with no lock, print functions without row
   locks, HostList, DHCP offer accessors, unsynchronised `closed` flags, icmp6 closeChan swap, ...).  The
   round-2 repairs of /repo removed every root cause; the model follows the repaired code, the recorded class
   (Model/LocksKnown.v) is EMPTY and the statement holds at full strength. *)

(* no pair of operations allowed to overlap has an unprotected conflicting pair of accesses *)
Theorem C09_lockset_holds : forall a b f, concurrent_allowed a b = true -> racyb a b f = false.
Proof. exact lockset_full. Qed.
Print Assumptions C09_lockset_holds.

Example C09_lockset_nonvacuous :
  concurrent_allowed Capture IsCaptured = true /\ known_C09 (race_key Capture IsCaptured FMacCaptured) = false /\
  existsb (fun a => existsb (fun b => conflictb a b) (taccs op [] (flat op (template IsCaptured))))
          (taccs op [] (flat op (template Capture))) = true.
Proof. exact lockset_partial_nonvacuous. Qed.
Print Assumptions C09_lockset_nonvacuous.

(* THE GENERAL LOCKSET LEMMA (any operation table with lock-ordered, balanced templates): a data race of the
   model — two distinct threads about to access one location, one of them writing — in ANY reachable state
   of ANY multiset of operations on ANY rows is reported by the static analysis of the two templates.
   (Mutual exclusion of the RW-lock semantics + the invariant tying each thread's held set to the static
   walk of its template; not an exploration.) *)
Theorem C09_lockset : forall (op : Type) (template : op -> tmpl op) (rk : lock -> nat),
  (forall o rows, ordered op rk [] (body op template o rows)) ->
  (forall o, tmpl_bal op (template o) = true) ->
  forall (l : list (op * list nat)) s,
  reachable op template (init op template l) s ->
  forall i j ti tj x w1 w2, i <> j ->
    nth_error (threads op s) i = Some ti -> nth_error (threads op s) j = Some tj ->
    LocksSound.next_access op ti = Some (x, w1) -> LocksSound.next_access op tj = Some (x, w2) -> w1 || w2 = true ->
    In (fst x) (racy_fields op (template (top op ti)) (template (top op tj))).
Proof. exact lockset_sound. Qed.
Print Assumptions C09_lockset.

(* DATA-RACE FREEDOM OF THE MODEL.  Start any multiset of operations that respects the pattern (pairwise
   allowed to overlap: one packet-loop operation at a time, one instance of each session goroutine), on any
   rows: in no state of any interleaving are two threads about to make conflicting accesses to one location. *)
Theorem C09_model_data_race_free : forall (l : list (op * list nat)) s,
  tops_ok (init op template l) ->
  reachable op template (init op template l) s ->
  forall i j ti tj x w1 w2, i <> j ->
    nth_error (threads op s) i = Some ti -> nth_error (threads op s) j = Some tj ->
    LocksSound.next_access op ti = Some (x, w1) -> LocksSound.next_access op tj = Some (x, w2) ->
    w1 || w2 = false.
Proof. exact model_data_race_free. Qed.
Print Assumptions C09_model_data_race_free.

Example C09_pattern_start : tops_ok free_init.
Proof. exact pattern_start. Qed.
Print Assumptions C09_pattern_start.

(* ---------------------------------------------------------------------- *)
(* Channels: no send on / close of a closed channel.  History: REFUTED on the unrepaired library (Close vs the
   notification senders, Close vs Close, the handlers' Close, icmp6 RA vs Close).  After the repairs every close
   follows an atomic test-and-set of the channel's `closed` flag under a lock and every send is a non-blocking
   send skipped once that flag is set: the predictions are empty. *)

Theorem C09_no_send_on_closed : forall a b, concurrent_allowed a b = true ->
  predicted_send_on_closed a b = false /\ predicted_double_close a b = false.
Proof. exact no_send_on_closed_full. Qed.
Print Assumptions C09_no_send_on_closed.

Theorem C09_closes_are_once_guarded :
  forallb (fun o => forallb (fun c =>
     negb (closes op (template o) c) || close_after_once op (template o) c (flag_of_chan c)) all_chans_l) all_ops = true
  /\ forallb (fun o => forallb (fun c => negb (sends op (template o) c)) all_chans_l) all_ops = true.
Proof. exact closes_are_once_guarded. Qed.
Print Assumptions C09_closes_are_once_guarded.

(* in the semantics a step panics only on a send to / close of a channel that is already closed *)
Theorem C09_panic_needs_closed_channel : forall s i s',
  step op template s i = Some s' -> panicked op s = false -> panicked op s' = true ->
  exists t c r, nth_error (threads op s) i = Some t /\
    (rest op t = Send op c :: r \/ rest op t = CloseCh op c :: r \/
     exists x, rest op t = SendIfOpen op x c :: r /\ flag_set op s x = false) /\ chan_closed op s c = true.
Proof. exact send_panics_only_if_closed. Qed.
Print Assumptions C09_panic_needs_closed_channel.

(* ---------------------------------------------------------------------- *)
(* Close stops the loops: each background loop of the table (session minute loop, NIC monitor, ARP and ICMPv6
   spoof loops) leaves at its next pass once its component's Close has run, and that Close does close the
   channel / set the flag the loop tests.  (The pass itself completes by C09_progress.) *)

Theorem C09_close_stops_loops : forall o rows closed flag,
  is_loop o = true ->
  (forall c, stop_chan o = Some c -> closed c = true) ->
  (forall f, stop_flag o = Some f -> flag (f, 0) = true) ->
  iter_exits closed flag (body op template o rows) = true.
Proof. exact close_stops_loops. Qed.
Print Assumptions C09_close_stops_loops.

Theorem C09_closers_establish :
  forallb (fun o =>
    match stop_chan o with Some c => closes op (template (closer o)) c | None => true end &&
    match stop_flag o with
    | Some f => existsb (fun a => match a with TSetFlag f' | TOnce f' => field_eqb f f' | _ => false end) (flat op (template (closer o)))
    | None => true
    end) loops = true.
Proof. exact closers_establish. Qed.
Print Assumptions C09_closers_establish.

Example C09_loop_continues_when_open :
  iter_exits (fun _ => false) (fun _ => false) (body op template ArpSpoofLoop [1]) = false.
Proof. exact loop_continues_when_open. Qed.
Print Assumptions C09_loop_continues_when_open.

(* ---------------------------------------------------------------------- *)
(* Table mutations are serialised: every write to the host map, the MAC slice or a HostList happens with the
   session lock held exclusively (so the C05 invariants, re-established by each such section, hold at every
   point where no mutation is in progress, in particular at quiescence). *)

Theorem C09_mutations_serialised :
  forallb (fun o => forallb (fun a =>
     match a with (f, w, h) =>
       if w && structure_field f then existsb (fun x => lockc_eqb (fst x) LSess && is_W (snd x)) h else true
     end) (taccs op [] (flat op (template o)))) all_ops = true.
Proof. exact mutations_serialised. Qed.
Print Assumptions C09_mutations_serialised.

Example C09_mutations_exist :
  existsb (fun a => match a with (f, w, _) => w && structure_field f end)
          (taccs op [] (flat op (template Purge))) = true.
Proof. exact mutations_exist. Qed.
Print Assumptions C09_mutations_exist.

(* ---------------------------------------------------------------------- *)
(* Guard discipline (round 7).  Model/LocksOps.v [field_guard] names the guarding mutex of every tracked field
   (row lock for Host/MACEntry state, session lock for the tables and Captured, both for HostList, the handler
   locks for handler state, "packet loop only" for Statistics / the RA counter, "never written" for dhcp4.mode). *)

(* every access of every template holds the guard of its field: reads the lock (any mode), writes exclusively *)
Theorem C09_guards_static :
  forallb (fun o => forallb (fun a => guard_ok (pktloop o) (fst (fst a)) (snd (fst a)) (snd a))
                            (taccs op [] (flat op (template o)))) all_ops = true.
Proof. exact guards_static. Qed.
Print Assumptions C09_guards_static.

(* ... and in the transition system: in EVERY reachable state of every interleaving on any rows, a thread about
   to access a location holds instantiated locks whose classes satisfy the guard of that field *)
Theorem C09_guarded_in_every_state : forall (l : list (op * list nat)) s,
  reachable op template (init op template l) s ->
  forall i t x w, nth_error (threads op s) i = Some t -> LocksSound.next_access op t = Some (x, w) ->
  exists r hc, held op t = ihl r hc /\ guard_ok (pktloop (top op t)) (fst x) w hc = true.
Proof. exact guarded_in_every_state. Qed.
Print Assumptions C09_guarded_in_every_state.

Example C09_guards_nonvacuous :
  existsb (fun o => existsb (fun a => snd (fst a) && holds_cW LRow (snd a)) (taccs op [] (flat op (template o)))) all_ops = true.
Proof. exact guards_nonvacuous. Qed.
Print Assumptions C09_guards_nonvacuous.

(* ---------------------------------------------------------------------- *)
(* Channels, semantically (inductive invariant over all interleavings): a thread reaches a close only after
   the atomic test-and-set of the channel's flag, so a closed channel has its flag set; every send of the table
   is a guarded non-blocking send testing that flag; hence no send ever hits a closed channel. *)

Theorem C09_closed_channel_has_flag : forall (l : list (op * list nat)) s c,
  reachable op template (init op template l) s -> chan_closed op s c = true -> flag_set op s (fl c) = true.
Proof. exact closed_channel_has_flag. Qed.
Print Assumptions C09_closed_channel_has_flag.

Theorem C09_guarded_send_never_panics : forall (l : list (op * list nat)) s i t c r s',
  reachable op template (init op template l) s -> panicked op s = false ->
  nth_error (threads op s) i = Some t -> rest op t = SendIfOpen op (fl c) c :: r ->
  step op template s i = Some s' -> panicked op s' = false.
Proof. exact guarded_send_never_panics. Qed.
Print Assumptions C09_guarded_send_never_panics.

Theorem C09_sends_are_guarded :
  forallb (fun o => forallb (fun a => match a with
     | TSend _ => false
     | TSendIfOpen f c => field_eqb f (flag_of_chan c)
     | _ => true end) (flat op (template o))) all_ops = true.
Proof. exact sends_are_guarded. Qed.
Print Assumptions C09_sends_are_guarded.

Example C09_guarded_sends_exist :
  existsb (fun o => existsb (fun a => match a with TSendIfOpen _ _ => true | _ => false end) (flat op (template o))) all_ops = true.
Proof. exact guarded_sends_exist. Qed.
Print Assumptions C09_guarded_sends_exist.

(* ---------------------------------------------------------------------- *)
(* Goroutine census: every goroutine the library starts is finite or a loop stopped by its component's Close
   (C09_close_stops_loops); spawned and ambient goroutines are in the census (the census itself is compared
   with the `go` statements of the source on every run). *)
Theorem C09_goroutine_census :
  forallb (fun o => negb (is_loop o) ||
                    match stop_chan o, stop_flag o with None, None => false | _, _ => true end) go_census = true
  /\ forallb (fun o => forallb (fun sp => existsb (op_eqb sp) go_census) (spawns o)) all_ops = true
  /\ forallb (fun a => existsb (op_eqb a) go_census) ambient_ops = true.
Proof. exact census_ok. Qed.
Print Assumptions C09_goroutine_census.
