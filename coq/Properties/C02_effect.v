(* Properties/C02_effect.v — Parse's output is a function of (configuration, bytes) only.
   Only statements, closed by [exact] of lemmas of Proofs/ParseEffect.v (PING's waiter-table model, read-only).
   Trivial in the model - [parse] has no such input - and that is the point: the harness kinds pp (pings pending with
   matching / other identifiers), gate (sends held inside the connection) and tog (switches flipped concurrently) compare
   the implementation's FULL observation with this model, so the implementation must not depend on that state either. *)
From PV Require Import Base.Prelude Base.Slice Model.Parse Proofs.ParseEffect.
From PV Require Model.Ping.

Theorem C02_parse_independent_of_ping_table : forall fx c s st st' f,
  parse_effect fx c s st = Ok (f, st') -> parse c s = Ok f.
Proof. exact parse_independent_of_ping_table. Qed.
Print Assumptions C02_parse_independent_of_ping_table.

Theorem C02_parse_same_frame_any_table : forall fx c s st1 st2 f1 f2 st1' st2',
  parse_effect fx c s st1 = Ok (f1, st1') -> parse_effect fx c s st2 = Ok (f2, st2') -> f1 = f2.
Proof. exact parse_same_frame_any_table. Qed.
Print Assumptions C02_parse_same_frame_any_table.
