(* Properties/C10.v — Retained state never aliases the caller's packet buffer.
   Only statements, each closed by [exact] of a lemma proved in Proofs/Alias.v.

   Model (Model/Alias.v): every byte-string field retained by the session
   (host/MAC tables, learned names) and by the handlers (DHCP leases, router
   table with its NDP options, DNS table, mDNS cache) is an [rv] = Owned bytes
   | Ref buffer offset length; receive buffers live in a store that the caller
   may overwrite between two library calls; every later output (table dumps,
   notifications, DHCP replies, decline/release frames, purge probes) reads
   retained fields through [deref store]. *)
From PV Require Import Base.Prelude Base.Text Model.Alias Proofs.Alias Model.AliasHunt Proofs.AliasHunt Model.AliasOut Proofs.AliasOut Model.AliasWhole Proofs.AliasWhole.

(* Invariant over every history (frames of every handled kind arriving in any
   buffers, any scribbles in between, any library calls): no retained field is
   a sub-slice of a receive buffer. *)
Theorem C10_no_ref : forall c h, no_ref (w_state (erun c h)) = true.
Proof. exact no_ref_invariant. Qed.
Print Assumptions C10_no_ref.

(* every retention point of the transcription copies (Owned) *)
Theorem C10_every_retention_point_copies : forall k, copies k = true.
Proof. exact copies_all. Qed.
Print Assumptions C10_every_retention_point_copies.

(* General lemma: on a NoRef state the observation of the tables does not depend on the buffer store... *)
Theorem C10_no_ref_observe_indep : forall s1 s2 st, no_ref st = true -> dump s1 st = dump s2 st.
Proof. exact no_ref_observe_indep. Qed.
Print Assumptions C10_no_ref_observe_indep.

(* ...and neither does any single call (new state and everything it emits), nor on the buffer the frame sits in. *)
Theorem C10_no_ref_step_indep : forall c s1 s2 b1 b2 frame k st,
  no_ref st = true -> rstep c s1 b1 frame k st = rstep c s2 b2 frame k st.
Proof. exact no_ref_step_indep. Qed.
Print Assumptions C10_no_ref_step_indep.

(* Noninterference, general form: two histories with the same packet-level
   content (the same frames and library calls in the same order) produce the
   same transcript (all per-call outputs: notifications, replies, probes,
   dumps; and the final dump of every table), whatever buffers the frames were
   delivered in and whatever the caller wrote over them between the calls. *)
Theorem C10_noninterference : forall c h1 h2, proj h1 = proj h2 -> transcript c h1 = transcript c h2.
Proof. exact noninterference. Qed.
Print Assumptions C10_noninterference.

(* The instance checked by the differential harness: one shared buffer
   overwritten with arbitrary contents after every packet vs. a fresh,
   never modified buffer per packet. *)
Theorem C10_shared_equals_fresh : forall c scr p,
  transcript c (shared_run scr 0 p) = transcript c (fresh_run 0 p).
Proof. exact shared_equals_fresh. Qed.
Print Assumptions C10_shared_equals_fresh.

(* Sharpness: NoRef is what carries the theorems; a state holding a single Ref
   (what a retention point without its copy produces) is observably changed by
   overwriting the buffer. *)
Theorem C10_ref_state_observable :
  no_ref ex_ref_state = false /\
  dump [{| b_pre := [0;0;0;0;0;0;2;0;0;0;0;1]; b_fill := 0; b_stp := 0 |}] ex_ref_state <>
  dump [{| b_pre := []; b_fill := 165; b_stp := 0 |}] ex_ref_state.
Proof. exact ref_state_observable. Qed.
Print Assumptions C10_ref_state_observable.

(* non-vacuity: a concrete shared-buffer history reaching a non-trivial NoRef state *)
Example C10_example_history :
  let st := w_state (erun std_cfg (shared_run ex_scr 0 ex_hist)) in
  List.length (st_hosts st) = 3%nat /\ List.length (st_macs st) = 3%nat /\ no_ref st = true.
Proof. exact ex_hist_creates_host. Qed.
Print Assumptions C10_example_history.

(* ---------------------------------------------------------------- *)
(* Hunt list of the ICMPv6 spoofer (icmp6spoof.go StartHunt/StopHunt), Model/AliasHunt.v.
   As found, StartHunt stored the packet.Addr as passed: when the application hunts the sender of
   the frame it is looking at (StartHunt(frame.SrcAddr)), the hunt list entry and the spoof loop
   aliased the receive buffer.  Repaired in /repo (94488cb, and c1ee67c for arp_spoofer): StartHunt
   copies addr.MAC; [hunt6_copies] = true. *)

(* full property for the repaired code: for every history and every scribble the hunt list of the
   shared-buffer run equals that of the fresh-buffer run *)
Theorem C10_hunt6_noninterference : forall scr p,
  hunted (herun hunt6_copies (hshared scr 0 p)) = hunted (herun hunt6_copies (hfresh 0 p)).
Proof. exact hunt_noninterference_copy. Qed.
Print Assumptions C10_hunt6_noninterference.

(* sharpness (not a statement about /repo: the defect is repaired): in the model with the copy removed,
   hunt the sender of a frame, reuse the buffer: StopHunt misses the entry *)
Theorem C10_hunt6_copy_is_necessary :
  exists scr p, running false (hshared scr 0 p) <> running false (hfresh 0 p).
Proof. exact hunt_refuted_ref. Qed.
Print Assumptions C10_hunt6_copy_is_necessary.

(* histories without a StartHunt on a frame view were never affected, copy or not *)
Theorem C10_hunt6_no_start_unaffected : forall cp scr p,
  known_C10_hunt6 p = false ->
  hunted (herun cp (hshared scr 0 p)) = hunted (herun cp (hfresh 0 p)).
Proof. exact hunt_partial. Qed.
Print Assumptions C10_hunt6_no_start_unaffected.

Example C10_hunt6_no_start_nonvacuous : known_C10_hunt6 [HStop [2;0;0;0;0;1]; HStop [2;0;0;0;0;2]] = false.
Proof. exact hunt_partial_nonvacuous. Qed.
Print Assumptions C10_hunt6_no_start_nonvacuous.

(* ---------------------------------------------------------------- *)
(* Hunt list of the ARP spoofer (handlers/arp_spoofer/spoof.go): map keyed by a copy of the MAC, value and
   spoof loop hold the Addr; StartHunt copies addr.MAC since /repo c1ee67c ([hunt4_copies] = true).
   Transcript: first announcement of a new loop, what every loop sends at each 6 s tick (announcement to the
   hunted MAC, or the restoring request when its key is gone), spoofed replies to ARP requests of hunted MACs. *)
Theorem C10_hunt4_noninterference : forall rip scr p,
  h4transcript hunt4_copies rip (h4shared scr 0 p) = h4transcript hunt4_copies rip (h4fresh 0 p).
Proof. exact hunt4_noninterference_copy. Qed.
Print Assumptions C10_hunt4_noninterference.

(* the unrepaired code: once the buffer is reused the loop no longer finds its own key and gives up *)
Theorem C10_hunt4_copy_is_necessary :
  exists scr p, h4transcript false [192;168;0;11] (h4shared scr 0 p) <> h4transcript false [192;168;0;11] (h4fresh 0 p).
Proof. exact hunt4_refuted_ref. Qed.
Print Assumptions C10_hunt4_copy_is_necessary.

Example C10_hunt4_example :
  h4transcript true [192;168;0;11] (h4shared ex_hunt_scr 0 ex_hunt4_hist) = [[item_announce [2;0;0;0;0;1]]; [item_announce [2;0;0;0;0;1]]].
Proof. exact ex_hunt4_runs. Qed.
Print Assumptions C10_hunt4_example.

(* ---------------------------------------------------------------- *)
(* The way out (Model/AliasOut.v): values handed to the caller BY VALUE (a Notification, the []Addr of
   FindByMAC / IPAddrs, the Router of FindRouter, the entries of ProcessMDNS, the DNSEntry of ProcessDNS /
   DNSFind) must not be the tables' own storage, or a caller overwriting "its" value changes the retained
   state.  As found five output points shared storage; repaired in /repo (731d6b1 2a8e70e 12c4150 66fd956
   1fa6803); [out_copies] transcribes the repaired code. *)

(* whatever values the caller obtains through the output points and whatever it writes through them,
   the retained storage is unchanged *)
Theorem C10_outputs_do_not_alias_state : forall ops hp, crun out_copies ops hp = hp.
Proof. exact outputs_do_not_alias_state. Qed.
Print Assumptions C10_outputs_do_not_alias_state.

Example C10_outputs_example :
  crun out_copies [CGet OP_notification_mac 0; CWrite 0 [255;255;255;255;255;254]; CGet OP_findrouter 1; CWrite 1 []]
       [[2;0;0;0;0;1]; [254;128]] = [[2;0;0;0;0;1]; [254;128]].
Proof. exact outputs_example. Qed.
Print Assumptions C10_outputs_example.

(* the code as found: a notification's MAC was the table's slice *)
Theorem C10_output_copy_is_necessary : exists ops hp, crun out_copies_as_found ops hp <> hp.
Proof. exact outputs_refuted. Qed.
Print Assumptions C10_output_copy_is_necessary.

(* for ANY table of output points: a caller that obtains values only through copying points cannot change the
   storage (the repaired code is the instance where every point copies) *)
Theorem C10_outputs_safe_through_copying_points : forall oc ops hp,
  uses_only oc ops = true -> crun oc ops hp = hp.
Proof. exact outputs_partial. Qed.
Print Assumptions C10_outputs_safe_through_copying_points.

Example C10_outputs_copying_points_nonvacuous : uses_only out_copies_as_found [CGet OP_dns_entry 0; CWrite 0 [1;2;3]] = true.
Proof. exact outputs_partial_nonvacuous. Qed.
Print Assumptions C10_outputs_copying_points_nonvacuous.

(* ---------------------------------------------------------------- *)
(* ONE invariant over the operation list of the WHOLE library model (Model/AliasWhole.v: session and handler
   tables, both hunt lists and the ARP spoof loops over one store): after every history nothing reachable from
   retained state has provenance "view of a caller's buffer". *)
Theorem C10_no_view_reachable : forall c h, no_view (wrun c h) = true.
Proof. exact no_view_reachable. Qed.
Print Assumptions C10_no_view_reachable.

Example C10_no_view_example :
  let w := wrun std_cfg ex_whole in
  List.length (st_hosts (w_state (ww_main w))) = 3%nat /\ List.length (h4_loops (ww_h4 w)) = 1%nat /\ ww_h6 w = [] /\ no_view w = true.
Proof. exact ex_whole_runs. Qed.
Print Assumptions C10_no_view_example.
