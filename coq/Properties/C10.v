(* Properties/C10.v — Retained state never aliases the caller's packet buffer.
   Only statements, each closed by [exact] of a lemma proved in Proofs/Alias.v. *)
From PV Require Import Base.Prelude Base.Text Model.Alias Proofs.Alias.

(* Invariant over every history (frames arriving in any buffers, any scribbles
   in between, any library calls): no retained field is a sub-slice of a
   receive buffer. *)
Theorem C10_no_ref : forall c h, no_ref (w_state (erun c h)) = true.
Proof. exact no_ref_invariant. Qed.
Print Assumptions C10_no_ref.

(* General lemma: on a NoRef state the observation does not depend on the buffer store. *)
Theorem C10_no_ref_observe_indep : forall s1 s2 st, no_ref st = true -> dump s1 st = dump s2 st.
Proof. exact no_ref_observe_indep. Qed.
Print Assumptions C10_no_ref_observe_indep.

(* Noninterference, general form: two histories with the same packet-level
   content (the same frames and library calls in the same order) produce the
   same transcript (all per-call outputs and the final table dump), whatever
   buffers the frames were delivered in and whatever the caller wrote over
   them between the calls. *)
Theorem C10_noninterference : forall c h1 h2, proj h1 = proj h2 -> transcript c h1 = transcript c h2.
Proof. exact noninterference. Qed.
Print Assumptions C10_noninterference.

(* The instance checked by the differential harness: one shared buffer
   overwritten with arbitrary contents after every packet vs. a fresh,
   never modified buffer per packet. *)
Theorem C10_shared_equals_fresh : forall c scr p,
  transcript c (shared_run scr 0 p) = transcript c (fresh_run 0 p).
Proof. exact shared_equals_fresh. Qed.
Print Assumptions C10_shared_equals_fresh.

(* every retention point of the transcription copies *)
Theorem C10_every_retention_point_copies : forall k, copies k = true.
Proof. exact copies_all. Qed.
Print Assumptions C10_every_retention_point_copies.

(* non-vacuity: a concrete shared-buffer history that creates a host from a frame *)
Example C10_example_history :
  List.length (st_hosts (w_state (erun std_cfg (shared_run (fun _ => {| b_pre := []; b_fill := 165; b_stp := 0 |}) 0 ex_hist)))) = 3%nat.
Proof. exact ex_hist_creates_host. Qed.
Print Assumptions C10_example_history.
