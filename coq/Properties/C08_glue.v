(* Properties/C08_glue.v — integration of C08 with the clusters that own the pieces it touches.
   (1) C08_dispatch_total: the first sentence of the property as ONE theorem over raw frames,
       composing PARSE's model of Session.Parse (the function C01/C02/C16 are about) with the
       C08 processors and the DNS cluster's processDNS.
   (2) glue theorems: every view function the C08 models restate equals (or has the same
       outcome as) the VIEWS / DNS model of the same Go function, for all slices, so that the
       C08 totality theorems are about the functions C01/C02/C17 are about.
   Only statements closed by [exact]. *)
From PV Require Import Base.Prelude Base.Slice.
From PV Require Import Model.ViewsBase Model.Views Model.Views2 Model.ViewsVar Model.DNSNbns Model.Parse Model.DNSRecords.
From PV Require Import Model.NDPOptions Model.MiscHopByHop Model.MiscDecoders Model.HandlersLoop Model.HandlersDnsMsg Model.HandlersProc.
From PV Require Import Proofs.Parse Proofs.HandlersGlue Proofs.HandlersGlue2 Proofs.HandlersGlue3 Proofs.HandlersDispatch.
Open Scope N_scope.

(* ---------------------------------------------------------------- (1) *)
(* receive e fuel c s = parse c s ;; payload_view ;; switch PayloadID { ARP, ICMP4, ICMP6, DHCP4,
   DNS, MDNS/LLMNR, NBNS, SSDP, 802.3, LLDP -> its processor; otherwise nothing }; the ICMPv6
   processor also receives frame.IP6() (PARSE's frame_ip6: nil when offsetIP6 = 0).
   [e] carries every state the processors branch on (hunt lists, offers, lease decision, log
   levels, DNS table) and the third-party parsers' verdicts as arbitrary functions of the payload
   (what dnsmessage.Parser / net/http report); [c] is the session configuration of PARSE. *)
Theorem C08_dispatch_total : forall e c s, wf s ->
  forall fuel, (len s < fuel)%nat ->
  receive e fuel c s <> Panic /\ receive e fuel c s <> Fuel.
Proof. exact dispatch_total. Qed.
Print Assumptions C08_dispatch_total.

Example C08_dispatch_nonvacuous :
  wf (of_bytes ex_arp28) /\
  (exists f, parse cfg0 (of_bytes ex_arp28) = Ok f /\ f_id f = PayloadARP) /\
  receive ex_env 100 cfg0 (of_bytes ex_arp28) = Ok tt.
Proof. exact dispatch_nonvacuous. Qed.
Print Assumptions C08_dispatch_nonvacuous.

(* ICMPv6 carried by IPv4 (protocol 58): classified PayloadICMP6 with offsetIP6 = 0, handed to the
   ICMPv6 processor with a nil IPv6 view, which returns an error (before d9f9e28: panic) *)
Example C08_dispatch_icmp6_in_ip4 :
  (exists f, parse cfg0 (of_bytes ex_icmp6_in_ip4) = Ok f /\ f_id f = PayloadICMP6 /\ f_off6 f = 0%nat) /\
  receive ex_env 100 cfg0 (of_bytes ex_icmp6_in_ip4) = Err EFrameLen.
Proof. exact dispatch_icmp6_in_ip4. Qed.
Print Assumptions C08_dispatch_icmp6_in_ip4.

(* ---------------------------------------------------------------- (2) VIEWS *)
Theorem C08_glue_ip4_is_valid : forall p, wf p -> HandlersProc.ip4_is_valid p = IP4_IsValid p.
Proof. exact glue_ip4_is_valid. Qed.
Print Assumptions C08_glue_ip4_is_valid.

Theorem C08_glue_ip4_payload : forall p,
  IP4_Payload p = bind (HandlersProc.ip4_payload p)
                    (fun s => bind (HandlersProc.ip4_ihl p) (fun ihl => Ok (VR ihl (len s)))).
Proof. exact glue_ip4_payload. Qed.
Print Assumptions C08_glue_ip4_payload.

Theorem C08_glue_udp_is_valid : forall p, HandlersProc.udp_is_valid p = UDP_IsValid p.
Proof. exact glue_udp_is_valid. Qed.
Print Assumptions C08_glue_udp_is_valid.

Theorem C08_glue_tcp_is_valid : forall p, HandlersProc.tcp_is_valid p = TCP_IsValid p.
Proof. exact glue_tcp_is_valid. Qed.
Print Assumptions C08_glue_tcp_is_valid.

(* the gate of the ARP processor is ARP.IsValid: error exactly on an invalid view *)
Theorem C08_glue_arp_gate : forall e router lan p, wf p ->
  (cls (arp_process e router lan p) = CErr <-> ARP_IsValid p = Ok false) /\
  (cls (arp_process e router lan p) = COk <-> ARP_IsValid p = Ok true).
Proof. exact glue_arp_gate. Qed.
Print Assumptions C08_glue_arp_gate.

Theorem C08_glue_lldp_get_tlv : forall p n,
  lldp_get_tlv p n = bind (lldp_getTLV p n) (fun x => Ok (tlv_of x)).
Proof. exact glue_lldp_get_tlv. Qed.
Print Assumptions C08_glue_lldp_get_tlv.

(* walks: same outcome class (value / error / panic / fuel) for every sufficient fuel *)
Theorem C08_glue_dhcp_is_valid : forall p fuel, (len p < fuel)%nat ->
  cls (dhcp_is_valid fuel p) = bcls (DHCP4_IsValid p).
Proof. exact glue_dhcp_is_valid. Qed.
Print Assumptions C08_glue_dhcp_is_valid.

Theorem C08_glue_dhcp_parse_options : forall p fuel, (len p < fuel)%nat ->
  cls (dhcp_parse_options fuel p) = cls (DHCP4_ParseOptions p).
Proof. exact glue_dhcp_parse_options. Qed.
Print Assumptions C08_glue_dhcp_parse_options.

Theorem C08_glue_hbh_parse : forall p fuel, (len p <= fuel)%nat ->
  cls (hbh_parse fuel p) = vcls (HBH_Parse p).
Proof. exact glue_hbh_parse. Qed.
Print Assumptions C08_glue_hbh_parse.

Theorem C08_glue_new_parse_options : forall lbl_ok b fuel, wf b -> (len b < fuel)%nat ->
  cls (new_parse_options lbl_ok fuel b) = vcls (ndp_options (S (len b)) b 0).
Proof. exact glue_new_parse_options. Qed.
Print Assumptions C08_glue_new_parse_options.

Theorem C08_glue_ra_options : forall lbl_ok p fuel, wf p -> (len p < fuel)%nat ->
  tcls (ra_options lbl_ok fuel p) = tcls (RA_Options p).
Proof. exact glue_ra_options. Qed.
Print Assumptions C08_glue_ra_options.

Theorem C08_glue_rs_options : forall lbl_ok p fuel, wf p -> (len p < fuel)%nat ->
  tcls (rs_options lbl_ok fuel p) = tcls (RS_Options p).
Proof. exact glue_rs_options. Qed.
Print Assumptions C08_glue_rs_options.

(* per-type ICMPv6 views, DHCP / ARP header getters: every access of the processor models is the
   VIEWS getter of that field (same outcome for all slices) *)
Theorem C08_glue_na_target_lla : forall p, cls (lla_option_at p 24 2) = cls (NA_TargetLLA p).
Proof. exact glue_na_target_lla. Qed.
Print Assumptions C08_glue_na_target_lla.

Theorem C08_glue_ns_source_lla : forall p, cls (lla_option_at p 24 1) = cls (NS_SourceLLA p).
Proof. exact glue_ns_source_lla. Qed.
Print Assumptions C08_glue_ns_source_lla.

Theorem C08_glue_redirect_target_lla : forall p,
  cls (lla_option_at p 40 2) = cls (Redirect6_TargetLinkLayerAddr p).
Proof. exact glue_redirect_target_lla. Qed.
Print Assumptions C08_glue_redirect_target_lla.

Theorem C08_glue_rs_source_lla : forall p, cls (lla_option_at p 8 1) = cls (RS_SourceLLA p).
Proof. exact glue_rs_source_lla. Qed.
Print Assumptions C08_glue_rs_source_lla.

Theorem C08_glue_icmp6_gates : forall p,
  NA_IsValid p = Ok (negb (Nat.ltb (len p) 24)) /\ NS_IsValid p = Ok (negb (Nat.ltb (len p) 24)) /\
  RA_IsValid p = Ok (negb (Nat.ltb (len p) 16)) /\ Redirect6_IsValid p = Ok (negb (Nat.ltb (len p) 40)) /\
  ICMP_IsValid p = Ok (negb (Nat.ltb (len p) 8)).
Proof. exact glue_icmp6_gates. Qed.
Print Assumptions C08_glue_icmp6_gates.

Theorem C08_glue_icmp6_fields : forall p,
  cls (sl p 8 (8 + 16)) = cls (NA_TargetAddress p) /\ cls (sl p 8 (8 + 16)) = cls (NS_TargetAddress p) /\
  cls (sl p 8 24) = cls (Redirect6_TargetAddress p) /\ cls (sl p 24 40) = cls (Redirect6_DstAddress p) /\
  cls (idx p 4) = cls (RA_CurrentHopLimit p) /\ cls (idx p 5) = cls (RA_Flags p) /\
  cls (be16_at p 6) = cls (RA_Lifetime p) /\ cls (be32_at p 8) = cls (RA_ReachableTime p) /\
  cls (be32_at p 12) = cls (RA_RetransmitTimer p) /\ cls (idx p 1) = cls (ICMP_Code p) /\
  cls (idx p 0) = cls (ICMP_Type p).
Proof. exact glue_icmp6_fields. Qed.
Print Assumptions C08_glue_icmp6_fields.

Theorem C08_glue_dhcp_fields : forall p,
  cls (sl p 4 8) = cls (DHCP4_XId p) /\ cls (be16_at p 8) = cls (DHCP4_Secs p) /\
  cls (be16_at p 10) = cls (DHCP4_Flags p) /\ cls (sl p 12 (12 + 4)) = cls (DHCP4_CIAddr p) /\
  cls (sl p 16 (16 + 4)) = cls (DHCP4_YIAddr p) /\ cls (sl p 28 34) = cls (DHCP4_CHAddr p) /\
  cls (idx p 0) = cls (DHCP4_OpCode p) /\ cls (idx p 2) = cls (DHCP4_HLen p).
Proof. exact glue_dhcp_fields. Qed.
Print Assumptions C08_glue_dhcp_fields.

Theorem C08_glue_arp_fields : forall p,
  cls (be16_at p 6) = cls (ARP_Operation p) /\ cls (sl p 8 14) = cls (ARP_SrcMAC p) /\
  cls (sl p 14 (14 + 4)) = cls (ARP_SrcIP p) /\ cls (sl p 18 24) = cls (ARP_DstMAC p) /\
  cls (sl p 24 (24 + 4)) = cls (ARP_DstIP p).
Proof. exact glue_arp_fields. Qed.
Print Assumptions C08_glue_arp_fields.

(* ---------------------------------------------------------------- (2) DNS *)
Theorem C08_glue_node_status_response : forall b,
  node_status_response b = bind (processNBNSNodeStatusResponse b) (fun ns => Ok (nonempty ns)).
Proof. exact glue_node_status_response. Qed.
Print Assumptions C08_glue_node_status_response.
