(* Properties/C08_glue.v — integration of C08 with the clusters that own the pieces it touches.
   (1) C08_dispatch_total: the first sentence of the property as ONE theorem over raw frames,
       composing PARSE's model of Session.Parse (the function C01/C02/C16 are about) with the
       C08 processors and the DNS cluster's processDNS.
   (2) glue theorems: every view function the C08 models restate equals (or has the same
       outcome as) the VIEWS / DNS model of the same Go function, for all slices, so that the
       C08 totality theorems are about the functions C01/C02/C17 are about.
   Only statements closed by [exact]. *)
From PV Require Import Base.Prelude Base.Slice.
From PV Require Import Model.ViewsBase Model.Views Model.Views2 Model.ViewsVar Model.DNSNbns Model.Parse Model.DNSRecords.
From PV Require Import Model.NDPOptions Model.MiscHopByHop Model.MiscDecoders Model.HandlersLoop Model.HandlersDnsMsg Model.HandlersProc.
From PV Require Import Proofs.Parse Proofs.HandlersGlue Proofs.HandlersGlue2 Proofs.HandlersDispatch.
Open Scope N_scope.

(* ---------------------------------------------------------------- (1) *)
(* receive e fuel c s = parse c s ;; payload_view ;; switch PayloadID { ARP, ICMP4, ICMP6, DHCP4,
   DNS, MDNS/LLMNR, NBNS, SSDP, 802.3, LLDP -> its processor; otherwise nothing }.
   [e] carries every state the processors branch on (hunt lists, offers, lease decision, log
   levels, DNS table) and the third-party parsers' verdicts as arbitrary functions of the payload
   (what dnsmessage.Parser / net/http report); [c] is the session configuration of PARSE. *)
Theorem C08_dispatch_total : forall e c s, wf s ->
  forall fuel, (len s < fuel)%nat ->
  receive e fuel c s <> Panic /\ receive e fuel c s <> Fuel.
Proof. exact dispatch_total. Qed.
Print Assumptions C08_dispatch_total.

Example C08_dispatch_nonvacuous :
  wf (of_bytes ex_arp28) /\
  (exists f, parse cfg0 (of_bytes ex_arp28) = Ok f /\ f_id f = PayloadARP) /\
  receive ex_env 100 cfg0 (of_bytes ex_arp28) = Ok tt.
Proof. exact dispatch_nonvacuous. Qed.
Print Assumptions C08_dispatch_nonvacuous.

(* ---------------------------------------------------------------- (2) VIEWS *)
Theorem C08_glue_ip4_is_valid : forall p, wf p -> HandlersProc.ip4_is_valid p = IP4_IsValid p.
Proof. exact glue_ip4_is_valid. Qed.
Print Assumptions C08_glue_ip4_is_valid.

Theorem C08_glue_ip4_payload : forall p,
  IP4_Payload p = bind (HandlersProc.ip4_payload p)
                    (fun s => bind (HandlersProc.ip4_ihl p) (fun ihl => Ok (VR ihl (len s)))).
Proof. exact glue_ip4_payload. Qed.
Print Assumptions C08_glue_ip4_payload.

Theorem C08_glue_udp_is_valid : forall p, HandlersProc.udp_is_valid p = UDP_IsValid p.
Proof. exact glue_udp_is_valid. Qed.
Print Assumptions C08_glue_udp_is_valid.

Theorem C08_glue_tcp_is_valid : forall p, HandlersProc.tcp_is_valid p = TCP_IsValid p.
Proof. exact glue_tcp_is_valid. Qed.
Print Assumptions C08_glue_tcp_is_valid.

(* the gate of the ARP processor is ARP.IsValid: error exactly on an invalid view *)
Theorem C08_glue_arp_gate : forall e router lan p, wf p ->
  (cls (arp_process e router lan p) = CErr <-> ARP_IsValid p = Ok false) /\
  (cls (arp_process e router lan p) = COk <-> ARP_IsValid p = Ok true).
Proof. exact glue_arp_gate. Qed.
Print Assumptions C08_glue_arp_gate.

Theorem C08_glue_lldp_get_tlv : forall p n,
  lldp_get_tlv p n = bind (lldp_getTLV p n) (fun x => Ok (tlv_of x)).
Proof. exact glue_lldp_get_tlv. Qed.
Print Assumptions C08_glue_lldp_get_tlv.

(* walks: same outcome class (value / error / panic / fuel) for every sufficient fuel *)
Theorem C08_glue_dhcp_is_valid : forall p fuel, (len p < fuel)%nat ->
  cls (dhcp_is_valid fuel p) = bcls (DHCP4_IsValid p).
Proof. exact glue_dhcp_is_valid. Qed.
Print Assumptions C08_glue_dhcp_is_valid.

Theorem C08_glue_dhcp_parse_options : forall p fuel, (len p < fuel)%nat ->
  cls (dhcp_parse_options fuel p) = cls (DHCP4_ParseOptions p).
Proof. exact glue_dhcp_parse_options. Qed.
Print Assumptions C08_glue_dhcp_parse_options.

Theorem C08_glue_hbh_parse : forall p fuel, (len p <= fuel)%nat ->
  cls (hbh_parse fuel p) = vcls (HBH_Parse p).
Proof. exact glue_hbh_parse. Qed.
Print Assumptions C08_glue_hbh_parse.

Theorem C08_glue_new_parse_options : forall lbl_ok b fuel, wf b -> (len b < fuel)%nat ->
  cls (new_parse_options lbl_ok fuel b) = vcls (ndp_options (S (len b)) b 0).
Proof. exact glue_new_parse_options. Qed.
Print Assumptions C08_glue_new_parse_options.

Theorem C08_glue_ra_options : forall lbl_ok p fuel, wf p -> (len p < fuel)%nat ->
  tcls (ra_options lbl_ok fuel p) = tcls (RA_Options p).
Proof. exact glue_ra_options. Qed.
Print Assumptions C08_glue_ra_options.

Theorem C08_glue_rs_options : forall lbl_ok p fuel, wf p -> (len p < fuel)%nat ->
  tcls (rs_options lbl_ok fuel p) = tcls (RS_Options p).
Proof. exact glue_rs_options. Qed.
Print Assumptions C08_glue_rs_options.

(* ---------------------------------------------------------------- (2) DNS *)
Theorem C08_glue_node_status_response : forall b,
  node_status_response b = bind (processNBNSNodeStatusResponse b) (fun ns => Ok (nonempty ns)).
Proof. exact glue_node_status_response. Qed.
Print Assumptions C08_glue_node_status_response.
