(* Properties/C19_glue.v — the Parse that C19 talks about is the Parse that C01/C02/C16 talk about.
   Model/PingFrame.v (PING cluster) transcribes only the path of Session.Parse that leads to
   echoNotify; Model/Parse.v (PARSE cluster) models all of Session.Parse and records the argument
   of echoNotify as the side output [f_echo].  For every session configuration whose validators
   are the repaired ones (the variant /repo has: Model/ParseFixes.v current_fixes), every slice and
   every capacity, the two agree; with C19_frame_agree, PARSE's side output is the RFC reading. *)
From PV Require Import Base.Prelude Base.Slice Model.Parse Model.ParseFixes Model.PingFrame Spec.PingRFC.
From PV Require Import Proofs.PingFrame Proofs.PingGlue.
Open Scope N_scope.

Theorem C19_glue : forall c s, wf s -> fx_ip4 (c_fx c) = true -> fx_ip6 (c_fx c) = true ->
  parse_notify_s s = Ok (echo_of (parse c s)).
Proof. exact glue. Qed.
Print Assumptions C19_glue.

Theorem C19_glue_bytes : forall c f, fx_ip4 (c_fx c) = true -> fx_ip6 (c_fx c) = true ->
  parse_notify f = Ok (echo_of (parse c (of_bytes f))).
Proof. exact glue_bytes. Qed.
Print Assumptions C19_glue_bytes.

Theorem C19_parse_echo_is_rfc : forall c f, fx_ip4 (c_fx c) = true -> fx_ip6 (c_fx c) = true ->
  echo_of (parse c (of_bytes f)) = rfc_reply_id f.
Proof. exact parse_echo_is_rfc. Qed.
Print Assumptions C19_parse_echo_is_rfc.

(* the current validators satisfy the hypothesis; a slice with spare capacity, an echo request and
   a frame of a former defect class *)
Example C19_glue_nonvacuous :
  fx_ip4 (c_fx ex_cfg) = true /\ fx_ip6 (c_fx ex_cfg) = true /\
  wf (of_bytes_cap w_reply6 [170; 170; 170]) /\
  echo_of (parse ex_cfg (of_bytes_cap w_reply6 [170; 170; 170])) = Some 7 /\
  parse_notify_s (of_bytes_cap w_reply6 [170; 170; 170]) = Ok (Some 7) /\
  echo_of (parse ex_cfg (of_bytes w_request4)) = None /\
  echo_of (parse ex_cfg (of_bytes w_family)) = None.
Proof. split; [reflexivity|]. split; [reflexivity|]. exact glue_nonvacuous. Qed.
Print Assumptions C19_glue_nonvacuous.
