(* Properties/C05_glue.v — C05 over raw frame bytes (see Properties/C04_glue.v for the glue). *)
From PV Require Import Base.Prelude Base.Slice Model.Tables Model.TablesGlue Spec.HostTrackingInv Proofs.TablesGlue.

(* the invariant holds after every history of byte strings handed to Parse and API calls: no hypothesis on the bytes *)
Theorem C05_reachable_bytes : forall c now s0 bs, new_session c now = Ok s0 -> Inv (brun c s0 bs).
Proof. exact reachable_bytes. Qed.
Print Assumptions C05_reachable_bytes.

Theorem C05_bytes_no_panic : forall c st b, Inv st -> snd (bstep c st b) <> OPanic.
Proof. exact bstep_no_panic. Qed.
Print Assumptions C05_bytes_no_panic.
