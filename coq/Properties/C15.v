(* Properties/C15.v — Internet checksums are computed correctly.
   Only statements, each closed by [exact] of a lemma proved in Proofs/. *)
From PV Require Import Base.Prelude Model.Checksum Spec.OnesComplement Proofs.Checksum.
Open Scope N_scope.

(* The library's Checksum equals the RFC 1071 checksum in the byte order the
   library stores it (low byte first), for every byte string of up to 2^49
   bytes: every byte string a Go program can hold (the address space of the
   supported 64-bit platforms is 2^48 bytes; the uint64 accumulator cannot
   wrap below 2^49 bytes). *)
Theorem C15_checksum_rfc1071 : forall b,
  bytes_ok b -> N.of_nat (length b) <= 562949953421312 -> checksum b = swap16 (rfc1071 b).
Proof. exact checksum_rfc1071. Qed.
Print Assumptions C15_checksum_rfc1071.

(* The end-around-carry loop of Checksum has terminated within the fuel the
   model gives it, for every value of the 64-bit accumulator: the model's
   result is the loop's result, never a fuel artefact. *)
Theorem C15_fold_loop_terminates : forall s,
  s < 18446744073709551616 -> N.shiftr (cs_fold_loop 8 s) 16 = 0.
Proof. exact cs_fold_loop_done. Qed.
Print Assumptions C15_fold_loop_terminates.

(* Where the former 32-bit accumulator wrapped (131076 bytes of 0xff gave 1,
   RFC 1071 gives 0; repaired in /repo) the function is now right. *)
Example C15_long_input_example :
  let b := repeat 255 (N.to_nat 131076) in
  bytes_ok b /\ N.of_nat (length b) = 131076 /\ checksum b = swap16 (rfc1071 b) /\ checksum b = 0.
Proof. exact checksum_long_example. Qed.
Print Assumptions C15_long_input_example.

(* Independent of how the data is split across even and odd lengths. *)
Theorem C15_split : forall a b,
  bytes_ok a -> bytes_ok b -> N.of_nat (length a + length b) <= 562949953421312 ->
  checksum (a ++ b) =
    65535 - oc_add (oc_fold (le_sum a))
                   (oc_fold (le_sum (if Nat.even (length a) then b else 0 :: b))).
Proof. exact checksum_split. Qed.
Print Assumptions C15_split.

Theorem C15_rfc_split_even : forall a b,
  Nat.even (length a) = true -> be_sum (a ++ b) = be_sum a + be_sum b.
Proof. exact be_sum_app_even. Qed.
Print Assumptions C15_rfc_split_even.

Theorem C15_rfc_split_odd : forall a b,
  Nat.even (length a) = false -> be_sum (a ++ b) = be_sum a + be_sum (0 :: b).
Proof. exact be_sum_app_odd. Qed.
Print Assumptions C15_rfc_split_odd.

(* Any IPv4 header completed by SetPayload/AppendPayload sums to 0xffff. *)
Theorem C15_ip4_header_verifies : forall p,
  bytes_ok p -> length p = 20%nat -> verifies (ip4_store_checksum p).
Proof. exact ip4_header_verifies. Qed.
Print Assumptions C15_ip4_header_verifies.

(* Any ICMPv4 message completed by icmp4SendPacket verifies. *)
Theorem C15_icmp4_verifies : forall p,
  bytes_ok p -> (4 <= length p)%nat -> N.of_nat (length p) <= 562949953421312 ->
  nth 2 p 0 = 0 -> nth 3 p 0 = 0 ->
  verifies (icmp_set_checksum p (checksum p)).
Proof. exact icmp4_verifies. Qed.
Print Assumptions C15_icmp4_verifies.

(* Any ICMPv6 message completed by icmp6SendPacket verifies together with
   its 40-byte IPv6 pseudo-header. *)
Theorem C15_icmp6_verifies : forall src dst p,
  bytes_ok src -> bytes_ok dst -> bytes_ok p ->
  length src = 16%nat -> length dst = 16%nat -> (4 <= length p)%nat ->
  N.of_nat (length p) <= 4294967295 ->
  nth 2 p 0 = 0 -> nth 3 p 0 = 0 ->
  let psh := icmp6_pseudo src dst (N.of_nat (length p)) in
  verifies (psh ++ icmp_set_checksum p (checksum (psh ++ p))).
Proof. exact icmp6_verifies. Qed.
Print Assumptions C15_icmp6_verifies.
