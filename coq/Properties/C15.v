(* Properties/C15.v — Internet checksums are computed correctly.
   Only statements, each closed by [exact] of a lemma proved in Proofs/. *)
From PV Require Import Base.Prelude Model.Checksum Spec.OnesComplement Proofs.Checksum.
Open Scope N_scope.

(* The library's Checksum equals the RFC 1071 checksum in the byte order the
   library stores it (low byte first), for every byte string up to 131074
   bytes (the exact domain on which the uint32 accumulator cannot wrap; the
   property's domain is frames of at most 1522 bytes). *)
Theorem C15_checksum_rfc1071 : forall b,
  bytes_ok b -> N.of_nat (length b) <= 131074 -> checksum b = swap16 (rfc1071 b).
Proof. exact checksum_rfc1071. Qed.
Print Assumptions C15_checksum_rfc1071.

(* Domain is sharp: documented, not a finding. *)
Theorem C15_beyond_bound_refuted :
  exists b, bytes_ok b /\ N.of_nat (length b) = 131076 /\ checksum b <> swap16 (rfc1071 b).
Proof. exact checksum_beyond_bound_refuted. Qed.
Print Assumptions C15_beyond_bound_refuted.

(* Independent of how the data is split across even and odd lengths. *)
Theorem C15_split : forall a b,
  bytes_ok a -> bytes_ok b -> N.of_nat (length a + length b) <= 131074 ->
  checksum (a ++ b) =
    65535 - oc_add (oc_fold (le_sum a))
                   (oc_fold (le_sum (if Nat.even (length a) then b else 0 :: b))).
Proof. exact checksum_split. Qed.
Print Assumptions C15_split.

Theorem C15_rfc_split_even : forall a b,
  Nat.even (length a) = true -> be_sum (a ++ b) = be_sum a + be_sum b.
Proof. exact be_sum_app_even. Qed.
Print Assumptions C15_rfc_split_even.

Theorem C15_rfc_split_odd : forall a b,
  Nat.even (length a) = false -> be_sum (a ++ b) = be_sum a + be_sum (0 :: b).
Proof. exact be_sum_app_odd. Qed.
Print Assumptions C15_rfc_split_odd.

(* Any IPv4 header completed by SetPayload/AppendPayload sums to 0xffff. *)
Theorem C15_ip4_header_verifies : forall p,
  bytes_ok p -> length p = 20%nat -> verifies (ip4_store_checksum p).
Proof. exact ip4_header_verifies. Qed.
Print Assumptions C15_ip4_header_verifies.

(* Any ICMPv4 message completed by icmp4SendPacket verifies. *)
Theorem C15_icmp4_verifies : forall p,
  bytes_ok p -> (4 <= length p)%nat -> N.of_nat (length p) <= 131074 ->
  nth 2 p 0 = 0 -> nth 3 p 0 = 0 ->
  verifies (icmp_set_checksum p (checksum p)).
Proof. exact icmp4_verifies. Qed.
Print Assumptions C15_icmp4_verifies.

(* Any ICMPv6 message completed by icmp6SendPacket verifies together with
   its 40-byte IPv6 pseudo-header. *)
Theorem C15_icmp6_verifies : forall src dst p,
  bytes_ok src -> bytes_ok dst -> bytes_ok p ->
  length src = 16%nat -> length dst = 16%nat -> (4 <= length p)%nat ->
  N.of_nat (length p) <= 131000 ->
  nth 2 p 0 = 0 -> nth 3 p 0 = 0 ->
  let psh := icmp6_pseudo src dst (N.of_nat (length p)) in
  verifies (psh ++ icmp_set_checksum p (checksum (psh ++ p))).
Proof. exact icmp6_verifies. Qed.
Print Assumptions C15_icmp6_verifies.
