(* Properties/C01_effect.v — Parse never panics or blocks INCLUDING its side effect on process state.
   Only statements, closed by [exact] of lemmas of Proofs/ParseEffect.v.  Uses PING's model of the ping waiter table
   (Model/Ping.v, read-only): [Ping.step fx st (Ping.Notify id)] is echoNotify(id), in which closing an already closed
   wake-up channel is Panic.  (Blocking: echoNotify holds the table mutex only across the map lookup / close / delete;
   a panic inside would leave it locked - the harness unit "pp" watches for both.) *)
From PV Require Import Base.Prelude Base.Slice Model.Parse Proofs.Parse Proofs.ParseEffect.
From PV Require Model.Ping.
Open Scope N_scope.

(* For every well-formed slice and configuration, and every state [st] of the waiter table reachable by any history
   [tr] of Ping/Ping6 calls, send results, notifications, timeouts and returns (from any initial identifier n):
   Parse followed by the echoNotify it triggers (exactly when f_echo = Some id) neither panics nor spins. *)
Theorem C01_parse_effect_no_panic : forall fx c s n tr st,
  wf s -> n < 65536 -> Ping.run fx (Ping.init n) tr = Ok st -> safe (parse_effect fx c s st).
Proof. exact parse_effect_no_panic. Qed.
Print Assumptions C01_parse_effect_no_panic.

(* in particular a second copy of the same echo reply, parsed before the pinging goroutine has run *)
Theorem C01_parse_effect_twice : forall fx c s n tr st f st1,
  wf s -> n < 65536 -> Ping.run fx (Ping.init n) tr = Ok st ->
  parse_effect fx c s st = Ok (f, st1) -> safe (parse_effect fx c s st1).
Proof. exact parse_effect_twice. Qed.
Print Assumptions C01_parse_effect_twice.
