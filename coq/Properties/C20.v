(* Properties/C20.v — Log formatting is faithful and stays within its buffer.
   Only statements, each closed by [exact] of a lemma proved in Proofs/Fastlog*.v.
   Vocabulary (Model/FastlogOps.v): [wf l] the buffer has 2048 bytes; [fits l t] index + |t| <= 2048;
   [appended l t r] the call r returned a line whose text is the text of l followed by exactly t;
   [fld name t] = " name=" ++ t.  Reference renderings: Spec/TextSpec.v. *)
From PV Require Import Base.Prelude Model.Fastlog Model.FastlogOps Model.FastlogPool Model.FastlogViews Model.FastlogAsFound Spec.TextSpec Spec.TextSpecParse
  Proofs.Fastlog Proofs.FastlogIP6 Proofs.FastlogLine Proofs.FastlogInside Proofs.FastlogMsg Proofs.FastlogPool Proofs.FastlogViews Proofs.FastlogDenote Proofs.FastlogNoFit Proofs.FastlogAsFound.
Open Scope N_scope.

(* Uint8 / Uint16 / Uint32 print strconv's decimal text *)
Theorem C20_field_uint : forall l name v,
  wf l -> v < 4294967296 -> fits l (fld name (dec v)) ->
  appended l (fld name (dec v)) (f_uint l name v).
Proof. exact field_uint. Qed.
Print Assumptions C20_field_uint.

Example C20_field_uint_nonvacuous :
  wf ex_line /\ 4294967295 < 4294967296 /\ fits ex_line (fld [97; 98] (dec 4294967295)) /\
  option_map (fun l => firstn 14 (skipn 7 (buf l)))
             (match f_uint ex_line [97; 98] 4294967295 with Ok l => Some l | _ => None end)
  = Some [32; 97; 98; 61; 52; 50; 57; 52; 57; 54; 55; 50; 57; 53].
Proof. exact field_uint_nonvacuous. Qed.
Print Assumptions C20_field_uint_nonvacuous.

(* Uint8Hex / Uint16Hex print "0x" and fixed-width lower-case hex *)
Theorem C20_field_uint8hex : forall l name v,
  wf l -> v < 256 -> fits l (fld name (hex2_0x v)) ->
  appended l (fld name (hex2_0x v)) (f_uint8hex l name v).
Proof. exact field_uint8hex. Qed.
Print Assumptions C20_field_uint8hex.

Theorem C20_field_uint16hex : forall l name v,
  wf l -> v < 65536 -> fits l (fld name (hex4_0x v)) ->
  appended l (fld name (hex4_0x v)) (f_uint16hex l name v).
Proof. exact field_uint16hex. Qed.
Print Assumptions C20_field_uint16hex.

Theorem C20_field_bool : forall l name v,
  wf l -> fits l (fld name (bool_text v)) -> appended l (fld name (bool_text v)) (f_bool l name v).
Proof. exact field_bool. Qed.
Print Assumptions C20_field_bool.

(* MAC: six bytes as colon-separated two-digit hex *)
Theorem C20_field_mac : forall l name m,
  wf l -> bytes_ok m -> List.length m = 6%nat -> fits l (fld name (mac_text m)) ->
  appended l (fld name (mac_text m)) (f_mac l name m).
Proof. exact field_mac. Qed.
Print Assumptions C20_field_mac.

(* IPSlice of a 4-byte net.IP: dotted quad *)
Theorem C20_field_ip4 : forall l name a,
  wf l -> bytes_ok a -> List.length a = 4%nat -> fits l (fld name (ip4_text a)) ->
  appended l (fld name (ip4_text a)) (f_ipslice l name (Some a)).
Proof. exact field_ip4. Qed.
Print Assumptions C20_field_ip4.

(* String: name="value" (the end-of-buffer fix-up does not fire when the text fits) *)
Theorem C20_field_string : forall l name v,
  wf l -> fits l (fld name (QUOTE :: v ++ [QUOTE])) ->
  appended l (fld name (QUOTE :: v ++ [QUOTE])) (f_string l name v).
Proof. exact field_string. Qed.
Print Assumptions C20_field_string.

(* Duration / Time / Sprintf / Int: the standard library's own text, unmodified *)
Theorem C20_field_text : forall l name t,
  wf l -> fits l (fld name t) -> appended l (fld name t) (f_text l name t).
Proof. exact field_text. Qed.
Print Assumptions C20_field_text.

(* appendIP6 prints the RFC 5952 text (as netip.Addr.String: leftmost longest run of two or more zero
   groups compressed, no leading zeros, lower case) of EVERY 16-byte address: all 2^128 of them.
   Proof: both sides factor through the zero layout (256 cases, closed sweep) and the text of a group. *)
Theorem C20_ip6 : forall l ip,
  wf l -> bytes_ok ip -> List.length ip = 16%nat -> fits l (ip6_plain (groups ip)) ->
  appended l (ip6_plain (groups ip)) (append_ip6 l ip).
Proof. exact ip6_all. Qed.
Print Assumptions C20_ip6.

Example C20_ip6_nonvacuous :
  wf ex_line /\ bytes_ok ex_ip6 /\ List.length ex_ip6 = 16%nat /\ fits ex_line (ip6_plain (groups ex_ip6)) /\
  ip6_plain (groups ex_ip6) = [50;48;48;49;58;100;98;56;58;58;49;58;48;58;48;58;49].   (* 2001:db8::1:0:0:1 *)
Proof. exact ip6_nonvacuous. Qed.
Print Assumptions C20_ip6_nonvacuous.

(* IPSlice of any 4- or 16-byte net.IP prints net.IP.String: dotted quad for IPv4 and IPv4-mapped
   addresses, RFC 5952 for every other 16-byte address *)
Theorem C20_field_ipslice : forall l name ip,
  wf l -> bytes_ok ip -> (List.length ip = 4%nat \/ List.length ip = 16%nat) ->
  fits l (fld name (netip_text ip)) ->
  appended l (fld name (netip_text ip)) (f_ipslice l name (Some ip)).
Proof. exact field_ipslice. Qed.
Print Assumptions C20_field_ipslice.

(* C20_field_g for EVERY appender, in one statement over the op type (Model/FastlogOps.v):
   [op_ok o]: the arguments are in the range of their Go types, and for Int / IP the text delegated
   to strconv / netip is the reference text; [op_fits (index l) o]: the reference text fits (ByteArray
   keeps one spare byte, IPArray 41 bytes before each element: the library's conservative guards);
   then the call appends exactly the reference text [spec_text o]. *)
Theorem C20_field_any : forall l o,
  wf l -> op_ok o -> op_fits (index l) o = true -> appended l (spec_text o) (run_op l o).
Proof. exact op_appended. Qed.
Print Assumptions C20_field_any.

(* the three arrays, when they fit, print the library's array convention *)
Theorem C20_field_string_array : forall l name vs,
  wf l -> fits l (fld name (strarr_text vs)) ->
  appended l (fld name (strarr_text vs)) (f_string_array l name vs).
Proof. exact string_array_fit. Qed.
Print Assumptions C20_field_string_array.

Theorem C20_field_ip_array : forall l name vs,
  wf l -> Forall ipv_ok vs -> op_fits (index l) (OIPArr name vs) = true ->
  appended l (fld name (iparr_text vs)) (f_ip_array l name vs).
Proof. exact ip_array_fit. Qed.
Print Assumptions C20_field_ip_array.

Theorem C20_field_byte_array : forall l name v,
  wf l -> bytes_ok v -> op_fits (index l) (OByteArr name v) = true ->
  appended l (fld name (bytearr_text v)) (f_byte_array l name v).
Proof. exact byte_array_fit. Qed.
Print Assumptions C20_field_byte_array.

(* C20_line: a line equals the concatenation of its reference-rendered fields whenever it fits,
   and no call panics; ToString returns exactly that text *)
Theorem C20_line : forall os l,
  wf l -> (index l <= BUFSZ)%nat -> Forall op_ok os -> line_fits (index l) os = true ->
  exists l', run_ops l os = Ok l' /\ extends l (concat (map spec_text os)) l' /\
             to_string l' = Ok (text_of l ++ concat (map spec_text os)).
Proof. exact line_renders. Qed.
Print Assumptions C20_line.

Example C20_line_nonvacuous :
  wf ex_line /\ (index ex_line <= BUFSZ)%nat /\ Forall op_ok ex_ops /\ line_fits (index ex_line) ex_ops = true /\
  List.length (concat (map spec_text ex_ops)) = 195%nat.
Proof. exact line_nonvacuous. Qed.
Print Assumptions C20_line_nonvacuous.

(* Write: the same text followed by '\n' when one more byte fits *)
Theorem C20_write : forall l, wf l -> (index l < BUFSZ)%nat -> write_out l = Ok (text_of l ++ [10]).
Proof. exact write_out_text. Qed.
Print Assumptions C20_write.

(* C20_arrays_inside: ByteArray, StringArray and IPArray of ANY length (also longer than the whole
   buffer), called with the index anywhere inside the buffer, never panic and leave the index inside
   the buffer: over-long arrays are truncated, not overflowed. *)
Theorem C20_arrays_inside : forall l o,
  is_array o = true -> op_ok o -> wf l -> (index l <= BUFSZ)%nat ->
  exists l', run_op l o = Ok l' /\ wf l' /\ (index l' <= BUFSZ)%nat.
Proof. exact arrays_inside. Qed.
Print Assumptions C20_arrays_inside.

Example C20_arrays_inside_nonvacuous :
  let l := mkLine (repeat 46 BUFSZ) 2040 in
  wf l /\ (index l <= BUFSZ)%nat /\
  op_ok (OByteArr [97] (repeat 255 3000)) /\ is_array (OByteArr [97] (repeat 255 3000)) = true /\
  (BUFSZ < List.length (spec_text (OByteArr [97%N] (repeat 255%N 3000))))%nat.
Proof. exact arrays_inside_nonvacuous. Qed.
Print Assumptions C20_arrays_inside_nonvacuous.

(* Logger.Msg on any pooled buffer: the line starts with the 7-byte module tag and the quoted message *)
Theorem C20_msg : forall b0 m msg,
  List.length b0 = BUFSZ -> (List.length (msg_text m msg) <= BUFSZ)%nat ->
  exists l, msg_line b0 m msg = Ok l /\ wf l /\ index l = List.length (msg_text m msg) /\
            to_string l = Ok (msg_text m msg).
Proof. exact msg_renders. Qed.
Print Assumptions C20_msg.

(* the reference decimal text denotes its number, for every natural number (the other reference
   renderings are validated against the Go standard library by the harness) *)
Theorem C20_spec_dec_value : forall n, dec_value (dec n) = n.
Proof. exact dec_value_dec. Qed.
Print Assumptions C20_spec_dec_value.

(* ---- views and table entries (Model/FastlogViews.v): each FastLog is the list of appender calls it
   performs as a function of the view bytes / entry fields; Struct(value) is a call (VStruct).
   [view_ok]: IsValid accepts the frame and its bytes are bytes; entries: MACs are bytes, ports uint16. *)

(* the String/FastLog rendering of any valid view or table entry whose text fits never panics, and the
   text is the concatenation of the reference renderings of its fields *)
Theorem C20_view_fastlog_safe : forall v l,
  view_ok v -> wf l -> (index l <= BUFSZ)%nat -> line_fits (index l) (flatten (ops_of v)) = true ->
  exists l', run_vops l (ops_of v) = Ok l' /\
             to_string l' = Ok (text_of l ++ concat (map spec_text (flatten (ops_of v)))).
Proof. exact view_fastlog_safe. Qed.
Print Assumptions C20_view_fastlog_safe.

Theorem C20_view_fastlog_no_panic : forall v l,
  view_ok v -> wf l -> (index l <= BUFSZ)%nat -> line_fits (index l) (flatten (ops_of v)) = true ->
  run_vops l (ops_of v) <> Panic.
Proof. exact view_fastlog_no_panic. Qed.
Print Assumptions C20_view_fastlog_no_panic.

(* nineteen of the twenty byte views cannot reach a non-fitting call: on ANY valid frame (of at most 70000
   bytes), from any index up to 1600, no call panics and the index stays inside the buffer -- fifteen have a
   text of at most 400 bytes, ICMPEcho, IEEE1905, RRCP and ICMP4Redirect end in an array over the rest of the
   frame, which truncates itself *)
Theorem C20_view_bytes_total : forall k p l,
  total_kind k = true ->
  view_valid k p = true -> bytes_ok p -> frame_len_ok p -> wf l -> (index l <= 1600)%nat ->
  exists l', run_vops l (view_ops k p) = Ok l' /\ wf l' /\ (index l' <= BUFSZ)%nat.
Proof. exact view_bytes_total. Qed.
Print Assumptions C20_view_bytes_total.

(* hence String() = Logger.Msg("").Struct(p).ToString() of these views never panics *)
Theorem C20_view_string_total : forall k p b0 m,
  total_kind k = true -> view_valid k p = true -> bytes_ok p -> frame_len_ok p -> List.length b0 = BUFSZ ->
  exists l0 l' t, msg_line b0 m [] = Ok l0 /\ run_vops l0 (view_ops k p) = Ok l' /\ to_string l' = Ok t.
Proof. exact view_string_total. Qed.
Print Assumptions C20_view_string_total.

(* the exception is LLDP (total_kind KLLDP = false): its FastLog goes on after a ByteArray that had to be
   truncated; a valid 1011-byte frame whose text does NOT fit makes String() panic.  The property only covers
   views "whose text fits" (C20_view_fastlog_safe applies to LLDP with line_fits): documented, not a finding. *)
Theorem C20_view_lldp_total_refuted :
  view_valid KLLDP ex_lldp_big = true /\ bytes_ok ex_lldp_big /\ frame_len_ok ex_lldp_big /\
  run_vops (mkLine (repeat 46 BUFSZ) 7) (view_ops KLLDP ex_lldp_big) = Panic /\
  line_fits 7 (flatten (view_ops KLLDP ex_lldp_big)) = false.
Proof. exact lldp_can_panic. Qed.
Print Assumptions C20_view_lldp_total_refuted.

Example C20_views_nonvacuous :
  view_ok (VBytes KIP4 ex_ip4) /\ frame_len_ok ex_ip4 /\ view_ok (VHost ex_host) /\
  line_fits 7 (flatten (ops_of (VHost ex_host))) = true /\
  List.length (concat (map spec_text (flatten (ops_of (VBytes KIP4 ex_ip4))))) = 87%nat.
Proof. exact views_nonvacuous. Qed.
Print Assumptions C20_views_nonvacuous.

(* ---- the reference renderings denote their values: parse (render x) = x
   (Spec/TextSpecParse.v holds the readers; C20_spec_dec_value above is the decimal one) *)

Theorem C20_spec_hex2_value : forall b, b < 256 -> hex_value (hex2 b) = b.
Proof. exact hex2_value. Qed.
Print Assumptions C20_spec_hex2_value.

Theorem C20_spec_hex4_value : forall w, w < 65536 -> hex_value (hex4 w) = w.
Proof. exact hex4_value. Qed.
Print Assumptions C20_spec_hex4_value.

Theorem C20_spec_hexnl_value : forall w, w < 65536 -> hex_value (hexnl w) = w.
Proof. exact hexnl_value. Qed.
Print Assumptions C20_spec_hexnl_value.

Theorem C20_spec_mac_parse : forall m, m <> [] -> bytes_ok m -> parse_mac (mac_text m) = m.
Proof. exact mac_text_parse. Qed.
Print Assumptions C20_spec_mac_parse.

Theorem C20_spec_ip4_parse : forall a, a <> [] -> parse_ip4 (ip4_text a) = a.
Proof. exact ip4_text_parse. Qed.
Print Assumptions C20_spec_ip4_parse.

(* RFC 5952 text read back by the RFC 4291 rule ("::" = the zero groups that make eight) gives the eight groups *)
Theorem C20_spec_ip6_parse : forall g,
  List.length g = 8%nat -> Forall (fun w => w < 65536) g -> parse_ip6 (ip6_plain g) = g.
Proof. exact ip6_plain_parse. Qed.
Print Assumptions C20_spec_ip6_parse.

(* netip's text of any 16-byte address, "::ffff:a.b.c.d" for the IPv4-mapped ones, reads back to its groups *)
Theorem C20_spec_ip6_text_parse : forall b,
  List.length b = 16%nat -> bytes_ok b -> parse_ip6_text (ip6_text b) = groups b.
Proof. exact ip6_text_parse. Qed.
Print Assumptions C20_spec_ip6_text_parse.

(* ---- calls that do NOT fit (the property promises faithful lines only "whenever it fits") *)

(* BOUNDED, for ALL sequences of calls with ALL arguments: from a line inside its buffer (2048 bytes, index <= 2048)
   every call that returns leaves the line inside its buffer -- the write index never exceeds the buffer *)
Theorem C20_index_bounded : forall os l l', ins l -> run_ops l os = Ok l' -> ins l'.
Proof. exact run_ops_keeps. Qed.
Print Assumptions C20_index_bounded.

(* hence ToString and Write never panic after any sequence of calls that returned *)
Theorem C20_tostring_total : forall os l l', ins l -> run_ops l os = Ok l' -> to_string l' = Ok (text_of l').
Proof. exact to_string_total. Qed.
Print Assumptions C20_tostring_total.

Theorem C20_write_total : forall os l l', ins l -> run_ops l os = Ok l' -> exists t, write_out l' = Ok t.
Proof. exact write_total. Qed.
Print Assumptions C20_write_total.

(* appendByte on a full line panics *)
Theorem C20_nofit_append_byte : forall l b, (BUFSZ <= index l)%nat -> append_byte l b = Panic.
Proof. exact append_byte_full. Qed.
Print Assumptions C20_nofit_append_byte.

(* copy never panics inside the buffer: it cuts the value at byte 2048 *)
Theorem C20_nofit_copy_truncates : forall l s, wf l -> (index l <= BUFSZ)%nat ->
  exists l', copy_in l s = Ok l' /\ wf l' /\ index l' = Nat.min (index l + List.length s) BUFSZ /\
             text_of l' = text_of l ++ firstn (BUFSZ - index l) s.
Proof. exact copy_in_truncates. Qed.
Print Assumptions C20_nofit_copy_truncates.

(* ToString panics exactly when the index has passed the buffer *)
Theorem C20_tostring_panics_iff : forall l, to_string l = Panic <-> (BUFSZ < index l)%nat.
Proof. exact to_string_panics. Qed.
Print Assumptions C20_tostring_panics_iff.

(* the outcomes of a non-fitting scalar call: panic in appendByte, or a silent cut at byte 2048 (copy, and IP since its repair) *)
Example C20_nofit_panics : run_op (full_line 2047) (OUint [97] 7) = Panic.
Proof. exact nofit_panics. Qed.
Print Assumptions C20_nofit_panics.

Example C20_nofit_truncates :
  exists l', run_op (full_line 2040) (OBytes [97] [49; 50; 51; 52; 53; 54; 55; 56; 57]) = Ok l' /\
             index l' = BUFSZ /\ skipn 2040 (text_of l') = [32; 97; 61; 49; 50; 51; 52; 53].
Proof. exact nofit_truncates. Qed.
Print Assumptions C20_nofit_truncates.

Example C20_nofit_ip_truncates :
  exists l', run_op (full_line 2040) (OIP [97] (Some [10; 0; 0; 1]) [49; 48; 46; 48; 46; 48; 46; 49]) = Ok l' /\
             index l' = BUFSZ /\ skipn 2040 (text_of l') = [32; 97; 61; 49; 48; 46; 48; 46] /\
             to_string l' = Ok (text_of l').
Proof. exact nofit_ip_truncates. Qed.
Print Assumptions C20_nofit_ip_truncates.

(* ---- the writer and the pool as state (Model/FastlogPool.v): histories of Msg / appender / Write / ToString calls
   on several lines alive at once; the pool is a multiset of free buffers, Msg takes one (or allocates), Write and
   ToString return theirs exactly once whatever the writer answered.  [hist_ok]: handles are used as handles
   (Msg on an unused one, everything else on a live one). *)

(* in every history no buffer is owned by two live lines and no live line's buffer is in the pool *)
Theorem C20_line_exclusive : forall hs, hist_ok pinit hs = true ->
  let s := prun hs in
  NoDup (ids (live s)) /\ (forall e, In e (live s) -> ~ In (lv_id e) (free s)).
Proof. exact line_exclusive. Qed.
Print Assumptions C20_line_exclusive.

(* hence every live line is its own message followed by its own fields, whatever the other lines and the writers
   did: C20_msg and C20_line (faithful when it fits) apply to each interleaved line *)
Theorem C20_line_own : forall hs, hist_ok pinit hs = true ->
  forall e, In e (live (prun hs)) ->
  exists b0, List.length b0 = BUFSZ /\
    heap (prun hs) (lv_id e) = (l0 <- msg_line b0 (lv_m e) (lv_s e) ;; run_ops l0 (lv_ops e))%res.
Proof. exact line_own. Qed.
Print Assumptions C20_line_own.

Example C20_line_exclusive_nonvacuous :
  hist_ok pinit ex_hist = true /\ List.length (live (prun ex_hist)) = 2%nat /\ List.length (free (prun ex_hist)) = 1%nat.
Proof. exact line_exclusive_nonvacuous. Qed.
Print Assumptions C20_line_exclusive_nonvacuous.

(* ---- the six witnesses on which the code as found failed (Properties/C20_asfound.v), on the repaired code *)

Example C20_repaired_ip6_run2 :
  text_or_nil (f_ipslice (line_at 0) [97] (Some ip_run2)) = [32; 97; 61; 49; 58; 58; 50; 58; 51; 58; 52; 58; 53; 58; 54].  (* " a=1::2:3:4:5:6" *)
Proof. exact repaired_ip6_run2. Qed.
Print Assumptions C20_repaired_ip6_run2.

Example C20_repaired_ip6_exact_fit :
  is_ok (f_ipslice (line_at 2038) [97] (Some ip_lla)) = true /\
  List.length (text_or_nil (f_ipslice (line_at 2038) [97] (Some ip_lla))) = BUFSZ.
Proof. exact repaired_ip6_exact_fit. Qed.
Print Assumptions C20_repaired_ip6_exact_fit.

Example C20_repaired_iparray_ip4 :
  text_or_nil (f_ip_array (line_at 0) [97] [Some [1; 2; 3; 4]; Some [5; 6; 7; 8]])
  = text_of (line_at 0) ++ spec_text (OIPArr [97] [Some [1; 2; 3; 4]; Some [5; 6; 7; 8]]).
Proof. exact repaired_iparray_ip4. Qed.
Print Assumptions C20_repaired_iparray_ip4.

Example C20_repaired_iparray_room : is_ok (f_ip_array (line_at 2012) [97] [Some ip_full]) = true.
Proof. exact repaired_iparray_room. Qed.
Print Assumptions C20_repaired_iparray_room.

Example C20_repaired_bytearray_bound : f_byte_array (line_at 2040) [97] [1; 2; 3] = Ok (line_at 2040).
Proof. exact repaired_bytearray_bound. Qed.
Print Assumptions C20_repaired_bytearray_bound.

Example C20_repaired_index_past :
  match f_ip (line_at 2040) [97] (Some [49; 48; 46; 48; 46; 48; 46; 49]) with Ok l => Nat.leb (index l) BUFSZ | _ => false end = true.
Proof. exact repaired_index_past. Qed.
Print Assumptions C20_repaired_index_past.

