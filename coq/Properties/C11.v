(* Properties/C11.v — DHCP never leases one address to two clients or hands out
   a reserved address.  Only statements, each closed by [exact] of a lemma
   proved in Proofs/DHCP*.v. *)
From PV Require Import Base.Prelude Model.DHCP Spec.DHCP Spec.DHCPCheck Proofs.DHCP Proofs.DHCPRefuted.
Open Scope N_scope.

(* The lease table is a map: over every history (any ops, any map-iteration
   oracle) no two entries carry the same client identifier. *)
Theorem C11_table_keys_unique : forall c h,
  NoDup (map l_cid (tbl (fst (run c (init c) h)))).
Proof. exact table_keys_unique. Qed.
Print Assumptions C11_table_keys_unique.

(* The executable check used by the correspondence run decides the invariant. *)
Theorem C11_uniqb_spec : forall t, uniqb t = true <-> Uniq t.
Proof. exact uniqb_spec. Qed.
Print Assumptions C11_uniqb_spec.

(* UNCHANGED CODE: the three C11 statements are false of the faithful model
   (witness histories of corpus/C11/witnesses.txt, replayed on the real code). *)
Theorem C11_uniq_refuted : exists c h, ~ Uniq (tbl (fst (run c (init c) h))).
Proof. exact uniq_refuted. Qed.
Print Assumptions C11_uniq_refuted.

Theorem C11_no_offer_of_acked_refuted : exists c h t m r,
  In t (trace c (init c) h) /\ op_msg (t_op t) = Some m /\ t_reply t = Some r /\
  r_type r = ROffer /\ acked_to_other (tbl (t_post t)) (getcid m) (r_yi r) = true.
Proof. exact no_offer_of_acked_refuted. Qed.
Print Assumptions C11_no_offer_of_acked_refuted.

Theorem C11_reserved_refuted : exists c h t m r,
  In t (trace c (init c) h) /\ op_msg (t_op t) = Some m /\ t_reply t = Some r /\
  r_type r = RAck /\ reserved c (sess_at c (t_pre t) m) (client_net c (t_pre t) m) (m_chaddr m) (r_yi r) = true.
Proof. exact reserved_refuted. Qed.
Print Assumptions C11_reserved_refuted.
