(* Properties/C11.v — DHCP never leases one address to two clients or hands out
   a reserved address.  Only statements, each closed by [exact] of a lemma
   proved in Proofs/DHCP*.v. *)
From PV Require Import Base.Prelude Model.DHCP Spec.DHCP Spec.DHCPCheck Proofs.DHCP.
Open Scope N_scope.

(* The lease table is a map: over every history (any ops, any map-iteration
   oracle) no two entries carry the same client identifier. *)
Theorem C11_table_keys_unique : forall c h,
  NoDup (map l_cid (tbl (fst (run c (init c) h)))).
Proof. exact table_keys_unique. Qed.
Print Assumptions C11_table_keys_unique.

(* The executable check used by the correspondence run decides the invariant. *)
Theorem C11_uniqb_spec : forall t, uniqb t = true <-> Uniq t.
Proof. exact uniqb_spec. Qed.
Print Assumptions C11_uniqb_spec.
