(* Properties/C11.v — DHCP never leases one address to two clients or hands out
   a reserved address.  Only statements, each closed by [exact] of a lemma
   proved in Proofs/DHCP*.v.

   All statements quantify over every configuration c, every history h (ops
   DISCOVER/REQUEST/DECLINE/RELEASE with arbitrary decoded fields, Capture /
   Release of any MAC, MinuteTicker at any time, each op with its own
   map-iteration oracle and clock value) of the model of the REPAIRED code
   (fixes 7baf630 c9f204c d6f86b5 in /repo; see FIXLOG.md). *)
From PV Require Import Base.Prelude Base.Text Model.DHCP Model.DHCPShow Spec.DHCP Spec.DHCPCheck
  Proofs.DHCP Proofs.DHCPInv Proofs.DHCPReply Proofs.DHCPTie Proofs.DHCPRestart Proofs.DHCPGrant Proofs.DHCPClauses Proofs.DHCPRestored Proofs.DHCPRefuted.
Open Scope list_scope.
Open Scope N_scope.

(* The lease table is a map: no two entries carry the same client identifier. *)
Theorem C11_table_keys_unique : forall c h,
  NoDup (map l_cid (tbl (fst (run c (init c) h)))).
Proof. exact table_keys_unique. Qed.
Print Assumptions C11_table_keys_unique.

(* The executable check used by the correspondence run decides the invariant. *)
Theorem C11_uniqb_spec : forall t, uniqb t = true <-> Uniq t.
Proof. exact uniqb_spec. Qed.
Print Assumptions C11_uniqb_spec.

(* No address is ever acknowledged to two different client identifiers. *)
Theorem C11_uniq : forall c h, Uniq (tbl (fst (run c (init c) h))).
Proof. exact uniq_all. Qed.
Print Assumptions C11_uniq.

(* The same with "still acknowledged" read from the clock (unexpired at any instant now): a
   consequence — the server treats an expired lease as acknowledged until MinuteTicker frees it
   (taken() and the session keep blocking the address), which only strengthens C11. *)
Theorem C11_uniq_unexpired : forall c h now, Uniq_at now (tbl (fst (run c (init c) h))).
Proof. exact uniq_at_all. Qed.
Print Assumptions C11_uniq_unexpired.

(* No OFFER (and no ACK) names an address that is, at that step, acknowledged to
   another client identifier. *)
Theorem C11_no_offer_of_acked : forall c h t m r,
  In t (trace c (init c) h) -> op_msg (t_op t) = Some m -> t_reply t = Some r ->
  c11_not_acked_elsewhere (t_post t) m r = true.
Proof. exact not_acked_elsewhere_all. Qed.
Print Assumptions C11_no_offer_of_acked.

(* [sub_ok c]: the subnets the handler holds are those of its configuration — by construction for a
   handler built without a lease file (Example C11_sub_ok_example), by theorem
   C12_stale_file_config for one built on any lease file. *)
(* No OFFER/ACK names the host's own address, the router's, the network or broadcast
   address of the client's subnet (by its capture state at that moment), an address
   outside that subnet, or one the session then tracks for a different MAC. *)
Theorem C11_reserved : forall c h t m r,
  sub_ok c -> In t (trace c (init c) h) -> op_msg (t_op t) = Some m -> t_reply t = Some r ->
  c11_not_reserved c (t_pre t) m r = true.
Proof. exact not_reserved_all. Qed.
Print Assumptions C11_reserved.

(* The spec column of the dispatch module D11 (the list of failed C11 demands per step,
   evaluated on the model's trace) is empty along every history: an alarm "viol ..." of
   the extracted model is impossible, so every alarm of the run is a model/implementation
   disagreement. *)
Theorem C11_spec_column_never_fails : forall c h t, sub_ok c -> In t (trace c (init c) h) -> c11_fails c t = [].
Proof. exact c11_fails_nil. Qed.
Print Assumptions C11_spec_column_never_fails.

(* What the server PROMISES against what it RECORDS.  For every ACK, from any state along any history: the
   binding of that client id is recorded (state Allocated) at least until the clock value of the ACK plus
   the lease time the ACK grants in option 51 (both are now + 4 h in the current code). *)
Theorem C11_record_covers_grant : forall c s h t, In t (trace c s h) -> record_covers_grant t = true.
Proof. exact record_covers_any_state. Qed.
Print Assumptions C11_record_covers_grant.

(* "Still acknowledged" judged by the GRANTED time.  ghost_fails replays the history with a ghost record of
   the ACKs the clients hold (client id, address, until = clock of the ACK + granted time; a grant ends at
   [until] or with the client's next message; time = the largest clock value seen so far) and flags every
   OFFER/ACK of an address for which another client id's grant is still running: never. *)
Theorem C11_granted_never_conflicts : forall c h,
  all_nil (ghost_fails 0 [] (trace c (init c) h)) = true.
Proof. exact granted_never_conflicts. Qed.
Print Assumptions C11_granted_never_conflicts.

(* Restart (lease expiry survives).  The lease file always holds every acknowledged lease exactly as it is
   in memory: every ACK — first acknowledgement or renewal — rewrites it, and a step that does not
   rewrite it changes no acknowledged lease (histories without the test hook OSetExp). *)
Theorem C11_lease_file_invariant : forall c h s saved,
  forallb (fun p => negb (is_hook (snd p))) h = true ->
  run_saving c (init c) [] h = (s, saved) -> in_file s saved.
Proof. exact lease_file_invariant. Qed.
Print Assumptions C11_lease_file_invariant.

(* Hence the expiry restart_state restores is the expiry of the lease's last ACK: every lease acknowledged
   in the final state of run 1 (and passing loadByteArray's filter: address in net1, non-empty client id) is
   acknowledged in the initial state of run 2 for the same address with the same expiry — a lease
   unexpired when run 1 ended is unexpired when run 2 starts, so MinuteTicker cannot free it, and
   C11's clauses keep its address away from other clients, before that expiry. *)
Theorem C11_restart_expiry : forall cA cB pre h sA saved l x,
  forallb (fun p => negb (is_hook (snd p))) h = true ->
  run_saving cA (init cA) [] h = (sA, saved) ->
  sub_changed (wanted cB) (c_sub cA) = false ->
  In l (tbl sA) -> l_state l = SAllocated -> l_ip l = Some x ->
  n_contains (loaded_cfg (c_sub cA) cB) false x = true -> l_cid l <> 1 ->
  exists l', In l' (tbl (restart_state (c_sub cA) cB pre saved)) /\ l_cid l' = l_cid l /\
             l_state l' = SAllocated /\ l_ip l' = Some x /\ l_mac l' = l_mac l /\ l_exp l' = l_exp l.
Proof. exact restart_expiry. Qed.
Print Assumptions C11_restart_expiry.

Example C11_restart_expiry_example :
  let '(sA, saved) := run_saving wcfgR (init wcfgR) [] (with_ch0 wren) in
  map (fun l => (l_state l, l_ip l, l_exp l)) (tbl (restart_state (c_sub wcfgR) wcfgR [] saved))
  = [(SAllocated, Some 3232235522, 15400%Z)].
Proof. exact restart_expiry_example. Qed.
Print Assumptions C11_restart_expiry_example.

(* Non-vacuity: a history whose steps answer OFFER, ACK (home pool), OFFER, ACK
   (netfilter pool, captured client) and a renewal ACK. *)
Example C11_live_example :
  map (fun t => match t_reply t with Some r => (r_type r, r_yi r) | None => (RNak, 0) end)
      (trace wcfg (init wcfg) (with_ch0 wlive))
  = [(ROffer, 3232235522); (RAck, 3232235522); (RNak, 0); (ROffer, 3232235532); (RAck, 3232235532); (RAck, 3232235522)].
Proof. exact live_example. Qed.
Print Assumptions C11_live_example.

Example C11_sub_ok_example : sub_ok wcfg.
Proof. exact (sub_ok_wanted _). Qed.
Print Assumptions C11_sub_ok_example.

(* ---------------------------------------------------------------- *)
(* The clauses of the property one by one.  Each: for every configuration c, every history h (any ops, any
   number of client ids and MACs, any pool size), every step t of its trace, every OFFER/ACK r to message m. *)

(* never ACK/OFFER an address that is, at that step, acknowledged to a different client identifier *)
Theorem C11_clause_not_acked_elsewhere : forall c h t m r,
  In t (trace c (init c) h) -> op_msg (t_op t) = Some m -> t_reply t = Some r -> is_lease_reply r = true ->
  forall l, In l (tbl (t_post t)) -> l_state l = SAllocated -> l_ip l = Some (r_yi r) -> l_cid l = getcid m.
Proof. exact never_acked_elsewhere. Qed.
Print Assumptions C11_clause_not_acked_elsewhere.

Theorem C11_clause_never_own : forall c h t r,
  In t (trace c (init c) h) -> t_reply t = Some r -> is_lease_reply r = true -> r_yi r <> c_hostip c.
Proof. exact never_own. Qed.
Print Assumptions C11_clause_never_own.

Theorem C11_clause_never_router : forall c h t r,
  In t (trace c (init c) h) -> t_reply t = Some r -> is_lease_reply r = true -> r_yi r <> c_routerip c.
Proof. exact never_router. Qed.
Print Assumptions C11_clause_never_router.

Theorem C11_clause_never_network : forall c h t m r,
  In t (trace c (init c) h) -> op_msg (t_op t) = Some m -> t_reply t = Some r -> is_lease_reply r = true ->
  sub_ok c -> r_yi r <> want_lan c (client_net c (t_pre t) m).
Proof. exact never_network. Qed.
Print Assumptions C11_clause_never_network.

Theorem C11_clause_never_broadcast : forall c h t m r,
  In t (trace c (init c) h) -> op_msg (t_op t) = Some m -> t_reply t = Some r -> is_lease_reply r = true ->
  sub_ok c -> r_yi r <> want_bcast c (client_net c (t_pre t) m).
Proof. exact never_broadcast. Qed.
Print Assumptions C11_clause_never_broadcast.

Theorem C11_clause_never_outside : forall c h t m r,
  In t (trace c (init c) h) -> op_msg (t_op t) = Some m -> t_reply t = Some r -> is_lease_reply r = true ->
  sub_ok c -> want_contains c (client_net c (t_pre t) m) (r_yi r) = true.
Proof. exact never_outside. Qed.
Print Assumptions C11_clause_never_outside.

Theorem C11_clause_never_tracked_for_other_mac : forall c h t m r,
  In t (trace c (init c) h) -> op_msg (t_op t) = Some m -> t_reply t = Some r -> is_lease_reply r = true ->
  forall m', sess_find (sess_at c (t_pre t) m) (r_yi r) = Some m' -> m' = m_chaddr m.
Proof. exact never_tracked_other. Qed.
Print Assumptions C11_clause_never_tracked_for_other_mac.

(* The pool scan of allocIPOffer (cursor scan, wrap-around scan).  Exhaustion yields no offer rather than a
   duplicate: the allocation fails only when the requested address was refused and NO address of the pool
   [first, broadcast) is available; an offer of the scan is an available pool address, taken from the cursor
   on or — when nothing from the cursor to the end is available — from the first pool address on; the
   DISCOVER of an exhausted pool is answered with silence and leaves no lease for that client id. *)
Theorem C11_pool_exhaustion : forall c ch s l req s2,
  allocIPOffer c ch s l req = (None, s2) ->
  phase1 c ch s l req = None /\
  forall x, n_first c (l_net2 l) <= x -> x < n_bcast c (l_net2 l) -> avail ch s x = false.
Proof. exact alloc_exhausted. Qed.
Print Assumptions C11_pool_exhaustion.

Theorem C11_pool_wraparound : forall c ch s l req x s2,
  allocIPOffer c ch s l req = (Some x, s2) -> phase1 c ch s l req = None ->
  avail ch s x = true /\ x < n_bcast c (l_net2 l) /\
  (get_next s (l_net2 l) <= x \/
   (n_first c (l_net2 l) <= x /\ forall y, get_next s (l_net2 l) <= y -> y < n_bcast c (l_net2 l) -> avail ch s y = false)).
Proof. exact alloc_offer_available. Qed.
Print Assumptions C11_pool_wraparound.

Theorem C11_exhausted_discover_silent : forall c ch now s0 m s',
  handleDiscover c ch now s0 m = (s', None) -> tget (getcid m) (tbl s') = None.
Proof. exact discover_exhausted_silent. Qed.
Print Assumptions C11_exhausted_discover_silent.

(* ---------------------------------------------------------------- *)
(* The central clause from a RESTORED table.  What loadByteArray guarantees (restore): one entry per client
   id, acknowledged addresses unique — whatever the capture state of the session at load time (which only
   decides the subnet a restored lease points at).  Uniqueness of acknowledged addresses needs no fact
   about the session (whose hosts are forgotten by a restart), only the table half of taken(). *)
Theorem C11_loader_guarantee : forall cL se saved, UWl saved -> UWl (restore cL se saved).
Proof. exact restore_uw. Qed.
Print Assumptions C11_loader_guarantee.

Theorem C11_uniq_after_restart : forall cA cB pre hA sA saved h,
  run_saving cA (init cA) [] hA = (sA, saved) ->
  Uniq (tbl (fst (run (loaded_cfg (c_sub cA) cB) (restart_state (c_sub cA) cB pre saved) h))).
Proof. exact uniq_after_restart. Qed.
Print Assumptions C11_uniq_after_restart.

Theorem C11_uniq_from_any_state : forall c s h,
  NoDup (map l_cid (tbl s)) -> Uniq (tbl s) -> Uniq (tbl (fst (run c s h))).
Proof. exact uniq_from_any_state. Qed.
Print Assumptions C11_uniq_from_any_state.

(* The configuration value domain.  For every raw configuration that (Config).New accepts — any form of
   Config.DNSServer, any Mode, any accepted prefixes — a restart with the SAME configuration on the file the
   first handler left finds the configuration unchanged (configChanged compares normalised values on both
   sides) and restores the saved bindings: no binding is lost, so (C11_restart_expiry, C11_uniq_after_restart)
   a still running lease is not handed to another client. *)
Theorem C11_restart_same_config_keeps_table : forall r c pre saved,
  new_cfg r = Some c ->
  c_sub c = wanted c /\
  sub_changed (wanted c) (c_sub c) = false /\
  loaded_cfg (c_sub c) c = c /\
  tbl (restart_state (c_sub c) c pre saved) = restore c (sess_pre c pre) saved.
Proof. exact restart_same_config_keeps_table. Qed.
Print Assumptions C11_restart_same_config_keeps_table.

(* the clauses "never the network / broadcast address of the client's subnet" at the loader: a restored lease
   that the loader attaches to the netfilter subnet (its MAC captured at load time) holds an address strictly
   inside that subnet, whatever the lease file held (fix d15f9fe; before, a home-LAN binding at net2's network
   address was re-attached to net2 and renewed with net2's mask) *)
Theorem C11_loader_never_network_broadcast : forall cL se saved l x,
  In l (restore cL se saved) -> l_net2 l = true -> l_ip l = Some x -> in_pool cL true x.
Proof. exact restore_net2_in_pool. Qed.
Print Assumptions C11_loader_never_network_broadcast.
