(* Properties/C01_views.v -- C01, view types: T.IsValid()==nil implies that every zero-argument
   method of T (the explicit table T_getters, checked against the real method set by reflection in
   harness/cmd/c01v) neither panics nor runs out of fuel and that every slice it returns lies inside
   [0, len v) -- for every capacity (the slice v carries its storage up to the capacity).
   [getters_ok fs t v] = Forall getters g of t: unless (name g, v) is in a recorded defect class of fs,
   safe (g v) /\ inside v (g v).  Full theorems have fs = []; where the real code violates the
   statement the class is refuted by witness and the theorem is proved on its complement (_partial).
   T_len_only: two views with the same bytes within the length (any capacities) give equal results.
   Only statements, each closed by [exact]; generated layout, proofs in Proofs/Views*.v. *)
From PV Require Import Model.ViewsShow Spec.Views Proofs.ViewsBase Proofs.Views.
Open Scope N_scope.

Theorem C01_ARP_getters_safe : forall v, wf v -> bytes_ok (arr v) ->
  ARP_IsValid v = Ok true -> getters_ok [] ARP_getters v.
Proof. exact ARP_safe. Qed.
Print Assumptions C01_ARP_getters_safe.
Theorem C01_ARP_len_only : forall v v', wf v -> wf v' -> bytes_ok (arr v) -> bytes_ok (arr v') ->
  ARP_IsValid v = Ok true -> ARP_IsValid v' = Ok true -> view v = view v' ->
  getters_len_only [] ARP_getters v v'.
Proof. exact ARP_len_only. Qed.
Print Assumptions C01_ARP_len_only.

Theorem C01_Ether_getters_safe_partial : forall v, wf v -> bytes_ok (arr v) ->
  Ether_IsValid v = Ok true -> getters_ok Ether_findings Ether_getters v.
Proof. exact Ether_safe. Qed.
Print Assumptions C01_Ether_getters_safe_partial.
Theorem C01_Ether_len_only_partial : forall v v', wf v -> wf v' -> bytes_ok (arr v) -> bytes_ok (arr v') ->
  Ether_IsValid v = Ok true -> Ether_IsValid v' = Ok true -> view v = view v' ->
  getters_len_only Ether_findings Ether_getters v v'.
Proof. exact Ether_len_only. Qed.
Print Assumptions C01_Ether_len_only_partial.

Theorem C01_IP4_getters_safe_partial : forall v, wf v -> bytes_ok (arr v) ->
  IP4_IsValid v = Ok true -> getters_ok IP4_findings_C01 IP4_getters v.
Proof. exact IP4_safe. Qed.
Print Assumptions C01_IP4_getters_safe_partial.
Theorem C01_IP4_len_only_partial : forall v v', wf v -> wf v' -> bytes_ok (arr v) -> bytes_ok (arr v') ->
  IP4_IsValid v = Ok true -> IP4_IsValid v' = Ok true -> view v = view v' ->
  getters_len_only IP4_findings_C02 IP4_getters v v'.
Proof. exact IP4_len_only. Qed.
Print Assumptions C01_IP4_len_only_partial.

Theorem C01_TCP_getters_safe_partial : forall v, wf v -> bytes_ok (arr v) ->
  TCP_IsValid v = Ok true -> getters_ok TCP_findings_C01 TCP_getters v.
Proof. exact TCP_safe. Qed.
Print Assumptions C01_TCP_getters_safe_partial.
Theorem C01_TCP_len_only_partial : forall v v', wf v -> wf v' -> bytes_ok (arr v) -> bytes_ok (arr v') ->
  TCP_IsValid v = Ok true -> TCP_IsValid v' = Ok true -> view v = view v' ->
  getters_len_only TCP_findings_C02 TCP_getters v v'.
Proof. exact TCP_len_only. Qed.
Print Assumptions C01_TCP_len_only_partial.

Theorem C01_UDP_getters_safe : forall v, wf v -> bytes_ok (arr v) ->
  UDP_IsValid v = Ok true -> getters_ok [] UDP_getters v.
Proof. exact UDP_safe. Qed.
Print Assumptions C01_UDP_getters_safe.
Theorem C01_UDP_len_only : forall v v', wf v -> wf v' -> bytes_ok (arr v) -> bytes_ok (arr v') ->
  UDP_IsValid v = Ok true -> UDP_IsValid v' = Ok true -> view v = view v' ->
  getters_len_only [] UDP_getters v v'.
Proof. exact UDP_len_only. Qed.
Print Assumptions C01_UDP_len_only.

(* ---- refutations of the full statement on the real code's model (DESIGN section 11 #3, #8) ---- *)
Theorem C01_IP4_getters_safe_refuted :
  exists v, wf v /\ bytes_ok (arr v) /\ IP4_IsValid v = Ok true /\ IP4_Payload v = Panic.
Proof. exact IP4_payload_refuted. Qed.
Print Assumptions C01_IP4_getters_safe_refuted.
Theorem C01_Ether_payload_inside_refuted :
  exists v, wf v /\ bytes_ok (arr v) /\ Ether_IsValid v = Ok true /\ ~ getter_ok v Ether_Payload.
Proof. exact Ether_payload_refuted. Qed.
Print Assumptions C01_Ether_payload_inside_refuted.
Theorem C01_Ether_payload_len_only_refuted :
  exists v v', wf v /\ wf v' /\ view v = view v' /\ Ether_IsValid v = Ok true /\ Ether_IsValid v' = Ok true /\
               Ether_Payload v <> Ether_Payload v'.
Proof. exact Ether_payload_capacity_refuted. Qed.
Print Assumptions C01_Ether_payload_len_only_refuted.
Theorem C01_Ether_srcip_dstip_refuted :
  exists v, wf v /\ bytes_ok (arr v) /\ Ether_IsValid v = Ok true /\ Ether_SrcIP v = Panic /\ Ether_DstIP v = Panic.
Proof. exact Ether_srcip_refuted. Qed.
Print Assumptions C01_Ether_srcip_dstip_refuted.

(* ---- non-vacuity: valid views outside every recorded class ---- *)
Example C01_IP4_nonvacuous : wf ex_ip4 /\ bytes_ok (arr ex_ip4) /\ IP4_IsValid ex_ip4 = Ok true /\
  forallb (fun ng => negb (known_of IP4_findings_C02 (fst ng) ex_ip4)) IP4_getters = true.
Proof. exact IP4_valid_ex. Qed.
Print Assumptions C01_IP4_nonvacuous.
Example C01_Ether_nonvacuous : wf ex_ether /\ bytes_ok (arr ex_ether) /\ Ether_IsValid ex_ether = Ok true /\
  forallb (fun ng => negb (known_of Ether_findings (fst ng) ex_ether)) Ether_getters = true.
Proof. exact Ether_valid_ex. Qed.
Print Assumptions C01_Ether_nonvacuous.
Example C01_TCP_nonvacuous : wf ex_tcp /\ bytes_ok (arr ex_tcp) /\ TCP_IsValid ex_tcp = Ok true /\
  forallb (fun ng => negb (known_of TCP_findings_C02 (fst ng) ex_tcp)) TCP_getters = true.
Proof. exact TCP_valid_ex. Qed.
Print Assumptions C01_TCP_nonvacuous.
Example C01_UDP_nonvacuous : wf ex_udp /\ bytes_ok (arr ex_udp) /\ UDP_IsValid ex_udp = Ok true.
Proof. exact UDP_valid_ex. Qed.
Print Assumptions C01_UDP_nonvacuous.
Example C01_ARP_nonvacuous : wf ex_arp /\ bytes_ok (arr ex_arp) /\ ARP_IsValid ex_arp = Ok true.
Proof. exact ARP_valid_ex. Qed.
Print Assumptions C01_ARP_nonvacuous.
