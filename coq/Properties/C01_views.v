(* Properties/C01_views.v -- C01, view types: T.IsValid()==nil implies that every zero-argument
   method of T (the explicit table T_getters, checked against the real method set by reflection in
   harness/cmd/c01v) neither panics nor runs out of fuel and that every slice it returns lies inside
   [0, len v) -- for every capacity (the slice v carries its storage up to the capacity).
   [getters_ok fs t v] = Forall getters g of t: unless (name g, v) is in a recorded defect class of fs,
   safe (g v) /\ inside v (g v).  Full theorems have fs = []; where the real code violates the
   statement the class is refuted by witness and the theorem is proved on its complement (_partial).
   T_len_only: two views with the same bytes within the length (any capacities) give equal results.
   Only statements, each closed by [exact]; generated layout, proofs in Proofs/Views*.v. *)
From PV Require Import Model.ViewsShow Spec.Views Proofs.ViewsBase Proofs.Views5 Proofs.Views Proofs.Views2 Proofs.Views3 Proofs.Views4 Proofs.Views6 Proofs.ViewsLen.
Open Scope N_scope.

Theorem C01_ARP_getters_safe : forall v, wf v -> bytes_ok (arr v) ->
  ARP_IsValid v = Ok true -> getters_ok [] ARP_getters v.
Proof. exact ARP_safe. Qed.
Print Assumptions C01_ARP_getters_safe.
Theorem C01_ARP_len_only : forall v v', wf v -> wf v' -> bytes_ok (arr v) -> bytes_ok (arr v') ->
  ARP_IsValid v = Ok true -> ARP_IsValid v' = Ok true -> view v = view v' ->
  getters_len_only [] ARP_getters ARP_specs v v'.
Proof. exact ARP_len_only. Qed.
Print Assumptions C01_ARP_len_only.

Theorem C01_DHCP4_getters_safe : forall v, wf v -> bytes_ok (arr v) ->
  DHCP4_IsValid v = Ok true -> getters_ok [] DHCP4_getters v.
Proof. exact DHCP4_safe. Qed.
Print Assumptions C01_DHCP4_getters_safe.
Theorem C01_DHCP4_len_only : forall v v', wf v -> wf v' -> bytes_ok (arr v) -> bytes_ok (arr v') ->
  DHCP4_IsValid v = Ok true -> DHCP4_IsValid v' = Ok true -> view v = view v' ->
  getters_len_only [] DHCP4_getters DHCP4_specs v v'.
Proof. exact DHCP4_len_only. Qed.
Print Assumptions C01_DHCP4_len_only.

Theorem C01_DNS_getters_safe : forall v, wf v -> bytes_ok (arr v) ->
  DNS_IsValid v = Ok true -> getters_ok [] DNS_getters v.
Proof. exact DNS_safe. Qed.
Print Assumptions C01_DNS_getters_safe.
Theorem C01_DNS_len_only : forall v v', wf v -> wf v' -> bytes_ok (arr v) -> bytes_ok (arr v') ->
  DNS_IsValid v = Ok true -> DNS_IsValid v' = Ok true -> view v = view v' ->
  getters_len_only [] DNS_getters DNS_specs v v'.
Proof. exact DNS_len_only. Qed.
Print Assumptions C01_DNS_len_only.

Theorem C01_Ether_getters_safe_partial : forall v, wf v -> bytes_ok (arr v) ->
  Ether_IsValid v = Ok true -> getters_ok Ether_findings Ether_getters v.
Proof. exact Ether_safe. Qed.
Print Assumptions C01_Ether_getters_safe_partial.
Theorem C01_Ether_len_only_partial : forall v v', wf v -> wf v' -> bytes_ok (arr v) -> bytes_ok (arr v') ->
  Ether_IsValid v = Ok true -> Ether_IsValid v' = Ok true -> view v = view v' ->
  getters_len_only Ether_findings Ether_getters Ether_specs v v'.
Proof. exact Ether_len_only. Qed.
Print Assumptions C01_Ether_len_only_partial.

Theorem C01_Pause_getters_safe : forall v, wf v -> bytes_ok (arr v) ->
  Pause_IsValid v = Ok true -> getters_ok [] Pause_getters v.
Proof. exact Pause_safe. Qed.
Print Assumptions C01_Pause_getters_safe.
Theorem C01_Pause_len_only : forall v v', wf v -> wf v' -> bytes_ok (arr v) -> bytes_ok (arr v') ->
  Pause_IsValid v = Ok true -> Pause_IsValid v' = Ok true -> view v = view v' ->
  getters_len_only [] Pause_getters Pause_specs v v'.
Proof. exact Pause_len_only. Qed.
Print Assumptions C01_Pause_len_only.

Theorem C01_HBH_getters_safe : forall v, wf v -> bytes_ok (arr v) ->
  HBH_IsValid v = Ok true -> getters_ok [] HBH_getters v.
Proof. exact HBH_safe. Qed.
Print Assumptions C01_HBH_getters_safe.
Theorem C01_HBH_len_only : forall v v', wf v -> wf v' -> bytes_ok (arr v) -> bytes_ok (arr v') ->
  HBH_IsValid v = Ok true -> HBH_IsValid v' = Ok true -> view v = view v' ->
  getters_len_only [] HBH_getters HBH_specs v v'.
Proof. exact HBH_len_only. Qed.
Print Assumptions C01_HBH_len_only.

Theorem C01_ICMP_getters_safe : forall v, wf v -> bytes_ok (arr v) ->
  ICMP_IsValid v = Ok true -> getters_ok [] ICMP_getters v.
Proof. exact ICMP_safe. Qed.
Print Assumptions C01_ICMP_getters_safe.
Theorem C01_ICMP_len_only : forall v v', wf v -> wf v' -> bytes_ok (arr v) -> bytes_ok (arr v') ->
  ICMP_IsValid v = Ok true -> ICMP_IsValid v' = Ok true -> view v = view v' ->
  getters_len_only [] ICMP_getters ICMP_specs v v'.
Proof. exact ICMP_len_only. Qed.
Print Assumptions C01_ICMP_len_only.

Theorem C01_NA_getters_safe : forall v, wf v -> bytes_ok (arr v) ->
  NA_IsValid v = Ok true -> getters_ok [] NA_getters v.
Proof. exact NA_safe. Qed.
Print Assumptions C01_NA_getters_safe.
Theorem C01_NA_len_only : forall v v', wf v -> wf v' -> bytes_ok (arr v) -> bytes_ok (arr v') ->
  NA_IsValid v = Ok true -> NA_IsValid v' = Ok true -> view v = view v' ->
  getters_len_only [] NA_getters NA_specs v v'.
Proof. exact NA_len_only. Qed.
Print Assumptions C01_NA_len_only.

Theorem C01_NS_getters_safe : forall v, wf v -> bytes_ok (arr v) ->
  NS_IsValid v = Ok true -> getters_ok [] NS_getters v.
Proof. exact NS_safe. Qed.
Print Assumptions C01_NS_getters_safe.
Theorem C01_NS_len_only : forall v v', wf v -> wf v' -> bytes_ok (arr v) -> bytes_ok (arr v') ->
  NS_IsValid v = Ok true -> NS_IsValid v' = Ok true -> view v = view v' ->
  getters_len_only [] NS_getters NS_specs v v'.
Proof. exact NS_len_only. Qed.
Print Assumptions C01_NS_len_only.

Theorem C01_Redirect6_getters_safe : forall v, wf v -> bytes_ok (arr v) ->
  Redirect6_IsValid v = Ok true -> getters_ok [] Redirect6_getters v.
Proof. exact Redirect6_safe. Qed.
Print Assumptions C01_Redirect6_getters_safe.
Theorem C01_Redirect6_len_only : forall v v', wf v -> wf v' -> bytes_ok (arr v) -> bytes_ok (arr v') ->
  Redirect6_IsValid v = Ok true -> Redirect6_IsValid v' = Ok true -> view v = view v' ->
  getters_len_only [] Redirect6_getters Redirect6_specs v v'.
Proof. exact Redirect6_len_only. Qed.
Print Assumptions C01_Redirect6_len_only.

Theorem C01_RA_getters_safe : forall v, wf v -> bytes_ok (arr v) ->
  RA_IsValid v = Ok true -> getters_ok [] RA_getters v.
Proof. exact RA_safe. Qed.
Print Assumptions C01_RA_getters_safe.
Theorem C01_RA_len_only : forall v v', wf v -> wf v' -> bytes_ok (arr v) -> bytes_ok (arr v') ->
  RA_IsValid v = Ok true -> RA_IsValid v' = Ok true -> view v = view v' ->
  getters_len_only [] RA_getters RA_specs v v'.
Proof. exact RA_len_only. Qed.
Print Assumptions C01_RA_len_only.

Theorem C01_ICMPEcho_getters_safe : forall v, wf v -> bytes_ok (arr v) ->
  ICMPEcho_IsValid v = Ok true -> getters_ok [] ICMPEcho_getters v.
Proof. exact ICMPEcho_safe. Qed.
Print Assumptions C01_ICMPEcho_getters_safe.
Theorem C01_ICMPEcho_len_only : forall v v', wf v -> wf v' -> bytes_ok (arr v) -> bytes_ok (arr v') ->
  ICMPEcho_IsValid v = Ok true -> ICMPEcho_IsValid v' = Ok true -> view v = view v' ->
  getters_len_only [] ICMPEcho_getters ICMPEcho_specs v v'.
Proof. exact ICMPEcho_len_only. Qed.
Print Assumptions C01_ICMPEcho_len_only.

Theorem C01_IEEE1905_getters_safe : forall v, wf v -> bytes_ok (arr v) ->
  IEEE1905_IsValid v = Ok true -> getters_ok [] IEEE1905_getters v.
Proof. exact IEEE1905_safe. Qed.
Print Assumptions C01_IEEE1905_getters_safe.
Theorem C01_IEEE1905_len_only : forall v v', wf v -> wf v' -> bytes_ok (arr v) -> bytes_ok (arr v') ->
  IEEE1905_IsValid v = Ok true -> IEEE1905_IsValid v' = Ok true -> view v = view v' ->
  getters_len_only [] IEEE1905_getters IEEE1905_specs v v'.
Proof. exact IEEE1905_len_only. Qed.
Print Assumptions C01_IEEE1905_len_only.

Theorem C01_IP4_getters_safe : forall v, wf v -> bytes_ok (arr v) ->
  IP4_IsValid v = Ok true -> getters_ok [] IP4_getters v.
Proof. exact IP4_safe. Qed.
Print Assumptions C01_IP4_getters_safe.
Theorem C01_IP4_len_only : forall v v', wf v -> wf v' -> bytes_ok (arr v) -> bytes_ok (arr v') ->
  IP4_IsValid v = Ok true -> IP4_IsValid v' = Ok true -> view v = view v' ->
  getters_len_only [] IP4_getters IP4_specs v v'.
Proof. exact IP4_len_only. Qed.
Print Assumptions C01_IP4_len_only.

Theorem C01_IP6_getters_safe : forall v, wf v -> bytes_ok (arr v) ->
  IP6_IsValid v = Ok true -> getters_ok [] IP6_getters v.
Proof. exact IP6_safe. Qed.
Print Assumptions C01_IP6_getters_safe.
Theorem C01_IP6_len_only : forall v v', wf v -> wf v' -> bytes_ok (arr v) -> bytes_ok (arr v') ->
  IP6_IsValid v = Ok true -> IP6_IsValid v' = Ok true -> view v = view v' ->
  getters_len_only [] IP6_getters IP6_specs v v'.
Proof. exact IP6_len_only. Qed.
Print Assumptions C01_IP6_len_only.

Theorem C01_RRCP_getters_safe : forall v, wf v -> bytes_ok (arr v) ->
  RRCP_IsValid v = Ok true -> getters_ok [] RRCP_getters v.
Proof. exact RRCP_safe. Qed.
Print Assumptions C01_RRCP_getters_safe.
Theorem C01_RRCP_len_only : forall v v', wf v -> wf v' -> bytes_ok (arr v) -> bytes_ok (arr v') ->
  RRCP_IsValid v = Ok true -> RRCP_IsValid v' = Ok true -> view v = view v' ->
  getters_len_only [] RRCP_getters RRCP_specs v v'.
Proof. exact RRCP_len_only. Qed.
Print Assumptions C01_RRCP_len_only.

Theorem C01_SNAP_getters_safe : forall v, wf v -> bytes_ok (arr v) ->
  SNAP_IsValid v = Ok true -> getters_ok [] SNAP_getters v.
Proof. exact SNAP_safe. Qed.
Print Assumptions C01_SNAP_getters_safe.
Theorem C01_SNAP_len_only : forall v v', wf v -> wf v' -> bytes_ok (arr v) -> bytes_ok (arr v') ->
  SNAP_IsValid v = Ok true -> SNAP_IsValid v' = Ok true -> view v = view v' ->
  getters_len_only [] SNAP_getters SNAP_specs v v'.
Proof. exact SNAP_len_only. Qed.
Print Assumptions C01_SNAP_len_only.

Theorem C01_TCP_getters_safe : forall v, wf v -> bytes_ok (arr v) ->
  TCP_IsValid v = Ok true -> getters_ok [] TCP_getters v.
Proof. exact TCP_safe. Qed.
Print Assumptions C01_TCP_getters_safe.
Theorem C01_TCP_len_only : forall v v', wf v -> wf v' -> bytes_ok (arr v) -> bytes_ok (arr v') ->
  TCP_IsValid v = Ok true -> TCP_IsValid v' = Ok true -> view v = view v' ->
  getters_len_only [] TCP_getters TCP_specs v v'.
Proof. exact TCP_len_only. Qed.
Print Assumptions C01_TCP_len_only.

Theorem C01_UDP_getters_safe : forall v, wf v -> bytes_ok (arr v) ->
  UDP_IsValid v = Ok true -> getters_ok [] UDP_getters v.
Proof. exact UDP_safe. Qed.
Print Assumptions C01_UDP_getters_safe.
Theorem C01_UDP_len_only : forall v v', wf v -> wf v' -> bytes_ok (arr v) -> bytes_ok (arr v') ->
  UDP_IsValid v = Ok true -> UDP_IsValid v' = Ok true -> view v = view v' ->
  getters_len_only [] UDP_getters UDP_specs v v'.
Proof. exact UDP_len_only. Qed.
Print Assumptions C01_UDP_len_only.

Theorem C01_U880a_getters_safe : forall v, wf v -> bytes_ok (arr v) ->
  U880a_IsValid v = Ok true -> getters_ok [] U880a_getters v.
Proof. exact U880a_safe. Qed.
Print Assumptions C01_U880a_getters_safe.
Theorem C01_U880a_len_only : forall v v', wf v -> wf v' -> bytes_ok (arr v) -> bytes_ok (arr v') ->
  U880a_IsValid v = Ok true -> U880a_IsValid v' = Ok true -> view v = view v' ->
  getters_len_only [] U880a_getters U880a_specs v v'.
Proof. exact U880a_len_only. Qed.
Print Assumptions C01_U880a_len_only.

Theorem C01_RS_getters_safe : forall v, wf v -> bytes_ok (arr v) ->
  RS_IsValid v = Ok true -> getters_ok [] RS_getters v.
Proof. exact RS_safe. Qed.
Print Assumptions C01_RS_getters_safe.
Theorem C01_RS_len_only : forall v v', wf v -> wf v' -> bytes_ok (arr v) -> bytes_ok (arr v') ->
  RS_IsValid v = Ok true -> RS_IsValid v' = Ok true -> view v = view v' ->
  getters_len_only [] RS_getters RS_specs v v'.
Proof. exact RS_len_only. Qed.
Print Assumptions C01_RS_len_only.

Theorem C01_R4_getters_safe : forall v, wf v -> bytes_ok (arr v) ->
  R4_IsValid v = Ok true -> getters_ok [] R4_getters v.
Proof. exact R4_safe. Qed.
Print Assumptions C01_R4_getters_safe.
Theorem C01_R4_len_only : forall v v', wf v -> wf v' -> bytes_ok (arr v) -> bytes_ok (arr v') ->
  R4_IsValid v = Ok true -> R4_IsValid v' = Ok true -> view v = view v' ->
  getters_len_only [] R4_getters R4_specs v v'.
Proof. exact R4_len_only. Qed.
Print Assumptions C01_R4_len_only.

Theorem C01_LLC_getters_safe : forall v, wf v -> bytes_ok (arr v) ->
  LLC_IsValid v = Ok true -> getters_ok [] LLC_getters v.
Proof. exact LLC_safe. Qed.
Print Assumptions C01_LLC_getters_safe.
Theorem C01_LLC_len_only : forall v v', wf v -> wf v' -> bytes_ok (arr v) -> bytes_ok (arr v') ->
  LLC_IsValid v = Ok true -> LLC_IsValid v' = Ok true -> view v = view v' ->
  getters_len_only [] LLC_getters LLC_specs v v'.
Proof. exact LLC_len_only. Qed.
Print Assumptions C01_LLC_len_only.

Theorem C01_LLDP_getters_safe : forall v, wf v -> bytes_ok (arr v) ->
  LLDP_IsValid v = Ok true -> getters_ok [] LLDP_getters v.
Proof. exact LLDP_safe. Qed.
Print Assumptions C01_LLDP_getters_safe.
Theorem C01_LLDP_len_only : forall v v', wf v -> wf v' -> bytes_ok (arr v) -> bytes_ok (arr v') ->
  LLDP_IsValid v = Ok true -> LLDP_IsValid v' = Ok true -> view v = view v' ->
  getters_len_only [] LLDP_getters LLDP_specs v v'.
Proof. exact LLDP_len_only. Qed.
Print Assumptions C01_LLDP_len_only.

(* ---- the remaining refutation: Ether.Payload() of a header-only frame (DESIGN section 11 #8, recorded finding
   view-ether-payload-spare-capacity; documented encoder idiom, not repaired).  The other classes found by this
   check (IP4 #3 #4, TCP #5, LLC #6, LLDP #7, Ether.SrcIP/DstIP #8, ICMP4Redirect / RS #10) were repaired in /repo
   and their theorems above are now full. ---- *)
Theorem C01_Ether_payload_inside_refuted :
  exists v, wf v /\ bytes_ok (arr v) /\ Ether_IsValid v = Ok true /\ ~ getter_ok v Ether_Payload.
Proof. exact Ether_payload_refuted. Qed.
Print Assumptions C01_Ether_payload_inside_refuted.
Theorem C01_Ether_payload_len_only_refuted :
  exists v v', wf v /\ wf v' /\ view v = view v' /\ Ether_IsValid v = Ok true /\ Ether_IsValid v' = Ok true /\
               Ether_Payload v <> Ether_Payload v'.
Proof. exact Ether_payload_capacity_refuted. Qed.
Print Assumptions C01_Ether_payload_len_only_refuted.

(* ---- non-vacuity: valid views with non-trivial content ---- *)
Example C01_IP4_nonvacuous : wf ex_ip4 /\ bytes_ok (arr ex_ip4) /\ IP4_IsValid ex_ip4 = Ok true /\
  IP4_Fragment ex_ip4 = Ok (VN 8191) /\ IP4_Payload ex_ip4 = Ok (VR 24 4).
Proof. exact IP4_valid_ex. Qed.
Print Assumptions C01_IP4_nonvacuous.
Example C01_Ether_nonvacuous : wf ex_ether /\ bytes_ok (arr ex_ether) /\ Ether_IsValid ex_ether = Ok true /\
  forallb (fun ng => negb (known_of Ether_findings (fst ng) ex_ether)) Ether_getters = true /\
  Ether_SrcIP ex_ether = Ok (VX [10;0;0;1]).
Proof. exact Ether_valid_ex. Qed.
Print Assumptions C01_Ether_nonvacuous.
Example C01_TCP_nonvacuous : wf ex_tcp /\ bytes_ok (arr ex_tcp) /\ TCP_IsValid ex_tcp = Ok true /\
  TCP_HeaderLen ex_tcp = Ok (VN 24) /\ TCP_Payload ex_tcp = Ok (VR 24 2).
Proof. exact TCP_valid_ex. Qed.
Print Assumptions C01_TCP_nonvacuous.
Example C01_UDP_nonvacuous : wf ex_udp /\ bytes_ok (arr ex_udp) /\ UDP_IsValid ex_udp = Ok true.
Proof. exact UDP_valid_ex. Qed.
Print Assumptions C01_UDP_nonvacuous.
Example C01_ARP_nonvacuous : wf ex_arp /\ bytes_ok (arr ex_arp) /\ ARP_IsValid ex_arp = Ok true.
Proof. exact ARP_valid_ex. Qed.
Print Assumptions C01_ARP_nonvacuous.
Example C01_LLDP_nonvacuous : wf ex_lldp /\ bytes_ok (arr ex_lldp) /\ LLDP_IsValid ex_lldp = Ok true /\
  LLDP_ChassisID ex_lldp = Ok (VR 2 7) /\ LLDP_PortID ex_lldp = Ok (VR 11 3).
Proof. exact LLDP_valid_ex. Qed.
Print Assumptions C01_LLDP_nonvacuous.
Example C01_RS_nonvacuous : wf ex_rs /\ bytes_ok (arr ex_rs) /\ RS_IsValid ex_rs = Ok true /\
  RS_SourceLLA ex_rs = Ok (VR 10 6) /\
  RS_Options ex_rs = Ok (ndp_show (mkSt 0 [] 0 [] [2;0;0;0;0;1] [] 0 [] (0, 0, 0, []))).
Proof. exact RS_valid_ex. Qed.
Print Assumptions C01_RS_nonvacuous.
Example C01_LLC_nonvacuous : wf ex_llc /\ bytes_ok (arr ex_llc) /\ LLC_IsValid ex_llc = Ok true /\ LLC_Payload ex_llc = Ok VNil.
Proof. exact LLC_valid_ex. Qed.
Print Assumptions C01_LLC_nonvacuous.
Example C01_R4_nonvacuous : wf ex_r4 /\ bytes_ok (arr ex_r4) /\ R4_IsValid ex_r4 = Ok true /\
  R4_Addrs ex_r4 = Ok (VL [VR 8 4; VR 24 4]).
Proof. exact R4_valid_ex. Qed.
Print Assumptions C01_R4_nonvacuous.

(* ---- round 2 ---- *)
(* validity itself depends only on the bytes within the length: IsValid of a view equals IsValid of the same
   bytes without spare capacity ([restrict v] = of_bytes (view v)); hence two views with the same bytes are both
   valid or both invalid whatever their capacities (Proofs/Views5.valid_len_only) *)
Theorem C01_ARP_valid_len_only : forall v, wf v -> ARP_IsValid v = ARP_IsValid (restrict v).
Proof. exact ARP_valid_restrict. Qed.
Print Assumptions C01_ARP_valid_len_only.
Theorem C01_DHCP4_valid_len_only : forall v, wf v -> DHCP4_IsValid v = DHCP4_IsValid (restrict v).
Proof. exact DHCP4_valid_restrict. Qed.
Print Assumptions C01_DHCP4_valid_len_only.
Theorem C01_DNS_valid_len_only : forall v, wf v -> DNS_IsValid v = DNS_IsValid (restrict v).
Proof. exact DNS_valid_restrict. Qed.
Print Assumptions C01_DNS_valid_len_only.
Theorem C01_Ether_valid_len_only : forall v, wf v -> Ether_IsValid v = Ether_IsValid (restrict v).
Proof. exact Ether_valid_restrict. Qed.
Print Assumptions C01_Ether_valid_len_only.
Theorem C01_Pause_valid_len_only : forall v, wf v -> Pause_IsValid v = Pause_IsValid (restrict v).
Proof. exact Pause_valid_restrict. Qed.
Print Assumptions C01_Pause_valid_len_only.
Theorem C01_HBH_valid_len_only : forall v, wf v -> HBH_IsValid v = HBH_IsValid (restrict v).
Proof. exact HBH_valid_restrict. Qed.
Print Assumptions C01_HBH_valid_len_only.
Theorem C01_ICMP_valid_len_only : forall v, wf v -> ICMP_IsValid v = ICMP_IsValid (restrict v).
Proof. exact ICMP_valid_restrict. Qed.
Print Assumptions C01_ICMP_valid_len_only.
Theorem C01_NA_valid_len_only : forall v, wf v -> NA_IsValid v = NA_IsValid (restrict v).
Proof. exact NA_valid_restrict. Qed.
Print Assumptions C01_NA_valid_len_only.
Theorem C01_NS_valid_len_only : forall v, wf v -> NS_IsValid v = NS_IsValid (restrict v).
Proof. exact NS_valid_restrict. Qed.
Print Assumptions C01_NS_valid_len_only.
Theorem C01_Redirect6_valid_len_only : forall v, wf v -> Redirect6_IsValid v = Redirect6_IsValid (restrict v).
Proof. exact Redirect6_valid_restrict. Qed.
Print Assumptions C01_Redirect6_valid_len_only.
Theorem C01_RA_valid_len_only : forall v, wf v -> RA_IsValid v = RA_IsValid (restrict v).
Proof. exact RA_valid_restrict. Qed.
Print Assumptions C01_RA_valid_len_only.
Theorem C01_ICMPEcho_valid_len_only : forall v, wf v -> ICMPEcho_IsValid v = ICMPEcho_IsValid (restrict v).
Proof. exact ICMPEcho_valid_restrict. Qed.
Print Assumptions C01_ICMPEcho_valid_len_only.
Theorem C01_IEEE1905_valid_len_only : forall v, wf v -> IEEE1905_IsValid v = IEEE1905_IsValid (restrict v).
Proof. exact IEEE1905_valid_restrict. Qed.
Print Assumptions C01_IEEE1905_valid_len_only.
Theorem C01_IP4_valid_len_only : forall v, wf v -> IP4_IsValid v = IP4_IsValid (restrict v).
Proof. exact IP4_valid_restrict. Qed.
Print Assumptions C01_IP4_valid_len_only.
Theorem C01_IP6_valid_len_only : forall v, wf v -> IP6_IsValid v = IP6_IsValid (restrict v).
Proof. exact IP6_valid_restrict. Qed.
Print Assumptions C01_IP6_valid_len_only.
Theorem C01_RRCP_valid_len_only : forall v, wf v -> RRCP_IsValid v = RRCP_IsValid (restrict v).
Proof. exact RRCP_valid_restrict. Qed.
Print Assumptions C01_RRCP_valid_len_only.
Theorem C01_SNAP_valid_len_only : forall v, wf v -> SNAP_IsValid v = SNAP_IsValid (restrict v).
Proof. exact SNAP_valid_restrict. Qed.
Print Assumptions C01_SNAP_valid_len_only.
Theorem C01_TCP_valid_len_only : forall v, wf v -> TCP_IsValid v = TCP_IsValid (restrict v).
Proof. exact TCP_valid_restrict. Qed.
Print Assumptions C01_TCP_valid_len_only.
Theorem C01_UDP_valid_len_only : forall v, wf v -> UDP_IsValid v = UDP_IsValid (restrict v).
Proof. exact UDP_valid_restrict. Qed.
Print Assumptions C01_UDP_valid_len_only.
Theorem C01_U880a_valid_len_only : forall v, wf v -> U880a_IsValid v = U880a_IsValid (restrict v).
Proof. exact U880a_valid_restrict. Qed.
Print Assumptions C01_U880a_valid_len_only.
Theorem C01_RS_valid_len_only : forall v, wf v -> RS_IsValid v = RS_IsValid (restrict v).
Proof. exact RS_valid_restrict. Qed.
Print Assumptions C01_RS_valid_len_only.
Theorem C01_R4_valid_len_only : forall v, wf v -> R4_IsValid v = R4_IsValid (restrict v).
Proof. exact R4_valid_restrict. Qed.
Print Assumptions C01_R4_valid_len_only.
Theorem C01_LLC_valid_len_only : forall v, wf v -> LLC_IsValid v = LLC_IsValid (restrict v).
Proof. exact LLC_valid_restrict. Qed.
Print Assumptions C01_LLC_valid_len_only.
Theorem C01_LLDP_valid_len_only : forall v, wf v -> LLDP_IsValid v = LLDP_IsValid (restrict v).
Proof. exact LLDP_valid_restrict. Qed.
Print Assumptions C01_LLDP_valid_len_only.
Theorem C01_valid_len_only : forall isvalid : slice -> res bool,
  (forall v, wf v -> isvalid v = isvalid (restrict v)) ->
  forall v v', wf v -> wf v' -> view v = view v' -> isvalid v = isvalid v'.
Proof. exact valid_len_only. Qed.
Print Assumptions C01_valid_len_only.

(* the recorded Ether class is the whole defect: on a valid Ether view a getter fails C01 exactly on the class
   (header-only frame with spare capacity, getter Payload) *)
Theorem C01_Ether_known_exact : forall v, wf v -> bytes_ok (arr v) -> Ether_IsValid v = Ok true ->
  Forall (fun ng => known_of Ether_findings (fst ng) v = true <-> ~ getter_ok v (snd ng)) Ether_getters.
Proof. exact Ether_known_exact_C01. Qed.
Print Assumptions C01_Ether_known_exact.

Example C01_HBH_nonvacuous : wf ex_hbh /\ bytes_ok (arr ex_hbh) /\ HBH_IsValid ex_hbh = Ok true /\
  HBH_Parse ex_hbh = Ok VU /\ HBH_Data ex_hbh = Ok (VR 2 14).
Proof. exact HBH_valid_ex. Qed.
Print Assumptions C01_HBH_nonvacuous.

(* ---- round 7 ---- *)
(* Ether at full strength on its natural domain: every frame with a payload (len <> header length), and every frame
   without spare capacity, satisfies the C01 statement with no excluded class (and the C02 statement, see
   C02_Ether_full_on_payload_frames); the recorded class is exactly the complement (C01_Ether_known_exact) *)
Theorem C01_Ether_full_on_payload_frames : forall v, wf v -> bytes_ok (arr v) -> Ether_IsValid v = Ok true ->
  (len v <> eth_hlen v \/ cap v = len v) -> getters_ok [] Ether_getters v.
Proof. intros v W B H D. exact (proj1 (Ether_full_on_payload_frames v W B H D)). Qed.
Print Assumptions C01_Ether_full_on_payload_frames.
Example C01_Ether_payload_frame_nonvacuous : (len ex_ether <> eth_hlen ex_ether \/ cap ex_ether = len ex_ether) /\ Ether_IsValid ex_ether = Ok true.
Proof. exact Ether_payload_frame_ex. Qed.
Print Assumptions C01_Ether_payload_frame_nonvacuous.

(* LLDP.GetPDU(t), the TLV accessor with an argument (case kind "ga"): for every requested type and every view it
   neither panics nor spins and what it returns lies inside the view *)
Theorem C01_LLDP_GetPDU_safe : forall ty v, wf v -> bytes_ok (arr v) -> getter_ok v (LLDP_GetPDU ty).
Proof. exact LLDP_GetPDU_safe. Qed.
Print Assumptions C01_LLDP_GetPDU_safe.
Example C01_LLDP_GetPDU_nonvacuous :
  LLDP_GetPDU 3 ex_lldp = Ok (VR 16 2) /\ LLDP_GetPDU 9 ex_lldp = Ok VNil /\ LLDP_GetPDU 2 ex_lldp = Ok (VR 11 3).
Proof. exact LLDP_GetPDU_ex. Qed.
Print Assumptions C01_LLDP_GetPDU_nonvacuous.

(* the API census lists the dispatch answers with (kind "api": every exported method of every view type as
   Name/arity) contain, as their zero-argument entries, IsValid and exactly the names of the getter tables the
   theorems above quantify over, and the spec tables have the same names *)
Example C01_api_census_consistent : forallb api_ok PV.Model.ViewsDispatch.vtypes = true.
Proof. exact api_consistent. Qed.
Print Assumptions C01_api_census_consistent.
