(* Properties/C13.v — ARP spoofing is confined to hunted hosts and undone on StopHunt.
   Only statements, each closed by [exact] of a lemma proved in Proofs/ArpSpoof.v.
   Model: Model/ArpSpoof.v (event system transcribed from handlers/arp_spoofer). *)
From PV Require Import Base.Prelude Model.ArpSpoof Spec.ArpSpoof Proofs.ArpSpoof Proofs.ArpSpoofMonitor Proofs.ArpSpoofTimed.
Open Scope N_scope.

(* ---- confinement ----
   Full strength: in every run (any event sequence of any length from the initial state) every emitted
   forged frame (sender IP = router IP, sender MAC = our MAC) is addressed to a MAC that is in the hunt
   list when it is emitted.  Full since the repair of K1 (/repo: no probe-reject for the router's own
   address); before it the statement was refuted by a probe for the router address from an unhunted MAC
   holding another offer (refutation on the unrepaired model: verif commit dd6b3e8). *)
Theorem C13_confined : forall c evs s e out f,
  cfg_ok c ->
  In (s, e, out) (trace c init_state evs) -> In f out -> forged c f = true ->
  hunted s (fedst f) = true.
Proof. exact confined. Qed.
Print Assumptions C13_confined.

Example C13_confined_nonvacuous :
  cfg_ok wit_cfg /\
  outputs wit_cfg init_state wit_hunt_run =
    [[]; [announce wit_cfg wit_m1]; [mkFrame 2 wit_m1 (host_mac wit_cfg) (router_ip wit_cfg) wit_m1 3232235522]] /\
  outputs wit_cfg init_state
    [SetOffer wit_m3 (Some 3232235522); RxArp (mkPkt 1 wit_m3 wit_m3 0 0 3232235531);
     RxArp (mkPkt 1 wit_m3 wit_m3 0 0 3232235523)] =
    [[]; []; [probe_reject wit_cfg (mkPkt 1 wit_m3 wit_m3 0 0 3232235523)]].
Proof. exact confined_nonvacuous. Qed.
Print Assumptions C13_confined_nonvacuous.

(* ---- StartHunt is idempotent per MAC (any state, reachable or not) ---- *)
Theorem C13_start_idempotent : forall c s a,
  hunted s (amac a) = true -> step c s (StartHunt a) = (s, []).
Proof. exact start_idempotent. Qed.
Print Assumptions C13_start_idempotent.

Theorem C13_start_fresh : forall c s a,
  hunted s (amac a) = false ->
  exists s', step c s (StartHunt a) = (s', []) /\ hunted s' (amac a) = true /\
             loops s' = loops s ++ [mkLoop a true] /\ closed s' = closed s.
Proof. exact start_fresh. Qed.
Print Assumptions C13_start_fresh.

(* ---- receive path: probe-reject and spoof reply, for EVERY state and EVERY packet ----
   The answer of ProcessPacket is exactly what the spec predicates (Spec/ArpSpoof.v, written from the
   property text) demand: a probe is answered with the probe-reject iff the probing MAC holds an offer
   different from the probed address and the probed address is in the home LAN (and is neither link-local
   — the handler's documented convention — nor the router's own address, which confinement forbids);
   any other packet is answered iff it is a who-has-router
   request from a hunted MAC, and then with the spoof reply; a closed handler answers nothing.
   The state never changes. *)
Theorem C13_probe_reject_iff : forall c s p,
  step c s (RxArp p) =
  (s, if closed s then []
      else if sp_is_probe p
      then (if sp_reject_cond c (offer_of (psmac p) (offers s)) p then [probe_reject c p] else [])
      else (if sp_asks_router c p && hunted s (psmac p) then [spoof_reply c p] else [])).
Proof. exact rx_spec. Qed.
Print Assumptions C13_probe_reject_iff.

(* ---- StopHunt is undone ----
   s0 is the state after ANY event sequence `pre` in which loop i, started for address a, is running and
   the handler is open.  After StopHunt of a's MAC and any events `mid` without a wake-up of loop i, a Close
   or a new StartHunt of that MAC, the NEXT wake-up of loop i emits exactly the packet restoring the router's
   real MAC at a's MAC, loop i has returned, and in every continuation `post` without a StartHunt of that MAC
   no forged frame is addressed to it any more.
   Full strength since the repair of DESIGN #27 (loop membership by MAC); before the repair the statement
   was refuted by two hunted MACs sharing an IPv4 address (verif commit e3a3954 has that refutation). *)
Theorem C13_stop_undone : forall c pre a i mid post,
  cfg_ok c ->
  let s0 := final c init_state pre in
  loop_is s0 i a true -> closed s0 = false ->
  none_of (is_wake_of i) mid -> none_of is_close mid -> none_of (is_start_of (amac a)) mid ->
  none_of (is_start_of (amac a)) post ->
  let s1 := final c s0 (StopHunt (amac a) :: mid) in
  let s2 := set_loops s1 (kill i (loops s1)) in
  step c s1 (Wake i) = (s2, [restore c (amac a)]) /\
  loop_is s2 i a false /\
  forall s e out f, In (s, e, out) (trace c s2 post) -> In f out -> forged c f = true ->
    fedst f <> amac a.
Proof. intros c pre. exact (stop_undone c (final c init_state pre)). Qed.
Print Assumptions C13_stop_undone.

Example C13_stop_undone_nonvacuous :
  let c := wit_cfg in
  let a := mkAddr wit_m1 3232235522 in
  let s0 := final c init_state [StartHunt a; Wake 0; StartHunt (mkAddr wit_m2 3232235522); Wake 1] in
  let mid := [RxArp (mkPkt 1 wit_m1 wit_m1 3232235522 0 3232235531); Wake 1] in
  loop_is s0 0 a true /\ closed s0 = false /\
  none_of (is_wake_of 0) mid /\ none_of is_close mid /\ none_of (is_start_of (amac a)) mid /\
  outputs c s0 (StopHunt (amac a) :: mid ++ [Wake 0; Wake 0; Wake 1]) =
    [[]; []; [announce c wit_m2]; [restore c wit_m1]; []; [announce c wit_m2]].
Proof. exact stop_undone_nonvacuous. Qed.
Print Assumptions C13_stop_undone_nonvacuous.

(* while its MAC is hunted and the handler is open, a running loop's wake-up sends exactly one forged
   announcement, to its own MAC, and the loop keeps running ("periodically while hunted") *)
Theorem C13_hunted_wake_announces : forall c s i a,
  loop_is s i a true -> closed s = false -> hunted s (amac a) = true ->
  step c s (Wake i) = (s, [announce c (amac a)]).
Proof. exact hunted_wake_announces. Qed.
Print Assumptions C13_hunted_wake_announces.

(* ---- ... within one cycle ----
   Timed runs; real time enters ONLY through the named fairness hypothesis [fair c P tr] (Model/ArpSpoof.v:
   a running loop passes its select within one ticker period P while the run is observed).  If StopHunt of
   a's MAC happens at time t while loop i (started for a) runs and the handler is open, the run is observed
   until t+P, and until then there is neither a Close nor a new StartHunt of that MAC, then by t+P loop i has
   woken up, that wake-up emitted exactly the restoring packet, and the loop has returned. *)
Theorem C13_stop_undone_within_one_cycle : forall c P tr k t a i,
  cfg_ok c -> time_ordered tr -> fair c P tr ->
  nth_error tr k = Some (t, StopHunt (amac a)) ->
  loop_is (state_before c tr k) i a true -> closed (state_before c tr k) = false ->
  observed_until tr (t + P) ->
  (forall j t' e, (k < j)%nat -> nth_error tr j = Some (t', e) -> (t' <= t + P)%Z ->
                  is_close e = false /\ is_start_of (amac a) e = false) ->
  exists j t', (k < j)%nat /\ nth_error tr j = Some (t', Wake i) /\ (t' <= t + P)%Z /\
    output_at c tr j = Some [restore c (amac a)] /\
    loop_is (state_before c tr (S j)) i a false.
Proof. exact stop_undone_timed. Qed.
Print Assumptions C13_stop_undone_within_one_cycle.

Example C13_stop_undone_within_one_cycle_nonvacuous :
  cfg_ok wit_cfg /\ time_ordered wit_timed /\ fair wit_cfg 6000 wit_timed /\
  nth_error wit_timed 2 = Some (1000%Z, StopHunt (amac (mkAddr wit_m1 3232235522))) /\
  loop_is (state_before wit_cfg wit_timed 2) 0 (mkAddr wit_m1 3232235522) true /\
  closed (state_before wit_cfg wit_timed 2) = false /\
  observed_until wit_timed (1000 + 6000) /\
  output_at wit_cfg wit_timed 3 = Some [restore wit_cfg wit_m1] /\
  output_at wit_cfg wit_timed 4 = Some [].
Proof. exact stop_undone_timed_nonvacuous. Qed.
Print Assumptions C13_stop_undone_within_one_cycle_nonvacuous.

(* ... and in every run, while the handler is open every hunted MAC has a running loop of its own whose
   next wake-up sends the forged announcement to exactly that MAC: with the fairness hypothesis, each
   hunted host is re-poisoned every ticker period *)
Theorem C13_hunted_has_loop : forall c evs m,
  let s := final c init_state evs in
  closed s = false -> hunted s m = true ->
  exists i a, loop_is s i a true /\ amac a = m /\ step c s (Wake i) = (s, [announce c m]).
Proof. exact hunted_has_loop. Qed.
Print Assumptions C13_hunted_has_loop.

(* a loop that has returned stays returned and silent, whatever happens (any state) *)
Theorem C13_dead_loop_silent : forall c s e i a,
  loop_is s i a false ->
  loop_is (fst (step c s e)) i a false /\ step c s (Wake i) = (s, []).
Proof. intros c s e i a H. split; [apply step_dead_stays; exact H | eapply wake_dead_silent; exact H]. Qed.
Print Assumptions C13_dead_loop_silent.

(* ---- Close stops all loops ----
   Full strength: in every run, after a Close NO event emits any frame (loops, receive path, API calls),
   and every wake-up of a loop is its last (the loop has returned).  Full since the repair of K3 (/repo:
   ProcessPacket tests h.closed); before it the receive path still sent forged replies after Close
   (refutation on the unrepaired model: verif commit ae1e0b3). *)
Theorem C13_close_stops : forall c pre post s e out,
  In (s, e, out) (trace c (final c init_state (pre ++ [Close])) post) ->
  out = [] /\
  forall i lp, e = Wake i -> nth_error (loops (fst (step c s e))) i = Some lp -> alive lp = false.
Proof. exact close_stops. Qed.
Print Assumptions C13_close_stops.

Example C13_close_stops_nonvacuous :
  let c := wit_cfg in
  outputs c init_state [StartHunt (mkAddr wit_m1 3232235522); Wake 0; Close; Wake 0; Wake 0;
                        RxArp (mkPkt 1 wit_m1 wit_m1 3232235522 0 3232235531)] =
    [[]; [announce c wit_m1]; []; []; []; []] /\
  loop_is (final c init_state [StartHunt (mkAddr wit_m1 3232235522); Wake 0; Close; Wake 0]) 0
          (mkAddr wit_m1 3232235522) false.
Proof. exact close_stops_nonvacuous. Qed.
Print Assumptions C13_close_stops_nonvacuous.

(* ---- Spec = Model on every run ----
   The monitor of Spec/ArpSpoof.v is the property text as a checker of observed runs (its own bookkeeping of
   hunted MACs, offers, Close and loops; clauses: confinement, probe-reject iff, spoof reply iff, StartHunt
   sends nothing, a loop whose MAC is no longer hunted restores and ends at its wake-up, terminated loops are
   silent, nothing after Close).  It raises no violation on ANY run of the model.  The same monitor judges
   the implementation's observations in the correspondence run (column 2 of the dispatch). *)
Theorem C13_monitor_accepts_model : forall c evs,
  cfg_ok c ->
  Forall (fun v => v = []) (sp_run c sp_init (observed (trace c init_state evs))).
Proof. exact monitor_accepts_model. Qed.
Print Assumptions C13_monitor_accepts_model.
