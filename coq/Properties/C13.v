(* Properties/C13.v — ARP spoofing is confined to hunted hosts and undone on StopHunt.
   Only statements, each closed by [exact] of a lemma proved in Proofs/ArpSpoof.v.
   Model: Model/ArpSpoof.v (event system transcribed from handlers/arp_spoofer). *)
From PV Require Import Base.Prelude Model.ArpSpoof Proofs.ArpSpoof.
Open Scope N_scope.

(* ---- confinement ----
   Full statement: in every run (any event sequence of any length from the initial state) every
   emitted forged frame (sender IP = router IP, sender MAC = our MAC) is addressed to a MAC that is
   in the hunt list when it is emitted.  The code violates it in one class (K1: probe-reject for the
   router's address to an unhunted MAC), hence _refuted + _partial. *)
Theorem C13_confined_refuted :
  exists c evs s e out f,
    cfg_ok c /\ In (s, e, out) (trace c init_state evs) /\ In f out /\ forged c f = true /\
    hunted s (fedst f) = false.
Proof. exact confined_refuted. Qed.
Print Assumptions C13_confined_refuted.

Theorem C13_confined_partial : forall c evs s e out f,
  cfg_ok c ->
  In (s, e, out) (trace c init_state evs) -> In f out -> forged c f = true ->
  known_C13_probe_router c s e = false ->
  hunted s (fedst f) = true.
Proof. exact confined_partial. Qed.
Print Assumptions C13_confined_partial.

Example C13_confined_nonvacuous :
  cfg_ok wit_cfg /\
  outputs wit_cfg init_state wit_hunt_run =
    [[]; [announce wit_cfg wit_m1]; [mkFrame 2 wit_m1 (host_mac wit_cfg) (router_ip wit_cfg) wit_m1 3232235522]] /\
  forallb (fun x => negb (known_C13_probe_router wit_cfg (fst (fst x)) (snd (fst x))))
          (trace wit_cfg init_state wit_hunt_run) = true.
Proof. exact confined_nonvacuous. Qed.
Print Assumptions C13_confined_nonvacuous.

(* ---- StartHunt is idempotent per MAC (any state, reachable or not) ---- *)
Theorem C13_start_idempotent : forall c s a,
  hunted s (amac a) = true -> step c s (StartHunt a) = (s, []).
Proof. exact start_idempotent. Qed.
Print Assumptions C13_start_idempotent.

Theorem C13_start_fresh : forall c s a,
  hunted s (amac a) = false ->
  exists s', step c s (StartHunt a) = (s', []) /\ hunted s' (amac a) = true /\
             loops s' = loops s ++ [mkLoop a true] /\ closed s' = closed s.
Proof. exact start_fresh. Qed.
Print Assumptions C13_start_fresh.
