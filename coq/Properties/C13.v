(* Properties/C13.v — ARP spoofing is confined to hunted hosts and undone on StopHunt.
   Only statements, each closed by [exact] of a lemma proved in Proofs/ArpSpoof*.v.
   Model: Model/ArpSpoof.v — an event system transcribed from handlers/arp_spoofer in which a spoof-loop
   iteration is three events (Lookup under the lock, Check of h.closed, Send = the WriteTo, which may
   fail), so that API calls, received packets, Close and other loops interleave between them; the public
   send API and raw received frames are events too.  All theorems quantify over ALL event sequences. *)
From PV Require Import Base.Prelude Base.Slice Model.ArpSpoof Spec.ArpSpoof
  Proofs.ArpSpoof Proofs.ArpSpoofLoops Proofs.ArpSpoofRx Proofs.ArpSpoofTimed Proofs.ArpSpoofMonitor Proofs.ArpSpoofAudit.
Open Scope N_scope.

(* ---- confinement ----
   In every run, every forged frame (sender IP = router IP, sender MAC = our MAC) that leaves is
     (a) asked for by the CALLER through the public send API — only AnnounceTo(dst, routerIP),
         RequestRaw(dst, {ourMAC, routerIP}, _) and Reply(dst, {ourMAC, routerIP}, _) can do that, it is the
         caller's doing (C13_api_forges_iff: no other public call ever emits a forged frame) —, or
     (b) addressed to a MAC that is in the hunt list at that moment, or
     (c) the write of a spoof loop whose iteration DECIDED that frame under the lock (the loop is "armed":
         its lookup found the MAC in the hunt list), StopHunt having returned in between; or the write of a
         spoof reply that a ProcessPacket call decided under the lock and has not written yet (RxReply).
   (c) is real: "in the hunt list at the moment of emission" is refuted by that interleaving.  The property
   text supports the decision-time reading: it forbids forged frames "after" the restoring packet, and (c)
   is bounded — C13_stale_bound: once a MAC is out of the hunt list, at most one forged frame per loop that
   was armed for it and per ProcessPacket call in flight when StopHunt returned can still reach it, for ever
   (until it is hunted again). *)
Theorem C13_confined : forall c evs s e out f,
  cfg_ok c ->
  In (s, e, out) (trace c init_state evs) -> In f out -> forged c f = true ->
  caller_forged c e = true \/
  hunted s (fedst f) = true \/
  (exists i lp, e = Send i /\ nth_error (loops s) i = Some lp /\ armed_pc c (fedst f) (lpc lp) = true) \/
  (exists k, e = RxReply k /\ nth_error (rxq s) k = Some f).
Proof. exact confined. Qed.
Print Assumptions C13_confined.

Theorem C13_confined_at_emission_refuted :
  exists c evs s e out f,
    cfg_ok c /\ In (s, e, out) (trace c init_state evs) /\ In f out /\ forged c f = true /\
    caller_forged c e = false /\ hunted s (fedst f) = false.
Proof. exact confined_at_emission_refuted. Qed.
Print Assumptions C13_confined_at_emission_refuted.

Theorem C13_api_forges_iff : forall c s e f,
  cfg_ok c -> is_api_send e = true -> In f (snd (step c s e)) ->
  (forged c f = true <-> caller_forged c e = true).
Proof. exact api_forges_iff. Qed.
Print Assumptions C13_api_forges_iff.

(* the domain of the public send API is ALL arguments: a call with an address that is not IPv4 or a MAC that is
   not 6 bytes (ApiInvalid: ErrInvalidIP / ErrInvalidMAC since /repo 72c6830) writes nothing and changes nothing *)
Theorem C13_api_invalid_silent : forall c s, step c s ApiInvalid = (s, []).
Proof. exact api_invalid_silent. Qed.
Print Assumptions C13_api_invalid_silent.

(* From ANY state in which m is not hunted, along ANY continuation without a StartHunt of m: the forged frames
   addressed to m that the handler emits on its own (caller-forged calls not counted), plus what is still armed
   for m at the end (loops holding a decision, spoof replies in flight), never exceed what was armed for m at
   the start.  With armed = 0: none at all. *)
Theorem C13_stale_bound : forall c m evs s,
  cfg_ok c -> hunted s m = false -> none_of (is_start_of m) evs ->
  (forged_total c m (trace c s evs) + armed c m (final c s evs) <= armed c m s)%nat.
Proof. exact stale_bound. Qed.
Print Assumptions C13_stale_bound.

Example C13_run_nonvacuous :
  let c := wit_cfg in
  outputs c init_state
    [StartHunt wit_a1; Lookup 0; Check 0; Send 0;
     RxArp (mkPkt 1 wit_m1 wit_m1 3232235522 0 3232235531); RxReply 0;
     Lookup 0; StopHunt wit_m1; Check 0; Send 0;
     Lookup 0; Check 0; Send 0;
     Lookup 0; Check 0; Send 0;
     ApiAnnounceTo wit_m2 3232235531; ApiRequest 3232235522]
  = [[]; []; []; [announce c wit_m1];
     []; [mkFrame 2 wit_m1 (host_mac c) (router_ip c) wit_m1 3232235522];
     []; []; []; [announce c wit_m1];
     []; []; [restore c wit_m1];
     []; []; [];
     [announce c wit_m2]; [request_to c MAC_BCAST 3232235522]].
Proof. exact run_nonvacuous. Qed.
Print Assumptions C13_run_nonvacuous.

(* ---- who gets what (clause audit) ----
   In every run, whatever a spoof loop hands to the connection is either the forged announcement for its OWN MAC
   (and the loop goes on) or the request restoring the router's TRUE binding (sender = target = router MAC +
   router IP) at its own MAC (and the loop returns): the corrective frames go to exactly the hosts that were
   hunted, and carry exactly the true binding. *)
Theorem C13_loop_frames : forall c evs s i out f,
  In (s, Send i, out) (trace c init_state evs) -> In f out ->
  exists a cont, loop_at s i a (PSend f cont) /\
    ((cont = true /\ f = announce c (amac a)) \/ (cont = false /\ f = restore c (amac a))).
Proof. exact loop_frames. Qed.
Print Assumptions C13_loop_frames.

(* A MAC that no StartHunt of the run ever named gets no forged frame of the handler's own, at any time, whatever
   else happens (requests, replies, probes, announcements, gratuitous ARP, ticks, Close, any number of hosts).  In
   particular: never the router itself, never our own host — unless the CALLER hunts them, which the handler does
   not refuse (C13_hunting_the_router_is_the_callers_doing).  Hosts whose hunt ended: C13_stale_bound. *)
Theorem C13_never_hunted_never_targeted : forall c m evs s e out f,
  cfg_ok c -> none_of (is_start_of m) evs ->
  In (s, e, out) (trace c init_state evs) -> In f out -> forged c f = true -> caller_forged c e = false ->
  fedst f <> m.
Proof. exact never_hunted_never_targeted. Qed.
Print Assumptions C13_never_hunted_never_targeted.

Example C13_hunting_the_router_is_the_callers_doing :
  let c := wit_cfg in
  outputs c init_state [StartHunt (mkAddr (router_mac c) (router_ip c)); Lookup 0; Check 0; Send 0]
  = [[]; []; []; [announce c (router_mac c)]].
Proof. exact hunting_the_router_is_the_callers_doing. Qed.
Print Assumptions C13_hunting_the_router_is_the_callers_doing.

(* ---- StartHunt is idempotent per MAC (any state, reachable or not) ---- *)
Theorem C13_start_idempotent : forall c s a,
  hunted s (amac a) = true -> step c s (StartHunt a) = (s, []).
Proof. exact start_idempotent. Qed.
Print Assumptions C13_start_idempotent.

(* ... and a StartHunt of a MAC that is not hunted starts exactly one loop for it and sends nothing itself *)
Theorem C13_start_fresh : forall c s a,
  hunted s (amac a) = false ->
  exists s', step c s (StartHunt a) = (s', []) /\ hunted s' (amac a) = true /\
             loops s' = loops s ++ [mkLoop a PTop] /\ closed s' = closed s.
Proof. exact start_fresh. Qed.
Print Assumptions C13_start_fresh.

(* ---- receive path, for EVERY state and EVERY packet ----
   ProcessPacket hands the connection exactly the frame the spec predicates (Spec/ArpSpoof.v, written from
   the property text) demand, or nothing: a probe gets the probe-reject iff the probing MAC holds an offer
   different from the probed address and the probed address is in the home LAN (and is neither link-local —
   the handler's documented convention — nor the router's own address, which confinement forbids); any other
   packet is answered iff it is a who-has-router request from a hunted MAC, with the spoof reply; a closed
   handler answers nothing.  Both replies are only DECIDED here — the spoof reply under arpMutex, the probe-reject
   on the offer read under the session's lock — and written after the unlock by RxReply (C13_rx_reply): StopHunt,
   Close, a change of the offer and everything else can land in between (RxNow no longer occurs). *)
Theorem C13_probe_reject_iff : forall c s p,
  step c s (RxArp p) = match rx_answer c s p with
                       | RxNone => (s, [])
                       | RxNow f => wr2 s f
                       | RxQueue f => (set_rxq s (rxq s ++ [f]), [])
                       end.
Proof. exact rx_spec. Qed.
Print Assumptions C13_probe_reject_iff.

(* the write of a reply in flight: exactly that reply (unless the write is refused), and it leaves the queue *)
Theorem C13_rx_reply : forall s k,
  (forall g, In g (snd (rx_reply s k)) -> nth_error (rxq s) k = Some g) /\
  hunt (fst (rx_reply s k)) = hunt s /\ loops (fst (rx_reply s k)) = loops s /\
  closed (fst (rx_reply s k)) = closed s /\ offers (fst (rx_reply s k)) = offers s /\
  rxq (fst (rx_reply s k)) = (match nth_error (rxq s) k with Some _ => remove_nth k (rxq s) | None => rxq s end).
Proof. exact rx_reply_spec. Qed.
Print Assumptions C13_rx_reply.

(* raw frames: ProcessPacket never panics, whatever bytes Parse hands over, and a frame that is not a valid
   ARP packet (EtherType 0x0806, >= 28 bytes, header 00 01 08 00 06 04 — decoded here by the spec's own
   decoder) is a no-op; a valid one is exactly its decoded packet *)
Theorem C13_process_packet_total : forall c s et b,
  process_raw c s et b <> Panic /\ process_raw c s et b <> Fuel.
Proof. exact process_raw_no_panic. Qed.
Print Assumptions C13_process_packet_total.

Theorem C13_raw_frames : forall c s et b,
  step c s (RxRaw et b) = match sp_decode et b with Some p => step c s (RxArp p) | None => (s, []) end.
Proof. exact raw_spec. Qed.
Print Assumptions C13_raw_frames.

(* ---- StopHunt is undone, under every interleaving ----
   s1: ANY state in which a's MAC is not hunted (e.g. after StopHunt), the handler is open, and loop i (started
   for a) stands at its select.  Its next iteration — Lookup i, Check i, Send i with arbitrary events of
   everybody else in between (x1, x2, x3: no step of loop i itself; no Close and no StartHunt of that MAC before
   the lookup — h.closed is read in the lookup's lock section since /repo 161661f, so even a Close AFTER the
   lookup does not stop the restore; refused writes allowed) — hands the connection exactly the packet restoring
   the router's MAC (it reaches the wire unless that very write is refused) and the loop has returned.
   How the loop gets to its select: C13_iteration_completes (at most two own steps, at most one frame); how
   many forged frames can still reach the MAC meanwhile: C13_stale_bound (the ones already decided). *)
Theorem C13_stop_undone : forall c s1 a i p x1 x2 x3,
  cfg_ok c ->
  loop_at s1 i a p -> at_select p = true -> closed s1 = false -> hunted s1 (amac a) = false ->
  none_of (is_loop_event i) x1 -> none_of is_close x1 -> none_of (is_start_of (amac a)) x1 ->
  none_of (is_loop_event i) x2 ->
  none_of (is_loop_event i) x3 ->
  let s4 := final c s1 (x1 ++ [Lookup i] ++ x2 ++ [Check i] ++ x3) in
  loop_at s4 i a (PSend (restore c (amac a)) false) /\
  exists s5,
    step c s4 (Send i) = (s5, if Nat.eqb (failn s4) 0 then [restore c (amac a)] else []) /\
    loop_at s5 i a PDone.
Proof. exact stop_undone. Qed.
Print Assumptions C13_stop_undone.

Theorem C13_iteration_completes : forall c s i a p,
  loop_at s i a p ->
  match p with
  | PLooked _ =>
      exists q, loop_at (fst (step c s (Check i))) i a q /\ snd (step c s (Check i)) = [] /\
                (is_done q = true \/ exists f cont, q = PSend f cont)
  | PSend f cont =>
      exists q, loop_at (fst (step c s (Send i))) i a q /\ (at_select q = true \/ is_done q = true) /\
                (snd (step c s (Send i)) = [f] \/ snd (step c s (Send i)) = [])
  | _ => True
  end.
Proof. exact iteration_completes. Qed.
Print Assumptions C13_iteration_completes.

(* ---- "... after which no further forged packet is sent to it": is the restore the LAST frame to the MAC? ----
   Not in every interleaving (RECORDED FINDING, key forged-frame-decided-before-stophunt-written-after-restore):
   the handler decides under arpMutex and writes after the unlock, so a forged frame decided before StopHunt
   returned — the spoof reply of a ProcessPacket call in flight, the armed announcement of an older loop of the
   same MAC — can be written after the loop's restoring packet.  Both interleavings are witnesses; the first is
   replayed on the real handler with a gated connection.  What holds: if nothing is armed for the MAC when it
   leaves the hunt list, nothing forged reaches it any more (C13_restore_is_last_partial); in general at most one
   frame per call / loop in flight (C13_stale_bound). *)
Theorem C13_restore_is_last_refuted :
  exists c evs m,
    cfg_ok c /\ hunted (final c init_state evs) m = false /\
    outputs c init_state evs =
      [[]; []; []; [announce c m]; []; []; []; []; [restore c m];
       [mkFrame 2 m (host_mac c) (router_ip c) m 3232235522]] /\
    nth_error evs 5 = Some (StopHunt m) /\ none_of (is_start_of m) (skipn 6 evs).
Proof. exact restore_is_last_refuted. Qed.
Print Assumptions C13_restore_is_last_refuted.

Theorem C13_restore_is_last_refuted_two_loops :
  exists c evs m,
    cfg_ok c /\ hunted (final c init_state evs) m = false /\
    outputs c init_state evs = [[]; []; []; []; []; []; []; [restore c m]; []; [announce c m]] /\
    nth_error evs 4 = Some (StopHunt m) /\ none_of (is_start_of m) (skipn 5 evs).
Proof. exact restore_is_last_refuted_two_loops. Qed.
Print Assumptions C13_restore_is_last_refuted_two_loops.

Theorem C13_restore_is_last_partial : forall c m evs s st e out f,
  cfg_ok c -> hunted s m = false -> armed c m s = 0%nat -> none_of (is_start_of m) evs ->
  In (st, e, out) (trace c s evs) -> In f out -> forged c f = true -> caller_forged c e = false ->
  fedst f <> m.
Proof. exact restore_is_last_partial. Qed.
Print Assumptions C13_restore_is_last_partial.

(* a loop that has returned stays returned, and its steps are silent, whatever happens (any state) *)
Theorem C13_dead_loop_silent : forall c s e i a p,
  loop_at s i a p -> is_done p = true ->
  loop_at (fst (step c s e)) i a p /\ (is_loop_event i e = true -> snd (step c s e) = []).
Proof. exact done_stays. Qed.
Print Assumptions C13_dead_loop_silent.

(* ---- Close stops all loops, under every interleaving ----
   Once closed (any state, any continuation): what the handler still hands to the connection on its own —
   loops, the receive path, AND the steps of a Scan in flight; only the caller's direct send calls are not
   counted — plus what is still decided-but-unwritten at the end, never exceeds what was decided-but-unwritten
   when Close returned (pending: loops past their lock section — lookup + read of h.closed — and not yet through
   their write, spoof replies in flight, scans that have passed their h.closed test): at most ONE frame per loop / ProcessPacket call / Scan, the one already decided.  "Nothing at all after Close" is refuted by that interleaving.  And every
   loop ends: its next pass through the lock section after Close is silent and final (C13_close_ends_loop). *)
Theorem C13_close_stops : forall c evs s,
  closed s = true -> (own_frames (trace c s evs) + pending (final c s evs) <= pending s)%nat.
Proof. exact close_bound. Qed.
Print Assumptions C13_close_stops.

Theorem C13_close_ends_loop : forall c s a i p x1,
  closed s = true -> loop_at s i a p -> at_select p = true ->
  none_of (is_loop_event i) x1 ->
  let sa := final c s x1 in
  snd (step c sa (Lookup i)) = [] /\ loop_at (fst (step c sa (Lookup i))) i a PDone.
Proof. exact close_ends_loop. Qed.
Print Assumptions C13_close_ends_loop.

Theorem C13_silent_after_close_refuted :
  exists c pre post s e out f,
    cfg_ok c /\ In (s, e, out) (trace c (final c init_state (pre ++ [Close])) post) /\
    is_api_send e = false /\ In f out.
Proof. exact silent_after_close_refuted. Qed.
Print Assumptions C13_silent_after_close_refuted.

(* ---- periodically while hunted; refused writes ----
   In every run, while the handler is open every hunted MAC has a loop of its own that is running and has not
   decided to stop (healthy: at its select, or holding a decision to announce).  Full since the repair of K4
   (/repo: a refused announcement no longer ends the loop; refutation on the unrepaired model: verif commit
   87e4145).  And such a loop's next iteration hands the connection the forged announcement for exactly that
   MAC and goes back to its select — whether or not the write is refused. *)
Theorem C13_hunted_has_loop : forall c evs m,
  let s := final c init_state evs in
  closed s = false -> hunted s m = true ->
  exists i a p, loop_at s i a p /\ amac a = m /\ healthy p = true.
Proof. exact hunted_has_loop. Qed.
Print Assumptions C13_hunted_has_loop.

Theorem C13_periodic_announce : forall c s a i p x1 x2 x3,
  loop_at s i a p -> at_select p = true -> closed s = false ->
  hunted (final c s x1) (amac a) = true ->
  none_of (is_loop_event i) x1 -> none_of is_close x1 ->
  none_of (is_loop_event i) x2 ->
  none_of (is_loop_event i) x3 ->
  let s4 := final c s (x1 ++ [Lookup i] ++ x2 ++ [Check i] ++ x3) in
  exists s5,
    step c s4 (Send i) = (s5, if Nat.eqb (failn s4) 0 then [announce c (amac a)] else []) /\
    loop_at s5 i a PWait.
Proof. exact periodic_announce. Qed.
Print Assumptions C13_periodic_announce.

(* ---- ... within one cycle ----
   Timed runs; real time enters ONLY through the named fairness hypothesis [fair c P tr] (Model/ArpSpoof.v:
   within one ticker period P a loop that has not returned either returns or begins and completes an
   iteration).  If StopHunt of a's MAC happens at time t while loop i (started for a) has not returned and
   the handler is open, the run is observed until t+P, and until then there is neither a Close nor a new
   StartHunt of that MAC, then by t+P loop i has handed the connection the restoring packet (on the wire
   unless that write is refused) and has returned. *)
Theorem C13_stop_undone_within_one_cycle : forall c P tr k t a i p0,
  cfg_ok c -> time_ordered tr -> fair c P tr ->
  nth_error tr k = Some (t, StopHunt (amac a)) ->
  loop_at (state_before c tr k) i a p0 -> is_done p0 = false -> closed (state_before c tr k) = false ->
  observed_until tr (t + P) ->
  (forall j t' e, (k < j)%nat -> nth_error tr j = Some (t', e) -> (t' <= t + P)%Z ->
                  is_close e = false /\ is_start_of (amac a) e = false) ->
  exists j tj, (k < j)%nat /\ nth_error tr j = Some (tj, Send i) /\ (tj <= t + P)%Z /\
    loop_at (state_before c tr j) i a (PSend (restore c (amac a)) false) /\
    output_at c tr j = Some (if Nat.eqb (failn (state_before c tr j)) 0 then [restore c (amac a)] else []) /\
    loop_at (state_before c tr (S j)) i a PDone.
Proof. exact stop_undone_timed. Qed.
Print Assumptions C13_stop_undone_within_one_cycle.

Example C13_stop_undone_within_one_cycle_nonvacuous :
  cfg_ok wit_cfg_t /\ time_ordered wit_timed /\ fair wit_cfg_t 6000 wit_timed /\
  nth_error wit_timed 4 = Some (1000%Z, StopHunt (amac wit_a_t)) /\
  loop_at (state_before wit_cfg_t wit_timed 4) 0 wit_a_t PWait /\
  closed (state_before wit_cfg_t wit_timed 4) = false /\
  observed_until wit_timed (1000 + 6000) /\
  output_at wit_cfg_t wit_timed 7 = Some [restore wit_cfg_t (amac wit_a_t)] /\
  loop_at (state_before wit_cfg_t wit_timed 8) 0 wit_a_t PDone.
Proof. exact stop_undone_timed_nonvacuous. Qed.
Print Assumptions C13_stop_undone_within_one_cycle_nonvacuous.

(* ---- Spec = Model on every run ----
   The monitor of Spec/ArpSpoof.v is the property text as a checker of observed runs (its own bookkeeping of
   hunted MACs, offers, Close, refused writes and how far each loop's iteration got; clauses: confinement at
   the decision, the caller's own forgery, probe-reject iff, spoof reply iff, invalid frames ignored,
   StartHunt sends nothing, an iteration decided while the MAC is not hunted restores and ends the loop,
   one decided while it is hunted announces to that MAC, terminated loops are silent, nothing of the handler's
   own after Close except a frame already decided).  It raises no violation on ANY run of the model.  The
   same monitor judges the implementation's observations in the correspondence run (column 2 of the dispatch). *)
Theorem C13_monitor_accepts_model : forall c evs,
  cfg_ok c ->
  Forall (fun v => v = []) (sp_run c sp_init (observed (trace c init_state evs))).
Proof. exact monitor_accepts_model. Qed.
Print Assumptions C13_monitor_accepts_model.
