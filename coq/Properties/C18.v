(* Properties/C18.v — DHCP leases survive restart; a damaged lease file cannot crash the server.
   Only statements, each closed by [exact] of a lemma proved in Proofs/Lease*.v. *)
From PV Require Import Base.Prelude Model.LeaseBase Model.Lease Model.LeaseKnown Proofs.Lease.
Open Scope N_scope.

(* For ANY document (however the YAML text was damaged before yaml.Unmarshal accepted it): every lease that
   loadByteArray puts in the table is Allocated, lies inside the file's home subnet net1, has a non-empty
   client id and occurs in the document. *)
Theorem C18_load_filters : forall cap d n1 n2 t,
  load cap d = Ok (n1, n2, t) ->
  forall l, In l t ->
    allocated l = true
    /\ (exists s1, n1 = Some s1 /\ contains (s_lan (n_cfg s1)) (r_ip (l_rec l)) = true)
    /\ r_cid (l_rec l) <> []
    /\ In (l_rec l) (d_leases d).
Proof. exact load_filters. Qed.
Print Assumptions C18_load_filters.

Example C18_load_filters_nonvacuous :
  exists n1 n2 t, load (fun _ => false) ex_doc = Ok (n1, n2, t) /\ t <> [].
Proof. exact load_filters_nonvacuous. Qed.
Print Assumptions C18_load_filters_nonvacuous.

(* The validation loop gives back exactly the saved records (in file order, with the subnet chosen from the
   capture state) when every record passes the validation and client ids are distinct. *)
Theorem C18_load_loop_roundtrip : forall cap s1 s2 rs,
  (forall r, In r rs -> (r_state r =? 2)%Z = true /\ rec_ok s1 r = true) ->
  NoDup (map r_cid rs) ->
  load_loop cap (Some s1) (Some s2) rs [] = Ok (map (restored cap s2) rs).
Proof. intros cap s1 s2 rs H1 H2. exact (load_loop_all_ok cap s1 s2 rs [] H1 H2). Qed.
Print Assumptions C18_load_loop_roundtrip.
