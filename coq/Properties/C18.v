(* Properties/C18.v — DHCP leases survive restart; a damaged lease file cannot crash the server.
   Only statements, each closed by [exact] of a lemma proved in Proofs/Lease*.v.

   The model (Model/Lease.v) starts from the integrity verdict on the text and the document yaml.Unmarshal
   returns; the file system, sha256 and gopkg.in/yaml.v2 enter as the Section variables print/read with the named
   hypotheses yaml_roundtrip and checksum_detects (Section hypotheses).  What those libraries make of damaged TEXT
   is searched by enumeration in the correspondence run (harness/cmd/c18/corrupt.go), which validates
   checksum_detects on every enumerated damage; the theorems below hold for ANY accepted document. *)
From PV Require Import Base.Prelude Model.LeaseBase Model.Lease Model.LeaseKnown
  Proofs.Lease Proofs.LeaseNew Proofs.LeaseRestart.
From Coq Require Import Permutation.
Open Scope N_scope.

(* ---------------- restart ---------------- *)

(* Take ANY state s the constructor returned for configuration c, let the lease table evolve to ANY table t with
   distinct keys that satisfies the server invariant [persistable] (every acknowledged lease has a client id and an
   address inside net1: what the DHCP state machine guarantees since /repo 7baf630 and ec7166b, clusters C11/C12),
   save it in ANY map iteration order, write and read it through a round-tripping file/YAML oracle, and
   construct again under ANY capture state: the new handler has the same subnets and exactly the acknowledged
   (client id, MAC, IP) bindings.  No recorded defect class is left in the statement. *)
Theorem C18_restart :
  forall (text : Type) (print : doc -> text) (read : text -> input),
  yaml_roundtrip text print read ->
  forall c cap0 i0 s cap t ord,
    new c cap0 i0 = Ok s ->
    persistable (d_n1 s) t = true ->
    NoDup (map l_cid t) -> Permutation ord t ->
    exists s', new c cap (read (print (save (d_n1 s) (d_n2 s) ord))) = Ok s'
               /\ d_n1 s' = d_n1 s /\ d_n2 s' = d_n2 s
               /\ d_table s' = map (restored cap (d_n2 s)) (save_leases ord)
               /\ Permutation (bindings (d_table s')) (acked_bindings t).
Proof. exact restart_partial. Qed.
Print Assumptions C18_restart.

(* ... field by field, the expiry included: the restored records (client id, state, MAC, address, EXPIRY) are
   exactly the acknowledged ones, so a restart remembers the last acknowledged expiry of every lease (the file is
   rewritten by every ACK, renewals included: C18_file_current in C18_glue.v). *)
Theorem C18_restart_records :
  forall (text : Type) (print : doc -> text) (read : text -> input),
  yaml_roundtrip text print read ->
  forall c cap0 i0 s cap t ord,
    new c cap0 i0 = Ok s ->
    persistable (d_n1 s) t = true ->
    NoDup (map l_cid t) -> Permutation ord t ->
    exists s', new c cap (read (print (save (d_n1 s) (d_n2 s) ord))) = Ok s'
               /\ Permutation (map l_rec (d_table s')) (map l_rec (filter allocated t)).
Proof. exact restart_records. Qed.
Print Assumptions C18_restart_records.

(* neither half of the invariant can be dropped: an Allocated lease with an empty client id, or with an address
   outside net1, is saved and then dropped by loadByteArray (both unreachable since the /repo repairs) *)
Theorem C18_restart_needs_invariant :
  forall r, r = ex_rec_nocid \/ r = ex_rec_offnet ->
  exists c s t,
    t = [{| l_rec := r; l_sub := 1 |}]
    /\ new c (fun _ => false) ReadErr = Ok s /\ NoDup (map l_cid t)
    /\ persistable (d_n1 s) t = false
    /\ exists s', new c (fun _ => false) (Doc SumOk (save (d_n1 s) (d_n2 s) t)) = Ok s'
                  /\ ~ Permutation (bindings (d_table s')) (acked_bindings t).
Proof. exact restart_needs_invariant. Qed.
Print Assumptions C18_restart_needs_invariant.

Example C18_restart_nonvacuous :
  exists s, new ex_cfg (fun _ => false) ReadErr = Ok s
    /\ persistable (d_n1 s) [{| l_rec := ex_rec; l_sub := 1 |}] = true
    /\ acked_bindings [{| l_rec := ex_rec; l_sub := 1 |}] <> [].
Proof. exact restart_nonvacuous. Qed.
Print Assumptions C18_restart_nonvacuous.

(* ---------------- crash points and corruption ---------------- *)

(* The clause "for a file truncated at any byte offset or otherwise corrupted, construction yields either the
   intact bindings or an empty table, never anything else", for the damage model [dmg] under the named hypothesis
   checksum_detects (the integrity line written by saveConfig since /repo 378cfcf): reading a damaged version of
   a saved file gives an error, a checksum mismatch, the original document, or a lease-less document.
   The hypothesis is about sha256 and yaml.v2 and is validated by the enumeration of the correspondence run
   (every byte prefix, substitutions, line deletions/duplications of real lease files). *)
Theorem C18_damaged_intact_or_empty :
  forall (text : Type) (print : doc -> text) (read : text -> input) (dmg : text -> text -> Prop),
  checksum_detects text print read dmg ->
  forall c cap0 i0 s cap t ord x,
    new c cap0 i0 = Ok s ->
    persistable (d_n1 s) t = true ->
    NoDup (map l_cid t) -> Permutation ord t ->
    dmg x (print (save (d_n1 s) (d_n2 s) ord)) ->
    (exists s', new c cap (read x) = Ok s' /\ Permutation (bindings (d_table s')) (acked_bindings t))
    \/ (forall s', new c cap (read x) = Ok s' -> d_table s' = []).
Proof. exact damaged_intact_or_empty. Qed.
Print Assumptions C18_damaged_intact_or_empty.

(* FULL STRENGTH, no recorded class: whatever the first input was (missing file, YAML error, ANY document, however
   damaged), the state the constructor returned is a fixed point of save -> print -> parse -> construct: same
   subnets, same bindings, under any capture state. *)
Theorem C18_restart_fixpoint :
  forall (text : Type) (print : doc -> text) (read : text -> input),
  yaml_roundtrip text print read ->
  forall c cap0 i0 s cap,
    new c cap0 i0 = Ok s ->
    exists s', new c cap (read (print (save (d_n1 s) (d_n2 s) (d_table s)))) = Ok s'
               /\ d_n1 s' = d_n1 s /\ d_n2 s' = d_n2 s
               /\ bindings (d_table s') = bindings (d_table s).
Proof. exact restart_fixpoint. Qed.
Print Assumptions C18_restart_fixpoint.

(* every constructed table has distinct keys, only Allocated leases, and satisfies the invariant *)
Theorem C18_new_table_wf : forall c cap i s, new c cap i = Ok s ->
  NoDup (map l_cid (d_table s))
  /\ (forall l, In l (d_table s) -> allocated l = true)
  /\ persistable (d_n1 s) (d_table s) = true.
Proof. exact new_table_wf. Qed.
Print Assumptions C18_new_table_wf.

(* The validation loop gives back exactly the saved records (file order; subnet chosen from the capture state). *)
Theorem C18_load_loop_roundtrip : forall cap s1 s2 rs,
  (forall r, In r rs -> (r_state r =? 2)%Z = true /\ rec_ok s1 r = true) ->
  NoDup (map r_cid rs) ->
  load_loop cap s1 s2 rs [] = map (restored cap s2) rs.
Proof. exact load_loop_roundtrip. Qed.
Print Assumptions C18_load_loop_roundtrip.

(* ---------------- any document ---------------- *)

(* For ANY document (however the text was damaged before yaml.Unmarshal accepted it): every lease that
   loadByteArray puts in the table is Allocated, lies inside the file's net1, has a non-empty client id and
   occurs in the document. *)
Theorem C18_load_filters : forall cap d s1 s2 t,
  load cap d = Ok (s1, s2, t) ->
  forall l, In l t ->
    allocated l = true
    /\ contains (s_lan (n_cfg s1)) (r_ip (l_rec l)) = true
    /\ r_cid (l_rec l) <> []
    /\ In (l_rec l) (d_leases d).
Proof. exact load_filters. Qed.
Print Assumptions C18_load_filters.

Example C18_load_filters_nonvacuous :
  exists s1 s2 t, load (fun _ => false) ex_doc = Ok (s1, s2, t) /\ t <> [].
Proof. exact load_filters_nonvacuous. Qed.
Print Assumptions C18_load_filters_nonvacuous.

(* For ANY input of the constructor (missing file, YAML error, checksum verdict, ANY document): every lease of
   the constructed table is Allocated, has a client id, occurs in a document that did not fail the integrity
   check, and lies inside the HOME subnet of the session.  Full strength since /repo e01fd08 (configChanged
   compares the prefix length too); before, a file whose net1 prefix was shorter than the home LAN's restored
   leases outside the home subnet. *)
Theorem C18_new_table : forall c cap i s,
  new c cap i = Ok s ->
  forall l, In l (d_table s) ->
    allocated l = true
    /\ r_cid (l_rec l) <> []
    /\ (exists st d, i = Doc st d /\ st <> SumBad /\ In (l_rec l) (d_leases d))
    /\ contains (c_home c) (r_ip (l_rec l)) = true.
Proof. exact new_table_filters. Qed.
Print Assumptions C18_new_table.

(* ---------------- totality ---------------- *)

(* Config.New neither panics nor loops, for EVERY configuration, capture state and input (missing file, YAML
   error, any document).  Full strength since the three fix commits of DESIGN 11 #23 in /repo (nil-subnet guard
   in loadByteArray, IPv4-only LAN in newSubnet); before them the faithful model refuted it in three classes
   (valid lease but no net1; captured lease but no net2; IPv6 lan), see known_findings.txt "fixed:" lines. *)
Theorem C18_new_total : forall c cap i, new c cap i <> Panic /\ new c cap i <> Fuel.
Proof. exact new_total. Qed.
Print Assumptions C18_new_total.

(* the inputs on which the unrepaired constructor panicked now reset to an empty table *)
Theorem C18_new_former_panics_reset :
  (exists s, new ex_cfg (fun _ => true) (Doc SumOk ex_doc_nonet1) = Ok s /\ d_table s = [])
  /\ (exists s, new ex_cfg (fun _ => true) (Doc SumAbsent ex_doc_v6) = Ok s /\ d_table s = []).
Proof. exact new_former_panics_reset. Qed.
Print Assumptions C18_new_former_panics_reset.

Example C18_new_total_nonvacuous :
  exists s, new ex_cfg (fun _ => false) (Doc SumOk ex_doc) = Ok s /\ d_table s <> [].
Proof. exact new_total_nonvacuous. Qed.
Print Assumptions C18_new_total_nonvacuous.

(* every state the constructor returns carries subnets that re-validate to themselves and match the
   configuration (so the next restart does not reset) *)
Theorem C18_new_stable : forall c cap i s,
  new c cap i = Ok s -> cfg_ok c = true /\ stable c (d_n1 s) (d_n2 s).
Proof. exact new_stable. Qed.
Print Assumptions C18_new_stable.

(* ---------------- keeps serving ----------------
   The full-strength statements are in Properties/C18_glue.v, about the DHCP cluster's complete [step]:
   C18_keeps_serving_renew and C18_keeps_serving_no_reoffer (at ANY state).  The round-2 statements about the partial
   transcription Model/LeaseServe.v (C18_restart_renew_partial, C18_no_reoffer_partial) are superseded by them and were
   retired in round 7; Model/LeaseServe.v remains the model side of the dispatch kinds renew/offer, and
   Proofs/LeaseServe.v keeps the lemmas (renew_restored, discover_not_held) as a cross-check of that transcription. *)
