(* Properties/C14_glue.v — C14 glued to the other clusters' models of the same Go functions.
   Only statements, each closed by [exact] of a lemma proved in Proofs/Icmp6SpoofGlue*.v. *)
From PV Require Model.ViewsBase Model.ViewsVar Model.Views2 Model.SendBase Model.Send Spec.SendRef Proofs.SendBase.
From PV Require Import Base.Prelude Base.Slice Model.Icmp6SpoofRA Model.Icmp6Spoof Proofs.Icmp6Spoof
  Proofs.Icmp6SpoofGlue Proofs.Icmp6SpoofGlueViews Proofs.Icmp6SpoofGlueRun.
Open Scope N_scope.

(* ------------------------------------------------------------------ *)
(* VIEWS.  One model of newParseOptions, not two: on EVERY slice (any length, any capacity, any
   bytes) VIEWS' model of ICMP6RouterAdvertisement.Options() (Model/ViewsVar.v: bounds-checked slice
   walk + field-by-field decoders) returns exactly what the C14 model of the same function
   (Model/Icmp6SpoofRA.v ra_options) returns, projected on the fields VIEWS observes
   (MTU, prefixes, RDNSS lifetime and servers, source/target LLA, DNSSL lifetime and names, route). *)
Theorem C14_glue_views_options : forall v, wf v -> bytes_ok (arr v) ->
  PV.Model.ViewsVar.RA_Options v = Ok (show_options (ra_options (view v))).
Proof. exact ra_options_glue. Qed.
Print Assumptions C14_glue_views_options.

(* one option at a time: VIEWS' ndp_apply is the C14 opt_step *)
Theorem C14_glue_views_option : forall t l body o,
  1 <= l -> l < 256 -> List.length body = (N.to_nat l * 8 - 2)%nat -> bytes_ok body ->
  PV.Model.ViewsVar.ndp_apply (t :: l :: body) (tv o) = lift (opt_step o t (t :: l :: body)).
Proof. exact apply_step. Qed.
Print Assumptions C14_glue_views_option.

(* the RA getters ProcessPacket copies into the router record are VIEWS' getters *)
Theorem C14_glue_views_getters : forall v r0 o, wf v -> (16 <= len v)%nat ->
  let r := router_update r0 (view v) o in
  PV.Model.Views2.RA_CurrentHopLimit v = Ok (PV.Model.ViewsBase.VN (r_hop r)) /\
  PV.Model.Views2.RA_ManagedConfiguration v = Ok (PV.Model.ViewsBase.VB (r_managed r)) /\
  PV.Model.Views2.RA_OtherConfiguration v = Ok (PV.Model.ViewsBase.VB (r_other r)) /\
  PV.Model.Views2.RA_Preference v = Ok (PV.Model.ViewsBase.VN (r_prf r)) /\
  PV.Model.Views2.RA_Lifetime v = Ok (PV.Model.ViewsBase.VN (r_life r)) /\
  PV.Model.Views2.RA_ReachableTime v = Ok (PV.Model.ViewsBase.VN (r_reach r)) /\
  PV.Model.Views2.RA_RetransmitTimer v = Ok (PV.Model.ViewsBase.VN (r_retrans r)).
Proof. exact ra_getters_glue. Qed.
Print Assumptions C14_glue_views_getters.

(* ------------------------------------------------------------------ *)
(* SEND.  C14_confined as a statement about the bytes on the wire: the advertisement a Send step
   emits as a record, written by SEND's byte-level model of ICMP6SendNeighborAdvertisement into any
   pooled buffer, is read back by SEND's independent reference decoder as: Ethernet destination = the
   loop's (hunted) MAC, Ethernet source = our MAC, IPv6 source = target = the learned router's
   address, flag octet = override only, exactly one target link-layer address option = our MAC, valid
   ICMPv6 checksum, hop limit 255. *)
Theorem C14_glue_send_wire : forall c st i lp ip rest junk,
  nth_error (loops st) i = Some lp -> l_pending lp = ip :: rest ->
  PV.Proofs.SendBase.mac_ok (host_mac c) -> PV.Proofs.SendBase.mac_ok (a_mac (l_dst lp)) ->
  PV.Proofs.SendBase.ip6_ok (a_ip (l_dst lp)) -> PV.Proofs.SendBase.ip6_ok ip ->
  List.length junk = PV.Model.SendBase.EthMaxSize ->
  exists n fr, snd (step c st (Send i)) = ONAs [n] /\
    PV.Model.Send.send_na (send_cfg c) (na_eth_src n, na_ip_src n) (na_eth_dst n, na_ip_dst n) (na_tlla n, na_target n) junk = Ok [fr] /\
    on_wire n fr = true /\ na_eth_dst n = a_mac (l_dst lp) /\ na_target n = ip /\ na_flags n = 32.
Proof. exact sent_on_wire. Qed.
Print Assumptions C14_glue_send_wire.

Theorem C14_glue_send_fields : forall n fr, on_wire n fr = true ->
  match PV.Spec.SendRef.ref_decode fr with
  | Some (PV.Spec.SendRef.mkFrame d s et (PV.Spec.SendRef.L3Ip6 _ nh hop a b (PV.Spec.SendRef.L4Icmp typ code rest))) =>
      d = na_eth_dst n /\ s = na_eth_src n /\ a = na_ip_src n /\ b = na_ip_dst n /\
      typ = 136 /\ nth 0 rest 0 = na_flags n /\ PV.Base.Prelude.sub rest 4 16 = na_target n /\
      hop = 255
  | _ => False
  end.
Proof. exact on_wire_fields. Qed.
Print Assumptions C14_glue_send_fields.

(* the destinations StartHunt accepts (fe80::/10) and the one spoofLoop substitutes (ff02::1) are
   link-local for SEND's spec too *)
Theorem C14_glue_send_linklocal : forall ip, PV.Proofs.SendBase.ip6_ok ip -> is4in6 ip = false ->
  is_llu ip || is_llm ip = true -> PV.Spec.SendRef.ip6_is_linklocal ip = true.
Proof. exact dst_linklocal. Qed.
Print Assumptions C14_glue_send_linklocal.

(* C14 o C07 without hypotheses on the record: after ANY history of well-formed events (6-octet MACs,
   netip addresses of 0/4/16 octets: what the Go types guarantee), whatever a Send step emits is, written by
   SEND's model into any pooled buffer, read back by SEND's reference decoder as exactly that record *)
Theorem C14_glue_send_run : forall c rep evs i n junk,
  PV.Proofs.SendBase.mac_ok (host_mac c) -> Forall ev_wf evs -> List.length junk = PV.Model.SendBase.EthMaxSize ->
  let st := snd (run c (init rep) evs) in
  snd (step c st (Send i)) = ONAs [n] ->
  exists fr, PV.Model.Send.send_na (send_cfg c) (na_eth_src n, na_ip_src n) (na_eth_dst n, na_ip_dst n) (na_tlla n, na_target n) junk = Ok [fr] /\
    on_wire n fr = true /\ na_flags n = 32.
Proof. exact run_on_wire. Qed.
Print Assumptions C14_glue_send_run.
