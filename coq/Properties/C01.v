(* Properties/C01.v — Parsing is total and memory-safe on arbitrary bytes (Parse half).
   Only statements, each closed by [exact] of a lemma proved in Proofs/Parse*.v.
   (The view-getter half of C01 is in Properties/C01_views.v, VIEWS cluster.)

   The model (Model/Parse.v) follows /repo AFTER the two repairs of layer_frame.go made by this cluster
   (known_findings.txt, "fixed: property=C01"): `len(arp) < 28 || arp[4] != 6`, and ErrFrameLen when the
   tagged Ethernet header is longer than the frame.  Before them the three statements below were refuted
   (19-byte ARP frame: panic; 31-byte ARP frame: sender address read from the spare capacity; 16-byte
   802.1Q frame: Frame.Payload() panics); the former witnesses are kept as regression examples. *)
From PV Require Import Base.Prelude Base.Slice Model.Parse Model.ParseKnown Proofs.Parse Proofs.ParseSim Proofs.ParseAcc Proofs.ParseAlias.
Open Scope N_scope.

(* ---- Parse never panics / never spins: every slice, every capacity, every configuration ------------ *)
(* Fuel: the model has no loop, Fuel is excluded by construction. Blocking on the session lock: C09. *)
Theorem C01_parse_no_panic : forall c s, wf s -> safe (parse c s).
Proof. exact parse_no_panic. Qed.
Print Assumptions C01_parse_no_panic.

Example C01_parse_no_panic_nonvacuous :
  wf (of_bytes ex_arp28) /\
  exists f, parse cfg0 (of_bytes ex_arp28) = Ok f /\ f_id f = PayloadARP /\
            f_host f = Some ([2;17;17;17;17;17], [192;168;0;7]).
Proof. exact parse_no_panic_nonvacuous. Qed.
Print Assumptions C01_parse_no_panic_nonvacuous.

(* the inputs that made Parse panic before the repair *)
Example C01_former_panic_witnesses :
  parse cfg0 (of_bytes w_arp19) = Err EParseFrame /\ parse cfg0 (of_bytes w_arp14) = Err EParseFrame.
Proof. exact (conj parse_arp19_fixed parse_arp14_fixed). Qed.
Print Assumptions C01_former_panic_witnesses.

(* Session.Statistics is indexed by the PayloadID (h.Statistics[id].Count++ on Parse's way) and has [stats_len] entries
   (Model/Parse.v; the harness reads the length off a session built by the library's constructor on every run, kind
   "consts statslen").  Every id Parse can return, and every id of the three classification tables and of the fixed
   assignments, is a valid index: 0 < id < stats_len. *)
Theorem C01_stats_index_in_range : forall c s f, parse c s = Ok f -> 0 < f_id f /\ f_id f < stats_len.
Proof. intros c s f H. pose proof (parse_id_in_range c s) as P. rewrite H in P. exact P. Qed.
Print Assumptions C01_stats_index_in_range.

Theorem C01_table_ids_in_range :
  forallb (fun r => snd r <? stats_len) ethertype_rows && forallb (fun r => snd r <? stats_len) ipproto_rows
  && forallb (fun r => snd r <? stats_len) udp_port_rows
  && forallb (fun i => i <? stats_len) [PayloadEther; Payload8023; PayloadARP; PayloadIP4; PayloadIP6; PayloadUDP; PayloadTCP;
                                        PayloadICMP4; PayloadICMP6; PayloadIGMP] = true.
Proof. exact table_ids_in_range. Qed.
Print Assumptions C01_table_ids_in_range.

(* ---- the result depends only on the bytes within the length ---------------------------------------- *)
(* The whole result (offsets, PayloadID, addresses, ports, the key handed to the host table, the echo id handed
   to the ping table) is a function of the bytes within the length: any two well-formed slices with equal length
   and equal bytes within it, whatever their capacities and spare contents, parse identically. *)
Theorem C01_parse_len_only : forall c s s',
  wf s -> wf s' -> len s = len s' -> view s = view s' -> parse c s = parse c s'.
Proof. exact parse_len_only. Qed.
Print Assumptions C01_parse_len_only.

Example C01_parse_len_only_nonvacuous :
  let s := of_bytes ex_arp28 in let s' := of_bytes_cap ex_arp28 [170;170;170] in
  wf s /\ wf s' /\ len s = len s' /\ view s = view s' /\
  (cap s <> cap s')%nat /\ is_ok (parse cfg0 s) = true.
Proof. exact parse_len_only_nonvacuous. Qed.
Print Assumptions C01_parse_len_only_nonvacuous.

(* the two side outputs Parse produces besides its return value are covered: the echo id handed to echoNotify
   (condition as repaired by b8d5cb8 / 790e257 / b261543) and the key handed to the host table *)
Theorem C01_side_outputs_len_only : forall c s s' f f',
  wf s -> wf s' -> len s = len s' -> view s = view s' -> parse c s = Ok f -> parse c s' = Ok f' ->
  f_echo f = f_echo f' /\ f_host f = f_host f'.
Proof. exact parse_side_outputs_len_only. Qed.
Print Assumptions C01_side_outputs_len_only.

Example C01_echo_examples :
  option_map f_echo (match parse cfg1 (of_bytes ex_echo4) with Ok f => Some f | _ => None end) = Some (Some 4660) /\
  option_map f_echo (match parse cfg1 (of_bytes (set_b 14 85 ex_echo4)) with Ok f => Some f | _ => None end) = Some None /\
  option_map f_echo (match parse cfg1 (of_bytes (set_b 17 27 ex_echo4)) with Ok f => Some f | _ => None end) = Some None /\
  option_map f_echo (match parse cfg1 (of_bytes (set_b 34 8 ex_echo4)) with Ok f => Some f | _ => None end) = Some None /\
  option_map (fun f => (f_id f, f_echo f))
    (match parse cfg1 (of_bytes (set_b 34 129 (set_b 23 58 ex_echo4))) with Ok f => Some f | _ => None end)
  = Some (PayloadICMP6, None).
Proof. exact echo_examples. Qed.
Print Assumptions C01_echo_examples.

Example C01_former_capacity_witness :
  parse cfg0 (of_bytes_cap w_arp31 [1]) = Err EParseFrame /\ parse cfg0 (of_bytes w_arp31) = Err EParseFrame.
Proof. exact parse_arp31_fixed. Qed.
Print Assumptions C01_former_capacity_witness.

(* ---- accessors after a nil error --------------------------------------------------------------------- *)
(* Every accessor of the returned Frame (Ether, IP4, IP6, UDP, TCP, Payload) returns without panic either nil
   or the sub-slice of the input that starts at an offset <= len and runs to the end of the input.
   (HasIP and the addresses are total by construction: they read Frame fields only; the MAC slices are
   p[6:12] and p[0:6] of a frame of at least 14 bytes: C16_views_are_subslices.) *)
Theorem C01_frame_accessors_safe : forall c s f,
  wf s -> parse c s = Ok f ->
  acc_inside s (frame_ether s f) /\ acc_inside s (frame_ip4 s f) /\ acc_inside s (frame_ip6 s f) /\
  acc_inside s (frame_udp s f) /\ acc_inside s (frame_tcp s f) /\ acc_inside s (frame_payload s f).
Proof. exact frame_accessors_safe. Qed.
Print Assumptions C01_frame_accessors_safe.

(* The exported surface of Frame is: the six slice accessors above, HasIP (reads two offsets), the fields PayloadID /
   SrcAddr / DstAddr / Host / Session, and Log(line), which evaluates len(Payload()).  The list is checked against
   the Go type by reflection on every run (dispatch kind "m": a new method or exported field is a disagreement). *)
Theorem C01_frame_log_safe : forall c s f, wf s -> parse c s = Ok f -> frame_log s f = Ok tt.
Proof. exact frame_log_safe. Qed.
Print Assumptions C01_frame_log_safe.

Example C01_frame_accessors_safe_nonvacuous :
  let s := of_bytes ex_arp28 in
  wf s /\ exists f, parse cfg0 s = Ok f /\
  frame_payload s f = Ok (Some (mkSlice (skipn 14 (arr s)) 28)).
Proof. exact frame_accessors_safe_nonvacuous. Qed.
Print Assumptions C01_frame_accessors_safe_nonvacuous.

Example C01_former_accessor_witness : parse cfg0 (of_bytes w_vlan16) = Err EFrameLen.
Proof. exact parse_vlan16_fixed. Qed.
Print Assumptions C01_former_accessor_witness.
