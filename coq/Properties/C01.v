(* Properties/C01.v — Parsing is total and memory-safe on arbitrary bytes (Parse half).
   Only statements, each closed by [exact] of a lemma proved in Proofs/Parse*.v.
   (The view-getter half of C01 is in Properties/C01_views.v, VIEWS cluster.) *)
From PV Require Import Base.Prelude Base.Slice Model.Parse Model.ParseKnown Proofs.Parse Proofs.ParseSim Proofs.ParseAcc.
Open Scope N_scope.

(* ---- Parse never panics / never spins ------------------------------------------------- *)

(* Full statement "forall c s, wf s -> safe (parse c s)" is FALSE for the code as it is
   (layer_frame.go:240, `len(arp) < 28 && arp[4] != 6`): *)
Theorem C01_parse_no_panic_refuted :
  exists c s, wf s /\ bytes_ok (arr s) /\ parse c s = Panic.
Proof. exact parse_no_panic_refuted. Qed.
Print Assumptions C01_parse_no_panic_refuted.

(* It holds for every slice (any length, any capacity >= length, any configuration) outside the
   recorded class k_arp_unsafe: ARP EtherType, unicast source, body shorter than 18 bytes and
   (body shorter than 5 bytes or body[4] = 6).  The class is a function of the bytes within the
   length only.  Fuel: the model has no loop, so Fuel is excluded by construction. *)
Theorem C01_parse_no_panic_partial : forall c s,
  wf s -> k_arp_unsafe (view s) = false -> safe (parse c s).
Proof. exact parse_no_panic_partial. Qed.
Print Assumptions C01_parse_no_panic_partial.

Example C01_parse_no_panic_nonvacuous :
  wf (of_bytes ex_arp28) /\ k_arp_unsafe (view (of_bytes ex_arp28)) = false /\
  exists f, parse cfg0 (of_bytes ex_arp28) = Ok f /\ f_id f = PayloadARP /\
            f_host f = Some ([2;17;17;17;17;17], [192;168;0;7]).
Proof. exact parse_no_panic_nonvacuous. Qed.
Print Assumptions C01_parse_no_panic_nonvacuous.

(* ---- the result depends only on the bytes within the length ---------------------------- *)

(* FALSE as the code is: a truncated ARP body with hardware length 6 makes Parse read the sender
   address from the spare capacity (arp[14:18] is a slice expression: checked against cap). *)
Theorem C01_parse_len_only_refuted :
  exists c s s', wf s /\ wf s' /\ len s = len s' /\ view s = view s' /\ parse c s <> parse c s'.
Proof. exact parse_len_only_refuted. Qed.
Print Assumptions C01_parse_len_only_refuted.

(* Outside the same ARP class the result (offsets, PayloadID, addresses, ports, the key handed to
   the host table, the echo id handed to the ping table) is a function of the bytes within the
   length: any two well-formed slices with equal length and equal bytes within it, whatever their
   capacities and spare contents, parse identically. *)
Theorem C01_parse_len_only_partial : forall c s s',
  wf s -> wf s' -> len s = len s' -> view s = view s' -> k_arp_unsafe (view s) = false ->
  parse c s = parse c s'.
Proof. exact parse_len_only_partial. Qed.
Print Assumptions C01_parse_len_only_partial.

Example C01_parse_len_only_nonvacuous :
  let s := of_bytes ex_arp28 in let s' := of_bytes_cap ex_arp28 [170;170;170] in
  wf s /\ wf s' /\ len s = len s' /\ view s = view s' /\ k_arp_unsafe (view s) = false /\
  (cap s <> cap s')%nat /\ is_ok (parse cfg0 s) = true.
Proof. exact parse_len_only_nonvacuous. Qed.
Print Assumptions C01_parse_len_only_nonvacuous.

(* ---- accessors after a nil error -------------------------------------------------------- *)

(* FALSE as the code is: 16-byte 802.1Q frame, Parse returns nil and Frame.Payload() panics. *)
Theorem C01_frame_accessors_safe_refuted :
  exists c s f, wf s /\ bytes_ok (arr s) /\ parse c s = Ok f /\ frame_payload s f = Panic.
Proof. exact frame_accessors_safe_refuted. Qed.
Print Assumptions C01_frame_accessors_safe_refuted.

(* Outside the recorded class k_vlan_short (EtherType 0x8100 with len < 18, 0x88a8 with len < 22) every
   accessor of the returned Frame (Ether, IP4, IP6, UDP, TCP, Payload) returns without panic either nil
   or the sub-slice of the input that starts at an offset <= len and runs to the end of the input.
   (HasIP and the addresses are total by construction: they read Frame fields only.) *)
Theorem C01_frame_accessors_safe_partial : forall c s f,
  wf s -> k_vlan_short (view s) = false -> parse c s = Ok f ->
  acc_inside s (frame_ether s f) /\ acc_inside s (frame_ip4 s f) /\ acc_inside s (frame_ip6 s f) /\
  acc_inside s (frame_udp s f) /\ acc_inside s (frame_tcp s f) /\ acc_inside s (frame_payload s f).
Proof. exact frame_accessors_safe_partial. Qed.
Print Assumptions C01_frame_accessors_safe_partial.

Example C01_frame_accessors_safe_nonvacuous :
  let s := of_bytes ex_arp28 in
  wf s /\ k_vlan_short (view s) = false /\ exists f, parse cfg0 s = Ok f /\
  frame_payload s f = Ok (Some (mkSlice (skipn 14 (arr s)) 28)).
Proof. exact frame_accessors_safe_nonvacuous. Qed.
Print Assumptions C01_frame_accessors_safe_nonvacuous.
