(* Properties/C20_glue.v — the getters and IsValid predicates of Model/FastlogViews.v (C20's call-list
   models of the views) are those of VIEWS' model Model/Views*.v (C01/C02), on every well-formed slice.
   Only statements, each closed by [exact] of a lemma of Proofs/FastlogGlue.v.
   bview v = the bytes of the slice within its length; swf v = len <= cap;
   is_bytes v r e: the getter returned a value (copied array, range inside the view, or nil) denoting bytes e. *)
From PV Require Import Base.Prelude Base.Slice Model.ViewsBase Model.Views Model.Views2 Model.ViewsVar.
From PV Require Import Model.ViewsDispatch Model.FastlogViews Proofs.FastlogGlue.
Open Scope N_scope.

Theorem C20_glue_valid_Ether : forall v, swf v -> Ether_IsValid v = Ok (view_valid KEther (bview v)).
Proof. exact glue_valid_Ether. Qed.
Print Assumptions C20_glue_valid_Ether.

Theorem C20_glue_valid_UDP : forall v, swf v -> UDP_IsValid v = Ok (view_valid KUDP (bview v)).
Proof. exact glue_valid_UDP. Qed.
Print Assumptions C20_glue_valid_UDP.

Theorem C20_glue_valid_ICMP : forall v, swf v -> ICMP_IsValid v = Ok (view_valid KICMP (bview v)).
Proof. exact glue_valid_ICMP. Qed.
Print Assumptions C20_glue_valid_ICMP.

Theorem C20_glue_valid_ICMPEcho : forall v, swf v -> ICMPEcho_IsValid v = Ok (view_valid KICMPEcho (bview v)).
Proof. exact glue_valid_ICMPEcho. Qed.
Print Assumptions C20_glue_valid_ICMPEcho.

Theorem C20_glue_valid_RA : forall v, swf v -> RA_IsValid v = Ok (view_valid KRA (bview v)).
Proof. exact glue_valid_RA. Qed.
Print Assumptions C20_glue_valid_RA.

Theorem C20_glue_valid_NA : forall v, swf v -> NA_IsValid v = Ok (view_valid KNA (bview v)).
Proof. exact glue_valid_NA. Qed.
Print Assumptions C20_glue_valid_NA.

Theorem C20_glue_valid_NS : forall v, swf v -> NS_IsValid v = Ok (view_valid KNS (bview v)).
Proof. exact glue_valid_NS. Qed.
Print Assumptions C20_glue_valid_NS.

Theorem C20_glue_valid_DNS : forall v, swf v -> DNS_IsValid v = Ok (view_valid KDNS (bview v)).
Proof. exact glue_valid_DNS. Qed.
Print Assumptions C20_glue_valid_DNS.

Theorem C20_glue_valid_IEEE1905 : forall v, swf v -> IEEE1905_IsValid v = Ok (view_valid KIEEE1905 (bview v)).
Proof. exact glue_valid_IEEE1905. Qed.
Print Assumptions C20_glue_valid_IEEE1905.

Theorem C20_glue_valid_LLC : forall v, swf v -> LLC_IsValid v = Ok (view_valid KLLC (bview v)).
Proof. exact glue_valid_LLC. Qed.
Print Assumptions C20_glue_valid_LLC.

Theorem C20_glue_valid_SNAP : forall v, swf v -> SNAP_IsValid v = Ok (view_valid KSNAP (bview v)).
Proof. exact glue_valid_SNAP. Qed.
Print Assumptions C20_glue_valid_SNAP.

Theorem C20_glue_valid_RRCP : forall v, swf v -> RRCP_IsValid v = Ok (view_valid KRRCP (bview v)).
Proof. exact glue_valid_RRCP. Qed.
Print Assumptions C20_glue_valid_RRCP.

Theorem C20_glue_valid_LLDP : forall v, swf v -> LLDP_IsValid v = Ok (view_valid KLLDP (bview v)).
Proof. exact glue_valid_LLDP. Qed.
Print Assumptions C20_glue_valid_LLDP.

Theorem C20_glue_valid_RS : forall v, swf v -> RS_IsValid v = Ok (view_valid KRS (bview v)).
Proof. exact glue_valid_RS. Qed.
Print Assumptions C20_glue_valid_RS.

Theorem C20_glue_valid_Pause : forall v, swf v -> Pause_IsValid v = Ok (view_valid KPause (bview v)).
Proof. exact glue_valid_Pause. Qed.
Print Assumptions C20_glue_valid_Pause.

Theorem C20_glue_valid_ARP : forall v, swf v -> ARP_IsValid v = Ok (view_valid KARP (bview v)).
Proof. exact glue_valid_ARP. Qed.
Print Assumptions C20_glue_valid_ARP.

Theorem C20_glue_valid_IP6 : forall v, swf v -> IP6_IsValid v = Ok (view_valid KIP6 (bview v)).
Proof. exact glue_valid_IP6. Qed.
Print Assumptions C20_glue_valid_IP6.

Theorem C20_glue_valid_IP4 : forall v, swf v -> IP4_IsValid v = Ok (view_valid KIP4 (bview v)).
Proof. exact glue_valid_IP4. Qed.
Print Assumptions C20_glue_valid_IP4.

Theorem C20_glue_valid_Redirect : forall v, swf v -> R4_IsValid v = Ok (view_valid KRedirect (bview v)).
Proof. exact glue_valid_Redirect. Qed.
Print Assumptions C20_glue_valid_Redirect.

Theorem C20_glue_valid_DHCP4 : forall v, swf v -> DHCP4_IsValid v = Ok (view_valid KDHCP4 (bview v)).
Proof. exact glue_valid_DHCP4. Qed.
Print Assumptions C20_glue_valid_DHCP4.

Theorem C20_glue_Ether : forall v, swf v -> let p := bview v in
  view_valid KEther p = true ->
  Ether_EtherType v = Ok (VN (w16 p 12)) /\ is_bytes v (Ether_Src v) (vsub p 6 6) /\ is_bytes v (Ether_Dst v) (vsub p 0 6).
Proof. exact glue_Ether. Qed.
Print Assumptions C20_glue_Ether.

Theorem C20_glue_IP4 : forall v, swf v -> let p := bview v in
  view_valid KIP4 p = true -> bytes_ok p ->
  IP4_Version v = Ok (VN (bt p 0 / 16)) /\ is_bytes v (IP4_Src v) (vsub p 12 4) /\ is_bytes v (IP4_Dst v) (vsub p 16 4) /\
  IP4_Protocol v = Ok (VN (bt p 9)) /\ IP4_TTL v = Ok (VN (bt p 8)) /\ IP4_TOS v = Ok (VN (bt p 1)) /\
  IP4_Flags v = Ok (VN (N.land (bt p 6) 224)) /\
  IP4_Fragment v = Ok (VN (N.land (bt p 6) 31 * 256 + bt p 7)) /\ IP4_TotalLen v = Ok (VN (w16 p 2)).
Proof. exact glue_IP4. Qed.
Print Assumptions C20_glue_IP4.

Theorem C20_glue_IP6 : forall v, swf v -> let p := bview v in
  view_valid KIP6 p = true ->
  IP6_Version v = Ok (VN (bt p 0 / 16)) /\ is_bytes v (IP6_Src v) (vsub p 8 16) /\ is_bytes v (IP6_Dst v) (vsub p 24 16) /\
  IP6_NextHeader v = Ok (VN (bt p 6)) /\ IP6_PayloadLen v = Ok (VN (w16 p 4)) /\ IP6_HopLimit v = Ok (VN (bt p 7)) /\
  IP6_TrafficClass v = Ok (VN (N.lor (N.land (bt p 0) 15 * 16) (bt p 1 / 16))).
Proof. exact glue_IP6. Qed.
Print Assumptions C20_glue_IP6.

Theorem C20_glue_UDP : forall v, swf v -> let p := bview v in
  view_valid KUDP p = true ->
  UDP_SrcPort v = Ok (VN (w16 p 0)) /\ UDP_DstPort v = Ok (VN (w16 p 2)) /\ UDP_Len v = Ok (VN (w16 p 4)) /\
  is_bytes v (UDP_Payload v) (skipn 8 p).
Proof. exact glue_UDP. Qed.
Print Assumptions C20_glue_UDP.

Theorem C20_glue_ARP : forall v, swf v -> let p := bview v in
  view_valid KARP p = true ->
  ARP_Operation v = Ok (VN (w16 p 6)) /\ is_bytes v (ARP_SrcMAC v) (vsub p 8 6) /\ is_bytes v (ARP_SrcIP v) (vsub p 14 4) /\
  is_bytes v (ARP_DstMAC v) (vsub p 18 6) /\ is_bytes v (ARP_DstIP v) (vsub p 24 4).
Proof. exact glue_ARP. Qed.
Print Assumptions C20_glue_ARP.

Theorem C20_glue_ICMP : forall v, swf v -> let p := bview v in
  view_valid KICMP p = true ->
  ICMP_Type v = Ok (VN (bt p 0)) /\ ICMP_Code v = Ok (VN (bt p 1)) /\ ICMP_Checksum v = Ok (VN (w16 p 2)) /\
  is_bytes v (ICMP_Payload v) (skipn 8 p).
Proof. exact glue_ICMP. Qed.
Print Assumptions C20_glue_ICMP.

Theorem C20_glue_ICMPEcho : forall v, swf v -> let p := bview v in
  view_valid KICMPEcho p = true ->
  ICMPEcho_EchoID v = Ok (VN (w16 p 4)) /\ ICMPEcho_EchoSeq v = Ok (VN (w16 p 6)) /\ is_bytes v (ICMPEcho_EchoData v) (skipn 8 p).
Proof. exact glue_ICMPEcho. Qed.
Print Assumptions C20_glue_ICMPEcho.

Theorem C20_glue_RS : forall v, swf v -> let p := bview v in
  view_valid KRS p = true ->
  ICMP_Code v = Ok (VN (bt p 1)) /\ is_bytes v (RS_SourceLLA v) (lla_at p 8 1).
Proof. exact glue_RS. Qed.
Print Assumptions C20_glue_RS.

Theorem C20_glue_RA : forall v, swf v -> let p := bview v in
  view_valid KRA p = true ->
  ICMP_Code v = Ok (VN (bt p 1)) /\ RA_CurrentHopLimit v = Ok (VN (bt p 4)) /\ RA_Flags v = Ok (VN (bt p 5)) /\
  RA_ManagedConfiguration v = Ok (VB (bit (bt p 5) 128)) /\ RA_OtherConfiguration v = Ok (VB (bit (bt p 5) 64)) /\
  RA_Preference v = Ok (VN (N.land (bt p 5) 24 / 8)) /\ RA_Lifetime v = Ok (VN (w16 p 6)) /\
  RA_ReachableTime v = Ok (VN (w32 p 8)) /\ RA_RetransmitTimer v = Ok (VN (w32 p 12)).
Proof. exact glue_RA. Qed.
Print Assumptions C20_glue_RA.

Theorem C20_glue_NA : forall v, swf v -> let p := bview v in
  view_valid KNA p = true ->
  ICMP_Code v = Ok (VN (bt p 1)) /\ NA_Override v = Ok (VB (bit (bt p 4) 32)) /\ NA_Solicited v = Ok (VB (bit (bt p 4) 64)) /\
  is_bytes v (NA_TargetAddress v) (vsub p 8 16) /\ is_bytes v (NA_TargetLLA v) (lla_at p 24 2).
Proof. exact glue_NA. Qed.
Print Assumptions C20_glue_NA.

Theorem C20_glue_NS : forall v, swf v -> let p := bview v in
  view_valid KNS p = true ->
  ICMP_Code v = Ok (VN (bt p 1)) /\ is_bytes v (NS_TargetAddress v) (vsub p 8 16) /\ is_bytes v (NS_SourceLLA v) (lla_at p 24 1).
Proof. exact glue_NS. Qed.
Print Assumptions C20_glue_NS.

Theorem C20_glue_DHCP4 : forall v, swf v -> let p := bview v in
  view_valid KDHCP4 p = true ->
  is_bytes v (DHCP4_XId v) (vsub p 4 4) /\ DHCP4_OpCode v = Ok (VN (bt p 0)) /\ is_bytes v (DHCP4_CHAddr v) (vsub p 28 6) /\
  is_bytes v (DHCP4_CIAddr v) (vsub p 12 4) /\ is_bytes v (DHCP4_YIAddr v) (vsub p 16 4).
Proof. exact glue_DHCP4. Qed.
Print Assumptions C20_glue_DHCP4.

Theorem C20_glue_DNS : forall v, swf v -> let p := bview v in
  view_valid KDNS p = true ->
  DNS_TransactionID v = Ok (VN (w16 p 0)) /\ DNS_QR v = Ok (VB (bit (bt p 2) 128)) /\ DNS_TC v = Ok (VB (bit (bt p 2) 2)) /\
  DNS_ResponseCode v = Ok (VN (N.land (bt p 3) 15)) /\ DNS_QDCount v = Ok (VN (w16 p 4)) /\ DNS_ANCount v = Ok (VN (w16 p 6)) /\
  DNS_NSCount v = Ok (VN (w16 p 8)) /\ DNS_ARCount v = Ok (VN (w16 p 10)).
Proof. exact glue_DNS. Qed.
Print Assumptions C20_glue_DNS.

Theorem C20_glue_Pause : forall v, swf v -> let p := bview v in
  view_valid KPause p = true ->
  Pause_Opcode v = Ok (VN (w16 p 0)) /\ Pause_Duration v = Ok (VN (w16 p 2)).
Proof. exact glue_Pause. Qed.
Print Assumptions C20_glue_Pause.

Theorem C20_glue_IEEE1905 : forall v, swf v -> let p := bview v in
  view_valid KIEEE1905 p = true ->
  IEEE1905_Version v = Ok (VN (bt p 0)) /\ IEEE1905_Type v = Ok (VN (w16 p 2)) /\ IEEE1905_ID v = Ok (VN (w16 p 4)) /\
  IEEE1905_FragmentID v = Ok (VN (bt p 6)) /\ IEEE1905_Flags v = Ok (VN (bt p 7)) /\ is_bytes v (IEEE1905_TLV v) (skipn 8 p).
Proof. exact glue_IEEE1905. Qed.
Print Assumptions C20_glue_IEEE1905.

Theorem C20_glue_SNAP : forall v, swf v -> let p := bview v in
  view_valid KSNAP p = true ->
  LLC_DSAP v = Ok (VN (bt p 0)) /\ LLC_Control v = Ok (VN (bt p 2)) /\ is_bytes v (SNAP_OrganisationID v) (vsub p 3 3) /\
  SNAP_EtherType v = Ok (VN (w16 p 6)).
Proof. exact glue_SNAP. Qed.
Print Assumptions C20_glue_SNAP.

Theorem C20_glue_LLC : forall v, swf v -> let p := bview v in
  view_valid KLLC p = true ->
  LLC_DSAP v = Ok (VN (bt p 0)) /\ LLC_SSAP v = Ok (VN (bt p 1)) /\ LLC_Control v = Ok (VN (bt p 2)) /\
  exists s, LLC_Type v = Ok (VS s) /\ s2b s = llc_type p.
Proof. exact glue_LLC. Qed.
Print Assumptions C20_glue_LLC.

Theorem C20_glue_RRCP : forall v, swf v -> let p := bview v in
  view_valid KRRCP p = true -> bytes_ok p ->
  RRCP_Protocol v = Ok (VN (bt p 0)) /\ RRCP_Reply v = Ok (VB (bit (bt p 1) 128)) /\
  RRCP_OpCode v = Ok (VN (N.land (bt p 1) 127)) /\ is_bytes v (RRCP_SixBytes v) (vsub p 1 6) /\
  is_bytes v (RRCP_Zeros v) (skipn 7 p).
Proof. exact glue_RRCP. Qed.
Print Assumptions C20_glue_RRCP.

Theorem C20_glue_Redirect : forall v, swf v -> let p := bview v in
  view_valid KRedirect p = true ->
  ICMP_Type v = Ok (VN (bt p 0)) /\ ICMP_Code v = Ok (VN (bt p 1)) /\ ICMP_Checksum v = Ok (VN (w16 p 2)) /\
  R4_NumAddrs v = Ok (VN (bt p 4)) /\ R4_AddrSize v = Ok (VN (bt p 5)) /\ R4_Lifetime v = Ok (VN (w16 p 6)) /\
  exists xs, R4_Addrs v = Ok (VL xs) /\ map (fun x => Some (vbytes v x)) xs = redirect_addrs p.
Proof. exact glue_Redirect. Qed.
Print Assumptions C20_glue_Redirect.

(* LLDP: the TLV the C20 walk decodes at a position is the one VIEWS' getTLV returns ... *)
Theorem C20_glue_LLDP_getTLV : forall v, swf v -> forall n, lldp_getTLV v n = Ok (tlv_of (bview v) n).
Proof. exact glue_LLDP_getTLV. Qed.
Print Assumptions C20_glue_LLDP_getTLV.

(* ... and one step of the C20 walk, written with that TLV, stops where VIEWS' lldp_walk stops (error, type 0)
   and advances by the same l + 2 *)
Theorem C20_glue_lldp_ops_step : forall f q pos,
  lldp_ops (S f) q pos =
  let x := tlv_of q pos in
  if tlv_err x then [] else if tlv_t x =? 0 then []
  else let val := vsub q (pos + 2) (N.to_nat (tlv_l x)) in
       ((if (tlv_t x =? 5) || (tlv_t x =? 6) then [OString (lldp_type (tlv_t x)) val]
         else if tlv_t x =? 7 then [OByteArr (s2b "capability") val; OString (s2b "type") (lldp_capability val)]
         else [OByteArr (lldp_type (tlv_t x)) val])
        ++ lldp_ops f q (pos + N.to_nat (tlv_l x) + 2))%list.
Proof. exact lldp_ops_step. Qed.
Print Assumptions C20_glue_lldp_ops_step.

(* LLDP.Capability: the text the C20 walk prints is VIEWS' LLDP_Capability_s (names of the bits 0x01..0x80, cap_names_code) *)
Theorem C20_glue_LLDP_Capability : forall v, bytes_ok v -> s2b (ViewsDispatch.LLDP_Capability_s v) = lldp_capability v.
Proof. exact glue_LLDP_Capability. Qed.
Print Assumptions C20_glue_LLDP_Capability.
