(* Properties/C05.v — Host and MAC tables stay mutually consistent.
   Only statements, each closed by [exact] of a lemma proved in Proofs/Tables.v.
   [Inv] (Spec/HostTrackingInv.v) is the property text clause by clause; [step]
   (Model/Tables.v) is the state machine transcribed from the Go code; the Go map
   iteration order of purge is the argument [order] of the op [Purge], so
   "for every op" includes "for every order". *)
From PV Require Import Base.Prelude Model.Tables Spec.HostTrackingInv Proofs.Tables.

(* NewSession never panics and establishes the invariant, for every configuration *)
Theorem C05_new_session_total : forall c now, exists s, new_session c now = Ok s.
Proof. exact C05_new_session_total_proof. Qed.
Print Assumptions C05_new_session_total.

Theorem C05_init : forall c now s, new_session c now = Ok s -> Inv s.
Proof. exact C05_init_proof. Qed.
Print Assumptions C05_init.

(* every operation (Parse, Notify, DHCPv4Update, SetDHCPv4IPOffer, Capture, Release, purge in
   any iteration order, the five Update*Name, draining the channel) preserves it *)
Theorem C05_step : forall c s o, Inv s -> Inv (fst (step c s o)).
Proof. exact C05_step_proof. Qed.
Print Assumptions C05_step.

(* hence it holds after every history *)
Theorem C05_reachable : forall c now s0 ops, new_session c now = Ok s0 -> Inv (run c s0 ops).
Proof. exact C05_reachable_proof. Qed.
Print Assumptions C05_reachable.

(* PrintTable's self-check passes, and no step reaches the panic inside findOrCreateHostWithLock *)
Theorem C05_printtable_no_panic : forall s, Inv s -> print_table s <> Panic.
Proof. exact C05_printtable_proof. Qed.
Print Assumptions C05_printtable_no_panic.

Theorem C05_step_no_panic : forall c s o, Inv s -> snd (step c s o) <> OPanic.
Proof. exact C05_step_no_panic_proof. Qed.
Print Assumptions C05_step_no_panic.

(* the invariant of the property text is equivalent to the one the proofs carry
   (triples of the index are a permutation of the triples listed under the MAC entries) *)
Theorem C05_inv_characterisation : forall s, Inv s <-> InvP s.
Proof. exact Inv_iff. Qed.
Print Assumptions C05_inv_characterisation.

(* non-vacuity: the standard configuration; a history with discovery, IP change, re-binding that
   empties the middle of a host list, ageing and purge down to our own entry *)
Example C05_init_nonvacuous :
  List.length (hosts ex_s0) = 2%nat /\ List.length (macs ex_s0) = 2%nat /\ Inv ex_s0.
Proof. exact ex_init_ok. Qed.
Print Assumptions C05_init_nonvacuous.

Example C05_history_nonvacuous :
    let s6 := run std_cfg ex_s0 (firstn 6 ex_history) in
    let s8 := run std_cfg ex_s0 ex_history in
    Inv s6 /\ List.length (hosts s6) = 5%nat /\ List.length (macs s6) = 4%nat /\
    mac_hosts ex_mac2 s6 = [IP4 3232235523; IP4 3232235521] /\
    Inv s8 /\ List.length (hosts s8) = 1%nat /\ List.length (macs s8) = 1%nat.
Proof. exact ex_history_nontrivial. Qed.
Print Assumptions C05_history_nonvacuous.

(* ---- exported fields the application owns are INPUTS ----
   Host.HuntStage is written by the application (under the row lock), never by a step of the library after it created the
   record, and read by no step.  The invariant is independent of it: every re-valuation of the stages of a consistent
   state is consistent, in particular the state after the history op H (the application sets the stage of FindIP(k)).
   With C05_step this gives the invariant after every history that interleaves H ops with the API calls. *)
Theorem C05_inv_independent_of_huntstage : forall f s, Inv s -> Inv (restage f s).
Proof. exact inv_restage. Qed.
Print Assumptions C05_inv_independent_of_huntstage.

Theorem C05_application_sets_huntstage : forall k st s, Inv s -> Inv (upd_host k (set_hstage st) s).
Proof. exact inv_set_stage. Qed.
Print Assumptions C05_application_sets_huntstage.
