(* Properties/C07.v — every transmitted frame is well-formed and sourced from the host NIC MAC.
   Only statements, each closed by [exact] of a lemma proved in Proofs/Send*.v.
   send_X : cfg -> args -> junk -> res (list frame) is the model of one send path
   (Model/Send*.v); junk is the arbitrary previous content of the pooled buffer;
   wf_X (Spec/SendRef.v) says: the independent reference decoder decodes the frame as a complete,
   length-consistent packet of the intended protocol with the requested addresses and fields,
   Ethernet source = host MAC, checksums verify, hop limit / multicast MAC rules hold. *)
From PV Require Import Proofs.SendBase Model.Send Spec.SendKnown Proofs.Send.
Open Scope N_scope.

(* ICMP4SendEchoRequest: all configurations, addresses, ids, sequence numbers and buffer contents *)
Theorem C07_echo4_wellformed : forall c sm si dm di id seq junk,
  mac_ok (host_mac c) -> mac_ok dm -> ip4_ok si -> ip4_ok di -> id < 65536 -> seq < 65536 ->
  length junk = EthMaxSize ->
  exists fr, send_echo4 c (sm, si) (dm, di) id seq junk = Ok [fr] /\
    wf_echo4 (host_mac c) dm si di id seq fr = true.
Proof. exact echo4_wf. Qed.
Print Assumptions C07_echo4_wellformed.

Theorem C07_echo4_refuses_wrong_family : forall c src dst id seq junk,
  is4 (a_ip src) = false \/ is4 (a_ip dst) = false -> send_echo4 c src dst id seq junk = Ok [].
Proof. exact echo4_refuses. Qed.
Print Assumptions C07_echo4_refuses_wrong_family.

(* ICMP6SendEchoRequest *)
Theorem C07_echo6_wellformed : forall c sm si dm di id seq junk,
  mac_ok (host_mac c) -> mac_ok dm -> ip6_ok si -> ip6_ok di -> id < 65536 -> seq < 65536 ->
  length junk = EthMaxSize ->
  exists fr, send_echo6 c (sm, si) (dm, di) id seq junk = Ok [fr] /\
    wf_echo6 (host_mac c) dm si di id seq fr = true.
Proof. exact echo6_wf. Qed.
Print Assumptions C07_echo6_wellformed.

(* ICMP6SendNeighborAdvertisement, incl. hop limit 255 towards link-local destinations *)
Theorem C07_na_wellformed : forall c sm si dm di tm ti junk,
  mac_ok (host_mac c) -> mac_ok dm -> ip6_ok si -> ip6_ok di -> mac_ok tm -> ip6_ok ti ->
  length junk = EthMaxSize ->
  exists fr, send_na c (sm, si) (dm, di) (tm, ti) junk = Ok [fr] /\
    wf_na (host_mac c) dm si di 32 ti tm fr = true.
Proof. exact na_wf. Qed.
Print Assumptions C07_na_wellformed.

(* ICMP6SendNeighbourSolicitation: refuted (finding ns-option-type-2: the link-layer option has type 2) ... *)
Theorem C07_ns_wellformed_refuted :
  exists c sm si dm di tg junk fr,
    mac_ok (host_mac c) /\ mac_ok dm /\ ip6_ok si /\ ip6_ok di /\ ip6_ok tg /\ length junk = EthMaxSize /\
    send_ns c (sm, si) (dm, di) tg junk = Ok [fr] /\
    wf_ns (host_mac c) dm si di tg fr = false /\
    known_ns_opt_type (host_mac c) dm si di tg fr = true.
Proof. exact ns_refuted. Qed.
Print Assumptions C07_ns_wellformed_refuted.

(* ... and proved for everything but the option type: wf_ns_gen 2 is wf_ns with the expected option type 2 *)
Theorem C07_ns_wellformed_partial : forall c sm si dm di tg junk,
  mac_ok (host_mac c) -> mac_ok dm -> ip6_ok si -> ip6_ok di -> ip6_ok tg ->
  length junk = EthMaxSize ->
  exists fr, send_ns c (sm, si) (dm, di) tg junk = Ok [fr] /\
    wf_ns_gen 2 (host_mac c) dm si di tg fr = true.
Proof. exact ns_partial. Qed.
Print Assumptions C07_ns_wellformed_partial.

(* Session.arpRequest (purge probe): refuted (finding arpreq-hlen-plen-in-ether-header) ... *)
Theorem C07_arp_request_wellformed_refuted :
  exists c ip junk fr, mac_ok (host_mac c) /\ ip4_ok (host_ip4 c) /\ ip4_ok ip /\ length junk = EthMaxSize /\
    send_purge_arp c ip junk = Ok [fr] /\
    wf_arp (host_mac c) eth_bcast 1 (host_mac c) (host_ip4 c) eth_bcast ip fr = false /\
    known_arpreq_hdr (host_mac c) eth_bcast 1 (host_mac c) (host_ip4 c) eth_bcast ip fr = true.
Proof. exact arp_request_refuted. Qed.
Print Assumptions C07_arp_request_wellformed_refuted.

(* ... every frame is well-formed once hlen/plen are moved from Ethernet bytes 4,5 to ARP bytes 4,5 ... *)
Theorem C07_arp_request_wellformed_partial : forall c dst sm si tm ti junk,
  mac_ok (host_mac c) -> mac_ok dst -> mac_ok sm -> ip4_ok si -> mac_ok tm -> ip4_ok ti ->
  (42 <= length junk)%nat ->
  exists fr, send_arp_request c dst (sm, si) (tm, ti) junk = Ok [fr] /\
    nth 4 fr 0 = 6 /\ nth 5 fr 0 = 4 /\
    wf_arp (host_mac c) dst 1 sm si tm ti (repair_arpreq dst fr) = true.
Proof. exact arp_request_partial. Qed.
Print Assumptions C07_arp_request_wellformed_partial.

(* ... hence well-formed outside the recorded class *)
Theorem C07_arp_request_outside_known : forall c dst sm si tm ti junk fr,
  mac_ok (host_mac c) -> mac_ok dst -> mac_ok sm -> ip4_ok si -> mac_ok tm -> ip4_ok ti ->
  (42 <= length junk)%nat ->
  send_arp_request c dst (sm, si) (tm, ti) junk = Ok [fr] ->
  known_arpreq_hdr (host_mac c) dst 1 sm si tm ti fr = false ->
  wf_arp (host_mac c) dst 1 sm si tm ti fr = true.
Proof. exact arp_request_outside_known. Qed.
Print Assumptions C07_arp_request_outside_known.

Example C07_arp_request_outside_known_inhabited :
  exists c dst sm si tm ti junk fr,
    mac_ok (host_mac c) /\ mac_ok dst /\ (42 <= length junk)%nat /\
    send_arp_request c dst (sm, si) (tm, ti) junk = Ok [fr] /\
    known_arpreq_hdr (host_mac c) dst 1 sm si tm ti fr = false.
Proof. exact arp_request_outside_known_inhabited. Qed.
Print Assumptions C07_arp_request_outside_known_inhabited.
