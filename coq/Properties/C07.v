(* Properties/C07.v — every transmitted frame is well-formed and sourced from the host NIC MAC.
   Only statements, each closed by [exact] of a lemma proved in Proofs/Send*.v.
   send_X : cfg -> args -> junk -> res (list frame) is the model of one send path
   (Model/Send*.v); junk is the arbitrary previous content of the pooled buffer;
   wf_X (Spec/SendRef.v) says: the independent reference decoder decodes the frame as a complete,
   length-consistent packet of the intended protocol with the requested addresses and fields,
   Ethernet source = host MAC, checksums verify, hop limit / multicast MAC rules hold. *)
From PV Require Import Proofs.SendBase Model.Send Spec.SendRef Proofs.Send.
Open Scope N_scope.

(* ICMP4SendEchoRequest: all configurations, addresses, ids, sequence numbers and buffer contents *)
Theorem C07_echo4_wellformed : forall c sm si dm di id seq junk,
  mac_ok (host_mac c) -> mac_ok dm -> ip4_ok si -> ip4_ok di -> id < 65536 -> seq < 65536 ->
  length junk = EthMaxSize ->
  exists fr, send_echo4 c (sm, si) (dm, di) id seq junk = Ok [fr] /\
    wf_echo4 (host_mac c) dm si di id seq fr = true.
Proof. exact echo4_wf. Qed.
Print Assumptions C07_echo4_wellformed.

Theorem C07_echo4_refuses_wrong_family : forall c src dst id seq junk,
  is4 (a_ip src) = false \/ is4 (a_ip dst) = false -> send_echo4 c src dst id seq junk = Ok [].
Proof. exact echo4_refuses. Qed.
Print Assumptions C07_echo4_refuses_wrong_family.

(* ICMP6SendEchoRequest *)
Theorem C07_echo6_wellformed : forall c sm si dm di id seq junk,
  mac_ok (host_mac c) -> mac_ok dm -> ip6_ok si -> ip6_ok di -> id < 65536 -> seq < 65536 ->
  length junk = EthMaxSize ->
  exists fr, send_echo6 c (sm, si) (dm, di) id seq junk = Ok [fr] /\
    wf_echo6 (host_mac c) dm si di id seq fr = true.
Proof. exact echo6_wf. Qed.
Print Assumptions C07_echo6_wellformed.

(* ICMP6SendNeighborAdvertisement, incl. hop limit 255 towards link-local destinations *)
Theorem C07_na_wellformed : forall c sm si dm di tm ti junk,
  mac_ok (host_mac c) -> mac_ok dm -> ip6_ok si -> ip6_ok di -> mac_ok tm -> ip6_ok ti ->
  length junk = EthMaxSize ->
  exists fr, send_na c (sm, si) (dm, di) (tm, ti) junk = Ok [fr] /\
    wf_na (host_mac c) dm si di 32 ti tm fr = true.
Proof. exact na_wf. Qed.
Print Assumptions C07_na_wellformed.

(* ICMP6SendNeighbourSolicitation (after fix 6b9f9d7: SLLA option type 1), incl. hop limit 255 towards
   link-local destinations *)
Theorem C07_ns_wellformed : forall c sm si dm di tg junk,
  mac_ok (host_mac c) -> mac_ok dm -> ip6_ok si -> ip6_ok di -> ip6_ok tg ->
  length junk = EthMaxSize ->
  exists fr, send_ns c (sm, si) (dm, di) tg junk = Ok [fr] /\
    wf_ns (host_mac c) dm si di tg fr = true.
Proof. exact ns_wf. Qed.
Print Assumptions C07_ns_wellformed.

(* Session.arpRequest (purge probe), after fix 9359b10 (hlen/plen written to the ARP header) *)
Theorem C07_arp_request_wellformed : forall c dst sm si tm ti junk,
  mac_ok (host_mac c) -> mac_ok dst -> mac_ok sm -> ip4_ok si -> mac_ok tm -> ip4_ok ti ->
  (42 <= length junk)%nat ->
  exists fr, send_arp_request c dst (sm, si) (tm, ti) junk = Ok [fr] /\
    wf_arp (host_mac c) dst 1 sm si tm ti fr = true.
Proof. exact arp_request_wf. Qed.
Print Assumptions C07_arp_request_wellformed.

Theorem C07_purge_arp_wellformed : forall c ip junk,
  mac_ok (host_mac c) -> ip4_ok (host_ip4 c) -> ip4_ok ip -> (42 <= length junk)%nat ->
  exists fr, send_purge_arp c ip junk = Ok [fr] /\
    wf_arp (host_mac c) eth_bcast 1 (host_mac c) (host_ip4 c) eth_bcast ip fr = true.
Proof. exact purge_arp_wf. Qed.
Print Assumptions C07_purge_arp_wellformed.

(* ================================================================ *)
(* arp_spoofer (handlers/arp_spoofer/arp.go): RequestRaw / reply for every operation, destination, sender,
   target and buffer content; Request, RequestTo, Probe, AnnounceTo are instances *)
From PV Require Import Model.SendNdp Model.SendUdp Spec.SendRefUdp Proofs.SendNdp Proofs.SendUdp.

Theorem C07_arp_spoofer_wellformed : forall c op dst sm si tm ti junk,
  mac_ok (host_mac c) -> mac_ok dst -> mac_ok sm -> ip4_ok si -> mac_ok tm -> ip4_ok ti -> op < 65536 ->
  (42 <= length junk)%nat ->
  exists fr, send_arp c op dst (sm, si) (tm, ti) junk = Ok [fr] /\
    wf_arp (host_mac c) dst op sm si tm ti fr = true.
Proof. exact arp_spoofer_wf. Qed.
Print Assumptions C07_arp_spoofer_wellformed.

Theorem C07_arp_request_to_wellformed : forall c dst ip junk,
  mac_ok (host_mac c) -> ip4_ok (host_ip4 c) -> mac_ok dst -> ip4_ok ip -> (42 <= length junk)%nat ->
  exists fr, arp_request_to c dst ip junk = Ok [fr] /\
    wf_arp (host_mac c) dst 1 (host_mac c) (host_ip4 c) eth_bcast ip fr = true.
Proof. exact arp_request_to_wf. Qed.
Print Assumptions C07_arp_request_to_wellformed.

Theorem C07_arp_request_to_refuses_non_ip4 : forall c dst ip junk,
  is4 ip = false -> arp_request_to c dst ip junk = Ok [].
Proof. exact arp_request_to_refuses. Qed.
Print Assumptions C07_arp_request_to_refuses_non_ip4.

Theorem C07_arp_probe_wellformed : forall c ip junk,
  mac_ok (host_mac c) -> ip4_ok ip -> (42 <= length junk)%nat ->
  exists fr, arp_probe c ip junk = Ok [fr] /\
    wf_arp (host_mac c) eth_bcast 1 (host_mac c) [0;0;0;0] eth_zero ip fr = true.
Proof. exact arp_probe_wf. Qed.
Print Assumptions C07_arp_probe_wellformed.

Theorem C07_arp_announce_wellformed : forall c dst ip junk,
  mac_ok (host_mac c) -> mac_ok dst -> ip4_ok ip -> (42 <= length junk)%nat ->
  exists fr, arp_announce_to c dst ip junk = Ok [fr] /\
    wf_arp (host_mac c) dst 1 (host_mac c) ip eth_bcast ip fr = true.
Proof. exact arp_announce_wf. Qed.
Print Assumptions C07_arp_announce_wellformed.

(* ICMP6SendRouterSolicitation, after fixes 6efe826 (ICMPv6 header) and 5d47cb2 (all-routers = ff02::2):
   incl. hop limit 255 and the 33:33:00:00:00:02 mapping of the multicast destination *)
Theorem C07_rs_wellformed : forall c junk,
  mac_ok (host_mac c) -> ip6_ok (host_lla c) -> length junk = EthMaxSize ->
  exists fr, send_rs c junk = Ok [fr] /\ wf_rs (host_mac c) (host_lla c) fr = true.
Proof. exact rs_wf. Qed.
Print Assumptions C07_rs_wellformed.

Theorem C07_rs_refuses_bad_mac : forall c junk,
  Nat.eqb (length (host_mac c)) 6 = false -> send_rs c junk = Ok [].
Proof. exact rs_refuses_bad_mac. Qed.
Print Assumptions C07_rs_refuses_bad_mac.

(* purge, IPv6 probes *)
Theorem C07_purge_ns_wellformed : forall c tm ti id junk,
  mac_ok (host_mac c) -> ip6_ok (host_lla c) -> ip6_ok ti -> ll_unicast ti = true ->
  length junk = EthMaxSize ->
  exists fr, send_purge_ip6 c (tm, ti) id junk = Ok [fr] /\
    wf_ns (host_mac c) (mac_of_mcast6 (a_ip (solicited_node ti))) (host_lla c) (a_ip (solicited_node ti)) ti fr = true /\
    mcast6_mac_ok (mac_of_mcast6 (a_ip (solicited_node ti))) (a_ip (solicited_node ti)) = true.
Proof. exact purge_ns_wf. Qed.
Print Assumptions C07_purge_ns_wellformed.

Theorem C07_purge_echo6_wellformed : forall c tm ti id junk,
  mac_ok (host_mac c) -> ip6_ok (host_lla c) -> mac_ok tm -> ip6_ok ti -> ll_unicast ti = false -> id < 65536 ->
  length junk = EthMaxSize ->
  exists fr, send_purge_ip6 c (tm, ti) id junk = Ok [fr] /\
    wf_echo6 (host_mac c) tm (host_lla c) ti id 0 fr = true.
Proof. exact purge_echo6_wf. Qed.
Print Assumptions C07_purge_echo6_wellformed.

Theorem C07_purge_ip6_silent_without_lla : forall c host id junk,
  is6 (host_lla c) = false -> send_purge_ip6 c host id junk = Ok [].
Proof. exact purge_ip6_silent. Qed.
Print Assumptions C07_purge_ip6_silent_without_lla.

(* ================================================================ *)
(* UDP paths: Ethernet/IPv4/UDP encapsulation of ANY payload that fits, any buffer content *)
Theorem C07_udp4_encapsulation : forall smac dmac ttl sip dip sp dp p junk,
  mac_ok smac -> mac_ok dmac -> ip4_ok sip -> ip4_ok dip -> sp < 65536 -> dp < 65536 ->
  0 < ttl < 256 -> bytes_ok p -> (length p <= 1480)%nat -> length junk = EthMaxSize ->
  exists fr, udp4_send smac dmac ttl sip dip sp dp p junk = Ok [fr] /\
    wf_udp4 smac dmac sip dip sp dp (beq p) false fr = true.
Proof. exact udp4_wf. Qed.
Print Assumptions C07_udp4_encapsulation.

Theorem C07_udp4_refuses_oversize : forall smac dmac ttl sip dip sp dp p junk,
  (1480 < length p)%nat -> udp4_send smac dmac ttl sip dip sp dp p junk = Ok [].
Proof. exact udp4_too_big. Qed.
Print Assumptions C07_udp4_refuses_oversize.

(* DHCP server replies (offer/ack/nak) leave through sendDHCP4Packet: host MAC/IP:67 -> client:68 *)
Theorem C07_dhcp_reply_wellformed : forall c dm di p junk,
  mac_ok (host_mac c) -> ip4_ok (host_ip4 c) -> mac_ok dm -> ip4_ok di -> dst4_mac_ok dm di = true ->
  bytes_ok p -> (length p <= 1480)%nat -> length junk = EthMaxSize ->
  exists fr, send_dhcp4_reply c (dm, di) p junk = Ok [fr] /\
    wf_udp4 (host_mac c) dm (host_ip4 c) di 67 68 (beq p) true fr = true.
Proof. exact dhcp_reply_wf. Qed.
Print Assumptions C07_dhcp_reply_wellformed.

(* decline / release: the message EncodeDHCP4 built is carried unchanged host:68 -> router:67 (frame level) *)
Theorem C07_decline_release_frame : forall c ch ci xid opts junk1 junk2 d,
  mac_ok (host_mac c) -> ip4_ok (host_ip4 c) -> mac_ok (router_mac c) -> ip4_ok (router_ip4 c) ->
  enc_dhcp4 junk1 1 ch ci ipv4zero (Some xid) false opts = Some d ->
  bytes_ok d -> (length d <= 1480)%nat -> length junk2 = EthMaxSize ->
  exists fr, send_decline_release c ch ci xid opts junk1 junk2 = Ok [fr] /\
    wf_udp4 (host_mac c) (router_mac c) (host_ip4 c) (router_ip4 c) 68 67 (beq d) false fr = true.
Proof. exact decline_release_carried. Qed.
Print Assumptions C07_decline_release_frame.

(* NBNS (Ethernet source = NIC MAC since fix 0948ecc): any payload, any caller addresses *)
Theorem C07_nbns_wellformed : forall c sm si dm di p junk,
  mac_ok (host_mac c) -> ip4_ok si -> mac_ok dm -> ip4_ok di ->
  bytes_ok p -> (length p <= 1480)%nat -> length junk = EthMaxSize ->
  exists fr, send_nbns c (sm, si) (dm, di) p junk = Ok [fr] /\
    wf_udp4 (host_mac c) dm si di 137 137 (beq p) false fr = true.
Proof. exact nbns_wf. Qed.
Print Assumptions C07_nbns_wellformed.

(* SSDP M-SEARCH (CRLF text since f7b029e, 01:00:5e:7f:ff:fa since df36fdf) *)
Theorem C07_ssdp_wellformed : forall c junk,
  mac_ok (host_mac c) -> ip4_ok (host_ip4 c) -> length junk = EthMaxSize ->
  exists fr, send_ssdp_search c junk = Ok [fr] /\
    wf_udp4 (host_mac c) (mac_of_mcast4 [239;255;255;250]) (host_ip4 c) [239;255;255;250] 1900 1900 wf_msearch true fr = true.
Proof. exact ssdp_wf. Qed.
Print Assumptions C07_ssdp_wellformed.

(* mDNS / LLMNR queries: frame level (group address, multicast MAC since df36fdf, LLMNR group and PTR type
   since fcbed9b); the question bytes are handled by C07_mdns_query_wellformed below *)
Theorem C07_mdns_query_frame : forall c name,
  mac_ok (host_mac c) -> ip4_ok (host_ip4 c) -> dns_pack_ok name = true ->
  bytes_ok (dns_wire_name name) -> (length (dns_wire_name name) <= 1400)%nat ->
  exists fr, send_mdns_query c name = Ok [fr] /\
    wf_udp4 (host_mac c) (mac_of_mcast4 [224;0;0;251]) (host_ip4 c) [224;0;0;251] 5353 5353
      (beq (dns_query 0 0 (dns_wire_name name) 255 255)) true fr = true.
Proof. exact mdns_query_frame. Qed.
Print Assumptions C07_mdns_query_frame.

Theorem C07_llmnr_query_frame : forall c name,
  mac_ok (host_mac c) -> ip4_ok (host_ip4 c) -> dns_pack_ok name = true ->
  bytes_ok (dns_wire_name name) -> (length (dns_wire_name name) <= 1400)%nat ->
  exists fr, send_llmnr_query c name = Ok [fr] /\
    wf_udp4 (host_mac c) (mac_of_mcast4 [224;0;0;252]) (host_ip4 c) [224;0;0;252] 5355 5355
      (beq (dns_query 0 0 (dns_wire_name name) 12 255)) true fr = true.
Proof. exact llmnr_query_frame. Qed.
Print Assumptions C07_llmnr_query_frame.

Theorem C07_mdns_ip4_branch : forall c buf sm si dm di port,
  mac_ok (host_mac c) -> ip4_ok si -> mac_ok dm -> ip4_ok di -> port < 65536 ->
  bytes_ok buf -> (length buf <= 1480)%nat ->
  exists fr, send_mdns c buf (sm, si) (dm, di) port = Ok [fr] /\
    wf_udp4 (host_mac c) dm si di port port (beq buf) false fr = true.
Proof. exact mdns4_wf. Qed.
Print Assumptions C07_mdns_ip4_branch.

(* UDP over IPv6 with the mandatory checksum (since fix 94fb890; a computed 0 is sent as 0xffff): any payload *)
From PV Require Import Proofs.SendUdp6.
Theorem C07_udp6_encapsulation : forall smac dmac sip dip sp dp p junk,
  mac_ok smac -> mac_ok dmac -> ip6_ok sip -> ip6_ok dip -> sp < 65536 -> dp < 65536 ->
  bytes_ok p -> (length p <= 1460)%nat -> length junk = EthMaxSize ->
  exists fr, udp6_send smac dmac sip dip sp dp p junk = Ok [fr] /\
    wf_udp6 smac dmac sip dip sp dp (beq p) fr = true.
Proof. exact udp6_wf. Qed.
Print Assumptions C07_udp6_encapsulation.

Theorem C07_mdns_ip6_branch : forall c buf sm si dm di port,
  mac_ok (host_mac c) -> ip6_ok si -> mac_ok dm -> ip6_ok di -> port < 65536 ->
  bytes_ok buf -> (length buf <= 1460)%nat ->
  exists fr, send_mdns c buf (sm, si) (dm, di) port = Ok [fr] /\
    wf_udp6 (host_mac c) dm si di port port (beq buf) fr = true.
Proof. exact mdns6_wf. Qed.
Print Assumptions C07_mdns_ip6_branch.


(* ================================================================ *)
(* icmp6SendPacket with an ICMPv6 message of ANY length that fits (type, code, zero checksum field, body q):
   addresses, hop limit rule, length consistency and checksum for all inputs *)
From PV Require Import Proofs.SendIcmp6.

Theorem C07_icmp6_send_any_message : forall c sm si dm di t cd q junk,
  mac_ok (host_mac c) -> mac_ok dm -> ip6_ok si -> ip6_ok di -> t < 256 -> cd < 256 ->
  bytes_ok q -> (length q <= 1464)%nat -> length junk = EthMaxSize ->
  exists fr, icmp6_send_packet c (sm, si) (dm, di) (t :: cd :: 0 :: 0 :: q) junk = Ok [fr] /\
    wf_icmp6 (host_mac c) dm si di t cd (beq q) fr = true /\
    (* the hop limit byte is exactly: 255 towards link-local destinations and for Neighbor Discovery types
       133..137 (since fix 5a5618d), 64 otherwise *)
    nth 21 fr 0 = icmp6_hop di t.
Proof. exact icmp6_generic. Qed.

Theorem C07_icmp6_hop_rule : forall di t, ip6_ok di -> t < 256 -> icmp6_hop_ok t di (icmp6_hop di t) = true.
Proof. exact icmp6_hop_ok_holds. Qed.
Print Assumptions C07_icmp6_hop_rule.
Print Assumptions C07_icmp6_send_any_message.

(* ICMP6SendRouterAdvertisement after fix 6efe826: type 134, code 0, host MAC + LLA as source, requested
   destination, hop limit rule, checksum, fixed RA fields and exactly the marshalled option block
   (frame-level half; the option block is handled by C07_ra_wellformed below) *)
Theorem C07_ra_frame : forall c prefixes rdnss dm di junk ob,
  mac_ok (host_mac c) -> ip6_ok (host_lla c) -> mac_ok dm -> ip6_ok di -> prefixes <> [] ->
  cat_opts ((match rdnss with Some (lt, srv) => [rdnss_option lt srv] | None => [] end)
            ++ map (fun p => prefix_option (u8 (fst p)) true true 7200 1800 (snd p)) prefixes
            ++ [dnssl_lan_option 1200; mtu_option (u32 (mtu c)); lla_option 1 (host_mac c)]) = Some ob ->
  bytes_ok ob -> (length ob <= 1452)%nat -> length junk = EthMaxSize ->
  exists fr, send_ra c prefixes rdnss (dm, di) junk = Ok [fr] /\
    wf_icmp6 (host_mac c) dm (host_lla c) di 134 0 (beq (ra_fixed ++ ob)) fr = true.
Proof. exact ra_partial. Qed.
Print Assumptions C07_ra_frame.

(* ICMP6SendRouterAdvertisement, full: for every prefix list (prefix lengths < 256, 16-byte prefixes), every
   RDNSS argument (16-byte servers), destination, configuration and buffer content: whenever a frame is
   sent it is the requested Router Advertisement (RFC 4861 4.2: type 134, code 0, cur hop limit 64, lifetime
   1800 s; options RDNSS / one Prefix Information per prefix with L and A set / DNSSL "lan" / MTU / SLLA =
   host MAC decode back in that order), Ethernet source = host MAC, IPv6 source = host LLA, hop limit 255
   towards link-local destinations, checksum verifies.  (No frame: the marshalling refused the arguments;
   a panic for an option block that does not fit the buffer is excluded by the hypothesis Ok [fr].) *)
From PV Require Import Proofs.SendRa.
Theorem C07_ra_wellformed : forall c pf rd dm di junk fr,
  mac_ok (host_mac c) -> ip6_ok (host_lla c) -> mac_ok dm -> ip6_ok di -> pf_ok pf -> rd_ok rd ->
  length junk = EthMaxSize ->
  send_ra c pf rd (dm, di) junk = Ok [fr] ->
  wf_ra (host_mac c) (host_lla c) (mtu c) pf rd dm di fr = true.
Proof. exact ra_wf. Qed.
Print Assumptions C07_ra_wellformed.

Example C07_ra_wellformed_inhabited :
  exists c pf rd dm di junk fr,
    mac_ok (host_mac c) /\ ip6_ok (host_lla c) /\ mac_ok dm /\ ip6_ok di /\ pf_ok pf /\ rd_ok rd /\
    length junk = EthMaxSize /\ send_ra c pf rd (dm, di) junk = Ok [fr].
Proof. exact ra_wf_inhabited. Qed.
Print Assumptions C07_ra_wellformed_inhabited.


(* ================================================================ *)
(* DNS question bytes: the reference RFC 1035 question decoder inverts the query encoders *)
From PV Require Import Proofs.SendDns.

(* a name whose labels are 1..63 bytes long (split at '.'), any type and class: header says one question,
   the labels, type and class decode back, nothing trails *)
Theorem C07_dns_question_decodes_back : forall name qt qc,
  Forall label_ok (split_dots name []) -> qt < 65536 -> qc < 65536 ->
  wf_dns_query None (split_dots name []) qt qc (dns_query 0 0 (dns_name name) qt qc) = true.
Proof. exact dns_query_decodes. Qed.
Print Assumptions C07_dns_question_decodes_back.

(* SendMDNSQuery / SendLLMNRQuery over ALL names.  dns_pack_ok: at most 254 bytes, ends with '.', labels of
   1..63 bytes (or the root "."): what RFC 1035 can encode and dnsmessage accepts.  Such a name is sent and the
   question decodes back to exactly its labels (ANY / PTR, class ANY); every other name is refused: no frame,
   no panic (a name over 255 bytes panicked before fix 71d97b6). *)
Theorem C07_mdns_query_wellformed : forall c name,
  mac_ok (host_mac c) -> ip4_ok (host_ip4 c) -> bytes_ok name -> dns_pack_ok name = true ->
  exists fr, send_mdns_query c name = Ok [fr] /\
    wf_udp4 (host_mac c) (mac_of_mcast4 [224;0;0;251]) (host_ip4 c) [224;0;0;251] 5353 5353
      (wf_dns_query None (query_labels name) 255 255) true fr = true.
Proof. exact mdns_query_wf. Qed.
Print Assumptions C07_mdns_query_wellformed.

Theorem C07_mdns_query_refuses_unencodable : forall c name,
  dns_pack_ok name = false -> send_mdns_query c name = Ok [].
Proof. exact mdns_query_refuses. Qed.
Print Assumptions C07_mdns_query_refuses_unencodable.

Theorem C07_llmnr_query_wellformed : forall c name,
  mac_ok (host_mac c) -> ip4_ok (host_ip4 c) -> bytes_ok name -> dns_pack_ok name = true ->
  exists fr, send_llmnr_query c name = Ok [fr] /\
    wf_udp4 (host_mac c) (mac_of_mcast4 [224;0;0;252]) (host_ip4 c) [224;0;0;252] 5355 5355
      (wf_dns_query None (query_labels name) 12 255) true fr = true.
Proof. exact llmnr_query_wf. Qed.
Print Assumptions C07_llmnr_query_wellformed.

Theorem C07_llmnr_query_refuses_unencodable : forall c name,
  dns_pack_ok name = false -> send_llmnr_query c name = Ok [].
Proof. exact llmnr_query_refuses. Qed.
Print Assumptions C07_llmnr_query_refuses_unencodable.

(* what dns_pack_ok means in the spec's terms *)
Theorem C07_pack_ok_labels : forall name, dns_pack_ok name = true -> is_root name = false ->
  (length name <= 254)%nat /\ Forall label_ok (split_dots name []).
Proof. exact pack_ok_labels. Qed.
Print Assumptions C07_pack_ok_labels.

(* SendNBNSQuery, full: the question name is the RFC 1001 encoding of the 16-byte padded name, type NB, class IN *)
Theorem C07_nbns_query_wellformed : forall c sm si dm di seq name junk,
  mac_ok (host_mac c) -> ip4_ok si -> mac_ok dm -> ip4_ok di -> seq < 65536 ->
  bytes_ok name -> (length name <= 16)%nat -> length junk = EthMaxSize ->
  exists fr, send_nbns_query c (sm, si) (dm, di) seq name junk = Ok [fr] /\
    wf_udp4 (host_mac c) dm si di 137 137 (wf_dns_query (Some seq) [nb_label name] 32 1) false fr = true.
Proof. exact nbns_query_wf. Qed.
Print Assumptions C07_nbns_query_wellformed.

(* ... and a name that does not fit the 16 octets is refused (since fix 6d50a23; it used to be cut to 15 octets) *)
Theorem C07_nbns_query_refuses_long_name : forall c src dst seq name junk,
  (16 < length name)%nat -> send_nbns_query c src dst seq name junk = Ok [].
Proof. exact nbns_query_refuses. Qed.
Print Assumptions C07_nbns_query_refuses_long_name.

(* SendNBNSNodeStatus, full: broadcast, name "*", type NBSTAT *)
Theorem C07_nbns_node_status_wellformed : forall c seq junk,
  mac_ok (host_mac c) -> ip4_ok (host_ip4 c) -> seq < 65536 -> length junk = EthMaxSize ->
  exists fr, send_nbns_node_status c seq junk = Ok [fr] /\
    wf_udp4 (host_mac c) eth_bcast (host_ip4 c) [255;255;255;255] 137 137
      (wf_dns_query (Some seq) [nb_label [42]] 33 1) true fr = true.
Proof. exact nbns_node_status_wf. Qed.
Print Assumptions C07_nbns_node_status_wellformed.

(* ================================================================ *)
(* DHCP client messages (DISCOVER, DECLINE, RELEASE): EncodeDHCP4 over an arbitrary previous buffer content *)
From PV Require Import Proofs.SendDhcp.

(* normal form: every byte of the 240-byte header is written, options, End, padding to the BOOTP minimum *)
Theorem C07_encode_dhcp4_client : forall p ch ci xid opts,
  mac_ok ch -> ip4_ok ci -> length xid = 4%nat ->
  (300 <= length p)%nat -> (241 + length (append_options opts) <= length p)%nat ->
  enc_dhcp4 p 1 (Some ch) ci ipv4zero (Some xid) false opts = Some (dhcp_client_nf ch ci xid (append_options opts)).
Proof. exact enc_dhcp4_client. Qed.
Print Assumptions C07_encode_dhcp4_client.

(* the reference DHCP decoder reads back: BOOTREQUEST, Ethernet, xid, ciaddr, zero yiaddr/siaddr/giaddr, chaddr,
   zero sname/file, exactly the options (codes other than 0, 1, 3, 33, 255; values up to 255 bytes), >= 300 bytes *)
Theorem C07_dhcp_client_decodes_back : forall ch ci xid opts,
  mac_ok ch -> ip4_ok ci -> length xid = 4%nat -> Forall opt_ok opts -> plain_opts opts ->
  wf_dhcp_client ch ci (Some xid) opts (dhcp_client_nf ch ci xid (append_options opts)) = true.
Proof. exact dhcp_client_nf_wf. Qed.
Print Assumptions C07_dhcp_client_decodes_back.

(* sendDeclineReleasePacket, full *)
Theorem C07_decline_release_wellformed : forall c ch ci xid opts junk1 junk2,
  mac_ok (host_mac c) -> ip4_ok (host_ip4 c) -> mac_ok (router_mac c) -> ip4_ok (router_ip4 c) ->
  mac_ok ch -> ip4_ok ci -> length xid = 4%nat -> bytes_ok xid ->
  Forall opt_ok opts -> plain_opts opts -> opts_bytes_ok opts -> (length (append_options opts) <= 1000)%nat ->
  length junk1 = EthMaxSize -> length junk2 = EthMaxSize ->
  exists fr, send_decline_release c (Some ch) ci xid opts junk1 junk2 = Ok [fr] /\
    wf_udp4 (host_mac c) (router_mac c) (host_ip4 c) (router_ip4 c) 68 67
      (wf_dhcp_client ch ci (Some xid) opts) false fr = true.
Proof. exact decline_release_wf. Qed.
Print Assumptions C07_decline_release_wellformed.

(* SendDiscoverPacket, full (message built in place behind the headers; since fix 766f89c ciaddr is 0.0.0.0
   unless the caller gives an IPv4 address, xid is the caller's or a random one) *)
Theorem C07_discover_wellformed : forall c ch ci xid opts junk,
  mac_ok (host_mac c) -> ip4_ok (host_ip4 c) -> mac_ok (router_mac c) -> ip4_ok (router_ip4 c) ->
  mac_ok ch -> (ip4_ok ci \/ is4 ci = false) -> length xid = 4%nat -> bytes_ok xid ->
  Forall opt_ok opts -> plain_opts opts -> opts_bytes_ok opts -> (length (append_options opts) <= 1000)%nat ->
  length junk = EthMaxSize ->
  exists fr, send_discover c (Some ch) ci xid opts junk = Ok [fr] /\
    wf_udp4 (host_mac c) (router_mac c) (host_ip4 c) (router_ip4 c) 68 67
      (wf_dhcp_client ch (if is4 ci then ci else [0;0;0;0]) (Some xid) opts) false fr = true.
Proof. exact send_discover_wf. Qed.
Print Assumptions C07_discover_wellformed.

Example C07_client_opts_inhabited :
  let discover := [(12, [104; 111; 115; 116]); (55, str_discover_prl); (53, [1])] in
  let decline := [(61, [1;2;0;0;0;0;7]); (54, [192;168;0;11]); (56, [110;101;116]); (50, [192;168;0;60]); (53, [4])] in
  Forall opt_ok discover /\ plain_opts discover /\ opts_bytes_ok discover /\
  Forall opt_ok decline /\ plain_opts decline /\ opts_bytes_ok decline.
Proof. exact client_opts_inhabited. Qed.
Print Assumptions C07_client_opts_inhabited.

(* ================================================================ *)
(* C07_history.  Model/SendHistory.v: an event is one call of a send path — by the application, or by a
   handler when it processes a packet or a timer fires (purge probes, arp_spoofer hunt loop / spoofed reply,
   DHCP replies / DISCOVER burst / forced decline and release, icmp_spoofer NA / RA / RS, dns_naming
   queries); [emit] is the send function the code calls for it and [run] the frames written along a history.
   For every configuration and every history of events with admissible arguments (and arbitrary previous
   buffer contents) every frame satisfies the well-formedness predicate of the path that emitted it ... *)
From PV Require Import Model.SendHistory Proofs.SendHistory.

Theorem C07_history : forall c (h : list step),
  cfg_ok c -> Forall step_ok h ->
  forall s fr, In s h -> In fr (frames_of (emit c s)) -> wf_event c (fst (fst s)) fr = true.
Proof. exact history_wf. Qed.
Print Assumptions C07_history.

(* ... in particular it decodes under the reference decoder and is sourced from the host NIC MAC *)
Theorem C07_history_frames_from_host : forall c (h : list step),
  cfg_ok c -> Forall step_ok h -> Forall (fun fr => frame_from_host (host_mac c) fr = true) (run c h).
Proof. exact history_frames_from_host. Qed.
Print Assumptions C07_history_frames_from_host.

Example C07_history_inhabited :
  exists c h, cfg_ok c /\ Forall step_ok h /\ length (run c h) = 4%nat.
Proof. exact history_inhabited. Qed.
Print Assumptions C07_history_inhabited.

(* ================================================================ *)
(* MAC arguments that are not the Ethernet destination.
   (i) The MAC of a source Addr (ICMP4/6SendEchoRequest, NS, NA, sendMDNS both branches, SendNBNSQuery) is
   never used: the Ethernet source comes from the configuration (NIC MAC), so every caller value — NIC MAC,
   none, foreign, short, long — gives the same frame, and that frame has f_src = host MAC by the wf theorems. *)
Theorem C07_source_mac_irrelevant : forall c sm sm' si dst id seq tg tgt junk,
  send_echo4 c (sm, si) dst id seq junk = send_echo4 c (sm', si) dst id seq junk /\
  send_echo6 c (sm, si) dst id seq junk = send_echo6 c (sm', si) dst id seq junk /\
  send_ns c (sm, si) dst tg junk = send_ns c (sm', si) dst tg junk /\
  send_na c (sm, si) dst tgt junk = send_na c (sm', si) dst tgt junk.
Proof. exact src_mac_irrelevant. Qed.
Print Assumptions C07_source_mac_irrelevant.

Theorem C07_udp_source_mac_irrelevant : forall c buf sm sm' si dst port seq name junk,
  send_mdns c buf (sm, si) dst port = send_mdns c buf (sm', si) dst port /\
  send_nbns_query c (sm, si) dst seq name junk = send_nbns_query c (sm', si) dst seq name junk.
Proof. exact udp_src_mac_irrelevant. Qed.
Print Assumptions C07_udp_source_mac_irrelevant.

(* (ii) MACs that are payload (ARP sender / target, NA target link-layer address, DHCP chaddr) are carried as
   requested when they are 6 bytes (wf theorems above) and refused otherwise: nothing is sent. *)
Theorem C07_arp_spoofer_refuses_bad_args : forall c op dst sender target junk,
  arp_args_ok dst sender target = false -> send_arp c op dst sender target junk = Ok [].
Proof. exact arp_spoofer_refuses. Qed.
Print Assumptions C07_arp_spoofer_refuses_bad_args.

Theorem C07_na_refuses_bad_target_mac : forall c src dst tm ti junk,
  Nat.eqb (length tm) 6 = false -> send_na c src dst (tm, ti) junk = Ok [].
Proof. exact na_refuses. Qed.
Print Assumptions C07_na_refuses_bad_target_mac.

Theorem C07_discover_refuses_bad_chaddr : forall c ch ci xid opts junk,
  match ch with Some a => Nat.eqb (length a) 6 | None => false end = false ->
  send_discover c ch ci xid opts junk = Ok [].
Proof. exact send_discover_refuses. Qed.
Print Assumptions C07_discover_refuses_bad_chaddr.

(* ================================================================ *)
(* Round 7: remaining error paths (nothing is sent when the function returns an error) and configurations
   without an IPv6 link-local address *)
Theorem C07_echo6_refuses_wrong_family : forall c src dst id seq junk,
  is6 (a_ip src) = false \/ is6 (a_ip dst) = false -> send_echo6 c src dst id seq junk = Ok [].
Proof. exact echo6_refuses. Qed.
Print Assumptions C07_echo6_refuses_wrong_family.

(* icmp6SendPacket with a message that does not fit the buffer: ErrPayloadTooBig is returned (since fix d618c5a;
   the dropped error made the code panic), so together with C07_icmp6_send_any_message every length is covered *)
Theorem C07_icmp6_refuses_oversize : forall c src dst p junk,
  (EthMaxSize - 14 - 40 < length p)%nat -> icmp6_send_packet c src dst p junk = Ok [].
Proof. exact icmp6_oversize. Qed.
Print Assumptions C07_icmp6_refuses_oversize.

Theorem C07_ra_refuses_oversize : forall c pf rd dst junk ob,
  pf <> [] ->
  cat_opts ((match rd with Some (lt, srv) => [rdnss_option lt srv] | None => [] end)
            ++ map (fun p => prefix_option (u8 (fst p)) true true 7200 1800 (snd p)) pf
            ++ [dnssl_lan_option 1200; mtu_option (u32 (mtu c)); lla_option 1 (host_mac c)]) = Some ob ->
  (1452 < length ob)%nat -> send_ra c pf rd dst junk = Ok [].
Proof. exact ra_oversize. Qed.
Print Assumptions C07_ra_refuses_oversize.

Theorem C07_udp6_refuses_oversize : forall smac dmac sip dip sp dp p junk,
  (1460 < length p)%nat -> udp6_send smac dmac sip dip sp dp p junk = Ok [].
Proof. exact udp6_too_big. Qed.
Print Assumptions C07_udp6_refuses_oversize.

(* NICInfo.HostLLA unset: RS and RA leave with the unspecified source :: and are otherwise as above *)
Theorem C07_rs_wellformed_no_lla : forall c junk,
  mac_ok (host_mac c) -> host_lla c = [] -> length junk = EthMaxSize ->
  exists fr, send_rs c junk = Ok [fr] /\ wf_rs (host_mac c) (repeat 0 16) fr = true.
Proof. exact rs_wf_no_lla. Qed.
Print Assumptions C07_rs_wellformed_no_lla.

Theorem C07_ra_wellformed_no_lla : forall c pf rd dm di junk fr,
  mac_ok (host_mac c) -> host_lla c = [] -> mac_ok dm -> ip6_ok di -> pf_ok pf -> rd_ok rd ->
  length junk = EthMaxSize ->
  send_ra c pf rd (dm, di) junk = Ok [fr] ->
  wf_ra (host_mac c) (repeat 0 16) (mtu c) pf rd dm di fr = true.
Proof. exact ra_wf_no_lla. Qed.
Print Assumptions C07_ra_wellformed_no_lla.

(* ---- state carried between sends through the shared buffer pool (Model/SendPool.v) ---- *)
From PV Require Import Model.SendPool Proofs.SendPool.

(* the pool discipline of the send functions (one Get, one deferred Put of that buffer, no other Put: read off the
   source by the `pool` case): whatever was sent or refused before, no send ever holds the same buffer twice and the
   pool never holds a buffer twice *)
Theorem C07_pool_discipline : forall (h : list step) s,
  pool_ok s -> exists s', pool_run (shape_of h) s = Some s' /\ pool_ok s'.
Proof. exact pool_run_ok. Qed.
Print Assumptions C07_pool_discipline.

(* the frame of a send does not depend on the history: after any history h of sends and refused calls the buffers of
   the next send are distinct memory (first conjunct), so what it writes is the pure function [emit] of its own
   arguments (second), and that frame is well-formed whatever the previous contents of the buffers (third) *)
Theorem C07_send_independent_of_history : forall c (h : list step) (st : step),
  cfg_ok c -> Forall step_ok h -> step_ok st ->
  (exists s', pool_run (shape_of (h ++ [st])) pool0 = Some s' /\ pool_ok s') /\
  run c (h ++ [st]) = (run c h ++ frames_of (emit c st))%list /\
  (forall fr, In fr (frames_of (emit c st)) -> exists ev, wf_event c ev fr = true).
Proof. exact send_independent_of_history. Qed.
Print Assumptions C07_send_independent_of_history.

(* the discipline is what makes it true: one Put next to the deferred one on a refused single-buffer send, and the
   next send that holds two buffers (forced DECLINE / RELEASE) gets the same memory twice *)
Theorem C07_pool_double_put_aliases : pool_run [(1, 1); (0, 2)]%nat pool0 = None.
Proof. exact double_put_aliases. Qed.
Print Assumptions C07_pool_double_put_aliases.

Theorem C07_pool_double_put_breaks_invariant : forall s k, pool_ok s -> (k >= 1)%nat ->
  exists s1, pool_send 1 k s = Some s1 /\ ~ NoDup (free s1).
Proof. exact double_put_aliases_any. Qed.
Print Assumptions C07_pool_double_put_breaks_invariant.

(* ---- modes that are not inputs: log level, write errors ---- *)

(* the model has no log level: whatever level each send of a history runs at, the wire carries the same frames
   (tied by running every case kind and every sequence at error / info / debug: `level.*` statistics, `logs` census) *)
Theorem C07_wire_independent_of_log_level : forall (ls : list log_level) c (h : list step),
  length ls = length h -> run_at ls c h = run c h.
Proof. exact wire_independent_of_log_level. Qed.
Print Assumptions C07_wire_independent_of_log_level.

(* a failing Conn.WriteTo: the error is returned and nothing reaches the wire (no send function retries); a healthy
   one carries exactly the frames of the call (`wfail` cases) *)
Theorem C07_write_error_is_returned : forall c (st : step) fr rest,
  frames_of (emit c st) = fr :: rest ->
  emit_conn true c st = ([], true) /\ emit_conn false c st = (fr :: rest, false).
Proof. exact write_error_is_returned. Qed.
Print Assumptions C07_write_error_is_returned.
