(* Proofs/EncodeReuse2.v — C03, re-use of views (round 7): IP6.AppendPayload and Ether.SetPayload /
   Ether.AppendPayload on ANY starting view (the view a previous call returned, a longer one, arbitrary
   previous header contents): the result is absolute — length, length fields, getters and reference
   decoder depend only on the arguments of the LAST call. *)
From PV Require Import Base.Prelude Base.Slice Model.EncodeBase Model.Encode Model.Checksum
     Spec.EncodeRef Spec.OnesComplement Proofs.EncodeLemmas Proofs.Checksum Proofs.EncodeIP4 Proofs.EncodeEther
     Proofs.EncodeMisc Proofs.EncodeReuse.
Open Scope N_scope.
Ltac blia := unfold bytes, byte in *; lia.

(* ================================================================ *)
(* re-use of views: IPv6 AppendPayload *)
Ltac ev_hook ::= rewrite ?be16_hi_lo by (first [assumption | reflexivity]); rewrite ?N.eqb_refl.

Lemma ip6_append_any x4 x5 x6 hop s d rest L b nh :
  length s = 16%nat -> length d = 16%nat -> (length b <= length rest)%nat -> N.of_nat (length b) < 65536 ->
  ip6_append (mkSlice (ip6_hdr_any x4 x5 x6 hop s d ++ rest) L) b false nh =
  Ok (mkSlice (ip6_hdr (N.of_nat (length b)) nh hop s d ++ b ++ skipn (length b) rest) (40 + length b)).
Proof.
  intros Hs Hd Hb Hsz.
  assert (Eu : u16 (N.of_nat (length b)) = N.of_nat (length b)) by (unfold u16; apply N.mod_small; exact Hsz).
  do 16 (destr_list s Hs). destruct s; [|discriminate].
  do 16 (destr_list d Hd). destruct d; [|discriminate].
  unfold ip6_append, ip6_payloadlen, seti, put16, copyto, be16_at, reslice, cap. cbn [orb]. rewrite Eu.
  run. rewrite ?Nat2N.id. run.
  rewrite Nat.sub_0_r, firstn_all, blit0 by lia. reflexivity.
Qed.

Theorem ip6_append_absolute x4 x5 x6 hop s d rest L b nh :
  length s = 16%nat -> length d = 16%nat -> bytes_ok s -> bytes_ok d -> bytes_ok b ->
  nh < 256 -> hop < 256 -> (length b <= length rest)%nat -> 40 + N.of_nat (length b) < 65536 ->
  exists r,
    ip6_append (mkSlice (ip6_hdr_any x4 x5 x6 hop s d ++ rest) L) b false nh = Ok r /\
    len r = (40 + length b)%nat /\
    ip6_decode_lib r = Ok (ip6_expected_view nh hop s d b) /\
    ref_ip6 (view r) = Some (ip6_expected_ref nh hop s d b).
Proof.
  intros Hs Hd Bs Bd Bb Hnh Hhop Hn Hsz.
  eexists. split. { apply ip6_append_any; try assumption. lia. }
  split. { reflexivity. }
  pose proof (ip6_frame_decodes nh hop s d b (skipn (length b) rest) Hs Hd Bs Bd Bb Hnh Hhop Hsz) as D. cbn zeta in D.
  destruct D as (_ & D1 & D2). split; assumption.
Qed.

(* ================================================================ *)
(* re-use of views: Ethernet.  SetPayload and AppendPayload are absolute for any view length >= 14
   (the EtherType is read through p[12:14], a slice expression on the capacity). *)
Ltac ev_hook ::= rewrite ?be16_hi_lo by assumption;
  repeat match goal with E : hlen_of_type ?t = _ |- context [hlen_of_type ?t] => rewrite E end.

Lemma ether_set_payload_any dst src ht X L n :
  length src = 6%nat -> length dst = 6%nat -> ht < 65536 -> hlen_of_type ht = 14%nat -> (n <= length X)%nat ->
  ether_set_payload (mkSlice (ether_hdr dst src ht ++ X) L) n = Ok (mkSlice (ether_hdr dst src ht ++ X) (14 + n)).
Proof.
  intros Hs Hd Hht Hhl Hn.
  do 6 (destr_list src Hs). destruct src; [|discriminate].
  do 6 (destr_list dst Hd). destruct dst; [|discriminate].
  unfold ether_hdr. cbn [app].
  unfold ether_set_payload, ether_hlen, ether_type, be16_at, reslice, cap. run. reflexivity.
Qed.

Theorem ether_set_payload_idempotent_shape dst src ht X L pl :
  length src = 6%nat -> length dst = 6%nat -> ht < 65536 -> hlen_of_type ht = 14%nat ->
  (length pl <= length X)%nat -> firstn (length pl) X = pl ->
  exists r,
    ether_set_payload (mkSlice (ether_hdr dst src ht ++ X) L) (length pl) = Ok r /\
    len r = (14 + length pl)%nat /\ arr r = ether_hdr dst src ht ++ X /\
    ether_dst r = Ok dst /\ ether_src r = Ok src /\ ether_type r = Ok ht /\
    (pl <> [] -> (w <- ether_payload r ;; Ok (view w))%res = Ok pl) /\
    ref_ether (view r) = Some {| re_dst := dst; re_src := src; re_type := ht; re_payload := pl |} /\
    (forall n2, (n2 <= length X)%nat ->
       ether_set_payload r n2 = ether_set_payload (mkSlice (ether_hdr dst src ht ++ X) L) n2).
Proof.
  intros Hs Hd Hht Hhl Hn Hin.
  eexists. split. { apply ether_set_payload_any; assumption. }
  split. { reflexivity. } split. { reflexivity. }
  assert (HX : X = pl ++ skipn (length pl) X) by (rewrite <- Hin at 1; symmetry; apply firstn_skipn).
  pose proof (ether_frame_decodes dst src ht pl (skipn (length pl) X) Hs Hd Hht Hhl) as D. cbn zeta in D.
  rewrite <- HX in D. destruct D as (_ & D2 & D3 & D4 & _ & D6 & D7).
  repeat (split; [assumption|]).
  intros n2 Hn2. rewrite !ether_set_payload_any by assumption. reflexivity.
Qed.

Lemma ether_append_any dst src ht rest L pl pcap :
  length src = 6%nat -> length dst = 6%nat -> ht < 65536 -> hlen_of_type ht = 14%nat -> (14 <= L)%nat ->
  (length pl <= length rest)%nat -> (46 <= length rest)%nat ->
  ether_append (mkSlice (ether_hdr dst src ht ++ rest) L) pl pcap
  = Ok (mkSlice (ether_hdr dst src ht ++ pad46 pl ++ skipn (length (pad46 pl)) rest) (14 + length (pad46 pl))).
Proof.
  intros Hs Hd Hht Hhl HL Hpl H46.
  pose proof (pad46_length pl) as Hpad.
  do 6 (destr_list src Hs). destruct src; [|discriminate].
  do 6 (destr_list dst Hd). destruct dst; [|discriminate].
  unfold ether_hdr in *. cbn [app] in *.
  unfold ether_append, ether_payload, ether_hlen, ether_type, be16_at, reslice, sl, slfrom, cap.
  destruct (Nat.eq_dec L 14) as [->|HL'];
  (destruct (Nat.ltb_spec (14 + length pl) 60) as [Hshort|Hlong];
   [ runs;
     assert (E46 : length (pad46 pl) = 46%nat) by lia;
     rewrite E46; f_equal; f_equal; repeat f_equal;
     rewrite blit0 by lia; rewrite blit_app_r0;
     rewrite blit0 by (rewrite repeat_length, skipn_length; lia);
     unfold pad46; rewrite <- app_assoc; f_equal;
     replace (60 - S (S (S (S (S (S (S (S (S (S (S (S (S (S (length pl)))))))))))))))%nat with (46 - length pl)%nat by lia;
     f_equal; rewrite repeat_length, skipn_skipn'; f_equal; lia
   | runs;
     assert (E : pad46 pl = pl) by (unfold pad46; replace (46 - length pl)%nat with 0%nat by lia; apply app_nil_r);
     rewrite E; f_equal; f_equal; repeat f_equal;
     rewrite blit0 by lia; reflexivity ]).
Qed.

Theorem ether_append_absolute dst src ht rest L pl pcap :
  length src = 6%nat -> length dst = 6%nat -> ht < 65536 -> hlen_of_type ht = 14%nat -> (14 <= L)%nat ->
  (length pl <= length rest)%nat -> (46 <= length rest)%nat ->
  exists r,
    ether_append (mkSlice (ether_hdr dst src ht ++ rest) L) pl pcap = Ok r /\
    len r = Nat.max 60 (14 + length pl) /\
    ether_dst r = Ok dst /\ ether_src r = Ok src /\ ether_type r = Ok ht /\
    (w <- ether_payload r ;; Ok (view w))%res = Ok (pad46 pl) /\
    ref_ether (view r) = Some {| re_dst := dst; re_src := src; re_type := ht; re_payload := pad46 pl |}.
Proof.
  intros Hs Hd Hht Hhl HL Hpl H46.
  eexists. split. { apply ether_append_any; assumption. }
  pose proof (pad46_length pl) as Hpad.
  split. { cbn [len]. lia. }
  pose proof (ether_frame_decodes dst src ht (pad46 pl) (skipn (length (pad46 pl)) rest) Hs Hd Hht Hhl) as D. cbn zeta in D.
  destruct D as (_ & D2 & D3 & D4 & _ & D6 & D7).
  repeat (split; [assumption|]). split; [|assumption].
  apply D6. intros E. rewrite E in Hpad. cbn [length] in Hpad. lia.
Qed.

(* non-vacuity: a second AppendPayload on the 80-byte view a first one could have returned *)
Example ether_append_absolute_ex :
  exists r, ether_append (mkSlice (ether_hdr [2;0;0;0;0;9] [2;0;0;0;0;1] 2048 ++ repeat 9 100) 80) [1;2;3] 3 = Ok r /\
            len r = 60%nat /\ (w <- ether_payload r ;; Ok (view w))%res = Ok (pad46 [1;2;3]).
Proof. eexists. split; [vm_compute; reflexivity|]. split; vm_compute; reflexivity. Qed.

Example ip6_append_absolute_ex :
  let s := as16 [254;128;0;0;0;0;0;0;0;0;0;0;0;0;0;1] in
  exists r, ip6_append (mkSlice (ip6_hdr_any 1 2 3 64 s s ++ repeat 9 100) 77) [1;2;3] false 58 = Ok r /\
            len r = 43%nat /\ ref_ip6 (view r) = Some (ip6_expected_ref 58 64 s s [1;2;3]).
Proof. cbn zeta. eexists. split; [vm_compute; reflexivity|]. split; vm_compute; reflexivity. Qed.
