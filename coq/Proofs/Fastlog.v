(* Proofs/Fastlog.v — proof infrastructure for the fastlog model and the
   scalar field appenders (integers, hex, booleans, MAC, IPv4, text fields).
   Central notion: [emits m c t] — the computation c, started on any
   well-formed line with room for t plus m spare bytes, succeeds and appends
   exactly t to the text of the line. *)
From PV Require Import Base.Prelude Model.Fastlog Model.FastlogOps Spec.TextSpec.
Open Scope N_scope.

(* ---------------------------------------------------------------- lists *)

Lemma firstn_S_set_nth {A} (b : list A) i v :
  (i < List.length b)%nat -> firstn (S i) (set_nth i v b) = firstn i b ++ [v].
Proof.
  revert i; induction b as [|x xs IH]; intros [|i] H; simpl in *; try lia; auto.
  f_equal. apply IH. lia.
Qed.

Lemma firstn_set_nth_ge {A} (b : list A) i k v :
  (i <= k)%nat -> firstn i (set_nth k v b) = firstn i b.
Proof.
  revert i k; induction b as [|x xs IH]; intros [|i] [|k] H; simpl in *; try lia; auto.
  f_equal. apply IH. lia.
Qed.

Lemma skipn_set_nth_eq {A} (b : list A) k v :
  (k < List.length b)%nat -> skipn k (set_nth k v b) = v :: skipn (S k) b.
Proof.
  revert k; induction b as [|x xs IH]; intros [|k] H; simpl in *; try lia; auto.
  apply IH. lia.
Qed.

Lemma write_at_length b i t :
  (i + List.length t <= List.length b)%nat -> List.length (write_at b i t) = List.length b.
Proof.
  intros H. unfold write_at. rewrite !app_length, firstn_length, skipn_length. lia.
Qed.

Lemma write_at_nil b i : write_at b i [] = b.
Proof. unfold write_at. cbn [List.length app]. rewrite Nat.add_0_r. apply firstn_skipn. Qed.

Lemma firstn_write_at b i t :
  (i + List.length t <= List.length b)%nat ->
  firstn (i + List.length t) (write_at b i t) = firstn i b ++ t.
Proof.
  intros H. unfold write_at.
  assert (Hl : List.length (firstn i b) = i) by (rewrite firstn_length; lia).
  rewrite <- Hl at 1. rewrite firstn_app_2. f_equal.
  rewrite <- (Nat.add_0_r (List.length t)) at 1. rewrite firstn_app_2. cbn [firstn]. apply app_nil_r.
Qed.

Lemma write_at_snoc b p t d :
  (p + List.length t < List.length b)%nat ->
  write_at (set_nth (p + List.length t) d b) p t = write_at b p (t ++ [d]).
Proof.
  intros H. unfold write_at.
  rewrite firstn_set_nth_ge by lia. rewrite skipn_set_nth_eq by lia.
  rewrite app_length. cbn [List.length]. rewrite <- app_assoc. cbn [app].
  repeat f_equal. lia.
Qed.

Lemma set_nth_write_at b i v :
  (i < List.length b)%nat -> set_nth i v b = write_at b i [v].
Proof.
  intros H. rewrite <- (write_at_nil (set_nth i v b) i).
  replace i with (i + List.length (@nil byte))%nat at 1 by (cbn; lia).
  rewrite write_at_snoc by (cbn; lia). reflexivity.
Qed.

(* ---------------------------------------------------------------- extends / emits *)

Lemma extends_refl l : wf l -> extends l [] l.
Proof.
  intros H. split; [exact H|]. split.
  - cbn [List.length]. lia.
  - symmetry; apply app_nil_r.
Qed.

Lemma extends_trans l a l1 b l2 :
  extends l a l1 -> extends l1 b l2 -> extends l (a ++ b) l2.
Proof.
  intros (W1 & I1 & T1) (W2 & I2 & T2). repeat split; auto.
  - rewrite app_length. lia.
  - rewrite T2, T1. apply app_assoc_reverse.
Qed.

Lemma extends_write_at l t :
  wf l -> (index l + List.length t <= BUFSZ)%nat ->
  extends l t (mkLine (write_at (buf l) (index l) t) (index l + List.length t)).
Proof.
  unfold wf. intros W H. repeat split.
  - unfold wf. cbn [buf]. rewrite write_at_length; lia.
  - unfold text_of. cbn [buf index]. apply firstn_write_at. lia.
Qed.

Definition emits (m : nat) (c : line -> res line) (t : bytes) : Prop :=
  forall l, wf l -> (index l + List.length t + m <= BUFSZ)%nat ->
            exists l', c l = Ok l' /\ extends l t l'.

Lemma emits_weaken m m' c t : (m <= m')%nat -> emits m c t -> emits m' c t.
Proof. intros H E l W F. apply E; auto. lia. Qed.

Lemma emits_eq m c c' t t' :
  (forall l, c l = c' l) -> t = t' -> emits m c t -> emits m c' t'.
Proof. intros Hc -> E l W F. rewrite <- Hc. apply E; auto. Qed.

Lemma emits_ok m : emits m (fun l => Ok l) [].
Proof. intros l W _. exists l. split; auto. apply extends_refl; auto. Qed.

Lemma emits_bind m c1 t1 c2 t2 :
  emits m c1 t1 -> emits m c2 t2 ->
  emits m (fun l => (l1 <- c1 l ;; c2 l1)%res) (t1 ++ t2).
Proof.
  intros E1 E2 l W F. rewrite app_length in F.
  destruct (E1 l W) as (l1 & R1 & X1); [lia|].
  destruct X1 as (W1 & I1 & T1).
  destruct (E2 l1 W1) as (l2 & R2 & X2); [lia|].
  exists l2. rewrite R1. cbn [bind]. split; auto.
  eapply extends_trans; eauto. repeat split; auto.
Qed.

Lemma emits_byte m b : emits m (fun l => append_byte l b) [b].
Proof.
  intros l W F. cbn [List.length] in F. unfold append_byte.
  destruct (Nat.ltb_spec (index l) BUFSZ) as [Hi|Hi]; [|lia].
  eexists; split; [reflexivity|].
  unfold wf in W. rewrite set_nth_write_at by lia.
  replace (S (index l)) with (index l + List.length [b])%nat by (cbn; lia).
  apply extends_write_at; auto. cbn; lia.
Qed.

Lemma emits_copy m s : emits m (fun l => copy_in l s) s.
Proof.
  intros l W F. unfold copy_in.
  destruct (Nat.ltb_spec BUFSZ (index l)) as [Hi|Hi]; [lia|].
  rewrite Nat.min_l by lia. rewrite firstn_all.
  eexists; split; [reflexivity|]. apply extends_write_at; auto. lia.
Qed.

(* binding a pure table lookup in front *)
Lemma emits_pure {A} m (r : res A) (a : A) (k : A -> line -> res line) t :
  r = Ok a -> emits m (k a) t -> emits m (fun l => (x <- r ;; k x l)%res) t.
Proof. intros -> E. exact E. Qed.

Lemma emits_field_open m name :
  emits m (fun l => field_open l name) (SP :: name ++ [EQ]).
Proof.
  unfold field_open. change (SP :: name ++ [EQ]) with ([SP] ++ name ++ [EQ]).
  apply emits_bind; [apply emits_byte|]. apply emits_bind; [apply emits_copy|apply emits_byte].
Qed.

(* a field: the opening followed by a body *)
Lemma emits_field m name c t :
  emits m c t -> emits m (fun l => (l1 <- field_open l name ;; c l1)%res) (fld name t).
Proof.
  intros E. unfold fld.
  replace (SP :: name ++ EQ :: t) with ((SP :: name ++ [EQ]) ++ t)
    by (cbn [app]; rewrite <- app_assoc; reflexivity).
  apply emits_bind; [apply emits_field_open|exact E].
Qed.

(* ---------------------------------------------------------------- small sweeps *)

Lemma sweep256 (P : N -> bool) :
  forallb P (map N.of_nat (seq 0 256)) = true -> forall n, n < 256 -> P n = true.
Proof.
  intros H n Hn. rewrite forallb_forall in H. apply H.
  rewrite <- (N2Nat.id n). apply in_map. apply in_seq. lia.
Qed.

Lemma land15 x : N.land x 15 = x mod 16.
Proof. change 15 with (N.ones 4). rewrite N.land_ones. reflexivity. Qed.

Lemma shr_div x k : N.shiftr x k = x / 2 ^ k.
Proof. apply N.shiftr_div_pow2. Qed.

Lemma hex_ascii_ok x : x < 16 -> hex_ascii x = Ok (hexd x).
Proof.
  intros H. revert x H.
  assert (S : forall n, n < 256 -> (if n <? 16 then
             match hex_ascii n with Ok c => c =? hexd n | _ => false end else true) = true).
  { apply sweep256. vm_compute. reflexivity. }
  intros x H. specialize (S x ltac:(lia)).
  destruct (N.ltb_spec x 16); [|lia].
  destruct (hex_ascii x); try discriminate. f_equal. lia.
Qed.

Lemma nibble_char_ok x : x < 16 -> nibble_char x = hexd x.
Proof.
  intros H. revert x H.
  assert (S : forall n, n < 256 -> (if n <? 16 then nibble_char n =? hexd n else true) = true).
  { apply sweep256. vm_compute. reflexivity. }
  intros x H. specialize (S x ltac:(lia)). destruct (N.ltb_spec x 16); lia.
Qed.

Fixpoint beq_bytes (a b : bytes) : bool :=
  match a, b with
  | [], [] => true
  | x :: r, y :: s => (x =? y) && beq_bytes r s
  | _, _ => false
  end.
Lemma beq_bytes_eq a : forall b, beq_bytes a b = true -> a = b.
Proof.
  induction a as [|x xs IH]; intros [|y ys]; cbn; try discriminate; auto.
  intros E. apply andb_prop in E. destruct E as [E1 E2]. f_equal; [lia|auto].
Qed.

Lemma byte_ascii_ok b : b < 256 -> byte_ascii b = Ok (dec b).
Proof.
  intros H.
  assert (S : forall n, n < 256 ->
             match byte_ascii n with Ok t => beq_bytes t (dec n) | _ => false end = true).
  { apply sweep256. vm_compute. reflexivity. }
  specialize (S b H). destruct (byte_ascii b) as [t| | |]; try discriminate.
  f_equal. apply beq_bytes_eq. exact S.
Qed.

(* ---------------------------------------------------------------- writeHex, hex fields *)

Lemma emits_write_hex m v : v < 256 -> emits m (fun l => write_hex l v) (hex2 v).
Proof.
  intros H. unfold write_hex, hex2.
  change [hexd (v / 16); hexd (v mod 16)] with ([hexd (v / 16)] ++ [hexd (v mod 16)]).
  rewrite shr_div, land15. change (2 ^ 4) with 16.
  rewrite !nibble_char_ok by lia.
  apply emits_bind; apply emits_byte.
Qed.

Lemma emits_uint8hex m name v :
  v < 256 -> emits m (fun l => f_uint8hex l name v) (fld name (hex2_0x v)).
Proof.
  intros H. unfold f_uint8hex. apply emits_field.
  unfold hex2_0x, hex2. change ([48; 120] ++ [hexd (v / 16); hexd (v mod 16)])
    with ([48] ++ [120] ++ [hexd (v / 16)] ++ [hexd (v mod 16)]).
  rewrite !land15, shr_div. change (2 ^ 4) with 16.
  apply emits_bind; [apply emits_byte|]. apply emits_bind; [apply emits_byte|].
  rewrite hex_ascii_ok by lia. cbn [bind]. replace ((v / 16) mod 16) with (v / 16) by lia.
  apply emits_bind; [apply emits_byte|].
  rewrite hex_ascii_ok by lia. cbn [bind]. apply emits_byte.
Qed.

Lemma emits_uint16hex m name v :
  v < 65536 -> emits m (fun l => f_uint16hex l name v) (fld name (hex4_0x v)).
Proof.
  intros H. unfold f_uint16hex. apply emits_field.
  unfold hex4_0x, hex4.
  change ([48; 120] ++ [hexd (v / 4096); hexd ((v / 256) mod 16); hexd ((v / 16) mod 16); hexd (v mod 16)])
    with ([48] ++ [120] ++ [hexd (v / 4096)] ++ [hexd ((v / 256) mod 16)] ++ [hexd ((v / 16) mod 16)] ++ [hexd (v mod 16)]).
  rewrite !land15, !shr_div. change (2 ^ 12) with 4096. change (2 ^ 8) with 256. change (2 ^ 4) with 16.
  apply emits_bind; [apply emits_byte|]. apply emits_bind; [apply emits_byte|].
  rewrite hex_ascii_ok by lia. cbn [bind]. replace ((v / 4096) mod 16) with (v / 4096) by lia.
  apply emits_bind; [apply emits_byte|].
  rewrite hex_ascii_ok by lia. cbn [bind]. apply emits_bind; [apply emits_byte|].
  rewrite hex_ascii_ok by lia. cbn [bind]. apply emits_bind; [apply emits_byte|].
  rewrite hex_ascii_ok by lia. cbn [bind]. apply emits_byte.
Qed.

(* ---------------------------------------------------------------- Bool, text fields *)

Lemma emits_bool m name v : emits m (fun l => f_bool l name v) (fld name (bool_text v)).
Proof. unfold f_bool. apply emits_field. destruct v; apply emits_copy. Qed.

Lemma emits_text m name t : emits m (fun l => f_text l name t) (fld name t).
Proof. unfold f_text. apply emits_field. apply emits_copy. Qed.

Lemma emits_int m name t : emits m (fun l => f_int l name t) (fld name t).
Proof. unfold f_int. apply emits_field. apply emits_copy. Qed.

Lemma emits_bytes m name t : emits m (fun l => f_bytes l name t) (fld name t).
Proof. unfold f_bytes. apply emits_field. apply emits_copy. Qed.

Lemma emits_label m name : emits m (fun l => f_label l name) (SP :: name).
Proof.
  unfold f_label. change (SP :: name) with ([SP] ++ name).
  apply emits_bind; [apply emits_byte|apply emits_copy].
Qed.

Lemma emits_lf m : emits m f_lf [10].
Proof. unfold f_lf. apply emits_byte. Qed.

Lemma emits_error m t :
  emits m (fun l => f_error l t) ([32;101;114;114;111;114;61;91] ++ t ++ [93]).
Proof.
  unfold f_error. apply emits_bind; [apply emits_copy|]. apply emits_bind; [apply emits_copy|apply emits_byte].
Qed.

Lemma emits_stringer m t :
  emits m (fun l => f_stringer l t) (match t with None => [] | Some s => SP :: s end).
Proof.
  destruct t as [s|]; cbn [f_stringer]; [|apply emits_ok].
  change (SP :: s) with ([SP] ++ s). apply emits_bind; [apply emits_byte|apply emits_copy].
Qed.

(* String: the end-of-buffer fix-up does not fire when the text fits *)
Lemma emits_string m name v :
  emits m (fun l => f_string l name v) (fld name (QUOTE :: v ++ [QUOTE])).
Proof.
  intros l W F.
  assert (E : emits (S m) (fun l => (l <- field_open l name ;; l <- append_byte l 34 ;; copy_in l v)%res)
                    (fld name (QUOTE :: v))).
  { apply emits_field. change (QUOTE :: v) with ([QUOTE] ++ v).
    apply emits_bind; [apply emits_byte|apply emits_copy]. }
  assert (Hl : List.length (fld name (QUOTE :: v ++ [QUOTE])) = S (List.length (fld name (QUOTE :: v)))).
  { unfold fld. cbn [List.length]. rewrite !app_length. cbn [List.length]. rewrite app_length. cbn. lia. }
  destruct (E l W) as (l1 & R1 & X1); [lia|].
  destruct X1 as (W1 & I1 & T1).
  unfold f_string.
  assert (R1' : (l0 <- field_open l name ;; l2 <- append_byte l0 34 ;; l3 <- copy_in l2 v ;;
                 append_byte (if Nat.eqb (index l3) BUFSZ then dec_index l3 else l3) 34)%res
                = (l3 <- (l0 <- field_open l name ;; l2 <- append_byte l0 34 ;; copy_in l2 v) ;;
                   append_byte (if Nat.eqb (index l3) BUFSZ then dec_index l3 else l3) 34)%res).
  { destruct (field_open l name); cbn [bind]; auto. destruct (append_byte a 34); cbn [bind]; auto. }
  rewrite R1', R1. cbn [bind].
  destruct (Nat.eqb_spec (index l1) BUFSZ) as [He|He]; [lia|].
  destruct (emits_byte m 34 l1 W1) as (l2 & R2 & X2); [cbn [List.length]; lia|].
  exists l2. split; auto.
  replace (fld name (QUOTE :: v ++ [QUOTE])) with (fld name (QUOTE :: v) ++ [QUOTE]).
  - eapply extends_trans; eauto. repeat split; auto.
  - unfold fld. cbn [app]. rewrite <- app_assoc. reflexivity.
Qed.

(* ---------------------------------------------------------------- MAC, IPv4 *)

Lemma emits_mac6 m name a b c d e f :
  a < 256 -> b < 256 -> c < 256 -> d < 256 -> e < 256 -> f < 256 ->
  emits m (fun l => f_mac l name [a; b; c; d; e; f]) (fld name (mac_text [a; b; c; d; e; f])).
Proof.
  intros. unfold f_mac. apply emits_field.
  unfold mac_text. cbn [map join].
  repeat (apply emits_bind; [apply emits_write_hex; assumption|]; apply emits_bind; [apply emits_byte|]).
  apply emits_write_hex; assumption.
Qed.

Lemma emits_mac_nil m name mm :
  List.length mm <> 6%nat -> emits m (fun l => f_mac l name mm) (fld name NIL).
Proof.
  intros H. unfold f_mac. apply emits_field.
  destruct mm as [|a [|b [|c [|d [|e [|f [|g r]]]]]]]; try apply emits_copy. cbn in H. lia.
Qed.

Lemma emits_put_ip4 m a b c d :
  a < 256 -> b < 256 -> c < 256 -> d < 256 ->
  emits m (fun l => put_ip4 l a b c d) (ip4_text [a; b; c; d]).
Proof.
  intros. unfold put_ip4, ip4_text. cbn [map join].
  rewrite !byte_ascii_ok by assumption. cbn [bind].
  repeat (apply emits_bind; [apply emits_copy|]; apply emits_bind; [apply emits_byte|]).
  apply emits_copy.
Qed.

(* ---------------------------------------------------------------- printInt *)

(* the digits printInt writes, least significant first *)
Fixpoint rdig (fuel : nat) (v : N) : list N :=
  match fuel with
  | O => []
  | S f => if v =? 0 then [] else (v mod 10 + 48) :: rdig f (v / 10)
  end.

Lemma count_digits_rdig fuel v : count_digits fuel v = List.length (rdig fuel v).
Proof.
  revert v; induction fuel as [|f IH]; intros v; cbn [count_digits rdig]; auto.
  destruct (v =? 0); cbn [List.length]; auto.
Qed.

Lemma rdig_zero f : rdig f 0 = [].
Proof. destruct f; reflexivity. Qed.

Lemma put_digits_spec fuel : forall b p v,
  List.length b = BUFSZ ->
  (p + List.length (rdig fuel v) <= BUFSZ)%nat ->
  put_digits fuel b (Nat.pred (p + List.length (rdig fuel v))) v = Ok (write_at b p (rev (rdig fuel v))).
Proof.
  induction fuel as [|f IH]; intros b p v Hb Hp; cbn [put_digits rdig] in *.
  - cbn [rev]. rewrite write_at_nil. reflexivity.
  - destruct (N.eqb_spec v 0) as [Hv|Hv].
    + cbn [rev]. rewrite write_at_nil. reflexivity.
    + cbn [List.length rev] in *.
      replace (Nat.pred (p + S (List.length (rdig f (v / 10))))) with (p + List.length (rdig f (v / 10)))%nat by lia.
      destruct (Nat.ltb_spec (p + List.length (rdig f (v / 10))) BUFSZ) as [Hi|Hi]; [|lia].
      rewrite IH.
      * f_equal. rewrite <- (rev_length (rdig f (v / 10))). apply write_at_snoc.
        rewrite rev_length. lia.
      * rewrite set_nth_length. exact Hb.
      * lia.
Qed.

Lemma dec_fuel_rdig f1 : forall f2 n acc,
  n < 2 ^ N.of_nat f1 -> n < 10 ^ N.of_nat f2 -> 0 < n ->
  dec_fuel f1 n acc = rev (rdig f2 n) ++ acc.
Proof.
  induction f1 as [|f1 IH]; intros f2 n acc H1 H2 Hn.
  - cbn in H1. lia.
  - destruct f2 as [|f2]; [cbn in H2; lia|].
    cbn [dec_fuel rdig]. destruct (N.eqb_spec n 0) as [Hz|Hz]; [lia|].
    rewrite Nat2N.inj_succ, N.pow_succ_r' in H1, H2.
    unfold digit. rewrite (N.add_comm 48).
    destruct (N.ltb_spec n 10) as [Hs|Hs].
    + replace (n / 10) with 0 by lia. rewrite rdig_zero. reflexivity.
    + rewrite IH with (f2 := f2); try lia.
      cbn [rev]. rewrite <- app_assoc. reflexivity.
Qed.

Lemma dec_rdig10 v : 0 < v -> v < 4294967296 -> dec v = rev (rdig 10 v).
Proof.
  intros H0 H. unfold dec.
  assert (A : v < 2 ^ N.of_nat (S (N.to_nat (N.size v)))).
  { rewrite Nat2N.inj_succ, N2Nat.id, N.pow_succ_r'. pose proof (N.size_gt v). lia. }
  assert (B : v < 10 ^ N.of_nat 10) by (change (10 ^ N.of_nat 10) with 10000000000; lia).
  rewrite (dec_fuel_rdig _ 10%nat v [] A B H0). apply app_nil_r.
Qed.

Lemma emits_print_int m v : v < 4294967296 -> emits m (fun l => print_int l v) (dec v).
Proof.
  intros Hv l W F. unfold print_int.
  destruct (N.eqb_spec v 0) as [Hz|Hz].
  - subst v. apply (emits_byte m 48); auto.
  - rewrite dec_rdig10 in * by lia. rewrite rev_length in F.
    rewrite count_digits_rdig. rewrite put_digits_spec by (auto; lia). cbn [bind].
    eexists; split; [reflexivity|].
    rewrite <- (rev_length (rdig 10 v)). apply extends_write_at; auto. rewrite rev_length. lia.
Qed.

Lemma emits_uint m name v :
  v < 4294967296 -> emits m (fun l => f_uint l name v) (fld name (dec v)).
Proof. intros H. unfold f_uint. apply emits_field. apply emits_print_int; auto. Qed.

Lemma emits_ipslice4 m name a b c d :
  a < 256 -> b < 256 -> c < 256 -> d < 256 ->
  emits m (fun l => f_ipslice l name (Some [a; b; c; d])) (fld name (ip4_text [a; b; c; d])).
Proof.
  intros. unfold f_ipslice. apply emits_field.
  apply emits_eq with (c := fun l => put_ip4 l a b c d) (t := ip4_text [a; b; c; d]);
    [intros; reflexivity|reflexivity|]. apply emits_put_ip4; assumption.
Qed.

Lemma emits_ipslice_nil m name : emits m (fun l => f_ipslice l name None) (fld name NIL).
Proof. unfold f_ipslice. apply emits_field. apply emits_copy. Qed.

(* from emits to the vocabulary of Properties/C20.v *)
Lemma emits_appended c t : emits 0 c t -> forall l, wf l -> fits l t -> appended l t (c l).
Proof. intros E l W F. unfold fits in F. apply E; auto. lia. Qed.

(* ---- statements of Properties/C20.v, first slice *)

Lemma field_uint l name v : wf l -> v < 4294967296 -> fits l (fld name (dec v)) ->
  appended l (fld name (dec v)) (f_uint l name v).
Proof. intros W H F. apply (emits_appended _ _ (emits_uint 0 name v H)); auto. Qed.

Lemma field_uint8hex l name v : wf l -> v < 256 -> fits l (fld name (hex2_0x v)) ->
  appended l (fld name (hex2_0x v)) (f_uint8hex l name v).
Proof. intros W H F. apply (emits_appended _ _ (emits_uint8hex 0 name v H)); auto. Qed.

Lemma field_uint16hex l name v : wf l -> v < 65536 -> fits l (fld name (hex4_0x v)) ->
  appended l (fld name (hex4_0x v)) (f_uint16hex l name v).
Proof. intros W H F. apply (emits_appended _ _ (emits_uint16hex 0 name v H)); auto. Qed.

Lemma field_bool l name v : wf l -> fits l (fld name (bool_text v)) ->
  appended l (fld name (bool_text v)) (f_bool l name v).
Proof. intros W F. apply (emits_appended _ _ (emits_bool 0 name v)); auto. Qed.

Lemma field_mac l name m : wf l -> bytes_ok m -> List.length m = 6%nat -> fits l (fld name (mac_text m)) ->
  appended l (fld name (mac_text m)) (f_mac l name m).
Proof.
  intros W B L F.
  destruct m as [|a [|b [|c [|d [|e [|f [|g r]]]]]]]; try discriminate.
  unfold bytes_ok in B. repeat match goal with H : Forall _ (_ :: _) |- _ => inversion H; clear H; subst end.
  apply (emits_appended _ _ (emits_mac6 0 name a b c d e f ltac:(assumption) ltac:(assumption) ltac:(assumption)
                                        ltac:(assumption) ltac:(assumption) ltac:(assumption))); auto.
Qed.

Lemma field_ip4 l name a : wf l -> bytes_ok a -> List.length a = 4%nat -> fits l (fld name (ip4_text a)) ->
  appended l (fld name (ip4_text a)) (f_ipslice l name (Some a)).
Proof.
  intros W B L F.
  destruct a as [|a [|b [|c [|d [|e r]]]]]; try discriminate.
  unfold bytes_ok in B. repeat match goal with H : Forall _ (_ :: _) |- _ => inversion H; clear H; subst end.
  apply (emits_appended _ _ (emits_ipslice4 0 name a b c d ltac:(assumption) ltac:(assumption)
                                            ltac:(assumption) ltac:(assumption))); auto.
Qed.

Lemma field_string l name v : wf l -> fits l (fld name (QUOTE :: v ++ [QUOTE])) ->
  appended l (fld name (QUOTE :: v ++ [QUOTE])) (f_string l name v).
Proof. intros W F. apply (emits_appended _ _ (emits_string 0 name v)); auto. Qed.

Lemma field_text l name t : wf l -> fits l (fld name t) -> appended l (fld name t) (f_text l name t).
Proof. intros W F. apply (emits_appended _ _ (emits_text 0 name t)); auto. Qed.

(* non-vacuity: a concrete line, value and name satisfying the hypotheses *)
Definition ex_line : line := mkLine (repeat 46 BUFSZ) 7.
Lemma ex_line_wf : wf ex_line.
Proof. unfold wf, ex_line. cbn [buf]. apply repeat_length. Qed.

Lemma field_uint_nonvacuous :
  wf ex_line /\ 4294967295 < 4294967296 /\ fits ex_line (fld [97; 98] (dec 4294967295)) /\
  option_map (fun l => firstn 14 (skipn 7 (buf l)))
             (match f_uint ex_line [97; 98] 4294967295 with Ok l => Some l | _ => None end)
  = Some [32; 97; 98; 61; 52; 50; 57; 52; 57; 54; 55; 50; 57; 53].
Proof. split; [apply ex_line_wf|]. split; [lia|]. split; [unfold fits; vm_compute; lia|]. vm_compute. reflexivity. Qed.
