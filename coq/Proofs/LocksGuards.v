(* Proofs/LocksGuards.v — the guard discipline (field -> guarding mutex) of the transcribed table:
   * [guards_static]        every access of every template holds the guard of its field (read: the lock in any
                            mode, write: exclusively; GEither: writers hold both, readers one; GPkt: packet loop only);
   * [guarded_in_every_state] lifted to the transition system: in EVERY reachable state of every interleaving, a
                            thread about to access a location holds (as instantiated locks) a set of classes
                            satisfying the guard of that field — proved from the position invariant, not sampled;
   * [send_never_panics]    an inductive invariant over all interleavings: a closed channel has its `closed` flag
                            set, because a thread reaches a close only after the atomic test-and-set — so no send
                            (they are all guarded by that flag) ever hits a closed channel. *)
From PV Require Import Base.Prelude Model.Locks Model.LocksOps Proofs.Locks Proofs.LocksOps Proofs.LocksSound Proofs.LocksTable.
From Coq Require Import Bool Arith Lia.
Open Scope nat_scope.

Lemma guards_static :
  forallb (fun o => forallb (fun a => guard_ok (pktloop o) (fst (fst a)) (snd (fst a)) (snd a))
                            (taccs op [] (flat op (template o)))) all_ops = true.
Proof. vm_compute. reflexivity. Qed.

(* every guard kind occurs, and there are locked writes: the statement is not vacuous *)
Example guards_nonvacuous :
  existsb (fun o => existsb (fun a => snd (fst a) && holds_cW LRow (snd a)) (taccs op [] (flat op (template o)))) all_ops = true.
Proof. vm_compute. reflexivity. Qed.

Theorem guarded_in_every_state : forall (l : list (op * list nat)) s,
  reachable op template (init op template l) s ->
  forall i t x w, nth_error (threads op s) i = Some t -> LocksSound.next_access op t = Some (x, w) ->
  exists r hc, held op t = ihl r hc /\ guard_ok (pktloop (top op t)) (fst x) w hc = true.
Proof.
  intros l s Hr i t x w Hi Ha.
  assert (Hinv0 : inv op rank (init op template l)) by (apply inv_init; exact ops_ordered).
  pose proof (pos_reachable op template rank ops_ordered _ _ Hinv0 (pos_init op template l) Hr) as Hpos.
  assert (Hp : pos_ok op template t) by (eapply Forall_nth_error; eauto).
  destruct (access_static op template ops_bal t x w Hp Ha) as [r [[[f b] hc] [Hin E]]].
  unfold iacc in E. cbn in E. injection E as Ex Eb Eh. subst x b.
  exists r, hc. split; [exact Eh|].
  pose proof (forallb_In _ _ (forallb_In _ _ guards_static (top op t) (all_ops_complete _)) (f, w, hc) Hin) as G.
  cbn in G. unfold iloc. cbn [fst]. exact G.
Qed.

(* ---------- sends never hit a closed channel ---------- *)

(* a close of c that the thread can still reach WITHOUT passing the test-and-set of c's flag first *)
Fixpoint pend (c : chan) (acts : list (action op)) : bool :=
  match acts with
  | [] => false
  | Once _ x :: r => if loc_eqb x (flag_of_chan c, 0) then false else pend c r
  | CloseCh _ c' :: r => chan_eqb c c' || pend c r
  | _ :: r => pend c r
  end.

Definition fl (c : chan) : loc := (flag_of_chan c, 0).

Definition thr_ok (s : state op) (t : thread op) : Prop :=
  forall c, pend c (rest op t) = true -> flag_set op s (fl c) = true.
Definition chan_inv (s : state op) : Prop :=
  Forall (thr_ok s) (threads op s) /\ forall c, chan_closed op s c = true -> flag_set op s (fl c) = true.

Section Inv.
(* no operation body can reach a close before the test-and-set of the channel's flag *)
Hypothesis Hpend : forall o rows c, pend c (body op template o rows) = false.

Lemma chan_eqb_eq : forall a b, chan_eqb a b = true -> a = b.
Proof. destruct a, b; cbv; intro H; try reflexivity; discriminate H. Qed.

Lemma flag_mono : forall s s' i x, step op template s i = Some s' -> flag_set op s x = true -> flag_set op s' x = true.
Proof.
  intros s s' i x H Hf. unfold step in H.
  destruct (panicked op s); [discriminate|].
  destruct (nth_error (threads op s) i) as [t|]; [|discriminate].
  destruct (rest op t) as [|a r]; [discriminate|].
  destruct a; try (inversion H; subst; exact Hf).
  - destruct (can_acquire op (threads op s) i t l m); inversion H; subst; exact Hf.
  - destruct (chan_closed op s c); inversion H; subst; exact Hf.
  - destruct (chan_closed op s c); inversion H; subst; exact Hf.
  - destruct (chan_closed op s c); inversion H; subst; exact Hf.
  - destruct (flag_set op s x0); inversion H; subst; exact Hf.
  - inversion H; subst. unfold flag_set; cbn. fold (flag_set op s x). rewrite Hf. apply orb_true_r.
  - destruct (flag_set op s x0) eqn:E; inversion H; subst; [exact Hf|].
    unfold flag_set; cbn. fold (flag_set op s x). rewrite Hf. apply orb_true_r.
  - destruct (flag_set op s x0); [|destruct (chan_closed op s c)]; inversion H; subst; exact Hf.
Qed.

(* what one step of a thread can do to its pending closes *)
Lemma pend_adv : forall s (t : thread op) a r c,
  pend c (rest op (adv op template s t a r)) = true ->
  pend c (a :: r) = true \/
  exists x, a = Once op x /\ flag_set op s x = false /\ loc_eqb x (fl c) = true.
Proof.
  intros s t a r c Hp. destruct a; cbn [adv] in Hp.
  - left. exact Hp.
  - left. exact Hp.
  - left. exact Hp.
  - left. exact Hp.
  - left. exact Hp.
  - left. exact Hp.
  - left. exact Hp.
  - left. exact Hp.
  - left. cbn. cbn in Hp. rewrite Hp. apply orb_true_r.
  - left. exact Hp.
  - destruct (chan_closed op s c0); cbn in Hp; [discriminate | left; exact Hp].
  - destruct (flag_set op s x); cbn in Hp; [discriminate | left; exact Hp].
  - left. exact Hp.
  - cbn in Hp. rewrite Hpend in Hp. discriminate.
  - destruct (flag_set op s x) eqn:Ef; cbn in Hp; [discriminate|].
    destruct (loc_eqb x (fl c)) eqn:El.
    + right. exists x. auto.
    + left. cbn. unfold fl in El. rewrite El. exact Hp.
  - left. exact Hp.
  - left. exact Hp.
  - left. exact Hp.
Qed.

Lemma chan_inv_init : forall l, chan_inv (init op template l).
Proof.
  intros l. split.
  - unfold init; cbn. rewrite Forall_forall. intros t Ht. apply in_map_iff in Ht as [[o rows] [<- _]].
    intros c Hp. unfold start in Hp; cbn in Hp. rewrite Hpend in Hp. discriminate.
  - intros c H. cbn in H. discriminate.
Qed.

Lemma chan_inv_step : forall s i s', chan_inv s -> step op template s i = Some s' -> chan_inv s'.
Proof.
  intros s i s' [Ht Hc] Hstep.
  assert (Hmono : forall x, flag_set op s x = true -> flag_set op s' x = true)
    by (intros; eapply flag_mono; eauto).
  split.
  - (* threads *)
    rewrite Forall_forall. intros t' Hin. apply In_nth_error in Hin as [j Hj].
    destruct (step_origin op template _ _ _ Hstep _ _ Hj) as [O | [[-> [t [a [r [Hn [Hr [-> _]]]]]]] | [o [row [-> _]]]]].
    + pose proof (Forall_nth_error op _ _ _ _ Ht O) as Hok0. intros c Hp. apply Hmono. apply Hok0. exact Hp.
    + pose proof (Forall_nth_error op _ _ _ _ Ht Hn) as Hok. unfold thr_ok in Hok. rewrite Hr in Hok.
      intros c Hp.
      destruct (pend_adv s t a r c Hp) as [Hb | [x [-> [Ef El]]]].
      * apply Hmono. apply Hok. exact Hb.
      * (* this step is the test-and-set of the flag of c, and the flag was not set: it sets it *)
        unfold step in Hstep. destruct (panicked op s); [discriminate|]. rewrite Hn, Hr, Ef in Hstep.
        inversion Hstep; subst. unfold flag_set; cbn.
        assert (loc_eqb (fl c) x = true) as ->; [|reflexivity].
        unfold loc_eqb, field_eqb in *. apply andb_true_iff in El as [A B]. apply andb_true_iff; split;
          rewrite Nat.eqb_sym; assumption.
    + intros c Hp. unfold start in Hp; cbn in Hp. rewrite Hpend in Hp. discriminate.
  - (* closed channels *)
    intros c Hcl. pose proof Hstep as Hstep0. unfold step in Hstep.
    destruct (panicked op s); [discriminate|].
    destruct (nth_error (threads op s) i) as [t|] eqn:Hn; [|discriminate].
    destruct (rest op t) as [|a r] eqn:Hr; [discriminate|].
    pose proof (Forall_nth_error op _ _ _ _ Ht Hn) as Hok. unfold thr_ok in Hok. rewrite Hr in Hok.
    assert (Hold : chan_closed op s c = true -> flag_set op s' (fl c) = true).
    { intro H. eapply flag_mono; [exact Hstep0 | apply Hc; exact H]. }
    destruct a; try (inversion Hstep; subst; cbn in Hcl; apply Hold; exact Hcl).
    + destruct (can_acquire op (threads op s) i t l m); inversion Hstep; subst; apply Hold; exact Hcl.
    + destruct (chan_closed op s c0); inversion Hstep; subst; apply Hold; exact Hcl.
    + (* CloseCh c0 *)
      destruct (chan_closed op s c0) eqn:Ec0; inversion Hstep; subst; [apply Hold; exact Hcl|].
      unfold chan_closed in Hcl; cbn in Hcl. apply orb_true_iff in Hcl as [E|E].
      * apply chan_eqb_eq in E. subst c0. unfold flag_set; cbn. fold (flag_set op s (fl c)).
        apply Hok. cbn. destruct c; reflexivity.
      * unfold flag_set; cbn. fold (flag_set op s (fl c)). apply Hc. exact E.
    + destruct (chan_closed op s c0); inversion Hstep; subst; apply Hold; exact Hcl.
    + destruct (flag_set op s x); inversion Hstep; subst; apply Hold; exact Hcl.
    + destruct (flag_set op s x); inversion Hstep; subst; apply Hold; exact Hcl.
    + destruct (flag_set op s x); [|destruct (chan_closed op s c0)]; inversion Hstep; subst; apply Hold; exact Hcl.
Qed.

Lemma chan_inv_reachable : forall l s, reachable op template (init op template l) s -> chan_inv s.
Proof. intros l s Hr. induction Hr; [apply chan_inv_init | eapply chan_inv_step; eauto]. Qed.

End Inv.

(* ---------- the table satisfies the hypothesis ---------- *)

Lemma pend_no_close : forall c r l k,
  forallb (fun a => match a with TCloseCh _ => false | _ => true end) l = true ->
  pend c (inst op r l ++ k) = true -> pend c k = true.
Proof.
  intros c r l k; induction l as [|a l IH]; intros Hl Hp; cbn in *; [exact Hp|].
  apply andb_true_iff in Hl as [Ha Hl].
  destruct a; cbn in Hp; try (apply IH; assumption); try discriminate.
  destruct (loc_eqb (iloc r f) (flag_of_chan c, 0)); [discriminate | apply IH; assumption].
Qed.

Lemma flat_map_nil : forall (rows : list nat), flat_map (fun r => inst op r []) rows = [].
Proof. induction rows; cbn; auto. Qed.

Definition no_close (t : tmpl op) : bool :=
  forallb (fun a => match a with TCloseCh _ => false | _ => true end) (flat op t).

Lemma pend_body_no_close : forall o rows c, no_close (template o) = true -> pend c (body op template o rows) = false.
Proof.
  intros o rows c H. destruct (pend c (body op template o rows)) eqn:E; [exfalso|reflexivity].
  unfold no_close, flat in H. rewrite !forallb_app in H.
  apply andb_true_iff in H as [Hpre H]. apply andb_true_iff in H as [Heach Hpost].
  unfold body, body_of in E. apply pend_no_close in E; [|exact Hpre].
  assert (pend c (inst op (hd 0 rows) (t_post op (template o))) = true).
  { generalize dependent (hd 0 rows). induction rows as [|r rows IH]; intros r0 E; cbn [flat_map app] in E; [exact E|].
    rewrite <- app_assoc in E. apply pend_no_close in E; [|exact Heach]. apply IH. exact E. }
  rewrite <- (app_nil_r (inst op (hd 0 rows) (t_post op (template o)))) in H.
  apply pend_no_close in H; [|exact Hpost]. cbn in H. discriminate.
Qed.

Lemma closers_listed :
  filter (fun o => negb (no_close (template o))) all_ops = [SessClose; ArpClose; I6Close; DhcpClose].
Proof. vm_compute. reflexivity. Qed.

Lemma table_pend : forall o rows c, pend c (body op template o rows) = false.
Proof.
  intros o rows c. destruct (no_close (template o)) eqn:E; [apply pend_body_no_close; exact E|].
  assert (In o [SessClose; ArpClose; I6Close; DhcpClose]) as Hin.
  { rewrite <- closers_listed. apply filter_In. split; [apply all_ops_complete | rewrite E; reflexivity]. }
  destruct Hin as [<-|[<-|[<-|[<-|[]]]]]; unfold body, body_of; cbn [template simple t_pre t_each t_post];
    rewrite flat_map_nil; cbn; destruct c; reflexivity.
Qed.

(* In every reachable state of every interleaving of the table, a closed channel has its `closed` flag set. *)
Theorem closed_channel_has_flag : forall (l : list (op * list nat)) s c,
  reachable op template (init op template l) s -> chan_closed op s c = true -> flag_set op s (fl c) = true.
Proof. intros l s c Hr. exact (proj2 (chan_inv_reachable table_pend l s Hr) c). Qed.

(* ... hence the guarded send of c never panics: with the flag set it is skipped, with the flag unset the
   channel is open *)
Theorem guarded_send_never_panics : forall (l : list (op * list nat)) s i t c r s',
  reachable op template (init op template l) s -> panicked op s = false ->
  nth_error (threads op s) i = Some t -> rest op t = SendIfOpen op (fl c) c :: r ->
  step op template s i = Some s' -> panicked op s' = false.
Proof.
  intros l s i t c r s' Hr Hp Hn Hrest Hstep.
  unfold step in Hstep. rewrite Hp, Hn, Hrest in Hstep.
  destruct (flag_set op s (fl c)) eqn:Ef; [inversion Hstep; subst; exact Hp|].
  destruct (chan_closed op s c) eqn:Ec; [|inversion Hstep; subst; exact Hp].
  rewrite (closed_channel_has_flag l s c Hr Ec) in Ef. discriminate.
Qed.

(* every send of the table IS such a guarded send: no blocking/unguarded send, every guarded send tests the
   flag of its own channel *)
Lemma sends_are_guarded :
  forallb (fun o => forallb (fun a => match a with
     | TSend _ => false
     | TSendIfOpen f c => field_eqb f (flag_of_chan c)
     | _ => true end) (flat op (template o))) all_ops = true.
Proof. vm_compute. reflexivity. Qed.

Example guarded_sends_exist :
  existsb (fun o => existsb (fun a => match a with TSendIfOpen _ _ => true | _ => false end) (flat op (template o))) all_ops = true.
Proof. vm_compute. reflexivity. Qed.

(* ---------- goroutine census ---------- *)

(* every goroutine the library starts (the `go` statements of the five packages, compared with the source on
   every run by the `gocensus` case) is either finite — its template has no back edge — or one of the loops that
   [close_stops_loops] covers (it tests a channel / flag that its component's Close closes / sets); every
   goroutine an operation of the table spawns, and every ambient goroutine of a session, is in the census *)
Lemma census_ok :
  forallb (fun o => negb (is_loop o) ||
                    match stop_chan o, stop_flag o with None, None => false | _, _ => true end) go_census = true
  /\ forallb (fun o => forallb (fun sp => existsb (op_eqb sp) go_census) (spawns o)) all_ops = true
  /\ forallb (fun a => existsb (op_eqb a) go_census) ambient_ops = true.
Proof. vm_compute. repeat split. Qed.
