(* Proofs/DHCPReply.v — C12: contents of OFFER/ACK replies (options through
   AppendOptions' ordering), ACK conformance, and the theorems over all histories. *)
From PV Require Import Base.Prelude Base.Text Model.DHCP Model.DHCPShow Spec.DHCP Spec.DHCPCheck
  Proofs.DHCP Proofs.DHCPInv.
Open Scope list_scope.
Open Scope N_scope.

(* ---------------------------------------------------------------- *)
(* AppendOptions keeps every option: lookups are those of the option map *)

Definition okeys (l : list (N * bytes)) : list N := map fst l.

Lemma alookup_none_notin {A} k (l : list (N * A)) : alookup k l = None <-> ~ In k (map fst l).
Proof.
  induction l as [|[a v] r IH]; simpl; [tauto|].
  destruct (a =? k) eqn:E.
  - apply N.eqb_eq in E. split; [discriminate|]. intros H. exfalso. apply H. left. exact E.
  - apply N.eqb_neq in E. rewrite IH. tauto.
Qed.

Lemma in_keys_aremove {A} k k' (l : list (N * A)) : In k (map fst (aremove k' l)) -> In k (map fst l) /\ k <> k'.
Proof.
  induction l as [|[a v] r IH]; simpl; [tauto|].
  destruct (a =? k') eqn:E.
  - intros H. destruct (IH H). split; auto.
  - simpl. intros [H|H].
    + subst. apply N.eqb_neq in E. split; auto.
    + destruct (IH H). split; auto.
Qed.

Lemma nodup_aremove {A} k (l : list (N * A)) : NoDup (map fst l) -> NoDup (map fst (aremove k l)).
Proof.
  induction l as [|[a v] r IH]; simpl; intros H; [constructor|].
  inversion H; subst. destruct (a =? k); auto. simpl. constructor; auto.
  intros Hin. apply in_keys_aremove in Hin. tauto.
Qed.

Lemma take_keys order : forall opts o rest,
  take_ordered order opts = (o, rest) -> NoDup (okeys opts) -> NoDup (okeys rest).
Proof.
  induction order as [|code r IH]; simpl; intros opts o rest H Hn.
  - inversion H; subst. exact Hn.
  - destruct (alookup code opts) as [v|].
    + destruct (take_ordered r (aremove code opts)) as [o' rest'] eqn:E. inversion H; subst.
      apply (IH _ _ _ E). apply nodup_aremove. exact Hn.
    + apply (IH _ _ _ H Hn).
Qed.

Lemma take_lookup order : forall opts o rest k L,
  take_ordered order opts = (o, rest) -> alookup k L = alookup k rest ->
  alookup k (o ++ L) = alookup k opts.
Proof.
  induction order as [|code r IH]; simpl; intros opts o rest k L H HL.
  - inversion H; subst. exact HL.
  - destruct (alookup code opts) as [v|] eqn:A.
    + destruct (take_ordered r (aremove code opts)) as [o' rest'] eqn:E. inversion H; subst.
      simpl. destruct (code =? k) eqn:C.
      * apply N.eqb_eq in C. subst. auto.
      * apply N.eqb_neq in C. rewrite (IH _ _ _ k L E HL). apply alookup_aremove_neq. auto.
    + apply (IH _ _ _ k L H HL).
Qed.

Lemma insert_lookup x l k :
  ~ In (fst x) (okeys l) ->
  alookup k (insert_opt x l) = if fst x =? k then Some (snd x) else alookup k l.
Proof.
  destruct x as [a v]. simpl. induction l as [|[b w] r IH]; simpl; intros Hn.
  - reflexivity.
  - destruct (a <=? b).
    + simpl. reflexivity.
    + simpl. rewrite IH by tauto. destruct (b =? k) eqn:E1; auto.
      destruct (a =? k) eqn:E2; auto. apply N.eqb_eq in E1, E2. exfalso. apply Hn. left. congruence.
Qed.

Lemma insert_keys x l k : In k (okeys (insert_opt x l)) <-> k = fst x \/ In k (okeys l).
Proof.
  induction l as [|y r IH]; simpl; [intuition|].
  destruct (fst x <=? fst y); simpl; [intuition|]. rewrite IH. intuition.
Qed.

Lemma sort_keys l k : In k (okeys (sort_opts l)) <-> In k (okeys l).
Proof.
  induction l as [|x r IH]; simpl; [tauto|]. rewrite insert_keys, IH. intuition.
Qed.

Lemma sort_lookup l k : NoDup (okeys l) -> alookup k (sort_opts l) = alookup k l.
Proof.
  induction l as [|[a v] r IH]; simpl; intros Hn; [reflexivity|].
  inversion Hn; subst. rewrite insert_lookup.
  - simpl. rewrite IH by auto. reflexivity.
  - simpl. rewrite sort_keys. exact H1.
Qed.

Lemma append_lookup opts order k :
  NoDup (okeys opts) -> alookup k (append_options opts order) = alookup k opts.
Proof.
  intros Hn. unfold append_options.
  destruct (take_ordered (insert_mask order ++ [1; 33; 3]) opts) as [o rest] eqn:E.
  apply (take_lookup _ _ _ _ k _ E). apply sort_lookup. apply (take_keys _ _ _ _ E Hn).
Qed.

(* ---------------------------------------------------------------- *)
(* the options of an OFFER / ACK *)

Definition lease_opts (c : cfg) (b : bool) (tcode : N) : list (N * bytes) :=
  n_options c b ++ [lease_time_opt; (53, [tcode])].

Lemma lease_opts_nodup c b tcode : NoDup (okeys (lease_opts c b tcode)).
Proof.
  unfold lease_opts, n_options, okeys. destruct b; simpl;
    repeat (constructor; [simpl; intros H; repeat (destruct H as [H|H]; [discriminate H|]); exact H|]);
    constructor.
Qed.

Lemma beqb_refl a : beqb a a = true.
Proof.
  unfold beqb. rewrite Nat.eqb_refl. simpl. induction a as [|x r IH]; simpl; auto.
  rewrite N.eqb_refl. exact IH.
Qed.

Lemma lease_reply_opts c t m x b k :
  t <> RNak ->
  opt k (mk_reply c t m x b) = alookup k (lease_opts c b (match t with ROffer => 2 | RAck => 5 | RNak => 6 end)).
Proof.
  intros Ht. unfold opt, mk_reply. cbn [r_opts]. destruct t; try congruence;
    apply append_lookup; apply lease_opts_nodup.
Qed.

Lemma subnet_of_good c s0 m x s' t :
  cfg_ok c -> t <> RNak ->
  addr_good c s0 (m_chaddr m) (getcid m) x s' ->
  let b := sess_captured (ss s0) (m_chaddr m) in
  let r := mk_reply c t m x b in
  want_contains c b (r_yi r) = true /\
  obeqb (opt 3 r) (ipb (want_router c b)) = true /\
  obeqb (opt 6 r) (ipb (want_dns c b)) = true /\
  obeqb (opt 1 r) (ipb (pmask (want_bits c b))) = true /\
  obeqb (opt 54 r) (ipb (c_hostip c)) = true /\
  obeqb (opt 51 r) (ipb 14400) = true /\
  r_xid r = m_xid m /\ r_chaddr r = m_chaddr m.
Proof.
  intros [Hok Hc] Ht [[P _] _] b r. unfold r.
  rewrite !lease_reply_opts by exact Ht.
  change (r_yi (mk_reply c t m x b)) with x.
  split; [rewrite <- (ok_contains c b x Hok); apply in_pool_contains; exact P|].
  assert (E3 : alookup 3 (lease_opts c b (match t with ROffer => 2 | RAck => 5 | RNak => 6 end)) = Some (ipb (n_gw c b)))
    by (unfold lease_opts, n_options; destruct b; reflexivity).
  assert (E6 : alookup 6 (lease_opts c b (match t with ROffer => 2 | RAck => 5 | RNak => 6 end)) = Some (ipb (n_dns c b)))
    by (unfold lease_opts, n_options; destruct b; reflexivity).
  assert (E1 : alookup 1 (lease_opts c b (match t with ROffer => 2 | RAck => 5 | RNak => 6 end)) = Some (ipb (pmask (n_bits c b))))
    by (unfold lease_opts, n_options; destruct b; reflexivity).
  assert (E54 : alookup 54 (lease_opts c b (match t with ROffer => 2 | RAck => 5 | RNak => 6 end)) = Some (ipb (n_server c b)))
    by (unfold lease_opts, n_options; destruct b; reflexivity).
  assert (E51 : alookup 51 (lease_opts c b (match t with ROffer => 2 | RAck => 5 | RNak => 6 end)) = Some (ipb 14400))
    by (unfold lease_opts, n_options; destruct b; reflexivity).
  rewrite E3, E6, E1, E54, E51.
  rewrite (ok_gw c b Hok), (ok_dns c b Hok), (ok_bits c b Hok), (ok_server c b Hok).
  assert (W : (if b then c_nfip c else c_routerip c) = want_router c b) by (unfold want_router; destruct b; auto).
  rewrite W. simpl. rewrite !beqb_refl. repeat split; reflexivity.
Qed.

(* ---------------------------------------------------------------- *)
(* mask before router, when the parameter request list does not name 3 before 1 *)

Fixpoint before (a b : N) (l : list N) : bool :=   (* a occurs, and before any b *)
  match l with
  | [] => false
  | x :: r => if x =? a then true else if x =? b then false else before a b r
  end.

Definition lt_pos (a b : option nat) : Prop :=
  match a, b with Some i, Some j => (i < j)%nat | _, _ => False end.

Lemma pos_of_none k l : pos_of k l = None <-> alookup k l = None.
Proof.
  induction l as [|[a v] r IH]; simpl; [tauto|].
  destruct (a =? k); [split; discriminate|].
  destruct (pos_of k r); simpl.
  - split; intros H; [discriminate|]. apply IH in H. discriminate.
  - split; intros H; [apply IH; reflexivity|reflexivity].
Qed.

Lemma lt_pos_S a b : lt_pos a b -> lt_pos (option_map S a) (option_map S b).
Proof. destruct a, b; simpl; auto. lia. Qed.

Lemma emit1 r opts v o' rest' L :
  alookup 1 opts = Some v -> take_ordered r (aremove 1 opts) = (o', rest') ->
  alookup 3 L = alookup 3 rest' -> alookup 3 opts <> None ->
  lt_pos (pos_of 1 ((1, v) :: o' ++ L)) (pos_of 3 ((1, v) :: o' ++ L)).
Proof.
  intros A E HL H3. cbn [pos_of]. change (1 =? 1) with true. change (1 =? 3) with false.
  destruct (pos_of 3 (o' ++ L)) as [j|] eqn:P.
  - simpl. lia.
  - exfalso. apply pos_of_none in P. rewrite (take_lookup _ _ _ _ 3 L E HL) in P.
    rewrite alookup_aremove_neq in P by discriminate. contradiction.
Qed.

Lemma take_cons code r opts :
  take_ordered (code :: r) opts =
  match alookup code opts with
  | Some v => let '(o, rest) := take_ordered r (aremove code opts) in ((code, v) :: o, rest)
  | None => take_ordered r opts
  end.
Proof. reflexivity. Qed.

Lemma mask_gen prl : forall opts o rest L,
  before 3 1 prl = false -> alookup 1 opts <> None -> alookup 3 opts <> None ->
  take_ordered (prl ++ [1; 33; 3]) opts = (o, rest) -> alookup 3 L = alookup 3 rest ->
  lt_pos (pos_of 1 (o ++ L)) (pos_of 3 (o ++ L)).
Proof.
  induction prl as [|x p IH]; intros opts o rest L Hb H1 H3 E HL.
  - change ([] ++ [1; 33; 3]) with (1 :: [33; 3]) in E. rewrite take_cons in E.
    destruct (alookup 1 opts) as [v|] eqn:A; [|contradiction].
    destruct (take_ordered [33; 3] (aremove 1 opts)) as [o' rest'] eqn:E'. inversion E; subst.
    apply (emit1 [33; 3] opts v o' rest L); auto.
  - simpl in Hb. destruct (x =? 3) eqn:X3; [discriminate|]. destruct (x =? 1) eqn:X1.
    + apply N.eqb_eq in X1. subst x. change ((1 :: p) ++ [1; 33; 3]) with (1 :: (p ++ [1; 33; 3])) in E.
      rewrite take_cons in E.
      destruct (alookup 1 opts) as [v|] eqn:A; [|contradiction].
      destruct (take_ordered (p ++ [1; 33; 3]) (aremove 1 opts)) as [o' rest'] eqn:E'. inversion E; subst.
      apply (emit1 (p ++ [1; 33; 3]) opts v o' rest L); auto.
    + apply N.eqb_neq in X1, X3. change ((x :: p) ++ [1; 33; 3]) with (x :: (p ++ [1; 33; 3])) in E.
      rewrite take_cons in E. destruct (alookup x opts) as [v|] eqn:A.
      * destruct (take_ordered (p ++ [1; 33; 3]) (aremove x opts)) as [o' rest'] eqn:E'. inversion E; subst.
        cbn [app pos_of]. apply N.eqb_neq in X1, X3. rewrite X1, X3. apply lt_pos_S.
        apply N.eqb_neq in X1, X3.
        apply (IH (aremove x opts) o' rest L); auto; rewrite alookup_aremove_neq; auto.
      * apply (IH opts o rest L); auto.
Qed.

Lemma before_insert_mask l : before 3 1 (insert_mask l) = false.
Proof.
  induction l as [|x r IH]; simpl; auto.
  destruct (x =? 3) eqn:X3.
  - reflexivity.
  - simpl. rewrite X3. destruct (x =? 1); auto.
Qed.

Lemma mask_first_reply c t m x b :
  t <> RNak -> c12_mask_first (mk_reply c t m x b) = true.
Proof.
  intros Ht. unfold c12_mask_first.
  assert (L : is_lease_reply (mk_reply c t m x b) = true) by (destruct t; auto; congruence).
  rewrite L. cbn [negb orb].
  set (tc := match t with ROffer => 2 | RAck => 5 | RNak => 6 end).
  assert (Ho : r_opts (mk_reply c t m x b) = append_options (lease_opts c b tc) (m_prl m))
    by (unfold mk_reply; destruct t; auto; congruence).
  rewrite Ho. unfold append_options.
  destruct (take_ordered (insert_mask (m_prl m) ++ [1; 33; 3]) (lease_opts c b tc)) as [o rest] eqn:E.
  assert (G : lt_pos (pos_of 1 (o ++ sort_opts rest)) (pos_of 3 (o ++ sort_opts rest))).
  { apply (mask_gen (insert_mask (m_prl m)) (lease_opts c b tc) o rest); auto.
    - apply before_insert_mask.
    - unfold lease_opts, n_options. destruct b; simpl; discriminate.
    - unfold lease_opts, n_options. destruct b; simpl; discriminate.
    - apply sort_lookup. apply (take_keys _ _ _ _ E). apply lease_opts_nodup. }
  destruct (pos_of 1 (o ++ sort_opts rest)), (pos_of 3 (o ++ sort_opts rest)); simpl in G; try contradiction.
  apply Nat.ltb_lt. exact G.
Qed.

(* ---------------------------------------------------------------- *)
(* C12 over all histories *)

Lemma good_cases c s o s' r :
  reply_good c s o s' r ->
  exists m, op_msg o = Some m /\
    let s0 := parse_effect c s m in
    let b := sess_captured (ss s0) (m_chaddr m) in
    ((exists x, r = mk_reply c ROffer m x b /\ addr_good c s0 (m_chaddr m) (getcid m) x s') \/
     r = mk_reply c RNak m 0 b \/
     (exists x, r = mk_reply c RAck m x b /\ addr_good c s0 (m_chaddr m) (getcid m) x s' /\ ack_facts c (op_now o) s0 m x)).
Proof.
  intros [m [Hm G]]. exists m. split; auto. destruct G as [G|[_ [G|G]]]; auto.
Qed.

Theorem subnet_all : forall c h t m r,
  cfg_ok c -> In t (trace c (init c) h) -> op_msg (t_op t) = Some m -> t_reply t = Some r ->
  c12_subnet c (t_pre t) m r = true.
Proof.
  intros c h t m r Hc Hin Hm Hr. destruct (trace_reply c h t r Hin Hr) as [_ [_ G]].
  apply good_cases in G as [m' [Hm' G]]. rewrite Hm in Hm'. inversion Hm'; subst m'.
  unfold c12_subnet, client_net, sess_at.
  destruct G as [[x [E A]]|[E|[x [E [A _]]]]]; subst r.
  - destruct (subnet_of_good c _ m x _ ROffer Hc ltac:(discriminate) A) as [G1 [G2 [G3 [G4 [G5 [G6 [G7 G8]]]]]]].
    cbv zeta in *. rewrite G1, G2, G3, G4, G5, G6, G7, G8, !N.eqb_refl. reflexivity.
  - reflexivity.
  - destruct (subnet_of_good c _ m x _ RAck Hc ltac:(discriminate) A) as [G1 [G2 [G3 [G4 [G5 [G6 [G7 G8]]]]]]].
    cbv zeta in *. rewrite G1, G2, G3, G4, G5, G6, G7, G8, !N.eqb_refl. reflexivity.
Qed.

Theorem mask_first_all : forall c h t m r,
  In t (trace c (init c) h) -> op_msg (t_op t) = Some m -> t_reply t = Some r ->
  c12_mask_first r = true.
Proof.
  intros c h t m r Hin Hm Hr. destruct (trace_reply c h t r Hin Hr) as [_ [_ G]].
  apply good_cases in G as [m' [Hm' G]]. rewrite Hm in Hm'. inversion Hm'; subst m'.
  destruct G as [[x [E A]]|[E|[x [E [A _]]]]]; subst r.
  - apply mask_first_reply; auto. discriminate.
  - reflexivity.
  - apply mask_first_reply; auto. discriminate.
Qed.

Lemma ack_of_good c s o s' r m :
  reply_good c s o s' r -> op_msg o = Some m -> is_ack r = true ->
  exists x, r_yi r = x /\ addr_good c (parse_effect c s m) (m_chaddr m) (getcid m) x s' /\
            ack_facts c (op_now o) (parse_effect c s m) m x.
Proof.
  intros G Hm Ha. apply good_cases in G as [m' [Hm' G]]. rewrite Hm in Hm'. inversion Hm'; subst m'.
  destruct G as [[x [E A]]|[E|[x [E [A F]]]]]; subst r; try discriminate.
  exists x. auto.
Qed.

Theorem ack_matches_all : forall c h t m r,
  In t (trace c (init c) h) -> op_msg (t_op t) = Some m -> t_reply t = Some r ->
  c12_ack_matches (t_pre t) m r = true.
Proof.
  intros c h t m r Hin Hm Hr. destruct (trace_reply c h t r Hin Hr) as [_ [_ G]].
  unfold c12_ack_matches. destruct (is_ack r) eqn:Ha; auto. simpl.
  destruct (ack_of_good _ _ _ _ _ m G Hm Ha) as [x [Hx [_ [[l0 [T [_ St]]] _]]]].
  rewrite parse_tbl in T. rewrite T, Hx.
  destruct St as [[S [X O]]|[S [I _]]]; rewrite S; simpl.
  - rewrite X, O. simpl. rewrite !N.eqb_refl. reflexivity.
  - rewrite I. simpl. rewrite N.eqb_refl. reflexivity.
Qed.

Theorem no_ack_when_all : forall c h t m,
  sub_ok c -> In t (trace c (init c) h) -> op_msg (t_op t) = Some m ->
  c12_no_ack_when c (t_pre t) m (op_now (t_op t)) (t_reply t) = true.
Proof.
  intros c h t m Hok Hin Hm. unfold c12_no_ack_when.
  destruct (t_reply t) as [r|] eqn:Hr; [|apply orb_true_r].
  destruct (is_ack r) eqn:Ha; [|apply orb_true_r]. simpl. rewrite orb_false_r. apply negb_true_iff.
  destruct (trace_reply c h t r Hin Hr) as [_ [_ G]].
  destruct (ack_of_good _ _ _ _ _ m G Hm Ha) as [x [Hx [[[P _] _] [[l0 [T [M St]]] [As Os]]]]].
  rewrite parse_tbl in T.
  assert (Os' : other_server c m = false).
  { unfold other_server. destruct (m_sid m) as [v|]; auto. rewrite (ok_server _ _ Hok) in Os.
    destruct Os as [Os|Os]; subst v; [reflexivity|]. rewrite N.eqb_refl. apply andb_false_r. }
  unfold cannot_honour, lease_unknown, lease_expired, lease_mismatch, outside_subnet, client_net, sess_at.
  rewrite Os', T, As, M, N.eqb_refl. rewrite <- (ok_contains _ _ _ Hok). rewrite (in_pool_contains _ _ _ P).
  destruct St as [[S [X O]]|[S [I Ex]]]; rewrite S; simpl.
  - rewrite O. simpl. rewrite N.eqb_refl. reflexivity.
  - rewrite I, Ex. simpl. rewrite N.eqb_refl. reflexivity.
Qed.

(* ---------------------------------------------------------------- *)
(* a handler built on an existing lease file: whatever the file holds, the subnets in force are
   those of the new configuration, parameter by parameter (kept only when equal, else rebuilt) *)
Lemma sub_ok_wanted c : sub_ok (set_sub c (wanted c)).
Proof. unfold sub_ok, set_sub, wanted. simpl. repeat split; reflexivity. Qed.

Theorem loaded_sub_ok : forall file cB, sub_ok (loaded_cfg file cB).
Proof.
  intros file cB. unfold loaded_cfg. destruct (sub_changed (wanted cB) file) eqn:E.
  - apply sub_ok_wanted.
  - unfold sub_changed in E. apply negb_false_iff in E.
    repeat (apply andb_true_iff in E; let H := fresh "E" in destruct E as [E H]; apply N.eqb_eq in H).
    apply N.eqb_eq in E. unfold wanted in *. simpl in *.
    unfold sub_ok, set_sub. simpl. repeat split; congruence.
Qed.

Theorem loaded_cfg_ok : forall file cB, c_nfip cB = c_hostip cB -> cfg_ok (loaded_cfg file cB).
Proof. intros file cB H. split; [apply loaded_sub_ok|]. unfold loaded_cfg, set_sub. simpl. exact H. Qed.

(* when the file's subnets are not kept, the handler starts from scratch *)
Theorem loaded_reset : forall file cB,
  sub_changed (wanted cB) file = true -> loaded_cfg file cB = set_sub cB (wanted cB).
Proof. intros file cB H. unfold loaded_cfg. rewrite H. reflexivity. Qed.

Theorem restart_reset : forall file cB,
  sub_changed (wanted cB) file = true ->
  loaded_cfg file cB = set_sub cB (wanted cB) /\ forall saved, restart_state file cB [] saved = init (loaded_cfg file cB).
Proof.
  intros file cB H. split; [exact (loaded_reset file cB H)|].
  intros saved. unfold restart_state. rewrite H. reflexivity.
Qed.

(* ---------------------------------------------------------------- *)
(* The configuration carried by OFFER/ACK from ANY state (no invariant needed): in particular from
   the table a restarted handler restores from its lease file. *)

Lemma discover_shape c ch now s0 m s' r :
  handleDiscover c ch now s0 m = (s', Some r) ->
  exists x, r = mk_reply c ROffer m x (sess_captured (ss s0) (m_chaddr m)).
Proof.
  unfold handleDiscover.
  destruct (findOrCreate c s0 (getcid m) (m_chaddr m)) as [s1 l] eqn:F.
  apply foc_spec in F as [_ [_ [_ [_ [_ [Hn _]]]]]].
  destruct (reset_props now l m) as [_ [_ [Rn _]]].
  set (l0 := discover_reset now l m) in *.
  set (l1 := match l_offer l0 with Some x => if taken s1 l0 x then set_offer l0 None else l0 | None => l0 end).
  assert (Pn : l_net2 l1 = sess_captured (ss s0) (m_chaddr m)).
  { unfold l1. destruct (l_offer l0) as [x|]; [destruct (taken s1 l0 x)|]; simpl; congruence. }
  destruct (l_offer l1) as [x|].
  - intros H. apply pair_equal_spec in H as [_ H]. inversion H. exists x. simpl. rewrite Pn. reflexivity.
  - destruct (allocIPOffer c ch (put s1 l1) l1 (m_req m)) as [[x|] s2].
    + intros H. apply pair_equal_spec in H as [_ H]. inversion H. exists x. simpl. rewrite Pn. reflexivity.
    + intros H. apply pair_equal_spec in H as [_ H]. discriminate.
Qed.

Lemma do_ack_shape c now m s l s' r :
  do_ack c now m s l = (s', Some r) -> exists x, r = mk_reply c RAck m x (l_net2 l).
Proof.
  unfold do_ack. destruct (l_state l); intros H; apply pair_equal_spec in H as [_ H]; inversion H;
    eexists; reflexivity.
Qed.

Lemma request_shape c now s0 m s' r :
  handleRequest c now s0 m = (s', Some r) ->
  r = mk_reply c RNak m 0 (sess_captured (ss s0) (m_chaddr m)) \/
  exists x, r = mk_reply c RAck m x (sess_captured (ss s0) (m_chaddr m)).
Proof.
  unfold handleRequest.
  destruct (classify m) as [oper req].
  destruct (req =? 0); [intros H; apply pair_equal_spec in H as [_ H]; discriminate|].
  destruct (findOrCreate c s0 (getcid m) (m_chaddr m)) as [s1 l] eqn:F.
  apply foc_spec in F as [_ [_ [_ [_ [_ [Hn _]]]]]].
  assert (A : forall s2 s'' , do_ack c now m s2 l = (s'', Some r) ->
              r = mk_reply c RNak m 0 (sess_captured (ss s0) (m_chaddr m)) \/
              exists x, r = mk_reply c RAck m x (sess_captured (ss s0) (m_chaddr m))).
  { intros s2 s'' H. right. apply do_ack_shape in H as [x H]. exists x. rewrite <- Hn. exact H. }
  assert (K : forall (s2 : dstate), (s2, Some (mk_reply c RNak m 0 (sess_captured (ss s0) (m_chaddr m)))) = (s', Some r) ->
              r = mk_reply c RNak m 0 (sess_captured (ss s0) (m_chaddr m)) \/
              exists x, r = mk_reply c RAck m x (sess_captured (ss s0) (m_chaddr m))).
  { intros s2 H. apply pair_equal_spec in H as [_ H]. inversion H. left. reflexivity. }
  destruct oper;
    repeat match goal with
           | |- context [if ?b then _ else _] => destruct b
           end;
    intros H; try (apply (K _ H)); try (apply (A _ _ H));
    try (apply pair_equal_spec in H as [_ H]; discriminate).
Qed.

Lemma decline_any c s0 m : snd (handleDecline c s0 m) = None.
Proof.
  unfold handleDecline. destruct (findOrCreate c s0 (getcid m) (m_chaddr m)) as [s1 l].
  destruct (negb _); simpl; auto. destruct (_ || _); reflexivity.
Qed.

Lemma step_shape c ch s o s' r :
  step c ch s o = (s', Some r) ->
  exists m, op_msg o = Some m /\
    let b := sess_captured (sess_at c s m) (m_chaddr m) in
    (r = mk_reply c RNak m 0 b \/ exists t x, t <> RNak /\ r = mk_reply c t m x b).
Proof.
  destruct o as [now m|now m|m|m|x|x|now|k tt]; simpl; intros H.
  - exists m. split; auto. apply discover_shape in H as [x H]. right. exists ROffer, x. split; [discriminate|exact H].
  - exists m. split; auto. apply request_shape in H as [H|[x H]]; [left; exact H|].
    right. exists RAck, x. split; [discriminate|exact H].
  - pose proof (decline_any c (parse_effect c s m) m) as D. rewrite H in D. discriminate.
  - unfold handleRelease in H. destruct (findOrCreate _ _ _ _). apply pair_equal_spec in H as [_ H]. discriminate.
  - apply pair_equal_spec in H as [_ H]. discriminate.
  - apply pair_equal_spec in H as [_ H]. discriminate.
  - apply pair_equal_spec in H as [_ H]. discriminate.
  - apply pair_equal_spec in H as [_ H]. discriminate.
Qed.

Lemma config_of_reply c t m x b :
  cfg_ok c -> t <> RNak ->
  let r := mk_reply c t m x b in
  obeqb (opt 3 r) (ipb (want_router c b)) = true /\
  obeqb (opt 6 r) (ipb (want_dns c b)) = true /\
  obeqb (opt 1 r) (ipb (pmask (want_bits c b))) = true /\
  obeqb (opt 54 r) (ipb (c_hostip c)) = true /\
  obeqb (opt 51 r) (ipb 14400) = true /\
  r_xid r = m_xid m /\ r_chaddr r = m_chaddr m.
Proof.
  intros [Hok Hc] Ht r. unfold r.
  rewrite !lease_reply_opts by exact Ht.
  assert (E3 : alookup 3 (lease_opts c b (match t with ROffer => 2 | RAck => 5 | RNak => 6 end)) = Some (ipb (n_gw c b)))
    by (unfold lease_opts, n_options; destruct b; reflexivity).
  assert (E6 : alookup 6 (lease_opts c b (match t with ROffer => 2 | RAck => 5 | RNak => 6 end)) = Some (ipb (n_dns c b)))
    by (unfold lease_opts, n_options; destruct b; reflexivity).
  assert (E1 : alookup 1 (lease_opts c b (match t with ROffer => 2 | RAck => 5 | RNak => 6 end)) = Some (ipb (pmask (n_bits c b))))
    by (unfold lease_opts, n_options; destruct b; reflexivity).
  assert (E54 : alookup 54 (lease_opts c b (match t with ROffer => 2 | RAck => 5 | RNak => 6 end)) = Some (ipb (n_server c b)))
    by (unfold lease_opts, n_options; destruct b; reflexivity).
  assert (E51 : alookup 51 (lease_opts c b (match t with ROffer => 2 | RAck => 5 | RNak => 6 end)) = Some (ipb 14400))
    by (unfold lease_opts, n_options; destruct b; reflexivity).
  rewrite E3, E6, E1, E54, E51.
  rewrite (ok_gw c b Hok), (ok_dns c b Hok), (ok_bits c b Hok), (ok_server c b Hok).
  assert (W : (if b then c_nfip c else c_routerip c) = want_router c b) by (unfold want_router; destruct b; auto).
  rewrite W. simpl. rewrite !beqb_refl. repeat split; reflexivity.
Qed.

Lemma trace_in_step c h : forall s t, In t (trace c s h) ->
  step c (t_ch t) (t_pre t) (t_op t) = (t_post t, t_reply t).
Proof.
  induction h as [|[ch o] r IH]; intros s t Hin; [destruct Hin|].
  simpl in Hin. destruct (step c ch s o) as [s1 rp] eqn:E. destruct Hin as [Hin|Hin].
  - subst t. simpl. exact E.
  - apply (IH s1). exact Hin.
Qed.

(* from ANY start state s (e.g. the table restored from a lease file), along every history *)
Theorem reply_config_any_state : forall c s h t m r,
  cfg_ok c -> In t (trace c s h) -> op_msg (t_op t) = Some m -> t_reply t = Some r ->
  c12_config c (t_pre t) m r = true /\ c12_mask_first r = true.
Proof.
  intros c s h t m r Hc Hin Hm Hr. pose proof (trace_in_step c h s t Hin) as E. rewrite Hr in E.
  apply step_shape in E as [m' [Hm' G]]. rewrite Hm in Hm'. inversion Hm'; subst m'. cbv zeta in G.
  destruct G as [G|[t0 [x [Ht G]]]]; subst r.
  - split; reflexivity.
  - split; [|apply mask_first_reply; exact Ht].
    unfold c12_config, client_net.
    destruct (config_of_reply c t0 m x (sess_captured (sess_at c (t_pre t) m) (m_chaddr m)) Hc Ht)
      as [G2 [G3 [G4 [G5 [G6 [G7 G8]]]]]].
    cbv zeta in *. rewrite G2, G3, G4, G5, G6, G7, G8, !N.eqb_refl. apply orb_true_r.
Qed.

(* the restarted handler: whatever the file held, whatever was restored *)
Theorem restart_reply_config : forall file cB pre saved h t m r,
  c_nfip cB = c_hostip cB ->
  let cL := loaded_cfg file cB in
  In t (trace cL (restart_state file cB pre saved) h) -> op_msg (t_op t) = Some m -> t_reply t = Some r ->
  c12_config cL (t_pre t) m r = true /\ c12_mask_first r = true.
Proof.
  intros file cB pre saved h t m r Hn cL Hin Hm Hr.
  apply (reply_config_any_state cL (restart_state file cB pre saved) h t m r); auto.
  apply loaded_cfg_ok. exact Hn.
Qed.

(* ---------------------------------------------------------------- *)
(* what the server promised against what it records: every ACK, from any state *)

Lemma granted_of_reply c t m x b : t <> RNak -> granted_secs (mk_reply c t m x b) = lease_secs.
Proof.
  intros Ht. unfold granted_secs. rewrite (lease_reply_opts c t m x b 51 Ht).
  assert (E51 : alookup 51 (lease_opts c b (match t with ROffer => 2 | RAck => 5 | RNak => 6 end)) = Some (ipb 14400))
    by (unfold lease_opts, n_options; destruct b; reflexivity).
  rewrite E51. vm_compute. reflexivity.
Qed.

Lemma do_ack_record c now m s l s' r :
  do_ack c now m s l = (s', Some r) ->
  exists l3, tget (l_cid l) (tbl s') = Some l3 /\ l_state l3 = SAllocated /\
             l_exp l3 = (now + lease_secs)%Z /\ granted_secs r = lease_secs /\
             r_yi r = match l_ip l3 with Some y => y | None => 0 end.
Proof.
  unfold do_ack.
  set (l2 := match l_state l with SDiscover => set_offer (set_ip l (l_offer l)) None | _ => l end).
  assert (Hk : l_cid l2 = l_cid l) by (unfold l2; destruct (l_state l); reflexivity).
  set (l3 := set_exp (set_state l2 SAllocated) (now + lease_secs)%Z).
  intros H. apply pair_equal_spec in H as [Hs Hr]. exists l3. subst s'.
  split; [|split; [reflexivity|split; [reflexivity|split]]].
  - unfold set_ss, put, set_tbl, tset. cbn [tbl tget]. change (l_cid l3) with (l_cid l2). rewrite Hk, N.eqb_refl. reflexivity.
  - inversion Hr. apply granted_of_reply. discriminate.
  - inversion Hr. reflexivity.
Qed.

Lemma request_ack_record c now s0 m s' r :
  handleRequest c now s0 m = (s', Some r) -> is_ack r = true ->
  exists l3, tget (getcid m) (tbl s') = Some l3 /\ l_state l3 = SAllocated /\
             l_exp l3 = (now + lease_secs)%Z /\ granted_secs r = lease_secs /\
             r_yi r = match l_ip l3 with Some y => y | None => 0 end.
Proof.
  unfold handleRequest.
  destruct (classify m) as [oper req].
  destruct (req =? 0); [intros H; apply pair_equal_spec in H as [_ H]; discriminate|].
  destruct (findOrCreate c s0 (getcid m) (m_chaddr m)) as [s1 l] eqn:F.
  apply foc_spec in F as [_ [_ [_ [Hk _]]]].
  assert (A : forall s2 s'', do_ack c now m s2 l = (s'', Some r) -> s'' = s' ->
              exists l3, tget (getcid m) (tbl s') = Some l3 /\ l_state l3 = SAllocated /\
                         l_exp l3 = (now + lease_secs)%Z /\ granted_secs r = lease_secs /\
                         r_yi r = match l_ip l3 with Some y => y | None => 0 end).
  { intros s2 s'' H E. subst s''. rewrite <- Hk. apply (do_ack_record c now m s2 l s' r H). }
  assert (K : forall (s2 : dstate) b, (s2, Some (mk_reply c RNak m 0 b)) = (s', Some r) -> is_ack r = true -> False).
  { intros s2 b H Ha. apply pair_equal_spec in H as [_ H]. inversion H. subst r. discriminate. }
  destruct oper;
    repeat match goal with
           | |- context [if ?b then _ else _] => destruct b
           end;
    intros H Ha;
    try (exfalso; apply (K _ _ H Ha));
    try (apply pair_equal_spec in H as [_ H]; discriminate);
    try (assert (E := H); apply pair_equal_spec in E as [E _];
         match type of H with do_ack _ _ _ ?s2 _ = _ => apply (A s2 s' H eq_refl) end).
Qed.

(* every ACK along every history from ANY state: the binding is recorded until now + the granted time *)
Theorem record_covers_any_state : forall c s h t, In t (trace c s h) -> record_covers_grant t = true.
Proof.
  intros c s h t Hin. pose proof (trace_in_step c h s t Hin) as E. unfold record_covers_grant.
  destruct (op_msg (t_op t)) as [m|] eqn:Hm; auto.
  destruct (t_reply t) as [r|] eqn:Hr; auto.
  destruct (is_ack r) eqn:Ha; auto.
  destruct (t_op t) as [now m'|now m'|m'|m'|x|x|now|k te] eqn:O; simpl in Hm; inversion Hm; subst m'; simpl in E.
  - apply discover_shape in E as [x E]. subst r. discriminate.
  - destruct (request_ack_record c now _ m _ r E Ha) as [l3 [T [S [X [G _]]]]].
    rewrite T, S, X, G. simpl. apply Z.leb_refl.
  - pose proof (decline_any c (parse_effect c (t_pre t) m) m) as D. rewrite E in D. discriminate.
  - unfold handleRelease in E. destruct (findOrCreate _ _ _ _). apply pair_equal_spec in E as [_ E]. discriminate.
Qed.
