(* Proofs/ViewsGlue.v -- the link between Session.Parse (PARSE cluster, Model/Parse.v, read-only here) and the
   view theorems: (1) the validators Parse calls internally are the views' IsValid (same verdict on every
   well-formed slice, for the repaired variants that /repo has: fx = all true); (2) for every frame that the
   Parse model accepts, each layer view it exposes through the Frame accessors (Ether, IP4, IP6, UDP, TCP at the
   model's offsets) satisfies the view's IsValid -- so every C01/C02 getter theorem applies to the views obtained
   from Parse. *)
From PV Require Import Proofs.ViewsBase Proofs.Views Proofs.Views2.
From PV Require Model.Parse.
Module P := PV.Model.Parse.
Open Scope N_scope.

Definition fx_now : P.fixes := P.mkFixes true true true.

Definition verdict {A} (r : res A) : res bool :=
  match r with Ok _ => Ok true | Err _ => Ok false | Panic => Panic | Fuel => Fuel end.

Ltac ag_go :=
  slices;
  first [ reflexivity
        | match goal with |- context [if ?c then _ else _] => destruct c eqn:? end; ag_go
        | f_equal; lia
        | exfalso; lia ].

(* ---- (1) validators agree ---- *)
Lemma ether_valid_agree s : Ether_IsValid s = verdict (P.ether_is_valid s).
Proof. unfold Ether_IsValid, P.ether_is_valid, verdict, lenN. ag_go. Qed.

Lemma udp_valid_agree s : UDP_IsValid s = verdict (P.udp_is_valid s).
Proof. unfold UDP_IsValid, P.udp_is_valid, verdict, lenN. ag_go. Qed.

Lemma icmp_valid_agree s : ICMP_IsValid s = verdict (P.icmp_is_valid s).
Proof. unfold ICMP_IsValid, P.icmp_is_valid, verdict, lenN. ag_go. Qed.

Lemma shr4_div16 : forall b, b < 256 -> N.shiftr b 4 * 4 = 4 * (b / 16).
Proof. sweep. Qed.

Lemma tcp_valid_agree s : wf s -> bytes_ok (arr s) -> TCP_IsValid s = verdict (P.tcp_is_valid fx_now s).
Proof.
  intros W B. unfold wf in W. unfold TCP_IsValid, P.tcp_is_valid, TCP_HeaderLen_n, verdict, andr, lenN, fx_now. cbn [P.fx_tcp].
  destruct (Nat.leb_spec 20 (len s)); destruct (20 <=? N.of_nat (len s)) eqn:E; try lia; cbn [bind]; [|reflexivity].
  slices. rewrite (shr4_div16 _ (bytes_ok_nth (arr s) 12 B)). ag_go.
Qed.

Lemma ip6_valid_agree s : wf s -> IP6_IsValid s = verdict (P.ip6_is_valid fx_now s).
Proof.
  intros W. unfold wf in W. unfold IP6_IsValid, P.ip6_is_valid, IP6_PayloadLen_n, verdict, andr, lenN, fx_now. cbn [P.fx_ip6].
  destruct (Nat.leb_spec 40 (len s)); destruct (40 <=? N.of_nat (len s)) eqn:E; try lia; cbn [bind]; [|reflexivity].
  ag_go.
Qed.

Lemma ip4_valid_agree s : wf s -> IP4_IsValid s = verdict (P.ip4_is_valid fx_now s).
Proof.
  intros W. unfold wf in W.
  unfold IP4_IsValid, P.ip4_is_valid, P.ip4_ihl, P.ip4_totallen, IP4_IHL_n, IP4_TotalLen_n, verdict, andr, orr, lenN, fx_now. cbn [P.fx_ip4].
  destruct (Nat.leb_spec 20 (len s)); destruct (20 <=? N.of_nat (len s)) eqn:E; try lia; cbn [bind].
  - ag_go.
  - destruct (N.of_nat (len s) <? 20) eqn:E2; [reflexivity|lia].
Qed.

(* ---- (2) the views exposed by an accepted frame are valid ---- *)
Lemma bind_ok {A B} (e : res A) (k : A -> res B) b : bind e k = Ok b -> exists a, e = Ok a /\ k a = Ok b.
Proof. destruct e; cbn; intros H; try discriminate. eauto. Qed.

Lemma verdict_ok {A} (r : res A) a : r = Ok a -> verdict r = Ok true.
Proof. intros ->. reflexivity. Qed.

Definition views_valid (s : slice) (f : P.frame) : Prop :=
  Ether_IsValid s = Ok true /\
  (forall x, P.frame_ip4 s f = Ok (Some x) -> IP4_IsValid x = Ok true) /\
  (forall x, P.frame_ip6 s f = Ok (Some x) -> IP6_IsValid x = Ok true) /\
  (forall x, P.frame_udp s f = Ok (Some x) -> UDP_IsValid x = Ok true) /\
  (forall x, P.frame_tcp s f = Ok (Some x) -> TCP_IsValid x = Ok true).

(* the view an accessor returns at a non-zero offset is the payload view Parse validated at that offset *)
Lemma acc_is_payload s o x f : P.acc_at s o = Ok (Some x) -> P.f_offP f = o -> P.payload_view s f = Ok x.
Proof.
  unfold P.payload_view, P.frame_payload, P.acc_at. intros H ->. destruct (Nat.eqb o 0); [discriminate|].
  destruct (slfrom s o) as [y| | |]; cbn [bind] in *; try discriminate. injection H as <-. reflexivity.
Qed.

Lemma acc_zero s x : P.acc_at s 0 = Ok (Some x) -> False.
Proof. unfold P.acc_at. cbn. discriminate. Qed.

Lemma wf_acc s o x : wf s -> P.acc_at s o = Ok (Some x) -> wf x.
Proof.
  unfold P.acc_at, slfrom. intros W. destruct (Nat.eqb o 0); [discriminate|].
  destruct (Nat.leb_spec o (len s)); cbn [bind]; [|discriminate]. intros HH. injection HH as <-.
  unfold wf, cap in *. cbn [arr len]. rewrite skipn_length. lia.
Qed.

Lemma bytes_ok_acc s o x : bytes_ok (arr s) -> P.acc_at s o = Ok (Some x) -> bytes_ok (arr x).
Proof.
  unfold P.acc_at, slfrom. intros B. destruct (Nat.eqb o 0); [discriminate|].
  destruct (Nat.leb o (len s)); cbn [bind]; [|discriminate]. intros H. injection H as <-. cbn [arr]. apply bytes_ok_skipn. exact B.
Qed.

(* what the transport cases do to the offsets, and what they validated *)
Definition same_ip (f f' : P.frame) : Prop := P.f_off4 f' = P.f_off4 f /\ P.f_off6 f' = P.f_off6 f.

Lemma parse_udp_inv s f f' : P.parse_udp s f = Ok f' ->
  same_ip f f' /\ P.f_offT f' = P.f_offT f /\ P.f_offU f' = P.f_offP f /\
  exists p, P.payload_view s f = Ok p /\ P.udp_is_valid p = Ok tt.
Proof.
  unfold P.parse_udp. intros H.
  apply bind_ok in H as (p & Hp & H). apply bind_ok in H as ([] & Hv & H).
  apply bind_ok in H as (sp & _ & H). apply bind_ok in H as (dp & _ & H).
  assert (Hp' : P.payload_view s f = Ok p) by exact Hp.
  destruct (P.udp_class sp dp); injection H as <-; cbn; repeat split; eauto.
Qed.

Lemma parse_tcp_inv fx s f f' : P.parse_tcp fx s f = Ok f' ->
  same_ip f f' /\ P.f_offU f' = P.f_offU f /\ P.f_offT f' = P.f_offP f /\
  exists p, P.payload_view s f = Ok p /\ P.tcp_is_valid fx p = Ok tt.
Proof.
  unfold P.parse_tcp. intros H.
  apply bind_ok in H as (p & Hp & H). apply bind_ok in H as ([] & Hv & H).
  apply bind_ok in H as (sp & _ & H). apply bind_ok in H as (dp & _ & H).
  assert (Hp' : P.payload_view s f = Ok p) by exact Hp.
  injection H as <-; cbn; repeat split; eauto.
Qed.

Lemma parse_icmp_inv s f r id f' : P.parse_icmp s f r id = Ok f' ->
  same_ip f f' /\ P.f_offU f' = P.f_offU f /\ P.f_offT f' = P.f_offT f.
Proof.
  unfold P.parse_icmp. intros H.
  apply bind_ok in H as (p & _ & H). apply bind_ok in H as ([] & _ & H). apply bind_ok in H as (t & _ & H).
  apply bind_ok in H as (f1 & H1 & H). injection H as <-.
  destruct ((t =? r) && P.echo_gate s f id)%bool.
  - apply bind_ok in H1 as ([] & _ & H1). apply bind_ok in H1 as (e & _ & H1). injection H1 as <-. cbn. repeat split.
  - injection H1 as <-. cbn. repeat split.
Qed.

Lemma parse_proto_inv s f proto f' : wf s -> bytes_ok (arr s) ->
  P.f_offU f = 0%nat -> P.f_offT f = 0%nat -> P.parse_proto fx_now s f proto = Ok f' ->
  same_ip f f' /\
  (forall x, P.frame_udp s f' = Ok (Some x) -> UDP_IsValid x = Ok true) /\
  (forall x, P.frame_tcp s f' = Ok (Some x) -> TCP_IsValid x = Ok true).
Proof.
  intros W B HU HT. unfold P.parse_proto, P.frame_udp, P.frame_tcp.
  destruct (P.lookup_row proto P.ipproto_rows) as [id|].
  2:{ intros H. injection H as <-. rewrite HU, HT. repeat split; intros x Hx; destruct (acc_zero _ _ Hx). }
  destruct (id =? P.PayloadUDP).
  { intros H. apply parse_udp_inv in H as (SI & ET & EU & p & Hp & Hv). rewrite ET, EU, HT.
    split; [exact SI|]. split; intros x Hx; [|destruct (acc_zero _ _ Hx)].
    rewrite (acc_is_payload s _ x f Hx eq_refl) in Hp. injection Hp as ->.
    rewrite udp_valid_agree. apply (verdict_ok _ _ Hv). }
  destruct (id =? P.PayloadTCP).
  { intros H. apply parse_tcp_inv in H as (SI & EU & ET & p & Hp & Hv). rewrite ET, EU, HU.
    split; [exact SI|]. split; intros x Hx; [destruct (acc_zero _ _ Hx)|].
    pose proof (wf_acc s _ x W Hx) as Wx. pose proof (bytes_ok_acc s _ x B Hx) as Bx.
    rewrite (acc_is_payload s _ x f Hx eq_refl) in Hp. injection Hp as ->.
    rewrite tcp_valid_agree by assumption. apply (verdict_ok _ _ Hv). }
  destruct (id =? P.PayloadICMP4).
  { intros H. apply parse_icmp_inv in H as (SI & EU & ET). rewrite ET, EU, HU, HT.
    split; [exact SI|]. split; intros x Hx; destruct (acc_zero _ _ Hx). }
  destruct (id =? P.PayloadICMP6).
  { intros H. apply parse_icmp_inv in H as (SI & EU & ET). rewrite ET, EU, HU, HT.
    split; [exact SI|]. split; intros x Hx; destruct (acc_zero _ _ Hx). }
  intros H. injection H as <-. cbn. rewrite HU, HT. repeat split; intros x Hx; destruct (acc_zero _ _ Hx).
Qed.

Definition fx_cfg (c : P.cfg) : Prop := P.c_fx c = fx_now.

Lemma parse_ip4_inv c s f f' : fx_cfg c -> wf s -> bytes_ok (arr s) -> P.parse_ip4 c s f = Ok f' ->
  (forall x, P.frame_ip4 s f' = Ok (Some x) -> IP4_IsValid x = Ok true) /\
  (forall x, P.frame_ip6 s f' = Ok (Some x) -> IP6_IsValid x = Ok true) /\
  (forall x, P.frame_udp s f' = Ok (Some x) -> UDP_IsValid x = Ok true) /\
  (forall x, P.frame_tcp s f' = Ok (Some x) -> TCP_IsValid x = Ok true).
Proof.
  intros FX W B. unfold P.parse_ip4. rewrite FX. intros H.
  apply bind_ok in H as (p & Hp & H). apply bind_ok in H as ([] & Hv & H).
  apply bind_ok in H as (ihl & _ & H). apply bind_ok in H as (proto & _ & H).
  apply bind_ok in H as (sip & _ & H). apply bind_ok in H as (dip & _ & H).
  apply parse_proto_inv in H as ((E4 & E6) & HUv & HTv); try assumption; try reflexivity.
  cbn [P.f_off4 P.f_off6] in E4, E6. unfold P.frame_ip4, P.frame_ip6. rewrite E4, E6.
  split; [|split; [intros x Hx; destruct (acc_zero _ _ Hx)|split; assumption]].
  intros x Hx. pose proof (wf_acc s _ x W Hx) as Wx.
  assert (Hp' : P.payload_view s f = Ok p) by exact Hp.
  rewrite (acc_is_payload s _ x f Hx eq_refl) in Hp'. injection Hp' as ->.
  rewrite ip4_valid_agree by assumption. apply (verdict_ok _ _ Hv).
Qed.

Lemma parse_ip6_inv c s f f' : fx_cfg c -> wf s -> bytes_ok (arr s) -> P.parse_ip6 c s f = Ok f' ->
  (forall x, P.frame_ip4 s f' = Ok (Some x) -> IP4_IsValid x = Ok true) /\
  (forall x, P.frame_ip6 s f' = Ok (Some x) -> IP6_IsValid x = Ok true) /\
  (forall x, P.frame_udp s f' = Ok (Some x) -> UDP_IsValid x = Ok true) /\
  (forall x, P.frame_tcp s f' = Ok (Some x) -> TCP_IsValid x = Ok true).
Proof.
  intros FX W B. unfold P.parse_ip6. rewrite FX. intros H.
  apply bind_ok in H as (p & Hp & H). apply bind_ok in H as ([] & Hv & H).
  apply bind_ok in H as (proto & _ & H).
  apply bind_ok in H as (sip & _ & H). apply bind_ok in H as (dip & _ & H).
  apply parse_proto_inv in H as ((E4 & E6) & HUv & HTv); try assumption; try reflexivity.
  cbn [P.f_off4 P.f_off6] in E4, E6. unfold P.frame_ip4, P.frame_ip6. rewrite E4, E6.
  split; [intros x Hx; destruct (acc_zero _ _ Hx)|split; [|split; assumption]].
  intros x Hx. pose proof (wf_acc s _ x W Hx) as Wx.
  assert (Hp' : P.payload_view s f = Ok p) by exact Hp.
  rewrite (acc_is_payload s _ x f Hx eq_refl) in Hp'. injection Hp' as ->.
  rewrite ip6_valid_agree by assumption. apply (verdict_ok _ _ Hv).
Qed.

(* a frame without IP / transport layers exposes none *)
Lemma no_layers s f : P.f_off4 f = 0%nat -> P.f_off6 f = 0%nat -> P.f_offU f = 0%nat -> P.f_offT f = 0%nat ->
  (forall x, P.frame_ip4 s f = Ok (Some x) -> IP4_IsValid x = Ok true) /\
  (forall x, P.frame_ip6 s f = Ok (Some x) -> IP6_IsValid x = Ok true) /\
  (forall x, P.frame_udp s f = Ok (Some x) -> UDP_IsValid x = Ok true) /\
  (forall x, P.frame_tcp s f = Ok (Some x) -> TCP_IsValid x = Ok true).
Proof.
  unfold P.frame_ip4, P.frame_ip6, P.frame_udp, P.frame_tcp. intros -> -> -> ->.
  repeat split; intros x Hx; destruct (acc_zero _ _ Hx).
Qed.

Theorem frame_views_valid c s f : fx_cfg c -> wf s -> bytes_ok (arr s) -> P.parse c s = Ok f -> views_valid s f.
Proof.
  intros FX W B H. unfold P.parse in H.
  apply bind_ok in H as ([] & Hev & H). split; [rewrite ether_valid_agree; apply (verdict_ok _ _ Hev)|].
  apply bind_ok in H as (smac & _ & H). apply bind_ok in H as (dmac & _ & H). apply bind_ok in H as (hl & _ & H).
  destruct (Nat.ltb (len s) hl); [discriminate|].
  destruct (negb (P.is_unicast_mac smac)); [injection H as <-; apply no_layers; reflexivity|].
  apply bind_ok in H as (et & _ & H).
  destruct (et <? 1536); [injection H as <-; apply no_layers; reflexivity|].
  destruct (P.lookup_row et P.ethertype_rows) as [id|]; [|injection H as <-; apply no_layers; reflexivity].
  destruct (id =? P.PayloadIP4); [eapply parse_ip4_inv; eassumption|].
  destruct (id =? P.PayloadIP6); [eapply parse_ip6_inv; eassumption|].
  destruct (id =? P.PayloadARP).
  - unfold P.parse_arp in H. apply bind_ok in H as (arp & _ & H). apply bind_ok in H as (bad & _ & H).
    destruct bad; [discriminate|]. apply bind_ok in H as (sip & _ & H). apply bind_ok in H as (host & _ & H).
    injection H as <-. apply no_layers; reflexivity.
  - unfold P.parse_leaf in H. apply bind_ok in H as (hl' & _ & H). injection H as <-. apply no_layers; reflexivity.
Qed.

(* ---- corollaries: the getter theorems apply to the views obtained from Parse ---- *)
Theorem frame_getters_safe c s f : fx_cfg c -> wf s -> bytes_ok (arr s) -> P.parse c s = Ok f ->
  getters_ok Ether_findings Ether_getters s /\
  (forall x, P.frame_ip4 s f = Ok (Some x) -> getters_ok [] IP4_getters x /\ getters_spec [] IP4_getters IP4_specs x) /\
  (forall x, P.frame_ip6 s f = Ok (Some x) -> getters_ok [] IP6_getters x /\ getters_spec [] IP6_getters IP6_specs x) /\
  (forall x, P.frame_udp s f = Ok (Some x) -> getters_ok [] UDP_getters x /\ getters_spec [] UDP_getters UDP_specs x) /\
  (forall x, P.frame_tcp s f = Ok (Some x) -> getters_ok [] TCP_getters x /\ getters_spec [] TCP_getters TCP_specs x).
Proof.
  intros FX W B H. destruct (frame_views_valid c s f FX W B H) as (VE & V4 & V6 & VU & VT).
  split; [apply Ether_safe; assumption|].
  split; [|split; [|split]]; intros x Hx;
    pose proof (wf_acc s _ x W Hx) as Wx; pose proof (bytes_ok_acc s _ x B Hx) as Bx.
  - split; [apply IP4_safe|apply IP4_spec]; auto.
  - split; [apply IP6_safe|apply IP6_spec]; auto.
  - split; [apply UDP_safe|apply UDP_spec]; auto.
  - split; [apply TCP_safe|apply TCP_spec]; auto.
Qed.

(* non-vacuity: an Ethernet / IPv4 / UDP frame (DNS query port) accepted by the Parse model, exposing three views *)
Definition ex_cfg : P.cfg := P.mkCfg [0;85;85;85;85;85] [0;102;102;102;102;102] [192;168;0;0] 24 fx_now.
Definition ex_frame : slice :=
  of_bytes ([2;0;0;0;0;1; 2;0;0;0;0;2; 8;0] ++ [69;0;0;30; 0;0;0;0; 64;17;0;0; 192;168;0;5; 192;168;0;11]
            ++ [192;0;0;53; 0;10;0;0; 1;2])%list.
Example frame_views_valid_ex :
  exists f, P.parse ex_cfg ex_frame = Ok f /\ P.f_off4 f = 14%nat /\ P.f_offU f = 34%nat /\
            (exists x, P.frame_ip4 ex_frame f = Ok (Some x) /\ IP4_IsValid x = Ok true) /\
            (exists x, P.frame_udp ex_frame f = Ok (Some x) /\ UDP_IsValid x = Ok true).
Proof.
  destruct (P.parse ex_cfg ex_frame) as [f| | |] eqn:E; try (vm_compute in E; discriminate).
  exists f. split; [reflexivity|]. vm_compute in E. injection E as <-.
  repeat split; try reflexivity; eexists; split; try reflexivity; vm_compute; reflexivity.
Qed.
