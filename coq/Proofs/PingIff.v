(* Proofs/PingIff.v — identifiers, distinctness, and "nil iff own reply" over all histories. *)
From PV Require Import Base.Prelude Model.Ping Model.PingTrace Proofs.Ping.
Open Scope N_scope.

(* ------------------------------------------------------------------ *)
(* shape of one step (tactic step_cases: Proofs/Ping.v) *)

Lemma step_cnt fx s e s' : step fx s e = Ok s' ->
  cnt s' = cnt s + (match e with Begin _ => 1 | BulkFail n => n | _ => 0 end) /\
  next s' = (match e with Begin _ => u16 (next s + 1) | BulkFail n => u16 (next s + n) | _ => next s end).
Proof. intros H. step_cases H; cbn; split; try reflexivity; lia. Qed.

(* what a call record of the new state is *)
Lemma step_pget fx s e s' : step fx s e = Ok s' ->
  forall q0 pg', pget (pings s') q0 = Some pg' ->
    (exists pg, pget (pings s) q0 = Some pg /\ p_id pg' = p_id pg /\ p_seq pg' = p_seq pg /\
                (outstanding pg' = true -> outstanding pg = true))
    \/ (pget (pings s) q0 = None /\ e = Begin q0 /\ p_id pg' = next s /\ p_seq pg' = cnt s).
Proof.
  intros H q0 pg' Hq. step_cases H; cbn [pings set_pings] in Hq; rewrite ?pget_pset in Hq.
  - destruct (Nat.eqb_spec q0 p).
    + subst. inversion Hq; subst. right. cbn. auto.
    + left. eauto 6.
  - destruct (Nat.eqb_spec q0 p).
    + subst. inversion Hq; subst. left. exists pgp. cbn. unfold outstanding. rewrite Eph. auto.
    + left. eauto 6.
  - destruct (Nat.eqb_spec q0 p).
    + subst. inversion Hq; subst. left. exists pgp. cbn. repeat split; auto; try discriminate.
    + left. eauto 6.
  - left. eauto 6.
  - destruct (Nat.eqb_spec q0 q).
    + subst. inversion Hq; subst. left. exists pgq. cbn. auto.
    + left. eauto 6.
  - left. eauto 6.
  - left. eauto 6.
  - destruct (Nat.eqb_spec q0 p).
    + subst. inversion Hq; subst. left. exists pgp. cbn. unfold outstanding. rewrite Eph. auto.
    + left. eauto 6.
  - destruct (Nat.eqb_spec q0 p).
    + subst. inversion Hq; subst. left. exists pgp. cbn. repeat split; auto; try discriminate.
    + left. eauto 6.
Qed.

(* calls never disappear, keep their id and seq, and never leave Returned *)
Lemma step_pget_fwd fx s e s' : step fx s e = Ok s' ->
  forall q0 pg, pget (pings s) q0 = Some pg ->
    exists pg', pget (pings s') q0 = Some pg' /\ p_id pg' = p_id pg /\ p_seq pg' = p_seq pg /\
                (forall r, p_phase pg = Returned r -> p_phase pg' = Returned r).
Proof.
  intros H q0 pg Hq. step_cases H; cbn [pings set_pings]; rewrite ?pget_pset.
  - destruct (Nat.eqb_spec q0 p); [congruence|]. eauto 6.
  - destruct (Nat.eqb_spec q0 p).
    + subst. rewrite Ep in Hq. inversion Hq; subst. eexists. split; [reflexivity|]. cbn.
      repeat split; auto. intros r Hr. congruence.
    + eauto 6.
  - destruct (Nat.eqb_spec q0 p).
    + subst. rewrite Ep in Hq. inversion Hq; subst. eexists. split; [reflexivity|]. cbn.
      repeat split; auto. intros r Hr. congruence.
    + eauto 6.
  - eauto 6.
  - destruct (Nat.eqb_spec q0 q).
    + subst. rewrite Epq in Hq. inversion Hq; subst. eexists. split; [reflexivity|]. cbn. auto.
    + eauto 6.
  - eauto 6.
  - eauto 6.
  - destruct (Nat.eqb_spec q0 p).
    + subst. rewrite Ep in Hq. inversion Hq; subst. eexists. split; [reflexivity|]. cbn.
      repeat split; auto. intros r Hr. congruence.
    + eauto 6.
  - destruct (Nat.eqb_spec q0 p).
    + subst. rewrite Ep in Hq. inversion Hq; subst. eexists. split; [reflexivity|]. cbn.
      repeat split; auto. intros r Hr. congruence.
    + eauto 6.
Qed.

(* ------------------------------------------------------------------ *)
(* identifier arithmetic (ghost counters) *)

Record Inv2 (n : N) (s : state) : Prop := {
  inv2_next : next s = (n + cnt s) mod 65536;
  inv2_id : forall q pg, pget (pings s) q = Some pg ->
              p_id pg = (n + p_seq pg) mod 65536 /\ p_seq pg < cnt s;
  inv2_inj : forall q1 q2 pg1 pg2, pget (pings s) q1 = Some pg1 -> pget (pings s) q2 = Some pg2 ->
              p_seq pg1 = p_seq pg2 -> q1 = q2
}.

Lemma Inv2_init n : n < 65536 -> Inv2 n (init n).
Proof.
  intros H. constructor; cbn [init next cnt pings pget]; try discriminate.
  rewrite N.add_0_r, N.mod_small; auto.
Qed.

Lemma Inv2_step fx n s e s' : Inv2 n s -> step fx s e = Ok s' -> Inv2 n s'.
Proof.
  intros [Hn Hid Hinj] H. destruct (step_cnt _ _ _ _ H) as [Hc Hnx].
  pose proof (step_pget _ _ _ _ H) as Hp.
  constructor.
  - rewrite Hnx, Hc. destruct e; rewrite ?N.add_0_r; auto; unfold u16; rewrite Hn;
      generalize (cnt s); intros c; lia.
  - intros q pg' Hq. destruct (Hp _ _ Hq) as [(pg & Hq0 & Hi & Hs & _)|(Hq0 & Hq0' & Hi & Hs)].
    + destruct (Hid _ _ Hq0) as [A B]. rewrite Hi, Hs. split; [exact A|]. rewrite Hc. lia.
    + rewrite Hi, Hs, Hn. split; [reflexivity|]. rewrite Hc. subst e. lia.
  - intros q1 q2 pg1 pg2 H1 H2 Es.
    destruct (Hp _ _ H1) as [(pa & Ha & _ & Hsa & _)|(Ha & Ea & _ & Hsa)];
    destruct (Hp _ _ H2) as [(pb & Hb & _ & Hsb & _)|(Hb & Eb & _ & Hsb)].
    + eapply Hinj; eauto. congruence.
    + destruct (Hid _ _ Ha) as [_ L]. lia.
    + destruct (Hid _ _ Hb) as [_ L]. lia.
    + subst e. inversion Eb. reflexivity.
Qed.

Lemma Inv2_run fx n tr s : n < 65536 -> run fx (init n) tr = Ok s -> Inv2 n s.
Proof. intros Hn. apply run_ind; [apply Inv2_init; exact Hn|]. intros; eapply Inv2_step; eauto. Qed.

(* the exact rule: two calls have the same identifier iff their Begin events are a multiple of
   65536 apart *)
Lemma id_equal_iff n s q1 q2 pg1 pg2 : Inv2 n s ->
  pget (pings s) q1 = Some pg1 -> pget (pings s) q2 = Some pg2 ->
  (p_id pg1 = p_id pg2 <-> p_seq pg1 mod 65536 = p_seq pg2 mod 65536).
Proof.
  intros [_ Hid _] H1 H2. destruct (Hid _ _ H1) as [-> _]. destruct (Hid _ _ H2) as [-> _].
  generalize (p_seq pg1) (p_seq pg2). intros a b. split; intros H; lia.
Qed.

Lemma ids_distinct n s q1 q2 pg1 pg2 : Inv2 n s -> young s -> q1 <> q2 ->
  pget (pings s) q1 = Some pg1 -> pget (pings s) q2 = Some pg2 ->
  outstanding pg1 = true -> outstanding pg2 = true -> p_id pg1 <> p_id pg2.
Proof.
  intros HI Hy Hne H1 H2 W1 W2 E.
  apply (proj1 (id_equal_iff _ _ _ _ _ _ HI H1 H2)) in E.
  destruct HI as [_ Hid Hinj].
  assert (Hs : p_seq pg1 <> p_seq pg2) by (intros Es; apply Hne; eapply Hinj; eauto).
  destruct (Hid _ _ H1) as [_ L1]. destruct (Hid _ _ H2) as [_ L2].
  pose proof (Hy _ _ H1 W1) as Y1. pose proof (Hy _ _ H2 W2) as Y2.
  revert E Hs L1 L2 Y1 Y2. generalize (p_seq pg1) (p_seq pg2) (cnt s). intros a b c. lia.
Qed.

Lemma mod_gap m d : 0 < d < 65536 ->
  (m mod 65536 + 65536 - (m + d) mod 65536) mod 65536 = 65536 - d.
Proof. intros H. lia. Qed.

(* the next k identifiers are not held by an outstanding call, as long as the state stays young
   after handing them out *)
Lemma range_fresh n s q pg k : Inv2 n s ->
  pget (pings s) q = Some pg -> cnt s + k - p_seq pg < 65536 -> k <= 65536 ->
  in_range (p_id pg) (next s) k = false.
Proof.
  intros [Hn Hid _] H Y Hk. destruct (Hid _ _ H) as [-> L]. rewrite Hn. unfold in_range.
  revert L Y. generalize (p_seq pg) (cnt s). intros a c L Y.
  apply N.ltb_ge.
  replace (n + c) with (n + a + (c - a)) by lia.
  rewrite mod_gap by lia. lia.
Qed.

Lemma next_fresh n s q pg : Inv2 n s -> young s ->
  pget (pings s) q = Some pg -> outstanding pg = true -> next s <> p_id pg.
Proof.
  intros [Hn Hid _] Hy H W. destruct (Hid _ _ H) as [-> L]. rewrite Hn.
  pose proof (Hy _ _ H W) as Y. revert L Y. generalize (p_seq pg) (cnt s). intros a c. lia.
Qed.

(* ------------------------------------------------------------------ *)
(* every call that is outstanding and has not been woken owns the table entry of its identifier *)

Definition has_entry (s : state) : Prop :=
  forall p pg, pget (pings s) p = Some pg -> outstanding pg = true -> p_recv pg = false ->
               tget (tbl s) (p_id pg) = Some p.

Lemma has_entry_step fx n s e s' :
  Inv s -> Inv2 n s -> young s -> young s' -> has_entry s -> step fx s e = Ok s' -> has_entry s'.
Proof.
  intros HI HI2 Hy Hy' HE H. pose proof (inv_entry _ HI) as Hent.
  pose proof (step_cnt _ _ _ _ H) as [Hcnt _].
  pose proof (step_pget_fwd _ _ _ _ H) as Hfwd.
  unfold has_entry in *. step_cases H; cbn [tbl pings set_pings]; intros p0 pg0; rewrite ?pget_pset.
  - (* Begin *)
    destruct (Nat.eqb_spec p0 p).
    + intros E W R. inversion E; subst; clear E. cbn [p_id]. rewrite tget_tset, N.eqb_refl. reflexivity.
    + intros E W R. pose proof (HE _ _ E W R) as T. pose proof (next_fresh _ _ _ _ HI2 Hy E W) as F.
      rewrite tget_tset. destruct (N.eqb_spec (p_id pg0) (next s)); [congruence|exact T].
  - (* Sent true *)
    destruct (Nat.eqb_spec p0 p).
    + intros E W R. inversion E; subst; clear E. cbn [p_id p_recv] in *. apply HE; auto.
      unfold outstanding. rewrite Eph. reflexivity.
    + apply HE.
  - (* Sent false *)
    destruct (Nat.eqb_spec p0 p).
    + intros E W R. inversion E; subst. discriminate.
    + intros E W R. pose proof (HE _ _ E W R) as T. destruct fx; [|exact T]. rewrite tget_tdel.
      destruct (N.eqb_spec (p_id pg0) (p_id pgp)) as [Eid|]; [|exact T].
      exfalso. eapply (ids_distinct n s p0 p); eauto. unfold outstanding. rewrite Eph. reflexivity.
  - (* BulkFail *)
    intros E W R. pose proof (HE _ _ E W R) as T. rewrite tget_tdel_range.
    apply andb_true_iff in Ebk. destruct Ebk as [_ Ebk].
    rewrite (range_fresh n s p0 pg0 nb HI2 E); [exact T| |lia].
    cbn [cnt] in Hcnt.
    destruct (Hfwd _ _ E) as (pg' & Hp' & _ & Hs' & _). cbn [pings] in Hp'. rewrite E in Hp'.
    inversion Hp'; subst pg'. pose proof (Hy' _ _ E W) as Y. cbn [cnt] in Y. exact Y.
  - (* Notify, entry present *)
    destruct (Nat.eqb_spec p0 q).
    + intros E W R. inversion E; subst. discriminate.
    + intros E W R. pose proof (HE _ _ E W R) as T. rewrite tget_tdel.
      destruct (N.eqb_spec (p_id pg0) j); [|exact T]. congruence.
  - apply HE.
  - apply HE.
  - (* Timeout *)
    destruct (Nat.eqb_spec p0 p).
    + intros E W R. inversion E; subst; clear E. cbn [p_id p_recv] in *. apply HE; auto.
      unfold outstanding. rewrite Eph. reflexivity.
    + apply HE.
  - (* End *)
    destruct (Nat.eqb_spec p0 p).
    + intros E W R. inversion E; subst. discriminate.
    + intros E W R. pose proof (HE _ _ E W R) as T. rewrite tget_tdel.
      destruct (N.eqb_spec (p_id pg0) (p_id pgp)) as [Eid|]; [|exact T].
      exfalso. eapply (ids_distinct n s p0 p); eauto. unfold outstanding. rewrite Eph. reflexivity.
Qed.

(* ------------------------------------------------------------------ *)
(* reachable states along a history whose states are all young *)

Lemma always_head fx P s tr : always fx P s tr -> P s.
Proof. destruct tr; cbn [always]; tauto. Qed.

Lemma always_step fx P s e r s' : always fx P s (e :: r) -> step fx s e = Ok s' -> always fx P s' r.
Proof. cbn [always]. intros [_ H] E. rewrite E in H. exact H. Qed.

Record Good (n : N) (s : state) : Prop := {
  good_inv : Inv s; good_inv2 : Inv2 n s; good_entry : has_entry s
}.

Lemma Good_init n : n < 65536 -> Good n (init n).
Proof.
  intros H. constructor; [apply Inv_init|apply Inv2_init|]; auto. intros p pg; cbn; discriminate.
Qed.

Lemma Good_step fx n s e s' : Good n s -> young s -> young s' -> step fx s e = Ok s' -> Good n s'.
Proof.
  intros [A B C] Hy Hy' H. constructor; [eapply Inv_step|eapply Inv2_step|eapply has_entry_step]; eauto.
Qed.

Lemma Good_run fx n tr : forall s s', Good n s -> always fx young s tr -> run fx s tr = Ok s' ->
  Good n s' /\ young s'.
Proof.
  induction tr as [|e r IH]; intros s s' G A; cbn [run].
  - intros E; inversion E; subst. split; [exact G|]. eapply always_head; eauto.
  - destruct (step fx s e) eqn:E; try discriminate. intros H.
    pose proof (always_step _ _ _ _ _ _ A E) as A'.
    eapply IH; [|exact A'|exact H]. eapply Good_step; eauto; eapply always_head; eauto.
Qed.

Lemma always_app fx P tr1 : forall s tr2 s', always fx P s (tr1 ++ tr2) -> run fx s tr1 = Ok s' ->
  always fx P s' tr2.
Proof.
  induction tr1 as [|e r IH]; intros s tr2 s' A; cbn [run app] in *.
  - intros E; inversion E; subst; exact A.
  - destruct (step fx s e) eqn:E; try discriminate. intros H. eapply IH; [|exact H].
    eapply always_step; eauto.
Qed.

Lemma always_prefix fx P a : forall s b, always fx P s (a ++ b) -> always fx P s a.
Proof.
  induction a as [|e r IH]; intros s b A; cbn [app always] in *.
  - split; [eapply always_head; eauto|exact I].
  - destruct A as [A1 A2]. split; [exact A1|]. destruct (step fx s e); auto. eapply IH; eauto.
Qed.

Lemma run_app_inv fx a : forall s b s', run fx s (a ++ b) = Ok s' ->
  exists m, run fx s a = Ok m /\ run fx m b = Ok s'.
Proof.
  induction a as [|e r IH]; intros s b s'; cbn [run app].
  - eauto.
  - destruct (step fx s e); try discriminate. apply IH.
Qed.

(* ------------------------------------------------------------------ *)
(* msgRecv of an outstanding call = "a Notify with its identifier has happened since it began" *)

Definition tracks (p : pid) (i : id) (b : bool) (s : state) : Prop :=
  exists pg, pget (pings s) p = Some pg /\ p_id pg = i /\ outstanding pg = true /\ p_recv pg = b.

Lemma tracks_step fx s e s' pp i b :
  Inv s -> has_entry s -> tracks pp i b s -> step fx s e = Ok s' ->
  e <> End pp -> e <> Sent pp false ->
  tracks pp i (b || is_notify i e) s'.
Proof.
  intros HI HE (pg & Hp & Hid & Hw & Hr) H Hne Hne2. pose proof (inv_entry _ HI) as Hent.
  unfold tracks. step_cases H; cbn [pings set_pings is_notify]; rewrite ?pget_pset, ?orb_false_r.
  - destruct (Nat.eqb_spec pp p); [congruence|]. eauto 6.
  - destruct (Nat.eqb_spec pp p).
    + subst p. rewrite Ep in Hp. inversion Hp; subst pgp. eexists. split; [reflexivity|]. cbn. auto.
    + eauto 6.
  - destruct (Nat.eqb_spec pp p); [subst; congruence|]. eauto 6.
  - eauto 6.
  - (* Notify j, entry of q *)
    destruct (Nat.eqb_spec pp q).
    + subst q. rewrite Epq in Hp. inversion Hp; subst pgq; clear Hp.
      destruct (Hent _ _ Eq) as (pg' & Hp' & Hid' & _). rewrite Epq in Hp'. inversion Hp'; subst pg'.
      assert (Eji : j = i) by congruence. rewrite Eji, N.eqb_refl, orb_true_r. eexists.
      split; [reflexivity|]. cbn. auto.
    + exists pg. repeat split; auto.
      destruct (N.eqb_spec j i); [|rewrite orb_false_r; exact Hr].
      rewrite orb_true_r. destruct b; [exact Hr|]. exfalso.
      pose proof (HE _ _ Hp Hw Hr) as T. subst j. rewrite Hid in T. congruence.
  - (* Notify j, no entry *)
    exists pg. repeat split; auto.
    destruct (N.eqb_spec j i); [|rewrite orb_false_r; exact Hr].
    rewrite orb_true_r. destruct b; [exact Hr|]. exfalso.
    pose proof (HE _ _ Hp Hw Hr) as T. subst j. rewrite Hid in T. congruence.
  - eauto 6.
  - destruct (Nat.eqb_spec pp p).
    + subst p. rewrite Ep in Hp. inversion Hp; subst pgp. eexists. split; [reflexivity|]. cbn. auto.
    + eauto 6.
  - destruct (Nat.eqb_spec pp p); [subst; congruence|]. eauto 6.
Qed.

Lemma tracks_run fx n mid : forall s s2 p i b,
  Good n s -> always fx young s mid -> tracks p i b s -> run fx s mid = Ok s2 ->
  ~ In (End p) mid -> ~ In (Sent p false) mid ->
  tracks p i (b || existsb (is_notify i) mid) s2.
Proof.
  induction mid as [|e r IH]; intros s s2 p i b G A T; cbn [run existsb].
  - intros E _ _; inversion E; subst. rewrite orb_false_r. exact T.
  - destruct (step fx s e) eqn:E; try discriminate. intros H Hn Hn2.
    pose proof (always_step _ _ _ _ _ _ A E) as A'.
    rewrite orb_assoc. eapply IH; [|exact A'| |exact H| |].
    + eapply Good_step; eauto; eapply always_head; eauto.
    + eapply tracks_step; eauto; [apply G|apply G| |].
      * intros ->. apply Hn. left. reflexivity.
      * intros ->. apply Hn2. left. reflexivity.
    + intros Hin. apply Hn. right. exact Hin.
    + intros Hin. apply Hn2. right. exact Hin.
Qed.

(* a call that has returned keeps its result and identifier whatever happens later *)
Lemma returned_stable fx tr : forall s s' p pg r,
  pget (pings s) p = Some pg -> p_phase pg = Returned r -> run fx s tr = Ok s' ->
  exists pg', pget (pings s') p = Some pg' /\ p_phase pg' = Returned r /\ p_id pg' = p_id pg.
Proof.
  induction tr as [|e t IH]; intros s s' p pg r Hp Hr; cbn [run].
  - intros E; inversion E; subst. eauto.
  - destruct (step fx s e) eqn:E; try discriminate. intros H.
    destruct (step_pget_fwd _ _ _ _ E _ _ Hp) as (pg1 & Hp1 & Hi1 & _ & Hr1).
    destruct (IH _ _ _ _ _ Hp1 (Hr1 _ Hr) H) as (pg' & A & B & C). exists pg'. repeat split; auto. congruence.
Qed.

(* End p and Sent p false make p return; a returned call has no further End *)
Lemma returns_step fx s e s' p : step fx s e = Ok s' -> e = End p \/ e = Sent p false ->
  exists pg r, pget (pings s') p = Some pg /\ p_phase pg = Returned r.
Proof.
  intros H [->| ->]; cbn [step] in H; destruct (pget (pings s) p) as [pg|]; try discriminate;
    destruct (p_phase pg); try discriminate.
  - destruct (p_closed pg || p_fired pg); [|discriminate]. inversion H; subst. cbn [pings].
    rewrite pget_pset, Nat.eqb_refl. eexists; eexists; split; reflexivity.
  - inversion H; subst. cbn [pings]. rewrite pget_pset, Nat.eqb_refl. eexists; eexists; split; reflexivity.
Qed.

Lemma first_return fx mid : forall s s2 p, run fx s (mid ++ [End p]) = Ok s2 ->
  ~ In (End p) mid /\ ~ In (Sent p false) mid.
Proof.
  intros s s2 p Hrun.
  assert (G : forall e, e = End p \/ e = Sent p false -> ~ In e mid).
  { intros e He Hin. apply in_split in Hin. destruct Hin as (a & b & ->).
    rewrite <- app_assoc in Hrun. cbn [app] in Hrun.
    destruct (run_app_inv _ _ _ _ _ Hrun) as (m & _ & Hr). cbn [run] in Hr.
    destruct (step fx m e) as [m'| | |] eqn:E; try discriminate.
    destruct (returns_step _ _ _ _ _ E He) as (pg & r & Hp & Hph).
    destruct (run_app_inv _ _ _ _ _ Hr) as (m2 & Hb & Hend).
    destruct (returned_stable _ _ _ _ _ _ _ Hp Hph Hb) as (pg2 & Hp2 & Hph2 & _).
    cbn [run step] in Hend. rewrite Hp2, Hph2 in Hend. discriminate. }
  split; apply G; auto.
Qed.

Lemma existsb_notify i l : existsb (is_notify i) l = true <-> In (Notify i) l.
Proof.
  rewrite existsb_exists. split.
  - intros (e & Hin & He). destruct e; cbn in He; try discriminate. apply N.eqb_eq in He. subst. exact Hin.
  - intros H. exists (Notify i). split; [exact H|]. cbn. apply N.eqb_refl.
Qed.

(* ------------------------------------------------------------------ *)
(* C19_iff *)

Theorem ping_iff fx n pre p mid post s :
  n < 65536 ->
  run fx (init n) (pre ++ Begin p :: mid ++ End p :: post) = Ok s ->
  always fx young (init n) (pre ++ Begin p :: mid ++ End p :: post) ->
  exists i, id_of s p = Some i /\
    (result_of s p = Some RNil <-> In (Notify i) mid) /\
    (result_of s p = Some RTimeout <-> ~ In (Notify i) mid).
Proof.
  intros Hn Hrun Hal.
  destruct (run_app_inv _ _ _ _ _ Hrun) as (s0 & R0 & Hrun1).
  pose proof (always_app _ _ _ _ _ _ Hal R0) as Hal0.
  pose proof (always_prefix _ _ _ _ _ Hal) as Hal_pre.
  cbn [run] in Hrun1. destruct (step fx s0 (Begin p)) as [s1| | |] eqn:E1; try discriminate.
  pose proof (always_step _ _ _ _ _ _ Hal0 E1) as Hal1.
  destruct (run_app_inv _ _ _ _ _ Hrun1) as (s2 & R2 & Hrun2).
  pose proof (always_prefix _ _ _ _ _ Hal1) as Hal_mid.
  assert (Hfirst : ~ In (End p) mid /\ ~ In (Sent p false) mid).
  { cbn [run] in Hrun2. destruct (step fx s2 (End p)) as [s3| | |] eqn:E3; try discriminate.
    apply (first_return fx mid s1 s3 p). rewrite run_app, R2. cbn [run]. rewrite E3. reflexivity. }
  destruct Hfirst as [Hnm Hnf].
  cbn [run] in Hrun2. destruct (step fx s2 (End p)) as [s3| | |] eqn:E3; try discriminate.
  destruct (Good_run _ _ _ _ _ (Good_init _ Hn) Hal_pre R0) as [G0 Y0].
  pose proof (Good_step _ _ _ _ _ G0 Y0 (always_head _ _ _ _ Hal1) E1) as G1.
  assert (T1 : tracks p (next s0) false s1).
  { cbn [step] in E1. destruct (pget (pings s0) p) eqn:Ep; [discriminate|]. cbv zeta in E1.
    inversion E1; subst s1. unfold tracks. cbn [pings]. rewrite pget_pset, Nat.eqb_refl.
    eexists. split; [reflexivity|]. cbn. auto. }
  pose proof (tracks_run _ _ _ _ _ _ _ _ G1 Hal_mid T1 R2 Hnm Hnf) as T2. cbn [orb] in T2.
  destruct T2 as (pg & Hp & Hid & Hw & Hr).
  (* End p *)
  cbn [step] in E3. rewrite Hp in E3. destruct (p_phase pg) eqn:Eph; try discriminate.
  destruct (p_closed pg || p_fired pg); [|discriminate]. inversion E3; subst s3; clear E3.
  match type of Hrun2 with run _ ?st _ = _ =>
    assert (Hp3 : pget (pings st) p = Some (mkPing (p_id pg) (p_recv pg) (p_closed pg) (p_fired pg)
                   (Returned (if p_recv pg then RNil else RTimeout)) (p_seq pg)))
      by (cbn [pings]; rewrite pget_pset, Nat.eqb_refl; reflexivity) end.
  destruct (returned_stable _ _ _ _ _ _ _ Hp3 eq_refl Hrun2) as (pgf & Hpf & Hrf & Hif).
  cbn [p_id] in Hif. exists (next s0). unfold id_of, result_of. rewrite Hpf, Hrf. cbn [option_map].
  split; [congruence|]. rewrite <- existsb_notify. rewrite Hr.
  destruct (existsb (is_notify (next s0)) mid); split; split; intros H; try discriminate; try reflexivity; try congruence.
Qed.

(* a call whose send fails returns that error, whatever was parsed meanwhile *)
Theorem ping_send_error fx n pre p mid post s :
  run fx (init n) (pre ++ Begin p :: mid ++ Sent p false :: post) = Ok s ->
  result_of s p = Some RSendErr.
Proof.
  intros Hrun.
  destruct (run_app_inv _ _ _ _ _ Hrun) as (s0 & _ & Hrun1).
  cbn [run] in Hrun1. destruct (step fx s0 (Begin p)) as [s1| | |]; try discriminate.
  destruct (run_app_inv _ _ _ _ _ Hrun1) as (s2 & _ & Hrun2).
  cbn [run] in Hrun2. destruct (step fx s2 (Sent p false)) as [s3| | |] eqn:E3; try discriminate.
  cbn [step] in E3. destruct (pget (pings s2) p) as [pg|] eqn:Hp; [|discriminate].
  destruct (p_phase pg); try discriminate. inversion E3; subst s3; clear E3.
  match type of Hrun2 with run _ ?st _ = _ =>
    assert (Hp3 : pget (pings st) p = Some (mkPing (p_id pg) (p_recv pg) (p_closed pg) (p_fired pg)
                   (Returned RSendErr) (p_seq pg)))
      by (cbn [pings]; rewrite pget_pset, Nat.eqb_refl; reflexivity) end.
  destruct (returned_stable _ _ _ _ _ _ _ Hp3 eq_refl Hrun2) as (pgf & Hpf & Hrf & _).
  unfold result_of. rewrite Hpf, Hrf. reflexivity.
Qed.
