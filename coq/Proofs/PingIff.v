(* Proofs/PingIff.v — "nil iff own reply" over all histories (no side condition: since the wrap
   repair in /repo identifiers still in the table are skipped and a call removes only its own entry). *)
From PV Require Import Base.Prelude Model.Ping Model.PingTrace Proofs.Ping.
Open Scope N_scope.

(* calls never disappear, keep their id, and never leave Returned *)
Lemma step_pget_fwd fx s e s' : step fx s e = Ok s' ->
  forall q0 pg, pget (pings s) q0 = Some pg ->
    exists pg', pget (pings s') q0 = Some pg' /\ p_id pg' = p_id pg /\
                (forall r, p_phase pg = Returned r -> p_phase pg' = Returned r).
Proof.
  intros H q0 pg Hq.
  assert (Hupd : forall p pgp pg', pget (pings s) p = Some pgp -> p_id pg' = p_id pgp ->
            (forall r, p_phase pgp = Returned r -> p_phase pg' = Returned r) ->
            exists pg'', pget (pset (pings s) p pg') q0 = Some pg'' /\ p_id pg'' = p_id pg /\
                         (forall r, p_phase pg = Returned r -> p_phase pg'' = Returned r)).
  { intros p0 pgp pg' Ep0 E1 E2. rewrite pget_pset. destruct (Nat.eqb_spec q0 p0).
    - subst. rewrite Ep0 in Hq. inversion Hq; subst. eauto.
    - eauto. }
  step_cases H; cbn [pings set_pings].
  - rewrite pget_pset. destruct (Nat.eqb_spec q0 p); [congruence|]. eauto.
  - rewrite pget_pset. destruct (Nat.eqb_spec q0 p); [congruence|]. eauto.
  - eapply Hupd; eauto. intros r Hr. congruence.
  - eapply Hupd; eauto. intros r Hr. congruence.
  - eauto.
  - eapply Hupd; eauto.
  - eauto.
  - eauto.
  - eauto.
  - eauto.
  - eapply Hupd; eauto. intros r Hr. congruence.
  - eapply Hupd; eauto. intros r Hr. congruence.
Qed.

(* ------------------------------------------------------------------ *)
(* every call that is outstanding and has not been woken owns the table entry of its identifier *)

Definition has_entry (s : state) : Prop :=
  forall p pg, pget (pings s) p = Some pg -> outstanding pg = true -> p_recv pg = false ->
               tget (tbl s) (p_id pg) = Some p.

Lemma has_entry_step fx s e s' :
  Inv s -> has_entry s -> step fx s e = Ok s' -> has_entry s'.
Proof.
  intros HI HE H. pose proof (inv_entry _ HI) as Hent.
  (* deleting p's own entry does not touch the entry of another call *)
  assert (Hown : forall p pgp p0 pg0, pget (pings s) p = Some pgp -> p0 <> p ->
            tget (tbl s) (p_id pg0) = Some p0 ->
            tget (tdel_own (tbl s) (p_id pgp) p) (p_id pg0) = Some p0).
  { intros p1 pgp p0 pg0 Ep1 Hne T. rewrite tget_tdel_own.
    destruct (N.eqb_spec (p_id pg0) (p_id pgp)) as [Eid|]; [|exact T].
    rewrite Eid in T. rewrite T. destruct (Nat.eqb_spec p0 p1); [contradiction|]. cbn [andb]. rewrite Eid. exact T. }
  unfold has_entry in *. step_cases H; cbn [tbl pings set_pings]; intros p0 pg0; rewrite ?pget_pset.
  - (* Begin, table full *)
    destruct (Nat.eqb_spec p0 p); [intros E W R; inversion E; subst; discriminate|apply HE].
  - (* Begin *)
    destruct (first_free_spec _ _ _ _ (inv_next _ HI) Eal) as [Hfree _].
    destruct (Nat.eqb_spec p0 p).
    + intros E W R. inversion E; subst; clear E. cbn [p_id]. rewrite tget_tset, N.eqb_refl. reflexivity.
    + intros E W R. pose proof (HE _ _ E W R) as T.
      rewrite tget_tset. destruct (N.eqb_spec (p_id pg0) ia); [congruence|exact T].
  - (* Sent true *)
    destruct (Nat.eqb_spec p0 p).
    + intros E W R. inversion E; subst; clear E. cbn [p_id p_recv] in *. apply HE; auto.
      unfold outstanding. rewrite Eph. reflexivity.
    + apply HE.
  - (* Sent false *)
    destruct (Nat.eqb_spec p0 p).
    + intros E W R. inversion E; subst. discriminate.
    + intros E W R. pose proof (HE _ _ E W R) as T. destruct fx; [|exact T]. eapply Hown; eauto.
  - apply HE.
  - (* Notify, entry present *)
    destruct (Nat.eqb_spec p0 q).
    + intros E W R. inversion E; subst. discriminate.
    + intros E W R. pose proof (HE _ _ E W R) as T. rewrite tget_tdel.
      destruct (N.eqb_spec (p_id pg0) j); [|exact T]. congruence.
  - apply HE.
  - apply HE.
  - apply HE.
  - apply HE.
  - (* Timeout *)
    destruct (Nat.eqb_spec p0 p).
    + intros E W R. inversion E; subst; clear E. cbn [p_id p_recv] in *. apply HE; auto.
      unfold outstanding. rewrite Eph. reflexivity.
    + apply HE.
  - (* End *)
    destruct (Nat.eqb_spec p0 p).
    + intros E W R. inversion E; subst. discriminate.
    + intros E W R. pose proof (HE _ _ E W R) as T. eapply Hown; eauto.
Qed.

Record Good (s : state) : Prop := { good_inv : Inv s; good_entry : has_entry s }.

Lemma Good_init n : n < 65536 -> Good (init n).
Proof. intros H. constructor; [apply Inv_init; auto|]. intros p pg; cbn; discriminate. Qed.

Lemma Good_step fx s e s' : Good s -> step fx s e = Ok s' -> Good s'.
Proof. intros [A C] H. constructor; [eapply Inv_step|eapply has_entry_step]; eauto. Qed.

Lemma Good_run fx tr : forall s s', Good s -> run fx s tr = Ok s' -> Good s'.
Proof.
  induction tr as [|e r IH]; intros s s' G; cbn [run].
  - intros E; inversion E; subst. exact G.
  - destruct (step fx s e) eqn:E; try discriminate. intros H. eapply IH; [|exact H]. eapply Good_step; eauto.
Qed.

Lemma run_app_inv fx a : forall s b s', run fx s (a ++ b) = Ok s' ->
  exists m, run fx s a = Ok m /\ run fx m b = Ok s'.
Proof.
  induction a as [|e r IH]; intros s b s'; cbn [run app].
  - eauto.
  - destruct (step fx s e); try discriminate. apply IH.
Qed.

(* two calls that are outstanding and not yet woken never share an identifier *)
Lemma ids_distinct s q1 q2 pg1 pg2 : has_entry s -> q1 <> q2 ->
  pget (pings s) q1 = Some pg1 -> pget (pings s) q2 = Some pg2 ->
  outstanding pg1 = true -> outstanding pg2 = true -> p_recv pg1 = false -> p_recv pg2 = false ->
  p_id pg1 <> p_id pg2.
Proof.
  intros HE Hne H1 H2 W1 W2 R1 R2 E. pose proof (HE _ _ H1 W1 R1) as T1. pose proof (HE _ _ H2 W2 R2) as T2.
  rewrite E in T1. congruence.
Qed.

(* ------------------------------------------------------------------ *)
(* msgRecv of an outstanding call = "a Notify with its identifier has happened since it began" *)

Definition tracks (p : pid) (i : id) (b : bool) (s : state) : Prop :=
  exists pg, pget (pings s) p = Some pg /\ p_id pg = i /\ outstanding pg = true /\ p_recv pg = b.

Lemma tracks_step fx s e s' pp i b :
  Inv s -> has_entry s -> tracks pp i b s -> step fx s e = Ok s' ->
  e <> End pp -> e <> Sent pp false ->
  tracks pp i (b || is_notify i e) s'.
Proof.
  intros HI HE (pg & Hp & Hid & Hw & Hr) H Hne Hne2. pose proof (inv_entry _ HI) as Hent.
  unfold tracks. step_cases H; cbn [pings set_pings is_notify]; rewrite ?pget_pset, ?orb_false_r.
  - destruct (Nat.eqb_spec pp p); [congruence|]. eauto 6.
  - destruct (Nat.eqb_spec pp p); [congruence|]. eauto 6.
  - destruct (Nat.eqb_spec pp p).
    + subst p. rewrite Ep in Hp. inversion Hp; subst pgp. eexists. split; [reflexivity|]. cbn. auto.
    + eauto 6.
  - destruct (Nat.eqb_spec pp p); [subst; congruence|]. eauto 6.
  - eauto 6.
  - (* Notify j, entry of q *)
    destruct (Nat.eqb_spec pp q).
    + subst q. rewrite Epq in Hp. inversion Hp; subst pgq; clear Hp.
      destruct (Hent _ _ Eq) as (pg' & Hp' & Hid' & _). rewrite Epq in Hp'. inversion Hp'; subst pg'.
      assert (Eji : j = i) by congruence. rewrite Eji, N.eqb_refl, orb_true_r. eexists.
      split; [reflexivity|]. cbn. auto.
    + exists pg. repeat split; auto.
      destruct (N.eqb_spec j i); [|rewrite orb_false_r; exact Hr].
      rewrite orb_true_r. destruct b; [exact Hr|]. exfalso.
      pose proof (HE _ _ Hp Hw Hr) as T. subst j. rewrite Hid in T. congruence.
  - (* Notify j, no entry *)
    exists pg. repeat split; auto.
    destruct (N.eqb_spec j i); [|rewrite orb_false_r; exact Hr].
    rewrite orb_true_r. destruct b; [exact Hr|]. exfalso.
    pose proof (HE _ _ Hp Hw Hr) as T. subst j. rewrite Hid in T. congruence.
  - eauto 6.
  - eauto 6.
  - eauto 6.
  - destruct (Nat.eqb_spec pp p).
    + subst p. rewrite Ep in Hp. inversion Hp; subst pgp. eexists. split; [reflexivity|]. cbn. auto.
    + eauto 6.
  - destruct (Nat.eqb_spec pp p); [subst; congruence|]. eauto 6.
Qed.

Lemma tracks_run fx mid : forall s s2 p i b,
  Good s -> tracks p i b s -> run fx s mid = Ok s2 ->
  ~ In (End p) mid -> ~ In (Sent p false) mid ->
  tracks p i (b || existsb (is_notify i) mid) s2.
Proof.
  induction mid as [|e r IH]; intros s s2 p i b G T; cbn [run existsb].
  - intros E _ _; inversion E; subst. rewrite orb_false_r. exact T.
  - destruct (step fx s e) eqn:E; try discriminate. intros H Hn Hn2.
    rewrite orb_assoc. eapply IH; [| |exact H| |].
    + eapply Good_step; eauto.
    + eapply tracks_step; eauto; [apply G|apply G| |].
      * intros ->. apply Hn. left. reflexivity.
      * intros ->. apply Hn2. left. reflexivity.
    + intros Hin. apply Hn. right. exact Hin.
    + intros Hin. apply Hn2. right. exact Hin.
Qed.

(* a call that has returned keeps its result and identifier whatever happens later *)
Lemma returned_stable fx tr : forall s s' p pg r,
  pget (pings s) p = Some pg -> p_phase pg = Returned r -> run fx s tr = Ok s' ->
  exists pg', pget (pings s') p = Some pg' /\ p_phase pg' = Returned r /\ p_id pg' = p_id pg.
Proof.
  induction tr as [|e t IH]; intros s s' p pg r Hp Hr; cbn [run].
  - intros E; inversion E; subst. eauto.
  - destruct (step fx s e) eqn:E; try discriminate. intros H.
    destruct (step_pget_fwd _ _ _ _ E _ _ Hp) as (pg1 & Hp1 & Hi1 & Hr1).
    destruct (IH _ _ _ _ _ Hp1 (Hr1 _ Hr) H) as (pg' & A & B & C). exists pg'. repeat split; auto. congruence.
Qed.

(* End p and Sent p false make p return; a returned call has no further End *)
Lemma returns_step fx s e s' p : step fx s e = Ok s' -> e = End p \/ e = Sent p false ->
  exists pg r, pget (pings s') p = Some pg /\ p_phase pg = Returned r.
Proof.
  intros H [->| ->]; cbn [step] in H; destruct (pget (pings s) p) as [pg|]; try discriminate;
    destruct (p_phase pg); try discriminate.
  - destruct (p_closed pg || p_fired pg); [|discriminate]. inversion H; subst. cbn [pings].
    rewrite pget_pset, Nat.eqb_refl. eexists; eexists; split; reflexivity.
  - inversion H; subst. cbn [pings]. rewrite pget_pset, Nat.eqb_refl. eexists; eexists; split; reflexivity.
Qed.

Lemma returned_no_end fx s s' p pg r : pget (pings s) p = Some pg -> p_phase pg = Returned r ->
  step fx s (End p) <> Ok s'.
Proof. intros Hp Hr. cbn [step]. rewrite Hp, Hr. discriminate. Qed.

Lemma first_return fx mid : forall s s2 p, run fx s (mid ++ [End p]) = Ok s2 ->
  ~ In (End p) mid /\ ~ In (Sent p false) mid.
Proof.
  intros s s2 p Hrun.
  assert (G : forall e, e = End p \/ e = Sent p false -> ~ In e mid).
  { intros e He Hin. apply in_split in Hin. destruct Hin as (a & b & ->).
    rewrite <- app_assoc in Hrun. cbn [app] in Hrun.
    destruct (run_app_inv _ _ _ _ _ Hrun) as (m & _ & Hr). cbn [run] in Hr.
    destruct (step fx m e) as [m'| | |] eqn:E; try discriminate.
    destruct (returns_step _ _ _ _ _ E He) as (pg & r & Hp & Hph).
    destruct (run_app_inv _ _ _ _ _ Hr) as (m2 & Hb & Hend).
    destruct (returned_stable _ _ _ _ _ _ _ Hp Hph Hb) as (pg2 & Hp2 & Hph2 & _).
    cbn [run step] in Hend. rewrite Hp2, Hph2 in Hend. discriminate. }
  split; apply G; auto.
Qed.

Lemma existsb_notify i l : existsb (is_notify i) l = true <-> In (Notify i) l.
Proof.
  rewrite existsb_exists. split.
  - intros (e & Hin & He). destruct e; cbn in He; try discriminate. apply N.eqb_eq in He. subst. exact Hin.
  - intros H. exists (Notify i). split; [exact H|]. cbn. apply N.eqb_refl.
Qed.

(* ------------------------------------------------------------------ *)
(* C19_iff *)

Theorem ping_iff fx n pre p tmo mid post s :
  n < 65536 ->
  run fx (init n) (pre ++ Begin p tmo :: mid ++ End p :: post) = Ok s ->
  exists i, id_of s p = Some i /\
    (result_of s p = Some RNil <-> In (Notify i) mid) /\
    (result_of s p = Some RTimeout <-> ~ In (Notify i) mid).
Proof.
  intros Hn Hrun.
  destruct (run_app_inv _ _ _ _ _ Hrun) as (s0 & R0 & Hrun1).
  cbn [run] in Hrun1. destruct (step fx s0 (Begin p tmo)) as [s1| | |] eqn:E1; try discriminate.
  destruct (run_app_inv _ _ _ _ _ Hrun1) as (s2 & R2 & Hrun2).
  cbn [run] in Hrun2. destruct (step fx s2 (End p)) as [s3| | |] eqn:E3; try discriminate.
  assert (Hfirst : ~ In (End p) mid /\ ~ In (Sent p false) mid).
  { apply (first_return fx mid s1 s3 p). rewrite run_app, R2. cbn [run]. rewrite E3. reflexivity. }
  destruct Hfirst as [Hnm Hnf].
  pose proof (Good_run _ _ _ _ (Good_init _ Hn) R0) as G0.
  pose proof (Good_step _ _ _ _ G0 E1) as G1.
  (* after Begin p: p is registered with the identifier it was handed, not woken
     (the table was not full: otherwise p has returned and End p is impossible) *)
  assert (T1 : exists i, tracks p i false s1).
  { cbn [step] in E1. destruct (pget (pings s0) p) eqn:Ep; [discriminate|].
    destruct (table_full (tbl s0)).
    - exfalso. inversion E1; subst s1.
      match type of R2 with run _ ?st _ = _ =>
        assert (Hp1 : exists pgb, pget (pings st) p = Some pgb /\ p_phase pgb = Returned RBusy)
          by (cbn [pings set_pings]; rewrite pget_pset, Nat.eqb_refl; eexists; split; reflexivity) end.
      destruct Hp1 as (pgb & Hp1 & Hphb).
      destruct (returned_stable _ _ _ _ _ _ _ Hp1 Hphb R2) as (pg2 & Hp2 & Hph2 & _).
      eapply returned_no_end; eauto.
    - destruct (alloc (tbl s0) (next s0)) as [ia|]; [|discriminate]. cbv zeta in E1.
      inversion E1; subst s1. exists ia. unfold tracks. cbn [pings]. rewrite pget_pset, Nat.eqb_refl.
      eexists. split; [reflexivity|]. cbn. auto. }
  destruct T1 as (i & T1).
  pose proof (tracks_run _ _ _ _ _ _ _ G1 T1 R2 Hnm Hnf) as T2. cbn [orb] in T2.
  destruct T2 as (pg & Hp & Hid & Hw & Hr).
  (* End p *)
  cbn [step] in E3. rewrite Hp in E3. destruct (p_phase pg) eqn:Eph; try discriminate.
  destruct (p_closed pg || p_fired pg); [|discriminate]. inversion E3; subst s3; clear E3.
  match type of Hrun2 with run _ ?st _ = _ =>
    assert (Hp3 : pget (pings st) p = Some (mkPing (p_id pg) (p_recv pg) (p_closed pg) (p_fired pg)
                   (Returned (if p_recv pg then RNil else RTimeout)) (p_seq pg) (p_time pg)))
      by (cbn [pings]; rewrite pget_pset, Nat.eqb_refl; reflexivity) end.
  destruct (returned_stable _ _ _ _ _ _ _ Hp3 eq_refl Hrun2) as (pgf & Hpf & Hrf & Hif).
  cbn [p_id] in Hif. exists i. unfold id_of, result_of. rewrite Hpf, Hrf. cbn [option_map].
  split; [congruence|]. rewrite <- existsb_notify. rewrite Hr.
  destruct (existsb (is_notify i) mid); split; split; intros H; try discriminate; try reflexivity; try congruence.
Qed.

(* a call whose send fails returns that error, whatever was parsed meanwhile *)
Theorem ping_send_error fx n pre p tmo mid post s :
  run fx (init n) (pre ++ Begin p tmo :: mid ++ Sent p false :: post) = Ok s ->
  result_of s p = Some RSendErr.
Proof.
  intros Hrun.
  destruct (run_app_inv _ _ _ _ _ Hrun) as (s0 & _ & Hrun1).
  cbn [run] in Hrun1. destruct (step fx s0 (Begin p tmo)) as [s1| | |]; try discriminate.
  destruct (run_app_inv _ _ _ _ _ Hrun1) as (s2 & _ & Hrun2).
  cbn [run] in Hrun2. destruct (step fx s2 (Sent p false)) as [s3| | |] eqn:E3; try discriminate.
  cbn [step] in E3. destruct (pget (pings s2) p) as [pg|] eqn:Hp; [|discriminate].
  destruct (p_phase pg); try discriminate. inversion E3; subst s3; clear E3.
  match type of Hrun2 with run _ ?st _ = _ =>
    assert (Hp3 : pget (pings st) p = Some (mkPing (p_id pg) (p_recv pg) (p_closed pg) (p_fired pg)
                   (Returned RSendErr) (p_seq pg) (p_time pg)))
      by (cbn [pings]; rewrite pget_pset, Nat.eqb_refl; reflexivity) end.
  destruct (returned_stable _ _ _ _ _ _ _ Hp3 eq_refl Hrun2) as (pgf & Hpf & Hrf & _).
  unfold result_of. rewrite Hpf, Hrf. reflexivity.
Qed.
