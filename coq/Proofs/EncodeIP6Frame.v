(* Proofs/EncodeIP6Frame.v — C03: IPv6 SetPayload and the composed Ether/IPv6/UDP frame. *)
From PV Require Import Base.Prelude Base.Slice Model.EncodeBase Model.Encode Model.EncodeCompose
     Spec.EncodeRef Proofs.EncodeLemmas Proofs.EncodeIP4 Proofs.EncodeEther Proofs.EncodeMisc Proofs.EncodeCompose.
Open Scope N_scope.

(* ================================================================ *)
(* IPv6 SetPayload and the composed Ether/IPv6/UDP frame *)
Ltac ev_hook ::= rewrite ?be16_hi_lo by (first [assumption | reflexivity]).

Lemma ip6_set_payload_bytes hop s d rest n nh :
  length s = 16%nat -> length d = 16%nat -> (n <= length rest)%nat ->
  ip6_set_payload (mkSlice (ip6_hdr 0 59 hop s d ++ rest) 40) n nh =
  Ok (mkSlice (ip6_hdr (u16 (N.of_nat n)) nh hop s d ++ rest) (40 + n)).
Proof.
  intros Hs Hd Hb.
  do 16 (destr_list s Hs). destruct s; [|discriminate].
  do 16 (destr_list d Hd). destruct d; [|discriminate].
  unfold ip6_set_payload, seti, put16, reslice, cap. run. reflexivity.
Qed.

Theorem ip6_set_payload_rt p hop src dst b nh :
  (40 + length b <= cap p)%nat -> bytes_ok src -> bytes_ok dst -> bytes_ok b ->
  nh < 256 -> hop < 256 -> 40 + N.of_nat (length b) < 65536 ->
  firstn (length b) (skipn 40 (arr p)) = b ->
  exists ip r,
    encode_ip6 p hop src dst = Ok (ip, false) /\ len ip = 40%nat /\
    ip6_set_payload ip (length b) nh = Ok r /\
    len r = (40 + length b)%nat /\ cap r = cap p /\ skipn 40 (arr r) = skipn 40 (arr p) /\
    bytes_ok (view r) /\
    ip6_decode_lib r = Ok (ip6_expected_view nh hop (as16 src) (as16 dst) b) /\
    ref_ip6 (view r) = Some (ip6_expected_ref nh hop (as16 src) (as16 dst) b).
Proof.
  intros Hc Bs Bd Bb Hnh Hhop Hsz Hin.
  eexists. eexists. split. { apply encode_ip6_bytes. lia. }
  split. { reflexivity. }
  assert (Hrest : (length b <= length (skipn 40 (arr p)))%nat) by (rewrite skipn_length; unfold cap in Hc; lia).
  split. { apply ip6_set_payload_bytes; auto using as16_length. }
  assert (Eu : u16 (N.of_nat (length b)) = N.of_nat (length b)) by (unfold u16; apply N.mod_small; lia).
  rewrite Eu.
  assert (Hl40 : length (ip6_hdr (N.of_nat (length b)) nh hop (as16 src) (as16 dst)) = 40%nat).
  { unfold ip6_hdr. cbn [app length]. rewrite app_length, !as16_length. lia. }
  split. { reflexivity. }
  split. { unfold cap in *. cbn [arr]. rewrite !app_length, !skipn_length, Hl40. lia. }
  split. { cbn [arr]. apply skipn_app_len. exact Hl40. }
  rewrite <- (firstn_skipn (length b) (skipn 40 (arr p))), Hin.
  apply ip6_frame_decodes; auto using as16_length, as16_ok.
Qed.

(* ---------------------------------------------------------------- *)
Ltac blia := unfold bytes, byte in *; lia.
Ltac ev_hook ::= rewrite ?be16_hi_lo by (first [assumption | reflexivity]); rewrite ?N.eqb_refl;
  repeat match goal with E : hlen_of_type ?t = _ |- context [hlen_of_type ?t] => rewrite E end.

Lemma ether_set_payload_bytes dst src ht X n :
  length src = 6%nat -> length dst = 6%nat -> ht < 65536 -> hlen_of_type ht = 14%nat -> (n <= length X)%nat ->
  ether_set_payload (mkSlice (ether_hdr dst src ht ++ X) 14) n = Ok (mkSlice (ether_hdr dst src ht ++ X) (14 + n)).
Proof.
  intros Hs Hd Hht Hhl Hn.
  do 6 (destr_list src Hs). destruct src; [|discriminate].
  do 6 (destr_list dst Hd). destruct dst; [|discriminate].
  unfold ether_hdr. cbn [app].
  unfold ether_set_payload, ether_hlen, ether_type, be16_at, reslice, cap. run. reflexivity.
Qed.

Lemma ip6_hdr_length pl nh hop s d : length s = 16%nat -> length d = 16%nat -> length (ip6_hdr pl nh hop s d) = 40%nat.
Proof. intros Hs Hd. unfold ip6_hdr. cbn [app length]. rewrite app_length, Hs, Hd. reflexivity. Qed.

Lemma ip6_payload_frame nh hop s d (B T : bytes) :
  length s = 16%nat -> length d = 16%nat -> N.of_nat (length B) < 65536 ->
  ip6_payload (mkSlice (ip6_hdr (N.of_nat (length B)) nh hop s d ++ B ++ T) (40 + length B)) = Ok (mkSlice (B ++ T) (length B)).
Proof.
  intros Hs Hd Hsz.
  assert (Hl : length (ip6_hdr (N.of_nat (length B)) nh hop s d) = 40%nat) by (apply ip6_hdr_length; assumption).
  unfold ip6_payload, ip6_payloadlen, be16_at, sl, cap. cbn [arr len].
  rewrite !app_length, Hl.
  destruct (Nat.leb_spec (4 + 2) (40 + (length B + length T))) as [_|C]; [|lia]. cbn [bind].
  assert (E : be16 (nth 4 (ip6_hdr (N.of_nat (length B)) nh hop s d ++ B ++ T) 0)
                   (nth (4 + 1) (ip6_hdr (N.of_nat (length B)) nh hop s d ++ B ++ T) 0) = N.of_nat (length B)).
  { rewrite !app_nth1 by (rewrite Hl; lia). unfold ip6_hdr. cbn [app nth Nat.add]. apply be16_hi_lo. exact Hsz. }
  rewrite E, Nat2N.id.
  destruct (Nat.leb_spec 40 (40 + length B)) as [_|C]; [|lia].
  destruct (Nat.leb_spec (40 + length B) (40 + (length B + length T))) as [_|C]; [|lia]. cbn [andb].
  rewrite skipn_app_len by exact Hl. f_equal. f_equal. lia.
Qed.

Definition frame6_bytes (smac dmac : bytes) (hop : N) (s16 d16 : bytes) (sp dp : N) (data : bytes) : bytes :=
  ether_hdr dmac smac ETH_P_IPV6 ++
  ip6_hdr (N.of_nat (8 + length data)) 17 hop s16 d16 ++
  udp_hdr sp dp (8 + N.of_nat (length data)) ++ data.

Lemma compose_udp6_bytes b smac dmac hop sip dip sp dp data :
  (62 + length data <= cap b)%nat -> length smac = 6%nat -> length dmac = 6%nat ->
  62 + N.of_nat (length data) < 65536 ->
  compose_udp6 b smac dmac hop sip dip sp dp data =
  Ok (mkSlice (frame6_bytes smac dmac hop (as16 sip) (as16 dip) sp dp data ++ skipn (62 + length data) (arr b))
              (62 + length data)).
Proof.
  intros Hc Hsm Hdm Hsz.
  pose proof (as16_length sip) as Hs16. pose proof (as16_length dip) as Hd16.
  unfold compose_udp6.
  rewrite encode_ether_bytes by (try assumption; lia). cbn [bind].
  rewrite ether_payload_encoded by (try assumption; reflexivity). cbn [bind].
  set (r14 := skipn 14 (arr b)).
  assert (H14 : length r14 = (cap b - 14)%nat) by (unfold r14, cap; apply skipn_length).
  rewrite encode_ip6_bytes by (unfold cap; cbn [arr]; blia). cbn [bind arr].
  set (r54 := skipn 40 r14).
  assert (H54 : length r54 = (cap b - 54)%nat) by (unfold r54; rewrite skipn_length; blia).
  assert (Hpl : ip6_payload (mkSlice (ip6_hdr 0 59 hop (as16 sip) (as16 dip) ++ r54) 40) = Ok (mkSlice r54 0)).
  { pose proof (ip6_payload_frame 59 hop (as16 sip) (as16 dip) [] r54 Hs16 Hd16 ltac:(cbn; lia)) as E. cbn [app length Nat.add N.of_nat] in E.
    exact E. }
  rewrite Hpl. cbn [bind].
  rewrite encode_udp_bytes by (unfold cap; cbn [arr]; blia). cbn [bind arr].
  set (r62 := skipn 8 r54).
  assert (H62 : length r62 = (cap b - 62)%nat) by (unfold r62; rewrite skipn_length; blia).
  rewrite udp_append_bytes by blia. cbn [bind arr len].
  rewrite udp_lenfield_small by blia.
  set (U := udp_hdr sp dp (8 + N.of_nat (length data)) ++ data ++ skipn (length data) r62).
  assert (HU : length U = length r54).
  { unfold U. rewrite !app_length, skipn_length. cbn [udp_hdr length]. blia. }
  rewrite writeback_app by exact HU.
  rewrite ip6_set_payload_bytes by (try assumption; blia). cbn [bind arr len].
  assert (Eu : u16 (N.of_nat (8 + length data)) = N.of_nat (8 + length data)) by (unfold u16; apply N.mod_small; blia).
  rewrite Eu.
  set (I := ip6_hdr (N.of_nat (8 + length data)) IPPROTO_UDP hop (as16 sip) (as16 dip) ++ U).
  assert (HI : length I = length r14).
  { unfold I. rewrite app_length, HU, ip6_hdr_length by assumption. blia. }
  rewrite writeback_app by exact HI.
  rewrite ether_set_payload_bytes by (try assumption; try reflexivity; blia).
  f_equal. f_equal; try blia.
  unfold frame6_bytes, I, U, r62, r54, r14. rewrite <- !app_assoc. do 4 f_equal.
  rewrite !skipn_skipn'. f_equal.
Qed.

Ltac ev_hook ::=
  rewrite ?(be16_hi_lo ETH_P_IPV6) by reflexivity;
  try change (ETH_P_IPV6 <? 1536) with false; try change (hlen_of_type ETH_P_IPV6) with 14%nat;
  try change (ETH_P_IPV6 =? ETH_P_IP) with false; try change (ETH_P_IPV6 =? ETH_P_IPV6) with true;
  rewrite ?be16_hi_lo by assumption;
  repeat match goal with E : N.to_nat ?t = _ |- context [N.to_nat ?t] => rewrite E end.

Lemma parse_class_frame6 smac dmac hop s16 d16 sp dp data T :
  length smac = 6%nat -> length dmac = 6%nat -> length s16 = 16%nat -> length d16 = 16%nat ->
  N.land (nth 0 smac 0) 1 = 0 -> sp < 65536 -> dp < 65536 -> 62 + N.of_nat (length data) < 65536 ->
  parse_class (mkSlice (frame6_bytes smac dmac hop s16 d16 sp dp data ++ T) (62 + length data))
  = Ok (class_of_ports sp dp, false).
Proof.
  intros Hsm Hdm Hs Hd Huni Hsp Hdp Hsz.
  do 6 (destr_list smac Hsm). destruct smac; [|discriminate].
  do 6 (destr_list dmac Hdm). destruct dmac; [|discriminate].
  do 16 (destr_list s16 Hs). destruct s16; [|discriminate].
  do 16 (destr_list d16 Hd). destruct d16; [|discriminate].
  cbn [nth] in Huni.
  set (pl := N.of_nat (8 + length data)).
  assert (Hpl : pl < 65536) by (unfold pl; lia).
  assert (Epl' : N.to_nat pl = (8 + length data)%nat) by (unfold pl; lia).
  unfold frame6_bytes, ether_hdr, ip6_hdr, udp_hdr. fold pl. cbn [app].
  unfold parse_class, parse_udp_at, ether_is_valid, ether_src, ether_hlen, ether_type, ip6_is_valid, ip6_payloadlen,
    ip6_nextheader, udp_is_valid, udp_srcport, udp_dstport, idx, be16_at, sl, slfrom, cap.
  run. rewrite Huni. change (0 =? 0) with true. cbn [negb]. run.
  change (17 =? IPPROTO_UDP) with true. cbn iota. reflexivity.
Qed.


Ltac ev_hook ::= idtac.

Theorem compose_udp6_rt b smac dmac hop sip dip sp dp data :
  (62 + length data <= cap b)%nat -> length smac = 6%nat -> length dmac = 6%nat ->
  62 + N.of_nat (length data) < 65536 ->
  bytes_ok smac -> bytes_ok dmac -> bytes_ok sip -> bytes_ok dip -> bytes_ok data ->
  hop < 256 -> sp < 65536 -> dp < 65536 -> N.land (nth 0 smac 0) 1 = 0 ->
  let udpb := udp_hdr sp dp (8 + N.of_nat (length data)) ++ data in
  exists f,
    compose_udp6 b smac dmac hop sip dip sp dp data = Ok f /\
    len f = (62 + length data)%nat /\ cap f = cap b /\
    skipn (62 + length data) (arr f) = skipn (62 + length data) (arr b) /\
    view f = frame6_bytes smac dmac hop (as16 sip) (as16 dip) sp dp data /\
    parse_class f = Ok (class_of_ports sp dp, false) /\
    (exists ipb,
       ref_ether (view f) = Some {| re_dst := dmac; re_src := smac; re_type := ETH_P_IPV6; re_payload := ipb |} /\
       length ipb = (40 + length udpb)%nat /\
       ref_ip6 ipb = Some (ip6_expected_ref 17 hop (as16 sip) (as16 dip) udpb) /\
       ref_udp udpb = Some (udp_expected_ref sp dp data)) /\
    (ipv <- ether_payload f ;; ip6_decode_lib ipv)%res = Ok (ip6_expected_view 17 hop (as16 sip) (as16 dip) udpb) /\
    (ipv <- ether_payload f ;; u <- ip6_payload ipv ;; udp_decode_lib u)%res = Ok (udp_expected_view sp dp data).
Proof.
  intros Hc Hsm Hdm Hsz Bsm Bdm Bsi Bdi Bd Hhop Hsp Hdp Huni udpb.
  pose proof (as16_length sip) as Hs16. pose proof (as16_length dip) as Hd16.
  eexists. split. { apply compose_udp6_bytes; assumption. }
  set (T := skipn (62 + length data) (arr b)).
  assert (Hub : length udpb = (8 + length data)%nat) by (unfold udpb; rewrite app_length; reflexivity).
  set (IH := ip6_hdr (N.of_nat (8 + length data)) 17 hop (as16 sip) (as16 dip)).
  assert (HIH : length IH = 40%nat) by (apply ip6_hdr_length; assumption).
  assert (HEH : length (ether_hdr dmac smac ETH_P_IPV6) = 14%nat).
  { unfold ether_hdr. rewrite !app_length. cbn [length]. lia. }
  assert (Hfr : frame6_bytes smac dmac hop (as16 sip) (as16 dip) sp dp data = ether_hdr dmac smac ETH_P_IPV6 ++ IH ++ udpb)
    by reflexivity.
  assert (Hfb : length (frame6_bytes smac dmac hop (as16 sip) (as16 dip) sp dp data) = (62 + length data)%nat).
  { rewrite Hfr, !app_length, HEH, HIH, Hub. lia. }
  split. { reflexivity. }
  split. { unfold cap. cbn [arr]. unfold T. rewrite app_length, skipn_length, Hfb. unfold cap in Hc. lia. }
  split. { cbn [arr]. apply skipn_app_len. exact Hfb. }
  assert (Hv : view (mkSlice (frame6_bytes smac dmac hop (as16 sip) (as16 dip) sp dp data ++ T) (62 + length data))
               = frame6_bytes smac dmac hop (as16 sip) (as16 dip) sp dp data).
  { unfold view. cbn [arr len]. apply firstn_app_len. exact Hfb. }
  split. { exact Hv. }
  split. { apply parse_class_frame6; assumption. }
  assert (Bu : bytes_ok udpb).
  { unfold udpb, udp_hdr. cbn [app]. repeat (apply bytes_ok_cons; split; [first [lia | apply hi8_lt | apply lo8_lt]|]). assumption. }
  assert (Epl : N.of_nat (8 + length data) = N.of_nat (length udpb)) by (rewrite Hub; reflexivity).
  pose proof (ip6_frame_decodes 17 hop (as16 sip) (as16 dip) udpb T Hs16 Hd16 (as16_ok sip Bsi) (as16_ok dip Bdi) Bu
                ltac:(lia) Hhop ltac:(lia)) as D6.
  cbn zeta in D6. rewrite <- Epl in D6. fold IH in D6. destruct D6 as (_ & D6lib & D6ref).
  assert (Hipview : view (mkSlice (IH ++ udpb ++ T) (40 + length udpb)) = IH ++ udpb).
  { unfold view. cbn [arr len]. rewrite app_assoc. apply firstn_app_len. rewrite app_length, HIH. reflexivity. }
  rewrite Hipview in D6ref.
  pose proof (udp_frame_decodes sp dp data T Hsp Hdp Bd ltac:(lia)) as DU.
  cbn zeta in DU. destruct DU as (_ & DUlib & DUref).
  assert (Huview : view (mkSlice (udp_hdr sp dp (8 + N.of_nat (length data)) ++ data ++ T) (8 + length data)) = udpb).
  { unfold view. cbn [arr len]. unfold udpb. rewrite app_assoc. apply firstn_app_len. rewrite app_length. reflexivity. }
  rewrite Huview in DUref.
  split.
  { exists (IH ++ udpb). rewrite Hv, Hfr.
    split. { apply ref_ether_hdr; try assumption. reflexivity. }
    split. { rewrite app_length, HIH. reflexivity. }
    split. { exact D6ref. }
    exact DUref. }
  assert (Hep : ether_payload (mkSlice (frame6_bytes smac dmac hop (as16 sip) (as16 dip) sp dp data ++ T) (62 + length data))
                = Ok (mkSlice (IH ++ udpb ++ T) (40 + length udpb))).
  { rewrite Hfr, <- !app_assoc.
    replace (62 + length data)%nat with (14 + (40 + length udpb))%nat by lia.
    apply ether_payload_frame; try assumption; try reflexivity. lia. }
  split. { rewrite Hep. cbn [bind]. exact D6lib. }
  rewrite Hep. cbn [bind].
  unfold IH. rewrite Epl. rewrite ip6_payload_frame by (try assumption; lia). cbn [bind].
  rewrite Hub. unfold udpb. rewrite <- app_assoc. exact DUlib.
Qed.
