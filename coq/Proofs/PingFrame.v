(* Proofs/PingFrame.v — Session.Parse reaches echoNotify(i) exactly for the frames that are echo
   replies for i by the RFC reading, outside the recorded defect classes. *)
From PV Require Import Base.Prelude Base.Slice Model.Ping Model.PingTrace Model.PingFrame Model.PingScript.
From PV Require Import Model.PingKnown Spec.PingRFC Proofs.PingIff.
Open Scope N_scope.

Lemma nth_skipn {A} (l : list A) k i d : nth i (skipn k l) d = nth (k + i) l d.
Proof.
  revert l. induction k as [|k IH]; intros l; [reflexivity|].
  destruct l as [|x r]; [destruct i; reflexivity|]. cbn [skipn plus nth]. apply IH.
Qed.

Lemma nth_firstn {A} (l : list A) k i d : (i < k)%nat -> nth i (firstn k l) d = nth i l d.
Proof.
  revert l i. induction k as [|k IH]; intros l i H; [lia|].
  destruct l as [|x r]; [reflexivity|]. destruct i as [|i]; [reflexivity|]. cbn [firstn nth]. apply IH. lia.
Qed.

Lemma land1 x : N.land x 1 = x mod 2.
Proof. change 1 with (N.ones 1). rewrite N.land_ones. reflexivity. Qed.

Lemma land15 x : N.land x 15 = x mod 16.
Proof. change 15 with (N.ones 4). rewrite N.land_ones. reflexivity. Qed.

Lemma shl2 x : N.shiftl x 2 = 4 * x.
Proof. rewrite N.shiftl_mul_pow2. change (2 ^ 2) with 4. lia. Qed.

Lemma be16_lt a b : a < 256 -> b < 256 -> be16 a b < 65536.
Proof. unfold be16. lia. Qed.

Lemma shr4 x : N.shiftr x 4 = x / 16.
Proof. rewrite N.shiftr_div_pow2. reflexivity. Qed.

Section Frame.
Variable f : bytes.

Lemma nthf a b : a = b -> nth a f 0 = nth b f 0.
Proof. intros ->. reflexivity. Qed.

(* for every frame (any bytes, any length): what Parse does is what the RFC reading says *)
Theorem frame_agree : parse_notify f = Ok (rfc_reply_id f).
Proof.
  unfold parse_notify, parse_notify_s, rfc_reply_id, icmp_message.
  cbn [len of_bytes]. destruct (Nat.ltb_spec (List.length f) 14) as [L14|L14]; [reflexivity|].
  rewrite idx_ok by (cbn [len of_bytes]; lia). cbn [bind arr of_bytes]. unfold at_.
  rewrite land1. destruct (nth 6 f 0 mod 2 =? 0) eqn:Emc; cbn [negb]; [|reflexivity].
  rewrite be16_at_ok by (unfold cap; cbn [arr of_bytes]; lia). cbn [bind arr of_bytes].
  unfold word_at, at_. change (12 + 1)%nat with 13%nat.
  set (et := be16 (nth 12 f 0) (nth 13 f 0)) in *.
  unfold ETH_P_IP, ETH_P_IPV6.
  destruct (et <? 1536) eqn:E1.
  { destruct (N.eqb_spec et 2048); [lia|]. destruct (N.eqb_spec et 34525); [lia|]. reflexivity. }
  destruct (et =? 2048) eqn:E4.
  - (* IPv4 *)
    rewrite slfrom_ok by (cbn [len of_bytes]; lia). cbn [bind len of_bytes arr].
    rewrite skipn_length.
    destruct (Nat.ltb_spec (List.length f - 14) 20) as [L20|L20]; [reflexivity|].
    rewrite idx_ok by (cbn [len]; lia). cbn [bind arr].
    rewrite be16_at_ok by (unfold cap; cbn [arr]; rewrite skipn_length; lia). cbn [bind arr].
    rewrite !nth_skipn.
    change (14 + 0)%nat with 14%nat. change (14 + 2)%nat with 16%nat. change (14 + (2 + 1))%nat with 17%nat.
    rewrite land15, shl2, shr4.
    set (b0 := nth 14 f 0) in *. set (tl := be16 (nth 16 f 0) (nth 17 f 0)) in *.
    set (hl := N.to_nat (4 * (b0 mod 16))) in *.
    destruct (Nat.ltb_spec hl 20) as [Hhl|Hhl].
    { cbn [orb]. destruct (Nat.leb_spec 20 hl); [lia|]. rewrite andb_false_r. reflexivity. }
    cbn [orb].
    assert (E20 : Nat.leb 20 hl = true) by (apply Nat.leb_le; lia). rewrite E20.
    destruct (Nat.ltb_spec (N.to_nat tl) hl) as [Hth|Hth].
    { rewrite orb_true_r. cbn [orb]. destruct (Nat.leb_spec hl (N.to_nat tl)); [lia|].
      rewrite andb_true_r, andb_false_r. reflexivity. }
    rewrite orb_false_r.
    assert (Ehl : Nat.leb hl (N.to_nat tl) = true) by (apply Nat.leb_le; lia). rewrite Ehl.
    rewrite !andb_true_r.
    destruct (Nat.leb_spec (N.to_nat tl) (List.length f - 14)) as [Ltl|Ltl].
    + assert (Ea : Nat.ltb (List.length f - 14) hl = false) by (apply Nat.ltb_ge; lia).
      assert (Eb : Nat.ltb (List.length f - 14) (N.to_nat tl) = false) by (apply Nat.ltb_ge; lia).
      rewrite Ea, Eb. cbn [orb]. rewrite andb_true_r.
      rewrite idx_ok by (cbn [len]; lia). cbn [bind arr]. rewrite nth_skipn. change (14 + 9)%nat with 23%nat.
      rewrite slfrom_ok by (cbn [len of_bytes]; lia). cbn [bind].
      unfold icmp_notify, IPPROTO_ICMP, IPPROTO_ICMPV6, ICMP4TypeEchoReply, ICMP6TypeEchoReply.
      cbn [len of_bytes arr].
      destruct (nth 23 f 0 =? 1) eqn:Ep.
      * cbn [orb Bool.eqb]. rewrite andb_true_r.
        destruct (b0 / 16 =? 4) eqn:Ev.
        2:{ rewrite !andb_false_r. destruct (Nat.ltb_spec (List.length f - (14 + hl)) 8); [reflexivity|].
            rewrite idx_ok by (cbn [len]; lia). cbn [bind]. rewrite !andb_false_r. reflexivity. }
        rewrite andb_true_r.
        rewrite firstn_length, !skipn_length.
        replace (Nat.min (N.to_nat tl - hl) (List.length f - 14 - hl)) with (N.to_nat tl - hl)%nat by lia.
        destruct (Nat.ltb_spec (List.length f - (14 + hl)) 8) as [Lc|Lc].
        { destruct (Nat.ltb_spec (N.to_nat tl - hl) 8); [reflexivity|lia]. }
        rewrite idx_ok by (cbn [len]; lia). cbn [bind arr]. rewrite nth_skipn.
        destruct (Nat.leb_spec 8 (N.to_nat tl - hl)) as [L8|L8].
        -- destruct (Nat.ltb_spec (N.to_nat tl - hl) 8); [lia|].
           rewrite andb_true_r.
           rewrite (nth_firstn _ _ 0%nat) by lia. rewrite !nth_skipn.
           rewrite (nthf (14 + (hl + 0)) (14 + hl + 0)) by lia.
           destruct (nth (14 + hl + 0) f 0 =? 0); [|reflexivity].
           rewrite be16_at_ok by (unfold cap; cbn [arr]; rewrite skipn_length; lia). cbn [bind arr].
           rewrite (nth_firstn _ _ 4%nat) by lia. rewrite (nth_firstn _ _ (4 + 1)%nat) by lia.
           rewrite !nth_skipn.
           rewrite (nthf (14 + (hl + 4)) (14 + hl + 4)) by lia.
           rewrite (nthf (14 + (hl + (4 + 1))) (14 + hl + (4 + 1))) by lia.
           reflexivity.
        -- rewrite andb_false_r.
           destruct (Nat.ltb_spec (N.to_nat tl - hl) 8); [reflexivity|lia].
      * rewrite andb_false_r. cbn [orb].
        destruct (nth 23 f 0 =? 58) eqn:Ep6; [|reflexivity].
        destruct (Nat.ltb_spec (List.length f - (14 + hl)) 8); [reflexivity|].
        rewrite idx_ok by (cbn [len]; lia). cbn [bind arr Bool.eqb]. rewrite andb_false_r. reflexivity.
    + assert (Eb : Nat.ltb (List.length f - 14) (N.to_nat tl) = true) by (apply Nat.ltb_lt; lia).
      rewrite Eb, orb_true_r. rewrite andb_false_r. reflexivity.
  - destruct (et =? 34525) eqn:E6; [|reflexivity].
    (* IPv6 *)
    rewrite slfrom_ok by (cbn [len of_bytes]; lia). cbn [bind len of_bytes arr].
    rewrite skipn_length.
    destruct (Nat.ltb_spec (List.length f - 14) 40) as [L40|L40]; [reflexivity|].
    rewrite idx_ok by (cbn [len]; lia). cbn [bind arr].
    rewrite be16_at_ok by (unfold cap; cbn [arr]; rewrite skipn_length; lia). cbn [bind arr].
    rewrite !nth_skipn.
    change (14 + 4)%nat with 18%nat. change (14 + (4 + 1))%nat with 19%nat. change (14 + 0)%nat with 14%nat.
    rewrite shr4.
    set (b0 := nth 14 f 0) in *. set (pl := be16 (nth 18 f 0) (nth 19 f 0)) in *.
    replace (Nat.ltb (List.length f - 14) (N.to_nat pl + 40)) with (negb (Nat.leb (40 + N.to_nat pl) (List.length f - 14))).
    2:{ destruct (Nat.leb_spec (40 + N.to_nat pl) (List.length f - 14)), (Nat.ltb_spec (List.length f - 14) (N.to_nat pl + 40)); try reflexivity; lia. }
    destruct (Nat.leb_spec (40 + N.to_nat pl) (List.length f - 14)) as [Lpl|Lpl]; cbn [negb];
      [|rewrite andb_false_r; reflexivity].
    rewrite andb_true_r.
    rewrite idx_ok by (cbn [len]; lia). cbn [bind arr]. rewrite nth_skipn. change (14 + 6)%nat with 20%nat.
    rewrite slfrom_ok by (cbn [len of_bytes]; lia). cbn [bind].
    unfold icmp_notify, IPPROTO_ICMP, IPPROTO_ICMPV6, ICMP4TypeEchoReply, ICMP6TypeEchoReply.
    cbn [len of_bytes arr].
    destruct (nth 20 f 0 =? 58) eqn:Ep.
    + assert (E1' : nth 20 f 0 =? 1 = false) by (apply N.eqb_eq in Ep; rewrite Ep; reflexivity).
      rewrite E1'. cbn [orb Bool.eqb]. rewrite andb_true_r.
      destruct (b0 / 16 =? 6) eqn:Ev.
      2:{ rewrite !andb_false_r. destruct (Nat.ltb_spec (List.length f - 54) 8); [reflexivity|].
          rewrite idx_ok by (cbn [len]; lia). cbn [bind]. rewrite !andb_false_r. reflexivity. }
      rewrite andb_true_r.
      rewrite firstn_length, !skipn_length.
      replace (Nat.min (N.to_nat pl) (List.length f - 14 - 40)) with (N.to_nat pl) by lia.
      destruct (Nat.ltb_spec (List.length f - 54) 8) as [Lc|Lc].
      { destruct (Nat.ltb_spec (N.to_nat pl) 8); [reflexivity|lia]. }
      rewrite idx_ok by (cbn [len]; lia). cbn [bind arr]. rewrite nth_skipn.
      destruct (Nat.leb_spec 8 (N.to_nat pl)) as [L8|L8].
      * destruct (Nat.ltb_spec (N.to_nat pl) 8); [lia|].
        rewrite andb_true_r.
        rewrite (nth_firstn _ _ 0%nat) by lia. rewrite !nth_skipn.
        change (54 + 0)%nat with 54%nat. change (14 + (40 + 0))%nat with 54%nat.
        destruct (nth 54 f 0 =? 129); [|reflexivity].
        rewrite be16_at_ok by (unfold cap; cbn [arr]; rewrite skipn_length; lia). cbn [bind arr].
        rewrite (nth_firstn _ _ 4%nat) by lia. rewrite (nth_firstn _ _ (4 + 1)%nat) by lia.
        rewrite !nth_skipn. reflexivity.
      * rewrite andb_false_r.
        destruct (Nat.ltb_spec (N.to_nat pl) 8); [reflexivity|lia].
    + rewrite andb_false_r.
      destruct (nth 20 f 0 =? 1) eqn:Ep1; cbn [orb]; [|reflexivity].
      destruct (Nat.ltb_spec (List.length f - 54) 8); [reflexivity|].
      rewrite idx_ok by (cbn [len]; lia). cbn [bind arr Bool.eqb]. rewrite andb_false_r. reflexivity.
Qed.

End Frame.

(* ------------------------------------------------------------------ *)
(* consequences: what never completes a ping *)

Lemma request_not_reply f j : rfc_request_id f = Some j -> rfc_reply_id f = None.
Proof.
  unfold rfc_request_id, rfc_reply_id. destruct (icmp_message f) as [[fam m]|]; [|discriminate].
  destruct (Nat.ltb (List.length m) 8); [discriminate|].
  destruct fam.
  - destruct (N.eqb_spec (at_ m 0) 8); [|discriminate]. intros _.
    destruct (N.eqb_spec (at_ m 0) 0); [lia|reflexivity].
  - destruct (N.eqb_spec (at_ m 0) 128); [|discriminate]. intros _.
    destruct (N.eqb_spec (at_ m 0) 129); [lia|reflexivity].
Qed.

(* a frame that is not an echo reply for i (foreign id, echo request, malformed, not ICMP) does
   not make Parse call echoNotify(i) *)
Theorem frame_foreign f i : rfc_reply_id f <> Some i -> parse_notify f <> Ok (Some i).
Proof. intros Hne E. rewrite (frame_agree f) in E. inversion E. congruence. Qed.

Theorem frame_request_silent f j : rfc_request_id f = Some j -> parse_notify f = Ok None.
Proof. intros Hr. rewrite (frame_agree f), (request_not_reply _ _ Hr). reflexivity. Qed.

(* Parse never panics on the path to echoNotify (any bytes, cap = len) *)
Theorem parse_notify_total f : exists o, parse_notify f = Ok o.
Proof. eexists. apply frame_agree. Qed.

(* ------------------------------------------------------------------ *)
(* C19_foreign: a call whose window contains only frames that are not echo replies for its own
   identifier (foreign id, echo request, malformed, not ICMP), timer events and the events of
   other calls, returns ErrTimeout *)

Theorem ping_foreign fx n pre p tmo mid post s :
  n < 65536 ->
  run fx (init n) (pre ++ Begin p tmo :: mid ++ End p :: post) = Ok s ->
  (forall e, In e mid ->
     (exists f, e = frame_event f /\ rfc_reply_id f <> id_of s p)
     \/ (forall j, e <> Notify j)) ->
  result_of s p = Some RTimeout.
Proof.
  intros Hn Hrun Hmid.
  destruct (ping_iff _ _ _ _ _ _ _ _ Hn Hrun) as (i & Hid & _ & Hto).
  apply Hto. intros Hin. destruct (Hmid _ Hin) as [(f & Ef & Hne)|Hno].
  - unfold frame_event in Ef. rewrite (frame_agree f) in Ef.
    destruct (rfc_reply_id f) as [j|]; [|discriminate]. injection Ef as Eij. apply Hne. rewrite Hid, Eij. reflexivity.
  - exact (Hno i eq_refl).
Qed.

(* ------------------------------------------------------------------ *)
(* regression witnesses: one frame of each class that used to complete a ping (recorded findings,
   now repaired in /repo), and well-formed frames *)

(* "IPv4" header with version nibble 5 (0x55), otherwise an echo reply with id 7 *)
Definition w_iphdr : bytes :=
  [0; 85; 85; 85; 85; 85; 2; 25; 0; 0; 0; 0; 8; 0; 85; 0; 0; 28; 0; 0; 0; 0; 64; 1; 248; 251;
   192; 168; 0; 20; 192; 168; 0; 129; 0; 0; 255; 247; 0; 7; 0; 1].

(* IPv6 packet with next header 1 carrying an ICMPv4-style echo reply, id 7 *)
Definition w_family : bytes :=
  [0; 85; 85; 85; 85; 85; 2; 25; 0; 0; 0; 0; 134; 221; 96; 0; 0; 0; 0; 8; 1; 64;
   254; 128; 0; 0; 0; 0; 0; 0; 0; 0; 0; 0; 0; 25; 0; 20; 254; 128; 0; 0; 0; 0; 0; 0; 0; 0; 0; 0; 0; 1; 1; 41;
   0; 0; 255; 247; 0; 7; 0; 1].

(* IPv4 TotalLength 22 = 2 bytes of ICMP; the frame carries 12 *)
Definition w_totallen : bytes :=
  [0; 85; 85; 85; 85; 85; 2; 25; 0; 0; 0; 0; 8; 0; 69; 0; 0; 22; 0; 0; 0; 0; 64; 1; 248; 247;
   192; 168; 0; 20; 192; 168; 0; 129; 0; 0; 233; 211; 0; 7; 0; 1; 4; 11; 18; 25].

(* well-formed: an IPv4 echo request and an IPv6 echo reply, id 7 *)
Definition w_request4 : bytes :=
  [0; 85; 85; 85; 85; 85; 2; 25; 0; 0; 0; 0; 8; 0; 69; 0; 0; 28; 0; 0; 0; 0; 64; 1; 248; 251;
   192; 168; 0; 20; 192; 168; 0; 129; 8; 0; 247; 247; 0; 7; 0; 1].

(* IPv6 PayloadLength 4; the frame carries the 8-byte echo reply *)
Definition w_paylen : bytes :=
  [0; 85; 85; 85; 85; 85; 2; 25; 0; 0; 0; 0; 134; 221; 96; 0; 0; 0; 0; 4; 58; 64;
   254; 128; 0; 0; 0; 0; 0; 0; 0; 0; 0; 0; 0; 25; 0; 20; 254; 128; 0; 0; 0; 0; 0; 0; 0; 0; 0; 0; 0; 1; 1; 41;
   129; 0; 128; 92; 0; 7; 0; 1].

Definition w_reply6 : bytes :=
  [0; 85; 85; 85; 85; 85; 2; 25; 0; 0; 0; 0; 134; 221; 96; 0; 0; 0; 0; 8; 58; 64;
   254; 128; 0; 0; 0; 0; 0; 0; 0; 0; 0; 0; 0; 25; 0; 20; 254; 128; 0; 0; 0; 0; 0; 0; 0; 0; 0; 0; 0; 1; 1; 41;
   129; 0; 128; 92; 0; 7; 0; 1].

Example closed_classes :
  was_C19_iphdr w_iphdr = true /\ parse_notify w_iphdr = Ok None /\
  was_C19_family w_family = true /\ parse_notify w_family = Ok None /\
  was_C19_totallen w_totallen = true /\ parse_notify w_totallen = Ok None /\
  was_C19_paylen w_paylen = true /\ parse_notify w_paylen = Ok None.
Proof. vm_compute. repeat split. Qed.

Example frame_agree_nonvacuous :
  parse_notify w_reply6 = Ok (Some 7) /\ rfc_reply_id w_reply6 = Some 7 /\
  rfc_request_id w_request4 = Some 7 /\ parse_notify w_request4 = Ok None.
Proof. vm_compute. repeat split. Qed.

(* non-vacuity of ping_foreign: an echo request, a reply for another identifier (7, the call has 1),
   the send returning and the timer — the call times out *)
Definition ex_foreign_mid : list event :=
  [frame_event w_request4; frame_event w_reply6; Sent 0%nat true; Tick SECOND; Timeout 0%nat].
Example foreign_nonvacuous :
  exists s, run FIX24 (init 1) ([] ++ Begin 0%nat SECOND :: ex_foreign_mid ++ End 0%nat :: []) = Ok s /\
    (forall e, In e ex_foreign_mid ->
       (exists f, e = frame_event f /\ rfc_reply_id f <> id_of s 0%nat) \/ (forall j, e <> Notify j)) /\
    result_of s 0%nat = Some RTimeout.
Proof.
  eexists. split; [vm_compute; reflexivity|]. split; [|vm_compute; reflexivity].
  intros e [E|[E|[E|[E|[E|[]]]]]]; subst e.
  - left. exists w_request4. split; [reflexivity|]. vm_compute. discriminate.
  - left. exists w_reply6. split; [reflexivity|]. vm_compute. discriminate.
  - right. intros j. discriminate.
  - right. intros j. discriminate.
  - right. intros j. discriminate.
Qed.
