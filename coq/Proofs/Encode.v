(* Proofs/Encode.v — C03, first layer set: Ethernet, IPv4, UDP.
   Technique: the caller's buffer is any slice whose capacity reaches the
   header size, so its storage is [a0 :: ... :: a(k-1) :: rest] with abstract
   elements; the encoder model is then evaluated symbolically ([cbn]) and the
   library view and the reference decoder are evaluated on the result. *)
From PV Require Import Base.Prelude Base.Slice Model.EncodeBase Model.Encode Spec.EncodeRef
     Proofs.EncodeLemmas.
Open Scope N_scope.

(* ================================================================ *)
(* AppendPayload rejects exactly the payloads that exceed the remaining capacity *)

Theorem ip4_append_too_big p b proto :
  (cap p < 20 + length b)%nat <-> ip4_append p b proto = Err EPayloadTooBig.
Proof.
  unfold ip4_append.
  destruct (Nat.ltb_spec (cap p) (20 + length b)) as [H|H]; split; intros H'; try reflexivity; try lia.
  exfalso. revert H'.
  match goal with |- ?r = _ -> False => assert (N : not_err r) end.
  { unfold ip4_ihl, ip4_totlen. ne; try apply ip4_write_checksum_ne. }
  apply N.
Qed.

Theorem udp_append_too_big p b :
  (cap p < 8 + length b)%nat <-> udp_append p b = Err EPayloadTooBig.
Proof.
  unfold udp_append.
  destruct (Nat.ltb_spec (cap p) (8 + length b)) as [H|H]; split; intros H'; try reflexivity; try lia.
  exfalso. revert H'.
  match goal with |- ?r = _ -> False => assert (N : not_err r) end.
  { ne. }
  apply N.
Qed.

Theorem ip6_append_too_big p b nh :
  (cap p < 40 + length b)%nat <-> ip6_append p b false nh = Err EPayloadTooBig.
Proof.
  unfold ip6_append. cbn [orb].
  destruct (Nat.ltb_spec (cap p) (40 + length b)) as [H|H]; split; intros H'; try reflexivity; try lia.
  exfalso. revert H'.
  match goal with |- ?r = _ -> False => assert (N : not_err r) end.
  { ne. }
  apply N.
Qed.

(* a nil payload is rejected as well (b == nil) *)
Lemma ip6_append_nil p nh : ip6_append p [] true nh = Err EPayloadTooBig.
Proof. reflexivity. Qed.

Theorem ether_append_too_big p payload pcap :
  (cap p < length payload + 14)%nat <-> ether_append p payload pcap = Err EPayloadTooBig.
Proof.
  unfold ether_append.
  destruct (Nat.ltb_spec (cap p) (length payload + 14)) as [H|H]; split; intros H'; try reflexivity; try lia.
  exfalso. revert H'.
  match goal with |- ?r = _ -> False => assert (N : not_err r) end.
  { unfold ether_payload, ether_hlen, ether_type. ne. }
  apply N.
Qed.

(* non-vacuity: both sides occur *)
Example ip4_append_too_big_ex :
  ip4_append (mkSlice (repeat 0 24) 20) [1;2;3;4;5] 17 = Err EPayloadTooBig /\
  exists r, ip4_append (mkSlice (69 :: repeat 0 23) 20) [1;2;3;4] 17 = Ok r /\ len r = 24%nat.
Proof. split; [reflexivity|]. eexists. split; [vm_compute; reflexivity|reflexivity]. Qed.

(* ================================================================ *)
(* Ethernet *)

Theorem ether_rt b ht src dst :
  (14 <= cap b)%nat -> length src = 6%nat -> length dst = 6%nat ->
  bytes_ok src -> bytes_ok dst -> ht < 65536 ->
  exists e, encode_ether b ht src dst = Ok e /\
    (* shape: 14 bytes, same storage, nothing beyond byte 14 touched *)
    len e = 14%nat /\ cap e = cap b /\ skipn 14 (arr e) = skipn 14 (arr b) /\
    view e = dst ++ src ++ [hi8 ht; lo8 ht] /\ bytes_ok (view e) /\
    (* library view *)
    ether_is_valid e = true /\ ether_dst e = Ok dst /\ ether_src e = Ok src /\ ether_type e = Ok ht /\
    (* reference decoder *)
    ref_ether (view e) = Some {| re_dst := dst; re_src := src; re_type := ht; re_payload := [] |}.
Proof.
  intros Hc Hs Hd Bs Bd Hht.
  destruct b as [a l]. unfold cap in *. cbn [arr] in *.
  do 14 (destr_list a Hc).
  do 6 (destr_list src Hs). destruct src; [|discriminate].
  do 6 (destr_list dst Hd). destruct dst; [|discriminate].
  eexists. split.
  - unfold encode_ether, cap. cbn. reflexivity.
  - cbn. repeat split; try reflexivity.
    + repeat (apply bytes_ok_cons in Bs; destruct Bs as [? Bs]).
      repeat (apply bytes_ok_cons in Bd; destruct Bd as [? Bd]).
      repeat (apply bytes_ok_cons; split; try assumption); try apply hi8_lt; try apply lo8_lt; try apply bytes_ok_nil.
    + unfold ether_type, be16_at. cbn. rewrite be16_hi_lo by assumption. reflexivity.
    + unfold ref_ether. cbn. unfold w16. rewrite w16_hi_lo by assumption. reflexivity.
Qed.

Example ether_rt_ex :
  exists e, encode_ether (mkSlice (repeat 7 20) 3) 2048 [0;17;34;51;68;85] [102;85;68;51;34;17] = Ok e /\
            view e = [102;85;68;51;34;17;0;17;34;51;68;85;8;0].
Proof. eexists. split; vm_compute; reflexivity. Qed.
