(* Proofs/DNSReject.v — the reverse direction: what ProcessDNS / DecodeAnswers accept, the reference
   accepts too (so a message the reference rejects gives an error), and what an error leaves behind. *)
From PV Require Import Base.Prelude Base.Slice Model.DNS Model.DNSMerge Model.DNSRecords
     Spec.RFC1035 Proofs.RFC1035 Proofs.DNS Proofs.DNSMerge Proofs.DNSRecords Proofs.DNSSpec.
Open Scope N_scope.

Lemma u32_at_view_some p a : wf p -> (a + 4 <= len p)%nat -> exists v, u32_at (view p) a = Some v.
Proof.
  intros Hwf H. unfold u32_at. rewrite !u16_at_view_some by (auto; lia). eauto.
Qed.

Lemma reverse_v4_dotfree ls ip : reverse_v4 ls = Some ip -> Forall dotfree ls.
Proof.
  unfold reverse_v4. destruct ls as [|d [|c [|b [|a [|l1 [|l2 [|x xs]]]]]]]; try discriminate.
  destruct (lab_eqb l1 IN_ADDR) eqn:E1; [|discriminate]. destruct (lab_eqb l2 ARPA) eqn:E2; [|discriminate].
  cbn [andb]. apply lab_eqb_eq in E1, E2. subst.
  destruct (dec_octet a) eqn:Da; [|discriminate]. destruct (dec_octet b) eqn:Db; [|discriminate].
  destruct (dec_octet c) eqn:Dc; [|discriminate]. destruct (dec_octet d) eqn:Dd; [|discriminate]. intros _.
  destruct dotfree_in_addr. repeat constructor; eauto using dec_octet_dotfree.
Qed.

Section Reject.
Variable p : slice.
Hypothesis Hwf : wf p.
Hypothesis Hok : bytes_ok (arr p).
Variable lim : nat.
Hypothesis Hlim : (255 <= lim)%nat.

(* a name the decoder returns is a name the reference reads, and it is within the lifted limit *)
Lemma dotfree_presentable ls : Forall dotfree ls -> presentable ls = true.
Proof.
  unfold presentable. rewrite forallb_forall, Forall_forall. intros H l Hl. apply negb_true_iff. apply existsb_dot. auto.
Qed.

Lemma rr_name_sound off buffer name endq : rr_decode_name p off buffer = Ok (name, endq) ->
  exists ls, ref_decode (view p) off = Some (ls, endq) /\ name = dotted ls /\ name_ok lim ls = true.
Proof.
  unfold rr_decode_name. intros H. apply bind_ok_inv in H as ([[n nx] b] & Hn & H). cbn [fst snd] in H.
  inversion H; subst. apply name_sound_limits in Hn as (ls & Hna & Hd & Hdf & Hw); auto.
  exists ls. split; [apply ref_decode_iff; auto using bytes_ok_view|]. split; [exact Hd|].
  unfold name_ok. apply andb_true_iff. split; [apply Nat.leb_le; lia|apply dotfree_presentable; exact Hdf].
Qed.

Lemma rr_step_sound buffer off e nx u e' e'' :
  rr_step p buffer off e = (Ok (nx, u, e'), e'') ->
  exists r, ref_rr_at lim (view p) off = Some (r, nx) /\ learn lim (view p) r <> LBad.
Proof.
  unfold rr_step. pose proof Hwf as Hwf'. unfold wf in Hwf'.
  destruct (rr_decode_name p off buffer) as [[name endq]|x| |] eqn:Hn; try discriminate.
  destruct (rr_name_sound _ _ _ _ Hn) as (ls & Hdec & -> & Hw).
  destruct (Nat.ltb_spec (len p) (endq + 10)) as [|Hl10]; [discriminate|].
  rewrite !be16_at_ok by lia. rewrite be32_at_ok by lia. cbn [bind].
  set (t := be16 (nth endq (arr p) 0) (nth (endq + 1) (arr p) 0)).
  set (dl := be16 (nth (endq + 8) (arr p) 0) (nth (endq + 8 + 1) (arr p) 0)).
  destruct (Nat.ltb_spec (len p) (endq + 10 + N.to_nat dl)) as [|Hnx]; [discriminate|].
  intros H.
  assert (endq + 4 + 4 <= len p)%nat as H44 by lia.
  destruct (u32_at_view_some p (endq + 4) Hwf H44) as [ttl Httl].
  assert (Hrr : ref_rr_at lim (view p) off =
                Some (mkRR ls t (be16 (nth (endq + 2) (arr p) 0) (nth (endq + 2 + 1) (arr p) 0)) ttl (endq + 10) (N.to_nat dl),
                      (endq + 10 + N.to_nat dl)%nat)).
  { subst t dl. unfold ref_rr_at. rewrite Hdec, Hw.
    rewrite !u16_at_view_some by (auto; lia). rewrite Httl. rewrite view_length by exact Hwf.
    match goal with |- context [Nat.leb ?a ?b] => destruct (Nat.leb_spec a b); [reflexivity|lia] end. }
  assert (Hnx' : nx = (endq + 10 + N.to_nat dl)%nat).
  { destruct (t =? 1); [destruct (negb _); [discriminate|]; destruct (ins_ip _ _ _); inversion H; reflexivity|].
    destruct (t =? 28); [destruct (negb _); [discriminate|]; destruct (ins_ip _ _ _); inversion H; reflexivity|].
    destruct (t =? 5).
    { destruct (rr_decode_name p (endq + 10) buffer) as [[cn ?]|?| |]; try discriminate.
      destruct (ins_name _ _); inversion H; reflexivity. }
    destruct (t =? 12).
    { destruct (parse_ptr_owner (dotted ls)) as [[|a [|b [|c [|d [|y ys]]]]]|]; try (inversion H; reflexivity).
      destruct (rr_decode_name p (endq + 10) buffer) as [[cn ?]|?| |]; try discriminate.
      destruct (ins_ip _ _ _); inversion H; reflexivity. }
    inversion H; reflexivity. }
  subst nx. eexists. split; [exact Hrr|].
  unfold learn. cbn [rr_type rr_rdlen rr_rdoff rr_owner rr_ttl].
  destruct (N.eqb_spec t 1) as [T1|T1].
  { destruct (N.eqb_spec dl 4) as [->|]; [|discriminate]. cbn. discriminate. }
  destruct (N.eqb_spec t 28) as [T28|T28].
  { destruct (N.eqb_spec dl 16) as [->|]; [|discriminate]. cbn. discriminate. }
  destruct (N.eqb_spec t 5) as [T5|T5].
  { destruct (rr_decode_name p (endq + 10) buffer) as [[cn cend]|?| |] eqn:Hc; try discriminate.
    destruct (rr_name_sound _ _ _ _ Hc) as (cls & Hcd & _ & Hcw). rewrite Hcd, Hcw. discriminate. }
  destruct (N.eqb_spec t 12) as [T12|T12]; [|discriminate].
  destruct (reverse_v4 ls) as [ip|] eqn:R; [|discriminate].
  rewrite (ptr_owner_spec ls (reverse_v4_dotfree _ _ R)), R in H. cbn [option_map] in H.
  destruct (reverse_v4_shape _ _ R) as (a4 & b4 & c4 & d4 & ->). cbn [rev app] in H.
  destruct (rr_decode_name p (endq + 10) buffer) as [[pn pend]|?| |] eqn:Hp; try discriminate.
  destruct (rr_name_sound _ _ _ _ Hp) as (pls & Hpd & _ & Hpw). rewrite Hpd, Hpw. discriminate.
Qed.

Lemma decodeRRs_loop_sound buffer : forall count off u e endoff u' e',
  decodeRRs_loop count p buffer off u e = (Ok (endoff, u'), e') ->
  exists rrs, ref_rrs lim count (view p) off = Some (rrs, Z.to_nat endoff) /\
              existsb is_bad (map (learn lim (view p)) rrs) = false.
Proof.
  induction count as [|c IH]; intros off u e endoff u' e' H; cbn [decodeRRs_loop ref_rrs] in *.
  - inversion H; subst. rewrite Nat2Z.id. exists []. auto.
  - destruct (rr_step p buffer off e) as [r e1] eqn:Hs. destruct r as [[[nx u1] e2]|x| |]; try (inversion H; fail).
    destruct (rr_step_sound _ _ _ _ _ _ _ Hs) as (rr & Hrr & Hnb). rewrite Hrr.
    apply IH in H as (rrs & Hrest & Hb). rewrite Hrest. exists (rr :: rrs). split; [reflexivity|].
    cbn [map existsb]. rewrite Hb. destruct (learn lim (view p) rr); try reflexivity. contradiction.
Qed.

(* whatever ProcessDNS accepts, the reference (name-length limit lifted) reads as a well-formed response *)
Theorem processDNS_accepts_wellformed t re : fst (processDNS t p) = Ok re ->
  exists rm, ref_message lim (view p) = Some rm.
Proof.
  unfold processDNS, processDNS_buf. pose proof Hwf as Hwf'. unfold wf in Hwf'.
  destruct (Nat.ltb_spec (len p) 12) as [|H12]; [discriminate|].
  destruct (decodeQuestion p 12 _) as [[q index]|x| |] eqn:Hq; try discriminate.
  pose proof Hq as Hq0. unfold decodeQuestion in Hq0. rewrite be16_at_ok in Hq0 by lia. cbn [bind] in Hq0.
  destruct (N.eqb_spec (be16 (nth 4 (arr p) 0) (nth (4 + 1) (arr p) 0)) 1) as [Hqd|]; [|discriminate]. clear Hq0.
  pose proof Hq as Hq1. unfold decodeQuestion in Hq1. rewrite be16_at_ok in Hq1 by lia. cbn [bind] in Hq1.
  destruct (negb _) in Hq1; [discriminate|]. destruct (Z.ltb _ _) in Hq1; [discriminate|].
  apply bind_ok_inv in Hq1 as ([[qn qe] qb] & Hqn1 & _). unfold decodeNameZ in Hqn1.
  destruct (Z.leb _ _) in Hqn1; [discriminate|]. destruct (Z.ltb _ _) in Hqn1; [discriminate|].
  change (Z.to_nat 12) with 12%nat in Hqn1.
  apply name_sound_limits in Hqn1 as (ls0 & Hna0 & _ & Hdf0 & Hw0); auto.
  apply question_sound in Hq as (_ & ls & n & Hna & Hqn & Hty & Hcl & ->); auto.
  change (Z.to_nat 12) with 12%nat in Hna.
  destruct (name_at_det _ _ _ _ _ _ Hna0 Hna) as [-> _].
  destruct (decodeAnswers p _ _ _) as [r e'] eqn:Ha. intros H.
  assert (exists endoff u, r = Ok (endoff, u)) as (endoff & u & ->).
  { destruct r as [[eo uu]|x| |]; try (cbn in H; discriminate). eauto. }
  unfold decodeAnswers in Ha. rewrite be16_at_ok in Ha by lia.
  set (an := be16 (nth 6 (arr p) 0) (nth (6 + 1) (arr p) 0)) in *.
  assert (exists rrs eo, ref_rrs lim (N.to_nat an) (view p) (n + 4) = Some (rrs, eo) /\
                          existsb is_bad (map (learn lim (view p)) rrs) = false) as (rrs & eo & Hrrs & Hb).
  { unfold decodeRRs in Ha. destruct (N.to_nat an) as [|c] eqn:Ec.
    - exists [], (n + 4)%nat. auto.
    - destruct (Z.ltb_spec (Z.of_nat (n + 4)) 0); [discriminate|]. rewrite Nat2Z.id in Ha.
      apply decodeRRs_loop_sound in Ha as (rrs & Hr & Hb). eauto. }
  unfold ref_message. rewrite !u16_at_view_some by (auto; lia). rewrite Hqd. replace (1 =? 1) with true by reflexivity. cbn [andb].
  rewrite view_length by exact Hwf. destruct (Nat.leb_spec 12 (len p)); [|lia].
  unfold ref_question_at.
  assert (Hdec : ref_decode (view p) 12 = Some (ls, n)) by (apply ref_decode_iff; auto using bytes_ok_view).
  rewrite Hdec.
  assert (name_ok lim ls = true) as ->.
  { unfold name_ok. apply andb_true_iff. split; [apply Nat.leb_le; lia|apply dotfree_presentable; exact Hdf0]. }
  rewrite Hty, Hcl. fold an. rewrite Hrrs, Hb. eauto.
Qed.

(* C17_processdns_rejects: a message the reference rejects even with the name-length limit lifted
   (truncated question or record, name that is no name, RDLENGTH beyond the message, A / AAAA of the
   wrong size, bad CNAME / PTR target, QDCOUNT <> 1, short header) makes ProcessDNS return an error *)
Theorem processDNS_rejects t : ref_message lim (view p) = None -> exists e, fst (processDNS t p) = Err e.
Proof.
  intros Hnone. destruct (processDNS_total t p Hwf) as [Hp Hf].
  destruct (fst (processDNS t p)) as [re|e| |] eqn:E; try contradiction; eauto.
  destruct (processDNS_accepts_wellformed t re E) as [rm Hrm]. congruence.
Qed.

End Reject.

(* ------------------------------------------------------------------ *)
(* What an error leaves behind.  The maps of an entry found in the table are shared with the table
   and updated in place, so records decoded before the malformed one stay; nothing is ever removed,
   no other entry is touched, and a message about a name not yet in the table leaves no trace. *)
Definition prefix_of {A} (a b : list A) : Prop := exists s, b = a ++ s.

Definition entry_grows (e e' : dns_entry) : Prop :=
  de_name e' = de_name e /\ prefix_of (de_ip4 e) (de_ip4 e') /\ prefix_of (de_ip6 e) (de_ip6 e') /\
  prefix_of (de_cname e) (de_cname e') /\ prefix_of (de_ptr e) (de_ptr e').

Lemma prefix_refl {A} (l : list A) : prefix_of l l.
Proof. exists []. symmetry. apply app_nil_r. Qed.
Lemma prefix_trans {A} (a b c : list A) : prefix_of a b -> prefix_of b c -> prefix_of a c.
Proof. intros [s ->] [s' ->]. exists (s ++ s'). symmetry. apply app_assoc. Qed.

Lemma entry_grows_refl e : entry_grows e e.
Proof. unfold entry_grows. auto using prefix_refl. Qed.
Lemma entry_grows_trans a b c : entry_grows a b -> entry_grows b c -> entry_grows a c.
Proof.
  unfold entry_grows. intros (N1 & A1 & B1 & C1 & D1) (N2 & A2 & B2 & C2 & D2).
  repeat split; try congruence; eauto using prefix_trans.
Qed.

Lemma ins_ip_prefix key r l : prefix_of l (fst (ins_ip key r l)).
Proof. unfold ins_ip. destruct (existsb _ l); cbn [fst]; [apply prefix_refl|exists [r]; reflexivity]. Qed.
Lemma ins_name_prefix r l : prefix_of l (fst (ins_name r l)).
Proof. unfold ins_name. destruct (existsb _ l); cbn [fst]; [apply prefix_refl|exists [r]; reflexivity]. Qed.

Lemma rr_step_grows p buffer off e r e2 : rr_step p buffer off e = (r, e2) ->
  entry_grows e e2 /\ (forall o u e1, r = Ok (o, u, e1) -> e1 = e2).
Proof.
  unfold rr_step.
  assert (Hsame : forall (x : res (nat * bool * dns_entry)), (forall o u e1, x = Ok (o, u, e1) -> False) ->
                  (x, e) = (r, e2) -> entry_grows e e2 /\ (forall o u e1, r = Ok (o, u, e1) -> e1 = e2)).
  { intros x Hx H. inversion H; subst. split; [apply entry_grows_refl|]. intros o u e1 E. exfalso. eapply Hx; eauto. }
  assert (Hok : forall o u e1, entry_grows e e1 -> (Ok (o, u, e1), e1) = (r, e2) ->
                entry_grows e e2 /\ (forall o' u' e1', r = Ok (o', u', e1') -> e1' = e2)).
  { intros o u e1 G H. inversion H; subst. split; [exact G|]. intros o' u' e1' E. inversion E; reflexivity. }
  destruct (rr_decode_name p off buffer) as [[name endq]|x| |]; try (apply Hsame; intros; discriminate).
  destruct (Nat.ltb _ _); [apply Hsame; intros; discriminate|].
  destruct (bind _ _) as [[[t ttl] dl]|x| |]; try (apply Hsame; intros; discriminate).
  destruct (Nat.ltb _ _); [apply Hsame; intros; discriminate|].
  destruct (t =? 1).
  { destruct (negb _); [apply Hsame; intros; discriminate|].
    pose proof (ins_ip_prefix ir_ip (mkIPRR name (sub (arr p) (endq + 10) 4) ttl) (de_ip4 e)) as P.
    destruct (ins_ip _ _ _) as [l u]. cbn [fst] in P. apply Hok.
    unfold entry_grows. cbn. auto using prefix_refl. }
  destruct (t =? 28).
  { destruct (negb _); [apply Hsame; intros; discriminate|].
    pose proof (ins_ip_prefix ir_ip (mkIPRR name (sub (arr p) (endq + 10) 16) ttl) (de_ip6 e)) as P.
    destruct (ins_ip _ _ _) as [l u]. cbn [fst] in P. apply Hok.
    unfold entry_grows. cbn. auto using prefix_refl. }
  destruct (t =? 5).
  { destruct (rr_decode_name p (endq + 10) buffer) as [[cn ce]|x| |]; try (apply Hsame; intros; discriminate).
    pose proof (ins_name_prefix (mkNRR name cn ttl) (de_cname e)) as P.
    destruct (ins_name _ _) as [l u]. cbn [fst] in P. apply Hok.
    unfold entry_grows. cbn. auto using prefix_refl. }
  destruct (t =? 12).
  { destruct (parse_ptr_owner name) as [[|a [|b [|c [|d [|y ys]]]]]|];
      try (apply Hok; apply entry_grows_refl).
    destruct (rr_decode_name p (endq + 10) buffer) as [[pn pe]|x| |]; try (apply Hsame; intros; discriminate).
    pose proof (ins_ip_prefix ir_name (mkIPRR pn [d; c; b; a] ttl) (de_ptr e)) as P.
    destruct (ins_ip _ _ _) as [l u]. cbn [fst] in P. apply Hok.
    unfold entry_grows. cbn. auto using prefix_refl. }
  apply Hok. apply entry_grows_refl.
Qed.

Lemma decodeRRs_loop_grows p buffer : forall count off u e, entry_grows e (snd (decodeRRs_loop count p buffer off u e)).
Proof.
  induction count as [|c IH]; intros off u e; cbn [decodeRRs_loop]; [apply entry_grows_refl|].
  destruct (rr_step p buffer off e) as [r e2] eqn:Hs. destruct (rr_step_grows _ _ _ _ _ _ Hs) as [G Hsame].
  destruct r as [[[o u1] e1]|x| |]; cbn [snd]; auto.
  rewrite (Hsame o u1 e1 eq_refl). eapply entry_grows_trans; [exact G|apply IH].
Qed.

Lemma decodeAnswers_grows p off buffer e : entry_grows e (snd (decodeAnswers p off buffer e)).
Proof.
  unfold decodeAnswers. destruct (be16_at p 6); cbn [snd]; try apply entry_grows_refl.
  unfold decodeRRs. destruct (N.to_nat a); cbn [snd]; [apply entry_grows_refl|].
  destruct (Z.ltb _ _); cbn [snd]; [apply entry_grows_refl|]. apply decodeRRs_loop_grows.
Qed.

(* after an error: the table is untouched, or the one entry of the question name (it was there
   before) has grown by the records decoded before the error; nothing else changes *)
Theorem processDNS_error_leaves t p x : fst (processDNS t p) = Err x ->
  snd (processDNS t p) = t \/
  exists e0 e1, tbl_find (de_name e0) t = Some e0 /\ entry_grows e0 e1 /\ snd (processDNS t p) = tbl_put e1 t.
Proof.
  unfold processDNS, processDNS_buf. destruct (Nat.ltb _ 12); [auto|].
  destruct (decodeQuestion p 12 _) as [[q index]|y| |]; cbn [fst snd]; auto.
  pose proof (decodeAnswers_grows p (Z.of_nat index) {| arr := repeat 0 64; len := 0 |}
                match tbl_find (q_name q) t with Some e => e | None => new_entry (q_name q) end) as G.
  destruct (decodeAnswers p _ _ _) as [r e']. cbn [snd] in G.
  destruct (tbl_find (q_name q) t) as [e0|] eqn:F.
  - intros H. destruct r as [[o [|]]|y| |]; cbn [fst snd] in *; try discriminate.
    right. exists e0, e'. rewrite (tbl_find_name _ _ _ F). auto.
  - intros H. destruct r as [[o [|]]|y| |]; cbn [fst snd] in *; try discriminate; auto.
Qed.

(* the partial update is real: second message = one good A record, then a truncated record *)
Example processDNS_error_persists :
  let q := [1; 97; 0; 0; 1; 0; 1] in
  let a ip := [192; 12; 0; 1; 0; 1; 0; 0; 0; 60; 0; 4; 10; 0; 0; ip] in
  let m1 := of_bytes ([0;1;129;128; 0;1; 0;1; 0;0; 0;0] ++ q ++ a 1) in
  let m2 := of_bytes ([0;2;129;128; 0;1; 0;2; 0;0; 0;0] ++ q ++ a 2 ++ [192; 12; 0; 1]) in
  let t1 := snd (processDNS [] m1) in
  fst (processDNS t1 m2) = Err EOther /\
  map (fun e => List.length (de_ip4 e)) t1 = [1%nat] /\
  map (fun e => List.length (de_ip4 e)) (snd (processDNS t1 m2)) = [2%nat].
Proof. vm_compute. repeat split; reflexivity. Qed.
