(* Proofs/FastlogLine.v — arrays (rendering when they fit, containment for any
   length), every op of a line, and whole lines. *)
From PV Require Import Base.Prelude Model.Fastlog Model.FastlogOps Spec.TextSpec
  Proofs.Fastlog Proofs.FastlogIP6.
Open Scope N_scope.

(* ---------------------------------------------------------------- stepping through a bind *)

Lemma extends_wf l t l' : extends l t l' -> wf l'.
Proof. intros (W & _). exact W. Qed.
Lemma extends_index l t l' : extends l t l' -> index l' = (index l + List.length t)%nat.
Proof. intros (_ & I & _). exact I. Qed.

Lemma step_emits m c t l0 T l :
  emits m c t -> extends l0 T l -> (index l0 + List.length T + List.length t + m <= BUFSZ)%nat ->
  exists l1, extends l0 (T ++ t) l1 /\ forall k : line -> res line, bind (c l) k = k l1.
Proof.
  intros E X F. destruct X as (W & I & Tx).
  destruct (E l W) as (l1 & R & X1); [lia|].
  exists l1. split.
  - eapply extends_trans; [|exact X1]. repeat split; auto.
  - intros k. rewrite R. reflexivity.
Qed.

Ltac norm_app := repeat (progress (repeat rewrite <- app_assoc; cbn [app])).
Ltac fit := repeat (progress (repeat rewrite app_length in *; cbn [List.length] in *)); unfold text, bytes, byte in *; lia.

(* step E: E proves [emits m c t] for the head of the bind in the goal; X is the running [extends] *)
Ltac step X E :=
  let l1 := fresh "l" in let X1 := fresh "X" in let R := fresh "R" in
  destruct (step_emits _ _ _ _ _ _ E X) as (l1 & X1 & R); [fit|];
  cbv beta in R; rewrite R; clear R; clear X; rename X1 into X.

(* l.index-- after a byte that is taken back *)
Lemma extends_dec l t c l1 :
  extends l (t ++ [c]) l1 -> (index l1 <= BUFSZ)%nat -> wf l -> (index l <= BUFSZ)%nat ->
  extends l t (dec_index l1).
Proof.
  intros (W1 & I1 & T1) H1 W H. unfold wf in *. rewrite app_length in I1. cbn [List.length] in I1.
  repeat split.
  - exact W1.
  - unfold dec_index. cbn [index]. lia.
  - unfold text_of in *. unfold dec_index. cbn [index buf].
    assert (L : List.length (firstn (index l) (buf l) ++ t) = Nat.pred (index l1)).
    { rewrite app_length, firstn_length. lia. }
    replace (firstn (Nat.pred (index l1)) (buf l1))
      with (firstn (Nat.pred (index l1)) (firstn (index l1) (buf l1)))
      by (rewrite firstn_firstn; f_equal; lia).
    rewrite <- L at 1.
    replace (firstn (index l1) (buf l1)) with ((firstn (index l) (buf l) ++ t) ++ [c])
      by (rewrite T1, app_assoc; reflexivity).
    rewrite <- (Nat.add_0_r (List.length (firstn (index l) (buf l) ++ t))).
    rewrite firstn_app_2. cbn [firstn]. apply app_nil_r.
Qed.

Lemma removelast_snoc (t : bytes) : t <> [] -> exists c, t = removelast t ++ [c].
Proof. intros H. exists (last t 0). apply app_removelast_last. exact H. Qed.

(* ---------------------------------------------------------------- the value of an IP field / array element *)

Definition ip_body (l : line) (ip : bytes) : res line :=
  match to4 ip with
  | Some [a; b; c; d] => put_ip4 l a b c d
  | _ => append_ip6 l ip
  end.

Lemma to4_other ip : List.length ip <> 4%nat -> List.length ip <> 16%nat -> to4 ip = None.
Proof.
  intros H4 H16. unfold to4.
  do 4 (destruct ip as [|? ip]; [reflexivity|]).
  destruct ip as [|? ip]; [cbn in H4; lia|].
  do 11 (destruct ip as [|? ip]; [reflexivity|]).
  destruct ip as [|? ip]; [cbn in H16; lia|reflexivity].
Qed.

Lemma emits_ip_body m ip : bytes_ok ip -> emits m (fun l => ip_body l ip) (ipslice_text (Some ip)).
Proof.
  intros B. unfold ipslice_text, ip_body.
  destruct (Nat.eqb_spec (List.length ip) 4) as [H4|H4].
  - cbn [orb]. do 4 (destruct ip as [|? ip]; [discriminate|]). destruct ip; [|discriminate].
    unfold bytes_ok in B.
    repeat match goal with H : Forall _ (_ :: _) |- _ => inversion H; clear H; subst end.
    unfold netip_text. cbn [List.length Nat.eqb to4]. apply emits_put_ip4; assumption.
  - cbn [orb]. destruct (Nat.eqb_spec (List.length ip) 16) as [H|H].
    + unfold netip_text. rewrite H. cbn [Nat.eqb]. rewrite (to4_16 ip H).
      destruct (is4in6 ip) eqn:E4.
      * do 16 (destruct ip as [|? ip]; [discriminate|]). destruct ip; [|discriminate].
        unfold bytes_ok in B.
        repeat match goal with H : Forall _ (_ :: _) |- _ => inversion H; clear H; subst end.
        cbn [skipn]. apply emits_put_ip4; assumption.
      * apply emits_append_ip6; assumption.
    + rewrite (to4_other ip H4 H). apply emits_append_ip6_nil. exact H.
Qed.

(* ---------------------------------------------------------------- StringArray *)

Definition selem (v : bytes) : text := QUOTE :: v ++ [QUOTE; 44; SP].

Lemma sa_loop_fit vs : forall l0 T l,
  extends l0 T l ->
  (index l0 + List.length T + List.length (concat (map selem vs)) <= BUFSZ)%nat ->
  exists l', sa_loop vs l = Ok l' /\ extends l0 (T ++ concat (map selem vs)) l'.
Proof.
  induction vs as [|v r IH]; intros l0 T l X F; cbn [sa_loop map concat] in *.
  - exists l. split; [reflexivity|]. rewrite app_nil_r. exact X.
  - rewrite app_length in F. unfold selem at 1 in F. cbn [List.length] in F. rewrite app_length in F.
    cbn [List.length] in F.
    pose proof (extends_index _ _ _ X) as I.
    destruct (Nat.ltb_spec BUFSZ (index l + List.length v + 4)) as [G|G]; [lia|].
    step X (emits_byte 0 34). step X (emits_copy 0 v). step X (emits_byte 0 34).
    step X (emits_byte 0 44). step X (emits_byte 0 32).
    destruct (IH l0 _ l5 X) as (l' & R & X'); [fit|].
    exists l'. split; [exact R|].
    replace (T ++ selem v ++ concat (map selem r))
      with ((((((T ++ [34]) ++ v) ++ [34]) ++ [44]) ++ [32]) ++ concat (map selem r)); [exact X'|].
    unfold selem, QUOTE, SP. norm_app. reflexivity.
Qed.

Lemma string_array_fit l name vs :
  wf l -> fits l (fld name (strarr_text vs)) ->
  appended l (fld name (strarr_text vs)) (f_string_array l name vs).
Proof.
  intros W F. unfold fits, fld in F. cbn [List.length] in F. rewrite app_length in F. cbn [List.length] in F.
  unfold f_string_array.
  assert (L2 : (2 <= List.length (strarr_text vs))%nat).
  { unfold strarr_text. destruct vs; cbn [List.length]; [lia|]. rewrite app_length. cbn [List.length]. lia. }
  destruct (Nat.ltb_spec BUFSZ (index l + List.length name + 4)) as [G|G]; [lia|].
  pose proof (extends_refl l W) as X.
  unfold field_open.
  assert (EO : emits 0 (fun l => field_open l name) (SP :: name ++ [EQ])) by apply emits_field_open.
  unfold field_open in EO. step X EO. step X (emits_byte 0 91).
  destruct vs as [|v r].
  - destruct (step_emits 0 _ _ _ _ _ (emits_byte 0 93) X) as (l2 & X2 & R); [fit|].
    specialize (R (fun l => Ok l)). cbv beta in R.
    exists l2. split.
    + destruct (append_byte l1 93); cbn [bind] in R; congruence.
    + unfold fld, strarr_text. cbn [app] in *. rewrite <- !app_assoc in X2. cbn [app] in X2. exact X2.
  - set (vs := v :: r) in *.
    assert (NE : concat (map selem vs) <> []) by (unfold vs, selem; cbn; discriminate).
    destruct (removelast_snoc _ NE) as (c & EC).
    assert (LS : List.length (strarr_text vs) = S (List.length (concat (map selem vs)))).
    { unfold strarr_text, vs. fold vs. cbn [List.length]. rewrite app_length. cbn [List.length].
      change (map (fun v0 : list byte => QUOTE :: v0 ++ [QUOTE; 44; SP]) vs) with (map selem vs).
      rewrite EC at 2. rewrite app_length. cbn [List.length]. lia. }
    destruct (sa_loop_fit vs l _ l1 X) as (l2 & R2 & X2); [fit|].
    rewrite R2. cbn [bind].
    pose proof (extends_index _ _ _ X2) as I2.
    rewrite EC in X2. rewrite app_assoc in X2.
    apply extends_dec in X2; [|fit|exact W|lia].
    destruct (step_emits 0 _ _ _ _ _ (emits_byte 0 93) X2) as (l3 & X3 & R); [rewrite EC in LS; fit|].
    specialize (R (fun l => Ok l)). cbv beta in R.
    exists l3. split.
    + destruct (append_byte (dec_index l2) 93); cbn [bind] in R; congruence.
    + replace (fld name (strarr_text vs))
        with (((([] ++ SP :: name ++ [EQ]) ++ [91]) ++ removelast (concat (map selem vs))) ++ [93]); [exact X3|].
      subst vs. unfold fld, strarr_text. norm_app. reflexivity.
Qed.

(* ---------------------------------------------------------------- IPArray *)

Lemma ia_loop_fit vs : forall l0 T l,
  extends l0 T l -> Forall ipv_ok vs -> iparr_room (index l) vs = true ->
  (index l0 + List.length T + List.length (concat (map iparr_elem vs)) <= BUFSZ)%nat ->
  exists l', ia_loop vs l = Ok l' /\ extends l0 (T ++ concat (map iparr_elem vs)) l'.
Proof.
  induction vs as [|v r IH]; intros l0 T l X OKs RM F; cbn [ia_loop map concat iparr_room] in *.
  - exists l. split; [reflexivity|]. rewrite app_nil_r. exact X.
  - apply andb_prop in RM. destruct RM as [RM1 RM2]. apply Nat.leb_le in RM1.
    inversion OKs as [|? ? OKv OKr]; subst.
    pose proof (extends_index _ _ _ X) as I.
    destruct (Nat.ltb_spec BUFSZ (index l + IPARR_ROOM)) as [G|G]; [lia|].
    rewrite app_length in F. unfold iparr_elem at 1 in F. rewrite app_length in F. cbn [List.length] in F.
    assert (EV : emits 0 (fun l => match v with
                                   | Some ip => match to4 ip with
                                                | Some [a; b; c; d] => put_ip4 l a b c d
                                                | _ => append_ip6 l ip
                                                end
                                   | None => Ok l
                                   end)
                       (match v with None => [] | Some _ => ipslice_text v end)).
    { destruct v as [ip|]; [|apply emits_ok]. apply (emits_ip_body 0 ip). exact OKv. }
    step X EV. step X (emits_byte 0 44). step X (emits_byte 0 32).
    destruct (IH l0 _ l3 X OKr) as (l' & R & X').
    + replace (index l3) with (index l + List.length (iparr_elem v))%nat; [exact RM2|].
      rewrite (extends_index _ _ _ X), I. unfold iparr_elem. fit.
    + fit.
    + exists l'. split; [exact R|].
      replace (T ++ iparr_elem v ++ concat (map iparr_elem r))
        with ((((T ++ match v with None => [] | Some _ => ipslice_text v end) ++ [44]) ++ [32]) ++ concat (map iparr_elem r));
        [exact X'|]. unfold iparr_elem, SP. norm_app. reflexivity.
Qed.

Lemma ip_array_fit l name vs :
  wf l -> Forall ipv_ok vs -> op_fits (index l) (OIPArr name vs) = true ->
  appended l (fld name (iparr_text vs)) (f_ip_array l name vs).
Proof.
  intros W OKs F. unfold op_fits in F. apply andb_prop in F. destruct F as [F RM].
  apply Nat.leb_le in F. cbn [spec_text] in F. unfold fld in F. cbn [List.length] in F.
  rewrite app_length in F. cbn [List.length] in F.
  unfold f_ip_array.
  assert (L2 : (2 <= List.length (iparr_text vs))%nat).
  { unfold iparr_text. destruct vs; cbn [List.length]; [lia|]. rewrite app_length. cbn [List.length]. lia. }
  destruct (Nat.ltb_spec BUFSZ (index l + List.length name + 4)) as [G|G]; [lia|].
  pose proof (extends_refl l W) as X.
  unfold field_open.
  assert (EO : emits 0 (fun l => field_open l name) (SP :: name ++ [EQ])) by apply emits_field_open.
  unfold field_open in EO. step X EO. step X (emits_byte 0 91).
  destruct vs as [|v r].
  - destruct (step_emits 0 _ _ _ _ _ (emits_byte 0 93) X) as (l2 & X2 & R); [fit|].
    specialize (R (fun l => Ok l)). cbv beta in R.
    exists l2. split.
    + destruct (append_byte l1 93); cbn [bind] in R; congruence.
    + unfold fld, iparr_text. cbn [app] in *. rewrite <- !app_assoc in X2. cbn [app] in X2. exact X2.
  - set (vs := v :: r) in *.
    assert (NE : concat (map iparr_elem vs) <> []).
    { intros E. apply (f_equal (@List.length _)) in E. unfold vs in E. cbn [map concat] in E.
      rewrite app_length in E. unfold iparr_elem at 1 in E. rewrite app_length in E. cbn [List.length] in E. lia. }
    destruct (removelast_snoc _ NE) as (c & EC).
    assert (LS : List.length (iparr_text vs) = S (List.length (concat (map iparr_elem vs)))).
    { unfold iparr_text, vs. fold vs. cbn [List.length]. rewrite app_length. cbn [List.length].
      rewrite EC at 2. rewrite app_length. cbn [List.length]. lia. }
    destruct (ia_loop_fit vs l _ l1 X OKs) as (l2 & R2 & X2).
    + rewrite (extends_index _ _ _ X).
      match goal with |- iparr_room ?a _ = true => replace a with (index l + List.length name + 3)%nat by fit end.
      exact RM.
    + fit.
    + rewrite R2. cbn [bind].
      pose proof (extends_index _ _ _ X2) as I2.
      rewrite EC in X2. rewrite app_assoc in X2.
      apply extends_dec in X2; [|fit|exact W|lia].
      destruct (step_emits 0 _ _ _ _ _ (emits_byte 0 93) X2) as (l3 & X3 & R); [rewrite EC in LS; fit|].
      specialize (R (fun l => Ok l)). cbv beta in R.
      exists l3. split.
      * destruct (append_byte (dec_index l2) 93); cbn [bind] in R; congruence.
      * replace (fld name (iparr_text vs))
          with (((([] ++ SP :: name ++ [EQ]) ++ [91]) ++ removelast (concat (map iparr_elem vs))) ++ [93]); [exact X3|].
        subst vs. unfold fld, iparr_text. norm_app. reflexivity.
Qed.

(* ---------------------------------------------------------------- ByteArray *)

Definition belem (v : byte) : text := hex2 v ++ [SP].

Lemma ba_loop_fit vs : forall l0 T l,
  extends l0 T l -> bytes_ok vs ->
  (index l0 + List.length T + List.length (concat (map belem vs)) <= BUFSZ)%nat ->
  exists l', ba_loop vs l = Ok l' /\ extends l0 (T ++ concat (map belem vs)) l'.
Proof.
  induction vs as [|v r IH]; intros l0 T l X B F; cbn [ba_loop map concat] in *.
  - exists l. split; [reflexivity|]. rewrite app_nil_r. exact X.
  - inversion B as [|? ? Bv Br]; subst.
    rewrite app_length in F. unfold belem at 1 in F. rewrite app_length in F. cbn [List.length] in F.
    step X (emits_write_hex 0 v Bv). step X (emits_byte 0 32).
    destruct (IH l0 _ l2 X Br) as (l' & R & X'); [fit|].
    exists l'. split; [exact R|].
    replace (T ++ belem v ++ concat (map belem r)) with (((T ++ hex2 v) ++ [32]) ++ concat (map belem r)); [exact X'|].
    unfold belem, SP. norm_app. reflexivity.
Qed.

Lemma join_belem (vs : bytes) : vs <> [] ->
  concat (map belem vs) = join [SP] (map hex2 vs) ++ [SP].
Proof.
  induction vs as [|a r IH]; intros H; [contradiction|].
  destruct r as [|b r'].
  - cbn [map concat join]. unfold belem. rewrite app_nil_r. reflexivity.
  - change (map hex2 (a :: b :: r')) with (hex2 a :: map hex2 (b :: r')).
    change (join [SP] (hex2 a :: map hex2 (b :: r'))) with (hex2 a ++ [SP] ++ join [SP] (map hex2 (b :: r'))).
    change (concat (map belem (a :: b :: r'))) with (belem a ++ concat (map belem (b :: r'))).
    rewrite IH by discriminate. unfold belem. norm_app. reflexivity.
Qed.

Lemma byte_array_fit l name v :
  wf l -> bytes_ok v -> op_fits (index l) (OByteArr name v) = true ->
  appended l (fld name (bytearr_text v)) (f_byte_array l name v).
Proof.
  intros W B F.
  assert (FL : (index l + List.length name + 3 + 3 * List.length v + (match v with [] => 1 | _ => 1 end) <= BUFSZ)%nat
               /\ List.length (concat (map belem v)) = (3 * List.length v)%nat).
  { assert (LC : List.length (concat (map belem v)) = (3 * List.length v)%nat).
    { clear. induction v as [|a r IH]; [reflexivity|]. cbn [map concat List.length]. rewrite app_length, IH.
      unfold belem, hex2. cbn [List.length app]. lia. }
    split; [|exact LC].
    unfold op_fits in F. destruct v as [|a r].
    - apply Nat.leb_le in F. cbn [spec_text] in F. unfold fld, bytearr_text in F. cbn [map join app List.length] in F.
      rewrite app_length in F. cbn [List.length] in F. cbn [List.length]. lia.
    - apply Nat.leb_le in F. cbn [spec_text] in F. unfold fld, bytearr_text in F. cbn [List.length] in F.
      rewrite app_length in F. cbn [List.length] in F. rewrite app_length in F. cbn [List.length] in F.
      assert (J : S (List.length (join [SP] (map hex2 (a :: r)))) = List.length (concat (map belem (a :: r)))).
      { rewrite join_belem by discriminate. rewrite app_length. cbn [List.length]. lia. }
      rewrite LC in J. lia. }
  destruct FL as [FL LC].
  unfold f_byte_array.
  assert (NT : (Z.of_nat BUFSZ - Z.of_nat (index l) - 1 - Z.of_nat (List.length name) - 2 <=? Z.of_nat (List.length v) * 3)%Z = false).
  { apply Z.leb_gt. destruct v; cbn [List.length] in *; lia. }
  rewrite NT. cbn [andb].
  pose proof (extends_refl l W) as X.
  replace (mkLine (buf l) (index l)) with l by (destruct l; reflexivity).
  step X (emits_byte 0 32). step X (emits_copy 0 name). step X (emits_copy 0 [61; 91]).
  destruct (ba_loop_fit v l _ l2 X B) as (l3 & R3 & X3); [destruct v; fit|].
  rewrite R3. cbn [bind].
  destruct v as [|a r].
  - cbn [map concat] in X3. rewrite app_nil_r in X3.
    destruct (step_emits 0 _ _ _ _ _ (emits_byte 0 93) X3) as (l4 & X4 & R); [fit|].
    specialize (R (fun l => Ok l)). cbv beta in R.
    exists l4. split.
    + exact R.
    + replace (fld name (bytearr_text [])) with (((([] ++ [32]) ++ name) ++ [61; 91]) ++ [93]); [exact X4|].
      unfold fld, bytearr_text, SP, EQ. cbn [map join]. norm_app. reflexivity.
  - set (v := a :: r) in *.
    rewrite (join_belem v) in X3 by (unfold v; discriminate). rewrite app_assoc in X3.
    pose proof (extends_index _ _ _ X3) as I3.
    apply extends_dec in X3; [|rewrite I3; rewrite join_belem in LC by (unfold v; discriminate); fit|exact W|lia].
    destruct (step_emits 0 _ _ _ _ _ (emits_byte 0 93) X3) as (l4 & X4 & R).
    { rewrite join_belem in LC by (unfold v; discriminate). fit. }
    specialize (R (fun l => Ok l)). cbv beta in R.
    exists l4. split.
    + exact R.
    + replace (fld name (bytearr_text v)) with ((((([] ++ [32]) ++ name) ++ [61; 91]) ++ join [SP] (map hex2 v)) ++ [93]); [exact X4|].
      unfold fld, bytearr_text, SP, EQ. norm_app. reflexivity.
Qed.

(* ---------------------------------------------------------------- IP (netip.Addr through AppendTo), Module *)

Lemma emits_appendto m t :
  emits m (fun l => if Nat.ltb BUFSZ (index l) then Panic
                    else Ok (mkLine (write_at (buf l) (index l) (firstn (BUFSZ - index l) t))
                                    (index l + List.length t))) t.
Proof.
  intros l W F. destruct (Nat.ltb_spec BUFSZ (index l)) as [H|H]; [lia|].
  rewrite firstn_all2 by lia. eexists; split; [reflexivity|]. apply extends_write_at; auto. lia.
Qed.

Lemma emits_ip m name (a : option bytes) t :
  emits m (fun l => f_ip l name (match a with Some _ => Some t | None => None end))
          (fld name (match a with Some _ => t | None => NIL end)).
Proof.
  unfold f_ip. apply emits_field. destruct a; apply emits_copy.
Qed.

Lemma write_at_over b i A B :
  (List.length B <= List.length A)%nat -> (i + List.length A <= List.length b)%nat ->
  write_at (write_at b i A) i B = write_at b i (B ++ skipn (List.length B) A).
Proof.
  intros H1 H2. unfold write_at.
  assert (Li : List.length (firstn i b) = i) by (rewrite firstn_length; lia).
  rewrite <- Li at 1. rewrite firstn_app. rewrite Li. rewrite Nat.sub_diag. cbn [firstn]. rewrite app_nil_r.
  rewrite firstn_firstn. replace (Nat.min i i) with i by lia.
  rewrite <- Li at 4. rewrite skipn_app. rewrite Li.
  rewrite (skipn_all2 (firstn i b)) by lia. cbn [app].
  replace (i + List.length B - i)%nat with (List.length B) by lia.
  rewrite skipn_app. rewrite (proj2 (Nat.sub_0_le _ _) H1). cbn [skipn].
  rewrite <- !app_assoc. do 3 f_equal.
  rewrite app_length, skipn_length. f_equal. lia.
Qed.

Lemma module7_skipn m :
  module7 m = firstn 6 m ++ skipn (List.length (firstn 6 m)) [32; 32; 32; 32; 32; 32; 58].
Proof.
  unfold module7.
  destruct m as [|? [|? [|? [|? [|? [|? [|? r]]]]]]]; reflexivity.
Qed.

Lemma emits_new_module m mo msg :
  emits m (fun l => new_module l mo msg)
    ((match mo with [] => [] | _ => module7 mo end)
     ++ (match msg with [] => [] | _ => SP :: QUOTE :: msg ++ [QUOTE] end)).
Proof.
  unfold new_module. apply emits_bind.
  - destruct mo as [|x mo']; [apply emits_ok|]. set (mo := x :: mo').
    intros l W F.
    assert (L7 : List.length (module7 mo) = 7%nat).
    { unfold module7. rewrite !app_length, repeat_length, firstn_length. cbn [List.length]. lia. }
    rewrite L7 in F. unfold wf in W.
    destruct (Nat.ltb_spec BUFSZ (index l)) as [H|H]; [lia|].
    destruct (Nat.ltb_spec BUFSZ (index l + 6)) as [H6|H6]; [lia|].
    rewrite !Nat.min_l by lia.
    change (firstn 7 [32; 32; 32; 32; 32; 32; 58]) with [32; 32; 32; 32; 32; 32; 58].
    eexists; split; [reflexivity|].
    rewrite write_at_over.
    + rewrite <- module7_skipn. rewrite <- L7. apply extends_write_at; [exact W|]. rewrite L7. lia.
    + rewrite firstn_length. cbn [List.length]. lia.
    + cbn [List.length]. lia.
  - destruct msg as [|y msg']; [apply emits_ok|]. set (msg := y :: msg').
    change (SP :: QUOTE :: msg ++ [QUOTE]) with ([SP] ++ [QUOTE] ++ msg ++ [QUOTE]).
    apply emits_bind; [apply emits_byte|]. apply emits_bind; [apply emits_byte|].
    apply emits_bind; [apply emits_copy|apply emits_byte].
Qed.

Lemma emits_module m mo msg :
  emits m (fun l => f_module l mo msg) (spec_text (OModule mo msg)).
Proof.
  unfold f_module. cbn [spec_text].
  change (10 :: (match mo with [] => [] | _ => module7 mo end) ++ (match msg with [] => [] | _ => SP :: QUOTE :: msg ++ [QUOTE] end))
    with ([10] ++ ((match mo with [] => [] | _ => module7 mo end) ++ (match msg with [] => [] | _ => SP :: QUOTE :: msg ++ [QUOTE] end))).
  apply emits_bind; [apply emits_byte|apply emits_new_module].
Qed.

(* ---------------------------------------------------------------- every op *)

Lemma op_fits_le idx o : op_fits idx o = true -> (idx + List.length (spec_text o) <= BUFSZ)%nat.
Proof.
  unfold op_fits. destruct o; try (intros H; apply Nat.leb_le in H; lia).
  - intros H. apply andb_prop in H. destruct H as [H _]. apply Nat.leb_le in H. lia.
  - destruct v; intros H; apply Nat.leb_le in H; lia.
Qed.

Theorem op_appended l o :
  wf l -> op_ok o -> op_fits (index l) o = true -> appended l (spec_text o) (run_op l o).
Proof.
  intros W OK F. pose proof (op_fits_le _ _ F) as FL.
  destruct o; cbn [run_op spec_text op_ok] in *.
  - apply (emits_appended _ _ (emits_uint 0 name v OK)); auto.
  - apply (emits_appended _ _ (emits_uint8hex 0 name v OK)); auto.
  - apply (emits_appended _ _ (emits_uint16hex 0 name v OK)); auto.
  - subst t. apply (emits_appended _ _ (emits_int 0 name (dec_Z z))); auto.
  - apply (emits_appended _ _ (emits_bool 0 name v)); auto.
  - destruct (Nat.eqb_spec (List.length m) 6) as [E|E].
    + apply field_mac; auto.
    + apply (emits_appended _ _ (emits_mac_nil 0 name m E)); auto.
  - destruct v as [ip|].
    + assert (E : emits 0 (fun l => f_ipslice l name (Some ip)) (fld name (ipslice_text (Some ip)))).
      { unfold f_ipslice. apply emits_field. apply (emits_ip_body 0 ip OK). }
      apply (emits_appended _ _ E); auto.
    + apply (emits_appended _ _ (emits_ipslice_nil 0 name)); auto.
  - destruct a as [b|].
    + subst t. apply (emits_appended _ _ (emits_ip 0 name (Some b) (addr_text (Some b)))); auto.
    + apply (emits_appended _ _ (emits_ip 0 name None t)); auto.
  - apply (emits_appended _ _ (emits_string 0 name v)); auto.
  - apply (emits_appended _ _ (emits_bytes 0 name v)); auto.
  - apply (emits_appended _ _ (emits_label 0 name)); auto.
  - apply (emits_appended _ _ (emits_error 0 t)); auto.
  - destruct t as [s|].
    + apply (emits_appended _ _ (emits_stringer 0 (Some s))); auto.
    + apply (emits_appended _ _ (emits_stringer 0 None)); auto.
  - apply (emits_appended _ _ (emits_text 0 name t)); auto.
  - apply (emits_appended _ _ (emits_lf 0)); auto.
  - apply (emits_appended _ _ (emits_module 0 m msg)); auto.
  - apply string_array_fit; auto.
  - apply ip_array_fit; auto.
  - apply byte_array_fit; auto.
Qed.

(* ---------------------------------------------------------------- whole lines *)

Theorem line_renders os : forall l,
  wf l -> (index l <= BUFSZ)%nat -> Forall op_ok os -> line_fits (index l) os = true ->
  exists l', run_ops l os = Ok l' /\ extends l (concat (map spec_text os)) l' /\
             to_string l' = Ok (text_of l ++ concat (map spec_text os)).
Proof.
  induction os as [|o r IH]; intros l W Hi OKs F; cbn [run_ops map concat line_fits] in *.
  - exists l. split; [reflexivity|]. split; [apply extends_refl; exact W|].
    unfold to_string. destruct (Nat.ltb_spec BUFSZ (index l)); [lia|]. rewrite app_nil_r. reflexivity.
  - apply andb_prop in F. destruct F as [F1 F2]. inversion OKs as [|? ? OKo OKr]; subst.
    destruct (op_appended l o W OKo F1) as (l1 & R1 & X1).
    pose proof (op_fits_le _ _ F1) as FL.
    destruct X1 as (W1 & I1 & T1).
    destruct (IH l1 W1) as (l2 & R2 & X2 & S2); auto; [rewrite I1; exact FL|rewrite I1; exact F2|].
    exists l2. rewrite R1. cbn [bind]. split; [exact R2|]. split.
    + eapply extends_trans; [|exact X2]. repeat split; auto.
    + rewrite S2, T1. rewrite <- app_assoc. reflexivity.
Qed.

(* Write() gives the same text followed by a line feed when one more byte fits *)
Lemma write_out_text l : wf l -> (index l < BUFSZ)%nat -> write_out l = Ok (text_of l ++ [10]).
Proof.
  intros W H. unfold write_out. destruct (Nat.leb_spec BUFSZ (index l)); [lia|]. cbv zeta iota.
  destruct (Nat.ltb_spec (index l) BUFSZ); [|exfalso; lia]. f_equal. unfold text_of. unfold wf in W.
  apply firstn_S_set_nth. unfold byte in *. lia.
Qed.

(* non-vacuity: a line with one op of most kinds *)
Definition ex_ops : list op :=
  [OUint [97] 65535; OHex8 [98] 171; OHex16 [99] 43981; OInt [100] (-42)%Z (dec_Z (-42)%Z); OBool [101] true;
   OMac [102] [0; 170; 187; 204; 221; 238]; OIPSlice [103] (Some [192; 168; 0; 1]);
   OIPSlice [104] (Some ex_ip6); OIP [105] (Some ex_ip6) (addr_text (Some ex_ip6));
   OString [106] [120; 121]; OStrArr [107] [[97]; [98; 99]]; OIPArr [108] [Some [10; 0; 0; 1]; None; Some ex_ip6];
   OByteArr [109] [1; 2; 255]; OModule [109; 111; 100] [104; 105]; OLF].
Lemma line_nonvacuous :
  wf ex_line /\ (index ex_line <= BUFSZ)%nat /\ Forall op_ok ex_ops /\ line_fits (index ex_line) ex_ops = true /\
  List.length (concat (map spec_text ex_ops)) = 195%nat.
Proof.
  split; [apply ex_line_wf|]. split; [unfold ex_line, BUFSZ; cbn [index]; lia|].
  split.
  - unfold ex_ops. repeat constructor; cbn [op_ok ipv_ok]; try lia; try reflexivity;
      try (apply bytes_okb_spec; vm_compute; reflexivity).
  - split; vm_compute; reflexivity.
Qed.
