(* Proofs/DNS.v — decodeName: totality, soundness and completeness with respect
   to the RFC 1035 name relation. *)
From PV Require Import Base.Prelude Base.Slice Model.DNS Spec.RFC1035.
Open Scope N_scope.

(* ------------------------------------------------------------------ *)
(* bit facts over one byte, by a finite sweep *)

Definition top_ok (b : N) : bool :=
  Bool.eqb (N.land b 192 =? 192) (192 <=? b) &&
  Bool.eqb (N.land b 192 =? 64) ((64 <=? b) && (b <? 128)) &&
  Bool.eqb (N.land b 192 =? 128) ((128 <=? b) && (b <? 192)).

Lemma top_ok_all : forallb top_ok (map N.of_nat (seq 0 256)) = true.
Proof. vm_compute. reflexivity. Qed.

Lemma top_spec b : b < 256 ->
  (N.land b 192 =? 192) = (192 <=? b) /\
  (N.land b 192 =? 64) = ((64 <=? b) && (b <? 128)) /\
  (N.land b 192 =? 128) = ((128 <=? b) && (b <? 192)).
Proof.
  intros Hb. pose proof top_ok_all as H. rewrite forallb_forall in H.
  specialize (H b). assert (In b (map N.of_nat (seq 0 256))) as Hin.
  { apply in_map_iff. exists (N.to_nat b). split; [lia|]. apply in_seq. lia. }
  specialize (H Hin). unfold top_ok in H.
  apply andb_true_iff in H as [H H3]. apply andb_true_iff in H as [H1 H2].
  apply Bool.eqb_prop in H1, H2, H3. auto.
Qed.

Lemma land_14 w : N.land w 16383 = w mod 16384.
Proof. change 16383 with (N.ones 14). rewrite N.land_ones. reflexivity. Qed.

Lemma ptr_offset c1 c2 : 192 <= c1 -> c1 < 256 -> c2 < 256 ->
  N.land (be16 c1 c2) 16383 = (c1 - 192) * 256 + c2.
Proof. intros. rewrite land_14. unfold be16. lia. Qed.

(* ------------------------------------------------------------------ *)
(* slices *)

Lemma nth_error_view s i : wf s -> (i < len s)%nat ->
  nth_error (view s) i = Some (nth i (arr s) 0).
Proof.
  intros Hwf Hi.
  rewrite nth_error_nth' with (d := 0) by (rewrite view_length by exact Hwf; exact Hi).
  f_equal. apply view_nth. exact Hi.
Qed.

Lemma nth_error_view_none s i : wf s -> (len s <= i)%nat -> nth_error (view s) i = None.
Proof. intros Hwf Hi. apply nth_error_None. rewrite view_length by exact Hwf. exact Hi. Qed.

Lemma skipn_firstn_sub {A} (l : list A) a n m : (a + n <= m)%nat ->
  firstn n (skipn a (firstn m l)) = firstn n (skipn a l).
Proof.
  intros H. rewrite skipn_firstn_comm, firstn_firstn. f_equal. lia.
Qed.

Lemma sub_view s a n : (a + n <= len s)%nat -> sub (view s) a n = sub (arr s) a n.
Proof. intros H. unfold sub, view. apply skipn_firstn_sub. exact H. Qed.

Lemma bytes_ok_view s : bytes_ok (arr s) -> bytes_ok (view s).
Proof. apply bytes_ok_firstn. Qed.

(* ------------------------------------------------------------------ *)
(* the buffer *)

Lemma gappend_bl b x : bl (gappend b x) = bl b ++ x.
Proof. unfold gappend. destruct (bs b && _); reflexivity. Qed.

(* '.' + label for every label: what decodeName appends *)
Fixpoint dotlabels (labels : list bytes) : bytes :=
  match labels with
  | [] => []
  | l :: r => DOT :: l ++ dotlabels r
  end.

Lemma dotlabels_dotted labels : labels <> [] -> dotlabels labels = DOT :: dotted labels.
Proof.
  induction labels as [|l r IH]; intros H; [contradiction|].
  destruct r as [|l2 r'].
  - simpl. rewrite app_nil_r. reflexivity.
  - change (dotlabels (l :: l2 :: r')) with (DOT :: l ++ dotlabels (l2 :: r')).
    rewrite IH by discriminate. reflexivity.
Qed.

Definition dotfree (l : bytes) : Prop := ~ In 46 l.

Lemma existsb_dot l : existsb (fun c => c =? 46) l = false <-> dotfree l.
Proof.
  unfold dotfree. induction l as [|c r IH]; cbn [existsb]; [split; auto|].
  destruct (N.eqb_spec c 46) as [->|Hc]; cbn [orb].
  - split; [discriminate|]. intros H. exfalso. apply H. left. reflexivity.
  - rewrite IH. split; intros H; [intros [E|E]; [congruence|auto]|intros E; apply H; right; exact E].
Qed.

Lemma dotlabels_length labels : S (length (dotlabels labels)) = wire_len labels.
Proof. induction labels as [|l r IH]; cbn [dotlabels wire_len length]; [reflexivity|]. rewrite app_length. lia. Qed.

Lemma name_of_app start b0 labels : start = length b0 -> forall ba' bs',
  name_of start (mkBuf ba' (b0 ++ dotlabels labels) bs') = dotted labels.
Proof.
  intros -> ba' bs'. unfold name_of. cbn [bl]. rewrite app_length.
  destruct labels as [|l r].
  - simpl. rewrite Nat.add_0_r, Nat.leb_refl, app_nil_r. apply skipn_all.
  - rewrite dotlabels_dotted by discriminate. cbn [length].
    destruct (Nat.leb_spec (length b0 + S (length (dotted (l :: r)))) (length b0)); [lia|].
    rewrite skipn_app. rewrite skipn_all2 by lia.
    replace (S (length b0) - length b0)%nat with 1%nat by lia. reflexivity.
Qed.

Lemma name_of_buf start b labels b0 : start = length b0 -> bl b = b0 ++ dotlabels labels ->
  name_of start b = dotted labels.
Proof. intros Hs Hb. destruct b as [a l s]. cbn [bl] in Hb. subst l. apply name_of_app. exact Hs. Qed.

(* ------------------------------------------------------------------ *)
(* Totality: never Panic, never Fuel *)

Definition rec_safe (rec : nat -> gobuf -> nat -> res dn_out) (lv : nat) : Prop :=
  forall o b, safe (rec o b lv).

Lemma safe_bind_ok {A B} (r : res A) (f : A -> res B) :
  safe r -> (forall a, r = Ok a -> safe (f a)) -> safe (bind r f).
Proof.
  intros Hr Hf. destruct r; simpl; auto; try (split; discriminate).
  - destruct Hr as [H _]. contradiction.
  - destruct Hr as [_ H]. contradiction.
Qed.

Lemma dn_loop_safe rec data offset start level :
  wf data -> rec_safe rec (S level) ->
  forall fuel index buf,
    (offset <= index)%nat -> (index < len data)%nat -> (1 <= fuel)%nat ->
    (2 * fuel + (index - offset) >= 257)%nat ->
    safe (dn_loop rec data offset start level fuel index buf).
Proof.
  intros Hwf Hrec. induction fuel as [|f IH]; intros index buf Ho Hi Hf1 Hf; [lia|].
  cbn [dn_loop]. rewrite idx_ok by exact Hi. cbn [bind].
  destruct (N.eqb_spec (nth index (arr data) 0) 0) as [|Hb0]; [destruct (Nat.ltb _ _); [apply safe_Err|apply safe_Ok]|].
  destruct (N.land (nth index (arr data) 0) 192 =? 192).
  { destruct (Nat.ltb_spec (len data) (index + 2)); [apply safe_Err|].
    unfold wf, cap in Hwf. rewrite be16_at_ok by (unfold cap; lia). cbn [bind].
    destruct (Nat.ltb _ _); [apply safe_Err|].
    apply safe_bind_ok; [apply Hrec|]. intros; destruct (Nat.ltb _ _); [apply safe_Err|apply safe_Ok]. }
  destruct (_ =? 64); [apply safe_Err|].
  destruct (_ =? 128); [apply safe_Err|].
  set (index2 := (index + N.to_nat (nth index (arr data) 0%N) + 1)%nat).
  destruct (Nat.ltb_spec 255 (index2 - offset)); [apply safe_Err|].
  destruct (Nat.ltb_spec (len data) index2); [apply safe_Err|].
  unfold wf in Hwf. rewrite sl_ok by (subst index2; lia). cbn [bind].
  destruct (existsb _ _); [apply safe_Err|].
  destruct (Nat.leb_spec (len data) index2); [apply safe_Err|].
  apply IH; subst index2; try lia.
Qed.

Lemma decodeName_safe data : wf data ->
  forall lf offset buf level, (1 <= lf)%nat -> (lf + level >= 257)%nat ->
    safe (decodeName lf data offset buf level).
Proof.
  intros Hwf. induction lf as [|lf IH]; intros offset buf level H1 H2; [lia|].
  cbn [decodeName]. unfold maxRecursionLevel.
  destruct (Nat.ltb_spec 255 level); [apply safe_Err|].
  destruct (Nat.leb_spec (len data) offset); [apply safe_Err|].
  rewrite idx_ok by lia. cbn [bind].
  destruct (_ =? 0); [apply safe_Ok|].
  apply dn_loop_safe; auto; try (unfold loop_fuel; lia).
  intros o b. apply IH; lia.
Qed.

(* ------------------------------------------------------------------ *)
(* Soundness and completeness of decodeName for the RFC 1035 relation *)

Lemma idx_inv s i b : idx s i = Ok b -> (i < len s)%nat /\ b = nth i (arr s) 0.
Proof. unfold idx. destruct (Nat.ltb_spec i (len s)) as [Hlt|Hge]; intros Hx; inversion Hx; auto. Qed.

Lemma bind_ok_inv {A B} (r : res A) (f : A -> res B) y :
  bind r f = Ok y -> exists a, r = Ok a /\ f a = Ok y.
Proof. destruct r; simpl; intros H; try discriminate. eauto. Qed.

Lemma sl_view s a b : (a <= b)%nat -> (b <= len s)%nat -> wf s ->
  forall r, sl s a b = Ok r -> view r = sub (view s) a (b - a).
Proof.
  intros Hab Hb Hwf r Hr. unfold wf in Hwf. rewrite sl_ok in Hr by lia. inversion Hr; subst r.
  unfold view at 1. cbn [arr len]. rewrite sub_view by lia. reflexivity.
Qed.

Section Names.
Variable data : slice.
Hypothesis Hwf : wf data.
Hypothesis Hok : bytes_ok (arr data).
Let msg := view data.

Lemma msg_nth i : (i < len data)%nat -> nth_error msg i = Some (nth i (arr data) 0).
Proof. apply nth_error_view. exact Hwf. Qed.

Lemma msg_byte i : nth i (arr data) 0 < 256.
Proof. apply bytes_ok_nth. exact Hok. Qed.

Lemma msg_lt i c : nth_error msg i = Some c -> (i < len data)%nat /\ c = nth i (arr data) 0.
Proof.
  intros H. assert (i < len data)%nat as Hi.
  { destruct (Nat.lt_ge_cases i (len data)); auto.
    unfold msg in H. rewrite nth_error_view_none in H by auto. discriminate. }
  split; auto. rewrite msg_nth in H by exact Hi. congruence.
Qed.

Lemma msg_length : length msg = len data.
Proof. apply view_length. exact Hwf. Qed.

Definition rec_sound (rec : nat -> gobuf -> nat -> res dn_out) : Prop :=
  forall o b l n nx b', rec o b l = Ok (n, nx, b') ->
    exists labels nx', name_at msg o labels nx' /\ bl b' = bl b ++ dotlabels labels /\ Forall dotfree labels.

Lemma dn_loop_sound rec offset start level : rec_sound rec ->
  forall fuel index buf name next buf',
    dn_loop rec data offset start level fuel index buf = Ok (name, next, buf') ->
    exists labels, name_at msg index labels next /\ bl buf' = bl buf ++ dotlabels labels /\
                   name = name_of start buf' /\ Forall dotfree labels /\ (length (bl buf') - start <= 254)%nat.
Proof.
  intros Hrec. induction fuel as [|f IH]; intros index buf name next buf' H; [discriminate|].
  cbn [dn_loop] in H. apply bind_ok_inv in H as (b & Hb & H).
  apply idx_inv in Hb as [Hi Hb]. pose proof (msg_byte index) as Hb256. rewrite <- Hb in Hb256.
  pose proof (msg_nth index Hi) as Hn. rewrite <- Hb in Hn.
  destruct (N.eqb_spec b 0) as [->|Hb0].
  { destruct (Nat.ltb_spec 254 (length (bl buf) - start)); [discriminate|].
    inversion H; subst. exists []. split; [constructor; exact Hn|]. split; [symmetry; apply app_nil_r|].
    split; [reflexivity|]. split; [constructor|lia]. }
  destruct (top_spec b Hb256) as (T1 & T2 & T3).
  destruct (N.land b 192 =? 192) eqn:E1.
  { symmetry in T1. apply N.leb_le in T1.
    destruct (Nat.ltb_spec (len data) (index + 2)) as [|Hi2]; [discriminate|].
    apply bind_ok_inv in H as (w & Hw & H).
    unfold wf in Hwf. rewrite be16_at_ok in Hw by lia. inversion Hw; subst w; clear Hw.
    destruct (Nat.ltb _ _); [discriminate|].
    apply bind_ok_inv in H as (r & Hr & H). destruct r as [[n nx] b']. cbn [snd] in H.
    destruct (Nat.ltb_spec 254 (length (bl b') - start)); [discriminate|].
    inversion H; subst. apply Hrec in Hr as (labels & nx' & Hna & Hbl & Hdf).
    exists labels. split; [|split; [exact Hbl|split; [reflexivity|split; [exact Hdf|lia]]]].
    replace (S (S index)) with (index + 2)%nat by lia.
    rewrite ptr_offset in Hna by (auto using msg_byte).
    eapply NA_ptr with (c2 := nth (index + 1) (arr data) 0); eauto.
    replace (S index) with (index + 1)%nat by lia. apply msg_nth. lia. }
  destruct (N.land b 192 =? 64) eqn:E2; [discriminate|].
  destruct (N.land b 192 =? 128) eqn:E3; [discriminate|].
  assert (1 <= b <= 63) as Hrange by lia.
  set (index2 := (index + N.to_nat b + 1)%nat) in *.
  destruct (Nat.ltb_spec 255 (index2 - offset)); [discriminate|].
  destruct (Nat.ltb_spec (len data) index2) as [|Hi2]; [discriminate|].
  apply bind_ok_inv in H as (lab & Hlab & H).
  apply sl_view in Hlab; [|subst index2; lia|exact Hi2|exact Hwf].
  destruct (existsb (fun c => c =? 46) (view lab)) eqn:Edot; [discriminate|]. apply existsb_dot in Edot.
  destruct (Nat.leb_spec (len data) index2); [discriminate|].
  apply IH in H as (labels & Hna & Hbl & Hname & Hdf & Hlen).
  rewrite Hlab in Edot. fold msg in Edot.
  replace (index2 - S index)%nat with (N.to_nat b) in Edot by (subst index2; lia).
  exists (sub msg (S index) (N.to_nat b) :: labels). split; [|split; [|split; [exact Hname|split; [constructor; auto|exact Hlen]]]].
  - apply NA_label with (c := b); auto; try lia.
    + rewrite msg_length. subst index2. lia.
    + replace (index + 1 + N.to_nat b)%nat with index2 by (subst index2; lia). exact Hna.
  - rewrite Hbl, !gappend_bl, Hlab. fold msg.
    replace (index2 - S index)%nat with (N.to_nat b) by (subst index2; lia).
    rewrite <- !app_assoc. reflexivity.
Qed.

Lemma decodeName_sound_gen lf : forall offset buf level name next buf',
  decodeName lf data offset buf level = Ok (name, next, buf') ->
  exists labels, name_at msg offset labels next /\ bl buf' = bl buf ++ dotlabels labels /\
                 name = dotted labels /\ Forall dotfree labels /\ (wire_len labels <= 255)%nat.
Proof.
  induction lf as [|lf IH]; intros offset buf level name next buf' H; [discriminate|].
  cbn [decodeName] in H.
  destruct (Nat.ltb _ level); [discriminate|].
  destruct (Nat.leb_spec (len data) offset) as [|Hi]; [discriminate|].
  apply bind_ok_inv in H as (b & Hb & H). apply idx_inv in Hb as [_ Hb].
  pose proof (msg_nth offset Hi) as Hn. rewrite <- Hb in Hn.
  destruct (N.eqb_spec b 0) as [->|Hb0].
  { inversion H; subst. exists []. split; [constructor; exact Hn|]. split; [symmetry; apply app_nil_r|].
    split; [reflexivity|]. split; [constructor|cbn; lia]. }
  apply dn_loop_sound in H.
  - destruct H as (labels & Hna & Hbl & Hname & Hdf & Hlen). exists labels. split; [exact Hna|]. split; [exact Hbl|].
    split; [rewrite Hname; eapply name_of_buf; [reflexivity|exact Hbl]|]. split; [exact Hdf|].
    rewrite Hbl, app_length in Hlen. pose proof (dotlabels_length labels). lia.
  - intros o b0 l n nx b' Hr. apply IH in Hr as (labels & Hna & Hbl & _ & Hdf & _). eauto.
Qed.

(* ---- completeness ---- *)

Lemma name_at_d_lt d off labels next : name_at_d msg d off labels next -> (off < len data)%nat.
Proof. intros H; inversion H; subst; match goal with H : nth_error msg off = Some _ |- _ => apply msg_lt in H; tauto end. Qed.

Definition rec_complete (rec : nat -> gobuf -> nat -> res dn_out) (lv : nat) : Prop :=
  forall d o labels nx b, name_at_d msg d o labels nx -> (lv + d <= 255)%nat -> (wire_len labels <= 255)%nat ->
    Forall dotfree labels ->
    exists n' b', rec o b lv = Ok (n', nx, b') /\ bl b' = bl b ++ dotlabels labels.

Lemma dn_loop_complete rec start level d index labels next :
  name_at_d msg d index labels next ->
  forall offset fuel buf,
    (forall d', d = S d' -> (S level + d' <= 255)%nat) ->
    rec_complete rec (S level) ->
    Forall dotfree labels ->
    (start <= length (bl buf))%nat -> (length (bl buf) - start + wire_len labels <= 255)%nat ->
    (offset <= index)%nat -> ((index - offset) + wire_len labels <= 256)%nat ->
    (1 <= fuel)%nat -> (2 * fuel + (index - offset) >= 257)%nat ->
    exists buf', dn_loop rec data offset start level fuel index buf = Ok (name_of start buf', next, buf') /\
                 bl buf' = bl buf ++ dotlabels labels.
Proof.
  intros Hna. induction Hna as [off Hn | d off c labels next Hn Hc1 Hc2 Hlen Hna IH | d off c1 c2 labels next' Hn Hc1 Hn2 Hna IH];
    intros offset fuel buf Hd Hrec Hdf Hst Htot Ho Hw Hf1 Hf; destruct fuel as [|f]; try lia; cbn [dn_loop].
  - apply msg_lt in Hn as [Hi Hb]. rewrite idx_ok by exact Hi. cbn [bind]. rewrite <- Hb.
    replace (0 =? 0) with true by reflexivity. cbn [wire_len] in Htot.
    destruct (Nat.ltb_spec 254 (length (bl buf) - start)); [lia|].
    exists buf. split; [reflexivity|]. symmetry. apply app_nil_r.
  - apply msg_lt in Hn as [Hi Hb]. rewrite idx_ok by exact Hi. cbn [bind]. rewrite <- Hb.
    destruct (N.eqb_spec c 0); [lia|].
    assert (c < 256) as Hc256 by lia.
    destruct (top_spec c Hc256) as (T1 & T2 & T3).
    replace (N.land c 192 =? 192) with false by (rewrite T1; lia).
    replace (N.land c 192 =? 64) with false by (rewrite T2; lia).
    replace (N.land c 192 =? 128) with false by (rewrite T3; lia).
    rewrite msg_length in Hlen. cbn [wire_len] in Hw, Htot.
    set (index2 := (off + N.to_nat c + 1)%nat).
    assert (length (sub msg (S off) (N.to_nat c)) = N.to_nat c) as Hsl.
    { apply sub_length. rewrite msg_length. lia. }
    rewrite Hsl in Hw, Htot.
    pose proof (name_at_d_lt _ _ _ _ Hna) as Hi2.
    replace (off + 1 + N.to_nat c)%nat with index2 in * by (subst index2; lia).
    destruct (Nat.ltb_spec 255 (index2 - offset)); [subst index2; destruct labels; cbn [wire_len] in Hw; lia|].
    destruct (Nat.ltb_spec (len data) index2); [lia|].
    pose proof Hwf as Hwf'. unfold wf in Hwf'. rewrite sl_ok by (subst index2; lia). cbn [bind].
    pose proof (Forall_inv Hdf) as Hd1. pose proof (Forall_inv_tail Hdf) as Hd2.
    assert (Hview : view {| arr := skipn (S off) (arr data); len := index2 - S off |} = sub msg (S off) (N.to_nat c)).
    { unfold view at 1. cbn [arr len]. fold (sub (arr data) (S off) (index2 - S off)).
      rewrite <- sub_view by (subst index2; lia). fold msg.
      replace (index2 - S off)%nat with (N.to_nat c) by (subst index2; lia). reflexivity. }
    rewrite Hview. apply existsb_dot in Hd1. rewrite Hd1.
    destruct (Nat.leb_spec (len data) index2); [lia|].
    destruct (IH offset f (gappend (gappend buf [DOT]) (sub msg (S off) (N.to_nat c)))) as (buf' & Hr & Hbl);
      auto; try (subst index2; lia); try (rewrite !gappend_bl, !app_length, Hsl; cbn [length]; lia).
    exists buf'. split; [exact Hr|]. rewrite Hbl, !gappend_bl.
    cbn [dotlabels]. rewrite <- !app_assoc. reflexivity.
  - apply msg_lt in Hn as [Hi Hb]. apply msg_lt in Hn2 as [Hi2 Hb2].
    rewrite idx_ok by exact Hi. cbn [bind]. rewrite <- Hb.
    destruct (N.eqb_spec c1 0); [lia|].
    assert (c1 < 256) as Hc256 by (rewrite Hb; apply msg_byte).
    destruct (top_spec c1 Hc256) as (T1 & _).
    replace (N.land c1 192 =? 192) with true by (rewrite T1; lia).
    destruct (Nat.ltb_spec (len data) (off + 2)); [lia|].
    pose proof Hwf as Hwf'. unfold wf in Hwf'. rewrite be16_at_ok by lia. cbn [bind].
    replace (off + 1)%nat with (S off) by lia. rewrite <- Hb, <- Hb2.
    rewrite ptr_offset by (auto; rewrite Hb2; apply msg_byte).
    pose proof (name_at_d_lt _ _ _ _ Hna) as Hip.
    destruct (Nat.ltb_spec (len data) (N.to_nat ((c1 - 192) * 256 + c2))); [lia|].
    assert (Hlv : (S level + d <= 255)%nat) by (specialize (Hd d eq_refl); lia).
    assert (Hw255 : (wire_len labels <= 255)%nat) by lia.
    destruct (Hrec d (N.to_nat ((c1 - 192) * 256 + c2)) labels next' buf Hna Hlv Hw255 Hdf) as (n' & b' & Hr & Hbl).
    rewrite Hr. cbn [bind snd].
    assert (length (bl b') - start <= 254)%nat.
    { rewrite Hbl, app_length. pose proof (dotlabels_length labels). lia. }
    destruct (Nat.ltb_spec 254 (length (bl b') - start)); [lia|].
    exists b'. split; [|exact Hbl].
    replace (off + 2)%nat with (S (S off)) by lia. reflexivity.
Qed.

Lemma decodeName_complete_gen : forall lf level d offset labels next buf,
  name_at_d msg d offset labels next ->
  (level + d <= 255)%nat -> (wire_len labels <= 255)%nat -> Forall dotfree labels ->
  (1 <= lf)%nat -> (lf + level >= 257)%nat ->
  exists buf', decodeName lf data offset buf level = Ok (dotted labels, next, buf') /\
               bl buf' = bl buf ++ dotlabels labels.
Proof.
  induction lf as [|lf IH]; intros level d offset labels next buf Hna Hd Hw Hdf H1 H2; [lia|].
  cbn [decodeName]. unfold maxRecursionLevel.
  destruct (Nat.ltb_spec 255 level); [lia|].
  pose proof (name_at_d_lt _ _ _ _ Hna) as Hi.
  destruct (Nat.leb_spec (len data) offset); [lia|].
  rewrite idx_ok by exact Hi. cbn [bind].
  assert (Hrec : rec_complete (decodeName lf data) (S level)).
  { intros d' o ls nx b Hna' Hd' Hw' Hdf'.
    destruct (IH (S level) d' o ls nx b Hna' Hd' Hw' Hdf') as (b' & Hr & Hbl); try lia.
    eauto. }
  destruct (N.eqb_spec (nth offset (arr data) 0) 0) as [E|E].
  - inversion Hna; subst;
      match goal with H : nth_error msg offset = Some _ |- _ => apply msg_lt in H as [_ Hb] end.
    + exists buf. split; [reflexivity|]. symmetry; apply app_nil_r.
    + lia.
    + lia.
  - assert (Hd' : forall d', d = S d' -> (S level + d' <= 255)%nat) by (intros d' ->; lia).
    destruct (dn_loop_complete (decodeName lf data) (length (bl buf)) level d offset labels next Hna
               offset loop_fuel buf Hd' Hrec Hdf) as (buf' & Hr & Hbl); try (unfold loop_fuel; lia).
    exists buf'. split; [|exact Hbl]. rewrite Hr. f_equal. f_equal. f_equal.
    eapply name_of_buf; [reflexivity|exact Hbl].
Qed.

End Names.

(* ------------------------------------------------------------------ *)
(* Top-level statements about decodeName(data, offset, &buffer, 1) *)
From PV Require Import Proofs.RFC1035.

Theorem name_total data off buf : wf data -> safe (decodeName name_fuel data off buf 1).
Proof. intros Hwf. apply decodeName_safe; auto; unfold name_fuel; lia. Qed.

Theorem name_sound data off buf name next buf' : wf data -> bytes_ok (arr data) ->
  decodeName name_fuel data off buf 1 = Ok (name, next, buf') ->
  exists labels, name_at (view data) off labels next /\ name = dotted labels.
Proof.
  intros Hwf Hok H. destruct (decodeName_sound_gen data Hwf Hok _ _ _ _ _ _ _ H) as (ls & Hn & _ & Hd & _).
  eauto.
Qed.

(* and the name it returns is within RFC 1035's 255 octets, with no '.' inside a label *)
Theorem name_sound_limits data off buf name next buf' : wf data -> bytes_ok (arr data) ->
  decodeName name_fuel data off buf 1 = Ok (name, next, buf') ->
  exists labels, name_at (view data) off labels next /\ name = dotted labels /\
                 Forall dotfree labels /\ (wire_len labels <= 255)%nat.
Proof.
  intros Hwf Hok H. destruct (decodeName_sound_gen data Hwf Hok _ _ _ _ _ _ _ H) as (ls & Hn & _ & Hd & Hf & Hw).
  eauto.
Qed.

Theorem name_complete data d off labels next buf : wf data -> bytes_ok (arr data) ->
  name_at_d (view data) d off labels next -> (d <= 254)%nat -> (wire_len labels <= 255)%nat ->
  Forall dotfree labels ->
  exists buf', decodeName name_fuel data off buf 1 = Ok (dotted labels, next, buf').
Proof.
  intros Hwf Hok Hn Hd Hw Hdf.
  destruct (decodeName_complete_gen data Hwf Hok name_fuel 1 d off labels next buf Hn) as (b' & H & _); auto;
    try (unfold name_fuel; lia). eauto.
Qed.

(* kept under its first name: since the total-length check the decoder's limit IS RFC 1035's 255 octets *)
Corollary name_complete_rfc data d off labels next buf : wf data -> bytes_ok (arr data) ->
  name_at_d (view data) d off labels next -> (wire_len labels <= 255)%nat -> (d <= 254)%nat ->
  Forall dotfree labels ->
  exists buf', decodeName name_fuel data off buf 1 = Ok (dotted labels, next, buf').
Proof. intros. eapply name_complete; eauto. Qed.

(* whatever is not a name is rejected with an error: never a panic, never a name *)
Theorem name_rejects data off buf : wf data -> bytes_ok (arr data) ->
  (forall labels next, ~ name_at (view data) off labels next) ->
  exists e, decodeName name_fuel data off buf 1 = Err e.
Proof.
  intros Hwf Hok Hno. destruct (name_total data off buf Hwf) as [Hp Hf].
  destruct (decodeName name_fuel data off buf 1) as [[[n nx] b']|e| |] eqn:E; try contradiction; eauto.
  exfalso. destruct (name_sound _ _ _ _ _ _ Hwf Hok E) as (ls & Hn & _). eapply Hno; eauto.
Qed.


(* ---- concrete witnesses (non-vacuity, sharpness) ---- *)

(* k pointer cells 0 -> 2 -> 4 ... -> 2k, then "\003www\000" *)
Fixpoint ptr_chain (k : nat) (i : nat) : bytes :=
  match k with
  | O => [3; 119; 119; 119; 0]
  | S k' => (192 + N.of_nat (2 * (i + 1)) / 256) :: (N.of_nat (2 * (i + 1)) mod 256) :: ptr_chain k' (S i)
  end.

Example name_depth_254_accepted :
  let data := of_bytes (ptr_chain 254 0) in
  wf data /\ bytes_okb (arr data) = true /\
  exists b', decodeName name_fuel data 0 (mkBuf [] [] true) 1 = Ok ([119; 119; 119], 2%nat, b').
Proof. vm_compute. repeat split; auto. eexists. reflexivity. Qed.

(* the recursion bound is sharp: the same name behind 255 pointers is a name, but is rejected *)
Example name_depth_255_rejected :
  let data := of_bytes (ptr_chain 255 0) in
  ref_decode (view data) 0 = Some ([[119; 119; 119]], 2%nat) /\
  decodeName name_fuel data 0 (mkBuf [] [] true) 1 = Err EParseFrame.
Proof. vm_compute. split; reflexivity. Qed.

(* four labels of 63, 63, 63 and [last] octets: 193 + last + 2 octets on the wire *)
Definition long_name (last : nat) : bytes :=
  (63 :: repeat 97 63) ++ (63 :: repeat 98 63) ++ (63 :: repeat 99 63) ++ (N.of_nat last :: repeat 100 last) ++ [0].

(* the limit is RFC 1035's: 255 octets accepted ... *)
Example name_wire_255_accepted :
  let data := of_bytes (long_name 61) in
  match ref_decode (view data) 0 with Some (ls, _) => wire_len ls | None => 0%nat end = 255%nat /\
  is_ok (decodeName name_fuel data 0 (mkBuf [] [] true) 1) = true.
Proof. vm_compute. split; reflexivity. Qed.

(* ... 256 rejected, uncompressed ... *)
Example name_wire_256_rejected :
  let data := of_bytes (long_name 62) in
  match ref_decode (view data) 0 with Some (ls, _) => wire_len ls | None => 0%nat end = 256%nat /\
  decodeName name_fuel data 0 (mkBuf [] [] true) 1 = Err EParseFrame.
Proof. vm_compute. split; reflexivity. Qed.

(* ... and through compression: "\003abc" + pointer to a 253-octet name = 257 octets, every segment short *)
Example name_wire_compressed_rejected :
  let data := of_bytes ((63 :: repeat 97 63) ++ (63 :: repeat 98 63) ++ (63 :: repeat 99 63) ++ (59 :: repeat 100 59) ++ [0]
                        ++ [3; 97; 98; 99; 192; 0]) in
  match ref_decode (view data) 253 with Some (ls, _) => wire_len ls | None => 0%nat end = 257%nat /\
  is_ok (decodeName name_fuel data 0 (mkBuf [] [] true) 1) = true /\
  decodeName name_fuel data 253 (mkBuf [] [] true) 1 = Err EParseFrame.
Proof. vm_compute. repeat split; reflexivity. Qed.

(* a '.' inside a label is rejected (the dotted rendering could not tell it from a separator) *)
Example name_dot_in_label_rejected :
  decodeName name_fuel (of_bytes [3; 52; 46; 51; 1; 50; 0]) 0 (mkBuf [] [] true) 1 = Err EParseFrame.
Proof. vm_compute. reflexivity. Qed.

(* a compressed name: "\003www" + pointer to "\007example\003com\000" at offset 12 *)
Example name_compressed_example :
  let data := of_bytes (repeat 0 12 ++ [7;101;120;97;109;112;108;101;3;99;111;109;0] ++ [3;119;119;119;192;12]) in
  exists b', decodeName name_fuel data 25 (mkBuf [] [] true) 1 =
             Ok ([119;119;119;46;101;120;97;109;112;108;101;46;99;111;109], 31%nat, b').
Proof. vm_compute. eexists. reflexivity. Qed.

(* loops, reserved bits, truncation: errors *)
Example name_self_loop_rejected :
  decodeName name_fuel (of_bytes [192; 0]) 0 (mkBuf [] [] true) 1 = Err EParseFrame.
Proof. vm_compute. reflexivity. Qed.
Example name_two_loop_rejected :
  decodeName name_fuel (of_bytes [1; 97; 192; 4; 1; 98; 192; 0]) 0 (mkBuf [] [] true) 1 = Err EParseFrame.
Proof. vm_compute. reflexivity. Qed.
Example name_reserved_rejected :
  decodeName name_fuel (of_bytes [1; 97; 64; 0]) 0 (mkBuf [] [] true) 1 = Err EOther /\
  decodeName name_fuel (of_bytes [1; 97; 128; 0]) 0 (mkBuf [] [] true) 1 = Err EOther.
Proof. vm_compute. split; reflexivity. Qed.
Example name_truncated_rejected :
  decodeName name_fuel (of_bytes [5; 97; 98]) 0 (mkBuf [] [] true) 1 = Err EParseFrame /\
  decodeName name_fuel (of_bytes [1; 97]) 0 (mkBuf [] [] true) 1 = Err EParseFrame /\
  decodeName name_fuel (of_bytes [1; 97; 192]) 0 (mkBuf [] [] true) 1 = Err EParseFrame /\
  decodeName name_fuel (of_bytes [1; 97; 192; 9]) 0 (mkBuf [] [] true) 1 = Err EParseFrame.
Proof. vm_compute. repeat split; reflexivity. Qed.
