(* Proofs/ParseRef.v — Session.Parse model against the reference decoder (Spec/RFC.v): the projection,
   the refutation witnesses of the four classes of the original validators IP4.IsValid / IP6.IsValid / TCP.IsValid (VIEWS cluster; refuted for the variant [fx_old], the same inputs agree under [fx_new]), and (below) the partial equality theorem. *)
From PV Require Import Base.Prelude Base.Slice Model.Parse Spec.RFC Model.ParseKnown Proofs.Parse.
Open Scope N_scope.
Open Scope res_scope.

(* ---------- the projection C02 constrains ---------- *)
Definition opt_off (o : nat) : option nat := if Nat.eqb o 0 then None else Some o.

Definition proj (f : frame) : ref_frame :=
  mkRef (f_id f) (a_mac (f_src f)) (a_mac (f_dst f)) (a_ip (f_src f)) (a_ip (f_dst f))
        (a_port (f_src f)) (a_port (f_dst f))
        (opt_off (f_off4 f)) (opt_off (f_off6 f)) (opt_off (f_offU f)) (opt_off (f_offT f)) (f_offP f).

(* Parse agrees with the reference decoder on a frame: same error-or-not, same error class, same projection *)
(* class of a Parse error: the sentinel it wraps *)
Definition err_class (x : err) : rerr := match x with EParseFrame => RParse | _ => RLen end.

Definition agrees (r : res frame) (e : ref_result) : Prop :=
  match r with
  | Ok f => e = ROk (proj f)
  | Err x => e = RErr (err_class x)
  | Panic => False
  | Fuel => False
  end.
Definition agreesb (r : res frame) (e : ref_result) : bool :=
  match r, e with
  | Err x, RErr y => match err_class x, y with RLen, RLen => true | RParse, RParse => true | _, _ => false end
  | Ok f, ROk x =>
      let y := proj f in
      (r_id x =? r_id y) && bytes_eqb (r_smac x) (r_smac y) && bytes_eqb (r_dmac x) (r_dmac y)
      && bytes_eqb (r_sip x) (r_sip y) && bytes_eqb (r_dip x) (r_dip y)
      && (r_sport x =? r_sport y) && (r_dport x =? r_dport y)
      && match r_ip4 x, r_ip4 y with Some a, Some b => Nat.eqb a b | None, None => true | _, _ => false end
      && match r_ip6 x, r_ip6 y with Some a, Some b => Nat.eqb a b | None, None => true | _, _ => false end
      && match r_udp x, r_udp y with Some a, Some b => Nat.eqb a b | None, None => true | _, _ => false end
      && match r_tcp x, r_tcp y with Some a, Some b => Nat.eqb a b | None, None => true | _, _ => false end
      && Nat.eqb (r_pay x) (r_pay y)
  | _, _ => false
  end.

Lemma agreesb_false_not_agrees r e : agreesb r e = false -> ~ agrees r e.
Proof.
  intros H A. destruct r as [f|x| |]; cbn in A; try contradiction; subst e; cbn in H; try discriminate.
  2:{ destruct (err_class x); discriminate. }
  assert (Hb : forall l, bytes_eqb l l = true).
  { induction l as [|a l IH]; cbn; [reflexivity|]. rewrite N.eqb_refl, IH. reflexivity. }
  rewrite !N.eqb_refl, !Hb, !Nat.eqb_refl in H. cbn [andb] in H.
  repeat match type of H with context [match ?o with _ => _ end] => destruct o end;
  rewrite ?Nat.eqb_refl in H; discriminate.
Qed.

(* ---------- refutations: one witness per recorded class ---------- *)

Ltac refute w :=
  exists cfg0, (of_bytes w); split; [vm_compute; lia|]; split; [apply bytes_okb_spec; vm_compute; reflexivity|];
  split; [vm_compute; reflexivity|]; apply agreesb_false_not_agrees; vm_compute; reflexivity.

Definition hdr (et : list N) : bytes := ([0;102;102;102;102;102; 2;17;17;17;17;17] ++ et)%list.

(* former witnesses of the repaired classes now agree with the reference decoder *)
Definition w_arp_short : bytes := (hdr [8;6] ++ [0;1;8;0;6;4;0;1; 2;17;17;17;17;17; 192;168;0;7; 0;0])%list.
Definition w_arp_hlen : bytes := (hdr [8;6] ++ [0;1;8;0;8;4;0;1; 2;17;17;17;17;17; 192;168;0;7; 0;0;0;0;0;0; 192;168;0;1])%list.
Example fixed_witnesses_agree :
  agreesb (parse cfg0 (of_bytes w_arp_short)) (ref_decode w_arp_short) = true /\
  agreesb (parse cfg0 (of_bytes w_arp_hlen)) (ref_decode w_arp_hlen) = true /\
  agreesb (parse cfg0 (of_bytes w_vlan16)) (ref_decode w_vlan16) = true.
Proof. repeat split; vm_compute; reflexivity. Qed.

(* IPv4, IHL = 4 words (16 bytes), protocol 0: accepted, payload at 14+16 *)
Definition w_ip4_ihl : bytes := (hdr [8;0] ++ [68;0;0;20;0;0;0;0;64;0;0;0; 192;168;0;1; 192;168;0;2])%list.
Lemma eq_ref_refuted_ip4_ihl : exists c s, wf s /\ bytes_ok (arr s) /\ known_C02 (c_fx c) (view s) = Some "parse-ip4-ihl"%string /\ ~ agrees (parse c s) (ref_decode (view s)).
Proof. refute w_ip4_ihl. Qed.

(* IPv4, IHL = 5, TotalLen = 10 < 20: accepted *)
Definition w_ip4_tl : bytes := (hdr [8;0] ++ [69;0;0;10;0;0;0;0;64;0;0;0; 192;168;0;1; 192;168;0;2])%list.
Lemma eq_ref_refuted_ip4_totallen : exists c s, wf s /\ bytes_ok (arr s) /\ known_C02 (c_fx c) (view s) = Some "parse-ip4-totallen"%string /\ ~ agrees (parse c s) (ref_decode (view s)).
Proof. refute w_ip4_tl. Qed.

(* IPv6, PayloadLen 0, protocol 59, followed by 2 trailing bytes: rejected *)
Definition w_ip6_trail : bytes := (hdr [134;221] ++ [96;0;0;0;0;0;59;64] ++ repeat 0 15 ++ [1] ++ repeat 0 15 ++ [2] ++ [0;0])%list.
Lemma eq_ref_refuted_ip6_trailing : exists c s, wf s /\ bytes_ok (arr s) /\ known_C02 (c_fx c) (view s) = Some "parse-ip6-trailing"%string /\ ~ agrees (parse c s) (ref_decode (view s)).
Proof. refute w_ip6_trail. Qed.

(* TCP over IPv4, 20-byte segment with data offset 0: accepted by the original TCP.IsValid *)
Definition w_tcp_doff : bytes :=
  (hdr [8;0] ++ [69;0;0;40;0;0;0;0;64;6;0;0; 192;168;0;1; 192;168;0;2] ++ [0;80;0;81; 0;0;0;0; 0;0;0;0; 0;16;0;0; 0;0;0;0])%list.
Lemma eq_ref_refuted_tcp_doff : exists c s, wf s /\ bytes_ok (arr s) /\ known_C02 (c_fx c) (view s) = Some "parse-tcp-doff"%string /\ ~ agrees (parse c s) (ref_decode (view s)).
Proof. refute w_tcp_doff. Qed.

(* the same inputs under the repaired validators: Parse and the reference decoder agree, no class applies *)
Example repaired_validators_agree :
  agreesb (parse cfg1 (of_bytes w_ip4_ihl)) (ref_decode w_ip4_ihl) = true /\
  agreesb (parse cfg1 (of_bytes w_ip4_tl)) (ref_decode w_ip4_tl) = true /\
  agreesb (parse cfg1 (of_bytes w_ip6_trail)) (ref_decode w_ip6_trail) = true /\
  agreesb (parse cfg1 (of_bytes w_tcp_doff)) (ref_decode w_tcp_doff) = true /\
  known_C02 fx_new w_ip4_ihl = None /\ known_C02 fx_new w_ip4_tl = None /\
  known_C02 fx_new w_ip6_trail = None /\ known_C02 fx_new w_tcp_doff = None.
Proof. repeat split; vm_compute; reflexivity. Qed.
