(* Proofs/Icmp6SpoofDecided.v — (1) every frame a loop sends was decided by a Lookup of that loop that
   found the destination MAC in the hunt list, the handler open and a router known (confinement at
   decision time, over all histories); (2) LANRouters map iteration order: for every order that is a
   permutation of the table's positions a pass covers every learned router exactly once. *)
From Coq Require Import Permutation.
From PV Require Import Base.Prelude Model.Icmp6SpoofRA Model.Icmp6Spoof Proofs.Icmp6Spoof.
Open Scope N_scope.

(* ---- map order ---- *)
Lemma pick_cons_shift {A} (x : A) r s : pick (map S s) (x :: r) = pick s r.
Proof. unfold pick. induction s as [|k s IH]; [reflexivity|]. cbn [map flat_map nth_error]. rewrite IH. reflexivity. Qed.

Lemma pick_seq {A} (l : list A) : pick (seq 0 (List.length l)) l = l.
Proof.
  induction l as [|x r IH]; [reflexivity|]. cbn [List.length seq]. rewrite <- seq_shift.
  change (pick (0%nat :: map S (seq 0 (List.length r))) (x :: r)) with (x :: pick (map S (seq 0 (List.length r))) (x :: r)).
  rewrite pick_cons_shift, IH. reflexivity.
Qed.

Lemma pick_perm {A} (order : list nat) (l : list A) :
  Permutation order (seq 0 (List.length l)) -> Permutation (pick order l) l.
Proof.
  intros H. rewrite <- (pick_seq l) at 2. unfold pick. apply Permutation_flat_map. exact H.
Qed.

(* a pass decided under a permutation order sends to every learned router exactly once *)
Theorem lookup_covers st i order lp :
  nth_error (loops st) i = Some lp -> l_alive lp = true -> l_pending lp = [] ->
  al_has (hunt st) (a_mac (l_dst lp)) = true -> closed st = false -> defrouter st <> None ->
  Permutation order (seq 0 (List.length (routers st))) ->
  exists lp', nth_error (loops (fst (lookup st i order))) i = Some lp' /\ l_dst lp' = l_dst lp /\
    Permutation (l_pending lp') (map (fun kr => r_ip (snd kr)) (routers st)).
Proof.
  intros En Ha Ep Hh Hc Hd Hperm. unfold lookup. rewrite En, Ha, Ep, Hh, Hc. cbn [negb orb].
  destruct (defrouter st); [|congruence]. cbn [fst set_loops loops].
  eexists. split; [apply nth_setp_eq; exact En|]. split; [reflexivity|]. cbn [l_pending].
  apply pick_perm. rewrite map_length. exact Hperm.
Qed.

(* ---- decision-time confinement over histories ---- *)
Definition justified (c : config) (tr : list (state * event * out)) (st : state) : Prop :=
  forall i lp, nth_error (loops st) i = Some lp -> l_pending lp <> [] ->
    exists s0 order k, In (s0, Lookup i order, OLook true k) tr /\ decided_ok s0 (a_mac (l_dst lp)).

Lemma nth_error_snoc_new {A} (l : list A) x i y : nth_error (l ++ [x]) i = Some y ->
  nth_error l i = Some y \/ (i = List.length l /\ y = x).
Proof.
  intros H. destruct (Nat.lt_ge_cases i (List.length l)) as [Hlt|Hge].
  - left. rewrite nth_error_app1 in H by exact Hlt. exact H.
  - right. rewrite nth_error_app2 in H by exact Hge.
    destruct (i - List.length l)%nat eqn:E; cbn in H; [inversion H; split; [lia|reflexivity]|destruct n; discriminate].
Qed.

Lemma step_justified c tr st e : justified c tr st ->
  justified c (tr ++ [(st, e, snd (step c st e))]) (fst (step c st e)).
Proof.
  intros J. remember (snd (step c st e)) as oo eqn:Ho.
  assert (Jw : forall st', loops st' = loops st -> justified c (tr ++ [(st, e, oo)]) st').
  { intros st' Hl i lp Hn Hp. rewrite Hl in Hn. destruct (J i lp Hn Hp) as [s0 [o [k [Hin Hd]]]].
    exists s0, o, k. split; [apply in_or_app; left; exact Hin|exact Hd]. }
  destruct e as [a|a| |i order|i|src eth p hk|q| ]; cbn [step fst].
  - unfold start_hunt. destruct (is4 (a_ip a)); [apply Jw; reflexivity|].
    destruct (is6 (a_ip a) && negb (is_llu (a_ip a))); [apply Jw; reflexivity|].
    destruct (al_has (hunt st) (a_mac a)); [apply Jw; reflexivity|].
    intros j lp Hn Hp. cbn [fst loops] in Hn. apply nth_error_snoc_new in Hn as [Hn|[_ ->]].
    + destruct (J j lp Hn Hp) as [s0 [o [k [Hin Hd]]]]. exists s0, o, k. split; [apply in_or_app; left; exact Hin|exact Hd].
    + cbn [l_pending] in Hp. congruence.
  - unfold stop_hunt. destruct (_ && _); apply Jw; reflexivity.
  - unfold close. destruct (closed st); apply Jw; reflexivity.
  - unfold lookup. destruct (nth_error (loops st) i) as [l|] eqn:En; [|apply Jw; reflexivity].
    destruct (negb (l_alive l)) eqn:Ea; [apply Jw; reflexivity|]. destruct (l_pending l) eqn:Ep; [|apply Jw; reflexivity].
    destruct (negb (al_has (hunt st) (a_mac (l_dst l))) || closed st) eqn:Eh.
    + intros j lp Hn Hp. cbn [fst set_loops loops] in Hn. destruct (Nat.eq_dec i j) as [<-|Hne].
      * rewrite (nth_kill_eq _ _ _ En) in Hn. inversion Hn; subst lp. cbn [l_pending] in Hp. congruence.
      * rewrite nth_kill_ne in Hn by exact Hne. destruct (J j lp Hn Hp) as [s0 [o [k [Hin Hd]]]].
        exists s0, o, k. split; [apply in_or_app; left; exact Hin|exact Hd].
    + pose proof Eh as Eh0. apply orb_false_iff in Eh as [Eh Ec]. apply negb_false_iff in Eh.
      destruct (defrouter st) eqn:Ed; [|apply Jw; reflexivity].
      assert (Ho' : oo = OLook true (List.length (pick order (map (fun kr => r_ip (snd kr)) (routers st))))).
      { rewrite Ho. cbn [step]. unfold lookup. rewrite En, Ea, Ep, Eh0, Ed. reflexivity. }
      intros j lp Hn Hp. cbn [fst set_loops loops] in Hn. destruct (Nat.eq_dec i j) as [<-|Hne].
      * rewrite (nth_setp_eq _ _ _ _ En) in Hn. inversion Hn; subst lp. cbn [l_dst].
        exists st, order, (List.length (pick order (map (fun kr => r_ip (snd kr)) (routers st)))).
        split; [apply in_or_app; right; left; rewrite Ho'; reflexivity|]. repeat split; auto. congruence.
      * rewrite nth_setp_ne in Hn by exact Hne. destruct (J j lp Hn Hp) as [s0 [o [k [Hin Hd]]]].
        exists s0, o, k. split; [apply in_or_app; left; exact Hin|exact Hd].
  - unfold send. destruct (nth_error (loops st) i) as [l|] eqn:En; [|apply Jw; reflexivity].
    destruct (l_pending l) as [|ip rest] eqn:Ep; [apply Jw; reflexivity|].
    intros j lp Hn Hp. cbn [fst set_loops loops] in Hn. destruct (Nat.eq_dec i j) as [<-|Hne].
    + rewrite (nth_setp_eq _ _ _ _ En) in Hn. inversion Hn; subst lp. cbn [l_dst].
      assert (Hp0 : l_pending l <> []) by (rewrite Ep; discriminate).
      destruct (J i l En Hp0) as [s0 [o [k [Hin Hd]]]]. exists s0, o, k. split; [apply in_or_app; left; exact Hin|exact Hd].
    + rewrite nth_setp_ne in Hn by exact Hne. destruct (J j lp Hn Hp) as [s0 [o [k [Hin Hd]]]].
      exists s0, o, k. split; [apply in_or_app; left; exact Hin|exact Hd].
  - unfold rx_ra. destruct (blen p <? 16); [apply Jw; reflexivity|].
    destruct (negb (Z.rem (repeat_ st + 1) 4 =? 0)%Z); [apply Jw; reflexivity|].
    destruct (negb hk); [apply Jw; reflexivity|].
    destruct (ra_options p); try (apply Jw; reflexivity).
    destruct (rt_find (routers st) src); apply Jw; reflexivity.
  - apply Jw. reflexivity.
  - apply Jw. reflexivity.
Qed.

Lemma run_snoc c : forall evs st e,
  run c st (evs ++ [e]) =
  (fst (run c st evs) ++ [(snd (run c st evs), e, snd (step c (snd (run c st evs)) e))],
   fst (step c (snd (run c st evs)) e)).
Proof.
  intros evs st e. rewrite run_app. destruct (run c st evs) as [t1 s1]. cbn [run fst snd].
  destruct (step c s1 e) as [s2 o]. reflexivity.
Qed.

Theorem run_justified c rep evs : justified c (fst (run c (init rep) evs)) (snd (run c (init rep) evs)).
Proof.
  induction evs as [|e evs IH] using rev_ind.
  - intros i lp Hn. cbn in Hn. destruct i; discriminate.
  - rewrite run_snoc. cbn [fst snd]. apply step_justified. exact IH.
Qed.

(* C14_confined, decision part: every advertisement that leaves (a Send step after any history evs1)
   was put on its loop's list by an earlier Lookup of that loop, at which the destination MAC was in
   the hunt list, the handler was not closed and a router was known *)
Theorem sent_was_decided c rep evs1 i n :
  let st := snd (run c (init rep) evs1) in
  snd (step c st (Send i)) = ONAs [n] ->
  exists s0 order k, In (s0, Lookup i order, OLook true k) (fst (run c (init rep) evs1)) /\
    decided_ok s0 (na_eth_dst n).
Proof.
  intros st Hs. cbn [step] in Hs. unfold send in Hs.
  destruct (nth_error (loops st) i) as [lp|] eqn:En; [|discriminate].
  destruct (l_pending lp) as [|ip rest] eqn:Ep; [discriminate|]. cbn [snd] in Hs. inversion Hs; subst n. cbn [forge na_eth_dst].
  apply (run_justified c rep evs1 i lp En). rewrite Ep. discriminate.
Qed.
