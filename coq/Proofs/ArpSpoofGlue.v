(* Proofs/ArpSpoofGlue.v — C13's records are the bytes on the wire and the bytes received.

   SEND (C07, files Model/Send*.v, Spec/SendRef.v, Proofs/SendNdp.v; read-only here) proved the arp_spoofer send
   paths byte-exact against an independent reference decoder; VIEWS (C01/C02, Model/Views*.v) models the ARP
   getters of layer_arp.go.  Here: every frame record the C13 event system emits, pushed through SEND's
   byte-level send function of its path, decodes under SEND's reference decoder to exactly that record (and
   Ethernet source = our MAC); and the decoding RxRaw applies to a received frame is VIEWS' IsValid + getters. *)
From PV Require Import Base.Prelude Base.Slice Model.ArpSpoof Spec.ArpSpoof Proofs.ArpSpoof Proofs.ArpSpoofLoops Proofs.ArpSpoofRx.
From PV Require Model.SendBase Model.SendNdp Spec.SendRef Proofs.SendBase Proofs.SendNdp Model.ViewsBase Model.Views.
Open Scope N_scope.

(* ---------------------------------------------------------------- *)
(* numbers <-> address bytes *)

Fixpoint bytes_of_N (width : nat) (n : N) : bytes :=
  match width with
  | O => []
  | S w => (bytes_of_N w (n / 256) ++ [n mod 256])%list
  end.

Definition mac_b (m : mac) : bytes := bytes_of_N 6 m.
Definition ip_b (x : ip4) : bytes := bytes_of_N 4 x.

Definition macr (m : mac) : Prop := m < 281474976710656.   (* 2^48 *)
Definition ipr (x : ip4) : Prop := x < 4294967296.         (* 2^32 *)

Lemma bytes_of_N_length w n : List.length (bytes_of_N w n) = w.
Proof. revert n. induction w as [|w IH]; intros n; simpl; auto. rewrite app_length, IH. simpl. lia. Qed.

Lemma bytes_of_N_ok w n : bytes_ok (bytes_of_N w n).
Proof.
  revert n. induction w as [|w IH]; intros n; simpl; [constructor|].
  apply bytes_ok_app. split; [apply IH|]. constructor; [|constructor].
  apply N.mod_lt. discriminate.
Qed.

Lemma N_of_bytes_of_N w n : n < 256 ^ N.of_nat w -> N_of_bytes (bytes_of_N w n) = n.
Proof.
  revert n. induction w as [|w IH]; intros n H.
  - simpl in *. unfold N_of_bytes. simpl. lia.
  - cbn [bytes_of_N]. rewrite N_of_bytes_snoc. rewrite IH.
    + pose proof (N.div_mod n 256 ltac:(discriminate)). lia.
    + rewrite Nat2N.inj_succ, N.pow_succ_r' in H. apply N.div_lt_upper_bound; [discriminate|]. lia.
Qed.

Lemma mac_b_ok m : Proofs.SendBase.mac_ok (mac_b m).
Proof. split; [apply bytes_of_N_length|apply bytes_of_N_ok]. Qed.
Lemma ip_b_ok x : Proofs.SendBase.ip4_ok (ip_b x).
Proof. split; [apply bytes_of_N_length|apply bytes_of_N_ok]. Qed.

Lemma mac_b_back m : macr m -> N_of_bytes (mac_b m) = m.
Proof. intros H. apply N_of_bytes_of_N. exact H. Qed.
Lemma ip_b_back x : ipr x -> N_of_bytes (ip_b x) = x.
Proof. intros H. apply N_of_bytes_of_N. exact H. Qed.

(* ---------------------------------------------------------------- *)
(* a frame record through SEND's byte-level RequestRaw / reply, and back through SEND's reference decoder *)

Definition send_cfg (c : cfg) (lla : bytes) (mtu : N) : Model.SendBase.cfg :=
  Model.SendBase.mkCfg (mac_b (host_mac c)) (ip_b (host_ip c)) lla (mac_b (router_mac c)) (ip_b (router_ip c)) mtu.

(* arp.go RequestRaw (op 1) / reply (op 2) on the pooled buffer [junk] *)
Definition wire (sc : Model.SendBase.cfg) (f : frame) (junk : bytes) : res (list bytes) :=
  Model.SendNdp.send_arp sc (fop f) (mac_b (fedst f)) (mac_b (fsmac f), ip_b (fsip f)) (mac_b (ftmac f), ip_b (ftip f)) junk.

(* what SEND's reference decoder reads off the wire, as (Ethernet source, C13 frame record) *)
Definition unwire (fr : bytes) : option (mac * frame) :=
  match Spec.SendRef.ref_decode fr with
  | Some (Spec.SendRef.mkFrame d s et (Spec.SendRef.L3Arp o a b c e)) =>
      if et =? 2054 then Some (N_of_bytes s, mkFrame o (N_of_bytes d) (N_of_bytes a) (N_of_bytes b) (N_of_bytes c) (N_of_bytes e))
      else None
  | _ => None
  end.

Definition frame_rng (f : frame) : Prop :=
  fop f < 65536 /\ macr (fedst f) /\ macr (fsmac f) /\ ipr (fsip f) /\ macr (ftmac f) /\ ipr (ftip f).

Theorem wire_unwire : forall c lla mtu f junk,
  macr (host_mac c) -> frame_rng f -> (42 <= List.length junk)%nat ->
  exists fr, wire (send_cfg c lla mtu) f junk = Ok [fr] /\ unwire fr = Some (host_mac c, f).
Proof.
  intros c lla mtu f junk Hh (Hop & H1 & H2 & H3 & H4 & H5) HJ.
  destruct (Proofs.SendNdp.arp_spoofer_wf (send_cfg c lla mtu) (fop f) (mac_b (fedst f)) (mac_b (fsmac f)) (ip_b (fsip f))
              (mac_b (ftmac f)) (ip_b (ftip f)) junk) as [fr [Hs Hw]];
    try apply mac_b_ok; try apply ip_b_ok; auto.
  exists fr. split; [exact Hs|].
  unfold Spec.SendRef.wf_arp in Hw. unfold unwire.
  destruct (Spec.SendRef.ref_decode fr) as [[d s0 et l3]|]; [|discriminate].
  destruct l3 as [o a b c0 e| |]; try discriminate.
  repeat (apply andb_true_iff in Hw; destruct Hw as [Hw ?]).
  repeat match goal with H : Spec.SendRef.beq _ _ = true |- _ => apply Proofs.SendBase.beq_eq in H end.
  subst. rewrite Hw.
  assert (o = fop f) by lia. subst o. cbn [Model.SendBase.host_mac send_cfg].
  rewrite !mac_b_back, !ip_b_back by assumption. destruct f; reflexivity.
Qed.

(* ---------------------------------------------------------------- *)
(* every send path of arp.go, as modelled by SEND, is [wire] of the record the C13 model builds for it *)

Lemma eth_bcast_b : mac_b MAC_BCAST = Model.SendBase.eth_bcast.
Proof. vm_compute. reflexivity. Qed.
Lemma eth_zero_b : mac_b MAC_ZERO = Model.SendBase.eth_zero.
Proof. vm_compute. reflexivity. Qed.
Lemma ipv4zero_b : ip_b IP4_ZERO = Model.SendBase.ipv4zero.
Proof. vm_compute. reflexivity. Qed.

Theorem paths_are_wire : forall c lla mtu junk,
  let sc := send_cfg c lla mtu in
  (* AnnounceTo(dst, ip): the loop's periodic announcement is AnnounceTo(target MAC, router IP) *)
  (forall dst ip, Model.SendNdp.arp_announce_to sc (mac_b dst) (ip_b ip) junk = wire sc (announce_ip c dst ip) junk) /\
  (forall dst, Model.SendNdp.arp_announce_to sc (mac_b dst) (ip_b (router_ip c)) junk = wire sc (announce c dst) junk) /\
  (* RequestRaw(dst, sender, target): the restoring request is RequestRaw(target MAC, RouterAddr4, RouterAddr4) *)
  (forall dst sn tg, Model.SendNdp.arp_request_raw sc (mac_b dst) (mac_b (amac sn), ip_b (aip sn)) (mac_b (amac tg), ip_b (aip tg)) junk
                     = wire sc (request_raw dst sn tg) junk) /\
  (forall dst, Model.SendNdp.arp_request_raw sc (mac_b dst) (Model.SendBase.router_mac sc, Model.SendBase.router_ip4 sc)
                 (Model.SendBase.router_mac sc, Model.SendBase.router_ip4 sc) junk = wire sc (restore c dst) junk) /\
  (* Reply(dst, sender, target): the spoof reply and the probe reject are Reply(srcMAC, {ourMAC, DstIP}, {srcMAC, ...}) *)
  (forall dst sn tg, Model.SendNdp.arp_reply sc (mac_b dst) (mac_b (amac sn), ip_b (aip sn)) (mac_b (amac tg), ip_b (aip tg)) junk
                     = wire sc (reply_raw dst sn tg) junk) /\
  (forall p, Model.SendNdp.arp_reply sc (mac_b (psmac p)) (Model.SendBase.host_mac sc, ip_b (ptip p)) (mac_b (psmac p), ip_b (psip p)) junk
             = wire sc (spoof_reply c p) junk) /\
  (forall p, Model.SendNdp.arp_reply sc (mac_b (psmac p)) (Model.SendBase.host_mac sc, ip_b (ptip p)) (mac_b (psmac p), ip_b IP4_BCAST) junk
             = wire sc (probe_reject c p) junk) /\
  (* Request / RequestTo / Scan / WhoIs, Probe *)
  (forall dst ip, Model.SendNdp.arp_request_to sc (mac_b dst) (ip_b ip) junk = wire sc (request_to c dst ip) junk) /\
  (forall ip, Model.SendNdp.arp_request sc (ip_b ip) junk = wire sc (request_to c MAC_BCAST ip) junk) /\
  (forall ip, Model.SendNdp.arp_probe sc (ip_b ip) junk = wire sc (probe_frame c ip) junk).
Proof.
  intros c lla mtu junk sc.
  unfold Model.SendNdp.arp_announce_to, Model.SendNdp.arp_request_raw, Model.SendNdp.arp_reply,
    Model.SendNdp.arp_request, Model.SendNdp.arp_request_to, Model.SendNdp.arp_probe, wire.
  repeat split; intros; cbn [announce announce_ip request_raw reply_raw restore spoof_reply probe_reject request_to probe_frame
                             fop fedst fsmac fsip ftmac ftip sc send_cfg
                             Model.SendBase.host_mac Model.SendBase.host_ip4 Model.SendBase.router_mac Model.SendBase.router_ip4];
    rewrite ?eth_bcast_b, ?eth_zero_b, ?ipv4zero_b; try reflexivity.
Qed.

(* ---------------------------------------------------------------- *)
(* everything the model emits is in range when the configuration and the events are *)

Definition addr_rng (a : addr) : Prop := macr (amac a) /\ ipr (aip a).
Definition pkt_rng (p : arp_pkt) : Prop := macr (psmac p) /\ ipr (psip p) /\ ipr (ptip p).

Definition cfg_rng (c : cfg) : Prop :=
  macr (host_mac c) /\ ipr (host_ip c) /\ macr (router_mac c) /\ ipr (router_ip c) /\
  (forall ip, In ip (scan_ips c) -> ipr ip).

Definition event_rng (e : event) : Prop :=
  match e with
  | StartHunt a => addr_rng a
  | RxArp p => pkt_rng p
  | RxRaw _ b => bytes_ok b
  | ApiRequest ip | ApiProbe ip | ApiWhoIs ip _ => ipr ip
  | ApiRequestTo dst ip | ApiAnnounceTo dst ip => macr dst /\ ipr ip
  | ApiRequestRaw dst sn tg | ApiReply dst sn tg => macr dst /\ addr_rng sn /\ addr_rng tg
  | _ => True
  end.

Definition pc_rng (p : pc) : Prop :=
  match p with PLooked (Some t) => addr_rng t | PSend f _ => frame_rng f | _ => True end.
Definition loop_rng (lp : loop) : Prop := addr_rng (laddr lp) /\ pc_rng (lpc lp).
Definition scan_rng (x : scan) : Prop :=
  Forall ipr (sips x) /\ match sdec x with Some ip => ipr ip | None => True end.

Record state_rng (s : state) : Prop := mkRng {
  rng_hunt : Forall addr_rng (hunt s);
  rng_loops : Forall loop_rng (loops s);
  rng_rxq : Forall frame_rng (rxq s);
  rng_scans : Forall scan_rng (scans s)
}.

Lemma macr_bcast : macr MAC_BCAST. Proof. unfold macr, MAC_BCAST. lia. Qed.
Lemma macr_zero : macr MAC_ZERO. Proof. unfold macr, MAC_ZERO. lia. Qed.
Lemma ipr_bcast : ipr IP4_BCAST. Proof. unfold ipr, IP4_BCAST. lia. Qed.
Lemma ipr_zero : ipr IP4_ZERO. Proof. unfold ipr, IP4_ZERO. lia. Qed.

Lemma Forall_set_nth {A} (P : A -> Prop) i v l : Forall P l -> P v -> Forall P (set_nth i v l).
Proof.
  revert i. induction l as [|x xs IH]; intros [|i] H Hv; simpl; auto; inversion H; subst; constructor; auto.
Qed.

Lemma Forall_nth_error {A} (P : A -> Prop) l i x : Forall P l -> nth_error l i = Some x -> P x.
Proof. intros H Hn. rewrite Forall_forall in H. apply H. eapply nth_error_In; eauto. Qed.

Lemma Forall_filter {A} (P : A -> Prop) f l : Forall P l -> Forall P (filter f l).
Proof. intros H. rewrite Forall_forall in *. intros x Hx. apply filter_In in Hx. apply H. tauto. Qed.

Lemma Forall_remove_nth {A} (P : A -> Prop) k l : Forall P l -> Forall P (remove_nth k l).
Proof.
  unfold remove_nth. revert k. induction l as [|x xs IH]; intros [|k] H; simpl; auto; inversion H; subst; auto.
  constructor; auto. apply IH; auto.
Qed.

Lemma N_of_bytes_bound l : bytes_ok l -> N_of_bytes l < 256 ^ N.of_nat (List.length l).
Proof.
  induction l as [|b r IH] using rev_ind; intros H.
  - unfold N_of_bytes. simpl. lia.
  - apply bytes_ok_app in H as [H1 H2]. inversion H2; subst.
    rewrite N_of_bytes_snoc, app_length. cbn [List.length]. rewrite Nat.add_1_r.
    rewrite Nat2N.inj_succ, N.pow_succ_r'. specialize (IH H1). lia.
Qed.

Lemma field_bound (b : bytes) off n k :
  bytes_ok b -> (n <= k)%nat -> N_of_bytes (firstn n (skipn off b)) < 256 ^ N.of_nat k.
Proof.
  intros H Hn.
  assert (Hok : bytes_ok (firstn n (skipn off b))) by (apply bytes_ok_firstn, bytes_ok_skipn; exact H).
  pose proof (N_of_bytes_bound _ Hok) as B.
  assert (Hl : (List.length (firstn n (skipn off b)) <= k)%nat) by (rewrite firstn_length; lia).
  assert (256 ^ N.of_nat (List.length (firstn n (skipn off b))) <= 256 ^ N.of_nat k)
    by (apply N.pow_le_mono_r; lia).
  lia.
Qed.

Lemma decode_rng et b p : bytes_ok b -> sp_decode et b = Some p -> pkt_rng p.
Proof.
  unfold sp_decode. intros Hb H. destruct (_ && _); [|discriminate]. inversion H; subst; clear H.
  unfold pkt_rng, sp_field, macr, ipr. simpl. rewrite !sp_num_eq.
  repeat split.
  - apply (field_bound b 8 6 6 Hb). lia.
  - apply (field_bound b 14 4 4 Hb). lia.
  - apply (field_bound b 24 4 4 Hb). lia.
Qed.

Section Ranges.
Variable c : cfg.
Hypothesis Hcfg : cfg_rng c.

Let Hhm : macr (host_mac c) := proj1 Hcfg.
Let Hhi : ipr (host_ip c) := proj1 (proj2 Hcfg).
Let Hrm : macr (router_mac c) := proj1 (proj2 (proj2 Hcfg)).
Let Hri : ipr (router_ip c) := proj1 (proj2 (proj2 (proj2 Hcfg))).

Lemma rng_announce_ip d ip : macr d -> ipr ip -> frame_rng (announce_ip c d ip).
Proof. intros. unfold frame_rng, announce_ip. simpl. repeat split; auto; try apply macr_bcast. all: try lia. Qed.
Lemma rng_announce d : macr d -> frame_rng (announce c d).
Proof. intros. apply rng_announce_ip; auto. Qed.
Lemma rng_restore d : macr d -> frame_rng (restore c d).
Proof. intros. unfold frame_rng, restore. simpl. repeat split; auto. all: try lia. Qed.
Lemma rng_request_to d ip : macr d -> ipr ip -> frame_rng (request_to c d ip).
Proof. intros. unfold frame_rng, request_to. simpl. repeat split; auto; try apply macr_bcast. all: try lia. Qed.
Lemma rng_probe_frame ip : ipr ip -> frame_rng (probe_frame c ip).
Proof. intros. unfold frame_rng, probe_frame. simpl. repeat split; auto; try apply macr_bcast; try apply macr_zero; try apply ipr_zero. all: try lia. Qed.
Lemma rng_spoof_reply p : pkt_rng p -> frame_rng (spoof_reply c p).
Proof. intros (H1 & H2 & H3). unfold frame_rng, spoof_reply. simpl. repeat split; auto. all: try lia. Qed.
Lemma rng_probe_reject p : pkt_rng p -> frame_rng (probe_reject c p).
Proof. intros (H1 & H2 & H3). unfold frame_rng, probe_reject. simpl. repeat split; auto; try apply ipr_bcast. all: try lia. Qed.
Lemma rng_request_raw d sn tg : macr d -> addr_rng sn -> addr_rng tg -> frame_rng (request_raw d sn tg).
Proof. intros H [H1 H2] [H3 H4]. unfold frame_rng, request_raw. simpl. repeat split; auto. all: try lia. Qed.
Lemma rng_reply_raw d sn tg : macr d -> addr_rng sn -> addr_rng tg -> frame_rng (reply_raw d sn tg).
Proof. intros H [H1 H2] [H3 H4]. unfold frame_rng, reply_raw. simpl. repeat split; auto. all: try lia. Qed.

Lemma wr2_rng s f : frame_rng f -> Forall frame_rng (snd (wr2 s f)).
Proof. intros H. apply Forall_forall. intros g Hin. apply wr2_out in Hin. subst. exact H. Qed.

Lemma rx_arp_out_rng s p : pkt_rng p -> Forall frame_rng (snd (rx_arp c s p)).
Proof. intros Hp. rewrite rx_arp_silent. constructor. Qed.

Lemma out_rng s e : state_rng s -> event_rng e -> Forall frame_rng (snd (step c s e)).
Proof.
  intros Hs He.
  destruct e as [a| |m0| |i|i|i|p|kr|et b|m1 o|kf|ip|dst ip|ip|dst ip|dst sn tg|dst sn tg| |j|j|ip n| ];
    simpl in *; try (constructor; fail).
  - unfold start_hunt. destruct (hunt_has _ _); constructor.
  - unfold lookup. destruct (nth_error (loops s) i) as [lp|]; [destruct (lpc lp)|]; constructor.
  - unfold check. destruct (nth_error (loops s) i) as [lp|]; [destruct (lpc lp)|]; constructor.
  - apply Forall_forall. intros f Hin. destruct (send s i) as [s' out] eqn:E.
    destruct (send_out _ _ _ _ _ E Hin) as [lp [cont [Hl Hp]]].
    pose proof (Forall_nth_error _ _ _ _ (rng_loops _ Hs) Hl) as [_ Hpc]. rewrite Hp in Hpc. exact Hpc.
  - apply rx_arp_out_rng; auto.
  - apply Forall_forall. intros g Hin. destruct (rx_reply_spec s kr) as [H0 _].
    apply (Forall_nth_error _ _ _ _ (rng_rxq _ Hs) (H0 g Hin)).
  - pose proof (raw_spec c s et b) as R. simpl in R. rewrite R.
    destruct (sp_decode et b) as [p|] eqn:D; [|constructor].
    apply rx_arp_out_rng. eapply decode_rng; eauto.
  - apply wr2_rng, rng_request_to; auto. apply macr_bcast.
  - destruct He. apply wr2_rng, rng_request_to; auto.
  - apply wr2_rng, rng_probe_frame; auto.
  - destruct He. apply wr2_rng, rng_announce_ip; auto.
  - destruct He as (H & H1 & H2). apply wr2_rng, rng_request_raw; auto.
  - destruct He as (H & H1 & H2). apply wr2_rng, rng_reply_raw; auto.
  - destruct (scan_check_spec c s j) as [E _]. rewrite E. constructor.
  - unfold scan_send. destruct (nth_error (scans s) j) as [[ips d]|] eqn:Hj; [|constructor].
    destruct d as [ip0|]; [|constructor].
    pose proof (Forall_nth_error _ _ _ _ (rng_scans _ Hs) Hj) as [_ Hd]. simpl in Hd.
    destruct (wr s (request_to c MAC_BCAST ip0)) as [[s1 o] ok] eqn:Hw. simpl.
    apply Forall_forall. intros g Hin. rewrite (wr_out _ _ _ _ _ _ Hw Hin).
    apply rng_request_to; auto. apply macr_bcast.
  - apply Forall_forall. intros g Hin. destruct (whois_go_spec c ip (Nat.min n 3) s) as [H0 _].
    rewrite (H0 g Hin). apply rng_request_to; auto. apply macr_bcast.
Qed.

Lemma Forall_set_pc i p l lp :
  Forall loop_rng l -> nth_error l i = Some lp -> pc_rng p -> Forall loop_rng (set_pc i p l).
Proof.
  intros H Hl Hp. unfold set_pc. rewrite Hl. apply Forall_set_nth; auto.
  split; [|exact Hp]. apply (Forall_nth_error _ _ _ _ H Hl).
Qed.

Lemma Forall_set_scan j x l : Forall scan_rng l -> scan_rng x -> Forall scan_rng (set_scan j x l).
Proof. intros H Hx. unfold set_scan. destruct (nth_error l j); auto. apply Forall_set_nth; auto. Qed.

Lemma hunt_rng_step s e : state_rng s -> event_rng e -> Forall addr_rng (hunt (fst (step c s e))).
Proof.
  intros Hs He. pose proof (step_hunt_closed c s e) as G. pose proof (rng_hunt _ Hs) as Hh.
  destruct e; try (destruct G as [G _]; rewrite G; exact Hh); simpl in *.
  - unfold start_hunt. destruct (hunt_has _ _); simpl; auto. apply Forall_app. split; auto.
  - unfold hunt_del. apply Forall_filter. exact Hh.
  - exact Hh.
Qed.

Lemma loops_rng_step s e : state_rng s -> event_rng e -> Forall loop_rng (loops (fst (step c s e))).
Proof.
  intros Hs He. pose proof (rng_loops _ Hs) as Hl.
  destruct (core_event e) eqn:Hce.
  - destruct (step_core c s e Hce) as [_ [H2 _]]. rewrite H2. exact Hl.
  - destruct e; try discriminate; simpl in *; auto.
    + unfold start_hunt. destruct (hunt_has _ _); simpl; auto. apply Forall_app. split; auto.
      constructor; [|constructor]. split; [exact He|exact I].
    + unfold lookup. destruct (nth_error (loops s) i) as [lp|] eqn:Hi; auto.
      destruct (lpc lp); auto; simpl; apply (Forall_set_pc _ _ _ lp Hl Hi); (destruct (closed s); [exact I|]); simpl;
        (destruct (hunt_find (amac (laddr lp)) (hunt s)) as [t|] eqn:Hf; [|exact I]);
        apply hunt_find_some in Hf as [Hin _]; pose proof (rng_hunt _ Hs) as Hh; rewrite Forall_forall in Hh; apply Hh; exact Hin.
    + unfold check. destruct (nth_error (loops s) i) as [lp|] eqn:Hi; auto.
      destruct (lpc lp) as [|found|f cont| |] eqn:Hp; auto. simpl. apply (Forall_set_pc _ _ _ lp Hl Hi).
      pose proof (Forall_nth_error _ _ _ _ Hl Hi) as [Ha Hpc]. rewrite Hp in Hpc.
      destruct found as [t|]; simpl; auto.
      * apply rng_announce. apply Hpc.
      * apply rng_restore. apply Ha.
    + unfold send. destruct (nth_error (loops s) i) as [lp|] eqn:Hi; auto.
      destruct (lpc lp) as [|found|f cont| |] eqn:Hp; auto.
      destruct (wr s f) as [[s1 o] ok] eqn:Hw. destruct (wr_state _ _ _ _ _ Hw) as [_ [W2 _]]. simpl. rewrite W2.
      apply (Forall_set_pc _ _ _ lp Hl Hi). destruct cont; exact I.
Qed.

Lemma rxq_rng_step s e : state_rng s -> event_rng e -> Forall frame_rng (rxq (fst (step c s e))).
Proof.
  intros Hs He. pose proof (rng_rxq _ Hs) as Hq. pose proof (step_rxq c s e) as G.
  assert (Hrx : forall p, pkt_rng p -> Forall frame_rng (rxq (fst (rx_arp c s p)))).
  { intros p Hp. destruct (rx_arp_queue c s p) as [E|[[_ E]|[_ E]]]; rewrite E; auto;
      apply Forall_app; split; auto; (constructor; [|constructor]); [apply rng_spoof_reply|apply rng_probe_reject]; auto. }
  destruct e as [a| |m0| |i|i|i|p|kr|et b|m1 o|kf|ip|dst ip|ip|dst ip|dst sn tg|dst sn tg| |j|j|ip n| ];
    try (rewrite G; exact Hq).
  - apply Hrx. exact He.
  - destruct (rx_reply_spec s kr) as [_ [_ [_ [_ [_ H6]]]]]. simpl. rewrite H6.
    destruct (nth_error (rxq s) kr); auto. apply Forall_remove_nth. exact Hq.
  - pose proof (raw_spec c s et b) as R. rewrite R.
    destruct (sp_decode et b) as [p|] eqn:D; [|exact Hq]. apply Hrx. eapply decode_rng; eauto.
Qed.

Lemma scans_rng_step s e : state_rng s -> event_rng e -> Forall scan_rng (scans (fst (step c s e))).
Proof.
  intros Hs He. pose proof (rng_scans _ Hs) as Hsc. pose proof (step_scans c s e) as G.
  destruct e as [a| |m0| |i|i|i|p|kr|et b|m1 o|kf|ip|dst ip|ip|dst ip|dst sn tg|dst sn tg| |j|j|ip n| ];
    try (rewrite G; exact Hsc); simpl.
  - apply Forall_app. split; auto. constructor; [|constructor]. split; simpl; [|exact I].
    apply Forall_forall. apply Hcfg.
  - unfold scan_check. destruct (nth_error (scans s) j) as [[ips d]|] eqn:Hj; auto.
    destruct ips as [|ip0 r]; auto. destruct d; auto.
    pose proof (Forall_nth_error _ _ _ _ Hsc Hj) as [Hips _]. simpl in Hips. inversion Hips; subst.
    destruct ((ip0 =? router_ip c) || (ip0 =? host_ip c)); [|destruct (closed s)]; simpl;
      apply Forall_set_scan; auto; split; simpl; auto.
  - unfold scan_send. destruct (nth_error (scans s) j) as [[ips d]|] eqn:Hj; auto.
    destruct d as [ip0|]; auto.
    pose proof (Forall_nth_error _ _ _ _ Hsc Hj) as [Hips _]. simpl in Hips.
    destruct (wr s (request_to c MAC_BCAST ip0)) as [[s1 o] ok] eqn:Hw.
    destruct (wr_state2 _ _ _ _ _ Hw) as [_ W6]. simpl. rewrite W6.
    apply Forall_set_scan; auto. split; simpl; [|exact I]. destruct ok; auto.
Qed.

Lemma state_rng_step s e : state_rng s -> event_rng e -> state_rng (fst (step c s e)).
Proof.
  intros Hs He. constructor.
  - apply hunt_rng_step; auto. - apply loops_rng_step; auto. - apply rxq_rng_step; auto. - apply scans_rng_step; auto.
Qed.
End Ranges.

Lemma state_rng_init : state_rng init_state.
Proof. constructor; simpl; constructor. Qed.

(* along every run whose events are in range, everything emitted is in range *)
Lemma trace_rng c : cfg_rng c -> forall evs s0, state_rng s0 -> Forall event_rng evs ->
  forall x, In x (trace c s0 evs) -> state_rng (fst (fst x)) /\ event_rng (snd (fst x)).
Proof.
  intros Hc evs. induction evs as [|e r IH]; intros s0 Hs Hev x Hin; simpl in Hin; [contradiction|].
  inversion Hev; subst. destruct (step c s0 e) as [s1 o] eqn:E. destruct Hin as [Hin|Hin].
  - subst x. simpl. auto.
  - apply (IH s1); auto. pose proof (state_rng_step c Hc s0 e Hs H1) as G. rewrite E in G. exact G.
Qed.

Theorem run_rng : forall c evs s e out f,
  cfg_rng c -> Forall event_rng evs ->
  In (s, e, out) (trace c init_state evs) -> In f out -> frame_rng f.
Proof.
  intros c evs s e out f Hc Hev Hin Hf.
  destruct (trace_rng c Hc evs init_state state_rng_init Hev _ Hin) as [Hs He]. simpl in Hs, He.
  apply trace_in in Hin as [s' Hst]. simpl in Hst.
  pose proof (out_rng c Hc s e Hs He) as G. rewrite Hst in G. simpl in G.
  rewrite Forall_forall in G. apply G. exact Hf.
Qed.

(* ---------------------------------------------------------------- *)
(* C13 on the wire *)

(* every frame record of every in-range run IS a byte string on the wire that reads back as that record *)
Theorem on_the_wire : forall c evs s e out f lla mtu junk,
  cfg_rng c -> Forall event_rng evs ->
  In (s, e, out) (trace c init_state evs) -> In f out -> (42 <= List.length junk)%nat ->
  exists fr, wire (send_cfg c lla mtu) f junk = Ok [fr] /\ unwire fr = Some (host_mac c, f).
Proof.
  intros c evs s e out f lla mtu junk Hc Hev Hin Hf HJ.
  apply wire_unwire; auto. apply Hc. eapply run_rng; eauto.
Qed.

(* confinement as a statement about the bytes: whatever SEND's reference decoder reads as a forged ARP frame
   (sender = our MAC + router IP) off a frame this handler put on the wire was asked for by the caller, or is
   addressed (Ethernet destination bytes) to a MAC in the hunt list, or was decided under the lock while it was *)
Theorem confined_on_the_wire : forall c evs s e out f lla mtu junk fr src g,
  cfg_ok c -> cfg_rng c -> Forall event_rng evs ->
  In (s, e, out) (trace c init_state evs) -> In f out -> (42 <= List.length junk)%nat ->
  wire (send_cfg c lla mtu) f junk = Ok [fr] -> unwire fr = Some (src, g) ->
  src = host_mac c /\ g = f /\
  (forged c g = true ->
     caller_forged c e = true \/ hunted s (fedst g) = true \/
     (exists i lp, e = Send i /\ nth_error (loops s) i = Some lp /\ armed_pc c (fedst g) (lpc lp) = true) \/
     (exists k, e = RxReply k /\ nth_error (rxq s) k = Some g)).
Proof.
  intros c evs s e out f lla mtu junk fr src g Hok Hc Hev Hin Hf HJ Hw Hu.
  destruct (on_the_wire c evs s e out f lla mtu junk Hc Hev Hin Hf HJ) as [fr' [Hw' Hu']].
  rewrite Hw in Hw'. inversion Hw'; subst fr'. rewrite Hu in Hu'. inversion Hu'; subst src g.
  split; auto. split; auto. intros Hfg. eapply confined; eauto.
Qed.

(* the two frames of StopHunt-is-undone, as bytes: what C13_stop_undone hands to the connection is RequestRaw(m,
   RouterAddr4, RouterAddr4), and its bytes read back as: Ethernet dst m, Ethernet src our MAC, ARP request with
   sender = target = (router MAC, router IP) — the router's real binding; what a hunted host gets periodically is
   AnnounceTo(m, router IP): sender = (our MAC, router IP) *)
Theorem restore_on_the_wire : forall c m lla mtu junk,
  cfg_rng c -> macr m -> (42 <= List.length junk)%nat ->
  let sc := send_cfg c lla mtu in
  exists fr,
    Model.SendNdp.arp_request_raw sc (mac_b m) (Model.SendBase.router_mac sc, Model.SendBase.router_ip4 sc)
      (Model.SendBase.router_mac sc, Model.SendBase.router_ip4 sc) junk = Ok [fr] /\
    unwire fr = Some (host_mac c, restore c m).
Proof.
  intros c m lla mtu junk Hc Hm HJ sc.
  destruct (paths_are_wire c lla mtu junk) as (_ & _ & _ & P & _). fold sc in P. rewrite P.
  apply wire_unwire; auto; [apply Hc|]. apply rng_restore; auto.
Qed.

Theorem announce_on_the_wire : forall c m lla mtu junk,
  cfg_rng c -> macr m -> (42 <= List.length junk)%nat ->
  let sc := send_cfg c lla mtu in
  exists fr,
    Model.SendNdp.arp_announce_to sc (mac_b m) (ip_b (router_ip c)) junk = Ok [fr] /\
    unwire fr = Some (host_mac c, announce c m).
Proof.
  intros c m lla mtu junk Hc Hm HJ sc.
  destruct (paths_are_wire c lla mtu junk) as (_ & P & _). fold sc in P. rewrite P.
  apply wire_unwire; auto; [apply Hc|]. apply rng_announce; auto.
Qed.

(* ---------------------------------------------------------------- *)
(* received frames: RxRaw's validity test and field decoding are VIEWS' ARP.IsValid and ARP getters *)

Theorem rx_valid_is_views : forall p : slice,
  Model.Views.ARP_IsValid p =
  match arp_is_valid p with Ok _ => Ok true | Err _ => Ok false | Panic => Panic | Fuel => Fuel end.
Proof.
  intros p. unfold Model.Views.ARP_IsValid, arp_is_valid, ARP_LEN, Model.ViewsBase.lenN.
  assert (Hlt : (N.of_nat (len p) <? 28) = Nat.ltb (len p) 28).
  { destruct (Nat.ltb_spec (len p) 28); [apply N.ltb_lt|apply N.ltb_ge]; lia. }
  rewrite Hlt. destruct (Nat.ltb (len p) 28); [reflexivity|].
  unfold be16_at, idx.
  destruct (Nat.leb (0 + 2) (cap p)); cbn [bind]; [|reflexivity].
  destruct (negb (_ =? 1)); [reflexivity|].
  destruct (Nat.leb (2 + 2) (cap p)); cbn [bind]; [|reflexivity].
  destruct (negb (_ =? 2048)); [reflexivity|].
  destruct (Nat.ltb 4 (len p)); cbn [bind]; [|reflexivity].
  destruct (negb (_ =? 6)); [reflexivity|].
  destruct (Nat.ltb 5 (len p)); cbn [bind]; [|reflexivity].
  destruct (negb (_ =? 4)); reflexivity.
Qed.

(* on a view VIEWS calls valid, the five getters succeed and RxRaw's packet is built from exactly their values:
   Operation(), the bytes SrcMAC() = p[8:14] and DstMAC() = p[18:24] alias, the arrays SrcIP() and DstIP() copy *)
Theorem rx_decode_is_views : forall (p : slice) m,
  wf p -> Model.Views.ARP_IsValid p = Ok true ->
  exists op si ti,
    Model.Views.ARP_Operation p = Ok (Model.ViewsBase.VN op) /\
    Model.Views.ARP_SrcMAC p = Ok (Model.ViewsBase.VR 8 6) /\
    Model.Views.ARP_SrcIP p = Ok (Model.ViewsBase.VX si) /\
    Model.Views.ARP_DstMAC p = Ok (Model.ViewsBase.VR 18 6) /\
    Model.Views.ARP_DstIP p = Ok (Model.ViewsBase.VX ti) /\
    arp_decode m p = Ok (mkPkt op m (N_of_bytes (sub (arr p) 8 6)) (N_of_bytes si)
                                    (N_of_bytes (sub (arr p) 18 6)) (N_of_bytes ti)).
Proof.
  intros p m Hwf Hv.
  assert (Hlen : (28 <= len p)%nat).
  { rewrite rx_valid_is_views in Hv. unfold arp_is_valid, ARP_LEN in Hv.
    destruct (Nat.ltb_spec (len p) 28); [discriminate|auto]. }
  unfold wf in Hwf. unfold cap in Hwf.
  assert (Hc : (28 <= cap p)%nat) by (unfold cap; lia).
  unfold Model.Views.ARP_Operation, Model.Views.ARP_SrcMAC, Model.Views.ARP_SrcIP, Model.Views.ARP_DstMAC,
    Model.Views.ARP_DstIP, Model.ViewsBase.rbe16, Model.ViewsBase.rsl, Model.ViewsBase.rarr, arp_decode.
  rewrite be16_at_ok by lia. rewrite !sl_ok by lia. cbn [bind len arr].
  do 3 eexists. repeat split; try reflexivity.
Qed.

(* ---------------------------------------------------------------- *)
(* "the probing MAC holds a different outstanding DHCP offer": the offer is what the SESSION's MAC table says
   (session.DHCPv4IPOffer reads MACEntry.IP4Offer), as modelled by TABLES (Model/Tables.v, read-only).  The C13
   state's offer list is the view of a TABLES state; MAC keys are unique in every reachable TABLES state
   (Proofs/Tables.v: the consistency invariant of C05), which is the only hypothesis. *)
From PV Require Model.Tables.

Definition tables_offer (t : Model.Tables.state) (m : mac) : option ip4 :=
  match Model.Tables.find_mac m (Model.Tables.macs t) with
  | Some e => match Model.Tables.m_offer e with Model.Tables.IP4 a => Some a | _ => None end
  | None => None
  end.

Definition offer_entry (e : Model.Tables.macent) : list (mac * ip4) :=
  match Model.Tables.m_offer e with Model.Tables.IP4 a => [(Model.Tables.m_mac e, a)] | _ => [] end.
Definition offers_view (t : Model.Tables.state) : list (mac * ip4) := flat_map offer_entry (Model.Tables.macs t).

Lemma offer_of_absent m l : ~ In m (map Model.Tables.m_mac l) -> offer_of m (flat_map offer_entry l) = None.
Proof.
  induction l as [|e r IH]; intros H; simpl; auto.
  simpl in H. unfold offer_entry at 1. destruct (Model.Tables.m_offer e); simpl; try (apply IH; tauto).
  destruct (Model.Tables.m_mac e =? m) eqn:E; [exfalso; apply H; left; lia|]. apply IH. tauto.
Qed.

Theorem offers_view_lookup : forall t m,
  NoDup (map Model.Tables.m_mac (Model.Tables.macs t)) -> offer_of m (offers_view t) = tables_offer t m.
Proof.
  intros t m. unfold offers_view, tables_offer. induction (Model.Tables.macs t) as [|e r IH]; intros H; simpl; auto.
  inversion H; subst. destruct (Model.Tables.m_mac e =? m) eqn:E.
  - assert (Model.Tables.m_mac e = m) by lia. subst m.
    unfold offer_entry at 1. destruct (Model.Tables.m_offer e); simpl; try (apply offer_of_absent; auto).
    rewrite N.eqb_refl. reflexivity.
  - unfold offer_entry at 1. destruct (Model.Tables.m_offer e); simpl; try (apply IH; auto).
    rewrite E. apply IH. auto.
Qed.

(* hence the probe-reject decision of C13_probe_reject_iff reads the session's table: for a C13 state whose offers
   are the view of a TABLES state, the offer in sp_reject_cond is MACEntry.IP4Offer of the probing MAC *)
Theorem probe_reject_reads_tables : forall c s t p,
  NoDup (map Model.Tables.m_mac (Model.Tables.macs t)) -> offers s = offers_view t ->
  rx_answer c s p =
  if closed s then RxNone
  else if sp_is_probe p
  then (if sp_reject_cond c (tables_offer t (psmac p)) p then RxQueue (probe_reject c p) else RxNone)
  else (if sp_asks_router c p && hunted s (psmac p) then RxQueue (spoof_reply c p) else RxNone).
Proof.
  intros c s t p Hn Ho. unfold rx_answer. rewrite Ho, (offers_view_lookup t (psmac p) Hn). reflexivity.
Qed.
