(* Proofs/PingRefine.v — the waiter-table model refines the table-free reference machine:
   for every well-formed history (repaired code, or no failed send) the reference
   machine accepts the abstracted history and ends in the abstraction of the model's state; and
   the number of table entries is the number of entries the reference says are needed. *)
From PV Require Import Base.Prelude Model.Ping Model.PingTrace Model.PingAbs Spec.PingSpec.
From PV Require Import Proofs.Ping Proofs.PingIff Proofs.PingMore.
From Coq Require Import Permutation.
Open Scope N_scope.

(* ------------------------------------------------------------------ *)
(* lists of calls *)

Lemma sget_abs l p : sget (map abs_ping l) p = option_map abs_call (pget l p).
Proof.
  induction l as [|[k u] r IH]; cbn [map abs_ping sget pget fst snd option_map]; [reflexivity|].
  destruct (Nat.eqb k p); [reflexivity|exact IH].
Qed.

Lemma map_pset l p v : map abs_ping (pset l p v) = sset (map abs_ping l) p (abs_call v).
Proof.
  induction l as [|[k u] r IH]; unfold pset; fold pset; cbn [map abs_ping sset fst snd]; [reflexivity|].
  destruct (Nat.eqb k p); cbn [map abs_ping fst snd]; [reflexivity|]. rewrite IH. reflexivity.
Qed.

Lemma sset_absent st p c : sget st p = None -> sset st p c = st ++ [(p, c)].
Proof.
  induction st as [|[k u] r IH]; cbn [sget sset app]; [reflexivity|].
  destruct (Nat.eqb k p); [discriminate|]. intros H. rewrite IH by exact H. reflexivity.
Qed.

Lemma sset_same st p c : sget st p = Some c -> sset st p c = st.
Proof.
  induction st as [|[k u] r IH]; cbn [sget sset]; [discriminate|].
  destruct (Nat.eqb_spec k p).
  - intros E; inversion E; subst. reflexivity.
  - intros H. rewrite IH by exact H. reflexivity.
Qed.

Lemma waiting_abs pg : c_waiting (abs_call pg) = outstanding pg.
Proof. unfold c_waiting, abs_call, outstanding, abs_out. cbn. destruct (p_phase pg) as [| |[]]; reflexivity. Qed.

(* call numbers are unique in the list of calls *)
Definition PK (s : state) : Prop := NoDup (map fst (pings s)).

Lemma pset_keys l p v : map fst (pset l p v) =
  match pget l p with Some _ => map fst l | None => map fst l ++ [p] end.
Proof.
  induction l as [|[k u] r IH]; unfold pset; fold pset; cbn [map fst pget app]; [reflexivity|].
  destruct (Nat.eqb_spec k p); cbn [map fst].
  - subst. reflexivity.
  - rewrite IH. destruct (pget r p); reflexivity.
Qed.

Lemma pget_none_notin l p : pget l p = None -> ~ In p (map fst l).
Proof.
  induction l as [|[k u] r IH]; cbn [pget map fst In]; [tauto|].
  destruct (Nat.eqb_spec k p); [discriminate|]. intros H [E|Hin]; [auto|]. exact (IH H Hin).
Qed.

Lemma nodup_snoc {A} (l : list A) x : NoDup l -> ~ In x l -> NoDup (l ++ [x]).
Proof.
  induction l as [|y r IH]; cbn [app]; intros H Hn; [constructor; [tauto|constructor]|].
  inversion H; subst. constructor.
  - intros Hin. apply in_app_or in Hin. destruct Hin as [Hin|[E|[]]]; [tauto|]. subst. apply Hn. left. reflexivity.
  - apply IH; [assumption|]. intros Hin. apply Hn. right. exact Hin.
Qed.

Lemma PK_step fx s e s' : PK s -> step fx s e = Ok s' -> PK s'.
Proof.
  unfold PK. intros H Hs. step_cases Hs; cbn [pings set_pings]; rewrite ?pset_keys, ?Ep, ?Epq; auto.
  all: apply nodup_snoc; [exact H|apply pget_none_notin; exact Ep].
Qed.

Lemma In_pget l p pg : NoDup (map fst l) -> In (p, pg) l -> pget l p = Some pg.
Proof.
  induction l as [|[k u] r IH]; cbn [map fst In pget]; [tauto|].
  intros H [E|Hin].
  - inversion E; subst. rewrite Nat.eqb_refl. reflexivity.
  - inversion H; subst. destruct (Nat.eqb_spec k p).
    + subst. exfalso. apply H2. change p with (fst (p, pg)). apply in_map. exact Hin.
    + apply IH; assumption.
Qed.

Lemma pget_In l p pg : pget l p = Some pg -> In (p, pg) l.
Proof.
  induction l as [|[k u] r IH]; cbn [pget In]; [discriminate|].
  destruct (Nat.eqb_spec k p); [intros E; inversion E; subst; left; reflexivity|right; auto].
Qed.

Lemma mark_id_all i l :
  (forall p pg, In (p, pg) l -> mark i (abs_ping (p, pg)) = abs_ping (p, pg)) ->
  map (mark i) (map abs_ping l) = map abs_ping l.
Proof.
  induction l as [|[k u] r IH]; [reflexivity|]. intros H. cbn [map]. f_equal.
  - apply H. left. reflexivity.
  - apply IH. intros p pg Hin. apply H. right. exact Hin.
Qed.

(* marking: every entry other than q is left alone, q's entry becomes the abstraction of its new record *)
Lemma notify_abs i l q pgq pgq' : NoDup (map fst l) -> pget l q = Some pgq ->
  (forall p pg, In (p, pg) l -> p <> q -> mark i (abs_ping (p, pg)) = abs_ping (p, pg)) ->
  mark i (abs_ping (q, pgq)) = abs_ping (q, pgq') ->
  map (mark i) (map abs_ping l) = map abs_ping (pset l q pgq').
Proof.
  induction l as [|[k u] r IH]; cbn [map fst pget]; [discriminate|].
  intros Hnd Hq Hoth Hme. inversion Hnd; subst. unfold pset; fold pset.
  destruct (Nat.eqb_spec k q).
  - subst k. inversion Hq; subst u. cbn [map]. rewrite Hme. f_equal.
    apply mark_id_all. intros p pg Hin. apply Hoth; [right; exact Hin|].
    intros ->. apply H1. change q with (fst (q, pg)). apply in_map. exact Hin.
  - cbn [map]. f_equal.
    + apply Hoth; [left; reflexivity|exact n].
    + apply IH; auto. intros p pg Hin Hne. apply Hoth; [right; exact Hin|exact Hne].
Qed.

(* an entry is left alone by mark i unless it is outstanding, carries i and is not yet marked *)
Lemma mark_noop i p pg :
  (outstanding pg = true -> p_id pg = i -> p_recv pg = true) ->
  mark i (abs_ping (p, pg)) = abs_ping (p, pg).
Proof.
  intros H. unfold mark, abs_ping. cbn [fst snd]. rewrite waiting_abs. cbn [abs_call c_id c_out c_replied].
  destruct (outstanding pg) eqn:Eo; cbn [andb]; [|reflexivity].
  destruct (N.eqb_spec (p_id pg) i) as [Ei|]; [|reflexivity].
  cbn [andb]. unfold abs_call. rewrite (H eq_refl Ei). reflexivity.
Qed.

(* ------------------------------------------------------------------ *)
(* one step *)

Theorem refine_step fx s e s' :
  Good s -> PK s -> owned_by_waiting s ->
  step fx s e = Ok s' -> sstep (absst s) (absev s e) = Some (absst s').
Proof.
  intros [HI HE] Hpk Ho H. pose proof (inv_entry _ HI) as Hent.
  unfold absst. step_cases H; cbn [absev sstep pings set_pings]; rewrite ?map_pset, ?Efull, ?Eal; cbn [sstep].
  - (* Begin, table full *)
    rewrite sget_abs, Ep. cbn [option_map]. rewrite sset_absent by (rewrite sget_abs, Ep; reflexivity).
    reflexivity.
  - (* Begin *)
    rewrite sget_abs, Ep. cbn [option_map]. rewrite sset_absent by (rewrite sget_abs, Ep; reflexivity).
    reflexivity.
  - (* Sent true *)
    rewrite sset_same; [reflexivity|]. rewrite sget_abs, Ep. cbn [option_map]. unfold abs_call. cbn. rewrite Eph. reflexivity.
  - (* Sent false *)
    unfold settle. rewrite sget_abs, Ep. cbn [option_map]. rewrite waiting_abs. unfold outstanding. rewrite Eph.
    unfold abs_call. cbn. reflexivity.
  - reflexivity.
  - (* Notify, entry of q *)
    destruct (Hent _ _ Eq) as (pg & Hp & Hid & Hc & Hr). rewrite Epq in Hp. inversion Hp; subst pg.
    f_equal. rewrite <- map_pset. apply (notify_abs j (pings s) q pgq); auto.
    + intros p pg Hin Hne. apply mark_noop. intros Wo Ei. destruct (p_recv pg) eqn:Er; [reflexivity|].
      pose proof (In_pget _ _ _ Hpk Hin) as Hpp. pose proof (HE _ _ Hpp Wo Er) as T. rewrite Ei in T. congruence.
    + unfold mark, abs_ping. cbn [fst snd]. rewrite waiting_abs.
      specialize (Ho _ _ Eq). unfold waiting in Ho. rewrite Epq in Ho. rewrite Ho.
      cbn [abs_call c_id c_out]. rewrite Hid, N.eqb_refl. cbn [andb]. unfold abs_call. cbn. reflexivity.
  - (* Notify, no entry *)
    f_equal. apply mark_id_all. intros p pg Hin. apply mark_noop. intros Wo Ei.
    destruct (p_recv pg) eqn:Er; [reflexivity|].
    pose proof (In_pget _ _ _ Hpk Hin) as Hpp. pose proof (HE _ _ Hpp Wo Er) as T. rewrite Ei in T. congruence.
  - reflexivity.
  - reflexivity.
  - reflexivity.
  - (* Timeout *)
    rewrite sset_same; [reflexivity|]. rewrite sget_abs, Ep. cbn [option_map]. unfold abs_call. cbn. rewrite Eph. reflexivity.
  - (* End *)
    unfold settle. rewrite sget_abs, Ep. cbn [option_map]. rewrite waiting_abs. unfold outstanding. rewrite Eph.
    unfold abs_call. cbn. destruct (p_recv pgp); reflexivity.
Qed.

(* ------------------------------------------------------------------ *)
(* whole histories *)

Theorem refine_run_gen fx tr : forall s s',
  Good s -> PK s -> owned_by_waiting s -> (fx = true \/ known_C19_sendfail tr = false) ->
  run fx s tr = Ok s' ->
  srun (absst s) (abs_trace fx s tr) = Some (absst s').
Proof.
  induction tr as [|e r IH]; intros s s' G Hpk Ho Hfx; cbn [run abs_trace srun].
  - intros E; inversion E; subst. reflexivity.
  - destruct (step fx s e) as [s1| | |] eqn:E; try discriminate. intros H.
    rewrite (refine_step fx s e s1 G Hpk Ho E).
    assert (Hfx1 : fx = true \/ failed_begin e = false).
    { destruct Hfx as [?|Hk]; [auto|]. right. cbn [known_C19_sendfail existsb] in Hk.
      apply orb_false_iff in Hk. tauto. }
    assert (Hfx2 : fx = true \/ known_C19_sendfail r = false).
    { destruct Hfx as [?|Hk]; [auto|]. right. cbn [known_C19_sendfail existsb] in Hk.
      apply orb_false_iff in Hk. tauto. }
    apply IH; auto.
    + eapply Good_step; eauto.
    + eapply PK_step; eauto.
    + eapply owned_step; eauto. apply G.
Qed.

Theorem refine_run fx n tr s : n < 65536 ->
  run fx (init n) tr = Ok s ->
  (fx = true \/ known_C19_sendfail tr = false) ->
  srun [] (abs_trace fx (init n) tr) = Some (absst s).
Proof.
  intros Hn H Hfx. change (@nil (nat * call)) with (absst (init n)).
  apply (refine_run_gen fx tr (init n) s); auto.
  - apply Good_init; exact Hn.
  - constructor.
  - intros i q; cbn; discriminate.
Qed.

(* the results are those of the reference *)
Lemma result_abs s p :
  option_map c_out (sget (absst s) p) = option_map (fun pg => abs_out (p_phase pg)) (pget (pings s) p).
Proof. unfold absst. rewrite sget_abs. destruct (pget (pings s) p); reflexivity. Qed.

(* ------------------------------------------------------------------ *)
(* the table has exactly as many entries as the reference needs *)

Definition needy (e : pid * ping) : bool := outstanding (snd e) && negb (p_recv (snd e)).

Lemma entries_abs l :
  List.length (filter (fun pc : nat * call => needs_entry (snd pc)) (map abs_ping l)) =
  List.length (filter needy l).
Proof.
  induction l as [|a r IH]; [reflexivity|]. cbn [map]. cbn [filter].
  assert (E : needs_entry (snd (abs_ping a)) = needy a).
  { unfold needs_entry, needy, abs_ping. cbn [snd]. rewrite waiting_abs. reflexivity. }
  rewrite E. destruct (needy a); cbn [List.length]; rewrite IH; reflexivity.
Qed.

Lemma In_tget t i q : NoDup (keys t) -> (In (i, q) t <-> tget t i = Some q).
Proof.
  unfold keys. induction t as [|[k v] r IH]; cbn [map fst In tget]; intros H.
  - split; [tauto|discriminate].
  - inversion H; subst. destruct (N.eqb_spec k i).
    + subst k. split.
      * intros [E|Hin]; [inversion E; reflexivity|].
        exfalso. apply H2. change i with (fst (i, q)). apply in_map. exact Hin.
      * intros E; inversion E; subst. left. reflexivity.
    + rewrite <- (IH H3). split; [intros [E|Hin]; [inversion E; congruence|exact Hin]|auto].
Qed.

Lemma NoDup_of_map {A B} (f : A -> B) l : NoDup (map f l) -> NoDup l.
Proof.
  induction l as [|x r IH]; cbn [map]; intros H; [constructor|]. inversion H; subst.
  constructor; [|auto]. intros Hin. apply H2. apply in_map. exact Hin.
Qed.

Lemma NoDup_filter {A} (P : A -> bool) l : NoDup l -> NoDup (filter P l).
Proof.
  induction l as [|x r IH]; cbn [filter]; intros H; [constructor|]. inversion H; subst.
  destruct (P x); [|auto]. constructor; [|auto]. intros Hin. apply filter_In in Hin. tauto.
Qed.

Lemma NoDup_map_filter_fst l : NoDup (map fst l) -> NoDup (map fst (filter needy l)).
Proof.
  induction l as [|[k u] r IH]; cbn [map fst filter]; intros H; [constructor|]. inversion H; subst.
  destruct (needy (k, u)); cbn [map fst]; [|auto]. constructor; [|auto].
  intros Hin. apply H2. apply in_map_iff in Hin. destruct Hin as (x & Ex & Hin).
  apply filter_In in Hin. apply in_map_iff. exists x. tauto.
Qed.

Theorem sizes_agree fx n tr s : n < 65536 ->
  run fx (init n) tr = Ok s ->
  (fx = true \/ known_C19_sendfail tr = false) ->
  entries (absst s) = size s.
Proof.
  intros Hn H Hfx. unfold entries, absst, size. rewrite entries_abs.
  pose proof (table_exact fx n tr s Hn H Hfx) as TE.
  assert (Hpk : PK s).
  { revert H. apply (run_ind fx PK); [constructor|]. intros; eapply PK_step; eauto. }
  pose proof (inv_nodup _ (Inv_run _ _ _ _ Hn H)) as Hnd.
  set (g := fun e : pid * ping => (p_id (snd e), fst e)).
  rewrite <- (map_length g).
  apply Permutation_length. apply NoDup_Permutation.
  - apply (NoDup_of_map snd). rewrite map_map. cbn [g snd]. apply NoDup_map_filter_fst. exact Hpk.
  - apply (NoDup_of_map fst). exact Hnd.
  - intros [i q]. rewrite (In_tget _ _ _ Hnd), TE. split.
    + intros Hin. apply in_map_iff in Hin. destruct Hin as ([p pg] & Ex & Hin). unfold g in Ex. cbn [fst snd] in Ex.
      inversion Ex; subst. apply filter_In in Hin. destruct Hin as [Hin Hne].
      unfold needy in Hne. cbn [snd] in Hne. apply andb_true_iff in Hne. destruct Hne as [Wo Hr].
      exists pg. split; [apply In_pget; assumption|]. split; [exact Wo|]. split; [|reflexivity].
      destruct (p_recv pg); [discriminate|reflexivity].
    + intros (pg & Hp & Wo & Hr & Hid). apply in_map_iff. exists (q, pg). split; [unfold g; cbn [fst snd]; rewrite Hid; reflexivity|].
      apply filter_In. split; [apply pget_In; exact Hp|]. unfold needy. cbn [snd]. rewrite Wo, Hr. reflexivity.
Qed.

(* non-vacuity: the example history of Proofs/PingMore.v *)
Example refine_nonvacuous :
  exists s, run false init_go ex_history = Ok s /\
            srun [] (abs_trace false init_go ex_history) = Some (absst s) /\ entries (absst s) = size s.
Proof. eexists. split; [vm_compute; reflexivity|]. split; vm_compute; reflexivity. Qed.
