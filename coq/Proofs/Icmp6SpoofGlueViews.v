(* Proofs/Icmp6SpoofGlueViews.v — glue with VIEWS: the C14 model of the RA path (RA getters,
   newParseOptions and every option unmarshal; Model/Icmp6SpoofRA.v) and VIEWS' model of the same Go
   functions (Model/ViewsVar.v RA_Options / ndp_decode / ndp_apply, Model/Views2.v RA getters) compute the
   same thing on every slice: one model of newParseOptions, not two that could drift. *)
From PV Require Model.ViewsBase Model.ViewsVar Model.Views2 Spec.ViewsNDP Proofs.Views6 Spec.RFC4861.
From PV Require Import Base.Prelude Base.Slice Model.Icmp6SpoofRA Proofs.Icmp6SpoofRA.
Open Scope N_scope.

Module VB := PV.Model.ViewsBase.
Module V := PV.Model.ViewsVar.
Module V2 := PV.Model.Views2.
Module VS := PV.Spec.ViewsNDP.
Module V6 := PV.Proofs.Views6.
Module R4 := PV.Spec.RFC4861.

(* NewOptions as VIEWS observes it (the three list fields added by 0c4adeb/896ac28/0c94d65 are not
   part of VIEWS' observation) *)
Definition pi_val (p : prefix_info) : VB.value :=
  VB.VL [VB.VN (pi_len p); VB.VB (pi_onlink p); VB.VB (pi_auto p); VB.VN (pi_valid p); VB.VN (pi_pref p); VB.VX (pi_prefix p)].
Definition tv (o : new_options) : VB.ndp_st :=
  VB.mkSt (o_mtu o) (map pi_val (o_prefixes o)) (rd_life (o_rdnss o)) (rd_servers (o_rdnss o))
         (o_slla o) (o_tlla o) (ds_life (o_dnssl o)) (ds_names (o_dnssl o))
         (ri_len (o_ri o), ri_prf (o_ri o), ri_life (o_ri o), ri_prefix (o_ri o)).

Definition lift (r : res new_options) : option VB.ndp_st :=
  match r with Ok o => Some (tv o) | _ => None end.

(* ---- masks ---- *)
Lemma keep_bits_agree pl idx b :
  VS.keep_bits (N.to_nat pl) idx b = R4.keep_bits b (pl - 8 * N.of_nat idx).
Proof.
  unfold VS.keep_bits, R4.keep_bits.
  destruct (8 <=? pl - 8 * N.of_nat idx) eqn:E.
  - replace (Nat.min 8 (N.to_nat pl - 8 * idx)) with 8%nat by lia. change (2 ^ N.of_nat (8 - 8)) with 1.
    rewrite N.div_1_r. lia.
  - replace (Nat.min 8 (N.to_nat pl - 8 * idx)) with (N.to_nat pl - 8 * idx)%nat by lia.
    replace (N.of_nat (8 - (N.to_nat pl - 8 * idx))) with (8 - (pl - 8 * N.of_nat idx)) by lia. reflexivity.
Qed.

Lemma prefix_from_lead pl : forall a idx,
  VS.prefix_from (N.to_nat pl) idx a = R4.lead_bits a (8 * N.of_nat idx) pl.
Proof.
  induction a as [|x r IH]; intros idx; [reflexivity|]. cbn [VS.prefix_from R4.lead_bits].
  rewrite keep_bits_agree. f_equal. rewrite IH. f_equal. lia.
Qed.

Lemma mask_agree a pl : bytes_ok a -> List.length a = 16%nat -> pl <= 128 ->
  ip_mask128 a pl = V.mask16 (N.to_nat pl) a.
Proof.
  intros Hok Hl Hp. rewrite ip_mask128_lead by assumption. rewrite V6.mask16_prefix by exact Hok.
  unfold VS.prefix_of. rewrite prefix_from_lead. reflexivity.
Qed.

(* ---- RDNSS servers ---- *)
Lemma servers_agree value : forall c s,
  rd_servers_from value s c = map (fun i => sub value (s + 16 * i) 16) (seq 0 c).
Proof.
  induction c as [|c IH]; intros s; [reflexivity|]. cbn [rd_servers_from seq map].
  f_equal; [f_equal; lia|]. rewrite IH. rewrite <- seq_shift, map_map. apply map_ext. intros i. f_equal. lia.
Qed.

(* ---- DNSSL: the index walk and the rest-of-slice loop ---- *)
Lemma join_agree ls : V.join_dot ls = join_labels ls.
Proof. induction ls as [|a r IH]; [reflexivity|]. destruct r as [|b r']; [reflexivity|]. cbn [V.join_dot join_labels] in *. rewrite IH. reflexivity. Qed.
Lemma dotspace_agree l : V.has_dot_or_space l = has_byte 46 l || has_byte 32 l.
Proof.
  unfold V.has_dot_or_space, has_byte. induction l as [|c r IH]; [reflexivity|]. cbn [existsb]. rewrite IH.
  destruct (c =? 46), (c =? 32), (existsb (fun x => x =? 46) r), (existsb (fun x => x =? 32) r); reflexivity.
Qed.

Lemma nth_skipn_at (Vb : bytes) i : nth i Vb 0 = at_ (skipn i Vb) 0.
Proof. unfold at_. revert i. induction Vb as [|x r IH]; intros [|i]; cbn [skipn nth]; try reflexivity. apply IH. Qed.

Lemma skipn_skipn {A} : forall b a (l : list A), skipn a (skipn b l) = skipn (b + a) l.
Proof. induction b as [|b IH]; intros a l; [reflexivity|]. destruct l as [|x r]; [cbn; destruct a; reflexivity|]. cbn [skipn Nat.add]. apply IH. Qed.

Lemma walk_agree : forall f Vb i labels doms, (i <= List.length Vb)%nat ->
  V.dnssl_walk f Vb i labels doms =
  match dnssl_loop f (skipn i Vb) labels doms with Ok d => Some d | _ => None end.
Proof.
  induction f as [|f IH]; intros Vb i labels doms Hi; [reflexivity|].
  cbn [V.dnssl_walk dnssl_loop].
  assert (Hlen : blen (skipn i Vb) = N.of_nat (List.length Vb - i)) by (unfold blen; rewrite skipn_length; reflexivity).
  rewrite Hlen. rewrite <- nth_skipn_at.
  destruct (Nat.ltb_spec (List.length Vb - i) 2) as [H2|H2].
  { destruct (N.of_nat (List.length Vb - i) <? 2) eqn:E; [reflexivity|lia]. }
  destruct (N.of_nat (List.length Vb - i) <? 2) eqn:E2; [lia|].
  set (n := nth i Vb 0).
  destruct (Nat.leb_spec (List.length Vb - i - 1) (N.to_nat n)) as [H3|H3].
  { destruct (N.of_nat (List.length Vb - i) - 1 <=? n) eqn:E; [reflexivity|lia]. }
  destruct (N.of_nat (List.length Vb - i) - 1 <=? n) eqn:E3; [lia|].
  destruct (Nat.eqb_spec (N.to_nat n) 0) as [H0|H0].
  { destruct (n =? 0) eqn:E; [reflexivity|lia]. }
  destruct (n =? 0) eqn:E0; [lia|].
  assert (Hlab : sub Vb (i + 1) (N.to_nat n) = firstn (N.to_nat n) (skipn 1 (skipn i Vb))).
  { unfold sub. rewrite skipn_skipn. reflexivity. }
  rewrite Hlab. change (V.is_ascii ?l) with (isascii l). rewrite dotspace_agree.
  destruct (negb (isascii _)); [reflexivity|].
  destruct (has_byte 46 _ || has_byte 32 _); [reflexivity|].
  assert (Hr2 : skipn (N.to_nat n) (skipn 1 (skipn i Vb)) = skipn (i + 1 + N.to_nat n) Vb).
  { rewrite !skipn_skipn. f_equal. lia. }
  rewrite Hr2. rewrite <- nth_skipn_at.
  destruct (nth (i + 1 + N.to_nat n) Vb 0 =? 0).
  - rewrite join_agree.
    assert (Hr3 : skipn 1 (skipn (i + 1 + N.to_nat n) Vb) = skipn (S (i + 1 + N.to_nat n)) Vb).
    { rewrite skipn_skipn. f_equal. lia. }
    rewrite Hr3. unfold blen. rewrite skipn_length. rewrite <- nth_skipn_at.
    set (rem' := (List.length Vb - S (i + 1 + N.to_nat n))%nat).
    assert (Hc : (Nat.eqb rem' 0 || (Nat.eqb rem' 1 && (nth (S (i + 1 + N.to_nat n)) Vb 0 =? 0)))
                 = ((N.of_nat rem' =? 0) || ((N.of_nat rem' =? 1) && (nth (S (i + 1 + N.to_nat n)) Vb 0 =? 0)))).
    { destruct rem' as [|[|k]]; try reflexivity. cbn [Nat.eqb orb andb].
      destruct (N.of_nat (S (S k)) =? 0) eqn:A; [lia|]. destruct (N.of_nat (S (S k)) =? 1) eqn:B; [lia|]. reflexivity. }
    rewrite Hc. destruct ((N.of_nat rem' =? 0) || _); [reflexivity|]. apply IH. lia.
  - apply IH. lia.
Qed.

(* ---- one option: VIEWS' ndp_apply = the C14 opt_step, on the observed fields ---- *)
Lemma okl_agree l pl :
  (if pl =? 0 then (1 <=? l) && (l <=? 3) else if pl <? 65 then (l =? 2) || (l =? 3) else if pl <? 129 then l =? 3 else false)
  = ri_len_ok l pl.
Proof.
  unfold ri_len_ok. destruct (pl =? 0); [|reflexivity].
  destruct (1 <=? l) eqn:A, (l <=? 3) eqn:B, (l <? 1) eqn:C, (3 <? l) eqn:D; try reflexivity; lia.
Qed.

Lemma apply_step t l body o :
  1 <= l -> l < 256 -> List.length body = (N.to_nat l * 8 - 2)%nat -> bytes_ok body ->
  V.ndp_apply (t :: l :: body) (tv o) = lift (opt_step o t (t :: l :: body)).
Proof.
  intros Hl1 Hl2 Hlen Hok. unfold V.ndp_apply. change (V.ob (t :: l :: body) 0) with t. change (V.ob (t :: l :: body) 1) with l.
  destruct (N.eqb_spec t 1) as [->|N1].
  { cbn [orb]. rewrite opt_step_1. unfold lla_unmarshal. change (at_ (1 :: l :: body) 1) with l.
    destruct (negb (l =? 1)) eqn:E; [reflexivity|]. apply negb_false_iff, N.eqb_eq in E. subst l.
    change (1 =? 1) with true. cbv iota. cbn [bind lift skipn]. unfold sub. cbn [skipn].
    rewrite firstn_all2 by (cbn in Hlen; lia). reflexivity. }
  destruct (N.eqb_spec t 2) as [->|N2].
  { cbn [orb]. rewrite opt_step_2. unfold lla_unmarshal. change (at_ (2 :: l :: body) 1) with l.
    destruct (negb (l =? 1)) eqn:E; [reflexivity|]. apply negb_false_iff, N.eqb_eq in E. subst l.
    change (2 =? 1) with false. cbv iota. cbn [bind lift skipn]. unfold sub. cbn [skipn].
    rewrite firstn_all2 by (cbn in Hlen; lia). reflexivity. }
  cbn [orb].
  destruct (N.eqb_spec t 5) as [->|N5].
  { rewrite opt_step_5. unfold mtu_unmarshal. change (at_ (5 :: l :: body) 1) with l.
    destruct (N.eqb_spec l 1) as [->|Hn].
    - change (negb (Z.of_N 1 * 8 - 2 =? 6)%Z) with false. cbv iota. cbn [negb lift]. reflexivity.
    - destruct (Z.eqb_spec (Z.of_N l * 8 - 2) 6); [lia|]. cbn [negb lift]. destruct o; reflexivity. }
  destruct (N.eqb_spec t 3) as [->|N3].
  { rewrite opt_step_3. unfold pi_unmarshal. change (at_ (3 :: l :: body) 1) with l.
    destruct (negb (l =? 4)) eqn:E; [reflexivity|]. apply negb_false_iff, N.eqb_eq in E. subst l. cbn in Hlen.
    destruct body as [|pl [|fl [|v0 [|v1 [|v2 [|v3 [|p0 [|p1 [|p2 [|p3 [|x0 [|x1 [|x2 [|x3 addr]]]]]]]]]]]]]]; cbn in Hlen; try lia.
    cbn [skipn]. change (V.ob (3 :: 4 :: pl :: _) 2) with pl. change (at_ (pl :: _) 0) with pl.
    destruct (128 <? pl) eqn:E128; [reflexivity|]. cbn [bind lift].
    repeat (apply bytes_ok_cons' in Hok; destruct Hok as [? Hok]).
    unfold tv. cbn [add_prefix o_prefixes o_mtu o_rdnss o_slla o_tlla o_dnssl o_ri]. rewrite map_app. cbn [map].
    unfold pi_val at 2. cbn [pi_len pi_onlink pi_auto pi_valid pi_pref pi_prefix].
    unfold V.ob32, V.ob, be32_at, at_, bit_and, sub. cbn [nth Nat.add skipn].
    rewrite firstn_all2 by lia. rewrite mask_agree by (auto; lia). reflexivity. }
  destruct (N.eqb_spec t 24) as [->|N24].
  { rewrite opt_step_24. unfold ri_unmarshal.
    destruct body as [|pl [|fl [|t0 [|t1 [|t2 [|t3 pfx]]]]]]; try (cbn in Hlen; lia).
    change (V.ob (24 :: l :: pl :: _) 2) with pl. change (V.ob (24 :: l :: pl :: fl :: _) 3) with fl.
    change (at_ (24 :: l :: pl :: _) 1) with l. change (at_ (24 :: l :: pl :: _) 2) with pl.
    change (at_ (24 :: l :: pl :: fl :: _) 3) with fl.
    rewrite okl_agree. destruct (ri_len_ok l pl) eqn:Eok; cbn [negb]; [|cbn [bind lift]; destruct o; reflexivity].
    destruct (N.shiftr (N.land fl 24) 3 =? 2); [cbn [bind lift]; destruct o; reflexivity|].
    cbn [bind lift]. unfold tv. cbn [add_route set_ri o_prefixes o_mtu o_rdnss o_slla o_tlla o_dnssl o_ri ri_len ri_prf ri_life ri_prefix].
    repeat (apply bytes_ok_cons' in Hok; destruct Hok as [? Hok]).
    assert (Hpl : pl <= 128).
    { unfold ri_len_ok in Eok. destruct (pl =? 0) eqn:A; [lia|]. destruct (pl <? 65) eqn:B; [lia|]. destruct (pl <? 129) eqn:C; [lia|discriminate]. }
    unfold ri_prefix_bytes, V.ob32, V.ob, be32_at, at_. cbn [nth Nat.add].
    assert (Hdiv : ((N.to_nat pl + 7) / 8)%nat = N.to_nat ((pl + 7) / 8)).
    { rewrite N2Nat.inj_div, N2Nat.inj_add. reflexivity. }
    rewrite Hdiv. unfold V.pad16.
    rewrite <- mask_agree; [reflexivity| | |exact Hpl].
    - apply bytes_ok_firstn. apply bytes_ok_app. split; [|apply bytes_ok_repeat; lia].
      unfold sub. apply bytes_ok_firstn, bytes_ok_skipn. repeat constructor; assumption.
    - rewrite firstn_length, app_length, repeat_length. lia. }
  destruct (N.eqb_spec t 25) as [->|N25].
  { rewrite opt_step_25. unfold rd_unmarshal. change (at_ (25 :: l :: body) 1) with l.
    destruct (negb (((l - 1) * 8) mod 16 =? 0)); [cbn [bind lift]; destruct o; reflexivity|].
    destruct (Nat.eqb_spec (N.to_nat ((l - 1) * 8 / 16)) 0) as [Hc|Hc].
    - destruct ((l - 1) * 8 / 16 =? 0) eqn:E0; [|lia]. cbn [bind lift]. destruct o; reflexivity.
    - destruct ((l - 1) * 8 / 16 =? 0) eqn:E0; [lia|]. cbn [bind lift skipn].
      unfold tv. cbn [add_rdnss set_rdnss o_prefixes o_mtu o_rdnss o_slla o_tlla o_dnssl o_ri rd_life rd_servers].
      rewrite servers_agree. unfold V.ob32, V.ob, be32_at, at_.
      assert (Hs : map (fun i => sub body (6 + 16 * i) 16) (seq 0 (N.to_nat ((l - 1) * 8 / 16)))
                 = map (fun i => sub (25 :: l :: body) (8 + 16 * i) 16) (seq 0 (N.to_nat ((l - 1) * 8 / 16)))).
      { apply map_ext. intros i. unfold sub. reflexivity. }
      rewrite Hs. destruct body as [|r0 [|r1 [|a0 [|a1 [|a2 [|a3 rest]]]]]]; try (cbn in Hlen; lia). reflexivity. }
  destruct (N.eqb_spec t 31) as [->|N31].
  { rewrite opt_step_31. unfold ds_unmarshal.
    assert (Hbl : blen (31 :: l :: body) = l * 8) by (unfold blen; cbn [List.length]; lia).
    rewrite Hbl. destruct (l * 8 <? 2) eqn:E2; [lia|]. change (at_ (31 :: l :: body) 1) with l. change (skipn 2 (31 :: l :: body)) with body.
    assert (Hbv : blen body = l * 8 - 2) by (unfold blen; lia).
    rewrite Hbv. unfold raw_len.
    assert (Heq : (Z.of_N l * 8 - 2 =? Z.of_N (l * 8 - 2))%Z = true) by (apply Z.eqb_eq; lia).
    rewrite Heq. cbn [negb]. rewrite walk_agree by lia.
    pose proof (dnssl_no_fuel (S (List.length body)) (skipn 6 body) [] []) as Hnf.
    remember (dnssl_loop (S (List.length body)) (skipn 6 body) [] []) as R eqn:ER.
    destruct R as [ds|e| |].
    - destruct ds as [|d1 ds'].
      + change (List.length (@nil bytes) =? 0)%nat with true. cbv iota. unfold bind, lift. destruct o; reflexivity.
      + change (List.length (d1 :: ds') =? 0)%nat with false. cbv iota. unfold bind, lift.
        unfold tv. cbn [add_dnssl set_dnssl o_prefixes o_mtu o_rdnss o_slla o_tlla o_dnssl o_ri ds_life ds_names].
        unfold V.ob32, V.ob, be32_at, at_.
        destruct body as [|r0 [|r1 [|a0 [|a1 [|a2 [|a3 rest]]]]]]; try (cbn in Hlen; lia). reflexivity.
    - unfold bind, lift. destruct o; reflexivity.
    - exfalso. destruct Hnf as [_ Hp]; [rewrite skipn_length; lia|]. congruence.
    - exfalso. destruct Hnf as [Hf _]; [rewrite skipn_length; lia|]. congruence. }
  rewrite opt_step_other by assumption. reflexivity.
Qed.

(* ---- the loop ---- *)
Lemma decode_agree : forall f1 f2 b o, bytes_ok b -> (List.length b < f1)%nat -> (List.length b < f2)%nat ->
  V.ndp_decode f1 b (tv o) = lift (parse_opts f2 b o).
Proof.
  induction f1 as [|f1 IH]; intros f2 b o Hok H1 H2; [lia|]. destruct f2 as [|f2]; [lia|].
  cbn [V.ndp_decode parse_opts]. destruct b as [|t [|l rest]]; [reflexivity|reflexivity|].
  assert (Hblen : blen (t :: l :: rest) = N.of_nat (List.length rest) + 2) by (unfold blen; cbn [List.length]; lia).
  rewrite Hblen. destruct (N.of_nat (List.length rest) + 2 <? 2) eqn:E2; [lia|].
  change (at_ (t :: l :: rest) 1) with l. change (at_ (t :: l :: rest) 0) with t.
  apply bytes_ok_cons' in Hok as [Ht Hok]. apply bytes_ok_cons' in Hok as [Hl Hok].
  destruct (Nat.eqb_spec (N.to_nat l * 8) 0) as [H0|H0].
  { destruct (l * 8 =? 0) eqn:E; [reflexivity|lia]. }
  destruct (l * 8 =? 0) eqn:E0; [lia|].
  destruct (Nat.ltb_spec (List.length (t :: l :: rest)) (N.to_nat l * 8)) as [Hlt|Hge]; cbn [List.length] in *.
  { destruct (N.of_nat (List.length rest) + 2 <? l * 8) eqn:E; [reflexivity|lia]. }
  destruct (N.of_nat (List.length rest) + 2 <? l * 8) eqn:E3; [lia|].
  remember (N.to_nat l * 8 - 2)%nat as k eqn:Ek.
  assert (Hn : N.to_nat (l * 8) = S (S k)) by lia.
  assert (Hn' : (N.to_nat l * 8)%nat = S (S k)) by lia.
  rewrite Hn, Hn'. cbn [firstn skipn].
  assert (HA : V.ndp_apply (t :: l :: firstn k rest) (tv o) = lift (opt_step o t (t :: l :: firstn k rest))).
  { apply apply_step; [lia | exact Hl | rewrite firstn_length; lia | apply bytes_ok_firstn; exact Hok]. }
  unfold bytes, byte in *. rewrite HA.
  destruct (opt_step o t (t :: l :: firstn k rest)) as [o'|e| |]; cbn [lift bind]; try reflexivity.
  apply IH; [apply bytes_ok_skipn; exact Hok | rewrite skipn_length; lia | rewrite skipn_length; lia].
Qed.

Lemma tv_zero : tv opts_zero = VB.st0.
Proof. reflexivity. Qed.

(* ---- RA.Options() on every slice ---- *)
Definition show_options (r : res new_options) : VB.value :=
  match r with Ok o => VB.ndp_show (tv o) | _ => VB.VE end.

Theorem ra_options_glue v : wf v -> bytes_ok (arr v) ->
  V.RA_Options v = Ok (show_options (ra_options (view v))).
Proof.
  intros W B. unfold V.RA_Options. rewrite V6.ndp_options_at_spec by assumption.
  f_equal. unfold VS.ndp_options_spec, ra_options.
  pose proof (view_length v W) as L.
  assert (Bv : bytes_ok (view v)) by (unfold view; apply bytes_ok_firstn; exact B).
  destruct (Nat.leb_spec (List.length (view v)) 16) as [Hle|Hgt].
  - assert (E : (blen (view v) <=? 16) = true) by (unfold blen; lia).
    rewrite E. cbn [show_options]. rewrite tv_zero.
    unfold PV.Spec.Views.blen. destruct (Nat.leb_spec (List.length (view v)) 16); [reflexivity|lia].
  - assert (E : (blen (view v) <=? 16) = false) by (unfold blen; lia).
    rewrite E. unfold PV.Spec.Views.blen. destruct (Nat.leb_spec (List.length (view v)) 16); [lia|].
    rewrite <- V6.ndp_value_spec by (apply bytes_ok_skipn; exact Bv).
    unfold V.ndp_value. rewrite <- tv_zero.
    rewrite (decode_agree _ (opts_fuel (view v)) _ opts_zero); [| apply bytes_ok_skipn; exact Bv | lia | unfold opts_fuel; rewrite skipn_length; lia].
    destruct (parse_opts (opts_fuel (view v)) (skipn 16 (view v)) opts_zero); reflexivity.
Qed.

(* ---- the RA getters that ProcessPacket copies into the router record ---- *)
Lemma view_at v i : wf v -> (i < len v)%nat -> at_ (view v) i = nth i (arr v) 0.
Proof. intros W H. unfold at_. apply view_nth. exact H. Qed.

Theorem ra_getters_glue v r0 o : wf v -> (16 <= len v)%nat ->
  let r := router_update r0 (view v) o in
  V2.RA_CurrentHopLimit v = Ok (VB.VN (r_hop r)) /\
  V2.RA_ManagedConfiguration v = Ok (VB.VB (r_managed r)) /\
  V2.RA_OtherConfiguration v = Ok (VB.VB (r_other r)) /\
  V2.RA_Preference v = Ok (VB.VN (r_prf r)) /\
  V2.RA_Lifetime v = Ok (VB.VN (r_life r)) /\
  V2.RA_ReachableTime v = Ok (VB.VN (r_reach r)) /\
  V2.RA_RetransmitTimer v = Ok (VB.VN (r_retrans r)).
Proof.
  intros W H r. unfold r, router_update. cbn [r_hop r_managed r_other r_prf r_life r_reach r_retrans].
  unfold be16_at, be32_at, bit_and. rewrite !view_at by (try exact W; lia). cbn [Nat.add].
  assert (Hc : (16 <= cap v)%nat) by (unfold wf in W; lia).
  unfold V2.RA_CurrentHopLimit, V2.RA_ManagedConfiguration, V2.RA_OtherConfiguration, V2.RA_Preference,
    V2.RA_Lifetime, V2.RA_ReachableTime, V2.RA_RetransmitTimer, VB.rbyte, VB.rbit, VB.rbe16, VB.rbe32.
  rewrite !idx_ok by lia. rewrite be16_at_ok by lia. unfold Slice.be32_at.
  destruct (Nat.leb_spec (8 + 4) (cap v)); [|lia]. destruct (Nat.leb_spec (12 + 4) (cap v)); [|lia].
  cbn [bind Nat.add]. repeat split; reflexivity.
Qed.
