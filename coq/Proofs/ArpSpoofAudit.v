(* Proofs/ArpSpoofAudit.v — clause audit (round 7): what a loop writes and to whom; MACs that were never hunted. *)
From PV Require Import Base.Prelude Base.Slice Model.ArpSpoof Spec.ArpSpoof Proofs.ArpSpoof Proofs.ArpSpoofLoops
  Proofs.ArpSpoofRx Proofs.ArpSpoofTimed Proofs.ArpSpoofMonitor.
Open Scope N_scope.

Definition pcs_wf (c : cfg) (s : state) : Prop := forall i lp, nth_error (loops s) i = Some lp -> pc_wf c lp.

Lemma pcs_wf_step c s e : pcs_wf c s -> pcs_wf c (fst (step c s e)).
Proof.
  intros Hinv i lp Hl.
  destruct (is_loop_event i e) eqn:He.
  - destruct (nth_error (loops s) i) as [[a1 p1]|] eqn:Hli.
    + assert (Hown : loop_at s i a1 p1) by exact Hli. pose proof (Hinv i _ Hli) as Hw. unfold pc_wf in Hw. simpl in Hw.
      destruct lp as [a q]. assert (Hlq : loop_at (fst (step c s e)) i a q) by exact Hl.
      destruct e; try discriminate; simpl in He; apply Nat.eqb_eq in He; subst i0; simpl in Hlq.
      * destruct (loop_at_inj _ _ _ _ _ _ Hlq (lookup_pc s i a1 p1 Hown)) as [-> Hq]. subst q. unfold pc_wf. simpl.
        destruct (at_select p1); [|exact Hw]. unfold looked_pc. destruct (closed s); [exact I|].
        destruct (hunt_find (amac a1) (hunt s)) eqn:Hf; [|exact I]. apply hunt_find_some in Hf. tauto.
      * destruct (loop_at_inj _ _ _ _ _ _ Hlq (check_pc c s i a1 p1 Hown)) as [-> Hq]. subst q. unfold pc_wf. simpl.
        destruct p1 as [|found|f cont| |]; simpl; try exact Hw.
        destruct found as [t|]; simpl; [rewrite Hw|]; reflexivity.
      * destruct (loop_at_inj _ _ _ _ _ _ Hlq (send_pc s i a1 p1 Hown)) as [-> Hq]. subst q. unfold pc_wf. simpl.
        destruct p1 as [|found|f cont| |]; simpl; try exact Hw. destruct cont; exact I.
    + destruct (step_loops_shape c s e) as [[j [p [Hj E]]]|[[a0 E]|E]]; rewrite E in Hl.
      * pose proof (is_loop_event_inj _ _ _ He Hj). subst j. unfold set_pc in Hl. rewrite Hli in Hl. congruence.
      * apply nth_error_None in Hli. rewrite nth_error_app2 in Hl by auto.
        destruct (i - List.length (loops s))%nat as [|n]; simpl in Hl; [inversion Hl; exact I|destruct n; discriminate].
      * congruence.
  - destruct (nth_error (loops s) i) as [lp0|] eqn:Hli.
    + rewrite (step_loop_kept c s e i lp0 He Hli) in Hl. inversion Hl; subst. apply (Hinv i lp Hli).
    + destruct (step_loops_shape c s e) as [[j [p [Hj E]]]|[[a0 E]|E]]; rewrite E in Hl.
      * destruct (Nat.eq_dec j i) as [->|Hne]; [congruence|]. rewrite set_pc_other in Hl by auto. congruence.
      * apply nth_error_None in Hli. rewrite nth_error_app2 in Hl by auto.
        destruct (i - List.length (loops s))%nat as [|n]; simpl in Hl; [inversion Hl; exact I|destruct n; discriminate].
      * congruence.
Qed.

Lemma pcs_wf_reach c evs : pcs_wf c (final c init_state evs).
Proof.
  apply (final_inv (pcs_wf c) (fun _ => true) c).
  - intros s e H _. apply pcs_wf_step; auto.
  - intros i lp H. simpl in H. destruct i; discriminate.
  - apply forallb_forall; auto.
Qed.

Lemma trace_state_reach c evs : forall s0 x, In x (trace c s0 evs) -> exists pre, fst (fst x) = final c s0 pre.
Proof.
  induction evs as [|e r IH]; intros s0 x Hin; simpl in Hin; [contradiction|].
  destruct (step c s0 e) as [s1 o] eqn:E. destruct Hin as [Hin|Hin].
  - subst x. exists []. reflexivity.
  - destruct (IH s1 x Hin) as [pre Hp]. exists (e :: pre). simpl. rewrite E. exact Hp.
Qed.

(* in every run, whatever a spoof loop hands to the connection is the forged announcement for its own MAC (and the
   loop goes on) or the request restoring the router's true binding at its own MAC (and the loop returns) *)
Theorem loop_frames : forall c evs s i out f,
  In (s, Send i, out) (trace c init_state evs) -> In f out ->
  exists a cont, loop_at s i a (PSend f cont) /\
    ((cont = true /\ f = announce c (amac a)) \/ (cont = false /\ f = restore c (amac a))).
Proof.
  intros c evs s i out f Hin Hf.
  destruct (trace_state_reach c evs init_state _ Hin) as [pre Hs]. simpl in Hs.
  apply trace_in in Hin as [s' Hst]. simpl in Hst.
  destruct (send_out _ _ _ _ _ Hst Hf) as [lp [cont [Hl Hp]]].
  pose proof (pcs_wf_reach c pre) as W. rewrite <- Hs in W. specialize (W i lp Hl).
  unfold pc_wf in W. rewrite Hp in W.
  destruct lp as [a p]. simpl in *. subst p. exists a, cont. split; [exact Hl|].
  destruct cont; [left|right]; auto.
Qed.

(* ---------------------------------------------------------------- *)
(* a MAC no StartHunt of the run ever named gets no forged frame of the handler's own, at any time: in
   particular the router itself and our own host, unless the CALLER hunts them *)

Lemma count_zero_in {A} (P : A -> bool) l x : count P l = 0%nat -> In x l -> P x = false.
Proof.
  unfold count. induction l as [|y ys IH]; intros H Hin; [contradiction|]. simpl in H.
  destruct (P y) eqn:E; [discriminate|]. destruct Hin as [->|Hin]; auto.
Qed.

Lemma forged_total_zero c m tr s e out f :
  forged_total c m tr = 0%nat -> In (s, e, out) tr -> caller_forged c e = false -> In f out ->
  forged c f = true -> fedst f <> m.
Proof.
  induction tr as [|[[s0 e0] o0] r IH]; intros H Hin Hcf Hf Hfg; [contradiction|]. simpl in H.
  destruct Hin as [Hin|Hin].
  - inversion Hin; subst. rewrite Hcf in H.
    assert (H0 : forged_to c m out = 0%nat) by lia.
    pose proof (count_zero_in _ _ f H0 Hf) as P. simpl in P. rewrite Hfg in P. simpl in P. lia.
  - apply IH; auto. lia.
Qed.

Theorem never_hunted_never_targeted : forall c m evs s e out f,
  cfg_ok c -> none_of (is_start_of m) evs ->
  In (s, e, out) (trace c init_state evs) -> In f out -> forged c f = true -> caller_forged c e = false ->
  fedst f <> m.
Proof.
  intros c m evs s e out f Hc Hn Hin Hf Hfg Hcf.
  pose proof (stale_bound c m evs init_state Hc eq_refl Hn) as B.
  assert (A0 : armed c m init_state = 0%nat) by reflexivity.
  eapply forged_total_zero; eauto. lia.
Qed.

(* the handler itself does not refuse to hunt the router or itself: that is the caller's doing *)
Example hunting_the_router_is_the_callers_doing :
  let c := wit_cfg in
  outputs c init_state [StartHunt (mkAddr (router_mac c) (router_ip c)); Lookup 0; Check 0; Send 0]
  = [[]; []; []; [announce c (router_mac c)]].
Proof. vm_compute. reflexivity. Qed.

(* ---------------------------------------------------------------- *)
(* "... restoring the router's real MAC, AFTER WHICH no further forged packet is sent to it": is the restore the
   last frame to m?  Not in every interleaving: a frame decided under the lock BEFORE StopHunt (a spoof reply in
   flight; a second loop's armed announcement) can be written AFTER the loop's restore. *)

Theorem restore_is_last_refuted :
  exists c evs m,
    cfg_ok c /\ hunted (final c init_state evs) m = false /\
    (* ... StopHunt m; the loop's whole iteration: restore; then the reply decided before StopHunt is written *)
    outputs c init_state evs =
      [[]; []; []; [announce c m]; []; []; []; []; [restore c m];
       [mkFrame 2 m (host_mac c) (router_ip c) m 3232235522]] /\
    nth_error evs 5 = Some (StopHunt m) /\ none_of (is_start_of m) (skipn 6 evs).
Proof.
  exists wit_cfg,
    [StartHunt wit_a1; Lookup 0; Check 0; Send 0;
     RxArp (mkPkt 1 wit_m1 wit_m1 3232235522 0 3232235531);
     StopHunt wit_m1; Lookup 0; Check 0; Send 0; RxReply 0], wit_m1.
  split; [exact wit_cfg_ok|]. vm_compute. repeat split; reflexivity.
Qed.

(* the same with a second loop: StartHunt, lookup (armed), StopHunt, StartHunt, StopHunt: loop 1 restores, then
   loop 0 writes the announcement it decided before the FIRST StopHunt *)
Theorem restore_is_last_refuted_two_loops :
  exists c evs m,
    cfg_ok c /\ hunted (final c init_state evs) m = false /\
    outputs c init_state evs = [[]; []; []; []; []; []; []; [restore c m]; []; [announce c m]] /\
    nth_error evs 4 = Some (StopHunt m) /\ none_of (is_start_of m) (skipn 5 evs).
Proof.
  exists wit_cfg,
    [StartHunt wit_a1; Lookup 0; StopHunt wit_m1; StartHunt wit_a1; StopHunt wit_m1;
     Lookup 1; Check 1; Send 1; Check 0; Send 0], wit_m1.
  split; [exact wit_cfg_ok|]. vm_compute. repeat split; reflexivity.
Qed.

(* what does hold: if nothing is armed for m when it leaves the hunt list (no loop between its lock section and
   its write, no reply in flight), NO forged frame of the handler's own reaches m any more: the restore is last *)
Theorem restore_is_last_partial : forall c m evs s st e out f,
  cfg_ok c -> hunted s m = false -> armed c m s = 0%nat -> none_of (is_start_of m) evs ->
  In (st, e, out) (trace c s evs) -> In f out -> forged c f = true -> caller_forged c e = false ->
  fedst f <> m.
Proof.
  intros c m evs s st e out f Hc Hh Ha Hn Hin Hf Hfg Hcf.
  pose proof (stale_bound c m evs s Hc Hh Hn) as B.
  eapply forged_total_zero; eauto. lia.
Qed.
