(* Proofs/EncodeReuse.v — C03: re-use of views.  SetPayload / AppendPayload are ABSOLUTE: whatever
   the length of the view they are called on (header-only, the view a previous call returned, a
   received packet's view) and whatever length / protocol / checksum the header held before, the
   result is header + payload with consistent length fields. *)
From PV Require Import Base.Prelude Base.Slice Model.EncodeBase Model.Encode Model.Checksum
     Spec.EncodeRef Spec.OnesComplement Proofs.EncodeLemmas Proofs.Checksum Proofs.EncodeIP4 Proofs.EncodeMisc.
Open Scope N_scope.
Ltac blia := unfold bytes, byte in *; lia.

(* an IPv4 header as EncodeIP4 lays it out, with arbitrary TotalLen, protocol and checksum octets *)
Definition ip4_hdr_any (x2 x3 x9 x10 x11 ttl : N) (src dst : bytes) : bytes :=
  [69; 192; x2; x3; 0; 0; 0; 0; ttl; x9; x10; x11] ++ src ++ dst.

Ltac ev_hook ::= try change (N.to_nat (69 mod 16) * 4)%nat with 20%nat; rewrite ?to_nat_tl, ?to_nat_u16_tl by assumption.

Lemma ip4_set_payload_any x2 x3 x9 x10 x11 ttl src dst rest L n proto :
  length src = 4%nat -> length dst = 4%nat -> (12 <= L)%nat -> (n <= length rest)%nat -> 20 + N.of_nat n < 65536 ->
  ip4_set_payload (mkSlice (ip4_hdr_any x2 x3 x9 x10 x11 ttl src dst ++ rest) L) n proto =
  Ok (mkSlice (ip4_store_checksum (ip4_hdr0 (20 + N.of_nat n) ttl proto src dst) ++ rest) (20 + n)).
Proof.
  intros Hs Hd HL Hb Hsz.
  do 4 (destr_list src Hs). destruct src; [|discriminate].
  do 4 (destr_list dst Hd). destruct dst; [|discriminate].
  unfold ip4_set_payload, ip4_write_checksum, seti, put16, reslice, cap.
  run.
  unfold u16. rewrite (N.mod_small (20 + N.of_nat n) 65536) by lia.
  unfold ip4_store_checksum, ip4_hdr0, ip4_calc_checksum. cbn [app set_nth firstn sub skipn Nat.add].
  reflexivity.
Qed.

Lemma ip4_append_any x2 x3 x9 x10 x11 ttl src dst rest L b proto :
  length src = 4%nat -> length dst = 4%nat -> (length b <= length rest)%nat -> 20 + N.of_nat (length b) < 65536 ->
  ip4_append (mkSlice (ip4_hdr_any x2 x3 x9 x10 x11 ttl src dst ++ rest) L) b proto =
  Ok (mkSlice (ip4_store_checksum (ip4_hdr0 (20 + N.of_nat (length b)) ttl proto src dst) ++ b ++ skipn (length b) rest)
              (20 + length b)).
Proof.
  intros Hs Hd Hb Hsz.
  do 4 (destr_list src Hs). destruct src; [|discriminate].
  do 4 (destr_list dst Hd). destruct dst; [|discriminate].
  unfold ip4_append, ip4_ihl, ip4_totlen, ip4_write_checksum, seti, put16, copyto, reslice, idx, be16_at, cap.
  run.
  rewrite Nat.sub_0_r, firstn_all, blit0 by lia.
  unfold u16. rewrite (N.mod_small (20 + N.of_nat (length b)) 65536) by lia.
  unfold ip4_store_checksum, ip4_hdr0, ip4_calc_checksum. cbn [app set_nth firstn sub skipn Nat.add].
  reflexivity.
Qed.

Lemma store_checksum_shape tl ttl proto src dst :
  length src = 4%nat -> length dst = 4%nat ->
  exists c0 c1, ip4_store_checksum (ip4_hdr0 tl ttl proto src dst) = ip4_hdr_any (hi8 tl) (lo8 tl) proto c0 c1 ttl src dst.
Proof.
  intros Hs Hd.
  do 4 (destr_list src Hs). destruct src; [|discriminate].
  do 4 (destr_list dst Hd). destruct dst; [|discriminate].
  eexists. eexists. unfold ip4_store_checksum, ip4_hdr0, ip4_hdr_any. cbn [app set_nth]. reflexivity.
Qed.

(* SetPayload is absolute: for any starting view length (>= 12, the index writes) and any previous
   TotalLen / protocol / checksum, with the payload in place: the result is header + payload and
   decodes, through the library view and the reference decoder, to the supplied values. *)
Theorem ip4_set_payload_idempotent_shape x2 x3 x9 x10 x11 ttl src dst rest L b proto :
  length src = 4%nat -> length dst = 4%nat -> bytes_ok src -> bytes_ok dst -> bytes_ok b ->
  ttl < 256 -> proto < 256 -> (12 <= L)%nat -> (length b <= length rest)%nat -> 20 + N.of_nat (length b) < 65536 ->
  firstn (length b) rest = b ->
  exists r,
    ip4_set_payload (mkSlice (ip4_hdr_any x2 x3 x9 x10 x11 ttl src dst ++ rest) L) (length b) proto = Ok r /\
    len r = (20 + length b)%nat /\ skipn 20 (arr r) = rest /\
    ip4_decode_lib r = Ok (ip4_expected_view ttl proto src dst b) /\
    ref_ip4 (view r) = Some (ip4_expected_ref ttl proto src dst b) /\
    (* calling it again on the returned view, with any other size that fits, is the same as calling it once *)
    (forall n2 proto2, (n2 <= length rest)%nat -> 20 + N.of_nat n2 < 65536 ->
       ip4_set_payload r n2 proto2 =
       ip4_set_payload (mkSlice (ip4_hdr_any x2 x3 x9 x10 x11 ttl src dst ++ rest) L) n2 proto2).
Proof.
  intros Hs Hd Bs Bd Bb Httl Hpr HL Hn Hsz Hin.
  eexists. split. { apply ip4_set_payload_any; assumption. }
  assert (Hl20 : length (ip4_store_checksum (ip4_hdr0 (20 + N.of_nat (length b)) ttl proto src dst)) = 20%nat).
  { unfold ip4_store_checksum. rewrite !set_nth_length. unfold ip4_hdr0. cbn [app length]. rewrite app_length. lia. }
  split. { reflexivity. }
  split. { cbn [arr]. apply skipn_app_len. exact Hl20. }
  assert (Hrest : rest = b ++ skipn (length b) rest) by (rewrite <- Hin at 1; symmetry; apply firstn_skipn).
  pose proof (ip4_frame_decodes (20 + N.of_nat (length b)) ttl proto src dst b (skipn (length b) rest)
                Hs Hd Bs Bd Bb Httl Hpr eq_refl Hsz) as D. cbn zeta in D. rewrite <- Hrest in D.
  destruct D as (_ & D1 & D2).
  split. { exact D1. } split. { exact D2. }
  intros n2 proto2 Hn2 Hsz2.
  rewrite (ip4_set_payload_any x2 x3 x9 x10 x11 ttl src dst rest L n2 proto2) by assumption.
  (* the returned view has the same shape, with other length / protocol / checksum octets *)
  destruct (store_checksum_shape (20 + N.of_nat (length b)) ttl proto src dst Hs Hd) as (c0 & c1 & E). rewrite E.
  apply ip4_set_payload_any; try assumption. lia.
Qed.

(* the same for AppendPayload (which copies the payload itself) *)
Theorem ip4_append_absolute x2 x3 x9 x10 x11 ttl src dst rest L b proto :
  length src = 4%nat -> length dst = 4%nat -> bytes_ok src -> bytes_ok dst -> bytes_ok b ->
  ttl < 256 -> proto < 256 -> (length b <= length rest)%nat -> 20 + N.of_nat (length b) < 65536 ->
  exists r,
    ip4_append (mkSlice (ip4_hdr_any x2 x3 x9 x10 x11 ttl src dst ++ rest) L) b proto = Ok r /\
    len r = (20 + length b)%nat /\
    ip4_decode_lib r = Ok (ip4_expected_view ttl proto src dst b) /\
    ref_ip4 (view r) = Some (ip4_expected_ref ttl proto src dst b).
Proof.
  intros Hs Hd Bs Bd Bb Httl Hpr Hn Hsz.
  eexists. split. { apply ip4_append_any; assumption. }
  split. { reflexivity. }
  pose proof (ip4_frame_decodes (20 + N.of_nat (length b)) ttl proto src dst b (skipn (length b) rest)
                Hs Hd Bs Bd Bb Httl Hpr eq_refl Hsz) as D. cbn zeta in D. destruct D as (_ & D1 & D2).
  split; assumption.
Qed.

(* ================================================================ *)
(* UDP *)
Ltac ev_hook ::= rewrite ?be16_hi_lo by assumption.

Definition udp_hdr_any (sp dp x4 x5 x6 x7 : N) : bytes := [hi8 sp; lo8 sp; hi8 dp; lo8 dp; x4; x5; x6; x7].

Lemma udp_set_payload_any sp dp x4 x5 x6 x7 rest L n :
  (n <= length rest)%nat ->
  udp_set_payload (mkSlice (udp_hdr_any sp dp x4 x5 x6 x7 ++ rest) L) n =
  Ok (mkSlice (udp_hdr sp dp (udp_lenfield n) ++ rest) (8 + n)).
Proof. intros Hb. unfold udp_set_payload, put16, reslice, cap. run. reflexivity. Qed.

Lemma udp_append_any sp dp x4 x5 x6 x7 rest L b :
  (length b <= length rest)%nat ->
  udp_append (mkSlice (udp_hdr_any sp dp x4 x5 x6 x7 ++ rest) L) b =
  Ok (mkSlice (udp_hdr sp dp (udp_lenfield (length b)) ++ b ++ skipn (length b) rest) (8 + length b)).
Proof.
  intros Hb. unfold udp_append, copyfrom, put16, reslice, cap. run.
  rewrite Nat.sub_0_r, firstn_all, blit0 by lia. reflexivity.
Qed.

Theorem udp_set_payload_idempotent_shape sp dp x4 x5 x6 x7 rest L b :
  sp < 65536 -> dp < 65536 -> bytes_ok b -> (length b <= length rest)%nat -> 8 + N.of_nat (length b) < 65536 ->
  firstn (length b) rest = b ->
  exists r,
    udp_set_payload (mkSlice (udp_hdr_any sp dp x4 x5 x6 x7 ++ rest) L) (length b) = Ok r /\
    len r = (8 + length b)%nat /\ skipn 8 (arr r) = rest /\
    udp_decode_lib r = Ok (udp_expected_view sp dp b) /\
    ref_udp (view r) = Some (udp_expected_ref sp dp b) /\
    (forall n2, (n2 <= length rest)%nat ->
       udp_set_payload r n2 = udp_set_payload (mkSlice (udp_hdr_any sp dp x4 x5 x6 x7 ++ rest) L) n2).
Proof.
  intros Hsp Hdp Bb Hn Hsz Hin.
  eexists. split. { apply udp_set_payload_any; assumption. }
  split. { reflexivity. } split. { reflexivity. }
  rewrite udp_lenfield_small by assumption.
  assert (Hrest : rest = b ++ skipn (length b) rest) by (rewrite <- Hin at 1; symmetry; apply firstn_skipn).
  pose proof (udp_frame_decodes sp dp b (skipn (length b) rest) Hsp Hdp Bb Hsz) as D. cbn zeta in D.
  rewrite <- Hrest in D. destruct D as (_ & D1 & D2).
  split. { exact D1. } split. { exact D2. }
  intros n2 Hn2. rewrite (udp_set_payload_any sp dp x4 x5 x6 x7 rest L n2) by assumption.
  change (udp_hdr sp dp (8 + N.of_nat (length b))) with
    (udp_hdr_any sp dp (hi8 (8 + N.of_nat (length b))) (lo8 (8 + N.of_nat (length b))) 0 0).
  apply udp_set_payload_any. assumption.
Qed.

Theorem udp_append_absolute sp dp x4 x5 x6 x7 rest L b :
  sp < 65536 -> dp < 65536 -> bytes_ok b -> (length b <= length rest)%nat -> 8 + N.of_nat (length b) < 65536 ->
  exists r,
    udp_append (mkSlice (udp_hdr_any sp dp x4 x5 x6 x7 ++ rest) L) b = Ok r /\
    len r = (8 + length b)%nat /\
    udp_decode_lib r = Ok (udp_expected_view sp dp b) /\ ref_udp (view r) = Some (udp_expected_ref sp dp b).
Proof.
  intros Hsp Hdp Bb Hn Hsz.
  eexists. split. { apply udp_append_any; assumption. }
  split. { reflexivity. }
  rewrite udp_lenfield_small by assumption.
  pose proof (udp_frame_decodes sp dp b (skipn (length b) rest) Hsp Hdp Bb Hsz) as D. cbn zeta in D.
  destruct D as (_ & D1 & D2). split; assumption.
Qed.

(* ================================================================ *)
(* IPv6 *)
Definition ip6_hdr_any (x4 x5 x6 hop : N) (s d : bytes) : bytes := [96; 0; 0; 0; x4; x5; x6; hop] ++ s ++ d.

Lemma ip6_set_payload_any x4 x5 x6 hop s d rest L n nh :
  length s = 16%nat -> length d = 16%nat -> (7 <= L)%nat -> (n <= length rest)%nat ->
  ip6_set_payload (mkSlice (ip6_hdr_any x4 x5 x6 hop s d ++ rest) L) n nh =
  Ok (mkSlice (ip6_hdr (u16 (N.of_nat n)) nh hop s d ++ rest) (40 + n)).
Proof.
  intros Hs Hd HL Hb.
  do 16 (destr_list s Hs). destruct s; [|discriminate].
  do 16 (destr_list d Hd). destruct d; [|discriminate].
  unfold ip6_set_payload, seti, put16, reslice, cap. run. reflexivity.
Qed.

Theorem ip6_set_payload_idempotent_shape x4 x5 x6 hop s d rest L b nh :
  length s = 16%nat -> length d = 16%nat -> bytes_ok s -> bytes_ok d -> bytes_ok b ->
  nh < 256 -> hop < 256 -> (7 <= L)%nat -> (length b <= length rest)%nat -> 40 + N.of_nat (length b) < 65536 ->
  firstn (length b) rest = b ->
  exists r,
    ip6_set_payload (mkSlice (ip6_hdr_any x4 x5 x6 hop s d ++ rest) L) (length b) nh = Ok r /\
    len r = (40 + length b)%nat /\
    ip6_decode_lib r = Ok (ip6_expected_view nh hop s d b) /\
    ref_ip6 (view r) = Some (ip6_expected_ref nh hop s d b) /\
    (forall n2 nh2, (n2 <= length rest)%nat ->
       ip6_set_payload r n2 nh2 = ip6_set_payload (mkSlice (ip6_hdr_any x4 x5 x6 hop s d ++ rest) L) n2 nh2).
Proof.
  intros Hs Hd Bs Bd Bb Hnh Hhop HL Hn Hsz Hin.
  eexists. split. { apply ip6_set_payload_any; assumption. }
  split. { reflexivity. }
  assert (Eu : u16 (N.of_nat (length b)) = N.of_nat (length b)) by (unfold u16; apply N.mod_small; lia).
  rewrite Eu.
  assert (Hrest : rest = b ++ skipn (length b) rest) by (rewrite <- Hin at 1; symmetry; apply firstn_skipn).
  pose proof (ip6_frame_decodes nh hop s d b (skipn (length b) rest) Hs Hd Bs Bd Bb Hnh Hhop Hsz) as D. cbn zeta in D.
  rewrite <- Hrest in D. destruct D as (_ & D1 & D2).
  split. { exact D1. } split. { exact D2. }
  intros n2 nh2 Hn2. rewrite (ip6_set_payload_any x4 x5 x6 hop s d rest L n2 nh2) by assumption.
  change (ip6_hdr (N.of_nat (length b)) nh hop s d) with
    (ip6_hdr_any (hi8 (N.of_nat (length b))) (lo8 (N.of_nat (length b))) nh hop s d).
  apply ip6_set_payload_any; try assumption. lia.
Qed.
