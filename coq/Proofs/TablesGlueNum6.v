(* Proofs/TablesGlueNum6.v — IPv6: net/netip's IsLinkLocalUnicast / IsGlobalUnicast as restated on 16 address bytes
   (Model/Parse.v) and on the 128-bit number (Model/Tables.v) are the same predicates. *)
From PV Require Import Base.Prelude Base.Slice Model.Parse Model.ParseFixes Model.Tables Model.TablesGlue
  Proofs.TablesPred Proofs.TablesGlueNum.
Open Scope N_scope.

Ltac explode16 l H :=
  destruct l as [|b0 [|b1 [|b2 [|b3 [|b4 [|b5 [|b6 [|b7 [|b8 [|b9 [|b10 [|b11 [|b12 [|b13 [|b14 [|b15 [|? ?]]]]]]]]]]]]]]]]]; try discriminate H.

Definition b192_test (x : N) : bool := Bool.eqb (N.land x 192 =? 128) (x / 64 =? 2).
Lemma b192_sweep : forallN 256 b192_test = true.
Proof. vm_compute. reflexivity. Qed.
Lemma b192_bits x : x < 256 -> (N.land x 192 =? 128) = (x / 64 =? 2).
Proof. intros H. apply Bool.eqb_prop. exact (forallN_spec _ _ b192_sweep x H). Qed.

Ltac pows := change (2 ^ 112) with 5192296858534827628530496329220096 in *;
             change (2 ^ 120) with 1329227995784915872903807060280344576 in *.

Lemma bytes_ok_firstn' n l : bytes_ok l -> bytes_ok (firstn n l).
Proof. apply bytes_ok_firstn. Qed.

(* ip = first ten bytes ++ the six others, as numbers *)
Lemma split10 ip : List.length ip = 16%nat -> bytes_ok ip ->
  exists z b10 b11 v, nob (firstn 10 ip) = z /\ nth 10 ip 0 = b10 /\ nth 11 ip 0 = b11 /\ b10 < 256 /\ b11 < 256 /\ v < 4294967296 /\
    z < 256 ^ 10 /\ nob ip = (z * 65536 + b10 * 256 + b11) * 4294967296 + v /\
    v = ((nth 12 ip 0 * 256 + nth 13 ip 0) * 256 + nth 14 ip 0) * 256 + nth 15 ip 0 /\
    nth 12 ip 0 < 256 /\ nth 13 ip 0 < 256 /\ nth 14 ip 0 < 256 /\ nth 15 ip 0 < 256.
Proof.
  intros L B. explode16 ip L. boks B. cbn [firstn nth].
  set (p := [b0; b1; b2; b3; b4; b5; b6; b7; b8; b9]).
  change [b0; b1; b2; b3; b4; b5; b6; b7; b8; b9; b10; b11; b12; b13; b14; b15] with (p ++ [b10; b11; b12; b13; b14; b15]).
  rewrite nob_app. pose proof (nob_bound p) as BP. change (N.of_nat (List.length p)) with 10 in BP.
  exists (nob p), b10, b11, (((b12 * 256 + b13) * 256 + b14) * 256 + b15).
  change (256 ^ N.of_nat (List.length [b10; b11; b12; b13; b14; b15])) with 281474976710656.
  assert (E6 : nob [b10; b11; b12; b13; b14; b15] = (b10 * 256 + b11) * 4294967296 + (((b12 * 256 + b13) * 256 + b14) * 256 + b15)).
  { unfold nob. cbn [nob_acc]. unmod. lia. }
  rewrite E6. repeat split; auto; lia.
Qed.

Lemma mapped_glue ip : List.length ip = 16%nat -> bytes_ok ip -> (nob ip / 4294967296 =? 65535) = is_4in6 ip.
Proof.
  intros L B. destruct (split10 ip L B) as (z & b10 & b11 & v & EZ & E10 & E11 & B10 & B11 & BV & BZ & EN & _).
  unfold is_4in6. rewrite (nob_zero (firstn 10 ip)) by (apply bytes_ok_firstn; exact B).
  rewrite EZ, E10, E11, EN. lia.
Qed.

Lemma hi16_small ip : List.length ip = 16%nat -> nob ip / 2 ^ 112 < 65536.
Proof.
  intros L. pose proof (nob_bound ip) as H. rewrite L in H. change (256 ^ N.of_nat 16) with (2 ^ 128) in H.
  change (2 ^ 128) with 340282366920938463463374607431768211456 in H. pows. lia.
Qed.

(* ip = first two bytes ++ the fourteen others *)
Lemma split2 ip : List.length ip = 16%nat -> bytes_ok ip ->
  exists r, r < 2 ^ 112 /\ nob ip = (nth 0 ip 0 * 256 + nth 1 ip 0) * 2 ^ 112 + r /\ nth 0 ip 0 < 256 /\ nth 1 ip 0 < 256.
Proof.
  intros L B. explode16 ip L. boks B. cbn [nth].
  change [b0; b1; b2; b3; b4; b5; b6; b7; b8; b9; b10; b11; b12; b13; b14; b15] with ([b0; b1] ++ [b2; b3; b4; b5; b6; b7; b8; b9; b10; b11; b12; b13; b14; b15]).
  rewrite nob_app. set (q := [b2; b3; b4; b5; b6; b7; b8; b9; b10; b11; b12; b13; b14; b15]).
  pose proof (nob_bound q) as BQ. change (256 ^ N.of_nat (List.length q)) with (2 ^ 112) in *.
  exists (nob q). repeat split; auto. f_equal. unfold nob. cbn [nob_acc]. unmod. lia.
Qed.

(* ip = first fifteen bytes ++ the last *)
Lemma split15 ip : List.length ip = 16%nat -> bytes_ok ip ->
  nob ip = nob (firstn 15 ip) * 256 + nth 15 ip 0 /\ nth 15 ip 0 < 256.
Proof.
  intros L B. explode16 ip L. boks B. cbn [firstn nth].
  change [b0; b1; b2; b3; b4; b5; b6; b7; b8; b9; b10; b11; b12; b13; b14; b15] with ([b0; b1; b2; b3; b4; b5; b6; b7; b8; b9; b10; b11; b12; b13; b14] ++ [b15]) at 1.
  rewrite nob_app. split; auto. change (256 ^ N.of_nat (List.length [b15])) with 256. f_equal.
  unfold nob. cbn [nob_acc]. unmod. lia.
Qed.

Lemma llu_glue ip : List.length ip = 16%nat -> bytes_ok ip -> Tables.is_llu (IP6 (nob ip)) = ip6_is_llu ip.
Proof.
  intros L B. unfold Tables.is_llu, unmap, is4in6, ip6_is_llu. rewrite (mapped_glue ip L B).
  destruct (is_4in6 ip) eqn:M.
  - destruct (split10 ip L B) as (z & b10 & b11 & v & _ & _ & _ & B10 & B11 & BV & BZ & EN & EV & C12 & C13 & C14 & C15).
    rewrite EN. replace (((z * 65536 + b10 * 256 + b11) * 4294967296 + v) mod 4294967296) with v by lia.
    rewrite EV. lia.
  - rewrite llu_bits by (apply hi16_small; exact L).
    destruct (split2 ip L B) as (r & BR & EN & C0 & C1). rewrite (b192_bits _ C1). rewrite EN. pows. lia.
Qed.

Lemma gua_glue ip : List.length ip = 16%nat -> bytes_ok ip -> Tables.is_gua (IP6 (nob ip)) = ip6_is_gu ip.
Proof.
  intros L B. unfold Tables.is_gua, ip6_is_gu.
  pose proof (llu_glue ip L B) as LLU. unfold Tables.is_llu in LLU.
  unfold is_loopback, is_multicast, Tables.is_llu, unmap, is4in6 in *. rewrite (mapped_glue ip L B) in *.
  destruct (is_4in6 ip) eqn:M.
  - (* IPv4-mapped: classified by the embedded IPv4 address *)
    cbn [is4 ip_eqb andb negb]. rewrite <- LLU. clear LLU.
    destruct (split10 ip L B) as (z & x10 & x11 & v & _ & _ & _ & B10 & B11 & BV & BZ & EN & EV & C12 & C13 & C14 & C15).
    assert (EM : nob ip mod 4294967296 = v) by (rewrite EN; lia). rewrite EM.
    assert (S12 : skipn 12 ip = [nth 12 ip 0; nth 13 ip 0; nth 14 ip 0; nth 15 ip 0]) by (explode16 ip L; reflexivity).
    rewrite S12. cbn [forallb nth].
    rewrite (mc4_bits (v / 16777216)) by lia. rewrite (mc4_bits (nth 12 ip 0)) by lia.
    generalize dependent (nth 12 ip 0). generalize dependent (nth 13 ip 0).
    generalize dependent (nth 14 ip 0). generalize dependent (nth 15 ip 0). intros c15 C15 c14 C14 c13 C13 c12 EV C12. subst v. intros _. rewrite !EV.
    generalize ((((c12 * 256 + c13) * 256 + c14) * 256 + c15) / 65536 =? 43518). intros llu.
    set (poly := ((c12 * 256 + c13) * 256 + c14) * 256 + c15).
    assert (A0 : (poly =? 0) = ((c12 =? 0) && ((c13 =? 0) && ((c14 =? 0) && ((c15 =? 0) && true))))) by (unfold poly; lia).
    assert (A1 : (poly =? 4294967295) = ((c12 =? 255) && ((c13 =? 255) && ((c14 =? 255) && ((c15 =? 255) && true))))) by (unfold poly; lia).
    assert (A2 : poly / 16777216 = c12) by (unfold poly; lia).
    rewrite A0, A1, A2.
    generalize ((c12 =? 0) && ((c13 =? 0) && ((c14 =? 0) && ((c15 =? 0) && true)))).
    generalize ((c12 =? 255) && ((c13 =? 255) && ((c14 =? 255) && ((c15 =? 255) && true)))).
    generalize (c12 =? 127). generalize (c12 / 16 =? 14).
    intros m l7 ff zz. destruct zz, ff, l7, m, llu; reflexivity.
  - (* not mapped *)
    cbn [is4 andb]. rewrite (mapped_glue ip L B), M. rewrite <- LLU. cbn [ip_eqb]. clear LLU.
    generalize (N.land (nob ip / 2 ^ 112) 65472 =? 65152). intros llu.
    rewrite (nob_zero ip B). rewrite (nob_zero (firstn 15 ip)) by (apply bytes_ok_firstn; exact B).
    destruct (split15 ip L B) as (E15 & C15). destruct (split2 ip L B) as (r & BR & EN & C0 & C1).
    assert (MC : (nob ip / 2 ^ 120 =? 255) = (nth 0 ip 0 =? 255)) by (rewrite EN; pows; lia).
    rewrite MC. rewrite E15.
    generalize dependent (nob (firstn 15 ip)). intros f15 _.
    generalize (nth 0 ip 0 =? 255). intros mc. revert C15. generalize (nth 15 ip 0). intros c15 C15'. clear - C15'.
    destruct llu, mc; cbn [negb andb]; rewrite ?andb_false_r; try reflexivity; lia.
Qed.
