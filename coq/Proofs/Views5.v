(* Proofs/Views5.v -- round 2: exact characterisation of the remaining Ether class; IsValid depends only on the
   bytes within the length. *)
From PV Require Import Proofs.ViewsBase Proofs.Views.
Open Scope N_scope.

(* ---------------- Ether: the recorded class is the whole defect ---------------- *)
Lemma Ether_payload_in_class v : wf v -> Ether_IsValid v = Ok true ->
  known_of Ether_findings "Payload" v = true ->
  ~ getter_ok v Ether_Payload /\ (forall s, Ether_Payload v = Ok s -> s <> VR (len v) 0 /\ exists k, s = VR (len v) (S k)).
Proof.
  intros W H K. apply Ether_valid_len in H. unfold wf in W.
  simp_known K. unfold eth_hlen, w16, bt in K. simpl Nat.add in K.
  assert (E : Ether_Payload v = Ok (VR (len v) (cap v - len v)) /\ (len v < cap v)%nat).
  { unfold Ether_Payload, Ether_Payload_l, Ether_HeaderLen_n, Ether_EtherType_n. slices. simpl Nat.add. unfold be16.
    set (et := nth 12 (arr v) 0 * 256 + nth 13 (arr v) 0) in *.
    set (n := if et =? 33024 then 18%nat else if et =? 34984 then 22%nat else 14%nat) in *.
    assert (len v = n /\ (len v < cap v)%nat) as [En Hc] by lia.
    destruct (Nat.ltb_spec n (len v)); [lia|]. destruct (Nat.eqb_spec (len v) n); [|lia].
    rewrite sl_ok by lia. cbn [bind]. unfold lval. cbn [loff lsl len]. rewrite <- En. split; [reflexivity|exact Hc]. }
  destruct E as [E Hc]. split.
  - intros [_ I]. rewrite E in I. cbn [inside ranges] in I. inversion I as [|? ? R _]; subst.
    unfold range_in in R. cbn [fst snd] in R. lia.
  - intros s Hs. rewrite E in Hs. injection Hs as <-. split.
    + intros C. injection C as C. lia.
    + exists (cap v - len v - 1)%nat. f_equal. lia.
Qed.

Lemma Ether_known_exact_C01 v : wf v -> bytes_ok (arr v) -> Ether_IsValid v = Ok true ->
  Forall (fun ng => known_of Ether_findings (fst ng) v = true <-> ~ getter_ok v (snd ng)) Ether_getters.
Proof.
  intros W B H. pose proof (Ether_safe v W B H) as S. unfold getters_ok in S.
  rewrite Forall_forall in *. intros [name g] Hin. specialize (S (name, g) Hin). cbn [fst snd] in *.
  split.
  - intros K. assert (name = "Payload"%string /\ g = Ether_Payload) as [-> ->].
    { unfold Ether_getters in Hin. cbn [In] in Hin.
      repeat (destruct Hin as [Hin|Hin]; [injection Hin as <- <-; try (split; reflexivity); (vm_compute in K; discriminate)|]).
      destruct Hin. }
    apply (Ether_payload_in_class v W H K).
  - intros N. destruct (known_of Ether_findings name v) eqn:K; [reflexivity|]. exfalso. apply N, S. reflexivity.
Qed.

Definition Ether_Payload_spec : spec :=
  fun l => if Nat.ltb (blen l) (ether_hlen l) then VNil else VR (ether_hlen l) (blen l - ether_hlen l).
Lemma Ether_Payload_spec_is : lookup "Payload" Ether_specs = Some (Some Ether_Payload_spec).
Proof. reflexivity. Qed.

(* inside the class: it is Payload, and it violates both C01 (inside) and C02 (value) *)
Lemma Ether_known_exact_C02 v : wf v -> bytes_ok (arr v) -> Ether_IsValid v = Ok true ->
  forall name, known_of Ether_findings name v = true ->
  name = "Payload"%string /\ ~ getter_ok v Ether_Payload /\ Ether_Payload v <> Ok (Ether_Payload_spec (view v)).
Proof.
  intros W B H name K. pose proof (view_length v W) as L.
  assert (name = "Payload"%string) as ->.
  { simp_known K. unfold is in K. destruct (String.eqb_spec name "Payload"); [assumption|]. cbn in K. discriminate. }
  split; [reflexivity|]. destruct (Ether_payload_in_class v W H K) as [N Hp]. split; [exact N|].
  intros E. destruct (Hp _ E) as [_ [k Ek]]. unfold Ether_Payload_spec in Ek.
  destruct (Nat.ltb (blen (view v)) (ether_hlen (view v))); [discriminate|].
  injection Ek as Eo Ek. unfold blen in Ek. rewrite L in Ek. lia.
Qed.

(* ---------------- validity depends only on the bytes within the length ---------------- *)
Lemma restrict_same v v' : view v = view v' -> restrict v = restrict v'.
Proof. unfold restrict. intros ->. reflexivity. Qed.

Ltac iv_bound L := rewrite ?cap_mk_skipn; unfold cap; cbn [len arr]; rewrite ?L; lia.
Ltac iv_slices L :=
  repeat (first
    [ match goal with |- context [idx ?s ?i] => rewrite (idx_ok s i) by iv_bound L end
    | match goal with |- context [be16_at ?s ?a] => rewrite (be16_at_ok s a) by iv_bound L end
    | match goal with |- context [sl ?s ?a ?b] => rewrite (sl_ok s a b) by iv_bound L end
    | match goal with |- context [slfrom ?s ?a] => rewrite (slfrom_ok s a) by iv_bound L end ];
    cbn [bind arr]);
  cbn [bind arr]; repeat rewrite nth_view by lia.
Ltac iv_go L :=
  iv_slices L;
  first [ reflexivity
        | match goal with |- context [if ?c then _ else _] => destruct c eqn:? end; iv_go L ].
Ltac iv_start W L :=
  intros W; pose proof (view_length _ W) as L; unfold wf, cap in W;
  unfold restrict, of_bytes, andr, orr, lenN; cbn [len]; rewrite ?L.

Lemma ARP_valid_restrict v : wf v -> ARP_IsValid v = ARP_IsValid (restrict v).
Proof. intros W; pose proof (view_length _ W) as L; unfold wf, cap in W. unfold ARP_IsValid. unfold restrict, of_bytes, andr, orr, lenN; cbn [len]; rewrite ?L. iv_go L. Qed.

Lemma UDP_valid_restrict v : wf v -> UDP_IsValid v = UDP_IsValid (restrict v).
Proof. intros W; pose proof (view_length _ W) as L; unfold wf, cap in W. unfold UDP_IsValid. unfold restrict, of_bytes, andr, orr, lenN; cbn [len]; rewrite ?L. iv_go L. Qed.
Lemma TCP_valid_restrict v : wf v -> TCP_IsValid v = TCP_IsValid (restrict v).
Proof. intros W; pose proof (view_length _ W) as L; unfold wf, cap in W. unfold TCP_IsValid, TCP_HeaderLen_n. unfold restrict, of_bytes, andr, orr, lenN; cbn [len]; rewrite ?L. iv_go L. Qed.
Lemma IP4_valid_restrict v : wf v -> IP4_IsValid v = IP4_IsValid (restrict v).
Proof. intros W; pose proof (view_length _ W) as L; unfold wf, cap in W. unfold IP4_IsValid, IP4_IHL_n, IP4_TotalLen_n. unfold restrict, of_bytes, andr, orr, lenN; cbn [len]; rewrite ?L. iv_go L. Qed.
Lemma Ether_valid_restrict v : wf v -> Ether_IsValid v = Ether_IsValid (restrict v).
Proof. intros W; pose proof (view_length _ W) as L; unfold wf, cap in W. unfold Ether_IsValid. unfold restrict, of_bytes, andr, orr, lenN; cbn [len]; rewrite ?L. iv_go L. Qed.
Lemma IP6_valid_restrict v : wf v -> IP6_IsValid v = IP6_IsValid (restrict v).
Proof. intros W; pose proof (view_length _ W) as L; unfold wf, cap in W. unfold IP6_IsValid, IP6_PayloadLen_n. unfold restrict, of_bytes, andr, orr, lenN; cbn [len]; rewrite ?L. iv_go L. Qed.
Lemma HBH_valid_restrict v : wf v -> HBH_IsValid v = HBH_IsValid (restrict v).
Proof. intros W; pose proof (view_length _ W) as L; unfold wf, cap in W. unfold HBH_IsValid, HBH_Len_n. unfold restrict, of_bytes, andr, orr, lenN; cbn [len]; rewrite ?L. iv_go L. Qed.
Lemma ICMP_valid_restrict v : wf v -> ICMP_IsValid v = ICMP_IsValid (restrict v).
Proof. intros W; pose proof (view_length _ W) as L; unfold wf, cap in W. unfold ICMP_IsValid. unfold restrict, of_bytes, andr, orr, lenN; cbn [len]; rewrite ?L. iv_go L. Qed.
Lemma ICMPEcho_valid_restrict v : wf v -> ICMPEcho_IsValid v = ICMPEcho_IsValid (restrict v).
Proof. intros W; pose proof (view_length _ W) as L; unfold wf, cap in W. unfold ICMPEcho_IsValid, ICMP_IsValid. unfold restrict, of_bytes, andr, orr, lenN; cbn [len]; rewrite ?L. iv_go L. Qed.
Lemma RS_valid_restrict v : wf v -> RS_IsValid v = RS_IsValid (restrict v).
Proof. intros W; pose proof (view_length _ W) as L; unfold wf, cap in W. unfold RS_IsValid. unfold restrict, of_bytes, andr, orr, lenN; cbn [len]; rewrite ?L. iv_go L. Qed.
Lemma RA_valid_restrict v : wf v -> RA_IsValid v = RA_IsValid (restrict v).
Proof. intros W; pose proof (view_length _ W) as L; unfold wf, cap in W. unfold RA_IsValid. unfold restrict, of_bytes, andr, orr, lenN; cbn [len]; rewrite ?L. iv_go L. Qed.
Lemma NA_valid_restrict v : wf v -> NA_IsValid v = NA_IsValid (restrict v).
Proof. intros W; pose proof (view_length _ W) as L; unfold wf, cap in W. unfold NA_IsValid. unfold restrict, of_bytes, andr, orr, lenN; cbn [len]; rewrite ?L. iv_go L. Qed.
Lemma NS_valid_restrict v : wf v -> NS_IsValid v = NS_IsValid (restrict v).
Proof. intros W; pose proof (view_length _ W) as L; unfold wf, cap in W. unfold NS_IsValid. unfold restrict, of_bytes, andr, orr, lenN; cbn [len]; rewrite ?L. iv_go L. Qed.
Lemma Redirect6_valid_restrict v : wf v -> Redirect6_IsValid v = Redirect6_IsValid (restrict v).
Proof. intros W; pose proof (view_length _ W) as L; unfold wf, cap in W. unfold Redirect6_IsValid. unfold restrict, of_bytes, andr, orr, lenN; cbn [len]; rewrite ?L. iv_go L. Qed.
Lemma DNS_valid_restrict v : wf v -> DNS_IsValid v = DNS_IsValid (restrict v).
Proof. intros W; pose proof (view_length _ W) as L; unfold wf, cap in W. unfold DNS_IsValid. unfold restrict, of_bytes, andr, orr, lenN; cbn [len]; rewrite ?L. iv_go L. Qed.
Lemma LLC_valid_restrict v : wf v -> LLC_IsValid v = LLC_IsValid (restrict v).
Proof. intros W; pose proof (view_length _ W) as L; unfold wf, cap in W. unfold LLC_IsValid. unfold restrict, of_bytes, andr, orr, lenN; cbn [len]; rewrite ?L. iv_go L. Qed.
Lemma SNAP_valid_restrict v : wf v -> SNAP_IsValid v = SNAP_IsValid (restrict v).
Proof. intros W; pose proof (view_length _ W) as L; unfold wf, cap in W. unfold SNAP_IsValid. unfold restrict, of_bytes, andr, orr, lenN; cbn [len]; rewrite ?L. iv_go L. Qed.
Lemma RRCP_valid_restrict v : wf v -> RRCP_IsValid v = RRCP_IsValid (restrict v).
Proof. intros W; pose proof (view_length _ W) as L; unfold wf, cap in W. unfold RRCP_IsValid. unfold restrict, of_bytes, andr, orr, lenN; cbn [len]; rewrite ?L. iv_go L. Qed.
Lemma IEEE1905_valid_restrict v : wf v -> IEEE1905_IsValid v = IEEE1905_IsValid (restrict v).
Proof. intros W; pose proof (view_length _ W) as L; unfold wf, cap in W. unfold IEEE1905_IsValid. unfold restrict, of_bytes, andr, orr, lenN; cbn [len]; rewrite ?L. iv_go L. Qed.
Lemma Pause_valid_restrict v : wf v -> Pause_IsValid v = Pause_IsValid (restrict v).
Proof. intros W; pose proof (view_length _ W) as L; unfold wf, cap in W. unfold Pause_IsValid. unfold restrict, of_bytes, andr, orr, lenN; cbn [len]; rewrite ?L. iv_go L. Qed.
Lemma U880a_valid_restrict v : wf v -> U880a_IsValid v = U880a_IsValid (restrict v).
Proof. intros W; pose proof (view_length _ W) as L; unfold wf, cap in W. unfold U880a_IsValid. unfold restrict, of_bytes, andr, orr, lenN; cbn [len]; rewrite ?L. iv_go L. Qed.
Lemma R4_valid_restrict v : wf v -> R4_IsValid v = R4_IsValid (restrict v).
Proof. intros W; pose proof (view_length _ W) as L; unfold wf, cap in W. unfold R4_IsValid. unfold restrict, of_bytes, andr, orr, lenN; cbn [len]; rewrite ?L. iv_go L. Qed.
Lemma LLDP_valid_restrict v : wf v -> LLDP_IsValid v = LLDP_IsValid (restrict v).
Proof. intros W; pose proof (view_length _ W) as L; unfold wf, cap in W. unfold LLDP_IsValid. unfold restrict, of_bytes, andr, orr, lenN; cbn [len]; rewrite ?L. iv_go L. Qed.

Lemma dhcp_validate_restrict v : wf v -> forall fuel off, (off <= len v)%nat ->
  dhcp_validate fuel {| arr := skipn off (arr v); len := len v - off |} =
  dhcp_validate fuel {| arr := skipn off (view v); len := len v - off |}.
Proof.
  intros W. induction fuel as [|f IH]; intros off Ho; [reflexivity|].
  cbn [dhcp_validate len]. destruct (Nat.ltb_spec (len v - off) 2); [reflexivity|].
  rewrite !idx_ok by (cbn [len]; lia). cbn [bind arr]. rewrite !nth_skipn. rewrite !nth_view by lia.
  replace (off + 0)%nat with off by lia.
  destruct (nth off (arr v) 0 =? 255); [reflexivity|].
  destruct (nth off (arr v) 0 =? 0).
  - rewrite !slfrom_ok by (cbn [len]; lia). cbn [bind arr len]. rewrite !skipn_skipn'.
    replace (len v - off - 1)%nat with (len v - (off + 1))%nat by lia. apply IH. lia.
  - destruct (Nat.ltb_spec (len v - off) (2 + N.to_nat (nth (off + 1) (arr v) 0))); [reflexivity|].
    rewrite !slfrom_ok by (cbn [len]; lia). cbn [bind arr len]. rewrite !skipn_skipn'.
    match goal with |- dhcp_validate f {| arr := _; len := ?a |} = _ =>
      replace a with (len v - (off + (2 + N.to_nat (nth (off + 1)%nat (arr v) 0%N))))%nat by lia end.
    apply IH. lia.
Qed.

Lemma DHCP4_valid_restrict v : wf v -> DHCP4_IsValid v = DHCP4_IsValid (restrict v).
Proof.
  intros W; pose proof (view_length _ W) as L. pose proof W as W'. unfold wf, cap in W.
  unfold DHCP4_IsValid, DHCP4_validateOptions, DHCP4_Options_l, lfrom. unfold restrict, of_bytes, lenN; cbn [len lsl loff]; rewrite ?L.
  destruct (N.of_nat (len v) <? 240) eqn:E; [reflexivity|].
  iv_slices L. destruct (_ && _)%bool; [reflexivity|]. destruct (negb _); [reflexivity|].
  destruct (Nat.ltb_spec 240 (len v)).
  - iv_slices L. cbn [lsl len]. destruct (Nat.ltb (len v - 240) 2); [reflexivity|].
    apply (dhcp_validate_restrict v W'). lia.
  - reflexivity.
Qed.

(* corollary for every type: two views with the same bytes within the length are both valid or both invalid *)
Lemma valid_len_only (isvalid : slice -> res bool) :
  (forall v, wf v -> isvalid v = isvalid (restrict v)) ->
  forall v v', wf v -> wf v' -> view v = view v' -> isvalid v = isvalid v'.
Proof. intros R v v' W W' E. rewrite (R v W), (R v' W'), (restrict_same v v' E). reflexivity. Qed.

(* ---- round 7: Ether at full strength on its natural domain.  A frame that has a payload (len <> header length:
   every frame Parse accepts beyond a bare header), or any frame without spare capacity, is outside the recorded
   class, and there the statements hold with NO excluded class ---- *)
Lemma getters_ok_full fs t v : (forall name, known_of fs name v = false) -> getters_ok fs t v -> getters_ok [] t v.
Proof.
  intros K H. unfold getters_ok in *. rewrite Forall_forall in *. intros ng Hin _. apply H; [exact Hin|apply K].
Qed.
Lemma getters_spec_full fs t st v : (forall name, known_of fs name v = false) -> getters_spec fs t st v -> getters_spec [] t st v.
Proof.
  intros K H. unfold getters_spec in *. induction H as [|ng ns t st [Hn Hs] Hr IH]; constructor; [|exact IH].
  split; [exact Hn|]. intros s Es _. apply Hs; [exact Es|apply K].
Qed.

Definition ether_has_payload_or_no_spare (v : slice) : Prop := len v <> eth_hlen v \/ cap v = len v.

Lemma Ether_outside_class v : ether_has_payload_or_no_spare v -> forall name, known_of Ether_findings name v = false.
Proof.
  intros H name. unfold known_of, Ether_findings, k_ether_payload. cbn [existsb f_pred]. rewrite Bool.orb_false_r.
  destruct (is name "Payload"); [|reflexivity]. cbn [andb].
  destruct (Nat.eqb_spec (len v) (eth_hlen v)); [|reflexivity]. cbn [andb].
  destruct (Nat.ltb_spec (len v) (cap v)); [|reflexivity]. destruct H; lia.
Qed.

Theorem Ether_full_on_payload_frames v : wf v -> bytes_ok (arr v) -> Ether_IsValid v = Ok true ->
  ether_has_payload_or_no_spare v ->
  getters_ok [] Ether_getters v /\ getters_spec [] Ether_getters Ether_specs v.
Proof.
  intros W B H D. pose proof (Ether_outside_class v D) as K. split.
  - apply (getters_ok_full Ether_findings); [exact K|apply Ether_safe; assumption].
  - apply (getters_spec_full Ether_findings); [exact K|apply Ether_spec; assumption].
Qed.

(* non-vacuity: ex_ether (IPv4 frame with 3 bytes of spare capacity) has a payload *)
Example Ether_payload_frame_ex : ether_has_payload_or_no_spare ex_ether /\ Ether_IsValid ex_ether = Ok true.
Proof. split; [left; vm_compute; lia|reflexivity]. Qed.
