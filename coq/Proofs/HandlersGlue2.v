(* Proofs/HandlersGlue2.v — the option / TLV walks of the C08 models have the same outcome
   (value / error / panic / out of fuel) as the VIEWS models of the same Go functions, for
   all slices and every sufficient fuel on either side:
     DHCP4.IsValid / validateOptions / ParseOptions, ParseHopByHopExtensions,
     RouterAdvertisement / RouterSolicitation.Options (newParseOptions). *)
From PV Require Import Base.Prelude Base.Slice.
From PV Require Import Model.ViewsBase Model.Views Model.Views2 Model.ViewsVar.
From PV Require Import Model.NDPOptions Model.MiscHopByHop Model.MiscDecoders.
From PV Require Import Proofs.HandlersTac Proofs.NDPOptions Proofs.HandlersGlue.
Open Scope N_scope.

(* ---------------------------------------------------------------- DHCP4 *)
Lemma glue_dhcp_validate n : forall o f1 f2, (len o <= n)%nat -> (n < f1)%nat -> (n < f2)%nat ->
  cls (dhcp_walk true f1 o) = bcls (dhcp_validate f2 o).
Proof.
  induction n as [|n IH]; intros o f1 f2 Hn H1 H2; (destruct f1 as [|f1]; [lia|]); (destruct f2 as [|f2]; [lia|]);
    cbn [dhcp_walk dhcp_validate].
  - destruct (Nat.ltb_spec (len o) 2); [reflexivity|lia].
  - destruct (Nat.ltb_spec (len o) 2); [reflexivity|].
    rewrite !idx_ok by lia. cbn [bind].
    destruct (nth 0 (arr o) 0 =? 255); [reflexivity|].
    destruct (nth 0 (arr o) 0 =? 0).
    + rewrite slfrom_ok by lia. cbn [bind]. apply IH; cbn [len]; lia.
    + destruct (Nat.ltb_spec (len o) (2 + N.to_nat (nth 1 (arr o) 0))); [reflexivity|].
      cbn [bind]. rewrite slfrom_ok by lia. cbn [bind]. apply IH; cbn [len]; lia.
Qed.

Lemma glue_dhcp_parse n : forall o off m f1 f2, (len o <= n)%nat -> (n < f1)%nat -> (n < f2)%nat ->
  cls (dhcp_walk false f1 o) = cls (dhcp_parse f2 (mkL off o) m).
Proof.
  induction n as [|n IH]; intros o off m f1 f2 Hn H1 H2; (destruct f1 as [|f1]; [lia|]); (destruct f2 as [|f2]; [lia|]);
    cbn [dhcp_walk dhcp_parse]; unfold lenL, lfrom, lsub; cbn [lsl loff].
  - destruct (Nat.ltb_spec (len o) 2); [reflexivity|lia].
  - destruct (Nat.ltb_spec (len o) 2); [reflexivity|].
    rewrite !idx_ok by lia. cbn [bind].
    destruct (nth 0 (arr o) 0 =? 255); [reflexivity|].
    destruct (nth 0 (arr o) 0 =? 0).
    + rewrite slfrom_ok by lia. cbn [bind]. apply IH; cbn [len]; lia.
    + destruct (Nat.ltb_spec (len o) (2 + N.to_nat (nth 1 (arr o) 0))); [reflexivity|].
      destruct (sl o 2 (2 + N.to_nat (nth 1 (arr o) 0))) as [x| | |]; cbn [bind]; try reflexivity.
      rewrite slfrom_ok by lia. cbn [bind]. apply IH; cbn [len]; lia.
Qed.

Theorem glue_dhcp_is_valid p fuel : (len p < fuel)%nat ->
  cls (dhcp_is_valid fuel p) = bcls (DHCP4_IsValid p).
Proof.
  intros Hf. unfold dhcp_is_valid, DHCP4_IsValid, DHCP4_validateOptions, dhcp_options, DHCP4_Options_l, lenN, lfrom.
  cbn [lsl loff].
  destruct (Nat.ltb_spec (len p) 240); destruct (N.ltb_spec (N.of_nat (len p)) 240); try lia; [reflexivity|].
  rewrite !idx_ok by lia. cbn [bind].
  replace (negb (nth 0 (arr p) 0 =? 1) && negb (nth 0 (arr p) 0 =? 2))
    with (negb ((nth 0 (arr p) 0 =? 1) || (nth 0 (arr p) 0 =? 2))) by (rewrite negb_orb; reflexivity).
  destruct (negb _); [reflexivity|].
  destruct (negb (nth 2 (arr p) 0 =? 6)); [reflexivity|].
  destruct (Nat.ltb_spec 240 (len p)).
  - rewrite slfrom_ok by lia. cbn [bind lsl len].
    destruct (Nat.ltb_spec (len p - 240) 2); [reflexivity|].
    apply (glue_dhcp_validate (len p - 240)); cbn [len]; lia.
  - cbn [bind]. unfold nil_slice. cbn [len]. reflexivity.
Qed.

Theorem glue_dhcp_parse_options p fuel : (len p < fuel)%nat ->
  cls (dhcp_parse_options fuel p) = cls (DHCP4_ParseOptions p).
Proof.
  intros Hf. unfold dhcp_parse_options, DHCP4_ParseOptions, dhcp_options, DHCP4_Options_l, lfrom.
  cbn [lsl loff].
  assert (Hb : forall (r : res (list (N * value))),
            cls (bind r (fun m => Ok (VL (map (fun cx => VL [VN (fst cx); snd cx]) m)))) = cls r)
    by (intros r; destruct r; reflexivity).
  destruct (Nat.ltb_spec 240 (len p)).
  - rewrite slfrom_ok by lia. cbn [bind]. rewrite Hb.
    apply (glue_dhcp_parse (len p - 240)); unfold lenL; cbn [len lsl]; lia.
  - cbn [bind]. rewrite Hb. unfold nil_slice, lenL. cbn [lsl len].
    destruct fuel as [|f]; [lia|]. reflexivity.
Qed.

(* ---------------------------------------------------------------- hop-by-hop *)
Lemma glue_hbh_walk n : forall data pos f1 f2, (len data - pos <= n)%nat -> (n < f1)%nat -> (n < f2)%nat ->
  cls (hbh_loop f1 data pos) = vcls (hbh_walk f2 data pos).
Proof.
  induction n as [|n IH]; intros data pos f1 f2 Hn H1 H2; (destruct f1 as [|f1]; [lia|]); (destruct f2 as [|f2]; [lia|]);
    cbn [hbh_loop hbh_walk].
  - unfold slfrom. destruct (Nat.leb_spec pos (len data)); [|reflexivity]. cbn [bind len].
    destruct (Nat.ltb_spec (len data - pos) 1); [reflexivity|lia].
  - unfold slfrom. destruct (Nat.leb_spec pos (len data)); [|reflexivity]. cbn [bind len].
    destruct (Nat.ltb_spec (len data - pos) 1); [reflexivity|].
    set (b := mkSlice (skipn pos (arr data)) (len data - pos)).
    unfold hbh_option, orr. rewrite !idx_ok by (unfold b; cbn [len]; lia). cbn [bind].
    set (t := nth 0 (arr b) 0).
    assert (Hrec : forall pos', (pos < pos')%nat ->
              cls (if Nat.ltb (len data) pos' then Err EParseFrame
                   else if Nat.eqb pos' (len data) then Ok tt else hbh_loop f1 data pos') =
              vcls (if Nat.ltb (len data) pos' then Ok VE
                    else if Nat.eqb pos' (len data) then Ok VU else hbh_walk f2 data pos')).
    { intros pos' Hp. destruct (Nat.ltb_spec (len data) pos'); [reflexivity|].
      destruct (Nat.eqb_spec pos' (len data)); [reflexivity|]. apply IH; lia. }
    change (len b) with (len data - pos)%nat.
    destruct (t =? 0); [cbn [bind]; apply Hrec; lia|].
    destruct (t =? 1).
    { destruct (Nat.ltb_spec (len data - pos) 2); [reflexivity|].
      rewrite !idx_ok by (unfold b; cbn [len]; lia). cbn [bind]. apply Hrec; lia. }
    destruct (t =? 5).
    { destruct (Nat.ltb_spec (len data - pos) 4); cbn [bind]; [reflexivity|].
      rewrite !idx_ok by (unfold b; cbn [len]; lia). cbn [bind].
      destruct (negb (nth 1 (arr b) 0 =? 2)); cbn [bind]; [reflexivity|].
      destruct (sl b 2 4); cbn [bind]; try reflexivity. apply Hrec; lia. }
    destruct (t =? 194).
    { destruct (Nat.ltb_spec (len data - pos) 6); cbn [bind]; [reflexivity|].
      rewrite !idx_ok by (unfold b; cbn [len]; lia). cbn [bind].
      destruct (negb (nth 1 (arr b) 0 =? 4)); cbn [bind]; [reflexivity|]. apply Hrec; lia. }
    destruct (Nat.ltb_spec (len data - pos) 2); [reflexivity|].
    destruct (negb (N.shiftr t 6 =? 0)); [reflexivity|].
    rewrite !idx_ok by (unfold b; cbn [len]; lia). cbn [bind]. apply Hrec; lia.
Qed.

Theorem glue_hbh_parse p fuel : (len p <= fuel)%nat ->
  cls (hbh_parse fuel p) = vcls (HBH_Parse p).
Proof.
  intros Hf. unfold hbh_parse, HBH_Parse, HBH_Data_l, HBH_Len_n, orr, lenN, lsub, lenL. cbn [lsl loff].
  destruct (Nat.ltb_spec (len p) 2); destruct (N.ltb_spec (N.of_nat (len p)) 2); try lia; cbn [bind]; [reflexivity|].
  rewrite !idx_ok by lia. cbn [bind].
  set (l1 := nth 1 (arr p) 0).
  replace (N.to_nat (l1 * 8 + 8)) with (N.to_nat l1 * 8 + 8)%nat by lia.
  destruct (Nat.ltb_spec (len p) (N.to_nat l1 * 8 + 8)); destruct (N.ltb_spec (N.of_nat (len p)) (l1 * 8 + 8));
    try lia; [reflexivity|].
  destruct (sl p 2 (N.to_nat l1 * 8 + 8)) as [d| | |] eqn:Ed; cbn [bind lsl]; try reflexivity.
  assert (len d = (N.to_nat l1 * 8 + 8 - 2)%nat).
  { unfold sl in Ed. destruct (_ && _); [|discriminate]. injection Ed as <-. reflexivity. }
  apply (glue_hbh_walk (len d)); lia.
Qed.

(* ---------------------------------------------------------------- NDP options *)
Lemma ign_ok r : safe r -> ign r = Ok tt.
Proof. intros [H1 H2]. destruct r as [[]| | |]; cbn; congruence. Qed.

(* the outcome of one option: an error exactly for a link-layer option of length != 1, a prefix
   option of length != 4 or prefix length > 128 — what VIEWS' walk tests *)
Lemma opt_step_class lbl_ok fuel o : opt_shape o -> (len o <= fuel)%nat ->
  let t := nth 0 (arr o) 0 in let b1 := nth 1 (arr o) 0 in let b2 := nth 2 (arr o) 0 in
  opt_step lbl_ok fuel t o =
    if (((t =? 1) || (t =? 2)) && negb (b1 =? 1)) || ((t =? 3) && (negb (b1 =? 4) || (128 <? b2)))
    then Err EOther else Ok tt.
Proof.
  intros Ho Hf t b1 b2. pose proof Ho as (Hw & H8 & Hl). unfold opt_step. fold t.
  destruct ((t =? 1) || (t =? 2)) eqn:E12.
  - assert (E3 : (t =? 3) = false) by (clearbody t; lia). rewrite E3. cbn [andb orb].
    unfold lla_unmarshal. rewrite !idx_ok by lia. cbn [bind]. fold t b1.
    destruct (b1 =? 1); cbn [negb]; [|reflexivity]. rewrite E12. cbn [negb].
    rewrite slfrom_ok by lia. reflexivity.
  - cbn [andb orb].
    destruct (t =? 5) eqn:E5; [assert ((t =? 3) = false) as -> by (clearbody t; lia); apply ign_ok, mtu_safe; exact Ho|].
    destruct (t =? 3) eqn:E3.
    + cbn [andb]. unfold pi_unmarshal. rewrite idx_ok by lia. cbn [bind]. fold b1.
      destruct (b1 =? 4) eqn:E4; cbn [negb orb]; [|reflexivity].
      assert (len o = 32%nat) by (fold b1 in Hl; lia).
      rewrite slfrom_ok by lia. cbn [bind].
      rewrite idx_ok by (cbn [len]; lia). cbn [bind arr].
      rewrite nth_skipn_add. change (2 + 0)%nat with 2%nat. fold b2.
      destruct (128 <? b2); [reflexivity|].
      unfold wf, cap in Hw.
      repeat (first [ rewrite idx_ok by (cbn [len]; lia)
                    | rewrite sl_ok by (unfold cap; cbn [arr len]; rewrite ?skipn_length; lia) ]; cbn [bind]).
      cbn [len]. reflexivity.
    + cbn [andb].
      destruct (t =? 24); [apply ign_ok, ri_safe; exact Ho|].
      destruct (t =? 25); [apply ign_ok, rdnss_safe; exact Ho|].
      destruct (t =? 31); [apply ign_ok, dnssl_safe; assumption|reflexivity].
Qed.

Lemma glue_ndp_options lbl_ok n : forall b i f1 f2,
  wf b -> (i <= len b)%nat -> (len b - i <= n)%nat -> (n < f1)%nat -> (n < f2)%nat ->
  cls (parse_opts lbl_ok f1 b i) = vcls (ndp_options f2 b i).
Proof.
  induction n as [|n IH]; intros b i f1 f2 Hw Hi Hn H1 H2;
    (destruct f1 as [|f1]; [lia|]); (destruct f2 as [|f2]; [lia|]); cbn [parse_opts ndp_options];
    rewrite !slfrom_ok by lia; cbn [bind len].
  - destruct (Nat.eqb_spec (len b - i) 0); [reflexivity|lia].
  - destruct (Nat.eqb_spec (len b - i) 0); [reflexivity|].
    destruct (Nat.ltb_spec (len b - i) 2); [reflexivity|].
    rewrite !idx_ok by lia. cbn [bind].
    set (l := (N.to_nat (nth (i + 1) (arr b) 0%N) * 8)%nat).
    destruct (Nat.eqb_spec l 0); [reflexivity|].
    destruct (Nat.ltb_spec (len b - i) l); [reflexivity|].
    assert (Hl8 : (8 <= l)%nat) by (unfold l in *; lia).
    rewrite !sl_ok by (unfold wf in Hw; lia). cbn [bind].
    replace (i + l - i)%nat with l by lia.
    set (x := mkSlice (skipn i (arr b)) l).
    assert (Hx : opt_shape x).
    { unfold opt_shape, wf, cap, x. cbn [len arr]. rewrite skipn_length, nth_skipn_add.
      unfold wf, cap in Hw. fold l. lia. }
    assert (Ht : nth i (arr b) 0 = nth 0 (arr x) 0) by (unfold x; cbn [arr]; rewrite nth_skipn_add; f_equal; lia).
    rewrite Ht. rewrite (opt_step_class lbl_ok (len b) x Hx) by (unfold x; cbn [len]; lia).
    rewrite !idx_ok by (unfold x; cbn [len]; lia). cbn [bind].
    set (t := nth 0 (arr x) 0). set (b1 := nth 1 (arr x) 0). set (b2 := nth 2 (arr x) 0).
    destruct (((t =? 1) || (t =? 2)) && negb (b1 =? 1)); cbn [orb bind]; [reflexivity|].
    destruct (t =? 3); cbn [andb].
    + destruct (negb (b1 =? 4)); cbn [orb bind]; [reflexivity|].
      destruct (128 <? b2); cbn [bind]; [reflexivity|]. apply IH; [assumption|lia|lia|lia|lia].
    + cbn [bind]. apply IH; [assumption|lia|lia|lia|lia].
Qed.

(* termination class only: returns / panics / out of fuel *)
Definition tcls {A} (r : res A) : oclass :=
  match r with Panic => CPanic | Fuel => CFuel | _ => COk end.

Lemma tcls_of_cls {A B} (r : res A) (r' : res B) : cls r = cls r' -> tcls r = tcls r'.
Proof. destruct r, r'; cbn; congruence. Qed.
Lemma tcls_of_vcls {A} (r : res A) (r' : res value) : cls r = vcls r' -> tcls r = tcls r'.
Proof. destruct r, r' as [[]| | |]; cbn; congruence. Qed.

(* RouterAdvertisement.Options / RouterSolicitation.Options: the option walk of C08 and the walk
   VIEWS proves C01/C02 about agree on value / error / panic / fuel; the exported getters agree on
   termination and panic-freedom (VIEWS' getter additionally decodes the option values) *)
Theorem glue_options_at lbl_ok k p fuel : wf p -> (len p < fuel)%nat ->
  tcls (if Nat.leb (len p) k then Ok tt
        else bind (slfrom p k) (fun b => new_parse_options lbl_ok fuel b)) =
  tcls (ndp_options_at k p).
Proof.
  intros Hw Hf. unfold ndp_options_at, new_parse_options.
  destruct (Nat.leb_spec (len p) k); [reflexivity|].
  rewrite !slfrom_ok by lia. cbn [bind].
  set (b := mkSlice (skipn k (arr p)) (len p - k)).
  assert (Hwb : wf b) by (unfold b; slen).
  pose proof (glue_ndp_options lbl_ok (len b) b 0%nat fuel (S (len b)) Hwb ltac:(lia) ltac:(lia)
                ltac:(unfold b; cbn [len]; lia) ltac:(lia)) as Hg.
  destruct (parse_opts lbl_ok fuel b 0) as [[]| | |], (ndp_options (S (len b)) b 0) as [[]| | |];
    cbn in Hg |- *; congruence.
Qed.

Theorem glue_ra_options lbl_ok p fuel : wf p -> (len p < fuel)%nat ->
  tcls (ra_options lbl_ok fuel p) = tcls (RA_Options p).
Proof. intros. unfold ra_options, RA_Options. apply (glue_options_at lbl_ok 16); assumption. Qed.

Theorem glue_rs_options lbl_ok p fuel : wf p -> (len p < fuel)%nat ->
  tcls (rs_options lbl_ok fuel p) = tcls (RS_Options p).
Proof. intros. unfold rs_options, RS_Options. apply (glue_options_at lbl_ok 8); assumption. Qed.

(* and the error class of the walk itself *)
Theorem glue_new_parse_options lbl_ok b fuel : wf b -> (len b < fuel)%nat ->
  cls (new_parse_options lbl_ok fuel b) = vcls (ndp_options (S (len b)) b 0).
Proof.
  intros Hw Hf. unfold new_parse_options.
  apply (glue_ndp_options lbl_ok (len b)); try assumption; lia.
Qed.
