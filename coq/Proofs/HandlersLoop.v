(* Proofs/HandlersLoop.v — generic facts about fuel loops: a fixed point of the step never
   terminates; a loop whose every continuing step either is a fixed point or decreases a
   measure terminates safely within measure+1 steps unless the walk finds a fixed point. *)
From PV Require Import Base.Prelude Model.HandlersLoop.

Section Loop.
  Context {X R : Type}.
  Variable step : X -> lstep X R.
  Variable eqb : X -> X -> bool.
  Hypothesis eqb_eq : forall x y, eqb x y = true -> x = y.

  Lemma iter_fixpoint x : step x = Cont x -> forall fuel, iter step fuel x = Fuel.
  Proof.
    intros H fuel. induction fuel as [|f IH]; [reflexivity|]. cbn [iter]. rewrite H. exact IH.
  Qed.

  Lemma spins_fixpoint n : forall x y, spins step eqb n x = Some y -> step y = Cont y.
  Proof.
    induction n as [|n IH]; intros x y H; cbn [spins] in H; [discriminate|].
    destruct (step x) as [r|x'] eqn:E; [discriminate|].
    destruct (eqb x x') eqn:Eq.
    - apply eqb_eq in Eq. subst x'. injection H as <-. exact E.
    - eapply IH; exact H.
  Qed.

  (* reaching a fixed point: out of fuel whatever the fuel *)
  Theorem iter_spins n : forall x y, spins step eqb n x = Some y ->
    forall fuel, iter step fuel x = Fuel.
  Proof.
    induction n as [|n IH]; intros x y H fuel; cbn [spins] in H; [discriminate|].
    destruct fuel as [|f]; [reflexivity|]. cbn [iter].
    destruct (step x) as [r|x'] eqn:E; [discriminate|].
    destruct (eqb x x') eqn:Eq.
    - apply eqb_eq in Eq. subst x'. apply iter_fixpoint. exact E.
    - eapply IH; exact H.
  Qed.

  Variable mu : X -> nat.
  Variable inv : X -> Prop.
  Hypothesis step_inv : forall x x', inv x -> step x = Cont x' -> inv x'.
  Hypothesis step_dec : forall x x', inv x -> step x = Cont x' -> eqb x x' = false -> (mu x' < mu x)%nat.
  Hypothesis stop_safe : forall x r, inv x -> step x = Stop r -> safe r.

  Theorem iter_total n : forall x fuel, inv x -> (mu x < n)%nat -> (n <= fuel)%nat ->
    spins step eqb n x = None -> safe (iter step fuel x).
  Proof.
    induction n as [|n IH]; intros x fuel Hi Hm Hf Hs; [lia|].
    destruct fuel as [|f]; [lia|]. cbn [iter]. cbn [spins] in Hs.
    destruct (step x) as [r|x'] eqn:E.
    - eapply stop_safe; eassumption.
    - destruct (eqb x x') eqn:Eq; [discriminate|].
      apply IH; [eapply step_inv; eassumption | | lia | exact Hs].
      pose proof (step_dec x x' Hi E Eq). lia.
  Qed.

  (* only Stop results can be returned: a panic comes from a step *)
  Theorem iter_panic_from_step fuel : forall x, inv x -> iter step fuel x = Panic ->
    exists y, inv y /\ step y = Stop Panic.
  Proof.
    induction fuel as [|f IH]; intros x Hi H; cbn [iter] in H; [discriminate|].
    destruct (step x) as [r|x'] eqn:E.
    - subst r. exists x. split; assumption.
    - apply (IH x'); [eapply step_inv; eassumption|exact H].
  Qed.
End Loop.

(* no fixed point possible: every continuing step decreases the measure *)
Section LoopDec.
  Context {X R : Type}.
  Variable step : X -> lstep X R.
  Variable mu : X -> nat.
  Variable inv : X -> Prop.
  Hypothesis step_inv : forall x x', inv x -> step x = Cont x' -> inv x'.
  Hypothesis stop_safe : forall x r, inv x -> step x = Stop r -> safe r.
  Hypothesis step_dec : forall x x', inv x -> step x = Cont x' -> (mu x' < mu x)%nat.

  Theorem iter_total_dec n : forall x fuel, inv x -> (mu x < n)%nat -> (n <= fuel)%nat ->
    safe (iter step fuel x).
  Proof.
    induction n as [|n IH]; intros x fuel Hi Hm Hf; [lia|].
    destruct fuel as [|f]; [lia|]. cbn [iter].
    destruct (step x) as [r|x'] eqn:E.
    - exact (stop_safe x r Hi E).
    - apply IH; [exact (step_inv x x' Hi E) | | lia].
      pose proof (step_dec x x' Hi E). lia.
  Qed.
End LoopDec.
