(* Proofs/LeaseRestart.v — C18: leases survive restart (save, yaml round trip, Config.New), and what a
   constructed table can contain for ANY input. *)
From PV Require Import Base.Prelude Model.LeaseBase Model.Lease Model.LeaseKnown Proofs.Lease Proofs.LeaseNew.
From Coq Require Import Permutation.
Open Scope N_scope.

(* ---------------------------------------------------------------- *)
(* list facts *)

Lemma NoDup_map_filter {A B} (f : A -> B) (p : A -> bool) l :
  NoDup (map f l) -> NoDup (map f (filter p l)).
Proof.
  induction l as [|x l IH]; simpl; intros H; [constructor|].
  inversion H as [|? ? Hx Hl]; subst.
  destruct (p x); simpl; auto.
  constructor; auto.
  intros Hin. apply Hx. apply in_map_iff in Hin. destruct Hin as (y & Ey & Hy).
  apply filter_In in Hy. apply in_map_iff. exists y. tauto.
Qed.

Lemma Permutation_filter' {A} (p : A -> bool) l l' :
  Permutation l l' -> Permutation (filter p l) (filter p l').
Proof.
  induction 1; simpl.
  - constructor.
  - destruct (p x); auto.
  - destruct (p x), (p y); auto. constructor.
  - eapply perm_trans; eauto.
Qed.

(* ---------------------------------------------------------------- *)
(* subnets a handler carries: re-validating them changes nothing and they match the configuration *)

Definition stable (c : cfg) (n1 n2 : subnet) : Prop :=
  newSubnet (n_cfg n1) = Ok n1 /\ newSubnet (n_cfg n2) = Ok n2
  /\ configChanged (homeSubnet c) (n_cfg n1) = false
  /\ configChanged (netfilterSubnet c) (n_cfg n2) = false.

Lemma prefix_eqb_refl p : prefix_eqb p p = true.
Proof. destruct p as [|a b]; simpl; auto. rewrite addr_eqb_refl, N.eqb_refl. reflexivity. Qed.

Lemma prefix_eqb_eq p q : prefix_eqb p q = true -> p = q.
Proof.
  destruct p as [|a b], q as [|a' b']; simpl; try discriminate; auto.
  intros H. apply andb_true_iff in H. destruct H as [H1 H2].
  apply addr_eqb_eq in H1. apply N.eqb_eq in H2. congruence.
Qed.

Lemma reset_inv c s : reset c = Ok s ->
  newSubnet (homeSubnet c) = Ok (d_n1 s) /\ newSubnet (netfilterSubnet c) = Ok (d_n2 s) /\ d_table s = [].
Proof.
  unfold reset. destruct (newSubnet (homeSubnet c)) as [n1| | |]; simpl; try discriminate.
  destruct (newSubnet (netfilterSubnet c)) as [n2| | |]; simpl; try discriminate.
  intros H. inversion H; subst. simpl. auto.
Qed.

Lemma configChanged_fresh sc n : s_dur sc = 0%Z -> s_first sc = AInv ->
  newSubnet sc = Ok n -> configChanged sc (n_cfg n) = false.
Proof.
  intros Hd Hf H. destruct (newSubnet_lan _ _ H) as [El _].
  destruct (newSubnet_ok _ _ H) as (n0 & b & _ & _ & _ & Egw & Edh & Edns & _).
  unfold configChanged. rewrite El, prefix_eqb_refl, Egw, Edh, Edns, Hd, Hf, !addr_eqb_refl. reflexivity.
Qed.

Lemma pmasked_idem p : pmasked (pmasked p) = pmasked p.
Proof.
  destruct p as [|[|n|v z] b]; simpl; auto.
  - unfold mask4. rewrite maskw_idem. reflexivity.
  - rewrite maskw_idem. reflexivity.
Qed.

Lemma loadConfig_inv cap i n1 n2 t : loadConfig cap i = Ok (Some n1, Some n2, Some t) ->
  exists st d, i = Doc st d /\ load cap d = Ok (n1, n2, t).
Proof.
  destruct i as [| |st d]; simpl; try discriminate.
  destruct st; try discriminate;
    (destruct (load cap d) as [[[a b] t']| | |] eqn:E; simpl; try discriminate;
     intros H; inversion H; subst; eauto).
Qed.

Lemma load_inv cap d s1 s2 t : load cap d = Ok (s1, s2, t) ->
  (exists c1, d_net1 d = Some c1 /\ newSubnet c1 = Ok s1)
  /\ (exists c2, d_net2 d = Some c2 /\ newSubnet c2 = Ok s2)
  /\ t = load_loop cap s1 s2 (d_leases d) [].
Proof.
  unfold load.
  destruct (d_net1 d) as [c1|]; simpl.
  - destruct (newSubnet c1) as [a| | |] eqn:E1; simpl; try discriminate.
    destruct (d_net2 d) as [c2|]; simpl.
    + destruct (newSubnet c2) as [b| | |] eqn:E2; simpl; try discriminate.
      intros H. inversion H; subst. eauto 10.
    + discriminate.
  - destruct (d_net2 d) as [c2|]; simpl; [|discriminate].
    destruct (newSubnet c2) as [b| | |]; simpl; discriminate.
Qed.

(* every state the constructor returns carries stable subnets *)
Lemma new_stable c cap i s : new c cap i = Ok s ->
  cfg_ok c = true /\ stable c (d_n1 s) (d_n2 s).
Proof.
  intros H.
  destruct (new_cases c cap i) as [[_ E]|[(Hok & _ & E)|[(Hok & _ & E)|(Hok & n1 & n2 & t & HL & C1 & C2 & E)]]];
    rewrite E in H; try discriminate.
  - split; auto. destruct (reset_inv _ _ H) as (H1 & H2 & _).
    repeat split.
    + eapply newSubnet_idem; eauto.
    + eapply newSubnet_idem; eauto.
    + apply configChanged_fresh; auto.
    + apply configChanged_fresh; auto.
  - inversion H; subst; simpl. split; auto.
    destruct (loadConfig_inv _ _ _ _ _ HL) as (st & d & -> & Hl).
    destruct (load_inv _ _ _ _ _ Hl) as ((c1 & _ & N1) & (c2 & _ & N2) & _).
    repeat split; auto; eapply newSubnet_idem; eauto.
Qed.

(* ---------------------------------------------------------------- *)
(* loading what was saved *)

Lemma persistable_rec_ok s1 t l :
  persistable s1 t = true -> In l t -> allocated l = true -> rec_ok s1 (l_rec l) = true.
Proof.
  unfold persistable. intros Hi Hin Ha.
  rewrite forallb_forall in Hi. specialize (Hi l Hin). rewrite Ha in Hi. simpl in Hi. exact Hi.
Qed.

Lemma load_saved cap n1 n2 t ord :
  newSubnet (n_cfg n1) = Ok n1 -> newSubnet (n_cfg n2) = Ok n2 ->
  persistable n1 t = true -> NoDup (map l_cid t) -> Permutation ord t ->
  load cap (save n1 n2 ord) = Ok (n1, n2, map (restored cap n2) (save_leases ord)).
Proof.
  intros H1 H2 Hi Hnd Hp. unfold load, save; simpl. rewrite H1, H2. simpl.
  rewrite (load_loop_all_ok cap n1 n2 (save_leases ord) []); simpl; auto.
  - intros r Hr. unfold save_leases in Hr. apply in_map_iff in Hr. destruct Hr as (l & <- & Hl).
    apply filter_In in Hl. destruct Hl as [Hin Ha]. split.
    + exact Ha.
    + eapply persistable_rec_ok; eauto. eapply Permutation_in; eauto.
  - unfold save_leases. rewrite map_map. change (fun x => r_cid (l_rec x)) with l_cid.
    apply NoDup_map_filter. eapply Permutation_NoDup; [|exact Hnd].
    apply Permutation_map. apply Permutation_sym. exact Hp.
Qed.

Lemma bindings_restored cap n2 ord :
  bindings (map (restored cap n2) (save_leases ord)) = acked_bindings ord.
Proof.
  unfold bindings, acked_bindings, save_leases. rewrite !map_map. apply map_ext. intros l. reflexivity.
Qed.

(* inputs that cannot restore anything *)
Lemma new_no_load_empty c cap i s' :
  (forall n1 n2 t, loadConfig cap i <> Ok (Some n1, Some n2, Some t)) ->
  new c cap i = Ok s' -> d_table s' = [].
Proof.
  intros Hno H.
  destruct (new_cases c cap i) as [[_ E]|[(Hok & _ & E)|[(Hok & _ & E)|(Hok & n1 & n2 & t & HL & _)]]];
    try (rewrite E in H; try discriminate).
  - destruct (reset_inv _ _ H) as (_ & _ & Ht). exact Ht.
  - exfalso. eapply Hno; eauto.
Qed.

Lemma new_noleases_empty c cap st d s' : d_leases d = [] -> new c cap (Doc st d) = Ok s' -> d_table s' = [].
Proof.
  intros Hd H.
  destruct (new_cases c cap (Doc st d)) as [[_ E]|[(Hok & _ & E)|[(Hok & _ & E)|(Hok & n1 & n2 & t & HL & _ & _ & E)]]];
    rewrite E in H; try discriminate.
  - destruct (reset_inv _ _ H) as (_ & _ & Ht). exact Ht.
  - inversion H; subst; simpl.
    destruct (loadConfig_inv _ _ _ _ _ HL) as (st' & d' & Ei & Hl). inversion Ei; subst.
    destruct (load_inv _ _ _ _ _ Hl) as (_ & _ & ->). rewrite Hd. reflexivity.
Qed.

Definition empty_doc : doc := {| d_net1 := None; d_net2 := None; d_leases := [] |}.

Section Oracle.
  (* The file system, the integrity line and gopkg.in/yaml.v2 as an oracle:
       print d = the text saveConfig writes for document d (checksum line + yaml.Marshal),
       read x  = what loadConfig makes of text x: ReadErr (unreadable / YAML error) or Doc verdict document. *)
  Variable text : Type.
  Variable print : doc -> text.
  Variable read : text -> input.
  Definition yaml_roundtrip : Prop := forall d, read (print d) = Doc SumOk d.

  (* loading the saved document itself (any integrity verdict but "mismatch") *)
  Lemma restart_core :
    forall c cap0 i0 s cap t ord st,
      st <> SumBad ->
      new c cap0 i0 = Ok s ->
      persistable (d_n1 s) t = true ->
      NoDup (map l_cid t) -> Permutation ord t ->
      exists s', new c cap (Doc st (save (d_n1 s) (d_n2 s) ord)) = Ok s'
                 /\ d_n1 s' = d_n1 s /\ d_n2 s' = d_n2 s
                 /\ d_table s' = map (restored cap (d_n2 s)) (save_leases ord)
                 /\ Permutation (bindings (d_table s')) (acked_bindings t).
  Proof.
    intros c cap0 i0 s cap t ord st Hst Hnew Hi Hnd Hp.
    destruct (new_stable _ _ _ _ Hnew) as (Hok & S1 & S2 & C1 & C2).
    pose proof (load_saved cap _ _ _ _ S1 S2 Hi Hnd Hp) as HL.
    unfold cfg_ok in Hok. apply andb_true_iff in Hok. destruct Hok as [Hv Hc].
    apply andb_true_iff in Hc. destruct Hc as [Hc Hb]. apply negb_true_iff in Hb.
    eexists. split.
    - unfold new. rewrite Hv, Hc, Hb. simpl.
      destruct st; [| |congruence]; rewrite HL; simpl; rewrite C1, C2; simpl; reflexivity.
    - simpl. repeat split; auto.
      rewrite bindings_restored. unfold acked_bindings.
      apply Permutation_map. apply Permutation_filter'. exact Hp.
  Qed.

  (* C18_restart: take ANY state [s] the constructor returned for configuration [c], let the lease table evolve
     to ANY table [t] with distinct keys (satisfying the server's invariant [persistable]), save
     it in ANY map order [ord], and construct again (the capture state [cap] of the session may have changed):
     the new handler carries the same subnets and exactly the acknowledged (client id, MAC, IP) bindings. *)
  Lemma restart_partial :
    yaml_roundtrip ->
    forall c cap0 i0 s cap t ord,
      new c cap0 i0 = Ok s ->
      persistable (d_n1 s) t = true ->
      NoDup (map l_cid t) -> Permutation ord t ->
      exists s', new c cap (read (print (save (d_n1 s) (d_n2 s) ord))) = Ok s'
                 /\ d_n1 s' = d_n1 s /\ d_n2 s' = d_n2 s
                 /\ d_table s' = map (restored cap (d_n2 s)) (save_leases ord)
                 /\ Permutation (bindings (d_table s')) (acked_bindings t).
  Proof.
    intros Hy c cap0 i0 s cap t ord Hnew Hi Hnd Hp. rewrite Hy.
    eapply restart_core; eauto. discriminate.
  Qed.

  (* ... and the restored RECORDS are the acknowledged ones field by field, the expiry included: a restart
     remembers the last acknowledged expiry of every lease *)
  Lemma restart_records :
    yaml_roundtrip ->
    forall c cap0 i0 s cap t ord,
      new c cap0 i0 = Ok s ->
      persistable (d_n1 s) t = true ->
      NoDup (map l_cid t) -> Permutation ord t ->
      exists s', new c cap (read (print (save (d_n1 s) (d_n2 s) ord))) = Ok s'
                 /\ Permutation (map l_rec (d_table s')) (map l_rec (filter allocated t)).
  Proof.
    intros Hy c cap0 i0 s cap t ord Hnew Hi Hnd Hp.
    destruct (restart_partial Hy c cap0 i0 s cap t ord Hnew Hi Hnd Hp) as (s' & E & _ & _ & Et & _).
    exists s'. split; auto. rewrite Et, map_map. unfold save_leases. simpl.
    rewrite map_id. apply Permutation_map. apply Permutation_filter'. exact Hp.
  Qed.

  (* The crash-point / corruption clause.  [dmg x y]: text x is a damaged version of text y (the damage model:
     truncation at a byte offset, substitution, line deletion/duplication ... whatever the integrity line is
     trusted to detect).  [checksum_detects]: reading a damaged version of a saved file gives an error, or a
     checksum mismatch, or the original document (damage confined to the checksum line itself), or — when so
     little is left that there is no checksum line — a document without leases. *)
  Variable dmg : text -> text -> Prop.
  Definition checksum_detects : Prop :=
    forall d x, dmg x (print d) ->
      read x = ReadErr
      \/ (exists d', read x = Doc SumBad d')
      \/ (exists st, st <> SumBad /\ read x = Doc st d)
      \/ (exists d', read x = Doc SumAbsent d' /\ d_leases d' = []).

  Lemma damaged_intact_or_empty :
    checksum_detects ->
    forall c cap0 i0 s cap t ord x,
      new c cap0 i0 = Ok s ->
      persistable (d_n1 s) t = true ->
      NoDup (map l_cid t) -> Permutation ord t ->
      dmg x (print (save (d_n1 s) (d_n2 s) ord)) ->
      (exists s', new c cap (read x) = Ok s' /\ Permutation (bindings (d_table s')) (acked_bindings t))
      \/ (forall s', new c cap (read x) = Ok s' -> d_table s' = []).
  Proof.
    intros Hd c cap0 i0 s cap t ord x Hnew Hi Hnd Hp Hx.
    destruct (Hd _ _ Hx) as [E|[[d' E]|[[st [Hst E]]|[d' [E Hl]]]]]; rewrite E.
    - right. intros s'. apply new_no_load_empty. intros n1 n2 t0. simpl. discriminate.
    - right. intros s'. apply new_no_load_empty. intros n1 n2 t0. simpl. discriminate.
    - left. destruct (restart_core c cap0 i0 s cap t ord st Hst Hnew Hi Hnd Hp) as (s' & H1 & _ & _ & _ & H5).
      exists s'. auto.
    - right. intros s'. apply new_noleases_empty. exact Hl.
  Qed.
End Oracle.

(* the invariant cannot be dropped: an Allocated lease with an empty client id, or with an address outside net1,
   is saved and then dropped by the validation.  The oracle is instantiated by the identity. *)
Definition ex_rec_nocid : lease_rec :=
  {| r_cid := []; r_state := 2%Z; r_mac := [2; 0; 0; 0; 0; 1]; r_ip := A4 3232235532; r_expiry := 1000%Z |}.
Definition ex_rec_offnet : lease_rec :=
  {| r_cid := [7]; r_state := 2%Z; r_mac := [2; 0; 0; 0; 0; 2]; r_ip := A4 167772161; r_expiry := 1000%Z |}.

Lemma restart_needs_invariant :
  forall r, r = ex_rec_nocid \/ r = ex_rec_offnet ->
  exists c s t,
    t = [{| l_rec := r; l_sub := 1 |}]
    /\ new c (fun _ => false) ReadErr = Ok s /\ NoDup (map l_cid t)
    /\ persistable (d_n1 s) t = false
    /\ exists s', new c (fun _ => false) (Doc SumOk (save (d_n1 s) (d_n2 s) t)) = Ok s'
                  /\ ~ Permutation (bindings (d_table s')) (acked_bindings t).
Proof.
  intros r Hr. exists ex_cfg.
  destruct (new ex_cfg (fun _ => false) ReadErr) as [s| | |] eqn:E; try (vm_compute in E; discriminate).
  exists s, [{| l_rec := r; l_sub := 1 |}].
  vm_compute in E. inversion E; subst s; clear E.
  split; [reflexivity|]. split; [reflexivity|].
  split; [repeat constructor; simpl; intuition|].
  destruct Hr as [->| ->].
  - split; [vm_compute; reflexivity|].
    eexists. split; [vm_compute; reflexivity|].
    intros HP. apply Permutation_nil in HP. discriminate.
  - split; [vm_compute; reflexivity|].
    eexists. split; [vm_compute; reflexivity|].
    intros HP. apply Permutation_nil in HP. discriminate.
Qed.

Example restart_nonvacuous :
  exists s, new ex_cfg (fun _ => false) ReadErr = Ok s
    /\ persistable (d_n1 s) [{| l_rec := ex_rec; l_sub := 1 |}] = true
    /\ acked_bindings [{| l_rec := ex_rec; l_sub := 1 |}] <> [].
Proof.
  destruct (new ex_cfg (fun _ => false) ReadErr) as [s| | |] eqn:E; try (vm_compute in E; discriminate).
  exists s. vm_compute in E. inversion E; subst; clear E.
  split; [reflexivity|]. split; [vm_compute; reflexivity|discriminate].
Qed.

(* ---------------------------------------------------------------- *)
(* what a constructed table can contain, for ANY input (damaged files included) *)

Lemma contains_pmasked p x : contains (pmasked p) x = contains p x.
Proof.
  destruct p as [|[|n|v z] b]; simpl; auto.
  - apply contains_masked4.
  - unfold contains; simpl. destruct x as [|m|w y]; auto. destruct y; auto. rewrite maskw_div. reflexivity.
Qed.

Lemma new_table_filters c cap i s : new c cap i = Ok s ->
  forall l, In l (d_table s) ->
    allocated l = true
    /\ r_cid (l_rec l) <> []
    /\ (exists st d, i = Doc st d /\ st <> SumBad /\ In (l_rec l) (d_leases d))
    /\ contains (c_home c) (r_ip (l_rec l)) = true.
Proof.
  intros H l Hin.
  destruct (new_cases c cap i) as [[_ E]|[(Hok & _ & E)|[(Hok & _ & E)|(Hok & n1 & n2 & t & HL & C1 & C2 & E)]]];
    rewrite E in H; try discriminate.
  - destruct (reset_inv _ _ H) as (_ & _ & Ht). rewrite Ht in Hin. destruct Hin.
  - inversion H; subst; simpl in *.
    destruct (loadConfig_inv _ _ _ _ _ HL) as (st & d & -> & Hl).
    destruct (load_filters _ _ _ _ _ Hl l Hin) as (Ha & Hc & Hcid & Hdoc).
    repeat split; auto.
    + exists st, d. repeat split; auto. intros ->. simpl in HL. discriminate.
    + (* configChanged false: the loaded net1 is exactly the masked home LAN *)
      unfold configChanged in C1. repeat (apply orb_false_iff in C1; destruct C1 as [C1 ?]).
      apply negb_false_iff in C1. apply prefix_eqb_eq in C1. simpl in C1.
      rewrite <- C1, contains_pmasked in Hc. exact Hc.
Qed.

(* ---------------------------------------------------------------- *)
(* a constructed state is a fixed point of save -> print -> parse -> construct (no recorded class involved) *)

Lemma tinsert_keys x t : forall k, In k (map l_cid (tinsert x t)) -> k = l_cid x \/ In k (map l_cid t).
Proof.
  induction t as [|y t IH]; simpl; intros k H.
  - destruct H as [<-|[]]. auto.
  - destruct (bytes_eqb (l_cid y) (l_cid x)) eqn:E; simpl in H.
    + apply bytes_eqb_eq in E. destruct H as [<-|H]; auto.
    + destruct H as [<-|H]; auto. destruct (IH k H); auto.
Qed.

Lemma tinsert_NoDup x t : NoDup (map l_cid t) -> NoDup (map l_cid (tinsert x t)).
Proof.
  induction t as [|y t IH]; simpl; intros H.
  - constructor; [intros []|constructor].
  - inversion H as [|? ? Hy Ht]; subst.
    destruct (bytes_eqb (l_cid y) (l_cid x)) eqn:E; simpl.
    + apply bytes_eqb_eq in E. constructor; [rewrite <- E; exact Hy|exact Ht].
    + constructor; [|apply IH; exact Ht].
      intros Hin. destruct (tinsert_keys _ _ _ Hin) as [Ek|Hk]; [|contradiction].
      apply bytes_eqb_neq in E. contradiction.
Qed.

Lemma load_loop_NoDup cap s1 s2 rs : forall tt,
  NoDup (map l_cid tt) -> NoDup (map l_cid (load_loop cap s1 s2 rs tt)).
Proof.
  induction rs as [|v rest IH]; intros tt H; simpl; auto.
  repeat match goal with
         | |- context [if ?x then _ else _] => destruct x
         | |- context [match r_cid v with _ => _ end] => destruct (r_cid v)
         end; auto; apply IH; apply tinsert_NoDup; exact H.
Qed.

Lemma contains_avalid p x : contains p x = true -> avalid x = true.
Proof.
  unfold contains. destruct p as [|[|n|v z] b], x as [|m|w y]; simpl; rewrite ?andb_false_r; try discriminate; reflexivity.
Qed.

Lemma existsb_false {A} (f : A -> bool) l : (forall x, In x l -> f x = false) -> existsb f l = false.
Proof.
  induction l as [|y l IH]; simpl; intros H; auto.
  rewrite (H y (or_introl eq_refl)). simpl. apply IH. intros x Hx. apply H. right. exact Hx.
Qed.

Lemma filter_all {A} (p : A -> bool) l : (forall x, In x l -> p x = true) -> filter p l = l.
Proof.
  induction l as [|y l IH]; simpl; intros H; auto.
  rewrite (H y (or_introl eq_refl)). f_equal. apply IH. intros x Hx. apply H. right. exact Hx.
Qed.

(* the table of every constructed state has distinct keys, only Allocated leases, and is outside the
   recorded restart class with respect to its own net1 *)
Lemma new_table_wf c cap i s : new c cap i = Ok s ->
  NoDup (map l_cid (d_table s))
  /\ (forall l, In l (d_table s) -> allocated l = true)
  /\ persistable (d_n1 s) (d_table s) = true.
Proof.
  intros H.
  destruct (new_cases c cap i) as [[_ E]|[(Hok & _ & E)|[(Hok & _ & E)|(Hok & n1 & n2 & t & HL & C1 & C2 & E)]]];
    rewrite E in H; try discriminate.
  - destruct (reset_inv _ _ H) as (_ & _ & Ht). rewrite Ht. simpl. repeat split; [constructor|intros l []].
  - inversion H; subst; simpl.
    destruct (loadConfig_inv _ _ _ _ _ HL) as (st & d & -> & Hl).
    pose proof (load_filters _ _ _ _ _ Hl) as HF.
    destruct (load_inv _ _ _ _ _ Hl) as (_ & _ & ->).
    repeat split.
    + apply load_loop_NoDup. constructor.
    + intros l Hin. apply (HF l Hin).
    + unfold persistable. apply forallb_forall. intros l Hin.
      destruct (HF l Hin) as (Ha & Hc & Hcid & _).
      rewrite Ha, Hc. simpl.
      assert (Hv : avalid (r_ip (l_rec l)) = true) by (eapply contains_avalid; eauto).
      rewrite Hv. simpl.
      destruct (r_cid (l_rec l)) as [|x xs]; [contradiction|reflexivity].
Qed.

Section Oracle2.
  Variable text : Type.
  Variable print : doc -> text.
  Variable read : text -> input.

  (* C18_restart_fixpoint (full strength): whatever the first input was (missing file, YAML error, checksum
     mismatch, ANY document), saving the constructed state and constructing again gives the same subnets and
     the same bindings. *)
  Lemma restart_fixpoint :
    yaml_roundtrip text print read ->
    forall c cap0 i0 s cap,
      new c cap0 i0 = Ok s ->
      exists s', new c cap (read (print (save (d_n1 s) (d_n2 s) (d_table s)))) = Ok s'
                 /\ d_n1 s' = d_n1 s /\ d_n2 s' = d_n2 s
                 /\ bindings (d_table s') = bindings (d_table s).
  Proof.
    intros Hy c cap0 i0 s cap Hnew.
    destruct (new_table_wf _ _ _ _ Hnew) as (Hnd & Hall & Hi).
    destruct (restart_partial text print read Hy c cap0 i0 s cap (d_table s) (d_table s) Hnew Hi Hnd (Permutation_refl _))
      as (s' & E & E1 & E2 & Et & _).
    exists s'. repeat split; auto.
    rewrite Et, bindings_restored. unfold acked_bindings. rewrite (filter_all _ _ Hall). reflexivity.
  Qed.
End Oracle2.
