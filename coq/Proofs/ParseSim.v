(* Proofs/ParseSim.v — capacity independence: two well-formed slices with the same bytes within the same
   length give the same Parse result (for every slice, after the repair of layer_frame.go:240). *)
From PV Require Import Base.Prelude Base.Slice Model.Parse Spec.RFC Model.ParseKnown Proofs.Parse.
Open Scope N_scope.
Open Scope res_scope.

(* ---------- two slices with the same bytes within the same length ---------- *)
Record sim (x y : slice) : Prop := mkSim
  { sim_len : len y = len x; sim_view : view y = view x; sim_wfx : wf x; sim_wfy : wf y }.

Lemma sim_nth x y i : sim x y -> (i < len x)%nat -> nth i (arr y) 0 = nth i (arr x) 0.
Proof.
  intros [Hl Hv _ _] Hi. rewrite <- (view_nth x i Hi), <- (view_nth y i) by lia. rewrite Hv. reflexivity.
Qed.

Lemma sim_idx x y i : sim x y -> idx y i = idx x i.
Proof.
  intros Hs. unfold idx. rewrite (sim_len _ _ Hs).
  destruct (Nat.ltb_spec i (len x)); [|reflexivity]. rewrite (sim_nth _ _ _ Hs) by lia. reflexivity.
Qed.

Lemma sim_be16 x y a : sim x y -> (a + 2 <= len x)%nat -> be16_at y a = be16_at x a.
Proof.
  intros Hs Ha. pose proof (sim_wfx _ _ Hs). pose proof (sim_wfy _ _ Hs). pose proof (sim_len _ _ Hs).
  rewrite !be16_at_ok by (unfold wf in *; lia).
  rewrite !(sim_nth _ _ _ Hs) by lia. reflexivity.
Qed.

Lemma firstn_skipn_firstn {A} (l : list A) k a n :
  (a + k <= n)%nat -> firstn k (skipn a (firstn n l)) = firstn k (skipn a l).
Proof.
  revert a n k. induction l as [|x xs IH]; intros a n k H.
  - rewrite firstn_nil. reflexivity.
  - destruct n as [|n].
    + assert (a = 0%nat) by lia. assert (k = 0%nat) by lia. subst. reflexivity.
    + destruct a as [|a].
      * cbn [skipn]. rewrite firstn_firstn. f_equal. lia.
      * cbn [firstn skipn]. apply IH. lia.
Qed.

Lemma sim_bytes_at x y a b : sim x y -> (b <= len x)%nat -> bytes_at y a b = bytes_at x a b.
Proof.
  intros Hs Hb. pose proof (sim_wfx _ _ Hs). pose proof (sim_wfy _ _ Hs). pose proof (sim_len _ _ Hs).
  unfold bytes_at, sl. destruct (Nat.leb_spec a b); cbn [andb]; [|reflexivity].
  unfold wf in *. destruct (Nat.leb_spec b (cap x)); [|lia]. destruct (Nat.leb_spec b (cap y)); [|lia].
  cbn [bind]. f_equal.
  change (firstn (b - a) (skipn a (arr y)) = firstn (b - a) (skipn a (arr x))).
  rewrite <- (firstn_skipn_firstn (arr y) (b - a) a (len y)) by lia.
  rewrite <- (firstn_skipn_firstn (arr x) (b - a) a (len x)) by lia.
  fold (view x). fold (view y). rewrite (sim_view _ _ Hs). reflexivity.
Qed.

Lemma skipn_firstn_sub {A} (l : list A) a n : skipn a (firstn n l) = firstn (n - a) (skipn a l).
Proof.
  revert a n. induction l as [|x xs IH]; intros a n.
  - rewrite firstn_nil, !skipn_nil, firstn_nil. reflexivity.
  - destruct n as [|n]; [cbn; rewrite skipn_nil; reflexivity|].
    destruct a as [|a]; [reflexivity|]. cbn [firstn skipn Nat.sub]. apply IH.
Qed.

Lemma sim_slfrom x y a : sim x y -> (a <= len x)%nat ->
  sim (mkSlice (skipn a (arr x)) (len x - a)) (mkSlice (skipn a (arr y)) (len x - a)).
Proof.
  intros Hs Ha. pose proof (sim_wfx _ _ Hs). pose proof (sim_wfy _ _ Hs). pose proof (sim_len _ _ Hs).
  constructor; cbn [len arr]; try reflexivity.
  - unfold view. cbn [arr len]. rewrite <- !skipn_firstn_sub. fold (view x).
    replace (firstn (len x) (arr y)) with (view y) by (unfold view; congruence).
    rewrite (sim_view _ _ Hs). reflexivity.
  - unfold wf, cap in *. cbn [arr len]. rewrite skipn_length. lia.
  - unfold wf, cap in *. cbn [arr len]. rewrite skipn_length. lia.
Qed.

Lemma sim_refl x : wf x -> sim x x.
Proof. intros; constructor; auto. Qed.

Lemma sim_canon s : wf s -> sim s (of_bytes (view s)).
Proof.
  intros H. constructor; auto.
  - cbn. apply view_length. exact H.
  - unfold view, of_bytes. cbn [arr len]. rewrite firstn_length. unfold wf, cap in H.
    rewrite Nat.min_l by lia. rewrite firstn_firstn. f_equal. lia.
  - unfold wf, cap, of_bytes. cbn. lia.
Qed.

Ltac simstep Hs :=
  first [ rewrite (sim_idx _ _ _ Hs)
        | rewrite (sim_be16 _ _ _ Hs) by (cbn [len]; lia)
        | rewrite (sim_bytes_at _ _ _ _ Hs) by (cbn [len]; lia) ].

Ltac walk Hs :=
  repeat (cbn [bind len]; try reflexivity;
          first [ simstep Hs
                | rd
                | match goal with
                  | |- context [if Nat.leb ?a ?b then _ else _] => destruct (Nat.leb_spec a b)
                  | |- context [if Nat.ltb ?a ?b then _ else _] => destruct (Nat.ltb_spec a b)
                  end
                | match goal with
                  | |- context [if ?c then _ else _] => destruct c
                  end ]).

Lemma payload_view_sim s s' f : sim s s' -> (0 < f_offP f)%nat -> (f_offP f <= len s)%nat ->
  payload_view s' f = Ok (mkSlice (skipn (f_offP f) (arr s')) (len s - f_offP f)).
Proof.
  intros Hs H0 H1. rewrite payload_view_pos by (rewrite ?(sim_len _ _ Hs); lia).
  rewrite (sim_len _ _ Hs). reflexivity.
Qed.

(* the echo condition reads IP header bytes, all within the length once the IP layer was validated *)
Definition hdr_in (s : slice) (f : frame) : Prop :=
  (f_off4 f = 0%nat \/ f_off4 f + 20 <= len s)%nat /\ (f_off6 f = 0%nat \/ f_off6 f + 40 <= len s)%nat.

Lemma sim_echo_gate s s' f id : sim s s' -> hdr_in s f -> echo_gate s' f id = echo_gate s f id.
Proof.
  intros Hs [H4 H6]. unfold echo_gate. destruct (id =? PayloadICMP4).
  - destruct (Nat.eqb_spec (f_off4 f) 0) as [E|E]; [rewrite E; cbn [negb andb]; reflexivity|].
    destruct H4 as [H4|H4]; [contradiction|].
    rewrite !(sim_nth _ _ _ Hs) by lia. reflexivity.
  - destruct (Nat.eqb_spec (f_off6 f) 0) as [E|E]; [rewrite E; cbn [negb andb]; reflexivity|].
    destruct H6 as [H6|H6]; [contradiction|].
    rewrite !(sim_nth _ _ _ Hs) by lia. reflexivity.
Qed.

Lemma parse_proto_sim fx s s' f proto :
  sim s s' -> (0 < f_offP f)%nat -> (f_offP f <= len s)%nat -> hdr_in s f ->
  parse_proto fx s' f proto = parse_proto fx s f proto.
Proof.
  intros Hs H0 H1 Hh. pose proof (sim_slfrom _ _ _ Hs H1) as Hp.
  rewrite !parse_proto_chain_eq. unfold parse_proto_chain.
  rewrite !(sim_echo_gate s s' f _ Hs Hh).
  repeat match goal with |- context [if ?c then _ else _] => destruct c end; try reflexivity;
  rewrite (payload_view_sim s s') by (cbn; auto); rewrite (payload_view_pos s) by (cbn; auto);
  cbn [f_offP set_id] in *;
  unfold udp_is_valid, tcp_is_valid, icmp_is_valid, src_port, dst_port, icmp_type, echo_id;
  walk Hp.
Qed.

Lemma parse_ip4_sim c s s' f :
  sim s s' -> f_offP f = 14%nat -> (14 <= len s)%nat -> parse_ip4 c s' f = parse_ip4 c s f.
Proof.
  intros Hs H0 H1. assert (H1' : (14 <= len s)%nat) by exact H1. pose proof (sim_slfrom _ _ 14 Hs H1') as Hp.
  pose proof (sim_wfx _ _ Hs) as Hwf.
  unfold parse_ip4.
  rewrite (payload_view_sim s s') by (cbn; auto; lia). rewrite (payload_view_pos s) by (cbn; auto; lia).
  cbn [f_offP set_id]. rewrite H0.
  unfold ip4_is_valid, ip4_ihl, ip4_totallen, ip4_protocol, ip4_src, ip4_dst.
  cbn [bind len].
  destruct (Nat.leb_spec 20 (len s - 14)); cbn [bind]; [|reflexivity].
  repeat simstep Hp. repeat (rd; cbn [bind]).
  dcond; cbn [bind]; [|reflexivity].
  repeat simstep Hp. repeat (rd; cbn [bind]).
  dcond; cbn [bind]; [|reflexivity].
  repeat simstep Hp. repeat (rd; cbn [bind]).
  unfold bytes_at. repeat (rd; cbn [bind]).
  apply parse_proto_sim; cbn [f_offP]; auto; try lia; unfold hdr_in; cbn [f_off4 f_off6]; lia.
Qed.

Lemma parse_ip6_sim c s s' f :
  sim s s' -> f_offP f = 14%nat -> (14 <= len s)%nat -> parse_ip6 c s' f = parse_ip6 c s f.
Proof.
  intros Hs H0 H1. assert (H1' : (14 <= len s)%nat) by exact H1. pose proof (sim_slfrom _ _ 14 Hs H1') as Hp.
  pose proof (sim_wfx _ _ Hs) as Hwf.
  unfold parse_ip6.
  rewrite (payload_view_sim s s') by (cbn; auto; lia). rewrite (payload_view_pos s) by (cbn; auto; lia).
  cbn [f_offP set_id]. rewrite H0.
  unfold ip6_is_valid, ip6_next_header, ip6_src, ip6_dst.
  cbn [bind len].
  destruct (Nat.leb_spec 40 (len s - 14)); cbn [bind]; [|reflexivity].
  repeat simstep Hp. repeat (rd; cbn [bind]).
  match goal with |- context [if ?c then _ else _] => destruct c end; cbn [bind]; [|reflexivity].
  unfold bytes_at. repeat (rd; cbn [bind]).
  apply parse_proto_sim; cbn [f_offP]; auto; try lia; unfold hdr_in; cbn [f_off4 f_off6]; lia.
Qed.

Lemma parse_leaf_sim s s' f id : sim s s' -> (14 <= len s)%nat -> parse_leaf s' f id = parse_leaf s f id.
Proof.
  intros Hs H. unfold parse_leaf, ether_header_len, ether_type. rewrite (sim_be16 _ _ _ Hs) by lia. reflexivity.
Qed.

Lemma parse_arp_sim c s s' f :
  sim s s' -> f_offP f = 14%nat -> (14 <= len s)%nat -> parse_arp c s' f = parse_arp c s f.
Proof.
  intros Hs H0 H1. assert (H1' : (14 <= len s)%nat) by exact H1. pose proof (sim_slfrom _ _ 14 Hs H1') as Hp.
  pose proof (sim_wfx _ _ Hs) as Hwf.
  unfold parse_arp.
  rewrite (payload_view_sim s s') by (cbn; auto; lia). rewrite (payload_view_pos s) by (cbn; auto; lia).
  cbn [f_offP set_id]. rewrite H0. cbn [bind len].
  rewrite (sim_idx _ _ _ Hp).
  destruct (Nat.ltb_spec (len s - 14) 28) as [Hlt|Hge]; cbn [bind]; [reflexivity|].
  rewrite !(sim_bytes_at _ _ _ _ Hp) by (cbn [len]; lia). reflexivity.
Qed.

Theorem parse_sim c s s' : sim s s' -> parse c s' = parse c s.
Proof.
  intros Hs. pose proof (sim_wfx _ _ Hs) as Hwf. rewrite !parse_chain_eq. unfold parse_chain, ether_is_valid.
  rewrite (sim_len _ _ Hs).
  destruct (Nat.leb_spec 14 (len s)) as [Hlen|Hlen]; cbn [bind]; [|reflexivity].
  unfold ether_src, ether_dst, ether_header_len, ether_type.
  rewrite !(sim_bytes_at _ _ _ _ Hs) by lia. rewrite !(sim_be16 _ _ _ Hs) by lia.
  unfold bytes_at.
  repeat (rd; cbn [bind]). change (12 + 1)%nat with 13%nat.
  set (et := be16 (nth 12 (arr s) 0) (nth 13 (arr s) 0)) in *.
  match goal with |- context [if Nat.ltb ?a ?b then _ else _] => destruct (Nat.ltb_spec a b) end; [reflexivity|].
  destruct (is_unicast_mac _) eqn:Hu; cbn [negb]; [|reflexivity].
  destruct (et <? 1536); [reflexivity|].
  destruct (N.eqb_spec et 2048) as [E1|E1].
  { apply parse_ip4_sim; auto. }
  destruct (N.eqb_spec et 34525) as [E2|E2].
  { apply parse_ip6_sim; auto. }
  destruct (N.eqb_spec et 2054) as [E3|E3].
  { apply parse_arp_sim; auto. }
  repeat match goal with |- context [if ?c then _ else _] => destruct c end;
    try reflexivity; apply parse_leaf_sim; auto.
Qed.

(* the result depends only on the bytes within the length *)
Theorem parse_len_only c s s' :
  wf s -> wf s' -> len s = len s' -> view s = view s' -> parse c s = parse c s'.
Proof.
  intros H1 H2 H3 H4. symmetry. apply parse_sim. constructor; auto.
Qed.

Corollary parse_canon c s : wf s -> parse c s = parse c (of_bytes (view s)).
Proof. intros Hwf. symmetry. apply parse_sim. apply sim_canon; exact Hwf. Qed.

Example parse_len_only_nonvacuous :
  let s := of_bytes ex_arp28 in let s' := of_bytes_cap ex_arp28 [170;170;170] in
  wf s /\ wf s' /\ len s = len s' /\ view s = view s' /\
  (cap s <> cap s')%nat /\ is_ok (parse cfg0 s) = true.
Proof. vm_compute. repeat split; try lia; try reflexivity. Qed.

(* in particular the two side outputs: the echo id handed to echoNotify and the key handed to the host table *)
Corollary parse_side_outputs_len_only c s s' f f' :
  wf s -> wf s' -> len s = len s' -> view s = view s' -> parse c s = Ok f -> parse c s' = Ok f' ->
  f_echo f = f_echo f' /\ f_host f = f_host f'.
Proof.
  intros H1 H2 H3 H4 Hp Hp'. rewrite (parse_len_only c s s' H1 H2 H3 H4) in Hp. rewrite Hp in Hp'.
  injection Hp' as <-. split; reflexivity.
Qed.

(* echoNotify is reached only for an ICMP echo reply inside IPv4 with version nibble 4 (resp. ICMPv6 inside IPv6,
   version 6) whose 8 byte echo header lies inside the IP datagram *)
Definition ex_echo4 : bytes :=
  ([0;102;102;102;102;102; 2;17;17;17;17;17; 8;0] ++
   [69;0;0;28; 0;0;0;0; 64;1;0;0; 192;168;0;7; 192;168;0;129] ++ [0;0;0;0; 18;52; 0;1])%list.
Definition set_b (i : nat) (v : N) (l : bytes) : bytes := set_nth i v l.
Example echo_examples :
  (* echo reply inside IPv4: id 0x1234 *)
  option_map f_echo (match parse cfg1 (of_bytes ex_echo4) with Ok f => Some f | _ => None end) = Some (Some 4660) /\
  (* version nibble 5 *)
  option_map f_echo (match parse cfg1 (of_bytes (set_b 14 85 ex_echo4)) with Ok f => Some f | _ => None end) = Some None /\
  (* TotalLen 27: only 7 ICMP bytes inside the datagram, the 8th is a trailing byte of the frame *)
  option_map f_echo (match parse cfg1 (of_bytes (set_b 17 27 ex_echo4)) with Ok f => Some f | _ => None end) = Some None /\
  (* echo request (type 8) *)
  option_map f_echo (match parse cfg1 (of_bytes (set_b 34 8 ex_echo4)) with Ok f => Some f | _ => None end) = Some None /\
  (* ICMPv6 (protocol 58, type 129) inside IPv4: PayloadICMP6, no notification *)
  option_map (fun f => (f_id f, f_echo f))
    (match parse cfg1 (of_bytes (set_b 34 129 (set_b 23 58 ex_echo4))) with Ok f => Some f | _ => None end)
  = Some (PayloadICMP6, None).
Proof. repeat split; vm_compute; reflexivity. Qed.
