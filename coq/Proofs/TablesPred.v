(* Proofs/TablesPred.v — C04: the three host-creation predicates of layer_frame.go
   (as transcribed in Model/Tables.v, with net/netip's predicates restated from the
   stdlib source) coincide with the creation rule of the property text
   (Spec/HostTracking.v, address classes as ranges) on every well-formed frame summary. *)
From PV Require Import Base.Prelude Model.Tables Spec.HostTracking.
Open Scope N_scope.

Lemma even_mod2 x : N.even x = (x mod 2 =? 0).
Proof.
  destruct (N.even x) eqn:E.
  - apply N.even_spec in E. destruct E as [b ->]. symmetry. apply N.eqb_eq. lia.
  - assert (O : N.odd x = true) by (rewrite <- N.negb_even, E; reflexivity).
    apply N.odd_spec in O. destruct O as [b ->]. symmetry. apply N.eqb_neq. lia.
Qed.

Lemma unicast_agree m : mac_unicast m = unicast_mac m.
Proof. unfold mac_unicast, unicast_mac. rewrite even_mod2. reflexivity. Qed.

Lemma lxor_shift_eq a b n : (N.lxor a b / 2 ^ n =? 0) = (a / 2 ^ n =? b / 2 ^ n).
Proof.
  rewrite <- !N.shiftr_div_pow2. rewrite N.shiftr_lxor.
  destruct (N.shiftr a n =? N.shiftr b n) eqn:E.
  - apply N.eqb_eq in E. rewrite E, N.lxor_nilpotent. reflexivity.
  - apply N.eqb_neq in E. apply N.eqb_neq. intros H. apply N.lxor_eq in H. contradiction.
Qed.

Lemma lan_agree c a : lan_contains (lan_base c) (lan_bits c) (IP4 a) = in_home_lan c a.
Proof. unfold lan_contains, in_home_lan. apply lxor_shift_eq. Qed.

(* ---- bit tests of netip as ranges (finite sweeps) ---- *)
Definition stepF (P : N -> bool) (st : N * bool) : N * bool := (fst st + 1, snd st && P (fst st)).
Definition forallN (n : N) (P : N -> bool) : bool := snd (N.iter n (stepF P) (0, true)).

Lemma iter_fst n P st : fst (N.iter n (stepF P) st) = fst st + n.
Proof.
  induction n using N.peano_ind; [simpl; lia|].
  rewrite N.iter_succ. unfold stepF at 1. cbn [fst]. rewrite IHn. lia.
Qed.

Lemma forallN_succ n P : forallN (N.succ n) P = forallN n P && P n.
Proof.
  unfold forallN. rewrite N.iter_succ. unfold stepF at 1. cbn [snd]. rewrite iter_fst. reflexivity.
Qed.

Lemma forallN_spec n P : forallN n P = true -> forall x, x < n -> P x = true.
Proof.
  induction n using N.peano_ind; intros H x Hx; [lia|].
  rewrite forallN_succ in H. apply andb_prop in H. destruct H as [H1 H2].
  destruct (N.eq_dec x n); [subst; exact H2|]. apply IHn; auto. lia.
Qed.

Definition llu_test (x : N) : bool := Bool.eqb (N.land x 65472 =? 65152) (x / 64 =? 1018).
Lemma llu_sweep : forallN 65536 llu_test = true.
Proof. vm_compute. reflexivity. Qed.
Lemma llu_bits x : x < 65536 -> (N.land x 65472 =? 65152) = (x / 64 =? 1018).
Proof. intros H. apply Bool.eqb_prop. exact (forallN_spec _ _ llu_sweep x H). Qed.

Definition mc4_test (x : N) : bool := Bool.eqb (N.land x 240 =? 224) (x / 16 =? 14).
Lemma mc4_sweep : forallN 256 mc4_test = true.
Proof. vm_compute. reflexivity. Qed.
Lemma mc4_bits x : x < 256 -> (N.land x 240 =? 224) = (x / 16 =? 14).
Proof. intros H. apply Bool.eqb_prop. exact (forallN_spec _ _ mc4_sweep x H). Qed.

Ltac norm_pows :=
  repeat match goal with
  | |- context [2 ^ ?n] => let v := eval vm_compute in (2 ^ n) in change (2 ^ n) with v
  | H : context [2 ^ ?n] |- _ => let v := eval vm_compute in (2 ^ n) in change (2 ^ n) with v in H
  end.

Definition ip6_ok (a : N) : Prop := a < 2 ^ 128.

Lemma mapped_agree a : (a / 4294967296 =? 65535) = v6_mapped a.
Proof. unfold v6_mapped, in_range, mapped_base. lia. Qed.

Lemma hi16_lt a : ip6_ok a -> a / 2 ^ 112 < 65536.
Proof. unfold ip6_ok. norm_pows. intros H. lia. Qed.

Lemma llu6_range a : ip6_ok a ->
  (N.land (a / 2 ^ 112) 65472 =? 65152) = in_range (65152 * 2 ^ 112) (65216 * 2 ^ 112) a.
Proof.
  intros H. rewrite llu_bits by (apply hi16_lt; exact H). unfold in_range, ip6_ok in *. norm_pows. lia.
Qed.

Lemma llu_agree a : ip6_ok a -> is_llu (IP6 a) = v6_linklocal a.
Proof.
  intros H. unfold is_llu, unmap, is4in6, v6_linklocal. rewrite mapped_agree.
  destruct (v6_mapped a) eqn:M.
  - unfold v6_mapped, v4_linklocal, in_range, mapped_base in *. lia.
  - apply llu6_range. exact H.
Qed.

Lemma multicast_agree a : ip6_ok a -> is_multicast (IP6 a) = v6_multicast a.
Proof.
  intros H. unfold is_multicast, unmap, is4in6, v6_multicast. rewrite mapped_agree.
  destruct (v6_mapped a) eqn:M.
  - rewrite mc4_bits by lia. unfold v6_mapped, v4_multicast, in_range, mapped_base in *. lia.
  - unfold in_range, ip6_ok in *. norm_pows. lia.
Qed.

Lemma loopback_agree a : is_loopback (IP6 a) = v6_loopback a.
Proof.
  unfold is_loopback, unmap, is4in6, v6_loopback. rewrite mapped_agree.
  destruct (v6_mapped a) eqn:M; [|reflexivity].
  unfold v6_mapped, v4_loopback, in_range, mapped_base in *. lia.
Qed.

Lemma unmap_idem i : unmap (unmap i) = unmap i.
Proof.
  destruct i as [|x|x]; try reflexivity. unfold unmap.
  destruct (is4in6 (IP6 x)) eqn:E; [reflexivity|]. rewrite E. reflexivity.
Qed.

Lemma gua_agree a : ip6_ok a -> is_gua (IP6 a) = v6_global a.
Proof.
  intros H. unfold is_gua, v6_global.
  assert (LL : is_llu (unmap (IP6 a)) = v6_linklocal a).
  { rewrite <- (llu_agree a H). unfold is_llu. rewrite unmap_idem. reflexivity. }
  assert (MC : is_multicast (unmap (IP6 a)) = v6_multicast a).
  { rewrite <- (multicast_agree a H). unfold is_multicast. rewrite unmap_idem. reflexivity. }
  assert (LB : is_loopback (unmap (IP6 a)) = v6_loopback a).
  { rewrite <- (loopback_agree a). unfold is_loopback. rewrite unmap_idem. reflexivity. }
  rewrite LL, MC, LB. unfold unmap, is4in6. rewrite mapped_agree.
  destruct (v6_mapped a) eqn:M; simpl.
  - assert (A0 : (a =? 0) = false) by (unfold v6_mapped, in_range, mapped_base in M; lia).
    rewrite A0. simpl.
    assert (E1 : (a mod 4294967296 =? 0) = (a - mapped_base =? 0)) by (unfold v6_mapped, in_range, mapped_base in *; lia).
    assert (E2 : (a mod 4294967296 =? 4294967295) = (a - mapped_base =? 4294967295)) by (unfold v6_mapped, in_range, mapped_base in *; lia).
    rewrite E1, E2.
    destruct ((a - mapped_base =? 0) || (a - mapped_base =? 4294967295)); simpl; [|rewrite andb_true_r; reflexivity].
    destruct (v6_loopback a), (v6_multicast a), (v6_linklocal a); reflexivity.
  - rewrite andb_true_r. reflexivity.
Qed.

(* ---- the creation rule ---- *)
Definition fsum_wf (f : fsum) : Prop :=
  match f_class f, f_ip f with
  | FIP4, IP4 _ => True
  | FARP, IP4 _ => True
  | FIP6, IP6 a => ip6_ok a
  | FIP4, _ | FARP, _ | FIP6, _ => False
  | _, _ => True
  end.

Theorem event_agree c f : fsum_wf f -> host_event c f = ref_event c f.
Proof.
  unfold fsum_wf, host_event, ref_event. intros W. rewrite unicast_agree.
  destruct (unicast_mac (f_src f)); simpl; [|reflexivity].
  destruct (f_src f =? own_mac c); simpl.
  - destruct (f_class f); reflexivity.
  - destruct (f_class f); try reflexivity; destruct (f_ip f) as [|a|a]; try contradiction; try reflexivity.
    + rewrite lan_agree. reflexivity.
    + rewrite (llu_agree a W), (gua_agree a W). reflexivity.
    + rewrite lan_agree. reflexivity.
Qed.
