(* Proofs/AliasWhole.v — one inductive invariant over the operation list of the whole library model. *)
From PV Require Import Base.Prelude Base.Text Model.Alias Proofs.Alias Model.AliasHunt Model.AliasWhole.
Open Scope N_scope.
Open Scope list_scope.

Lemma estep_no_ref c w e : no_ref (w_state w) = true -> no_ref (w_state (estep c w e)) = true.
Proof. intros H. destruct (estep_sim c w e H) as [_ Hn]. exact Hn. Qed.

Lemma hunt_start_owned s buf frame st :
  forallb owned st = true -> forallb owned (hunt_start hunt6_copies s buf frame st) = true.
Proof.
  intros H. unfold hunt_start. destruct (existsb _ st); auto.
  rewrite forallb_app, H. reflexivity.
Qed.

Lemma hunt_stop_owned s mac st : forallb owned st = true -> forallb owned (hunt_stop s mac st) = true.
Proof. intros H. unfold hunt_stop. apply forallb_remove_first. exact H. Qed.

Lemma h4_start_ok s buf frame st : h4_ok st = true -> h4_ok (fst (h4_start hunt4_copies s buf frame st)) = true.
Proof.
  intros H. unfold h4_ok in *. apply andb_true_iff in H as [Hl Ho]. unfold h4_start.
  destruct (h4_has _ st); cbn [fst h4_list h4_loops]; [rewrite Hl, Ho; reflexivity|].
  rewrite !forallb_app, Hl, Ho. reflexivity.
Qed.

Lemma h4_stop_ok mac st : h4_ok st = true -> h4_ok (h4_stop mac st) = true.
Proof.
  intros H. unfold h4_ok in *. apply andb_true_iff in H as [Hl Ho]. unfold h4_stop; cbn [h4_list h4_loops].
  rewrite Ho. rewrite forallb_remove_first; auto.
Qed.

Lemma tick_fold_owned s st l : forall acc,
  forallb owned l = true -> forallb owned (fst acc) = true ->
  forallb owned (fst (fold_left (h4_tick1 s st) l acc)) = true.
Proof.
  induction l as [|v r IH]; intros acc Hl Ha; cbn [fold_left]; auto.
  cbn [forallb] in Hl. apply andb_true_iff in Hl as [Hv Hr]. apply IH; auto.
  unfold h4_tick1. destruct (h4_val _ st); cbn [fst]; auto.
  rewrite forallb_app, Ha. cbn [forallb]. rewrite Hv. reflexivity.
Qed.

Lemma h4_tick_ok s st : h4_ok st = true -> h4_ok (fst (h4_tick s st)) = true.
Proof.
  intros H. unfold h4_ok in *. apply andb_true_iff in H as [Hl Ho]. unfold h4_tick; cbn [fst h4_list h4_loops].
  rewrite Hl. cbn [andb]. apply tick_fold_owned; auto.
Qed.

Lemma wstep_no_view c w o : no_view w = true -> no_view (wstep c w o) = true.
Proof.
  intros H. unfold no_view in *. apply andb_true_iff in H as [H H4]. apply andb_true_iff in H as [Hm H6].
  destruct o; cbn [wstep ww_main ww_h6 ww_h4]; rewrite ?Hm, ?H6, ?H4; auto.
  - rewrite estep_no_ref by exact Hm. reflexivity.
  - rewrite hunt_start_owned by exact H6. reflexivity.
  - rewrite hunt_stop_owned by exact H6. reflexivity.
  - rewrite h4_start_ok by exact H4. reflexivity.
  - rewrite h4_stop_ok by exact H4. reflexivity.
  - rewrite h4_tick_ok by exact H4. reflexivity.
Qed.

(* THE invariant: after every history of the whole library (frames of every kind in any buffers, scribbles,
   session and handler calls, hunts started on frame views, stops, ticks) nothing reachable from retained
   state - tables of the session, of the DHCP / ICMPv6 / DNS handlers, both hunt lists, the ARP spoof loops -
   is a view of a caller's buffer *)
Theorem no_view_reachable c h : no_view (wrun c h) = true.
Proof.
  unfold wrun. assert (H0 : no_view (winit c) = true).
  { unfold no_view, winit; cbn [ww_main ww_h6 ww_h4 init_world w_state]. rewrite init_state_no_ref. reflexivity. }
  revert H0. generalize (winit c). induction h as [|o r IH]; intros w H; cbn [fold_left]; auto.
  apply IH. apply wstep_no_view. exact H.
Qed.

(* non-vacuity: a history touching all three parts *)
Definition ex_whole : list wop :=
  [WMain (ERecv 0 ex_arp KPlain); WMain (EScribble 0 (ex_scr 0));
   WHunt6Start 0 ex_arp; WHunt4Start 0 ex_arp; WMain (EScribble 0 (ex_scr 1)); WHunt4Tick; WHunt6Stop [2;0;0;0;0;1]].
Example ex_whole_runs :
  let w := wrun std_cfg ex_whole in
  List.length (st_hosts (w_state (ww_main w))) = 3%nat /\ List.length (h4_loops (ww_h4 w)) = 1%nat /\ ww_h6 w = [] /\ no_view w = true.
Proof. vm_compute. auto. Qed.
