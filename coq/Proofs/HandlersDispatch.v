(* Proofs/HandlersDispatch.v — the first sentence of C08 as ONE statement over raw frames:
   Session.Parse (PARSE: Model/Parse.v, theorems C01), then the switch on PayloadID that the
   applications (examples/) perform, then the processor of that protocol, never panics and
   terminates — for every byte string and capacity, every configuration of the session and
   every value of the state the processors branch on. *)
From PV Require Import Base.Prelude Base.Slice.
From PV Require Import Model.Parse Model.DNSRecords.
From PV Require Import Model.NDPOptions Model.MiscDecoders Model.HandlersLoop Model.HandlersDnsMsg Model.HandlersProc.
From PV Require Import Proofs.HandlersTac Proofs.Parse Proofs.ParseAcc Proofs.DNSRecords.
From PV Require Import Proofs.MiscDecoders Proofs.HandlersDnsMsg Proofs.HandlersProc.
Open Scope N_scope.

(* everything the processors read besides the payload bytes *)
Record proc_env := mkProcEnv {
  pe_arp : arp_env; pe_router : bytes; pe_lan : bytes -> bool;      (* arp_spoofer state, NICInfo *)
  pe_info4 : bool;                                                  (* icmp4 logger level *)
  pe_icmp6 : icmp6_env;                                             (* icmp_spoofer state *)
  pe_dhcp_reply : dhcp_reply; pe_dhcp_info : bool;                  (* lease table decision *)
  pe_lbl : bytes -> bool;                                           (* puny label validation *)
  pe_dns_table : dns_table;                                         (* DNSHandler.DNSTable *)
  pe_dns_view : slice -> dmsg;       (* what dnsmessage.Parser reports for a payload (any function) *)
  pe_ssdp_view : slice -> ssdp_view  (* what net/http reports for a payload (any function) *)
}.

(* the dispatch of examples/*: switch frame.PayloadID *)
Definition process_by_id (e : proc_env) (fuel : nat) (ip6 : option slice) (f : frame) (p : slice) : res unit :=
  let id := f_id f in
  if id =? PayloadARP then arp_process (pe_arp e) (pe_router e) (pe_lan e) p
  else if id =? PayloadICMP4 then icmp4_process (pe_info4 e) p
  else if id =? PayloadICMP6 then icmp6_process (pe_lbl e) fuel (pe_icmp6 e) ip6 p   (* pkt.IP6(): nil for ICMPv6 in IPv4 *)
  else if id =? PayloadDHCP4 then
    dhcp4_process fuel (mkDhcpEnv (a_port (f_dst f) =? 68) (pe_dhcp_reply e) (pe_dhcp_info e)) p
  else if id =? PayloadDNS then bind (fst (processDNS (pe_dns_table e) p)) (fun _ => Ok tt)
  else if (id =? PayloadMDNS) || (id =? PayloadLLMNR) then
    let m := pe_dns_view e p in process_mdns (2 * List.length (m_recs m) + 8) m
  else if id =? PayloadNBNS then
    let m := pe_dns_view e p in process_nbns (2 * List.length (m_recs m) + 4) (negb (Nat.ltb (len p) 12)) m
  else if id =? PayloadSSDP then process_ssdp (pe_ssdp_view e p)
  else if id =? Payload8023 then process_8023 p
  else if id =? PayloadLLDP then lldp_process fuel p 3
  else Ok tt.                                  (* no processor for the other classes *)

Definition receive (e : proc_env) (fuel : nat) (c : cfg) (s : slice) : res unit :=
  (f <- parse c s ;; p <- payload_view s f ;; ip6 <- frame_ip6 s f ;; process_by_id e fuel ip6 f p)%res.

Lemma process_by_id_total e f ip6 p : wf p -> wf (ip6_view ip6) ->
  forall fuel, (len p < fuel)%nat -> safe (process_by_id e fuel ip6 f p).
Proof.
  intros Hw Hw6 fuel Hf. unfold process_by_id.
  destruct (f_id f =? PayloadARP); [apply arp_process_total; exact Hw|].
  destruct (f_id f =? PayloadICMP4); [apply icmp4_process_total; exact Hw|].
  destruct (f_id f =? PayloadICMP6); [apply icmp6_process_total; assumption|].
  destruct (f_id f =? PayloadDHCP4); [apply dhcp4_process_total; assumption|].
  destruct (f_id f =? PayloadDNS).
  { apply safe_bind; [apply processDNS_total; exact Hw|intros; sdone]. }
  destruct ((f_id f =? PayloadMDNS) || (f_id f =? PayloadLLMNR)); [apply process_mdns_total; lia|].
  destruct (f_id f =? PayloadNBNS); [apply process_nbns_total; lia|].
  destruct (f_id f =? PayloadSSDP); [apply process_ssdp_total|].
  destruct (f_id f =? Payload8023); [apply process_8023_total; exact Hw|].
  destruct (f_id f =? PayloadLLDP); [apply lldp_process_total; assumption|].
  sdone.
Qed.

(* the payload view handed to the processor is a well-formed slice inside the frame *)
Lemma payload_view_wf c s f : wf s -> parse c s = Ok f ->
  exists p, payload_view s f = Ok p /\ wf p /\ (len p <= len s)%nat.
Proof.
  intros Hw Hp. destruct (frame_accessors_safe c s f Hw Hp) as (_ & _ & _ & _ & _ & Hpl).
  unfold payload_view. destruct Hpl as [E|(off & Ho & E)]; rewrite E; cbn [bind].
  - exists nil_slice. split; [reflexivity|]. split; [unfold wf, cap, nil_slice; cbn; lia|cbn; lia].
  - eexists. split; [reflexivity|]. split; [slen|cbn [len]; lia].
Qed.

Theorem dispatch_total e c s : wf s ->
  forall fuel, (len s < fuel)%nat -> safe (receive e fuel c s).
Proof.
  intros Hw fuel Hf. unfold receive.
  apply safe_bind; [apply parse_no_panic; exact Hw|]. intros f Hp.
  destruct (payload_view_wf c s f Hw Hp) as (p & -> & Hwp & Hl). cbn [bind].
  destruct (frame_accessors_safe c s f Hw Hp) as (_ & _ & H6 & _).
  destruct H6 as [E|(off & Ho & E)]; rewrite E; cbn [bind].
  - apply process_by_id_total; [exact Hwp|unfold wf, cap; cbn; lia|lia].
  - apply process_by_id_total; [exact Hwp|cbn [ip6_view]; slen|lia].
Qed.

(* non-vacuity: an ARP request frame is parsed, classified PayloadARP and processed *)
Definition ex_env : proc_env :=
  mkProcEnv (mkArpEnv false true true true) [192; 168; 0; 11] (fun _ => true) true
            (mkIcmp6Env true true true) RNak true (fun _ => true) [] 
            (fun _ => mkMsg true true true 0 0 0 []) (fun _ => mkSsdp 0 false 0 false [] false false).

Example dispatch_nonvacuous :
  wf (of_bytes ex_arp28) /\
  (exists f, parse cfg0 (of_bytes ex_arp28) = Ok f /\ f_id f = PayloadARP) /\
  receive ex_env 100 cfg0 (of_bytes ex_arp28) = Ok tt.
Proof.
  split; [unfold wf, cap; cbn; lia|]. split; [eexists; split; vm_compute; reflexivity|].
  vm_compute. reflexivity.
Qed.

(* the frame ALIAS found: Ethernet / IPv4 with protocol 58 is classified PayloadICMP6 without an
   IPv6 header; the dispatcher hands it to the ICMPv6 processor, which (d9f9e28) returns an error *)
Definition ex_icmp6_in_ip4 : bytes :=
  [2;0;0;0;0;1; 0;102;102;102;102;102; 8;0; 69;0;0;36; 0;0;0;0; 64;58; 0;0; 192;168;0;50; 192;168;0;129;
   135;0;0;0; 0;0;0;0; 254;128;0;0;0;0;0;0].
Example dispatch_icmp6_in_ip4 :
  (exists f, parse cfg0 (of_bytes ex_icmp6_in_ip4) = Ok f /\ f_id f = PayloadICMP6 /\ f_off6 f = 0%nat) /\
  receive ex_env 100 cfg0 (of_bytes ex_icmp6_in_ip4) = Err EFrameLen.
Proof. split; [eexists; repeat split; vm_compute; reflexivity|vm_compute; reflexivity]. Qed.
