(* Proofs/Alias.v — C10: (1) NoRef is an invariant of every history (one
   preservation lemma per retention point / table operation); (2) on a NoRef
   state every library step and every observation is independent of the
   buffer store and of the buffer the frame arrived in; (3) hence the
   transcript of a history depends only on its packet-level projection:
   scribbling over / reusing receive buffers is unobservable. *)
From PV Require Import Base.Prelude Base.Text Model.Alias.
Open Scope N_scope.
Open Scope list_scope.

(* ---------------------------------------------------------------- *)
(* generic list facts *)

Lemma forallb_remove_first {A} (p q : A -> bool) l :
  forallb p l = true -> forallb p (remove_first q l) = true.
Proof.
  induction l as [|x r IH]; simpl; auto.
  intros H. apply andb_true_iff in H as [Hx Hr].
  destruct (q x); simpl; auto. rewrite Hx. simpl. auto.
Qed.

Lemma forallb_map_id {A} (p : A -> bool) (f : A -> A) l :
  (forall x, p x = true -> p (f x) = true) -> forallb p l = true -> forallb p (map f l) = true.
Proof.
  intros Hf. induction l as [|x r IH]; simpl; auto.
  intros H. apply andb_true_iff in H as [Hx Hr]. rewrite Hf by auto. simpl. auto.
Qed.

Lemma forallb_snoc {A} (p : A -> bool) l x :
  forallb p l = true -> p x = true -> forallb p (l ++ [x]) = true.
Proof. intros Hl Hx. rewrite forallb_app. rewrite Hl. simpl. rewrite Hx. reflexivity. Qed.

Lemma find_some_forallb {A} (p q : A -> bool) l x :
  forallb p l = true -> find q l = Some x -> p x = true.
Proof.
  intros Hl Hf. apply find_some in Hf as [Hin _].
  rewrite forallb_forall in Hl. auto.
Qed.

Lemma find_ext_forallb {A} (p : A -> bool) (q1 q2 : A -> bool) l :
  forallb p l = true -> (forall x, p x = true -> q1 x = q2 x) -> find q1 l = find q2 l.
Proof.
  intros Hl Hq. induction l as [|x r IH]; simpl; auto.
  simpl in Hl. apply andb_true_iff in Hl as [Hx Hr].
  rewrite (Hq x Hx). destruct (q2 x); auto.
Qed.

Lemma remove_first_ext_forallb {A} (p : A -> bool) (q1 q2 : A -> bool) l :
  forallb p l = true -> (forall x, p x = true -> q1 x = q2 x) -> remove_first q1 l = remove_first q2 l.
Proof.
  intros Hl Hq. induction l as [|x r IH]; simpl; auto.
  simpl in Hl. apply andb_true_iff in Hl as [Hx Hr].
  rewrite (Hq x Hx). destruct (q2 x); auto. rewrite IH; auto.
Qed.

Lemma map_ext_forallb {A B} (p : A -> bool) (f g : A -> B) l :
  forallb p l = true -> (forall x, p x = true -> f x = g x) -> map f l = map g l.
Proof.
  intros Hl Hq. induction l as [|x r IH]; simpl; auto.
  simpl in Hl. apply andb_true_iff in Hl as [Hx Hr].
  rewrite (Hq x Hx), IH; auto.
Qed.

(* ---------------------------------------------------------------- *)
(* retained values *)

Lemma copies_all : forall k, copies k = true.
Proof. destruct k; reflexivity. Qed.

Lemma deref_owned s1 s2 v : owned v = true -> deref s1 v = deref s2 v.
Proof. destruct v; simpl; [reflexivity|discriminate]. Qed.

Definition src_ok (x : src) : bool := match x with FrameSl _ _ => true | Held v => owned v end.

Lemma src_val_indep s1 s2 frame x : src_ok x = true -> src_val s1 frame x = src_val s2 frame x.
Proof. destruct x; simpl; auto. apply deref_owned. Qed.

Lemma retain_owned k s b frame x : owned (retain k s b frame x) = true.
Proof. unfold retain. rewrite copies_all. reflexivity. Qed.

Lemma retain_indep k s1 s2 b1 b2 frame x :
  src_ok x = true -> retain k s1 b1 frame x = retain k s2 b2 frame x.
Proof. intros H. unfold retain. rewrite copies_all. f_equal. apply src_val_indep; auto. Qed.

(* ---------------------------------------------------------------- *)
(* state invariants *)

Lemma no_ref_split st :
  no_ref st = true <-> forallb host_ok (st_hosts st) = true /\ forallb mac_ok (st_macs st) = true.
Proof. unfold no_ref. apply andb_true_iff. Qed.

Section Indep.
Variables (s1 s2 : store) (b1 b2 : nat).

Lemma find_mac_indep mac ms :
  forallb mac_ok ms = true -> find_mac s1 mac ms = find_mac s2 mac ms.
Proof.
  intros H. unfold find_mac. apply find_ext_forallb with (p := mac_ok); auto.
  intros e He. rewrite (deref_owned s1 s2); auto.
Qed.

Lemma mac_find_or_create_indep frame x st :
  no_ref st = true -> src_ok x = true ->
  mac_find_or_create s1 b1 frame x st = mac_find_or_create s2 b2 frame x st.
Proof.
  intros H Hx. apply no_ref_split in H as [Hh Hm]. unfold mac_find_or_create.
  rewrite (src_val_indep s1 s2) by auto. rewrite find_mac_indep by auto.
  destruct (find_mac s2 _ _); auto.
  rewrite (retain_indep _ s1 s2 b1 b2) by auto. reflexivity.
Qed.

Lemma delete_host_indep key st :
  no_ref st = true -> delete_host s1 key st = delete_host s2 key st.
Proof.
  intros H. apply no_ref_split in H as [Hh Hm]. unfold delete_host.
  destruct (find_host key (st_hosts st)) as [h|]; auto.
  set (macs1 := map _ (st_macs st)).
  assert (Hm1 : forallb mac_ok macs1 = true).
  { apply forallb_map_id; auto. intros e He. destruct (Nat.eqb _ _); auto. }
  destruct (me_by_id (h_me h) macs1) as [e|] eqn:He; auto.
  destruct (me_hosts e); auto.
  f_equal. apply remove_first_ext_forallb with (p := mac_ok); auto.
  intros e' He'. unfold me_by_id in He.
  pose proof (find_some_forallb mac_ok _ _ _ Hm1 He) as Hok.
  rewrite (deref_owned s1 s2 (me_mac e')) by exact He'.
  rewrite (deref_owned s1 s2 (me_mac e)) by exact Hok. reflexivity.
Qed.

End Indep.

Lemma mac_find_or_create_no_ref s b frame x st :
  no_ref st = true ->
  no_ref (fst (mac_find_or_create s b frame x st)) = true /\
  mac_ok (snd (mac_find_or_create s b frame x st)) = true.
Proof.
  intros H. pose proof H as H0. apply no_ref_split in H as [Hh Hm]. unfold mac_find_or_create.
  destruct (find_mac s _ _) as [e|] eqn:He; cbn [fst snd].
  - split; [exact H0|]. unfold find_mac in He. apply (find_some_forallb mac_ok _ _ _ Hm He).
  - split.
    + apply no_ref_split; cbn [st_hosts st_macs]. split; [exact Hh|]. apply forallb_snoc; [exact Hm | exact (retain_owned _ _ _ _ _)].
    + exact (retain_owned _ _ _ _ _).
Qed.

Lemma delete_host_no_ref s key st : no_ref st = true -> no_ref (delete_host s key st) = true.
Proof.
  intros H. pose proof H as H0. apply no_ref_split in H as [Hh Hm]. unfold delete_host.
  destruct (find_host key (st_hosts st)) as [h|]; auto.
  set (macs1 := map _ (st_macs st)).
  assert (Hm1 : forallb mac_ok macs1 = true).
  { apply forallb_map_id; auto. intros e He. destruct (Nat.eqb _ _); auto. }
  apply no_ref_split; simpl. split.
  - apply forallb_remove_first; auto.
  - destruct (me_by_id (h_me h) macs1) as [e|]; auto.
    destruct (me_hosts e); auto. apply forallb_remove_first; auto.
Qed.

(* the tail of findOrCreateHostWithLock: create the host and link it *)
Definition fresh_host (s : store) (buf : nat) (frame : bytes) (xmac xip : src) (st0 : state) : state :=
  let key := src_val s frame xip in
  let '(st1, e) := mac_find_or_create s buf frame xmac st0 in
  let h := {| h_ip := retain RP_host_ip s buf frame xip; h_key := key; h_me := me_id e; h_mac := me_mac e |} in
  {| st_hosts := st_hosts st1 ++ [h];
     st_macs := map (fun e' => if Nat.eqb (me_id e') (me_id e)
                               then {| me_id := me_id e'; me_mac := me_mac e'; me_hosts := me_hosts e' ++ [key] |}
                               else e') (st_macs st1);
     st_next := st_next st1 |}.

Lemma find_or_create_host_unfold s buf frame xmac xip st :
  find_or_create_host s buf frame xmac xip st =
  let key := src_val s frame xip in
  let mac := src_val s frame xmac in
  match find_host key (st_hosts st) with
  | Some h =>
      match me_by_id (h_me h) (st_macs st) with
      | Some e => if beqb (deref s (me_mac e)) mac then st
                  else fresh_host s buf frame xmac xip (delete_host s key st)
      | None => fresh_host s buf frame xmac xip (delete_host s key st)
      end
  | None => fresh_host s buf frame xmac xip st
  end.
Proof. reflexivity. Qed.

Lemma fresh_host_indep s1 s2 b1 b2 frame xmac xip st :
  no_ref st = true -> src_ok xmac = true -> src_ok xip = true ->
  fresh_host s1 b1 frame xmac xip st = fresh_host s2 b2 frame xmac xip st.
Proof.
  intros H Hm Hi. unfold fresh_host.
  rewrite (src_val_indep s1 s2 frame xip) by auto.
  rewrite (mac_find_or_create_indep s1 s2 b1 b2) by auto.
  destruct (mac_find_or_create s2 b2 frame xmac st) as [st1 e].
  rewrite (retain_indep _ s1 s2 b1 b2) by auto. reflexivity.
Qed.

Lemma fresh_host_no_ref s b frame xmac xip st :
  no_ref st = true -> no_ref (fresh_host s b frame xmac xip st) = true.
Proof.
  intros H. unfold fresh_host.
  destruct (mac_find_or_create_no_ref s b frame xmac st H) as [H1 He].
  destruct (mac_find_or_create s b frame xmac st) as [st1 e]. cbn [fst snd] in *.
  apply no_ref_split in H1 as [Hh Hm]. apply no_ref_split; cbn [st_hosts st_macs]. split.
  - apply forallb_snoc; [exact Hh|]. unfold host_ok; cbn [h_ip h_mac]. rewrite retain_owned. exact He.
  - apply forallb_map_id; auto. intros e' He'. destruct (Nat.eqb _ _); auto.
Qed.

Lemma find_or_create_host_indep s1 s2 b1 b2 frame xmac xip st :
  no_ref st = true -> src_ok xmac = true -> src_ok xip = true ->
  find_or_create_host s1 b1 frame xmac xip st = find_or_create_host s2 b2 frame xmac xip st.
Proof.
  intros H Hm Hi. rewrite !find_or_create_host_unfold. cbv zeta.
  rewrite (src_val_indep s1 s2 frame xip) by auto.
  rewrite (src_val_indep s1 s2 frame xmac) by auto.
  pose proof (delete_host_no_ref s2 (src_val s2 frame xip) st H) as Hd.
  destruct (find_host _ _) as [h|].
  - destruct (me_by_id _ _) as [e|] eqn:He.
    + apply no_ref_split in H as [Hh Hms].
      pose proof (find_some_forallb mac_ok _ _ _ Hms He) as Hok.
      rewrite (deref_owned s1 s2 (me_mac e)) by exact Hok.
      destruct (beqb _ _); auto.
      rewrite (delete_host_indep s1 s2) by (apply no_ref_split; auto).
      apply fresh_host_indep; auto.
    + rewrite (delete_host_indep s1 s2) by auto. apply fresh_host_indep; auto.
  - apply fresh_host_indep; auto.
Qed.

Lemma find_or_create_host_no_ref s b frame xmac xip st :
  no_ref st = true -> no_ref (find_or_create_host s b frame xmac xip st) = true.
Proof.
  intros H. rewrite find_or_create_host_unfold. cbv zeta.
  pose proof (delete_host_no_ref s (src_val s frame xip) st H) as Hd.
  destruct (find_host _ _) as [h|].
  - destruct (me_by_id _ _) as [e|].
    + destruct (beqb _ _); auto. apply fresh_host_no_ref; auto.
    + apply fresh_host_no_ref; auto.
  - apply fresh_host_no_ref; auto.
Qed.

Lemma parse_hosts_indep c s1 s2 b1 b2 frame st :
  no_ref st = true -> parse_hosts c s1 b1 frame st = parse_hosts c s2 b2 frame st.
Proof.
  intros H. unfold parse_hosts.
  repeat match goal with |- context [if ?b then _ else _] => destruct b end; auto;
    apply find_or_create_host_indep; auto.
Qed.

Lemma parse_hosts_no_ref c s b frame st :
  no_ref st = true -> no_ref (parse_hosts c s b frame st) = true.
Proof.
  intros H. unfold parse_hosts.
  repeat match goal with |- context [if ?b then _ else _] => destruct b end; auto;
    apply find_or_create_host_no_ref; auto.
Qed.

Lemma init_state_no_ref c : no_ref (init_state c) = true.
Proof. unfold init_state. repeat apply find_or_create_host_no_ref. reflexivity. Qed.

(* ---------------------------------------------------------------- *)
(* observations *)

Lemma dump_indep s1 s2 st : no_ref st = true -> dump s1 st = dump s2 st.
Proof.
  intros H. apply no_ref_split in H as [Hh Hm]. unfold dump. f_equal. f_equal; [|f_equal].
  - f_equal. apply map_ext_forallb with (p := host_ok).
    + rewrite forallb_forall in *. intros x Hx. apply Hh.
      unfold sort_by in Hx. revert Hx. generalize (st_hosts st). intros l.
      induction l as [|y r IH]; simpl; auto.
      intros Hin.
      assert (Hins : forall z l', In x (insert_by (fun a b : host => bleb (h_key a) (h_key b)) z l') -> x = z \/ In x l').
      { intros z l'. induction l' as [|w l' IHl]; simpl.
        - intros [E|[]]; auto.
        - destruct (bleb _ _); simpl.
          + intros [E|[E|E]]; auto.
          + intros [E|E]; auto. destruct (IHl E); auto. }
      destruct (Hins _ _ Hin); subst; auto.
    + intros h Hk. unfold host_ok in Hk. apply andb_true_iff in Hk as [Hi Hmac]. unfold show_host.
      rewrite (deref_owned s1 s2 (h_ip h)), (deref_owned s1 s2 (h_mac h)); auto.
  - f_equal. apply map_ext_forallb with (p := mac_ok); auto.
    intros e He. unfold show_mac. rewrite (deref_owned s1 s2 (me_mac e)); auto.
Qed.

(* ---------------------------------------------------------------- *)
(* steps *)

Lemma lstep_indep c s1 s2 o st : no_ref st = true -> lstep c s1 o st = lstep c s2 o st.
Proof.
  intros H. destruct o as [keys|]; simpl.
  - f_equal. revert st H. induction keys as [|k r IH]; simpl; auto.
    intros st H. rewrite (delete_host_indep s1 s2) by auto. apply IH. apply delete_host_no_ref; auto.
  - f_equal. apply dump_indep; auto.
Qed.

Lemma lstep_no_ref c s o st : no_ref st = true -> no_ref (fst (lstep c s o st)) = true.
Proof.
  intros H. destruct o as [keys|]; simpl; auto.
  revert st H. induction keys as [|k r IH]; simpl; auto.
  intros st H. apply IH. apply delete_host_no_ref; auto.
Qed.

Lemma rstep_indep c s1 s2 b1 b2 frame st :
  no_ref st = true -> rstep c s1 b1 frame st = rstep c s2 b2 frame st.
Proof. intros H. unfold rstep. f_equal. apply parse_hosts_indep; auto. Qed.

Lemma rstep_no_ref c s b frame st : no_ref st = true -> no_ref (fst (rstep c s b frame st)) = true.
Proof. intros H. unfold rstep; simpl. apply parse_hosts_no_ref; auto. Qed.

(* ---------------------------------------------------------------- *)
(* histories: reference semantics on the packet-level projection *)

Definition pstep (c : cfg) (acc : state * list string) (p : pop) : state * list string :=
  match p with
  | PRecv f => let '(st, o) := rstep c [] 0 f (fst acc) in (st, snd acc ++ [o])
  | PLib o => let '(st, r) := lstep c [] o (fst acc) in (st, snd acc ++ [r])
  end.
Definition prun (c : cfg) (p : list pop) (acc : state * list string) : state * list string :=
  fold_left (pstep c) p acc.
Definition ptranscript (c : cfg) (p : list pop) : list string :=
  let r := prun c p (init_state c, []) in snd r ++ [dump [] (fst r)].

Lemma estep_sim c w e :
  no_ref (w_state w) = true ->
  let w' := estep c w e in
  (w_state w', w_out w') = prun c (proj1 e) (w_state w, w_out w) /\ no_ref (w_state w') = true.
Proof.
  intros H. destruct e as [buf frame|buf bc|o]; unfold prun; cbn [estep proj1 fold_left pstep fst snd].
  - set (s := sset (w_store w) buf (bwrite frame (sget (w_store w) buf))).
    rewrite (rstep_indep c s [] buf 0) by auto.
    pose proof (rstep_no_ref c [] 0 frame (w_state w) H) as Hn.
    destruct (rstep c [] 0 frame (w_state w)) as [st o]. cbn [fst snd w_state w_out] in *. auto.
  - cbn [w_state w_out]. auto.
  - rewrite (lstep_indep c (w_store w) []) by auto.
    pose proof (lstep_no_ref c [] o (w_state w) H) as Hn.
    destruct (lstep c [] o (w_state w)) as [st r]. cbn [fst snd w_state w_out] in *. auto.
Qed.

Lemma prun_app c p q acc : prun c (p ++ q) acc = prun c q (prun c p acc).
Proof. unfold prun. apply fold_left_app. Qed.

Lemma erun_from_sim c h : forall w,
  no_ref (w_state w) = true ->
  let w' := fold_left (estep c) h w in
  (w_state w', w_out w') = prun c (proj h) (w_state w, w_out w) /\ no_ref (w_state w') = true.
Proof.
  induction h as [|e r IH]; intros w H; simpl.
  - auto.
  - destruct (estep_sim c w e H) as [E Hn]. cbv zeta in E.
    destruct (IH (estep c w e) Hn) as [E' Hn']. cbv zeta in E'.
    split; auto. rewrite E'. rewrite prun_app. rewrite <- E. reflexivity.
Qed.

Theorem no_ref_invariant c h : no_ref (w_state (erun c h)) = true.
Proof.
  unfold erun. destruct (erun_from_sim c h (init_world c) (init_state_no_ref c)) as [_ H]. exact H.
Qed.

Theorem transcript_proj c h : transcript c h = ptranscript c (proj h).
Proof.
  unfold transcript, ptranscript, erun.
  destruct (erun_from_sim c h (init_world c) (init_state_no_ref c)) as [E H]. cbv zeta in E, H.
  simpl in E. rewrite <- E. simpl. f_equal. f_equal. apply dump_indep. exact H.
Qed.

(* the general statement: two histories with the same packet-level content
   (whatever buffers the frames arrive in, whatever is scribbled in between)
   have the same transcript *)
Theorem noninterference c h1 h2 : proj h1 = proj h2 -> transcript c h1 = transcript c h2.
Proof. intros E. rewrite !transcript_proj, E. reflexivity. Qed.

Lemma proj_shared scr p : forall i, proj (shared_run scr i p) = p.
Proof. induction p as [|[f|o] r IH]; intros i; simpl; auto; rewrite IH; reflexivity. Qed.
Lemma proj_fresh p : forall n, proj (fresh_run n p) = p.
Proof. induction p as [|[f|o] r IH]; intros n; simpl; auto; rewrite IH; reflexivity. Qed.

Theorem shared_equals_fresh c scr p :
  transcript c (shared_run scr 0 p) = transcript c (fresh_run 0 p).
Proof. apply noninterference. rewrite proj_shared, proj_fresh. reflexivity. Qed.

(* General lemma: on a NoRef state no observation depends on the store. *)
Theorem no_ref_observe_indep s1 s2 st : no_ref st = true -> dump s1 st = dump s2 st.
Proof. apply dump_indep. Qed.

(* non-vacuity: a concrete history with hosts created from ARP, IPv4 and IPv6 frames, a purge and a dump *)
Definition ex_arp : bytes :=
  [255;255;255;255;255;255; 2;0;0;0;0;1; 8;6; 0;1; 8;0; 6;4; 0;1; 2;0;0;0;0;1; 192;168;0;5; 0;0;0;0;0;0; 192;168;0;11].
Definition ex_hist : list pop := [PRecv ex_arp; PLib LDump; PLib (LPurge [[192;168;0;5]]); PRecv ex_arp].

Example ex_hist_creates_host :
  List.length (st_hosts (w_state (erun std_cfg (shared_run (fun _ => {| b_pre := []; b_fill := 165; b_stp := 0 |}) 0 ex_hist)))) = 3%nat.
Proof. vm_compute. reflexivity. Qed.
